COMMON_TB = [
    "Coq 8.16.1 kernel (coqc; coqchk in the thorough tier); vm_compute used to evaluate the model on the harness cases; no native_compute",
    "no axioms declared by the development; Print Assumptions under every property theorem must be 'Closed under the global context' or list only std-lib axioms named in DESIGN.md section 6",
    "hand-written Gallina model tied to /repo by the correspondence run of this check (Go harness built against the working tree; generators, projections and comparator are trusted)",
    "vtrans (go/ast + go/constant) regenerates coq/gen/Consts.v from the Go constants on every run",
]
