"""Per-property configuration of the checks (what is generated, how much, what a disagreement means)."""

COMMON_TB = [
    "Coq 8.16.1 kernel (coqc; coqchk in the thorough tier); vm_compute used to evaluate the model on the harness cases; no native_compute",
    "no axioms declared by the development; Print Assumptions under every property theorem must be 'Closed under the global context' or list only std-lib axioms named in DESIGN.md section 6",
    "hand-written Gallina model tied to /repo by the correspondence run of this check (Go harness built against the working tree; generators, projections and comparator are trusted)",
    "vtrans (go/ast + go/constant) regenerates coq/gen/Consts.v from the Go constants on every run",
]

PROPS = {}

PROPS["C16"] = dict(
    id="C16", tie="Tie.C16", n_quick=3000, n_thorough=20000, thorough_seeds=3,
    rule="structure-aware: every valid encoding (TxMetadata, KVMetadata, TxHeader v0/v1, ExportTx bytes of real "
         "transactions) mutated at every truncation point / boundary byte values / off-by-one length edits / "
         "insertions, plus small-biased random strings; a case is non-trivial when the input is non-empty (for "
         "headers: at least the minimum header length, for ReplicateTx: longer than the length prefix); distinct by "
         "(entry point, input bytes, outcome)",
    trusted_base=COMMON_TB + [
        "modelled: TxMetadata.ReadFrom, KVMetadata.unsafeReadFrom, TxHeader.ReadFrom, ReplicateTx framing "
        "(embedded/store); NOT modelled: goyacc SQL parser, pgsql wire messages, stream chunk parsers, protobuf "
        "(these are outside the theorems of this check)",
        "Go slices handed to the decoders have cap == len (harness clamps them), as the model's sub_ assumes",
    ],
    assumptions=["each Go slice expression is transliterated by hand into a checked primitive (at_/from_/sub_/uint_)"],
)
