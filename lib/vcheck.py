#!/usr/bin/env python3
"""Driver of one property check (see DESIGN.md §2).

  translate  : regenerate coq/gen/*.v from /repo's working tree (vtrans)
  prove      : make the Coq development, re-compile Properties/<id>.v, collect Print Assumptions
  gate       : no Admitted/admit/Axiom/Parameter/... anywhere in coq/
  tie        : Go harness (built against /repo's working tree, tag verif) generates cases and records
               what the implementation did; coqc evaluates the model on the same cases (vm_compute)
               and prints the indices on which they disagree
  findings   : replay of the entries of known_findings.json for this property
  report     : VIOLATION / KNOWN-FINDING lines, evidence/<id>.json, exit status
"""
import json, os, re, shutil, subprocess, sys, time, glob, hashlib

VERIF = os.path.dirname(os.path.dirname(os.path.abspath(__file__)))
REPO = os.environ.get("VERIF_REPO", "/repo")
COQ = os.path.join(VERIF, "coq")
BIN = os.path.join(VERIF, ".cache", "bin")
GOENV = dict(os.environ, GOFLAGS="-mod=mod", GOPROXY="off")
GOENV.pop("GOTOOLCHAIN", None) if os.environ.get("GOTOOLCHAIN") == "local" else None

FORBIDDEN = re.compile(r"\b(Admitted|admit|Axiom|Axioms|Parameter|Parameters|Conjecture|Hypothesis|Hypotheses|Variable|Variables|Admit Obligations|Unset Guard Checking|Unset Positivity Checking|Unset Universe Checking|bypass_check|type-in-type|impredicative-set|native_compute)\b")
# std-lib axioms that may appear under a property theorem (named in DESIGN.md §6)
ALLOWED_AXIOMS = {
    "Coq.Logic.FunctionalExtensionality.functional_extensionality_dep",
    "functional_extensionality_dep",
    "ClassicalDedekindReals.sig_forall_dec", "ClassicalDedekindReals.sig_not_dec",
    "Classical_Prop.classic", "classic",
}

CONST_SPECS = [
    "/embedded/store:st_:txIDSize,tsSize,lszSize,sszSize,offsetSize,attrCodeSize,maxExtraLen,"
    "maxTxMetadataLen,maxKVMetadataLen,truncatedUptoTxAttrCode,extraAttrCode,deletedAttrCode,"
    "expiresAtAttrCode,nonIndexableAttrCode,MaxKeyLen,cLogEntrySizeV1,cLogEntrySizeV2,MaxTxHeaderVersion",
]


def write_coqproject():
    """_CoqProject lists every .v file under coq/ (sorted); Makefile regenerated when the list changes."""
    files = sorted(os.path.relpath(f, COQ) for f in glob.glob(os.path.join(COQ, "**", "*.v"), recursive=True))
    txt = "-Q . V\n" + "\n".join(files) + "\n"
    cp = os.path.join(COQ, "_CoqProject")
    old = open(cp).read() if os.path.exists(cp) else ""
    if old != txt or not os.path.exists(os.path.join(COQ, "Makefile")):
        open(cp, "w").write(txt)
        sh("coq_makefile -f _CoqProject -o Makefile", cwd=COQ, check=True)


def sh(cmd, cwd=None, env=None, timeout=None, check=False):
    p = subprocess.run(cmd, cwd=cwd, env=env, timeout=timeout, stdout=subprocess.PIPE,
                       stderr=subprocess.STDOUT, text=True, shell=isinstance(cmd, str))
    if check and p.returncode != 0:
        raise RuntimeError("command failed: %s\n%s" % (cmd, p.stdout[-4000:]))
    return p.returncode, p.stdout


class Check:
    def __init__(self, cfg, tier, seed):
        self.cfg, self.pid, self.tier, self.seed = cfg, cfg["id"], tier, seed
        self.t0 = time.time()
        self.rundir = os.path.join(VERIF, ".run", self.pid)
        self.violations = []      # (replay path, suffix)
        self.known_lines = []
        self.notes = []
        self.cov = {}
        self.samples = []

    # ---------- build steps ----------
    def build_tools(self):
        os.makedirs(BIN, exist_ok=True)
        rc, out = sh(["go", "build", "-o", os.path.join(BIN, "vtrans"), "./cmd/vtrans"],
                     cwd=os.path.join(VERIF, "harness"), env=GOENV, timeout=900)
        if rc != 0:
            raise RuntimeError("vtrans build failed:\n" + out[-3000:])

    def translate(self):
        args = [os.path.join(BIN, "vtrans"), "consts", os.path.join(COQ, "gen", "Consts.v")]
        args += [REPO + s for s in CONST_SPECS]
        rc, out = sh(args, timeout=120)
        if rc != 0:
            return "translator (constants) failed: " + out[-2000:]
        for extra in self.cfg.get("translate", []):
            rc, out = sh([os.path.join(BIN, "vtrans")] + [a.replace("$REPO", REPO).replace("$COQ", COQ) for a in extra], timeout=300)
            if rc != 0:
                return "translator %s failed: %s" % (extra[0], out[-2000:])
        return None

    def closure(self):
        """.v files the property theorems and the tie depend on (transitively), from coqdep"""
        write_coqproject()
        rc, out = sh("coqdep -f _CoqProject 2>/dev/null", cwd=COQ)
        deps = {}
        for line in out.splitlines():
            if ":" not in line:
                continue
            lhs, rhs = line.split(":", 1)
            tgt = [t for t in lhs.split() if t.endswith(".vo")]
            if not tgt:
                continue
            deps[tgt[0][:-1]] = [d[:-1] for d in rhs.split() if d.endswith(".vo")]
        todo = ["Properties/%s.v" % self.pid, "Tie/%s.v" % self.pid]
        seen = set()
        while todo:
            f = todo.pop()
            if f in seen:
                continue
            seen.add(f)
            todo += deps.get(f, [])
        return sorted(os.path.join(COQ, f) for f in seen if os.path.exists(os.path.join(COQ, f)))

    def gate(self):
        bad = []
        files = self.closure()
        self.cov["coq_files"] = [os.path.relpath(f, COQ) for f in files]
        self.cov["coq_lines"] = sum(len(open(f).read().splitlines()) for f in files)
        for f in files:
            txt = open(f).read()
            txt = re.sub(r"\(\*.*?\*\)", "", txt, flags=re.S)
            for m in FORBIDDEN.finditer(txt):
                # `Variable`/`Hypothesis` are allowed inside Sections only
                if m.group(1) in ("Variable", "Variables", "Hypothesis", "Hypotheses"):
                    pre = txt[:m.start()]
                    if len(re.findall(r"^\s*Section\s", pre, flags=re.M)) > len(re.findall(r"^\s*End\s", pre, flags=re.M)):
                        continue
                bad.append("%s: %s" % (os.path.relpath(f, VERIF), m.group(1)))
        return bad

    def prove(self):
        """returns (obligations, discharged, assumptions text, error or None)"""
        write_coqproject()
        prop_v = os.path.join(COQ, "Properties", self.pid + ".v")
        src = open(prop_v).read()
        names = re.findall(r"^\s*Theorem\s+(\w+)", src, flags=re.M)
        for ext in (".vo", ".glob", ".vok", ".vos"):
            try:
                os.remove(prop_v[:-2] + ext)
            except FileNotFoundError:
                pass
        rc, out = sh("timeout 3000 make -j16 Properties/%s.vo Tie/%s.vo" % (self.pid, self.pid), cwd=COQ, timeout=3100)
        if rc != 0:
            # which theorems precede the failure?
            m = re.search(r'File "\./Properties/%s\.v", line (\d+)' % self.pid, out)
            done = 0
            if m:
                upto = "\n".join(src.split("\n")[:int(m.group(1)) - 1])
                done = len(re.findall(r"^\s*Qed\.", upto, flags=re.M))
            return names, names[:done], out, "Coq build failed:\n" + out[-3000:]
        # Print Assumptions output: one block per theorem, in order
        blocks = re.split(r"(?=Closed under the global context|Axioms:)", out)
        blocks = [b for b in blocks if b.startswith("Closed under") or b.startswith("Axioms:")]
        bad_axioms = []
        for b in blocks:
            if b.startswith("Axioms:"):
                for ax in re.findall(r"^([A-Za-z_][\w.']*)\s*:", b, flags=re.M):
                    if ax == "Axioms":
                        continue
                    if ax not in ALLOWED_AXIOMS and ax.split(".")[-1] not in ALLOWED_AXIOMS:
                        bad_axioms.append(ax)
        err = None
        if len(blocks) != len(names):
            err = "expected %d Print Assumptions blocks, saw %d" % (len(names), len(blocks))
        if bad_axioms:
            err = "property theorems depend on undeclared axioms: %s" % bad_axioms
        self.assumption_blocks = blocks
        return names, ([] if err else names), out, err

    def build_harness(self):
        tags = "verif"
        rc, out = sh(["go", "build", "-tags", tags, "-o", os.path.join(BIN, "vh-" + self.pid), "./%s/cmd" % self.pid.lower()],
                     cwd=os.path.join(VERIF, "harness"), env=GOENV, timeout=1800)
        if rc != 0:
            return "harness does not build against /repo's working tree:\n" + out[-3000:]
        return None

    # ---------- correspondence ----------
    def tie(self, n, seed, sub, replay_file=None):
        d = os.path.join(self.rundir, sub)
        shutil.rmtree(d, ignore_errors=True)
        os.makedirs(d)
        env = dict(GOENV, VERIF_TIER=self.tier)
        if replay_file:
            cmd = [os.path.join(BIN, "vh-" + self.pid), "replay", "-case", replay_file, "-out", d]
        else:
            cmd = [os.path.join(BIN, "vh-" + self.pid), "gen", "-seed", str(seed), "-n", str(n), "-out", d]
        rc, out = sh(cmd, env=env, timeout=self.cfg.get("gen_timeout", 1500))
        if rc != 0:
            return None, "harness run failed (rc=%d): %s" % (rc, out[-3000:])
        shards = sorted(glob.glob(os.path.join(d, "cases_*.v")))
        procs = []
        mism, errs = [], []
        maxpar = 16
        pending = list(shards)
        running = []
        def reap(p, f):
            out = p.communicate()[0]
            if p.returncode != 0:
                errs.append("%s: %s" % (os.path.basename(f), out[-1500:]))
                return
            flat = out.replace("\n", " ")
            for m in re.finditer(r"M\d+\s*=\s*\[(.*?)\]\s*:\s*list N", flat):
                body = m.group(1).strip()
                if body:
                    mism.extend(int(x) for x in re.findall(r"\d+", body))
        while pending or running:
            while pending and len(running) < maxpar:
                f = pending.pop(0)
                p = subprocess.Popen(["timeout", "1500", "coqc", "-Q", COQ, "V", f], cwd=d,
                                     stdout=subprocess.PIPE, stderr=subprocess.STDOUT, text=True)
                running.append((p, f))
            p, f = running.pop(0)
            reap(p, f)
        stats = json.load(open(os.path.join(d, "stats.json")))
        if errs:
            return None, "model evaluation failed: " + "; ".join(errs)[:3000]
        cases = {}
        want = set(mism)
        sample_idx = set(range(0, stats["cases"], max(1, stats["cases"] // 6)))
        with open(os.path.join(d, "cases.jsonl")) as fh:
            for i, line in enumerate(fh):
                if i in want or i in sample_idx:
                    cases[i] = json.loads(line)
        return {"stats": stats, "mismatches": sorted(want), "cases": cases, "dir": d,
                "samples": [cases[i] for i in sorted(sample_idx) if i in cases]}, None

    # ---------- reporting ----------
    def write_replay(self, name, obj):
        os.makedirs(os.path.join(VERIF, "replays"), exist_ok=True)
        path = os.path.join(VERIF, "replays", "%s-%s.json" % (self.pid, name))
        with open(path, "w") as fh:
            json.dump(obj, fh, indent=1)
        return path

    def violation(self, name, obj, found_input):
        path = self.write_replay(name, obj)
        self.violations.append((path, "" if found_input else " no-failing-input-found"))

    def finish(self, level="proof"):
        ev = {
            "property_id": self.pid, "tier": self.tier, "seed": self.seed, "level": level,
            "coverage": dict(self.cov, samples=self.samples[:8] or ["(none)"]),
            "assumptions": self.cfg.get("assumptions", []),
            "wall_s": round(time.time() - self.t0, 2),
            "violations": len(self.violations),
            "notes": self.notes,
        }
        os.makedirs(os.path.join(VERIF, "evidence"), exist_ok=True)
        with open(os.path.join(VERIF, "evidence", self.pid + ".json"), "w") as fh:
            json.dump(ev, fh, indent=1, default=str)
        for l in self.known_lines:
            print(l)
        for path, suffix in self.violations:
            print("VIOLATION property=%s replay=%s%s" % (self.pid, path, suffix))
        sys.stdout.flush()
        return 1 if self.violations else 0


def known_findings(pid):
    p = os.path.join(VERIF, "known_findings", pid + ".json")
    if not os.path.exists(p):
        return []
    return [f for f in json.load(open(p)).get("findings", []) if f["property"] == pid and f.get("status") == "known"]


def standard_check(cfg, tier, seed, classify, replay_file=None):
    """The common flow. classify(case_json) -> True when the case by itself exhibits a violation of
    the property statement on the implementation (concrete failing input)."""
    c = Check(cfg, tier, seed)
    pid = cfg["id"]
    import fcntl
    os.makedirs(os.path.join(VERIF, ".cache"), exist_ok=True)
    lock = open(os.path.join(VERIF, ".cache", "build.lock"), "w")
    try:
        fcntl.flock(lock, fcntl.LOCK_EX)
        c.build_tools()
        terr = c.translate()
        bad = c.gate()
        names, done, out, perr = c.prove() if not terr else ([], [], "", terr)
        c.cov.update({
            "obligations": len(names), "discharged": len(done),
            "theorems": names,
            "checker_cmd": "make -C coq -j16 Properties/%s.vo  (coqc 8.16.1 kernel; Print Assumptions under every theorem)%s"
                           % (pid, "; coqchk -silent -o" if tier == "thorough" else ""),
            "trusted_base": cfg.get("trusted_base", []),
            "print_assumptions": [b.strip()[:400] for b in getattr(c, "assumption_blocks", [])],
        })
        herr = c.build_harness()
        fcntl.flock(lock, fcntl.LOCK_UN)
        proof_broken = bool(perr or bad)
        if bad:
            perr = (perr or "") + " forbidden constructs: %s" % bad
        ties = []
        if not herr:
            n = cfg["n_quick"] if tier == "quick" else cfg["n_thorough"]
            seeds = [seed] if tier == "quick" else [seed + k for k in range(cfg.get("thorough_seeds", 3))]
            if replay_file:
                seeds = [seed]
            for k, s in enumerate(seeds):
                res, err = c.tie(n, s, "tie%d" % k, replay_file)
                if err:
                    herr = err
                    break
                ties.append(res)
        # ---- evaluate
        total = sum(t["stats"]["cases"] for t in ties)
        nontriv = sum(t["stats"]["distinct_nontrivial"] for t in ties)
        buckets = {}
        for t in ties:
            for k, v in t["stats"]["buckets"].items():
                buckets[k] = buckets.get(k, 0) + v
        c.cov.update({"evaluations": total, "distinct_nontrivial": nontriv, "rule": cfg["rule"],
                      "input_distribution": buckets,
                      "disagreements": sum(len(t["mismatches"]) for t in ties)})
        for t in ties:
            c.samples += t["samples"][:4]
            for extra_k in ("extra",):
                if extra_k in t["stats"]:
                    c.cov.setdefault("harness_extra", t["stats"][extra_k])
        known = known_findings(pid)
        reported = 0
        for t in ties:
            for f in t["stats"].get("findings") or []:
                kf = next((k for k in known if k["match"] in f), None)
                if kf:
                    line = "KNOWN-FINDING: property=%s %s" % (pid, kf["what"])
                    if line not in c.known_lines:
                        c.known_lines.append(line)
                    continue
                if reported < 5:
                    c.violation("seed%d-finding%d" % (t["stats"]["seed"], reported),
                                {"property": pid, "kind": "implementation violates the property statement (falsifier)",
                                 "what": f, "seed": t["stats"]["seed"], "tier": tier}, True)
                reported += 1
            for i in t["mismatches"]:
                cs = t["cases"].get(i, {})
                if reported < 5:
                    c.violation("seed%d-case%d" % (t["stats"]["seed"], i),
                                {"property": pid, "kind": "correspondence disagreement: implementation vs Coq model (" + cfg["tie"] + ".case_ok)",
                                 "case": cs, "seed": t["stats"]["seed"], "tier": tier,
                                 "replay": "bin/check %s --replay <this file>" % pid},
                                bool(classify(cs)))
                reported += 1
        if herr:
            c.violation("harness", {"property": pid, "kind": "correspondence could not be run", "error": herr}, False)
        if proof_broken:
            c.violation("proof", {"property": pid, "kind": "proof obligation no longer checks",
                                  "theorems_not_discharged": [n for n in names if n not in done],
                                  "error": perr}, False)
        if tier == "thorough" and not proof_broken:
            rc, out = sh("timeout 3000 coqchk -silent -o -Q . V V.Properties.%s" % pid, cwd=COQ, timeout=3100)
            c.cov["coqchk"] = out[-1500:]
            if rc != 0:
                c.violation("coqchk", {"property": pid, "kind": "coqchk rejected the compiled proofs", "output": out[-3000:]}, False)
        return c.finish()
    except Exception as e:  # machinery failure: report, never silently pass
        import traceback
        c.notes.append("internal error: %s" % traceback.format_exc()[-2000:])
        c.violation("internal", {"property": pid, "kind": "check machinery failed", "error": str(e)[-3000:]}, False)
        c.cov.setdefault("obligations", 1); c.cov.setdefault("discharged", 0)
        c.cov.setdefault("checker_cmd", "n/a"); c.cov.setdefault("trusted_base", [])
        return c.finish()
