"""C10 — Timed B-tree equals a multi-version ordered map; snapshots are immutable."""

from common_tb import COMMON_TB


CFG = dict(
    id="C10", tie="Tie.C10", n_quick=900, n_thorough=3600, thorough_seeds=3, gen_timeout=2400,
    rule="one case = one random configuration (MaxNodeSize = required minimum + 0..1000 so that most trees are 3-6 levels "
         "deep, max key/value size 1..6, flush threshold 1..100000, buffered-size limit, cleanup percentage, compaction "
         "threshold, max active snapshots, cache size 1..1M, file size 256..4M) and one random sequence of 8..37 (thorough: "
         "..167) operations on a real tbtree in a temp dir: bulk inserts (repeated keys inside a batch, same-ts re-inserts, "
         "zero/explicit/mixed timestamps, malformed batches), IncreaseTs, FlushWith/Flush with cleanup 0..100, Sync, Compact, "
         "Close+Open, snapshots (requested ts, renewal period elapsed or not), Get/GetBetween/History/GetWithPrefix/Ts on "
         "the tree and on open snapshots, Readers with every combination of seek/end/prefix/inclusiveness/direction/"
         "offset in the three modes (latest, history, ReadBetween) partly read later or concurrently with the writer, "
         "HistoryReaders; four fixed probe cases first (the inputs of the repaired defects: GetBetween chain overrun, tree "
         "emptied by a rejected batch after restart, snapshot reader vs. synced cleanup flush, parallel inserts over "
         "more chunk files than the multiapp cache holds); nodes-log max opened files default/1/2; profiles mixed / "
         "deep (minimal nodes) / adversarial / rollback (half of them right after a restart); a case is non-trivial when "
         "the tree held at least 2 keys and at least 5 operations ran; distinct by the whole recorded sequence",
    trusted_base=COMMON_TB + [
        "modelled (coq/Index/BTree.v, TBState.v): leaf/inner nodes, both binary searches, updateOnInsert rules, batch "
        "grouping, size()/split()/splitIndex, root growth, node timestamps, get/getBetween/history, findLeafNode, Reader "
        "and HistoryReader, flush (older versions become a history block), lastSnapRoot/snapshot selection, rollback of "
        "a failed insert, IncreaseTs, Compact/Close/Open folder choice and TIMESTAMP file",
        "abstracted (covered by the correspondence run only): pointers/copy-on-write (nodes and snapshots are values), "
        "the history log (a leaf value carries the blocks its hOff chain denotes; block 0 of the log is a parameter), "
        "node/commit-entry serialisation, checksums, cache eviction, file rotation, cleanup/discard of old node data, fsync "
        "(temp dirs live on /dev/shm when present, else os.MkdirTemp default)",
        "the Go oracle harness/c10/oracle.go restates coq/Index/MVMap.v by hand (direct falsifier)",
    ],
    assumptions=[
        "not exercised: Compact concurrent with flushes (Compact's fullDump reads through a snapshot that is not registered "
        "in t.snapshots, so a concurrent synced flush with cleanup could discard nodes the dump still reads; the harness "
        "runs Compact only between operations)",
        "theorem premises: MaxNodeSize >= requiredNodeSize(MaxKeySize, MaxValueSize) (cfg_ok, enforced by Options.Validate); "
        "keys handed to BulkInsert are byte strings (ops_bytes_ok, always true of Go []byte) for the declarative reader "
        "spec; counts (history count, offsets) fit uint64",
        "node timestamps (Ts(), the ts a snapshot reports) are compared by the correspondence run and the Go oracle on every "
        "case but are related to the map by theorems only through snapshot_not_older_than_requested",
        "each critical section of tbtree (rwmutex) executes atomically as one model step; concurrent readers on snapshots "
        "are exercised by the harness (goroutines reading while the writer proceeds) but not modelled as interleavings",
        "a snapshot is identified by the harness with the state the tree had at the logical time Snapshot.Ts() reports",
    ],
)


def classify(c):
    """True when the recorded behaviour of the implementation on this case by itself violates the property statement:
    the direct oracle (abstract multi-version map) disagreed with an output of the implementation."""
    return bool(c.get("oracle_violation"))
