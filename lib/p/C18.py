"""C18 — access control.  Translator route: the permission tables, the RPC list and the per-handler
guard sequences are regenerated from /repo's Go source on every run (harness/cmd/vtrans-auth ->
coq/gen/AuthTables.v, Rpcs.v, Gates.v), the theorems of coq/Properties/C18.v are re-checked against
them, and the full (RPC x user kind x credential x database x session state) matrix is run against
a real in-process server and compared with the Coq decision function."""
import os, subprocess

import vcheck
from common_tb import COMMON_TB

CFG = dict(
    id="C18", tie="Tie.C18", n_quick=1, n_thorough=1, thorough_seeds=1, gen_timeout=2400,
    rule="EXHAUSTIVE finite matrix, no sampling (the case budget is ignored): every RPC of the three gRPC services "
         "registered by ImmuServer.Initialize (ImmuService unary+streaming, DocumentService, AuthorizationService; 93 RPCs, "
         "each with a driver — a descriptor entry without driver is reported) x user kind {sysadmin, admin, read-write, "
         "read, no permission} x credential {none, session id, login token, login token of a user with a second live login} "
         "x database {own, other, systemdb, none} (selected by the credential and named in the request) x state of the "
         "credential {valid, expired, user deactivated after issue, permission REVOKEd after issue, permission replaced by a "
         "GRANT of the next lower level after issue, ... of the next higher level after issue}, with authentication on; "
         "plus every RPC in maintenance mode (no credential / anonymous token per database) and with authentication off. "
         "Plus, for every RPC that serves several requests on one stream (StreamExportTx): two requests on ONE open stream "
         "with the credential invalidated in between (nothing / SetActiveUser(false) / ChangePermission REVOKE / GRANT of a "
         "lower permission / CloseSession-Logout), oracle: the second request is refused. "
         "Each cell is ONE real gRPC call through the server's own interceptor chain over bufconn; recorded: refused "
         "(PermissionDenied/Unauthenticated or one of immudb's fixed refusal texts) vs. through, and which databases got a "
         "new transaction. CELL count is input_distribution['_cells_total'] (about 20 000, per outcome under 'cells .../...'); "
         "the Coq side receives them as ONE CASE PER GROUP of at most 31 cells of the same credential context (so "
         "'evaluations' counts groups, about 650, plus 93 specification rows; a replay re-runs the group cell by cell). "
         "Impossible combinations are skipped and counted under '_skipped: ...' or not planned (sessions without database, "
         "deactivating/re-permissioning the sysadmin, lowering read / raising admin, CreateUser/ChangeSQLPrivileges naming "
         "systemdb). Every group is non-trivial; distinct by the whole term.",
    trusted_base=COMMON_TB + [
        "vtrans-auth (harness/cmd/vtrans-auth, go/parser+go/ast): extraction of methodsPermissions/maintenanceMethods, of the "
        "service descriptors, of the interceptor chains and, per handler, of the ordered guards (config tests, getDBFromCtx "
        "literal, getLoggedInUserdataFromCtx, session/transaction look-ups, `if !IsSysAdmin && !HasPermission(..) {return err}` "
        "refusals, calls to other ImmuServer methods inlined); guards inside conditions it does not interpret are tagged COpaque "
        "and skipped by the model",
        "hand-written in coq/Auth/Policy.v and tied only by the matrix run: getDBFromCtx, getLoggedInUserdataFromCtx, "
        "token/session validation and the login counter, SessionAuthInterceptor (WHETHER SetActiveUser / ChangePermission "
        "invalidate unconditionally is read from the generated gate table: steps AInvLogin/AInvSess), the SQL engine's statement check "
        "(Engine.checkUserPermissions via multidbHandler.GetLoggedUser), and the specification table (class of each RPC)",
        "NOT modelled / not in the matrix: SQL statements that administer users/databases (multidbHandler paths), custom SQL "
        "privilege grants, the pgsql wire server, the REST gateway, non-local clients with authentication off "
        "(auth.ServerUnaryInterceptor's local-address test), mTLS, request contents beyond one harmless request per RPC",
        "outcome classification of the harness: gRPC codes PermissionDenied/Unauthenticated plus a fixed list of immudb "
        "refusal texts (harness/c18/calls.go refusalTexts); any other error counts as 'reached the operation'",
        "add-only hook /repo/pkg/server/verif_hooks_c18.go (build tag verif): reads tx counts, probes credentials",
    ],
    assumptions=["one harmless request per RPC stands for the RPC (permission decisions do not depend on request contents "
                 "other than the database / user names, which the matrix varies)"],
)


def classify(c):
    """True when a recorded cell (of the group) by itself violates the property statement (the harness' direct oracle said so)."""
    return bool(c.get("violates"))


def translate():
    env = dict(os.environ, GOFLAGS="-mod=mod", GOPROXY="off")
    p = subprocess.run(["go", "build", "-o", os.path.join(vcheck.BIN, "vtrans-auth"), "./cmd/vtrans-auth"],
                       cwd=os.path.join(vcheck.VERIF, "harness"), env=env, stdout=subprocess.PIPE, stderr=subprocess.STDOUT, text=True)
    if p.returncode != 0:
        return "vtrans-auth does not build:\n" + p.stdout[-2000:]
    p = subprocess.run([os.path.join(vcheck.BIN, "vtrans-auth"), "auth", vcheck.REPO, os.path.join(vcheck.COQ, "gen")],
                       stdout=subprocess.PIPE, stderr=subprocess.STDOUT, text=True, timeout=300)
    if p.returncode != 0:
        return "vtrans-auth could not translate /repo (permission tables / service descriptors / handlers no longer have " \
               "the shape it understands):\n" + p.stdout[-2000:]
    return None


def run(tier, seed, replay):
    os.makedirs(vcheck.BIN, exist_ok=True)
    import fcntl
    os.makedirs(os.path.join(vcheck.VERIF, ".cache"), exist_ok=True)
    with open(os.path.join(vcheck.VERIF, ".cache", "build.lock"), "w") as lock:
        fcntl.flock(lock, fcntl.LOCK_EX)
        err = translate()
        fcntl.flock(lock, fcntl.LOCK_UN)
    if err:
        c = vcheck.Check(CFG, tier, seed)
        c.cov.update({"obligations": 12, "discharged": 0, "checker_cmd": "n/a (translation failed)", "trusted_base": CFG["trusted_base"]})
        c.violation("translate", {"property": "C18", "kind": "translator failed: the Coq tables could not be regenerated from /repo",
                                  "error": err}, False)
        return c.finish()
    return vcheck.standard_check(CFG, tier, seed, classify, replay)
