"""C12 — SQL integrity constraints hold in every reachable state."""

from common_tb import COMMON_TB


CFG = dict(
    id="C12", tie="Tie.C12", n_quick=350, n_thorough=1500, thorough_seeds=3,
    rule="a case is one history on a fresh table t(id INTEGER [AUTO_INCREMENT] PK, v INTEGER [NOT NULL], s VARCHAR[1..4]) "
         "[CHECK (v >= 0)]: 12 scripted histories (the witnesses of every defect found and since repaired, honest concurrent duplicates, "
         "delete/re-insert, auto-increment mixed with explicit ids) plus random histories of 8-26 events by 1 session (60%) "
         "or 2 sessions interleaved under a random schedule (40%): autocommit statements, multi-statement implicit "
         "transactions, BEGIN/statement/COMMIT/ROLLBACK, CREATE [UNIQUE] INDEX on populated tables; statements: INSERT "
         "(1-3 rows), UPSERT, INSERT ON CONFLICT DO NOTHING / DO UPDATE SET, UPDATE of v or s (by id or all rows), DELETE (by id or all rows); "
         "ids 1..5 (+0,-1,7,9,1000), v in {0,1,10,20,30} (+negatives, 2^40, NULL, non-numeric strings), s around the declared "
         "length (len-1, len, len+1, longer, empty, NULL, integers); every event's outcome (ok/error) and the whole table after "
         "it are compared with the model; non-trivial = the table changed at least twice and at least one event failed; "
         "distinct by the whole history and observations",
    trusted_base=COMMON_TB + [
        "modelled (coq/SQLCons/Model.v): UpsertIntoStmt.execAt, doUpsert, deprecateIndexEntries, UpdateStmt.execAt, "
        "DeleteFromStmt.execAt, CreateIndexStmt.execAt's emptiness test, NewTx/loadMaxPK, OngoingTx read-set recording "
        "(Get, GetWithPrefix, key readers) and checkPreconditions, the indexer's injective mapping for the unique index; "
        "one table, three columns, constants only in SET/VALUES",
        "NOT modelled: other column types, multi-column keys/indexes, expressions (v = v + 1), DEFAULT, ALTER TABLE, "
        "JSON, DDL inside a multi-statement transaction (never generated; the model rejects it), the SQL parser; string "
        "literals holding decimal numerals and integer literals outside int64 (implicit conversions) are outside the "
        "generated input space",
        "the early return of checkPreconditions for a snapshot newer than the last precommitted transaction is modelled as "
        "full validation (equivalent when replaying reads on an unchanged state succeeds; exercised by every "
        "multi-statement case of the correspondence run)",
        "tbtree readers are modelled as order-preserving scans of the materialised key list; the primary index is keyed by "
        "the integer primary key (order preservation of the INTEGER key encoding is C15's subject)",
        "each critical section (statement execution against a snapshot, commit with validation) executes atomically, as "
        "the harness drives both sessions from one goroutine; every engine call is bounded by a 20 s watchdog and an "
        "engine that stops answering (e.g. an indexer stuck on an entry it cannot map) is reported as a finding",
        "direct checks on the implementation (falsifier): after every event the table read back through the primary index is "
        "checked against PK uniqueness, NOT NULL, CHECK, type/length, UNIQUE index duplicates, 'a failed event changes "
        "nothing' and 'INSERT never changes an existing row'; a duplicate is attributed to the known first-key defect only "
        "when a probe of the store index taken before the statement ran shows a tombstone first under that value prefix",
    ],
    assumptions=[
        "Go control flow transliterated by hand; every observable difference on the generated histories is a reported disagreement",
        "the theorems and the correspondence run are about the model with the three repairs this check led to switched on "
        "(fixed_code = the code as it is: c876bb2, 12bf3b7, a77403f); what the code before them violated stays "
        "machine-checked in coq/SQLCons/Refuted.v (old_code), and the scripted histories that exposed each defect run on "
        "every check, where a recurrence is a direct finding (VIOLATION)",
    ],
    gen_timeout=1500,
)


def classify(c):
    """True when the recorded behaviour of the implementation on this case is, by itself, a violation of the
    property statement (some direct constraint check failed on the table read back from the real engine)."""
    return bool(c.get("viol"))
