"""C12 — SQL integrity constraints hold in every reachable state."""

from common_tb import COMMON_TB


CFG = dict(
    id="C12", tie="Tie.C12", n_quick=300, n_thorough=1500, thorough_seeds=3,
    rule="two streams. (A) MODELLED stream, compared with the Coq model event by event: one history on a fresh table "
         "t(id INTEGER [AUTO_INCREMENT] PK, v INTEGER [NOT NULL], s VARCHAR[1..4]) [CHECK (v >= 0)] whose UNIQUE index is on "
         "(v) or, for a third of the cases, the composite one on (v, s): 12 scripted histories (the witnesses of every defect "
         "found and since repaired, honest concurrent duplicates, delete/re-insert, auto-increment around maxPK, deprecation "
         "inside one transaction, composite-index updates that change one indexed column and keep the other) plus random "
         "histories of 8-26 events by 1 session (60%) or 2 sessions interleaved under a random schedule (40%): autocommit "
         "statements, multi-statement implicit transactions, BEGIN/statement/COMMIT/ROLLBACK, CREATE [UNIQUE] INDEX on "
         "populated tables; statements: INSERT (1-3 rows), UPSERT, INSERT ON CONFLICT DO NOTHING / DO UPDATE SET, UPDATE of v "
         "or s (by id or all rows), DELETE (by id or all rows); ids 1..5 (+0,-1,7,9,1000), v in {0,1,10,20,30} (+negatives, "
         "2^40, NULL, non-numeric strings), s around the declared length (len-1, len, len+1, longer, empty, NULL, integers); "
         "every event's outcome (ok/error) and the whole table after it are compared with the model; non-trivial = the table "
         "changed at least twice and at least one event failed; distinct by the whole history and observations. (B) WIDE "
         "stream, direct oracle only (counted in the buckets wide/*, not as cases): n/2 random + 4 scripted histories over "
         "generalised schemas - 1-2 tables, single or composite primary key, 2-3 INTEGER value columns (NOT NULL), single and "
         "composite [UNIQUE] indexes, ALTER TABLE ADD COLUMN ([NOT NULL] [DEFAULT]) / DROP COLUMN / RENAME COLUMN - by 2-3 "
         "sessions: DDL in its own autocommit transactions interleaved with open idle / read-only / writing transactions "
         "(incl. a transaction opened on a cold catalog cache and committed after another session's DDL), then DML by fresh "
         "transactions; the tables are read back at random points (not after every event: a read-only transaction warms "
         "the catalog cache) and checked against the constraints DECLARED so far as tracked by the harness from the DDL the "
         "engine accepted: PK and UNIQUE-index duplicates, NOT NULL, readability with the declared columns, no change by "
         "failed events",
    trusted_base=COMMON_TB + [
        "modelled (coq/SQLCons/Model.v): UpsertIntoStmt.execAt, doUpsert, deprecateIndexEntries, UpdateStmt.execAt, "
        "DeleteFromStmt.execAt, CreateIndexStmt.execAt's emptiness test, NewTx/loadMaxPK, OngoingTx read-set recording "
        "(Get, GetWithPrefix, key readers) and checkPreconditions, the indexer's injective mapping for the unique index "
        "(single-column on v, or composite on (v, s): key = concatenation of the encoded columns, sameIndexKey over all "
        "columns); one table, three columns, constants only in SET/VALUES. THE THEOREMS COVER THIS FRAGMENT ONLY",
        "covered by the direct falsifier only (wide stream, no model, no theorem): several tables, composite primary keys, "
        "indexes on other columns, ALTER TABLE ADD/DROP/RENAME COLUMN and DEFAULT, the engine's catalog cache under "
        "concurrent DDL, 3 sessions",
        "neither modelled nor generated: other column types than INTEGER/VARCHAR, expressions (v = v + 1), JSON, DDL "
        "inside a multi-statement transaction (the model rejects it), the SQL parser; string "
        "literals holding decimal numerals and integer literals outside int64 (implicit conversions) are outside the "
        "generated input space",
        "the early return of checkPreconditions for a snapshot newer than the last precommitted transaction is modelled as "
        "full validation (equivalent when replaying reads on an unchanged state succeeds; exercised by every "
        "multi-statement case of the correspondence run)",
        "tbtree readers are modelled as order-preserving scans of the materialised key list; the primary index is keyed by "
        "the integer primary key (order preservation of the INTEGER key encoding is C15's subject)",
        "each critical section (statement execution against a snapshot, commit with validation) executes atomically, as "
        "the harness drives both sessions from one goroutine; every engine call is bounded by a 20 s watchdog and an "
        "engine that stops answering (e.g. an indexer stuck on an entry it cannot map) is reported as a finding",
        "direct checks on the implementation (falsifier): after every event the table read back through the primary index is "
        "checked against PK uniqueness, NOT NULL, CHECK, type/length, UNIQUE index duplicates, 'a failed event changes "
        "nothing' and 'INSERT never changes an existing row'; a duplicate is attributed to the known first-key defect only "
        "when a probe of the store index taken before the statement ran shows a tombstone first under that value prefix",
    ],
    assumptions=[
        "Go control flow transliterated by hand; every observable difference on the generated histories is a reported disagreement",
        "the theorems and the correspondence run are about the model with the three repairs this check led to switched on "
        "(fixed_code = the code as it is: c876bb2, 12bf3b7, a77403f); what the code before them violated stays "
        "machine-checked in coq/SQLCons/Refuted.v (old_code), and the scripted histories that exposed each defect run on "
        "every check, where a recurrence is a direct finding (VIOLATION)",
    ],
    gen_timeout=1500,
)


def classify(c):
    """True when the recorded behaviour of the implementation on this case is, by itself, a violation of the
    property statement (some direct constraint check failed on the table read back from the real engine)."""
    return bool(c.get("viol"))
