"""C09 — corruption of stored data is detected, never served as valid."""
from common_tb import COMMON_TB

CFG = dict(
    id="C09", tie="Tie.C09", n_quick=1700, n_thorough=14000, thorough_seeds=3, gen_timeout=2400,
    rule="real stores in temp dirs, one per configuration (tx header version 0/1 x values embedded / one value log / "
         "several value logs, file sizes 128..4096 so that records span chunk files, tx and key metadata, empty values, "
         "a flate-compressed value log; four with a value cache, VLogCacheSize = 64; one whose tx log holds the dead record of a "
         "discarded pre-committed transaction between committed ones), 4-5 small "
         "transactions each; closed; then one COPY of the directory per "
         "corruption: every v1 transaction but the first carries tx metadata (extra of 2-4 bytes, truncation id, both; one "
         "extra of 250..256 bytes = maxExtraLen); for every offset class of every committed record (each header field, "
         "MdLen, inside the tx metadata the attribute codes / truncation id / extra LENGTH / extra bytes, NEntries, per "
         "entry mdLen, kv-metadata attribute codes / expiry, kLen/key/vLen/vOff/hVal, trailing Alh) every length or "
         "count field gets exactly +1, +2, -1, -2 (always kept by the sampling), and single-bit flips, one byte set to a boundary value, the "
         "whole field randomised, numeric fields +-1/0/max/shifted; dedicated value-reference edits (vLen 0/shorter/"
         "longer/big, every vLogID incl. absent ones, offset of another value, beyond the end, bit 55); 2-3 fields at "
         "once; random runs of 2..41 bytes; zeroed runs; another committed record copied over this one; consistent "
         "rewrites (key / hVal / value / Ts changed, Eh and Alh recomputed, stored Alh replaced); value bytes (bit flips, "
         "random, zeroed) in the value log or in the tx log (embedded); the embedded-values length prefix; physical "
         "bytes of the compressed value log. On each copy: Open, ReadTx, ReadValue TWICE on every entry ReadTx returned "
         "(the second read may be served by the value cache), ReadTxHeader, ReadTxEntry, ExportTx twice, TxReader "
         "ascending (this tx and the next: PrevAlh chain) and descending, DualProof; then, always when key / key length / "
         "key metadata may be affected and for a quarter to a half of the other copies: the index directory is "
         "deleted, the store reopened, indexing awaited for at most 500 ms (an indexer that stops is fine), and the "
         "rebuilt index is scanned without filters, every committed key and the key bytes as altered are looked up "
         "(Get, GetWithPrefix) and every served reference resolved twice: a served key must be a committed key with "
         "its committed transaction, digest, metadata and value; each call under recover() and a timeout. Direct check: error, or byte-identical to what the pristine store returned. Cases "
         "for the model: the tx-log bytes from the record's offset to the end of the log with what ReadTx / ReadTx(skip) / "
         "ReadTxHeader returned (reads that fail: every other copy), the SESSION of value reads of the copy in order "
         "(ReadValue x2 per entry, ExportTx x2) against the model threading the value cache, the pristine records against "
         "the model writer, SHA-256 vectors. vLen is kept below 4 MiB; five regression probes (each is a VIOLATION if it comes back): another committed record copied over a "
         "record (id check, 93c30ce), a value reference past the end of the value log exported as truncated (6fe0104), "
         "vLen = 1 GiB (allocation "
         "measured with runtime.MemStats; fixed by 85f50b0), value-log ids the store does not have (panic fixed by "
         "c6a3ff8), vLen+1 on the compressed log (allocation fixed by 73fe655): each is a VIOLATION if it comes back. A case is non-trivial when bytes the read touches were altered or (pristine "
         "cases) a whole real record/value is involved; distinct by full case content.",
    trusted_base=COMMON_TB + [
        "modelled (coq/Corrupt/TxRecord.v): record layout of performPrecommit (header versions 0 and 1, embedded-values "
        "prefix), appendable.Reader as a byte stream, txDataReader.readHeader/readEntry/buildAndValidateHtree, "
        "Tx.readFrom, the comparison of the decoded id with the requested id (checkTxID), TxEntryDigest_v1_1/_v1_2, TxHeader.innerHash/Alh, htree.BuildWith, ReadValue/readValueAt/"
        "decodeOffset/fetchVLog, the value loop of ExportTx with the end-of-log test of readValueAt (value logs are whole byte strings in the "
        "model: discarded chunks, i.e. genuine truncation, exist only in the harness); metadata codecs from coq/Store/Codec.v",
        "NOT modelled (harness direct check only): compressed value logs (decompressor), multiapp chunking and caches "
        "(txLogCache; the value cache IS modelled, without eviction), the commit log (its entries are not in the corrupted region: offset and size are taken "
        "as given), Open's validation of the last transaction, TxReader, DualProof/LinearProof generation, the indexer and index rebuild (falsifier only), "
        "KV expiry (entries use expiry times in the year 2100), pkg/database and pkg/server/corruption_checker",
        "executable SHA-256 of coq/Merkle/Sha256.v (Coq primitive Uint63 under vm_compute) runs the model and the "
        "witnesses of coq/Corrupt/Witness.v; validated against crypto/sha256 by the CSha cases of this check; every "
        "theorem of Properties/C09.v is about an abstract hash H with 32-byte output",
        "hash assumptions are in the statements (`claim \\/ Collision H`, the proofs exhibit the colliding pair)",
        "the bytes handed to the reader are bytes (each below 256): premise bytes_ok of the binding theorems",
    ],
    assumptions=[
        "the holder passed to ReadTx has as many entry slots as the htree is wide (store.NewTx / the store's pool)",
        "a Go call that has not returned after 120 s is a hang",
    ],
)


def classify(c):
    """True when what the implementation did on this case is by itself a violation of the property statement:
    a panic, or a successful integrity-checked read whose content differs from what was committed."""
    return bool(c.get("violation"))
