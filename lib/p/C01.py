"""C01 — verified reads/writes: proofs are complete and sound (tamper evidence)."""
from common_tb import COMMON_TB

CFG = dict(
    id="C01", tie="Tie.C01", n_quick=1100, n_thorough=3500, thorough_seeds=3,
    rule="real ImmuStore histories in temp dirs (5..40 transactions, 1..15 entries with prefixed keys, KV metadata "
         "deleted/expiring/non-indexable, tx metadata extra, header versions 0 and 1) alternate with synthetic "
         "well-formed histories whose binary linking lags (BlTxID_k any non-decreasing value < k, up to 5 behind; real "
         "TxHeader.Alh(), a real ahtree, proofs assembled as ImmuStore.DualProof assembles them), and with REAL-STORE "
         "histories whose linking lags FROM GENESIS (replica ImmuStore fed through ReplicateTx with re-linked exports of "
         "a primary: several leading transactions with BlTxID 0, then catching up; ImmuStore.DualProof for ALL pairs, "
         "must not fail and must verify; buckets genesislag/*). Per history: the "
         "header list through the model's history checker (wf_histb: ids, PrevAlh chain from sha256(''), BlRoot = "
         "reference tree over the Alh values), Alh of headers, LinearProof terms (inner hashes), Eh = tree over entry "
         "digests, TxEntryDigest/EntrySpecDigest, Tx.Proof(key) (terms compared with the honest proof the completeness "
         "theorem is about: CEntryGen), for small histories ImmuStore.DualProof / the harness' mirror over lagging "
         "histories compared part by part with gen_dual_proof (CDualGen: inclusion, last inclusion, TargetBlTxAlh, linear "
         "and linear-advance parts); for sampled pairs i<=j (incl. i=j, j=last): honest "
         "DualProof / DualProofV2 / LinearProof / LinearAdvanceProof through the Go verifiers and the model "
         "(completeness: must be accepted), then the adversarial stream: each of ~135 single alterations (every header "
         "field of source and target with and without recomputed Alh argument, +-1 on ids, Version 2, NEntries+65536, "
         "metadata; every term list flipped/dropped/duplicated/extended/cleared/swapped; TargetBlTxAlh; linear proof "
         "ids and terms; linear advance proof terms and inclusion proofs; swapped ids / hashes / headers; nil proof / "
         "headers / parts) and sampled 2-3 field combinations, recorded as groups of <= 30 edits of a base call (a "
         "sample also as flat cases); alterations of linear proofs and of entry inclusion proofs (Leaf, Width, terms, "
         "digest, Eh); the forged sessions of coq/Proofs/Refuted.v on the real verifiers (families A: closed by d34d669, B: "
         "lagging headers, C: short inclusion proof, D: over-long inclusion proofs, closed by c59ab5b, with "
         "VerifyDualProof and VerifyDualProofV2); the real pkg/client code "
         "(VerifiedGet, VerifiedGetAt, VerifiedGet of a reference, VerifiedTxByID, VerifiedSet, VerifiedSetReference, "
         "VerifiedZAdd) driven offline through a mocked ServiceClient that answers from real pkg/database.DB instances and "
         "signs states like pkg/server: the genuine database A (the client's locally stored state is always a state of A, "
         "set older than / equal to / newer than the proven transaction) and three self-consistent FORKS (same length "
         "with different content, longer, shorter); per operation and direction: honest answer (must succeed and leave "
         "a state of A), answer from each fork (must fail, stored state untouched), ~45 single-field alterations of the "
         "honest answer (entry value / key / tx id / metadata, every header field of source and target, swapped "
         "headers, TargetBlTxAlh, each proof term list, linear proof, returned Tx header and entries, state signature "
         "absent / flipped; must fail with the state untouched when every verification depends on the field, else at "
         "least return genuine data and keep a state of A) (buckets clientflow/* "
         "count calls). Non-trivial: every case "
         "(each carries at least one hash computation); distinct by full case content; buckets dual*/mut1, mutN, flat "
         "count altered calls, dualgroup* count groups. Falsifier: a Go verifier accepting, against a GENUINE target "
         "state, a source that is not the genuine transaction (header fields or Alh), an entry digest that is not one "
         "of the transaction's against its genuine Eh, a linear-proof source value off the chain; an honest proof "
         "rejected; two headers for one transaction id accepted along one session; a Verified* client call "
         "returning without error something the database does not hold.",
    trusted_base=COMMON_TB + [
        "executable SHA-256 of coq/Merkle/Sha256.v (primitive Uint63 integers under vm_compute) only to run the model "
        "(validated by byte-identical Alh values / roots on every run); every theorem is about an abstract hash H and "
        "concludes `claim \\/ Collision H`",
        "modelled (transliterated): TxHeader.innerHash/Alh (versions 0/1, truncating casts, panic on other versions), "
        "leafFor, advanceLinearHash, VerifyLinearProof, VerifyLinearAdvanceProof, VerifyDualProof, VerifyDualProofV2, "
        "EntrySpecDigest_v0/_v1, TxEntryDigest_v1_1/_v1_2, store.VerifyInclusion; ahtree.VerifyConsistency = "
        "verify_consistency_fixed of coq/Merkle/VerifyFixed.v (05f2785); the Merkle verifiers and their "
        "soundness / inclusion completeness come from C08 (coq/Merkle). The honest proofs of Proofs/Gen.v (what the "
        "completeness theorems are about, consistency terms = cons_ref of coq/Merkle/AHTCons.v) are compared with the "
        "store's on every run; the AHtree digest-log model and the completeness of VerifyConsistency come from C08, the pkg/client and pkg/verification flows (which side is "
        "trusted is reflected in the theorem statements and in Proofs/Session.v; the client code itself is exercised "
        "offline by the harness with the database as oracle), pkg/database assembly, protobuf conversions, the state "
        "signature (ECDSA)",
        "edit encoding of altered calls (Tie/C01.v apply_edit mirrored by harness/c01/group.go applyEdits; the harness "
        "re-applies its edits and compares with the altered call; a sample of altered calls is also recorded flat)",
        "Go values the model cannot represent are not generated: negative Version / NEntries, TxMetadata with an extra "
        "attribute longer than 256 bytes (the Go type refuses it)",
    ],
    assumptions=["session theorems: `session` of Proofs/Session.v (every call accepted, the client's trusted pair is the "
                 "source or the target of the call, the new state is the call's target); good_v2 / good_v1 = headers within "
                 "the Go field ranges (hdr_valid), 32-byte proof terms, and for VerifyDualProof BlTxID = ID - 1 on every "
                 "header carried by the proofs",
                 "client_step (Proofs/Session.v) models the source/target selection and state "
                 "advance of VerifiedTxByID / verifiedGet only (no signature, no returned-Tx comparison)",
                 "proof terms and digests are 32-byte values (Go type [sha256.Size]byte)",
                 "headers inside proofs satisfy hdr_valid (Go field ranges, Version in {0,1}, NEntries < 2^16 in version 0 "
                 "/ < 2^32 in version 1): outside it Alh does not bind NEntries (known finding)"],
)


def classify(c):
    # A verdict disagreement between Go and the model is a broken correspondence; violations of the property
    # statement on the implementation are reported by the falsifier (r.Finding) with their own replay text.
    return False
