"""C15: codecs round-trip, and key encodings preserve SQL order."""

from common_tb import COMMON_TB


CFG = dict(
    id="C15", tie="Tie.C15", n_quick=10000, n_thorough=60000, thorough_seeds=3,
    translate=[["consts", "$COQ/gen/SqlConsts.v",
                "$REPO/embedded/sql:sq_:EncLenLen,EncIDLen,KeyValPrefixNull,KeyValPrefixNotNull,KeyValPrefixUpperBound,MappedPrefix,RowPrefix"]],
    rule="boundary-heavy pools per SQL type (min/max/powers of two +-1 integers; +-0, subnormals, +-Inf, NaN payloads, "
         "neighbouring bit patterns; empty / NUL-containing / shared-prefix / max-length strings and blobs for column lengths "
         "1..33 and MaxKeyLen, multi-byte UTF-8 (2/3/4-byte runes, truncated and invalid sequences) filling n-2..n bytes and "
         "over-length strings with at most n characters but more than n bytes (the column length is a BYTE length); all-00/all-ff/single-byte-different UUIDs; timestamps around 1970, at both ends of the UnixNano "
         "range, years 1..9999, microsecond neighbours) plus seeded random values; every value goes through both encoders and both "
         "decoders, value PAIRS of one column (all pairs of the boundary pools, sampled pairs otherwise) through the key encoder and "
         "the engine's own Compare; encoder guard violations and mutated/random encodings to the decoders; rows of random tables "
         "with composite indexes through the real engine (index entry keys read back from the store); random TxMetadata / "
         "KVMetadata / TxHeader values and committed transactions (ExportTx -> ReplicateTx on a second store); protocol conversions: "
         "store value -> message -> store value for random and boundary metadata / headers / entries (Version, NEntries, VLen around "
         "2^31 and 2^32 and negative; nil, empty and degenerate metadata) and hand-made messages with short / long digests, "
         "TruncatedTxID 0, Extra of 0..300 bytes through XFromProto. A case is "
         "non-trivial when its value is not NULL (pairs: the two values differ; decoders: more than the tag / length prefix; "
         "store codecs: at least one attribute / entry); distinct by the full Coq term (entry point, inputs, observed result)",
    trusted_base=COMMON_TB + [
        "modelled and proved: TxMetadata/KVMetadata/TxHeader Bytes+ReadFrom, ExportTx wire format + ReplicateTx framing "
        "(coq/Store/Codec.v, shared with C16); sql.EncodeRawValueAsKey, DecodeValueFromKey, EncodeRawValue, decodeValue, "
        "TypedValue.Compare on two values of one column, Tuple.Compare, MapKey/index entry key composition "
        "(coq/SQL/KeyEnc.v) for INTEGER, BOOLEAN, VARCHAR, BLOB, UUID, TIMESTAMP, FLOAT and NULL",
        "a FLOAT is modelled as its IEEE-754 bit pattern; float_compare (Go's == and > on float64) is DEFINED on "
        "sign/exponent/mantissa of the patterns and tied to Go by the correspondence run (pairs of boundary and random "
        "patterns), not derived from a formal IEEE semantics; a time.Time is its exact nanosecond count since the epoch, "
        "UnixNano/TimeToInt64 wrap modulo 2^64 as Go's int64 arithmetic does",
        "modelled and proved at the level of the generated message structs (coq/Store/ProtoConv.v, ProtoConvProofs.v): "
        "schema.TxHeaderToProto/FromProto, TxMetadataToProto/FromProto, KVMetadataToProto/FromProto, TxEntryToProto and the "
        "per-entry part of TxFromProto, DigestFromProto, with the int32 truncation / sign extension of Version, Nentries and "
        "VLen and the dropped WithExtra error written out; the protobuf wire (proto.Marshal/Unmarshal) is the protobuf "
        "library and stays a black box (round trips through the wire in harness/c15/bb.go)",
        "NOT modelled (exercised by the harness as black-box round trips, direct check only): SQL value <-> schema.SQLValue, "
        "proof messages (DualProof/LinearProof/InclusionProof conversions: plain field copies through DigestsFromProto), document <-> structpb "
        "conversions (documents inserted and read back; INTEGER fields at the float64/int64 boundaries 2^53, +-2^63 and "
        "their neighbours must be rejected or indexed as the number the document holds: checked by comparison queries on the field), the JSON SQL type, implicit type conversions of mayApplyImplicitConversion (the harness always hands "
        "the encoders a value of the column's own Go type or nil), the row-level framing of encodeRowValue "
        "(exercised through the engine: rows inserted and read back)",
        "sql.MaxKeyLen is a Go variable: it is an explicit parameter `mkl` of the model and the theorems hold for every "
        "mkl < 2^32; maxLen arguments are non-negative",
    ],
    assumptions=[
        "Column.MaxLen() is what the catalog passes as maxLen (8/1/16 for fixed-width types)",
        "Go's float64 == and > are the IEEE-754 comparisons (what float_compare transliterates)",
        "time.Time.UnixNano()/Unix() use wrapping int64 arithmetic (documented as 'undefined' outside the range; observed and tied by the run)",
    ],
)


def classify(c):
    """True when the recorded behaviour of the implementation on this case is, by itself, a violation of the
    property statement (a value pair whose key order differs from the engine's comparison, a value that does not
    survive its own encode/decode, a panic in an encoder)."""
    return bool(c.get("violates")) or bool(c.get("panic") and c.get("kind") in ("key", "val"))
