"""C07 — Replication reproduces exactly the primary's history, nothing else."""

from common_tb import COMMON_TB


CFG = dict(
    id="C07", tie="Tie.C07", n_quick=60, n_thorough=400, thorough_seeds=3, gen_timeout=3000,
    rule="one case = one whole schedule run on real stores: a random primary history (3-8 transactions; header "
         "version 0/1 or switched mid-history; tx metadata; KV metadata; empty values; recurring keys; values truncated "
         "on the primary with TruncateUptoTx) is exported and fed to a replica store (external commit allowance on/off, "
         "embedded values on/off, default or restricted MaxActiveTransactions/MaxKeyLen/MaxValueLen/MaxTxEntries, with and "
         "without skipIntegrityCheck) as a random schedule of in-order / future / duplicate deliveries, concurrent "
         "batches, AllowCommitUpto, DiscardPrecommittedTxsSince, Close+Open; 'alterations' cases precede every genuine "
         "delivery by one-bit flips at the first and last byte of every field of the export, cuts at every field start "
         "and trailing bytes; 'forgeries' cases by re-created exports (Ts, BlTxID/BlRoot, metadata, version, Eh+entries, "
         "ID, PrevAlh, BlRoot); every fifth case runs pkg/database instances (1 primary with syncAcks 1..2, 1..3 replica "
         "databases) through ExportTxByID with honest/stale/forged replica states, ReplicateTx, AllowCommitUpto(id, alh), "
         "DiscardPrecommittedTxsSince and reopenings. After every step the model must reproduce acceptance and the "
         "(committed id, committed Alh, precommitted id, precommitted Alh) of the store; a case is non-trivial when it has "
         "at least 3 (store) / 5 (database) steps; distinct by the full step list",
    trusted_base=COMMON_TB + [
        "modelled: embedded/store ReplicateTx (framing of Store/Codec.v, OngoingTx.set limits, precommit with an expected "
        "header incl. the pooled tx holder, performPrecommit, mayCommit), AllowCommitUpto, DiscardPrecommittedTxsSince, "
        "Close/Open reload of the precommitted backlog, TxHeader.Alh/innerHash, entry digests, htree/aht roots as the "
        "reference Merkle hash (tied by C08); pkg/database ExportTxByID validation, mayUpdateReplicaState, replica "
        "AllowCommitUpto. NOT modelled: pkg/replication's gRPC loop (only as the schedules it can produce), stream "
        "transport, indexing, value logs, synced stores (the harness opens stores with Synced=false so that a durable "
        "precommit coincides with the in-memory one), the primary's own commit path (the primary's records are taken "
        "as observed and assumed `primary_valid`)",
        "a ReplicateTx call that waits for its predecessor (future id) is run under a 250 ms context and modelled as an "
        "error without effect; concurrent batches are compared by their final state only (and only while no discard "
        "happened since the last Open: DiscardPrecommittedTxsSince does not recede the in-memory precommit watcher)",
        "the AHT is modelled as a function of the chain. It is not when a replica that once held a record that is not "
        "the primary's (an accepted alteration, or tx 1 with a stale BlRoot) is reopened after a discard: the tx log "
        "reload may take the older record back while the AHT files keep the leaf appended last (ResetSize does not shrink "
        "them) -- the replica then answers 'invalid blRoot' for ever. The harness ends a case at the first reopening after "
        "such an acceptance (and at a reopening with embedded values and nothing committed, where the mis-parsed values "
        "prefix leaves an unmodelled BlRoot in the tx holder); likewise at a reopening after records were appended behind "
        "discarded ones (which of the left-overs behind the logical end of the tx log survive later appends depends on "
        "byte sizes; the model drops them at the next append), and tx 1 is not re-precommitted after a concurrent batch "
        "(which pooled tx holder it would get is a matter of goroutine scheduling)",
        "the _refuted witnesses (coq/Repl/Witness.v) use the executable SHA-256 over Coq's primitive 63-bit integers "
        "(kernel primitives PrimInt63.*, listed by Print Assumptions); they are compiled with Properties/C07.v but the "
        "seven theorems restated there are closed under the global context",
        "SHA-256 of the model = crypto/sha256: checked by every Alh comparison of this run (and by C08's cases)",
    ],
    assumptions=[
        "primary_valid P: the primary's records are what its own ReadTx returns (ids = positions, Eh = root of the entry "
        "digests, value hash = H(value), Alh = TxHeader.Alh, widths within the encoders' limits)",
        "altered_rejected_partial additionally assumes the primary's header is chained to and linked with its own history "
        "(PrevAlh, BlRoot) and concludes `... or Collision H` (no collision-resistance axiom)",
        "replica_prefix is stated for c_stale = false (tx holder cleared: the proposed repair) and as _partial (no "
        "discards) for the code as found; the harness determines c_stale by a probe of /repo on every run",
    ],
)


def classify(c):
    """True when the recorded behaviour of the implementation on this case is, by itself, a violation of the
    property statement. The direct checks are done by the harness (r.Finding); a correspondence disagreement only
    says that model and code differ on some step of the schedule."""
    for s in c.get("steps", []):
        if s.get("out") == 2:      # a panic
            return True
    return False
