"""C07 — Replication reproduces exactly the primary's history, nothing else."""

from common_tb import COMMON_TB


CFG = dict(
    id="C07", tie="Tie.C07", n_quick=60, n_thorough=400, thorough_seeds=3, gen_timeout=3000,
    rule="one case = one whole schedule run on real stores: a random primary history (3-8 transactions; header "
         "version 0/1 or switched mid-history; tx metadata; KV metadata; empty values; recurring keys; values truncated "
         "on the primary with TruncateUptoTx) is exported and fed to a replica store (external commit allowance on/off, "
         "embedded values on/off, default or restricted MaxActiveTransactions/MaxKeyLen/MaxValueLen/MaxTxEntries, with and "
         "without skipIntegrityCheck) as a random schedule of in-order / future / duplicate deliveries, concurrent "
         "batches, AllowCommitUpto, DiscardPrecommittedTxsSince, Close+Open; 'alterations' cases precede every genuine "
         "delivery by one-bit flips at the first and last byte of every field of the export, cuts at every field start "
         "and trailing bytes; 'forgeries' cases by re-created exports (Ts, BlTxID/BlRoot, metadata, version, Eh+entries, "
         "ID, PrevAlh, BlRoot); every fifth case runs pkg/database instances (1 primary with syncAcks 1..2, 1..3 replica "
         "databases) through ExportTxByID with honest/stale/forged replica states, ReplicateTx, AllowCommitUpto(id, alh), "
         "DiscardPrecommittedTxsSince and reopenings; every tenth case runs a SYNCED replica store (Synced=true, sync "
         "frequency 4h, external allowance) with explicit Sync() steps so that committed < durably precommitted < "
         "precommitted in memory, and checks after every step that PrecommittedAlh() (what CurrentState / ReplicaState "
         "report to a primary) is the last transaction an explicit Sync() made durable. After every step the model must reproduce acceptance and the "
         "(committed id, committed Alh, precommitted id, precommitted Alh) of the store; a case is non-trivial when it has "
         "at least 3 (store) / 5 (database) steps; distinct by the full step list",
    trusted_base=COMMON_TB + [
        "modelled: embedded/store ReplicateTx (framing of Store/Codec.v, OngoingTx.set limits, precommit with an expected "
        "header, performPrecommit, mayCommit), AllowCommitUpto, DiscardPrecommittedTxsSince, "
        "Close/Open reload of the precommitted backlog, TxHeader.Alh/innerHash, entry digests, htree/aht roots as the "
        "reference Merkle hash (tied by C08); pkg/database ExportTxByID validation, mayUpdateReplicaState, replica "
        "AllowCommitUpto. NOT modelled: pkg/replication's gRPC loop (only as the schedules it can produce), stream "
        "transport, indexing, value logs, the background syncer (stores are opened with Synced=false, or with Synced=true "
        "and explicit Sync() calls only), the primary's own commit path (the primary's records are taken "
        "as observed and assumed `primary_valid`)",
        "a ReplicateTx call that waits for its predecessor (future id) is run under a 250 ms context and modelled as an "
        "error without effect; concurrent batches are compared by their final state only (and only while no discard "
        "happened since the last Open: DiscardPrecommittedTxsSince does not recede the in-memory precommit watcher)",
        "the AHT is modelled as a function of the chain (at Open it is reset to the committed transactions and rebuilt "
        "from the reloaded ones, /repo 2077e08). The tx log behind the committed offset is modelled record by record: the "
        "precommitted records up to the logical end (DiscardPrecommittedTxsSince cuts the log at the end of the last record "
        "it keeps, /repo 8728288), and records behind the logical end (a record appended by a precommit that then failed "
        "with 'buffer is full'), which the next performPrecommit or discard drops (txLog.SetOffset truncates since /repo "
        "09014a8) and an Open that comes first finds and takes back",
        "stores with embedded values are run (replicas with EmbeddedValues on and off) but not modelled apart: since /repo "
        "b814f8c the reload loop skips and checks the values prefix. Its 2-byte length wraps at 64 KiB of values per "
        "transaction; such a record is still dropped at reopen -- the harness never writes that much",
        "the refutation witnesses of altered_rejected (coq/Repl/Witness.v) use the executable SHA-256 over Coq's primitive 63-bit integers "
        "(kernel primitives PrimInt63.*, listed by Print Assumptions); they are compiled with Properties/C07.v but the "
        "six theorems restated there are closed under the global context",
        "synced stores: the durable-precommit frontier and the deferred allowance are kept by an executable wrapper in "
        "coq/Tie/C07.v (CSynced: deliver / Sync / allow / discard) around the model's store; the theorems, in particular "
        "sync-ack safety (v), are about the state a replica REPORTS and about the unsynced store -- that the report is the "
        "durable frontier is checked by this wrapper and by the harness oracle, not proved",
        "SHA-256 of the model = crypto/sha256: checked by every Alh comparison of this run (and by C08's cases)",
    ],
    assumptions=[
        "primary_valid P: the primary's records are what its own ReadTx returns (ids = positions, Eh = root of the entry "
        "digests, value hash = H(value), Alh = TxHeader.Alh, widths within the encoders' limits)",
        "altered_rejected_partial additionally assumes the primary's header is chained to and linked with its own history "
        "(PrevAlh, BlRoot) and concludes `... or Collision H` (no collision-resistance axiom)",
        "the directed schedule that failed before /repo 7c27871 (deliver 1, deliver 2, discard since 1, deliver 1: stale "
        "BlRoot of the pooled tx holder) runs at the start of every check; a recurrence is a violation; so is any "
        "Close+Open that changes a replica's precommitted state: precommitted transactions dropped (before /repo b814f8c: "
        "every replica with embedded values) or discarded transactions brought back (before /repo 8728288: the reload loop "
        "found the discarded records again); the finding carries the schedule",
    ],
)


def classify(c):
    """True when the recorded behaviour of the implementation on this case is, by itself, a violation of the
    property statement. The direct checks are done by the harness (r.Finding); a correspondence disagreement only
    says that model and code differ on some step of the schedule."""
    for s in c.get("steps", []):
        if s.get("out") == 2:      # a panic
            return True
    return False
