"""C19 — document collections store and find documents faithfully."""
from common_tb import COMMON_TB

CFG = dict(
    id="C19", tie="Tie.C19", n_quick=80, n_thorough=200, thorough_seeds=3, gen_timeout=2400,
    rule="a case is one HISTORY on the real document.Engine (store in a temp dir): random collection schema (2-5 typed "
         "fields INTEGER/DOUBLE/STRING/BOOLEAN/UUID incl. nested paths a.x, a.y.z, p.q.r.s, custom id field name; 0-2 "
         "indexes of 1-2 columns, some unique), then 12-41 random operations: InsertDocuments (1-3 documents: nested "
         "JSON, arrays, missing / null / wrong-typed fields, numeric edge values 0, -0, 0.5, 1e15+0.5, 2^53, +-2^63, "
         "1e300, 5e-324, unicode / empty / 510-513 byte strings, UUID text forms), ReplaceDocuments (by id, by the id "
         "carried in the document, by filter, first/last in id order), DeleteDocuments, AddField / RemoveField / "
         "CreateIndex / DeleteIndex over time, and generated queries (0-3 OR-groups of 1-3 comparisons EQ/NE/LT/LE/GT/GE "
         "with constants mostly taken from live documents, several comparisons on one field, comparisons on the id, "
         "0-2 ORDER BY clauses with mixed directions, limit, offset) each run twice: as the schema stands and after an "
         "index on a filtered / ordering field was created or removed. After every write: search of everything, and for "
         "the touched ids lookup by id, GetEncodedDocument (revision + payload) and AuditDocument (asc/desc, offset, "
         "limit). The harness keeps its own list of JSON documents with all their versions and checks DIRECTLY "
         "(falsifier): lookup returns the stored payload unchanged with revision = number of writes; every search is a "
         "page of the documents whose PAYLOAD satisfies the filter, sorted by the ORDER BY keys (tie order free); "
         "count = number returned; with-index == without-index; replace/delete touch exactly the satisfying documents; "
         "no two live documents share a unique tuple; audit = all revisions in order; pkg/database ProofDocument "
         "verified with pkg/verification for current and historical revisions (and a tampered document rejected). "
         "Each history (ops + observed ids / revisions / counts / errors) is replayed through the Coq model "
         "(Tie.C19.case_ok). A direct finding is attributed to a known cause only when the result IS what that cause "
         "predicts (re-evaluation with int64 truncation / NULL late columns) or the narrow input feature is present. "
         "Scripted witness histories of every known AND every fixed finding run first on every run (a fixed one that "
         "comes back is a VIOLATION: the probes `{n:0.5} into an INTEGER field must be rejected` and `insert 20, "
         "delete, insert 20, insert 20 must conflict` report by themselves, and the model -- which is the repaired "
         "code -- disagrees). One fact about the code is still probed and handed to the model: whether the float key "
         "encoder gives -0.0 and +0.0 different keys (s_nz). Non-trivial: histories with at "
         "least one successful write and one search returning a document; distinct by full history content.",
    trusted_base=COMMON_TB + [
        "modelled (coq/Doc/Model.v): structValueToSqlValue per field type (INTEGER: only numbers with an exact int64 "
        "representation, else an error), field paths (SplitN 3), row = (column id, value) written at "
        "upsert time, VARCHAR(512) limit, document id hex, google/uuid text forms, query translation (DNF groups, "
        "constants converted by column type), TypedValue.Compare with NULL lowest, selectorRanges / refineWith / "
        "extendWith, index choice (selectSortingIndex, selectINLJIndex), inclusive key-range pruning on the chosen "
        "index (a bound longer than the column is cut, never an error), ORDER BY, offset then limit (0 = none), insert / replace (id injection) / delete over per-key version "
        "lists, revision = history count, audit paging, the unique check of doUpsert (any live entry under the value "
        "prefix; own unchanged tuple reusable; an earlier document of the same operation with the tuple conflicts), "
        "CreateIndex(unique) only on a collection without live documents, CreateIndex refused when the entry key (prefix, "
        "ids, encoded columns with STRING padded to 512, document id) exceeds 1024 bytes, AddField/RemoveField/DeleteIndex "
        "bookkeeping",
        "index keys are modelled by their ORDER only (cv_kcmp: value order, except -0.0 < +0.0 while the real encoder "
        "gives them different keys; the flag is probed on sql.EncodeValueAsKey / EncodeRawValueAsKey on every run); that "
        "the byte encodings realise this order is property C15",
        "NOT modelled, exercised only (direct checks): protobuf/structpb round trip of payloads, the SQL executor's "
        "readers, tbtree/store, MVCC; the order among rows with equal sort keys (sort.Slice / top-N heap / index scan "
        "direction) is left free by case_ok (valid_pageb); snapshot staleness of InsertDocuments (the tied histories "
        "read through every unique index before each insert; the defect itself is witnessed untied); document proofs "
        "(pkg/database ProofDocument + pkg/verification) are checked directly, no theorem (C01 is about them)",
        "missing / null fields compare as SQL NULL = lowest value, equal to itself, in the spec as in the engine "
        "(the property text does not fix the meaning of a comparison with a missing field)",
    ],
    assumptions=[
        "the harness waits for indexing after every write (the engine's reads through stale snapshots belong to C04/C06)",
    ],
)


def classify(c):
    """True when the recorded behaviour of the implementation on this history by itself violates the property
    statement: the harness's direct checks found a violation that is not one of the known ones."""
    return int(c.get("viol") or 0) > 0
