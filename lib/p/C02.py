"""C02 — committed history is append-only and immutable."""
from common_tb import COMMON_TB

CFG = dict(
    id="C02", tie="Tie.C02", n_quick=60, n_thorough=250, thorough_seeds=3, gen_timeout=2400,
    rule="a case is ONE step script executed on a real store (temp dir) and, step by step, on coq/Hist/Machine.v: "
         "random store configuration (synced/unsynced x embedded values x external commit allowance, header version "
         "0/1, MaxActiveTransactions 2..1000, MaxTxEntries 2..64, small MaxKeyLen/MaxValueLen, FileSize 256/600/4096 "
         "forcing chunk rotation of tx/commit/value logs also under external allowance, prealloc, MaxIOConcurrency 1..3, tx-log/value caches) and "
         "10..35 steps: commits of 2..4 logical clients through NewTx/Set/AsyncCommit (blocked calls kept pending), "
         "cancelled / empty / oversized / metadata-unsupported / failing-precondition commits, ReplicateTx of exported "
         "transactions fabricated by the harness (valid, and with one defect: PrevAlh, BlRoot, id too low/high/+2, Eh, "
         "entry count, BlTxID >= id, empty key), Sync, AllowCommitUpto, DiscardPrecommittedTxsSince, "
         "SetExternalCommitAllowance, close/reopen, index flush/compaction in between; plus fixed directed scripts "
         "(Discard+Precommit+Reopen, cLogBuf full inside performPrecommit also followed by a replicated tx, sync() stopping "
         "midway then reopen, waiter of a discarded tx, MaxActiveTransactions in synced mode, cancelled calls followed by valid "
         "commits with MaxTxEntries 2 and embedded values (shrunk from thorough seed 2 script 202), PreallocFiles with FileSize "
         "256/512 and a clean Close/Open after EVERY one of 26 commits = more than two commit-log chunks (5/17 resp. 11/23 "
         "transactions fill a chunk), synced and unsynced, embedded or not); a prealloc-reopen random family (n/12+2 scripts, "
         "thorough n/6+3: PreallocFiles, FileSize 256/512/600, no external allowance, no removing Discard, 40..70 steps, Close/Open "
         "after a committing step with probability 100/100/60/30 %, 20..35 committed transactions); falsifier-only: stale commit-log "
         "tail with small chunk files, with and without preallocation) and a concurrent phase (3..7 goroutines committing, a monitor goroutine re-reading, the order of the "
         "returned ids and of the value offsets fed to the model as the interleaving). After EVERY step the whole "
         "committed history is re-read (ReadTx with integrity check, ReadValue, CommittedAlh, LastPrecommittedTxID) and "
         "compared with the model's (result class, ids, Alh, header fields, entries, value offsets, values). "
         "Non-trivial: >= 3 committed transactions and at least one Discard that removed something, reopen, failing or "
         "replicated commit; distinct by full content. Falsifier (direct, in Go, after every step and during the "
         "concurrent phase): ids dense, every committed record byte-identical to its first report, PrevAlh/BlTxID/BlRoot "
         "links recomputed with the harness' own Merkle code, CommittedAlh = Alh of the last tx, every successful "
         "commit call's header = the committed tx with its id.",
    trusted_base=COMMON_TB + [
        "atomicity of the modelled critical sections (s.mutex / commitStateRWMutex discipline, Go memory model): the "
        "theorems quantify over ALL interleavings of the atomic steps OBegin/OLocked/OSync/OAllow/ODiscard/OSetExt/OReopen "
        "from any number of clients, not over finer-grained schedules",
        "tx log abstraction: a list of writes at explicit offsets (newest first); a read at an offset returns the record "
        "whose header starts there unless a later write overlaps it; bytes that are not the start of an intact written "
        "record (torn records, the middle of a record) never parse as a transaction whose Alh verifies and continues the "
        "chain; OpenWith's backlog scan finds the write that STARTS at the scan position (b814f8c: the embedded-values prefix "
        "is skipped; a prefix of 64 KiB or more wraps its 2-byte length and ends the scan)",
        "appendable layer (property C17), as fixed by 09014a8 / 8728288: a rewind (SetOffset) of the tx log -- by "
        "performPrecommit and by DiscardPrecommittedTxsSince, which cuts it at the end of the last kept transaction -- drops "
        "everything at or beyond the offset (file truncated, chunk files behind removed); the commit log is the logical entry "
        "list, rewound to committedTxID by every commit loop incl. the ones that do not complete, so it never holds entries "
        "beyond the committed id; for PREALLOCATED files, which are never truncated, only what is still in the write buffer is "
        "dropped and only the explicit flushes (sync(), Close) are modelled, not those caused by buffer overflow or chunk "
        "rotation, nor the removal of whole chunk files behind a cut. EXCLUDED from generation because of that: preallocation "
        "together with external commit allowance; under preallocation a reopen after a Discard that removed something. The "
        "physical leftovers of the AHT's own logs are not modelled (OpenWith rebuilds the tree beyond the committed "
        "transactions, so they do not matter); a replicated tx with BlTxID = 0 is not sent while cLogBuf is full",
        "the AHT is the list of appended Alh values with RootAt(n) = mth of the first n (its hashing/addressing is property "
        "C08); executable SHA-256 of coq/Merkle/Sha256.v (Uint63 under vm_compute) only to run the model; theorems are "
        "about an abstract hash H; C02_blroot concludes `... \\/ Collision H` (explicit reduction), no other theorem mentions collisions",
        "inputs of the model steps taken as given: precondition outcome (index not modelled), the clock; value offsets are compared only for "
        "MaxIOConcurrency = 1; PrevAlh/Eh/BlRoot/value digests are compared through the Alh that commits to them; "
        "NOT modelled: indexing, value-log truncation (C14), crash recovery (C03), ExportTx/TxReader readers (ReadTx incl. its "
        "id check, ReadValue, CommittedAlh are), preallocated-file binary search of the commit log (exercised, not modelled), "
        "the value checks of OpenWith's backlog reload (embeddedValuesMatch / precommittedValuesReadable: they hold for what "
        "performPrecommit wrote and a clean Close flushed)",
    ],
    assumptions=[
        "transaction ids stay below 2^64 and log sizes below 2^63 (no integer wrap-around in offsets)",
        "preallocated commit log (PreallocFiles): entries appended by a commit loop that stops midway and flushed by chunk "
        "rotation stay in the never-truncated file after the rewinds and are counted by OpenWith's search for the last "
        "non-zero entry; the model's logical commit log does not contain this: the falsifier-only scenario "
        "staleClogTail(prealloc=true) (harness/c02/c02.go) runs the real-store execution (synced, external allowance, FileSize "
        "256, preallocation) after which store.Open fails with 'corrupted transaction log: size is too small' (before 8728288: "
        "committed id 4 -> 5 and a broken PrevAlh link): reported on every run as a KNOWN-FINDING (harness level). The same "
        "history without preallocation was fixed by 09014a8 and stays in the check as a regression scenario",
        "OpenWith's search for the last non-zero entry of a PREALLOCATED commit log is not in the model (its commit log is the "
        "logical entry list, so a reopen keeps the committed id by definition): it is covered by the prealloc-reopen directed "
        "scripts and random family, where the real store is closed and opened at every fill level of the commit-log chunks and "
        "both the model comparison (committed id, Alh, records after OReopen) and the Go monitor (committed-went-back, "
        "reopen-failed, tx-changed, state-not-last) must hold. The two prealloc exclusions of the generator stay: no preallocation "
        "with external commit allowance, no reopen of a preallocated store after a Discard that removed something",
        "harness timing: a commit call runs in its own goroutine until it returns or its precommit is visible; only a call "
        "that can wait for ANOTHER transaction before its precommit (ReplicateTx with an id beyond the next one) gets the "
        "400 ms limit after which its context is cancelled (clock started when the goroutine runs, and at least 2000 polls); "
        "every other call gets 90 s and exceeding that is reported as a finding. (A uniform 400 ms limit once cancelled a "
        "valid call before newOngoingTx's ctx.Err() check on a loaded machine -- a one-off correspondence disagreement of the "
        "harness, not of the store: the recorded history is exactly the model's run of the same script with that call cancelled)",
    ],
)


def classify(c):
    """True when the recorded behaviour of the implementation on this script is, by itself, a violation of the
    property statement (the temporal monitor raised a finding inside this script)."""
    return bool(c.get("violation"))
