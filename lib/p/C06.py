"""C06 — key-value API is linearizable; conditional writes are atomic."""
from common_tb import COMMON_TB

CFG = dict(
    id="C06", tie="Tie.C06", n_quick=300, n_thorough=1600, thorough_seeds=3,
    rule="every case is a whole run on a fresh real pkg/database DB (tmpfs dir when available): 3/4 of the cases are "
         "CONCURRENT histories - 2..5 goroutines (2..8 thorough; a third of the thorough histories with a background FlushIndex loop, a third "
         "with FlushIndex+CompactIndex loops) x 6..21 calls over 4 plain keys + 2 reference keys + 2 sorted sets with the full operation mix (Set, "
         "multi-key Set, conditional Set with KeyMustExist/KeyMustNotExist/KeyNotModifiedAfterTx, racing "
         "KeyMustNotExist creators of one key, Get-then-conditional-Set read-modify-write, Delete, SetReference bound/"
         "unbound, ZAdd, ExecAll with Kv/Ref/ZAdd incl. references bound to the transaction being committed; Get "
         "latest/SinceTx/AtTx/AtRevision(+/-), GetAll, Scan (seek/end/inclusive/desc/limit), ZScan, History, Count), "
         "each call stamped at invocation and return by one atomic counter, random yields/sleeps between calls; 3/5 "
         "of the histories use only default waiting, 1/5 NoWait Set/Delete with waiting reads, 1/5 NoWait Get with "
         "waiting writes; the history (<= 110 calls) is ONE Coq case decided by the verified checker (Lin.Checker.check) "
         "and by its Go transliteration (falsifier); 1/4 are SEQUENTIAL runs of 25..59 calls whose every response is "
         "compared with the specification; plus two directed replays of the known findings. Non-trivial: a concurrent "
         "history in which a successful write overlaps in real time a call of another goroutine and which has >= 1 "
         "successful write and >= 1 read returning data; a sequential run with >= 5 committed transactions incl. a "
         "reference / sorted-set / ExecAll transaction; distinct by full content.",
    trusted_base=COMMON_TB + [
        "what the Go runtime scheduler does is outside every model: the machine theorems quantify over all "
        "interleavings of the abstract steps (commit, index, look-up, return), the REAL interleavings are only sampled; "
        "each recorded real history is decided by the verified checker (checker_sound), which is why the property is "
        "labelled partial",
        "invocation/return stamps are taken by the harness just before the call and just after its return from one "
        "atomic counter (a wider interval than the call's own: sound for the real-time order used by the checker)",
        "checker: only valid_lin (decides each clause of the definition of linearizable for a proposed order) is "
        "covered by checker_sound; the search build_lin and the Go transliteration used as falsifier are heuristics; "
        "check_relaxed (accepts additionally the two recorded known-finding behaviours of Get-through-reference and "
        "SinceTx snapshot reuse) is used by case_ok only; histories recorded with CompactIndex in the background are "
        "tied only on the verdict (CHistCompact: Coq check = Go check), because the machine with its compaction step "
        "admits non-linearizable histories there (third known finding)",
        "modelled: the sequential KV specification (Lin/Spec.v: Set/Delete/SetReference/ZAdd/ExecAll with "
        "preconditions and the refusals of reference.go/sorted_set.go/all_ops.go; Get latest/SinceTx/AtTx/AtRevision "
        "incl. one-level reference resolution, GetAll, Scan, ZScan, History, Count) tied op-by-op by the sequential "
        "cases; the protocol machine (Lin/Machine.v) abstracts store.precommit/commit, the indexer and the waits "
        "(WaitForIndexingUpto) to atomic steps; NOT modelled: d.mutex (exclusive for SetReference/ZAdd/ExecAll, "
        "shared for Set/Delete/Scan/ZScan - the reason ZScan's two snapshots agree), per-index progress of the two "
        "indexers, MVCC read-set validation of Delete (its conflict abort is recorded as `ResAbort` and ignored), "
        "Get AtTx of a transaction committed but not yet indexed, expiration, metadata, Offset/MinScore/MaxScore/"
        "SeekKey of ZScan, Scan Offset/Prefix, TxScan, verifiable variants, replication, truncation, NoWait ExecAll",
        "keys/values/sets/scores are small numbers mapped to one-byte keys, decimal values, two-byte set names, "
        "integral float scores (byte order = numeric order on that domain)",
    ],
    assumptions=[
        "each history runs on a fresh database, so transaction ids start at 1 and the specification starts empty",
        "duplicate keys inside one Set / ExecAll / Delete are never generated (the code rejects them with an error the "
        "specification does not classify)",
    ],
)


def classify(c):
    """True when the recorded behaviour by itself violates the property statement: the harness's own Go check found
    the history not linearizable even with the two known-finding behaviours tolerated."""
    if c.get("kind") == "hist":
        return c.get("relaxed") is False
    return False
