"""C17 — Appendable files behave as a persistent byte log (singleapp / multiapp vs one byte array)."""
from common_tb import COMMON_TB

CFG = dict(
    id="C17", tie="Tie.C17", n_quick=1500, n_thorough=12000, thorough_seeds=3,
    rule="each case = a fresh singleapp file or multiapp directory in a temp dir, 30-55 random operations "
         "(Append / ReadAt / SetOffset / Flush / Sync / Size / Offset / DiscardUpto / SwitchToReadOnlyMode / Close / "
         "reopen with new options incl. read-only / Metadata / Copy (the copy is opened read-only and read completely), also on a closed appendable) and EVERY output; options: "
         "write buffer 1..16, chunk size 1..16 (appends spanning several chunks), flush-when-full / retryableSync+autoSync / "
         "retryableSync with ErrBufferFull, preallocation on and off, maxOpenedFiles 1..3 (eviction stream, rewinds kept "
         "inside the current chunk) or 1000; offsets and lengths drawn from 0, 1, size-1, size, size+1, size+2, last flushed "
         "size +-1, last append/rewind offset, multiples of the buffer size +-1, multiples of the chunk size +-1, distance to "
         "the chunk end +-1; 15 directed scenarios (every defect found so far, all repaired: 279f5fa readAt clamp, 09014a8 rewind truncates) run first, so that a recurrence is reported with its concrete operation sequence. A case is non-trivial when it has a "
         "successful Append, a ReadAt that returned >= 1 byte and (a successful rewind below the size, or a reopen, or data "
         "in >= 2 chunks); distinct by (options, operations, outputs)",
    trusted_base=COMMON_TB + [
        "modelled (coq/App/Single.v, Multi.v, Fixed.v = SetOffset since 09014a8): AppendableFile Open/Append/write/flush/sync/"
        "SetOffset (truncating unless preallocated)/readAt/ReadAt/Size/Offset/DiscardUpto/SwitchToReadOnlyMode/Close/Metadata/Copy "
        "with NoCompression; MultiFileAppendable Open/Append with chunk rotation/appendableFor/ReadAt/SetOffset (removing the chunk "
        "files that follow)/DiscardUpto/Size/Offset/Flush/Sync/SwitchToReadOnlyMode/Close/Metadata/Copy. "
        "NOT modelled: compression formats, failing OS calls (write/seek/fsync/truncate/remove errors, so retryableSync only changes when "
        "the buffer is released), negative offsets, the SIEVE eviction of the multiapp handle cache (model keeps every handle; "
        "the eviction stream of the harness checks that eviction changes no output when rewinds stay in the current chunk), "
        "background prefetch (default off), remote appendables, concurrent readers",
        "the OS file API is the boundary: a file is a byte list, Write at the file position, ReadAt returns EOF iff short, Truncate "
        "cuts the list, Open finds the bytes written before Close (no crash model here; that is C03)",
        "the full refinement theorems are for files that are not preallocated; preallocated singleapp keeps the theorems with the "
        "premise 'no reopen / Copy while the file is longer than the offset' (the property exempts the size of preallocated files; "
        "the harness byte-slice oracle stops at a reopen and accepts longer copies there); preallocated multiapp has no refinement "
        "theorem, only the model/implementation tie",
        "multiapp theorems exclude retryableSync without autoSync (on ErrBufferFull multiapp.Append reports neither the offset "
        "nor the bytes the current chunk took); the model/implementation tie does cover that mode",
    ],
    assumptions=["Reopen is only issued after Close (model, spec and harness agree that it is an error otherwise)",
                 "harness temp dirs live on tmpfs when /dev/shm exists (fsync durability is not what is compared)"],
)


def classify(c):
    """True when the outputs recorded for this case depart, by themselves, from the byte-array log of the
    property statement (the harness compares every output with a plain byte slice and stores the tag of the
    first departure of the case; "" = none).  A disagreement between model and implementation on a case
    without such a departure is a correspondence break only."""
    return bool(c.get("departure"))
