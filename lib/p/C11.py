"""C11 — SQL query results do not depend on the physical plan."""

from common_tb import COMMON_TB


CFG = dict(
    id="C11", tie="Tie.C11", n_quick=110, n_thorough=900, thorough_seeds=3, gen_timeout=2400,
    rule="-n counts MODELLED data sets; each builds, on a fresh store+engine in a temp dir, table t(id PK, a, b INTEGER "
         "NULL, s VARCHAR NULL) with 1-4 secondary indexes out of (a) (b) (a,b) (b,a) (a,id) (b,id) (id,a) (sometimes UNIQUE), "
         "created before and/or after data; a DML history of 2-8 committed steps (multi-row INSERT, UPSERT of new/existing "
         "rows, UPDATE of indexed and non-indexed columns, DELETE, autocommit and multi-statement transactions; values from "
         "a small domain with NULLs and int64 boundaries) and a last batch of 0-3 statements left inside an OPEN transaction; "
         "3-5 logical SELECTs (predicates of depth <= 2 over comparisons with constants present in the data +-1/NULL/boundaries, "
         "const-on-the-left, IN / NOT IN, IS [NOT] NULL, AND/OR/NOT, (P) IS [NOT] NULL; ORDER BY none / one / two columns, "
         "same or mixed direction, NULLS FIRST/LAST; LIMIT/OFFSET when there is no ORDER BY or a total one), each executed "
         "with the default plan, USE INDEX ON every secondary index, USE INDEX ON the primary key, a non-existing index, and "
         "with the predicate rewritten so that it cannot be pushed down; every variant runs in three states: inside the open "
         "transaction, after COMMIT, after close+reopen. Recorded per data set: one case for the committed state (table "
         "content from an independent DML oracle, catalog indexes, per SELECT the scan the engine chose read through the "
         "verif hook = index id, SeekKey, EndKey, DescOrder, explicit sort, and the rows returned) and one case for the "
         "in-transaction state (table at BEGIN + the transaction's row writes/deletes in execution order). Every second "
         "data set is followed by a GENERAL data set (no model): generated schema with INTEGER/VARCHAR/BOOLEAN/FLOAT/TIMESTAMP "
         "columns, nullable and NOT NULL, single/composite/varchar primary key, composite and unique indexes created before or "
         "after data, a second table for joins; 5-8 query shapes (filter, ORDER BY +- LIMIT/OFFSET, DISTINCT, GROUP BY with "
         "aggregates and HAVING, INNER/LEFT JOIN, IN-subquery/EXISTS, derived table) each with its twins (USE INDEX ON every "
         "index of either table, predicate not pushed down, join condition written as non-equi, GROUP BY vs DISTINCT, ...), "
         "P / NOT P / P IS NULL partition and COUNT(*) checks, historical reads (BEFORE TX) through every index, in the three "
         "states. A case is non-trivial when some SELECT returned a non-empty proper subset of the table (committed cases) or "
         "the transaction wrote something (in-tx cases); distinct by the whole recorded case",
    trusted_base=COMMON_TB + [
        "modelled (coq/Plan/Model.v), single table, integer index columns: EncodeValueAsKey for NULLable INTEGER, mapped keys "
        "of indexEntryMapperFor, selectorRanges/updateRangeFor/refineWith/extendWith incl. the IN min/max hint and the OR "
        "merge, keyReaderSpecFrom (0xFF bound, ready flags, break at the first unranged column), the tbtree range scan in "
        "both directions with the prefix test, the residual WHERE evaluation (two-valued, NULL lowest: TypedValue.Compare), "
        "genScanSpecs index selection (USE INDEX ON, coversOrdCols = hasPrefix/sortableUsing/unitary, INLJ fallback), the "
        "sort reader's comparator incl. NULLS FIRST/LAST, OFFSET/LIMIT readers, and the transaction-local index view "
        "(row key through the primary index; committed entries + pk-less transient entries through a secondary one)",
        "NOT modelled, covered only by the differential twin-query search of the harness: joins (nested loop / hash join), "
        "GROUP BY (stream / hash aggregation), DISTINCT, subqueries, derived tables, COUNT(*) on index keys, historical reads, "
        "non-integer column types, projection pushdown, sort spill to files, the B-tree itself, MVCC/tombstones of stale "
        "index entries after commit (the index content is taken to be exactly the live mapped keys: C04/C10/C12)",
        "add-only hook /repo/embedded/sql/verif_hooks_c11.go (build tag verif): VerifPlanOf exposes genScanSpecs + "
        "keyReaderSpecFrom for one SELECT; the Go-side DML oracle and SQL comparison in harness/c11 are trusted",
    ],
    assumptions=[
        "row values and predicate constants are int64 (table_ok / pred_ok premises of the theorems)",
        "the engine's comparison semantics are taken as the specification of predicate evaluation (NULL is the lowest "
        "value and NULL = NULL holds; this is not SQL three-valued logic, but it is the same in every plan)",
    ],
)


def classify(c):
    """True when the recorded behaviour of the implementation on this case by itself violates the property statement:
    the direct oracle (filter of the table by the Go-side evaluator, SQL order, LIMIT/OFFSET window) disagreed with the
    rows the engine returned for one of the SELECTs of the case."""
    return bool(c.get("oracle_bad"))
