"""C13 — SQL transactions are atomic and isolated, incl. rollback and savepoints."""

from common_tb import COMMON_TB


CFG = dict(
    id="C13", tie="Tie.C13", n_quick=700, n_thorough=4000, thorough_seeds=3,
    rule="one case = one interleaved program of 1..3 sessions over the fixed schema ta / tb(AUTO_INCREMENT) / tc on a "
         "fresh store: 22 hand-written programs (witnesses of the two known deviations and of the fixed one, write-write / generated-key / "
         "range-scan conflicts, API corner cases) then random programs of 6..25 statements in five flavours (mixed; "
         "savepoint-heavy; no savepoints; savepoints without ROLLBACK TO; mixed): BEGIN via NewTx / BEGIN TRANSACTION / "
         "read-only, INSERT (explicit id, two rows, generated id), UPSERT, UPDATE and DELETE over id ranges, SELECT by "
         "id / range / full scan, failing statements (duplicate key, unknown table, syntax error, any write statement in a read-only "
         "tx, nested BEGIN, COMMIT/ROLLBACK/SAVEPOINT without tx, unknown savepoint), SAVEPOINT / ROLLBACK TO / RELEASE "
         "with 3 names, COMMIT, ROLLBACK, closing the session; sessions advanced one statement at a time under a "
         "schedule drawn by the harness; keys from a 7-value domain so that sessions collide. After every statement the "
         "harness records outcome class, returned rows, whether a tx is open / the old handle closed, the counters of "
         "the open or reported transaction and the committed content of the three tables read in fresh transactions. "
         "The hand-written programs and every sixth random program are executed a second time through pkg/database.DB "
         "(NewSQLTx / SQLExec / SQLQuery, the layer under the gRPC session transactions and the pgsql session) and "
         "must give identical observations. "
         "DDL stream (n/3 random + 13 hand-written histories, harness/c13/ddl.go; NOT evaluated by the Coq model, "
         "recorded as `CDdl k`, checked by a harness-side oracle only): 2..3 sessions over table names t1..t3 and "
         "columns a..c issue CREATE/DROP/RENAME TABLE, ADD/DROP/RENAME COLUMN, CREATE/DROP INDEX, DROP CONSTRAINT and "
         "INSERT inside multi-statement transactions and as autocommit, ending in COMMIT / ROLLBACK / failed statement / "
         "rejected COMMIT / closed session, read-only transactions included, with a cold catalog cache (fresh engine, "
         "cache warmed only by explicit autocommit read-only queries of the history) and a warm one; at random points "
         "and at the end every table name is probed from a fresh read-write transaction that is cancelled (never a "
         "read-only one: it would populate the cache) and from every open transaction: existence, columns, usable "
         "indexes, CHECK enforced, rows (DDL attempted in a read-only transaction is part of the stream: fixed by "
         "82bd2bd, a recurrence is a violation); oracle: catalog at BEGIN + own DDL for open transactions, committed "
         "transactions only for fresh ones, serial replay of a committing transaction's statements on the committed "
         "state. A DDL case is non-trivial when it executed at least one successful catalog statement. "
         "A case is non-trivial when it has an explicit transaction with >= 2 statements and (a statement of another "
         "session inside it, or a failed statement, or a rejected COMMIT, or a savepoint operation); distinct by the "
         "whole case term",
    trusted_base=COMMON_TB + [
        "modelled: SQLTx (sql_tx.go), Engine.NewTx with a warm catalog cache / execPreparedStmts / Query (engine.go), "
        "BEGIN/COMMIT/ROLLBACK/SAVEPOINT/ROLLBACK TO/RELEASE, INSERT/UPSERT/UPDATE/DELETE/SELECT on integer tables "
        "without secondary indexes (stmt.go), OngoingTx snapshots, write-set, read-set and checkPreconditions "
        "(ongoing_tx.go, ongoing_tx_keyreader.go); a table is modelled as its primary index (pk -> tx id, deleted, v)",
        "NOT modelled in Coq (outside the theorems): DDL and the engine's catalog cache -- covered by the DDL stream "
        "and its Go oracle only (direct falsifier, no theorem); secondary / "
        "unique indexes, other column types, LIMIT/OFFSET/joins, historical queries, int64 overflow of v and id "
        "(values stay small), the catalog snapshot in checkPreconditions (never written here), MVCC read-set size "
        "limit, real goroutine concurrency (sessions are interleaved at statement granularity; each Exec/Query is "
        "one atomic model step); the gRPC session layer (pkg/server/sessions) and the pgsql wire "
        "front-end (pkg/pgsql/server: needs a live immudb gRPC server to authenticate) are NOT driven: they keep the "
        "session's *SQLTx and call pkg/database.DB.SQLExec/SQLQuery exactly as the harness's second executor does",
        "the Go oracle of the obvious spec (harness/c13/oracle.go) and its attribution of a difference to one of the "
        "two known deviations (requires the deviating Go reference to agree with the engine and the transaction "
        "to have exercised that deviation)",
    ],
    assumptions=[
        "each Engine.Exec / Engine.Query / NewTx / Cancel call executes atomically with respect to the other sessions",
        "the primary-key encoding of INTEGER preserves numeric order (property C15), so a key range is a pk range",
    ],
    gen_timeout=1500,
)


def classify(c):
    """True when the recorded behaviour of the engine on this program by itself violates the property statement
    (the direct check against the obvious spec found a difference that is not one of the known deviations)."""
    return bool(c.get("spec_violation"))
