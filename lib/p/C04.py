"""C04 — reads reflect exactly the committed log (index agrees with history)."""
from common_tb import COMMON_TB

CFG = dict(
    id="C04", tie="Tie.C04", n_quick=24, n_thorough=150, thorough_seeds=3, gen_timeout=2400,
    rule="n = number of store runs. Each run: a real store.ImmuStore in a temp dir with random configuration "
         "(MaxBulkSize 1..16, adaptive or timed bulks, flush/sync thresholds 1..100000, MaxNodeSize from the minimum up, cache 1 byte..1 MB, "
         "MaxActiveSnapshots 2..100, buffered-data limit 1 byte..1 MB, file size 16 KB..1 MB, embedded values or not) and one of three index "
         "sets: the default index; a prefixed plain index (injective or not, its own source index); an SQL-like set (primary index with a "
         "key-only mapper, injective secondary index with source+target mappers whose previous versions are looked up in the primary, a "
         "many-to-one truncating mapper, a value-dependent non-injective mapper, a second prefix). A random history of 8..35 transactions of "
         "1..MaxTxEntries entries over 4..12 keys (long shared prefixes, maximum-length keys, 0x00/0xff bytes, keys that are prefixes of other "
         "keys; overwrites, logical deletes, expirations in 2000 and 2100, non-indexable entries, empty values, transaction metadata) is "
         "committed in 1..4 batches; between batches: flush (with/without cleanup and sync), compaction, snapshots kept open, store "
         "close+reopen, index close+re-init with a backlog. Two schedules: `det` (2 of 3 runs) commits each batch while the indexers are "
         "paused (verif hook) or closed and uses adaptive bulks, so the bulk partition is known and the INDEXER MODEL (all_fixed = the code of "
         "/repo) is evaluated with it (CModel); `free` (1 of 3) lets indexers run concurrently with the commits and compares with the "
         "SPECIFICATION (CSpec), every configuration and bulk size. After WaitForIndexingUpto, per index: Get, "
         "GetBetween, History (full listings both directions, random offset/limit incl. 0 and out of range), Snapshot.History, GetWithPrefix "
         "(with/without neq), key readers (prefix, seek/end with inclusiveness, both directions, IgnoreDeleted/IgnoreExpired combinations, "
         "offsets), ReadBetween, each on the store or on a snapshot; every result is compared in Go with a re-implementation of the "
         "specification and every resolved value with the committed value. Plus serializeIndexableEntry / valueRefFrom on valid, mutated "
         "and random bytes. A history case is non-trivial when its index has >= 2 keys and a key with >= 2 versions; distinct by full case "
         "content.",
    trusted_base=COMMON_TB + [
        "modelled (coq/Idx): indexSince incl. the reused tx holder (accumulated keys are slot references resolved at BulkInsert time), "
        "source/target mappers, InjectiveMapping tombstones, non-indexable entries, bulks, IncreaseTs; serializeIndexableEntry / valueRefFrom; "
        "Get / GetBetween / History / Snapshot.History / GetWithPrefix / key readers with filters and offsets. embedded/tbtree is modelled as a "
        "multi-version ordered map (sorted association list with the insert rules of leafNode.updateOnInsert): its B-tree, snapshots, flush, "
        "compaction and recovery are the subject of C10 and are exercised here only through the tie",
        "NOT modelled: value resolution from the value log (checked directly in Go against the committed value), memory-semaphore "
        "back-pressure and bulk-preparation timeouts of indexSince (they only change the bulk partition, which is a parameter), mapper "
        "errors, concurrent index readers, pkg/database on top of the store",
        "the source index consulted by an injective index (SrcOther) is assumed correct and caught up (the code waits for it) and to hold the "
        "source key of every indexable entry under the same source prefix (the SQL engine's primary/secondary pairing); an index that is its "
        "own source index has no target mapper (spec_ok)",
        "ranged reads below the oldest version of a key and source-index lookups of a lagging injective index rely on the tbtree repair e30fc04 (lastUpdateBetween, C10); probe D5 of the harness replays the stall that defect caused (known_findings/C04.json, fixed)",
        "verif hook /repo/embedded/store/verif_hooks_c04.go (commit 2614796, build tag verif, add-only): pause/resume of the indexers, valueRefFrom and "
        "serializeIndexableEntry exposed",
        "the theorems are about the model all_fixed = indexer.go / key_reader.go after d549efb, e3b45a5, 9ae1e79, 89781aa; the directed replays of the "
        "six repaired defects (bulk 8 / 40 transactions, injective tombstones in a bulk, metadata tombstone, Snapshot.History revisions, crash "
        "probe in a child process, lagging secondary index) run on every check, a recurrence is a violation (known_findings/C04.json: fixed)",
    ],
    assumptions=[
        "histories are well formed (transaction ids 1,2,3,...) and valid (value length < 2^32, offsets < 2^64, 32-byte digests, metadata the "
        "encoders accept)",
        "indexing reaches the transaction asked for (the theorems are about the state when the indexer stopped having indexed up to n; an "
        "indexer that fails forever, e.g. on a mapped key longer than MaxKeyLen, never gets there — the model says so too)",
        "mappers are total functions of (key, value) returning fresh slices",
    ],
)


def classify(c):
    """True when the recorded behaviour by itself violates the property statement: for a specification case (kind spec) the
    observed reads are compared with index_of_history, so a disagreement IS a read that does not reflect the committed log;
    for model / serialisation cases a disagreement only says the model no longer follows the code."""
    return c.get("kind") == "spec"
