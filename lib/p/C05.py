"""C05 — Read-write transactions are serializable in commit order (MVCC)."""

from common_tb import COMMON_TB


CFG = dict(
    id="C05", tie="Tie.C05", n_quick=200, n_thorough=1200, thorough_seeds=3, gen_timeout=2400,
    rule="one case = one schedule run on a fresh real store (temp dir) from a single goroutine: 1-3 write-only "
         "transactions populate a 10-key universe with shared prefixes (plain, deleted, expired entries), then 2-4 "
         "read-write programs of 2-12 (every fifth case: up to 24) operations are advanced one operation at a time in a "
         "random interleaving with each other and with write-only committers (10% of the steps, half of them AsyncCommit "
         "so that the indexer may lag when the next commit validates); operations: "
         "GetWithFilters (filter lists ed/none/d/e/de, existing and missing keys), GetWithPrefixAndFilters (with and without "
         "exclusion key), Set/SetTransient with deleted/expired metadata, invalid keys, Delete, NewKeyReader (seek/end "
         "bounds between and beyond the keys, inclusive flags, prefix, descending, filters, offset 0-3, over-long seek), "
         "Read (runs of reads, early stop, reads past the end), Reset, MarkPrefixScanned; each transaction's snapshot "
         "is requested fresh, stale (reuse of the last dumped root) or in between, the tx id it was taken at is observed; "
         "commit (readers closed first) or cancel in random order; per case the committers' and the programs' keys come "
         "from disjoint pools (70%: stale snapshots whose reads stay valid) or from the same pool (conflicts); 8 fixed "
         "schedules (the two known gaps and their detected neighbours, expired read, fingerprint over an own write) run "
         "first; a case is non-trivial when at least one read-write transaction that had performed reads reached Commit "
         "with a snapshot older than the last committed transaction; distinct by the whole recorded schedule",
    trusted_base=COMMON_TB + [
        "modelled (coq/MVCC/Spec.v, Tx.v, Validate.v): the committed index state as a key-ordered list of latest entries; "
        "OngoingTx in read-write mode with one (default) index: lazy snapshot, entries/transientEntries/entriesByKey, the "
        "refInterceptor and the metadata-less dummy index entries of own writes, Get/GetWithFilters, GetWithPrefix[AndFilters], "
        "Delete, NewKeyReader + ongoingTxKeyReader Read/Reset (wrapper-side filters and offset, `skipped` not cleared by "
        "Reset), MarkPrefixScanned, every read-set record; checkPreconditions (early return on Snapshot.Ts() > last "
        "precommitted id, expected gets / prefix gets / reader segments with the key carry-over / fingerprints), precommit's "
        "ErrNoEntriesProvided and the atomic validate+append under the store mutex; the machine interleaving any number of "
        "transactions, commits and write-only committers",
        "NOT modelled: ReadBetween (history reads), the read-set size limit, non-indexable entries, several indexes / "
        "per-snapshot prefix routing, preconditions (C06), unsafe MVCC, mandatoryMVCCUpToTxID, the value log; the "
        "asynchronous indexer appears only as the staleness of the snapshot a transaction gets (commit waits for the "
        "index inside the lock: validation runs against the state after the last precommitted transaction)",
        "tbtree (C10) is abstracted to the ordered list; inserting a key that is new to the transaction's view while one "
        "of its own readers is positioned mutates the snapshot leaf in place under the reader: the harness never generates "
        "it and the model gives it cursor semantics (next entry after the last key read)",
        "expiry is evaluated by the code against the wall clock (Snapshot.ts = time.Now()); the harness writes expiry "
        "times one hour in the past, so `expired` is a static attribute of an entry; ErrExpiredEntry wraps ErrKeyNotFound "
        "in the code and both are the observable `not found`",
        "fingerprints (MarkPrefixScanned) are modelled as the hashed (key, tx) sequence itself (SHA-256 collisions aside)",
        "the Go oracle harness/c05/oracle.go restates the read side of coq/MVCC/Spec.v + Tx.v by hand (direct falsifier: "
        "serial replay of every committed transaction on the state after all smaller ids)",
    ],
    assumptions=[
        "checkPreconditions + performPrecommit execute atomically with respect to other commits (ImmuStore.mutex is held) "
        "and against a fully indexed state (WaitForIndexingUpto(currPrecommittedTxID) inside the lock)",
        "the snapshot a transaction gets is the committed state after the tx id its Snapshot.Ts() reports (observed by "
        "the harness through an identical snapshot request issued just before the transaction's first operation)",
    ],
)


def classify(c):
    """True when the recorded behaviour of the implementation on this case by itself violates the property statement:
    the serial replay of a committed transaction (or the snapshot-read / final-state check) disagreed."""
    return bool(c.get("oracle_violation"))
