"""C14 — value-log truncation keeps everything at or after the cut readable."""

from common_tb import COMMON_TB


CFG = dict(
    id="C14", tie="Tie.C14", n_quick=160, n_thorough=1200, thorough_seeds=3, gen_timeout=2400,
    rule="one case = one real store (temp dir) driven through a whole scenario of the model's operations: "
         "committers whose value append and commit are separate steps (replica stores: ReplicateTx launched in a "
         "bounded-lookahead permutation of the ids, so values land out of id order deterministically; primary stores: "
         "2-4 goroutines committing concurrently), MaxIOConcurrency 1..3, value-log file size 64..512 bytes, value "
         "lengths 0 / tiny / fsz-1,fsz,fsz+1 / >2*fsz, empty values anywhere in a tx, embedded values on/off, "
         "failing committers leaving orphan values, metadata-only txs, MaxConcurrency 1..4 with a committer launched "
         "MORE than MaxConcurrency ids ahead (one engineered instance at the start of every run: the last tx alone "
         "runs ahead, one half-file value per tx, every cut point); families: every cut point 0..T+1 on one "
         "reproduced history; truncations in the middle of the history (some while a committer is stalled), the "
         "same cut twice, decreasing cuts; after truncation ReadTx+ReadValue of every entry, ExportTx of every tx "
         "under a 2 s liveness bound with the _valBsMux state observed, Get/Resolve of every key, dual proof, "
         "restart and the same reads again; plus pkg/database rounds (direct checks, quick tier too): tables with CHECK "
         "constraints (named/unnamed), NOT NULL, AUTO_INCREMENT, composite PK, added column, secondary and UNIQUE "
         "indexes, view, sequence, collection with indexed fields, all created before the cut, file size 256..512 so "
         "that the chunks holding the DDL values are deleted (verified on the chunk files), baseline restart, two "
         "truncate+restart cycles, after each: SELECT on every table/index, one satisfying and one violating INSERT "
         "per constraint (refused for the right error), document insert/search, re-insert of a primary key deleted "
         "before the cut. A case is non-trivial when it contains a truncation and at least two "
         "transactions; distinct by the whole (configuration, operations, observations) term",
    trusted_base=COMMON_TB + [
        "modelled (coq/Trunc/Model.v): encodeOffset/decodeOffset (with the code's mask), appendValuesInto/"
        "appendValuesIntoAnyVLog (any value log, empty values keep offset 0), multiapp Append/ReadAt/DiscardUpto as "
        "a byte log with a set of existing chunk files, readTxOffsetAt, TruncateUptoTx (back walk, front walk, "
        "deletion loop, fetchVLog of an absent id = error), readValueAt/ReadValue, ExportTx with the _valBsMux flag "
        "(code since 7ccd103; the code before it is kept as `fixed = false`), restart; value append and commit "
        "are separate atomic steps (each is a critical section under a Go mutex: trusted)",
        "NOT modelled: tx-log/commit-log bytes (truncation never touches them: checked directly by the harness "
        "through headers, Alh, ExportTx bytes, index lookups, dual proof), the value cache (VLogCacheSize > 0: direct "
        "checks only), compressed value logs, remote (S3) appendables, pkg/database catalog copy (an ordinary "
        "commit in the model; SQL catalog after truncation+restart is a direct check), pkg/truncator scheduling",
        "digest check of readValueAt modelled as comparison with the written value (SHA-256 collision free)",
        "add-only hook embedded/store/verif_hooks_c14.go (VerifValMuxLocked: TryLock probe of _valBsMux); without "
        "it the harness falls back to the 2 s liveness probe",
    ],
    assumptions=[
        "every value is within MaxValueLen (validateEntries refuses others before anything is written), so the vLen "
        "guards of ReadValue/ExportTx (85f50b0) are never taken",
        "value-log ids are <= MaxParallelIO = 127 (Options.Validate), so bit 63 of vOff is never set and int64 "
        "comparisons equal comparisons in N",
        "fewer than 2^55 value bytes per value log (decodeOffset clears bit 55)",
        "TruncateUptoTx's reads of committed transactions are atomic w.r.t. commits (s.mutex); the file system "
        "removes exactly the files DiscardUpto asks for",
    ],
)


def _known_matches():
    import json, os
    p = os.path.join(os.path.dirname(os.path.dirname(os.path.dirname(os.path.abspath(__file__)))), "known_findings", "C14.json")
    try:
        return [f["match"] for f in json.load(open(p))["findings"] if f.get("status") == "known"]
    except Exception:
        return []


def classify(c):
    """True when what the implementation was observed to do in this case violates the property statement by
    itself (the harness evaluated the statement directly: unreadable/different value at or above the cut, changed
    header, export not returning / incomplete, lock left held) in a way that is not one of the known findings."""
    km = _known_matches()
    return any(not any(m in d for m in km) for d in (c.get("direct") or []))
