"""C08 — hash trees equal the reference Merkle construction."""
from common_tb import COMMON_TB

CFG = dict(
    id="C08", tie="Tie.C08", n_quick=3000, n_thorough=12000, thorough_seeds=3,
    rule="real ahtree.AHtree in temp dirs (random cache slots 1..8, sync thresholds, file sizes) driven by random "
         "append / ResetSize / Sync / close+reopen / DataAt histories with payloads of 0..8 bytes; RootAt(n) for every n "
         "compared with the reference mth; for the small trees EVERY pair i<=j<=size: InclusionProof compared with the "
         "reference audit path, honest inclusion/consistency/last-inclusion proofs and mutated ones (dropped, "
         "duplicated, flipped, swapped, truncated terms; i, j shifted by +-1; neighbouring roots; swapped roots; empty "
         "proof; i=0) through the Go verifiers and the model verifiers; htree.BuildWith/InclusionProof/VerifyInclusion "
         "for widths 0..65 incl. stale level arrays, Leaf/Width shifted, negative and zero; SHA-256 vectors. "
         "Each history is also replayed (Append d / ResetSize k) on the digest-log model coq/Merkle/AHT.v: the digest log "
         "as nodeAt returns it (through the cache; hook VerifDigests) must equal the model's log below dLogSize entry by "
         "entry, and RootAt(1..n), every (n<=17; else sampled) InclusionProof(i,j) and ConsistencyProof(i,j) are compared "
         "with the model's, encoded as indices into that log; nodesUpto/nodesUntil/levelsAt compared for n = 1..70, "
         "2^k and 2^k+-1 up to 2^56 and random n. "
         "Histories also contain Close+Open at any moment and CRASH IMAGES (a copy of the directory whose commit log is "
         "cut to c entries with multiapp.SetOffset while the payload and digest logs keep everything; the run continues "
         "on the image with different payloads); the harness keeps the plain payload list (restart = nothing, crash "
         "image = truncation to c) and compares "
         "every RootAt with its own RFC 6962 reference hash (direct oracle). "
         "Non-trivial: histories of size >= 3 that is not a power of two, proofs with j >= 3, every verifier case; "
         "distinct by full case content. Falsifier: a Go verifier acceptance whose claim is false for the harness' "
         "own leaves (inclusion: not leaf i of the genuine tree; consistency: old root not the root of the first i "
         "payloads - excluded by theorems C08_ahtree_inclusion_sound_exact / C08_consistency_fixed_sound_exact); "
         "outcome of the proof generators and of htree.InclusionProof on illegal arguments; digest-log entry count "
         "against nodesUpto(size); two accepted inclusion (or last-inclusion) proofs for one (position, root) with "
         "different leaves (theorems C08_ahtree_*_proof_unique); any error of Append/RootAt/InclusionProof/"
         "ConsistencyProof on a legal history.",
    trusted_base=COMMON_TB + [
        "executable SHA-256 of coq/Merkle/Sha256.v uses Coq's primitive Uint63 integers under vm_compute (only to run "
        "the model; validated against crypto/sha256 by the CSha cases); theorems are about an abstract hash H",
        "hash assumptions are in the statements: every soundness theorem concludes `claim \\/ Collision H`",
        "modelled: ahtree.VerifyInclusion/VerifyLastInclusion/VerifyConsistency (the current one, with the "
        "consistencyProofLen test of 05f2785, is `verify_consistency_fixed`; `verify_consistency` is the pre-fix "
        "function kept for witnesses and partial theorems), htree.VerifyInclusion (transliterated), htree.BuildWith "
        "level arrays and htree.InclusionProof (coq/Merkle/HTree.v; arrays modelled by what the last BuildWith wrote), "
        "reference tree mk_tree (RFC 6962 shape) and audit path; the AHtree digest log (coq/Merkle/AHT.v: nodesUpto, "
        "nodesUntil, levelsAt, node(n,l), the Append w,l,k loop, rootAt, highestNode, inclusionProof, consistencyProof, "
        "ResetSize rewinding the sizes over logs that keep their stale tails); uint64 arithmetic modelled in N without "
        "wrap-around (agrees for sizes < 2^58; n = 0 never reaches the addressing functions since 172c7ab); "
        "NOT modelled (tie only): the digest/payload caches (read-through; the tie reads the log through them), the "
        "three appendable files as byte logs (C17/C03); Sync/Close/Open are modelled at the level of the number of "
        "commit-log entries on disk (sync2, reopen_at, run2: SetOffset truncates since 09014a8; ResetSize cuts the "
        "commit log at once since 6a85281), incl. crash images whose payload/digest logs extend "
        "beyond the commit log; torn writes inside one log are C03; the stale tails of the htree level arrays",
        "hook /repo/embedded/ahtree/verif_hooks_c08.go (build tag verif, add-only): VerifNodesUpto/VerifNodesUntil/"
        "VerifLevelsAt, VerifDigests",
    ],
    assumptions=["proof terms are 32-byte values (Go type [sha256.Size]byte)"],
)


def classify(c):
    # a verdict disagreement is not by itself a property violation; direct violations come from the falsifier
    return False
