"""C03 — crash durability: acknowledged commits survive; recovery is a consistent prefix."""
from common_tb import COMMON_TB

CFG = dict(
    id="C03", tie="Tie.C03", n_quick=30, n_thorough=120, thorough_seeds=2, gen_timeout=3000,
    rule="n = number of workloads. Each workload: a real store (Synced(true)) in a temp dir opened over INSTRUMENTED "
         "appendables injected through the public store.Options.WithAppFactory/WithAppRemoveFunc; random configuration "
         "(FileSize 256..4096 -> chunk rotation, WriteBufferSize 32..1024 -> buffer-full flushes, MaxActiveTransactions "
         "1..6, 1..3 value logs, AHT SyncThld 1..4, embedded values, PreallocFiles, external commit allowance, index "
         "flush thresholds, header version); either a deterministic driver (committers blocked in Commit/AsyncCommit, "
         "driver calls Sync / AllowCommitUpto / FlushIndexes) or free-running goroutines with SyncFrequency 2ms. The "
         "recorder yields, per log (tx, commit, val_i, aht/{data,tree,commit}, index/*), every Append/SetOffset/Flush/"
         "Sync, the physical writes AND TRUNCATIONS each call produced (files read back and diffed; a file that shrank = "
         "a rewind below the flushed size, fix 09014a8; removed chunk files), what each call made durable, and "
         "the acknowledgements. FALSIFIER: crash points between storage operations x crash images (durable only / all "
         "OS operations / all writes but no truncation / one log class ahead or behind / random per-file prefix with "
         "torn last write and truncations applied or not), materialised as real "
         "directories, real store.Open, property checked directly (open succeeds; every acknowledged tx byte-identical "
         "incl. values; gap-free ids; PrevAlh chain; BlRoot = Merkle root of the recovered Alhs; DualProof(acked, "
         "recovered) and (acked, fresh) verify; Get after WaitForIndexingUpto = latest committed value; a fresh commit "
         "succeeds); a sample of images is continued into a second traced incarnation (recovery + fresh commits) and "
         "crashed again. Directed scenarios on the real store = the Coq witnesses: A (record without values, fixed ccd70f3), "
         "B (stale tree leaf after two crashes, fixed b260503), C (PreallocFiles partial commit entry, known), D (tree logs "
         "cut behind an un-synced commit-log rewind, fixed 0b488aa): a recurrence of a fixed one is a VIOLATION with crash "
         "point and image; E = index recovery (transactions whose entries are all non-indexable — the indexer only moves "
         "the index timestamp — between indexable ones, flush threshold 2 with a far sync threshold plus explicit synced "
         "and non-synced flushes, images that drop the un-fsynced index logs but keep a renamed TIMESTAMP file and the "
         "converse; after recovery + WaitForIndexingUpto(last committed) Get of EVERY key of the recovered committed "
         "history must return its latest committed tx and value). Random workloads with header version 1 also mix in "
         "non-indexable transactions (30%) and non-synced threshold flushes. The index TIMESTAMP files (written by temp "
         "file + fsync + rename, not through an appendable) are observed next to the logs and form their own image class "
         "'meta' (only:meta / except:meta / except:index / rand). Plus 1+n/5 ROTATION workloads (FileSize 256..1024: tx records straddle chunk boundaries, every log "
         "rotates several times; long schedules; a crash point after EVERY acknowledgement) whose store lives on a disk "
         "file system and whose durability is OBSERVED per physical chunk file after every call (cachestat(2): a written "
         "file without dirty/writeback pages has been fsynced; otherwise its writes stay pending whatever the API was "
         "told). TIE cases: CRun = the trace projected to a schedule of protocol-model operations with the "
         "observed offsets/sizes/commit counts/acks (the model must accept the schedule and reproduce the observables, "
         "incl. that at each ack the commit entry, tx record and value extent are durable); CRec = schedule prefix + "
         "per-class crash image, model `recover` vs real store.Open on (success, committed id, reloaded precommitted). "
         "Non-trivial: CRun with >= 2 transactions and >= 1 commit; CRec whose recovered history is non-empty; distinct "
         "by full case content.",
    trusted_base=COMMON_TB + [
        "file-system model: fsync makes all earlier writes AND truncations of THAT file durable; un-fsynced operations "
        "survive as any per-file prefix plus a byte-prefix of the next write (torn), independently per file; an un-fsynced "
        "truncation (SetOffset below the flushed size since fix 09014a8) inside that prefix may be on disk or not (model: "
        "at any offset >= the new size, which also covers 'the later chunk files are gone, the tail of the chunk is not'); "
        "removal of chunk files is durable when SetOffset returns (multiapp fsyncs the directory); no reordering beyond "
        "that; in every reachable model state a truncation is the first pending operation of its file; a created chunk "
        "file exists with its header (singleapp.Open fsyncs file and directory)",
        "rename semantics (index TIMESTAMP files: temp file fsynced, renamed, directory NOT fsynced): the replacement is "
        "atomic (never torn) and after a crash the name shows the old OR the new content, whatever else reached the disk "
        "(both explored: the new content may be durable at once, e.g. by a journal commit, or never until the directory "
        "is fsynced); a replacement is observed at the next traced storage call of any log, not at the rename itself",
        "harness, rotation workloads: durability of each physical chunk file is observed through cachestat(2) (kernel >= 6.5, "
        "disk file system; falls back to the derived level and says so in the input distribution otherwise); a page "
        "cleaned by background write-back within the sub-second run would be taken as fsynced; a TRUNCATION leaves no dirty "
        "page, so at this level it stays pending until a later write of the same file is seen fsynced (or for good); the "
        "protocol MODEL keeps treating a log as one file: chunk-level durability is falsifier-side only",
        "harness, other workloads: what is durable is derived from the appendable API contract (Sync = fsync of the current chunk; rotation "
        "fsyncs the chunk it leaves when Synced; a buffer-full auto-sync is treated as a plain write, which only ADDS crash "
        "images); physical writes are observed by reading the files back after every call under one global lock",
        "atomicity of each critical section of the Go code (commit mutex, commitStateRWMutex, per-vLog lock, AHT mutex) as "
        "one model step; any interleaving of steps is covered; Flush+Sync is one step (the state in between is reachable "
        "through OFlush)",
        "modelled: performPrecommit (tx-log rewind+append, AHT ResetSize/Append with its own sync threshold, cLogBuf), "
        "sync() phases (value logs in ANY order, as Go ranges over a map), OpenWith (commit-log trimming / PreallocFiles "
        "binary search, last-tx validation, precommitted reload by id/PrevAlh/record check AND value check (fix ccd70f3), "
        "AHT reset to the committed id (fix 2077e08) / up-to-date / re-link), the tree fsynced inside sync() before the "
        "commit entries (fix b260503; model switch c_ahtsync = Tie.C03.repair_applied = true; the tie observes whether "
        "the tree fsyncs inside sync(), so the switch must agree with the code), ahtree.ResetSize = sync + commit-log rewind "
        "(fix 6a85281) + fsync of the commit log (fix 0b488aa; model switch c_ahtreset = Tie.C03.aht_durable_reset = RSync; "
        "RCut / RMem = the code before, kept for the historical witness D; the correspondence run does not exercise the "
        "switch: its cases are first incarnations, where ResetSize is a no-op — it is exercised by the falsifier: directed "
        "scenarios B and D and every double-crash image), rewinds as truncations (fix 09014a8; not for "
        "preallocated files), open-time cut of a partial last entry, ahtree.OpenWith size checks. ABSTRACTED: "
        "tx record = id|prevAlh|len|body|alh with an opaque body carrying one value extent; H arbitrary 32-byte function; "
        "AHT = one leaf log (payload+digest logs) + commit log. NOT "
        "modelled (falsifier only): chunk rotation, embedded values, external commit allowance, index (tbtree) recovery, "
        "DiscardPrecommittedTxsSince (neither model nor falsifier: since 8728288 it also cuts the tx log; committers blocked in "
        "Commit cannot be combined with it), I/O error paths (the deferred commit-log rewind of an incomplete commit loop, "
        "fix 8728288: every storage call of the model succeeds or the process crashes), store truncation (TruncateUptoTx), "
        "compression; PreallocFiles only as refutation "
        "witness + repaired example (model switch c_preallocfix, fixes/C03-prealloc-clog-trim.diff), no general theorem",
        "model guards standing for Go's fixed-width types: tx id < 2^64, record size < 2^32, file offsets < 2^64",
    ],
    assumptions=["fsync/prefix/torn-write semantics of the OS and disk as stated; nothing about SHA-256 is assumed "
                 "(no theorem of this check needs collision resistance)"],
)


def classify(c):
    # a CRun/CRec disagreement means the real trace is not a run of the model or recovery differs: the concrete
    # property violations come from the falsifier (findings); a disagreement alone is a correspondence break
    return False
