"""Per-property configuration of the checks (what is generated, how much, what a disagreement means)."""

from common_tb import COMMON_TB


CFG = dict(
    id="C16", tie="Tie.C16", n_quick=3000, n_thorough=20000, thorough_seeds=3,
    rule="structure-aware: every valid encoding (TxMetadata, KVMetadata, TxHeader v0/v1, ExportTx bytes of real "
         "transactions) mutated at every truncation point / boundary byte values / off-by-one length edits / "
         "insertions, plus small-biased random strings; a case is non-trivial when the input is non-empty (for "
         "headers: at least the minimum header length, for ReplicateTx: longer than the length prefix); distinct by "
         "(entry point, input bytes, outcome). Also modelled: appendable.NewMetadata + Get/GetInt/GetBool on valid, "
         "mutated and hand-made metadata blocks. Probes without a model (falsifier only: panic, no return within 60 s, "
         "allocation far beyond the file size): the pgsql Parse*Msg functions on structured payloads (strings with and "
         "without terminator, negative / huge counts and lengths, truncations), sql.ParseSQLString on mutated SQL, "
         "singleapp.Open on files with corrupted headers",
    trusted_base=COMMON_TB + [
        "modelled (theorems): TxMetadata.ReadFrom, KVMetadata.unsafeReadFrom, TxHeader.ReadFrom, ReplicateTx framing "
        "(embedded/store), appendable Metadata.ReadFrom and its typed getters; NOT modelled, probed by the falsifier "
        "only: goyacc SQL parser, pgsql wire message parsers, singleapp.Open header handling; not covered at all: "
        "pkg/stream chunk parsers, protobuf unmarshalling, gRPC framing",
        "Go slices handed to the decoders have cap == len (harness clamps them), as the model's sub_ assumes",
    ],
    assumptions=["each Go slice expression is transliterated by hand into a checked primitive (at_/from_/sub_/uint_)"],
)


def classify(c):
    """True when the recorded behaviour of the implementation on this case is, by itself, a violation of the
    property statement (arbitrary bytes give an error or a value: never a panic, never a partial effect)."""
    return bool(c.get("panic")) or (bool(c.get("err")) and bool(c.get("changed")))
