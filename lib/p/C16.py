"""Per-property configuration of the checks (what is generated, how much, what a disagreement means)."""

from common_tb import COMMON_TB


CFG = dict(
    id="C16", tie="Tie.C16", n_quick=3000, n_thorough=20000, thorough_seeds=3,
    rule="structure-aware: every valid encoding (TxMetadata, KVMetadata, TxHeader v0/v1, ExportTx bytes of real "
         "transactions) mutated at every truncation point / boundary byte values / off-by-one length edits / "
         "insertions, plus small-biased random strings; a case is non-trivial when the input is non-empty (for "
         "headers: at least the minimum header length, for ReplicateTx: longer than the length prefix); distinct by "
         "(entry point, input bytes, outcome). Also modelled: appendable.NewMetadata + Get/GetInt/GetBool on valid, "
         "mutated and hand-made metadata blocks. "
         "PostgreSQL wire (modelled, share n/7): Bind / Parse / Execute messages built field by field, every int16 / "
         "int32 field set to boundary values (0, +-1, 32767, -32768, 2^31-1, what remains behind the field +-1, "
         "MaxMsgSize +-1: a handful of 32 MiB lengths per run), truncation behind every field, string terminators "
         "removed, every type byte on short payloads, random payloads; framing: length field 0..5, payload length "
         "+-1, MaxMsgSize+4 +-1, 2^31+3 +-1, unknown type bytes, every truncation of two frames; outcome, decoded "
         "message and bytes allocated (runtime.MemStats) are compared; non-trivial = non-empty input. "
         "pkg/stream (modelled, share n/7): sequences of length-prefixed messages for the Read / key-value / sorted-set "
         "/ verifiable-entry / exec-all receivers cut into chunks four ways (one chunk, single bytes, message "
         "boundaries, random pieces incl. empty chunks), one length field altered (+-1, 0, 2^63-1, 2^63, 2^64-1, ..), "
         "truncated, trailing garbage, transport error instead of EOF, buffer sizes 1..33; the handler loop is run 12 "
         "steps and the items, panic flag and allocation compared; ReadFully: first chunk of 0..9 bytes, announced "
         "length around the delivered length, 2^48+1, 2^63+1; non-trivial = more than 8 bytes of chunks. "
         "Open-time parsing (modelled, share n/10): tbtree commit-log entries with every size field at boundary values "
         "(top bit set, +-1 around the log size), commit-log metadata blocks with each parameter at boundary values "
         "and byte mutations, hand-serialised inner / leaf nodes with every count / size field at boundary values, "
         "truncations, type byte, random logs, timestamp files of 0..10 bytes; ahtree: last commit-log entry offset / "
         "size at boundary values against payload / digest log sizes, DataAt entry sizes. "
         "SQL text (fixed size, not budget-dependent): a pool of 47 statements covering the lexer's scanning loops (block and line comments, string literals with doubled quotes, quoted identifiers, numbers, blobs, @x / $n / ? parameters, casts, JSON, timestamps) and every statement kind of the grammar; EVERY prefix of each statement, every delimiter byte (quote, double quote, / * - ( ) ; , . : @ $ ? x, line break) deleted or doubled, the comment terminator deleted, and /* */ -- quote ( ) ; inserted at four seams (about 6900 probes of sql.ParseSQLString: returns within 20 s, no panic, allocation <= 8 KiB per byte + 4 MiB); 356 of these texts (each statement, 6 sampled variants, 27 end-of-input tails) are tied to the lexer model SQLLex/Lexer.v by the byte positions lexer.Lex reaches after each call. After three calls that did not return, no further wire / stream / open-time / SQL cases are generated. "
         "Probes without a model (falsifier only: panic, no return within 60 s, allocation far beyond the input): "
         "sql.ParseSQLString on mutated SQL, singleapp.Open on files with corrupted headers, the pgsql Parse*Msg "
         "functions (kept from the first version), multiapp / singleapp header values (FILE_SIZE, COMPRESSION_FORMAT)",
    trusted_base=COMMON_TB + [
        "modelled (theorems): TxMetadata.ReadFrom, KVMetadata.unsafeReadFrom, TxHeader.ReadFrom, ReplicateTx framing "
        "(embedded/store), appendable Metadata.ReadFrom and its typed getters; pgsql: session.parseRawMessage with all "
        "fmessages parsers and messageReader.ReadRawMessage over a transliteration of bufio.Reader (fill, ReadSlice, "
        "collectFragments, ReadBytes, Read, Buffered; Go 1.25 source) reading from a bytes.Buffer; pkg/stream: "
        "msgReceiver.Read / ReadFully, ReadValue, kv / z / verifiable-entry / exec-all receivers over a list of "
        "chunks; tbtree: cLogEntry.deserialize / isValid, the io.SectionReader arithmetic of appendable.Checksum, "
        "parameters from the commit-log metadata, readNodeFrom over appendable.Reader, readTsFile; ahtree: OpenWith "
        "size arithmetic (nodesUpto included), DataAt buffer size; embedded/sql lexer.Lex: the scanning loops only (how many bytes each call takes: "
        "comments, strings, blobs, quoted identifiers, words, numbers, operators, parameters with the lexer's "
        "parameter-style state), not token values. NOT modelled, probed by the falsifier only: the goyacc automaton "
        "and grammar actions of the SQL parser, singleapp.Open / multiapp.Open header handling; not covered: protobuf unmarshalling (ZAdd / "
        "verifiable-entry bodies are opaque), gRPC framing, tbtree operations on loaded nodes (history chains, "
        "splits), the I/O of the open loops (which commit-log entry is read, checksum values)",
        "Go slices handed to the decoders have cap == len (harness clamps them), as the model's sub_ assumes",
        "allocation measure: the model counts the bytes requested by make(), by bufio.ReadBytes, by string([]byte) "
        "conversions and per appended element; Go's size classes, amortised append growth and small bookkeeping "
        "objects are covered by the factor 4 (+4 KiB) with which runtime.MemStats.TotalAlloc of the real call is "
        "compared; error values of immudb's pkg/errors capture debug.Stack() (buffers of 1, 2, 4 .. KiB until the trace "
        "fits + the trace string: a cost that depends on the caller's depth, not on the input) and are taken out of the "
        "observation first: exactly, from the trace length, for the errors the harness received; for errors the receiver "
        "constructs and drops (exec-all ignores the error of a ZAdd body's ReadValue) the model reports their number "
        "and the cost of one such error is calibrated on the same call path (+128 trace bytes of margin); runtime.makeslice is modelled as: panic for a negative length or more than 2^48 bytes, otherwise "
        "the request (the out-of-memory crash of the runtime for requests the machine cannot serve is not a value "
        "of the model: such inputs appear as an allocation measure only)",
        "bytes.Buffer.Read, io.ReadFull, binary.Read (8-byte numbers), io.SectionReader.Read / NewSectionReader and "
        "appendable.Reader.Read are transliterated from their Go 1.25 / repository source for the cases that occur "
        "(whole payload buffered at the first fill; ReadAt returning data or io.EOF); net.Conn / gRPC Recv are "
        "abstracted to 'the bytes, then EOF (or a transport error)'",
        "add-only hooks (build tag verif): pkg/pgsql/server/verif_hooks_c16.go (raw message fields, parseRawMessage), "
        "embedded/tbtree/verif_hooks_c16.go (cLogEntry, readNodeAt, parameters, readTsFile), "
        "embedded/ahtree/verif_hooks_c16.go (pLogSize / dLogSize), embedded/sql/verif_hooks_c16.go (positions reached by "
        "lexer.Lex; texts containing a NUL byte are not tied: Lex reports that byte as token 0 = end of input)",
        "switches in coq/Tie/C16.v select which code the tie runs against: pg_bind_is_fixed, stream_is_fixed, "
        "tbtree_open_is_fixed, ahtree_open_is_fixed (false = code as found; the theorems cover both values)",
    ],
    assumptions=["each Go slice expression is transliterated by hand into a checked primitive (at_/from_/sub_/uint_)",
                 "a read buffer / chunk buffer is at most 2^48 bytes long (premise of the stream theorems: Go cannot "
                 "make a larger slice)",
                 "the node parser theorem is stated for byte strings (every element below 256)"],
)


def classify(c):
    """True when the recorded behaviour of the implementation on this case is, by itself, a violation of the
    property statement (arbitrary bytes give an error or a value: never a panic, never a partial effect)."""
    return bool(c.get("panic")) or (bool(c.get("err")) and bool(c.get("changed")))
