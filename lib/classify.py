"""classify(case) -> True when the recorded behaviour of the implementation on this case is, by itself,
a violation of the property statement (then the case is the failing input of the VIOLATION line);
False when only the model/implementation correspondence broke (reported with no-failing-input-found)."""

def c16(c):
    # the property: arbitrary bytes give an error or a value, never a panic, never a partial effect
    return bool(c.get("panic")) or (bool(c.get("err")) and bool(c.get("changed")))

CLASSIFY = {"C16": c16}
