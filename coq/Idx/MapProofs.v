(* C04 — facts about key order, sorted insertion and the multi-version map operations *)
From V Require Import Idx.Spec Idx.Indexer.
From Coq Require Import Sorted.
From Coq Require Import ZifyN ZifyNat ZifyBool.

(* ---------- equality tests ---------- *)
Lemma bytes_eqb_refl a : bytes_eqb a a = true.
Proof. unfold bytes_eqb; induction a as [|x a IH]; simpl; auto. rewrite N.eqb_refl; exact IH. Qed.

Lemma bytes_eqb_eq a b : bytes_eqb a b = true -> a = b.
Proof.
  unfold bytes_eqb; revert b; induction a as [|x a IH]; intros [|y b]; simpl; try discriminate; auto.
  intros H; apply andb_prop in H as [H1 H2]. apply N.eqb_eq in H1. f_equal; auto.
Qed.

Lemma bytes_eqb_neq a b : bytes_eqb a b = false -> a <> b.
Proof. intros H E; subst; rewrite bytes_eqb_refl in H; discriminate. Qed.

Lemma bytes_eqb_sym a b : bytes_eqb a b = bytes_eqb b a.
Proof.
  destruct (bytes_eqb a b) eqn:E.
  - apply bytes_eqb_eq in E; subst; symmetry; apply bytes_eqb_refl.
  - destruct (bytes_eqb b a) eqn:E'; auto. apply bytes_eqb_eq in E'; subst. rewrite bytes_eqb_refl in E; discriminate.
Qed.

Lemma bytes_eqb_false_of_neq a b : a <> b -> bytes_eqb a b = false.
Proof. intros H; destruct (bytes_eqb a b) eqn:E; auto. apply bytes_eqb_eq in E; contradiction. Qed.

Lemma bcmp_lt_neq a b : bcmp a b = Lt -> a <> b.
Proof. intros H E; subst; rewrite bcmp_refl in H; discriminate. Qed.

Lemma bcmp_gt_lt a b : bcmp a b = Gt -> bcmp b a = Lt.
Proof. intros H; rewrite bcmp_antisym, H; reflexivity. Qed.

(* ---------- strictly sorted key lists ---------- *)
Definition blt (a b : bytes) : Prop := bcmp a b = Lt.
Definition sorted (l : list bytes) : Prop := StronglySorted blt l.

Lemma sorted_nil : sorted []. Proof. constructor. Qed.

Lemma ins_in k l x : In x (ins k l) <-> x = k \/ In x l.
Proof.
  induction l as [|y l IH]; simpl.
  - intuition.
  - destruct (bcmp k y) eqn:E; simpl.
    + apply bcmp_eq in E; subst; intuition.
    + intuition.
    + rewrite IH; intuition.
Qed.

Lemma ins_sorted k l : sorted l -> sorted (ins k l).
Proof.
  induction l as [|y l IH]; intros H; simpl.
  - constructor; constructor.
  - inversion H as [|? ? Hs Hf]; subst. destruct (bcmp k y) eqn:E.
    + exact H.
    + constructor; auto. constructor; auto.
      eapply Forall_impl; [|exact Hf]. intros z Hz; unfold blt in *; eapply bcmp_trans_lt; eauto.
    + constructor; [apply IH; exact Hs|]. apply Forall_forall; intros z Hz. apply ins_in in Hz as [->|Hz].
      * apply bcmp_gt_lt; exact E.
      * rewrite Forall_forall in Hf; auto.
Qed.

Lemma sorted_NoDup l : sorted l -> NoDup l.
Proof.
  induction 1 as [|x l Hs IH Hf]; constructor; auto.
  intros Hin. rewrite Forall_forall in Hf. apply Hf in Hin. unfold blt in Hin. rewrite bcmp_refl in Hin; discriminate.
Qed.

Lemma ins_id k l : sorted l -> In k l -> ins k l = l.
Proof.
  induction l as [|y l IH]; intros Hs Hin; [destruct Hin|].
  inversion Hs as [|? ? Hs' Hf]; subst. simpl. destruct (bcmp k y) eqn:E; auto.
  - destruct Hin as [->|Hin]; [rewrite bcmp_refl in E; discriminate|].
    rewrite Forall_forall in Hf. apply Hf in Hin. unfold blt in Hin.
    rewrite bcmp_antisym, E in Hin; discriminate.
  - destruct Hin as [->|Hin]; [rewrite bcmp_refl in E; discriminate|]. f_equal; auto.
Qed.

(* ---------- mv_find / vs_of ---------- *)
Definition vs_of (m : mvmap) (k : bytes) : list tval :=
  match mv_find m k with Some vs => vs | None => [] end.

Lemma mv_find_none m k : ~ In k (map fst m) -> mv_find m k = None.
Proof.
  induction m as [|[k0 vs] m IH]; simpl; intros H; auto.
  destruct (bytes_eqb k0 k) eqn:E.
  - apply bytes_eqb_eq in E; subst; exfalso; apply H; auto.
  - apply IH; intros Hin; apply H; auto.
Qed.

Lemma mv_find_some m k : In k (map fst m) -> exists vs, mv_find m k = Some vs.
Proof.
  induction m as [|[k0 vs] m IH]; simpl; intros H; [destruct H|].
  destruct (bytes_eqb k0 k) eqn:E; eauto.
  destruct H as [->|H]; [rewrite bytes_eqb_refl in E; discriminate|auto].
Qed.

(* a table is determined by its key list and its lookups *)
Lemma tab_eq (m : mvmap) (F : bytes -> list tval) :
  NoDup (map fst m) ->
  (forall k, In k (map fst m) -> mv_find m k = Some (F k)) ->
  m = map (fun k => (k, F k)) (map fst m).
Proof.
  induction m as [|[k0 vs] m IH]; simpl; intros Hnd Hf; auto.
  inversion Hnd as [|? ? Hnin Hnd']; subst.
  assert (E0 := Hf k0 (or_introl eq_refl)). rewrite bytes_eqb_refl in E0. injection E0 as ->.
  f_equal. apply IH; auto.
  intros k Hin. specialize (Hf k (or_intror Hin)).
  destruct (bytes_eqb k0 k) eqn:E; auto.
  apply bytes_eqb_eq in E; subst; contradiction.
Qed.

(* ---------- mv_insert ---------- *)
Lemma mv_insert_keys m k t v m' : mv_insert m k t v = Ok m' -> map fst m' = ins k (map fst m).
Proof.
  revert m'; induction m as [|[k0 vs] m IH]; intros m' H; simpl in *.
  - injection H as <-; reflexivity.
  - destruct (bcmp k k0) eqn:E.
    + destruct vs as [|[t0 x] vs].
      * injection H as <-; reflexivity.
      * destruct (t <? t0); [discriminate|]. destruct (t0 <? t); injection H as <-; reflexivity.
    + injection H as <-; reflexivity.
    + destruct (mv_insert m k t v) as [r| |] eqn:Er; simpl in H; try discriminate.
      injection H as <-. simpl. f_equal. apply IH; reflexivity.
Qed.

(* the versions a key has after an accepted insertion *)
Definition ins_vs (old : list tval) (t : N) (v : bytes) : list tval :=
  match old with
  | [] => [(t, v)]
  | (t0, x) :: r => if t0 <? t then (t, v) :: old else old
  end.

Lemma mv_insert_find m k t v m' :
  sorted (map fst m) -> mv_insert m k t v = Ok m' ->
  forall k', vs_of m' k' = if bytes_eqb k k' then ins_vs (vs_of m k) t v else vs_of m k'.
Proof.
  unfold vs_of. revert m'; induction m as [|[k0 vs] m IH]; intros m' Hs H k'; simpl in *.
  - injection H as <-. simpl. destruct (bytes_eqb k k'); reflexivity.
  - inversion Hs as [|? ? Hs' Hf]; subst. destruct (bcmp k k0) eqn:E.
    + apply bcmp_eq in E; subst k0. rewrite bytes_eqb_refl.
      destruct vs as [|[t0 x] vs].
      * injection H as <-. simpl. destruct (bytes_eqb k k'); reflexivity.
      * destruct (t <? t0) eqn:E1; [discriminate|].
        destruct (t0 <? t) eqn:E2; injection H as <-; simpl; rewrite ?E2; destruct (bytes_eqb k k'); reflexivity.
    + injection H as <-. simpl.
      assert (Hk0 : bytes_eqb k0 k = false) by (apply bytes_eqb_false_of_neq; intros ->; rewrite bcmp_refl in E; discriminate).
      rewrite Hk0.
      assert (Hnone : mv_find m k = None).
      { apply mv_find_none. intros Hin. rewrite Forall_forall in Hf. apply Hf in Hin. unfold blt in Hin.
        assert (bcmp k k = Lt) by (eapply bcmp_trans_lt; eauto). rewrite bcmp_refl in H; discriminate. }
      rewrite Hnone. destruct (bytes_eqb k k') eqn:Ek.
      * reflexivity.
      * reflexivity.
    + destruct (mv_insert m k t v) as [r| |] eqn:Er; simpl in H; try discriminate.
      injection H as <-. simpl.
      assert (Hk0 : bytes_eqb k0 k = false) by (apply bytes_eqb_false_of_neq; intros ->; rewrite bcmp_refl in E; discriminate).
      rewrite Hk0. specialize (IH r Hs' eq_refl k').
      destruct (bytes_eqb k0 k') eqn:Ek0.
      * apply bytes_eqb_eq in Ek0; subst k'. rewrite bytes_eqb_sym, Hk0. reflexivity.
      * exact IH.
Qed.

Lemma mv_insert_sorted m k t v m' : sorted (map fst m) -> mv_insert m k t v = Ok m' -> sorted (map fst m').
Proof. intros Hs H. rewrite (mv_insert_keys _ _ _ _ _ H). apply ins_sorted; exact Hs. Qed.
