(* C04 — specification: what an index must contain, and what reads must return, as a function of
   the committed history alone.

   A committed history is the list of committed transactions (oldest first, ids 1,2,3,...).
   An index is described by an index spec (source prefix, optional source / target key mappers,
   injective flag, where the "source index" consulted for the previous version of a source key
   lives).  `index_of_history` is the abstract multi-version ordered map
        target key  |->  versions, newest first
   listed in key order (bcmp = Go's bytes.Compare).  All read operations of the store are defined
   on that abstract map.  Nothing in this file mentions bulks, holders, B-trees or bytes on disk. *)
From V Require Export Base.Bytes Base.Hex Store.Codec.

(* ------------------------------------------------------------------ *)
(* committed history                                                    *)
Record entry := {
  e_key : bytes;
  e_md : kvmd;          (* deleted / expiresAt / nonIndexable; a nil *KVMetadata is kvmd_empty *)
  e_val : bytes;        (* the value bytes (live in the value log) *)
  e_voff : N;           (* where: offset in the value log, as recorded in the tx log *)
  e_hval : bytes        (* sha256 of the value, as recorded in the tx log *)
}.
Record tx := { t_id : N; t_ts : N; t_md : txmd; t_entries : list entry }.
Definition history := list tx.

(* ids are 1, 2, 3, ... *)
Fixpoint ids_from (n : N) (h : history) : bool :=
  match h with
  | [] => true
  | t :: r => (t_id t =? n) && ids_from (n + 1) r
  end.
Definition wf_history (h : history) : bool := ids_from 1 h.

(* ------------------------------------------------------------------ *)
(* index spec                                                           *)
Definition mapper := option (bytes -> bytes -> bytes).   (* None = nil EntryMapper *)
Definition mapk (m : mapper) (key value : bytes) : bytes :=
  match m with Some f => f key value | None => key end.

(* which index answers "what was the previous version of this source key":
   none registered for the source key (ErrIndexNotFound), the index itself, or another index *)
Inductive srckind := SrcNone | SrcSelf | SrcOther.

Record ispec := {
  sp : bytes;            (* SourcePrefix *)
  smap : mapper;         (* SourceEntryMapper *)
  tmap : mapper;         (* TargetEntryMapper *)
  tp : bytes;            (* TargetPrefix *)
  inj : bool;            (* InjectiveMapping *)
  src : srckind
}.

Fixpoint has_prefix (k p : bytes) : bool :=
  match p, k with
  | [], _ => true
  | x :: p', y :: k' => (x =? y) && has_prefix k' p'
  | _ :: _, [] => false
  end.

Definition indexable (s : ispec) (e : entry) : bool :=
  negb (kv_nonindexable (e_md e)) && has_prefix (e_key e) (sp s).
Definition skey (s : ispec) (e : entry) : bytes := mapk (smap s) (e_key e) (e_val e).
Definition tkey (s : ispec) (e : entry) : bytes := mapk (tmap s) (skey s e) (e_val e).

(* ------------------------------------------------------------------ *)
(* one version of a target key                                          *)
Record ver := {
  v_tx : N;        (* transaction that produced this version *)
  v_txmd : txmd;   (* metadata of the transaction the entry was written in *)
  v_md : kvmd;     (* entry metadata as seen through the index (a tombstone has deleted = true) *)
  v_e : entry      (* the entry whose value this version points at *)
}.

Definition set_deleted (m : kvmd) : kvmd :=
  {| kv_deleted := true; kv_expires := kv_expires m; kv_nonindexable := kv_nonindexable m |}.

Definition tomb_active (s : ispec) : bool :=
  inj s && match src s with SrcNone => false | _ => true end.

(* the previous version of e's source key among the transactions `done` committed before:
   the latest earlier transaction holding an indexable entry with the same source key, and in it
   the entry stored under the same raw key *)
Definition has_skey (s : ispec) (k : bytes) (t : tx) : bool :=
  existsb (fun e' => indexable s e' && bytes_eqb (skey s e') k) (t_entries t).
Definition last_tx_with (s : ispec) (k : bytes) (done : history) : option tx :=
  fold_left (fun acc t => if has_skey s k t then Some t else acc) done None.
Definition find_entry (k : bytes) (t : tx) : option entry :=
  find (fun e' => bytes_eqb (e_key e') k) (t_entries t).
Definition prev_entry (s : ispec) (done : history) (e : entry) : option (tx * entry) :=
  match last_tx_with s (skey s e) done with
  | Some pt => match find_entry (e_key e) pt with Some pe => Some (pt, pe) | None => None end
  | None => None
  end.

(* what transaction t contributes to the index: for every indexable entry its target key, and —
   for an injective mapping — a tombstone on the target key its previous version was mapped to,
   when that differs and the previous version was live *)
Definition entry_kvs (s : ispec) (done : history) (t : tx) (e : entry) : list (bytes * ver) :=
  if indexable s e then
    (tkey s e, {| v_tx := t_id t; v_txmd := t_md t; v_md := e_md e; v_e := e |}) ::
    (if tomb_active s then
       match prev_entry s done e with
       | Some (pt, pe) =>
           (* a previous version that is itself a logical delete already deleted its mapped key
              when it was indexed: nothing to add *)
           if kv_deleted (e_md pe) then [] else
           let pk := mapk (tmap s) (skey s e) (e_val pe) in
           if bytes_eqb pk (tkey s e) then []
           else [(pk, {| v_tx := t_id t; v_txmd := t_md pt; v_md := set_deleted (e_md pe); v_e := pe |})]
       | None => []
       end
     else [])
  else [].
Definition tx_kvs (s : ispec) (done : history) (t : tx) : list (bytes * ver) :=
  flat_map (entry_kvs s done t) (t_entries t).

Fixpoint kvs_seq (s : ispec) (done : history) (todo : list tx) : list (list (bytes * ver)) :=
  match todo with
  | [] => []
  | t :: r => tx_kvs s done t :: kvs_seq s (done ++ [t]) r
  end.
Definition hist_kvs (s : ispec) (h : history) : list (list (bytes * ver)) := kvs_seq s [] h.

(* a transaction gives a key at most one version: the first one in entry order *)
Fixpoint first_with {A} (k : bytes) (l : list (bytes * A)) : option A :=
  match l with
  | [] => None
  | (k', v) :: r => if bytes_eqb k' k then Some v else first_with k r
  end.

(* versions of key k, newest first *)
Definition versions (s : ispec) (h : history) (k : bytes) : list ver :=
  rev (flat_map (fun kvs => match first_with k kvs with Some v => [v] | None => [] end) (hist_kvs s h)).

(* the keys of the index, in bcmp order without repetition *)
Fixpoint ins (k : bytes) (l : list bytes) : list bytes :=
  match l with
  | [] => [k]
  | x :: r => match bcmp k x with
              | Lt => k :: l
              | Eq => l
              | Gt => x :: ins k r
              end
  end.
Definition keys (s : ispec) (h : history) : list bytes :=
  fold_left (fun acc kv => ins (fst kv) acc) (concat (hist_kvs s h)) [].

Definition index := list (bytes * list ver).
Definition index_of_history (s : ispec) (h : history) : index :=
  map (fun k => (k, versions s h k)) (keys s h).

(* ------------------------------------------------------------------ *)
(* reads                                                                *)
Definition ENotFound : N := 10.
Definition EExpired : N := 11.
Definition ENoMoreEntries : N := 12.
Definition EOffsetOutOfRange : N := 13.

Fixpoint ix_find (ix : index) (k : bytes) : option (list ver) :=
  match ix with
  | [] => None
  | (k', vs) :: r => if bytes_eqb k' k then Some vs else ix_find r k
  end.

Definition expired (now : N) (m : kvmd) : bool :=
  match kv_expires m with Some t => t <=? now | None => false end.

(* a read result: the version and its revision number (1 = first version of the key) *)
Definition hit := (ver * N)%type.

(* filters IgnoreExpired, IgnoreDeleted in the order the store applies them *)
Definition live_filter (now : N) (x : hit) : res hit :=
  if expired now (v_md (fst x)) then Err EExpired
  else if kv_deleted (v_md (fst x)) then Err ENotFound
  else Ok x.

Definition nlen {A} (l : list A) : N := N.of_nat (length l).

(* Get: the latest version, unless it is expired or a logical delete *)
Definition get (now : N) (ix : index) (k : bytes) : res hit :=
  match ix_find ix k with
  | Some (v :: r) => live_filter now (v, nlen (v :: r))
  | _ => Err ENotFound
  end.

(* GetBetween: the latest version whose transaction lies in [lo, hi] (hi = 0: unbounded);
   no liveness filter *)
Fixpoint between (vs : list ver) (lo hi : N) : res hit :=
  match vs with
  | [] => Err ENotFound
  | v :: r =>
      if v_tx v <? lo then Err ENotFound
      else if (hi =? 0) || (v_tx v <=? hi) then Ok (v, nlen vs)
      else between r lo hi
  end.
Definition get_between (ix : index) (k : bytes) (lo hi : N) : res hit :=
  match ix_find ix k with
  | Some vs => if hi <? lo then Err EIllegalArguments else between vs lo hi
  | None => Err ENotFound
  end.

(* History: `limit` versions starting `offset` versions from the newest (desc) or from the
   oldest (asc) end, each with its revision number, and the total number of versions *)
Fixpoint number_up (vs : list ver) (n : N) : list hit :=
  match vs with [] => [] | v :: r => (v, n) :: number_up r (n + 1) end.
Fixpoint number_down (vs : list ver) (n : N) : list hit :=
  match vs with [] => [] | v :: r => (v, n) :: number_down r (n - 1) end.
Definition history_of (ix : index) (k : bytes) (offset : N) (desc : bool) (limit : N) : res (list hit * N) :=
  if limit <? 1 then Err EIllegalArguments else
  match ix_find ix k with
  | None => Err ENotFound
  | Some vs =>
      let hc := nlen vs in
      if offset =? hc then Err ENoMoreEntries
      else if hc <? offset then Err EOffsetOutOfRange
      else
        let o := N.to_nat offset in
        let n := N.to_nat limit in
        if desc then Ok (number_down (firstn n (skipn o vs)) (hc - offset), hc)
        else Ok (number_up (firstn n (skipn o (rev vs))) (offset + 1), hc)
  end.

(* GetWithPrefix: the first key (in key order) that is >= prefix and > neq (when neq is not
   empty); it must carry the prefix; then the liveness filters *)
Definition le_b (a b : bytes) : bool := match bcmp a b with Gt => false | _ => true end.
Definition lt_b (a b : bytes) : bool := match bcmp a b with Lt => true | _ => false end.
Definition is_nil {A} (l : list A) : bool := match l with [] => true | _ => false end.

Definition get_with_prefix (now : N) (ix : index) (prefix neq : bytes) : res (bytes * hit) :=
  match find (fun kv => le_b prefix (fst kv) && (is_nil neq || lt_b neq (fst kv))) ix with
  | Some (k, v :: r) =>
      if has_prefix k prefix then
        match live_filter now (v, nlen (v :: r)) with
        | Ok x => Ok (k, x)
        | Err e => Err e
        | Panic => Panic
        end
      else Err ENotFound
  | _ => Err ENotFound
  end.

(* key reader (scan) *)
Record rspec := {
  r_seek : bytes; r_end : bytes; r_prefix : bytes;
  r_incl_seek : bool; r_incl_end : bool; r_desc : bool;
  r_ign_deleted : bool; r_ign_expired : bool;
  r_offset : N
}.

(* lower / upper bound tests; an empty bound is no bound *)
Definition above (bound : bytes) (incl : bool) (k : bytes) : bool :=
  is_nil bound || (if incl then le_b bound k else lt_b bound k).
Definition below (bound : bytes) (incl : bool) (k : bytes) : bool :=
  is_nil bound || (if incl then le_b k bound else lt_b k bound).
Definition in_range (r : rspec) (k : bytes) : bool :=
  has_prefix k (r_prefix r) &&
  (if r_desc r
   then below (r_seek r) (r_incl_seek r) k && above (r_end r) (r_incl_end r) k
   else above (r_seek r) (r_incl_seek r) k && below (r_end r) (r_incl_end r) k).

Definition pass_filters (r : rspec) (now : N) (x : hit) : bool :=
  negb (r_ign_deleted r && kv_deleted (v_md (fst x))) &&
  negb (r_ign_expired r && expired now (v_md (fst x))).

(* Read until exhaustion: keys in range in (reverse) key order, each with its latest version;
   versions rejected by the filters are left out; then `offset` results are skipped *)
Definition scan (now : N) (ix : index) (r : rspec) : list (bytes * hit) :=
  let ordered := if r_desc r then rev ix else ix in
  let hits := flat_map (fun kv =>
                match snd kv with
                | v :: rest =>
                    if in_range r (fst kv) && pass_filters r now (v, nlen (v :: rest))
                    then [(fst kv, (v, nlen (v :: rest)))] else []
                | [] => []
                end) ordered in
  skipn (N.to_nat (r_offset r)) hits.

(* ReadBetween until exhaustion: same, with the latest version inside [lo, hi] per key; keys
   without such a version are left out *)
Definition scan_between (now : N) (ix : index) (r : rspec) (lo hi : N) : list (bytes * hit) :=
  let ordered := if r_desc r then rev ix else ix in
  let hits := flat_map (fun kv =>
                if in_range r (fst kv) then
                  match (if hi <? lo then Err EIllegalArguments else between (snd kv) lo hi) with
                  | Ok x => if pass_filters r now x then [(fst kv, x)] else []
                  | _ => []
                  end
                else []) ordered in
  skipn (N.to_nat (r_offset r)) hits.
