(* C04 — the serialised indexed value parses back to what was serialised *)
From V Require Import Store.Codec Store.CodecTotal Store.CodecRoundtrip Idx.Spec Idx.Indexer.
From Coq Require Import ZifyN ZifyNat ZifyBool.

(* what the store guarantees of committed records *)
Definition entry_ok (e : entry) : bool :=
  (len (e_hval e) =? 32) && bytes_ok (e_hval e) && (e_voff e <? 2^64) && (len (e_val e) <? 2^32) &&
  kvmd_valid (e_md e).
Definition tx_ok (t : tx) : bool := txmd_valid (t_md t) && forallb entry_ok (t_entries t).
Definition history_ok (h : history) : bool := forallb tx_ok h.
Definition ver_ok (v : ver) : bool := entry_ok (v_e v) && kvmd_valid (v_md v) && txmd_valid (v_txmd v).

Lemma txmd_bytes_nil m : len (txmd_bytes m) = 0 -> m = txmd_empty.
Proof.
  destruct m as [[t|] [e|]]; unfold txmd_bytes; cbn [md_trunc md_extra]; rewrite ?len_app, ?len_cons; intros H; try lia.
  reflexivity.
Qed.
Lemma kvmd_bytes_nil m : len (kvmd_bytes m) = 0 -> m = kvmd_empty.
Proof.
  destruct m as [[|] [t|] [|]]; unfold kvmd_bytes; cbn [kv_deleted kv_expires kv_nonindexable];
    rewrite ?len_app, ?len_cons, ?len_nil; intros H; try lia.
  reflexivity.
Qed.

Lemma value_ref_roundtrip_gen tx hc vlen voff hval tmd kmd :
  vlen < 2^32 -> voff < 2^64 -> len hval = 32 ->
  txmd_valid tmd = true -> kvmd_valid kmd = true ->
  value_ref_from tx hc (ser_ival vlen voff hval (txmd_bytes tmd) (kvmd_bytes kmd)) =
  Ok {| r_tx := tx; r_hc := hc; r_vlen := vlen; r_voff := voff; r_hval := hval; r_txmd := tmd; r_kvmd := kmd |}.
Proof.
  intros Hvl Hvo Hh Ht Hk.
  assert (Htl := txmd_len tmd Ht). assert (Hkl := kvmd_len kmd).
  rewrite pow32, pow64 in *.
  unfold value_ref_from, ser_ival, valr_len. consts. unfold st_offsetSize.
  rewrite ltb_false by (lens; lia).
  rd_uint. rd_uint.
  rewrite from_ok by (lens; lia). cbn [bind]. peel.
  rewrite <- app_assoc. rewrite take_app_eq by lia.
  rewrite leb_false by (lens; lia).
  rewrite ltb_false by (lens; lia).
  rd_uint.
  rewrite (ltb_false 268) by lia. rewrite ltb_false by (lens; lia). cbn [orb].
  destruct (N.ltb_spec 0 (len (txmd_bytes tmd))) as [Hp|Hz].
  - rewrite sub_ok by (lens; lia). peel. rewrite take_app_eq by lia. cbn [bind].
    rewrite txmd_roundtrip by exact Ht. cbn [bind].
    rd_uint.
    rewrite (ltb_false 11) by lia. rewrite ltb_false by (lens; lia). cbn [orb].
    destruct (N.ltb_spec 0 (len (kvmd_bytes kmd))) as [Hp2|Hz2].
    + rewrite sub_ok by (lens; lia). peel. rewrite take_eq by lia. cbn [bind].
      rewrite kvmd_roundtrip by exact Hk. cbn [bind].
      rewrite ltb_false by (lens; lia). reflexivity.
    + assert (Hz2' : len (kvmd_bytes kmd) = 0) by lia. cbn [bind].
      rewrite ltb_false by (lens; lia). rewrite (kvmd_bytes_nil _ Hz2'). reflexivity.
  - assert (Hz' : len (txmd_bytes tmd) = 0) by lia. cbn [bind].
    rd_uint.
    rewrite (ltb_false 11) by lia. rewrite ltb_false by (lens; lia). cbn [orb].
    rewrite (txmd_bytes_nil _ Hz').
    destruct (N.ltb_spec 0 (len (kvmd_bytes kmd))) as [Hp2|Hz2].
    + rewrite sub_ok by (lens; lia). peel. rewrite take_eq by lia. cbn [bind].
      rewrite kvmd_roundtrip by exact Hk. cbn [bind].
      rewrite ltb_false by (lens; lia). reflexivity.
    + assert (Hz2' : len (kvmd_bytes kmd) = 0) by lia. cbn [bind].
      rewrite ltb_false by (lens; lia). rewrite (kvmd_bytes_nil _ Hz2'). reflexivity.
Qed.

Lemma value_ref_roundtrip v hc : ver_ok v = true ->
  value_ref_from (v_tx v) hc (ser_ver v) = Ok (vref_of (v, hc)).
Proof.
  unfold ver_ok, entry_ok. intros H. props.
  unfold ser_ver, vref_of. cbn [fst snd]. apply value_ref_roundtrip_gen; auto.
Qed.

Example ver_ok_sat : exists v, ver_ok v = true.
Proof.
  exists {| v_tx := 1; v_txmd := txmd_empty; v_md := kvmd_empty;
            v_e := {| e_key := [1]; e_md := kvmd_empty; e_val := [2]; e_voff := 0; e_hval := repeat 0 32 |} |}.
  reflexivity.
Qed.
