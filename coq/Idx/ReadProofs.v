(* C04 — the store's reads on the serialised abstract index return what the specification's reads
   return on the abstract index *)
From V Require Import Store.Codec Store.CodecRoundtrip Idx.Spec Idx.Indexer Idx.MapProofs Idx.SpecProofs Idx.SerProofs.
From Coq Require Import ZifyN ZifyNat ZifyBool.

Definition index_ok (ix : index) : bool := forallb (fun kv => forallb ver_ok (snd kv)) ix.
Definition svf (v : ver) : tval := (v_tx v, ser_ver v).
Definition kref_of (x : bytes * hit) : bytes * vref := (fst x, vref_of (snd x)).

Lemma ser_index_find ix k : mv_find (ser_index ix) k = option_map (map svf) (ix_find ix k).
Proof.
  induction ix as [|[k0 vs] ix IH]; simpl; auto. destruct (bytes_eqb k0 k); auto.
Qed.

Lemma index_ok_find ix k vs : index_ok ix = true -> ix_find ix k = Some vs -> forallb ver_ok vs = true.
Proof.
  induction ix as [|[k0 vs0] ix IH]; simpl; [discriminate|]. intros H E.
  apply andb_prop in H as [H1 H2]. destruct (bytes_eqb k0 k); auto. injection E as <-; exact H1.
Qed.

Lemma nlen_map {A B} (f : A -> B) l : nlen (map f l) = nlen l.
Proof. unfold nlen; rewrite map_length; reflexivity. Qed.

Lemma filter_ref_live now x : filter_ref now (vref_of x) = rmap vref_of (live_filter now x).
Proof.
  unfold filter_ref, live_filter, vref_of. cbn [r_kvmd].
  destruct (expired now (v_md (fst x))); auto. destruct (kv_deleted (v_md (fst x))); auto.
Qed.

Lemma find_ser_index (f : bytes -> bool) ix :
  find (fun kv : bytes * list tval => f (fst kv)) (ser_index ix) =
  option_map (fun kv => (fst kv, map svf (snd kv))) (find (fun kv : bytes * list ver => f (fst kv)) ix).
Proof.
  induction ix as [|[k0 vs] ix' IH]; [reflexivity|].
  cbn [ser_index map find fst snd]. destruct (f k0); [reflexivity|]. exact IH.
Qed.

Section Reads.
Variable ix : index.
Variable tb : tbt.
Hypothesis Hmap : tb_map tb = ser_index ix.
Hypothesis Hok : index_ok ix = true.

Theorem store_get_spec now k : store_get now tb k = rmap vref_of (get now ix k).
Proof.
  unfold store_get, mv_get, get. rewrite Hmap, ser_index_find.
  destruct (ix_find ix k) as [[|v r]|] eqn:E; cbn [option_map map bind rmap]; auto.
  assert (Hv := index_ok_find _ _ _ Hok E). cbn [forallb] in Hv. apply andb_prop in Hv as [Hv _].
  unfold svf at 1. cbn [bind].
  change ((v_tx v, ser_ver v) :: map svf r) with (map svf (v :: r)). rewrite nlen_map.
  rewrite value_ref_roundtrip by exact Hv. cbn [bind]. apply filter_ref_live.
Qed.

Lemma mv_between_spec vs lo hi : forallb ver_ok vs = true ->
  (do x <- mv_between (map svf vs) lo hi; let '(v, ts, hc) := x in value_ref_from ts hc v) =
  rmap vref_of (between vs lo hi).
Proof.
  induction vs as [|v r IH]; intros Hv; [reflexivity|].
  cbn [forallb] in Hv. apply andb_prop in Hv as [Hv1 Hv2].
  cbn [map mv_between between svf]. unfold svf at 1.
  destruct (v_tx v <? lo); [reflexivity|].
  destruct ((hi =? 0) || (v_tx v <=? hi)).
  - cbn [bind rmap]. change ((v_tx v, ser_ver v) :: map svf r) with (map svf (v :: r)). rewrite nlen_map.
    apply value_ref_roundtrip; exact Hv1.
  - apply IH; exact Hv2.
Qed.

Theorem store_get_between_spec k lo hi : store_get_between tb k lo hi = rmap vref_of (get_between ix k lo hi).
Proof.
  unfold store_get_between, mv_get_between, get_between. rewrite Hmap, ser_index_find.
  destruct (ix_find ix k) as [vs|] eqn:E; cbn [option_map]; [|reflexivity].
  destruct (hi <? lo); [reflexivity|]. apply mv_between_spec. eapply index_ok_find; eauto.
Qed.

Lemma refs_up_spec vs n : forallb ver_ok vs = true ->
  refs_up (map svf vs) n = Ok (map vref_of (number_up vs n)).
Proof.
  revert n; induction vs as [|v r IH]; intros n Hv; [reflexivity|].
  cbn [forallb] in Hv. apply andb_prop in Hv as [Hv1 Hv2].
  cbn [map refs_up number_up]. unfold svf at 1.
  rewrite value_ref_roundtrip by exact Hv1. cbn [bind]. rewrite IH by exact Hv2. reflexivity.
Qed.
Lemma refs_down_spec vs n : forallb ver_ok vs = true ->
  refs_down (map svf vs) n = Ok (map vref_of (number_down vs n)).
Proof.
  revert n; induction vs as [|v r IH]; intros n Hv; [reflexivity|].
  cbn [forallb] in Hv. apply andb_prop in Hv as [Hv1 Hv2].
  cbn [map refs_down number_down]. unfold svf at 1.
  rewrite value_ref_roundtrip by exact Hv1. cbn [bind]. rewrite IH by exact Hv2. reflexivity.
Qed.

Lemma forallb_firstn {A} (f : A -> bool) n l : forallb f l = true -> forallb f (firstn n l) = true.
Proof.
  revert n; induction l as [|x l IH]; intros [|n] H; simpl in *; auto.
  apply andb_prop in H as [H1 H2]. rewrite H1; simpl; auto.
Qed.
Lemma forallb_skipn {A} (f : A -> bool) n l : forallb f l = true -> forallb f (skipn n l) = true.
Proof.
  revert n; induction l as [|x l IH]; intros [|n] H; simpl in *; auto.
  apply andb_prop in H as [H1 H2]. auto.
Qed.
Lemma forallb_rev {A} (f : A -> bool) l : forallb f l = true -> forallb f (rev l) = true.
Proof.
  intros H. apply forallb_forall. intros x Hx. apply in_rev in Hx.
  rewrite forallb_forall in H. auto.
Qed.

Theorem store_history_spec k off desc lim :
  store_history tb k off desc lim =
  rmap (fun x => (map vref_of (fst x), snd x)) (history_of ix k off desc lim).
Proof.
  unfold store_history, mv_history, history_of. rewrite Hmap, ser_index_find.
  destruct (lim <? 1); [reflexivity|].
  destruct (ix_find ix k) as [vs|] eqn:E; cbn [option_map]; [|reflexivity].
  assert (Hv := index_ok_find _ _ _ Hok E).
  rewrite nlen_map. destruct (off =? nlen vs); [reflexivity|]. destruct (nlen vs <? off); [reflexivity|].
  destruct desc; cbn [bind rmap fst snd].
  - rewrite skipn_map, firstn_map, refs_down_spec; [reflexivity|].
    apply forallb_firstn, forallb_skipn; exact Hv.
  - rewrite <- map_rev, skipn_map, firstn_map, refs_up_spec; [reflexivity|].
    apply forallb_firstn, forallb_skipn, forallb_rev; exact Hv.
Qed.

Theorem store_get_with_prefix_spec now prefix neq :
  store_get_with_prefix now tb prefix neq = rmap kref_of (get_with_prefix now ix prefix neq).
Proof.
  unfold store_get_with_prefix, mv_get_with_prefix, get_with_prefix. rewrite Hmap.
  rewrite (find_ser_index (fun k => le_b prefix k && (is_nil neq || lt_b neq k))).
  destruct (find _ ix) as [[k [|v r]]|] eqn:E; cbn [option_map fst snd map bind rmap]; auto.
  assert (Hv : ver_ok v = true).
  { apply find_some in E as [Hin _]. unfold index_ok in Hok. rewrite forallb_forall in Hok.
    specialize (Hok _ Hin). cbn in Hok. apply andb_prop in Hok as [Hok1 _]. exact Hok1. }
  unfold svf at 1. destruct (has_prefix k prefix); [|reflexivity]. cbn [bind].
  change ((v_tx v, ser_ver v) :: map svf r) with (map svf (v :: r)). rewrite nlen_map.
  rewrite value_ref_roundtrip by exact Hv. cbn [bind]. rewrite filter_ref_live.
  destruct (live_filter now (v, nlen (v :: r))); reflexivity.
Qed.

End Reads.

(* ---------- scans ---------- *)
Lemma pass_ref_spec r now x : pass_ref r now (vref_of x) = pass_filters r now x.
Proof. reflexivity. Qed.

Definition scan_hits (now : N) (r : rspec) (ix : index) : list (bytes * hit) :=
  flat_map (fun kv =>
              match snd kv with
              | v :: rest =>
                  if in_range r (fst kv) && pass_filters r now (v, nlen (v :: rest))
                  then [(fst kv, (v, nlen (v :: rest)))] else []
              | [] => []
              end) ix.

Lemma scan_keys_spec now r ix : index_ok ix = true ->
  scan_keys now r (ser_index ix) = Ok (map kref_of (scan_hits now r ix)).
Proof.
  induction ix as [|[k vs] ix IH]; intros Hok; [reflexivity|].
  cbn [index_ok forallb snd] in Hok. apply andb_prop in Hok as [Hv Hok].
  cbn [ser_index map scan_keys scan_hits flat_map fst snd].
  destruct vs as [|v rest].
  - cbn [map bind app]. fold (ser_index ix). rewrite IH by exact Hok. reflexivity.
  - cbn [forallb] in Hv. apply andb_prop in Hv as [Hv1 _].
    cbn [map]. destruct (in_range r k); cbn [andb].
    + change ((v_tx v, ser_ver v) :: map (fun v0 => (v_tx v0, ser_ver v0)) rest) with (map svf (v :: rest)).
      rewrite nlen_map. rewrite value_ref_roundtrip by exact Hv1. cbn [bind].
      rewrite pass_ref_spec. fold (ser_index ix). rewrite IH by exact Hok. cbn [bind].
      destruct (pass_filters r now (v, nlen (v :: rest))); reflexivity.
    + cbn [bind]. fold (ser_index ix). rewrite IH by exact Hok. reflexivity.
Qed.

Lemma ser_index_rev ix : rev (ser_index ix) = ser_index (rev ix).
Proof. unfold ser_index. rewrite map_rev. reflexivity. Qed.

Lemma index_ok_rev ix : index_ok ix = true -> index_ok (rev ix) = true.
Proof. apply forallb_rev. Qed.

Theorem store_scan_spec ix tb now r :
  tb_map tb = ser_index ix -> index_ok ix = true ->
  store_scan now tb r = Ok (map kref_of (scan now ix r)).
Proof.
  intros Hmap Hok. unfold store_scan, scan. rewrite Hmap.
  destruct (r_desc r).
  - rewrite ser_index_rev, scan_keys_spec by (apply index_ok_rev; exact Hok). cbn [bind].
    rewrite skipn_map. reflexivity.
  - rewrite scan_keys_spec by exact Hok. cbn [bind]. rewrite skipn_map. reflexivity.
Qed.
