(* C04 — the property theorems for the repaired indexer, in terms of the committed history only *)
From V Require Import Store.Codec Store.CodecRoundtrip Idx.Spec Idx.Indexer Idx.MapProofs Idx.SpecProofs
  Idx.IndexerProofs Idx.SerProofs Idx.ReadProofs.
From Coq Require Import Sorted.
From Coq Require Import ZifyN ZifyNat ZifyBool.

(* ------------------------------------------------------------------ *)
(* every version of index_of_history of a valid history is a valid version *)
Lemma kvs_seq_in s : forall todo done kvs,
  In kvs (kvs_seq s done todo) ->
  exists d t, kvs = tx_kvs s d t /\ In t todo /\ incl d (done ++ todo).
Proof.
  induction todo as [|t todo IH]; intros done kvs Hin; [destruct Hin|].
  cbn [kvs_seq] in Hin. destruct Hin as [<-|Hin].
  - exists done, t. split; [reflexivity|]. split; [left; reflexivity|]. apply incl_appl, incl_refl.
  - apply IH in Hin as [d [t' [E [Ht Hd]]]]. exists d, t'. split; auto. split; [right; exact Ht|].
    intros x Hx. apply Hd in Hx. rewrite <- app_assoc in Hx. exact Hx.
Qed.

Lemma history_ok_tx h t : history_ok h = true -> In t h -> tx_ok t = true.
Proof. unfold history_ok. rewrite forallb_forall. auto. Qed.
Lemma tx_ok_entry t e : tx_ok t = true -> In e (t_entries t) -> entry_ok e = true /\ txmd_valid (t_md t) = true.
Proof. unfold tx_ok. intros H Hin. apply andb_prop in H as [H1 H2]. rewrite forallb_forall in H2. auto. Qed.
Lemma entry_ok_md e : entry_ok e = true -> kvmd_valid (e_md e) = true.
Proof. unfold entry_ok. intros H. apply andb_prop in H as [_ H]. exact H. Qed.

Lemma entry_kvs_ok s d t e k v :
  (forall x, In x d -> tx_ok x = true) -> tx_ok t = true -> In e (t_entries t) ->
  In (k, v) (entry_kvs s d t e) -> ver_ok v = true.
Proof.
  intros Hd Ht He Hin. destruct (tx_ok_entry _ _ Ht He) as [Heo Hto].
  unfold entry_kvs in Hin. destruct (indexable s e); [|destruct Hin].
  destruct Hin as [Hin|Hin].
  - injection Hin as _ <-. unfold ver_ok. cbn. rewrite Heo, Hto, (entry_ok_md _ Heo). reflexivity.
  - destruct (tomb_active s); [|destruct Hin].
    unfold prev_entry in Hin. destruct (last_tx_with s (skey s e) d) as [pt|] eqn:El; [|destruct Hin].
    destruct (find_entry (e_key e) pt) as [pe|] eqn:Ef; [|destruct Hin].
    destruct (kv_deleted (e_md pe)); [destruct Hin|].
    destruct (bytes_eqb _ _); [destruct Hin|]. destruct Hin as [Hin|[]]. injection Hin as _ <-.
    apply last_tx_with_in in El. apply Hd in El. apply find_some in Ef as [Ef _].
    destruct (tx_ok_entry _ _ El Ef) as [Hpo Hpt].
    assert (Hm := entry_ok_md _ Hpo). unfold ver_ok. cbn [v_e v_md v_txmd]. rewrite Hpo, Hpt.
    unfold kvmd_valid in *. cbn [set_deleted kv_expires]. rewrite Hm. reflexivity.
Qed.

Lemma versions_ok s h k v : history_ok h = true -> In v (versions s h k) -> ver_ok v = true.
Proof.
  intros Hh Hin. rewrite versions_unfold in Hin. apply in_rev in Hin. apply in_flat_map in Hin as [kvs [Hk Hin]].
  unfold pick1 in Hin. destruct (first_with k kvs) as [v'|] eqn:Ef; [|destruct Hin]. destruct Hin as [->|[]].
  apply first_with_in in Ef. unfold hist_kvs in Hk. apply kvs_seq_in in Hk as [d [t [-> [Ht Hd]]]].
  unfold tx_kvs in Ef. apply in_flat_map in Ef as [e [He Ef]].
  eapply entry_kvs_ok; eauto.
  - intros x Hx. apply Hd in Hx. cbn in Hx. eapply history_ok_tx; eauto.
  - eapply history_ok_tx; eauto.
Qed.

Lemma history_ok_firstn h n : history_ok h = true -> history_ok (firstn n h) = true.
Proof. apply forallb_firstn. Qed.

Lemma index_of_history_ok s h : history_ok h = true -> index_ok (index_of_history s h) = true.
Proof.
  intros Hh. unfold index_ok, index_of_history. apply forallb_forall. intros [k vs] Hin.
  apply in_map_iff in Hin as [k' [E _]]. injection E as <- <-. cbn [snd].
  apply forallb_forall. intros v Hv. eapply versions_ok; eauto.
Qed.

(* ------------------------------------------------------------------ *)
(* the theorems                                                         *)
(* revisions produced by the numbering are consecutive *)
Lemma number_up_consecutive vs m :
  map snd (number_up vs m) = map (fun i => m + N.of_nat i) (seq 0 (length vs)).
Proof.
  revert m; induction vs as [|v vs IH]; intros m; [reflexivity|].
  cbn [number_up map length seq snd]. f_equal; [lia|].
  rewrite IH, <- seq_shift, map_map. apply map_ext. intros i. lia.
Qed.
Lemma number_up_versions vs m : map fst (number_up vs m) = vs.
Proof. revert m; induction vs as [|v vs IH]; intros m; [reflexivity|]. cbn. f_equal; apply IH. Qed.


Section Caught_up.
(* an index specification, a committed history, ANY bulk schedule; st is what the repaired indexer
   has built when it stopped; n is how far it got (what WaitForIndexingUpto observes) *)
Variable s : ispec.
Variable lm : limits.
Variable h : history.
Variable ks : list nat.
Variable st : istate.
Hypothesis Hwf : wf_history h = true.
Hypothesis Hhist : history_ok h = true.
Hypothesis Hspec : spec_ok s.
Hypothesis Hrun : run all_fixed s lm h ks istate_init = Ok st.

Let n := N.to_nat (tb_ts (is_tb st)).
Let hn := firstn n h.

Lemma caught_up_map : tb_map (is_tb st) = ser_index (index_of_history s hn).
Proof. destruct (index_equals_history_fixed _ _ _ _ _ Hwf Hspec Hrun) as [_ E]. exact E. Qed.
Lemma caught_up_ok : index_ok (index_of_history s hn) = true.
Proof. apply index_of_history_ok. apply history_ok_firstn. exact Hhist. Qed.

(* Get returns the latest committed version of the key up to n — value reference, metadata,
   transaction id and revision = number of versions — unless that version has expired or is a
   logical delete; a key without versions is not found *)
Theorem get_is_latest_live_fixed now k :
  store_get now (is_tb st) k =
  match versions s hn k with
  | [] => Err ENotFound
  | v :: r =>
      if expired now (v_md v) then Err EExpired
      else if kv_deleted (v_md v) then Err ENotFound
      else Ok (vref_of (v, nlen (v :: r)))
  end.
Proof.
  rewrite (store_get_spec _ _ caught_up_map caught_up_ok). unfold get. rewrite ix_find_index.
  destruct (versions s hn k) as [|v r]; [reflexivity|]. unfold live_filter. cbn [fst].
  destruct (expired now (v_md v)); [reflexivity|]. destruct (kv_deleted (v_md v)); reflexivity.
Qed.

(* History(key, offset, desc, limit) is the specification's listing of the key's versions *)
Theorem history_is_spec_fixed k off desc lim :
  store_history (is_tb st) k off desc lim =
  rmap (fun x => (map vref_of (fst x), snd x)) (history_of (index_of_history s hn) k off desc lim).
Proof. apply store_history_spec; [exact caught_up_map|exact caught_up_ok]. Qed.

Lemma firstn_all_ge {A} (l : list A) m : (length l <= m)%nat -> firstn m l = l.
Proof. intros H. apply firstn_all2; exact H. Qed.

(* the complete history of a key, oldest first: every committed version, in commit order,
   with revisions 1, 2, 3, ...; newest first: the same versions with revisions count, count-1, ... *)
Theorem history_is_all_versions_in_order_fixed k lim :
  versions s hn k <> [] -> nlen (versions s hn k) <= lim ->
  store_history (is_tb st) k 0 false lim =
    Ok (map vref_of (number_up (rev (versions s hn k)) 1), nlen (versions s hn k)) /\
  store_history (is_tb st) k 0 true lim =
    Ok (map vref_of (number_down (versions s hn k) (nlen (versions s hn k))), nlen (versions s hn k)).
Proof.
  intros Hne Hlim. rewrite !history_is_spec_fixed. unfold history_of. rewrite ix_find_index.
  destruct (versions s hn k) as [|v r] eqn:E; [contradiction|]. rewrite <- E in *.
  assert (Hl : (length (versions s hn k) <= N.to_nat lim)%nat) by (unfold nlen in Hlim; lia).
  assert (Hpos : 0 < nlen (versions s hn k)) by (rewrite E; unfold nlen; cbn; lia).
  destruct (lim <? 1) eqn:E1; [lia|].
  destruct (0 =? nlen (versions s hn k)) eqn:E2; [lia|].
  destruct (nlen (versions s hn k) <? 0) eqn:E3; [lia|].
  cbn [N.to_nat skipn rmap fst snd]. split.
  - rewrite firstn_all_ge by (rewrite rev_length; exact Hl). reflexivity.
  - rewrite firstn_all_ge by exact Hl. rewrite N.sub_0_r. reflexivity.
Qed.

(* a scan over a prefix with the liveness filters: the keys carrying the prefix whose latest version
   is neither a logical delete nor expired, each with that version, in key order *)
Definition live_scan (p : bytes) : rspec :=
  {| r_seek := []; r_end := []; r_prefix := p; r_incl_seek := false; r_incl_end := false; r_desc := false;
     r_ign_deleted := true; r_ign_expired := true; r_offset := 0 |}.

Lemma flat_map_map {A B C} (f : B -> list C) (g : A -> B) l : flat_map f (map g l) = flat_map (fun x => f (g x)) l.
Proof. induction l as [|x l IH]; simpl; auto. rewrite IH; reflexivity. Qed.

Theorem scan_is_sorted_live_keys_fixed now p :
  store_scan now (is_tb st) (live_scan p) =
  Ok (flat_map (fun k =>
        match versions s hn k with
        | v :: r =>
            if has_prefix k p && negb (kv_deleted (v_md v)) && negb (expired now (v_md v))
            then [(k, vref_of (v, nlen (v :: r)))] else []
        | [] => []
        end) (keys s hn)) /\
  StronglySorted (fun a b => bcmp a b = Lt) (keys s hn).
Proof.
  split; [|apply keys_sorted].
  rewrite (store_scan_spec _ _ now (live_scan p) caught_up_map caught_up_ok). f_equal.
  unfold scan. cbn [live_scan r_desc r_offset N.to_nat skipn].
  unfold index_of_history. rewrite flat_map_map. rewrite flat_map_concat_map, concat_map, map_map, <- flat_map_concat_map.
  apply flat_map_ext. intros k. cbn [fst snd].
  destruct (versions s hn k) as [|v r]; [reflexivity|].
  unfold in_range, pass_filters, above, below. cbn [live_scan r_prefix r_desc r_seek r_end r_ign_deleted r_ign_expired is_nil orb andb fst].
  rewrite andb_true_r.
  destruct (has_prefix k p); [|reflexivity]. cbn [andb].
  destruct (kv_deleted (v_md v)); [reflexivity|]. cbn [negb andb].
  destruct (expired now (v_md v)); reflexivity.
Qed.

(* range-bounded lookups, prefix lookups and every key-reader shape (range, direction, filters,
   offset) return what the specification defines on index_of_history *)
Theorem reads_are_spec_fixed now :
  (forall k lo hi, store_get_between (is_tb st) k lo hi = rmap vref_of (get_between (index_of_history s hn) k lo hi)) /\
  (forall p neq, store_get_with_prefix now (is_tb st) p neq = rmap kref_of (get_with_prefix now (index_of_history s hn) p neq)) /\
  (forall r, store_scan now (is_tb st) r = Ok (map kref_of (scan now (index_of_history s hn) r))).
Proof.
  split; [|split]; intros.
  - apply store_get_between_spec; [exact caught_up_map|exact caught_up_ok].
  - apply store_get_with_prefix_spec; [exact caught_up_map|exact caught_up_ok].
  - apply store_scan_spec; [exact caught_up_map|exact caught_up_ok].
Qed.

End Caught_up.

(* the premises of the theorems above are satisfiable: an injective SQL-like secondary index, three
   transactions, bulks of 1 and 2 *)
Example theorems_premises_sat_here :
  let mk k v := {| e_key := k; e_md := kvmd_empty; e_val := v; e_voff := 0; e_hval := repeat 0 32 |} in
  let tx id es := {| t_id := id; t_ts := 0; t_md := txmd_empty; t_entries := es |} in
  let s := {| sp := [82]; smap := Some (fun k _ => 80 :: drop 1 k);
              tmap := Some (fun k v => 83 :: (match v with x :: _ => x | [] => 0 end) :: drop 1 k);
              tp := [83]; inj := true; src := SrcOther |} in
  let h := [tx 1 [mk [82; 48] [122]]; tx 2 [mk [82; 49] [97]]; tx 3 [mk [82; 49] [98]]] in
  exists st, wf_history h = true /\ history_ok h = true /\ spec_ok s /\
             run all_fixed s {| maxk := 1024; maxtx := 1024 |} h [1%nat; 2%nat] istate_init = Ok st /\
             N.to_nat (tb_ts (is_tb st)) = length h /\ versions s h [83; 98; 49] <> [].
Proof.
  cbv zeta. eexists. split; [reflexivity|]. split; [reflexivity|]. split; [intros H; discriminate|].
  split; [vm_compute; reflexivity|]. split; [reflexivity|]. vm_compute. discriminate.
Qed.
