(* C04 — the repaired indexer (all_fixed) builds exactly index_of_history, whatever the bulk
   schedule; the code as it stands (cur_code) does so for bulks of one transaction and indexes
   without tombstones *)
From V Require Import Idx.Spec Idx.Indexer Idx.MapProofs Idx.SpecProofs.
From Coq Require Import Sorted.
From Coq Require Import ZifyN ZifyNat ZifyBool.

Definition mk_kvt (ts : N) (kv : bytes * ver) : kvt := {| K := fst kv; V := ser_ver (snd kv); T := ts |}.
Definition kvt_of (hd : holder) (p : pend) : kvt := {| K := resolve hd (p_key p); V := p_val p; T := p_t p |}.

(* an index that is its own source index has no target mapper (its source keys ARE its target keys) *)
Definition spec_ok (s : ispec) : Prop := src s = SrcSelf -> tmap s = None.

(* ------------------------------------------------------------------ *)
(* helper facts                                                         *)
Lemma last_tx_with_in_gen s k done acc pt :
  fold_left (fun acc t => if has_skey s k t then Some t else acc) done acc = Some pt ->
  In pt done \/ acc = Some pt.
Proof.
  revert acc; induction done as [|t done IH]; intros acc H; simpl in *; auto.
  apply IH in H as [H|H]; auto. destruct (has_skey s k t); auto. injection H as ->; auto.
Qed.
Lemma last_tx_with_in s k done pt : last_tx_with s k done = Some pt -> In pt done.
Proof. intros H. apply last_tx_with_in_gen in H as [H|H]; [exact H|discriminate]. Qed.

Lemma nth_error_firstn_some {A} (l : list A) n i x : nth_error (firstn n l) i = Some x -> nth_error l i = Some x.
Proof.
  revert n i; induction l as [|y l IH]; intros [|n] [|i] H; simpl in *; try discriminate; auto.
  eapply IH; eauto.
Qed.

Lemma wf_in_firstn h n pt : wf_history h = true -> In pt (firstn n h) -> nth_tx h (t_id pt) = Some pt.
Proof.
  intros Hwf Hin. apply In_nth_error in Hin as [i Hi]. apply nth_error_firstn_some in Hi.
  rewrite (wf_nth _ _ _ Hwf Hi). apply nth_tx_of_nth; exact Hi.
Qed.

Lemma nth_tx_id h id t : wf_history h = true -> nth_tx h id = Some t -> t_id t = id.
Proof. intros Hwf H. apply nth_tx_some in H as [Hz H]. rewrite (wf_nth _ _ _ Hwf H). lia. Qed.

(* ------------------------------------------------------------------ *)
(* one entry: the repaired code accumulates what the specification says the entry contributes *)
Lemma index_entry_fixed s h tb txID i t slot e ps :
  wf_history h = true -> spec_ok s ->
  nth_tx h (txID + i) = Some t ->
  index_entry all_fixed s h tb txID i t slot e = Ok ps ->
  forall hd, map (kvt_of hd) ps =
             map (mk_kvt (txID + i)) (entry_kvs s (firstn (N.to_nat (txID + i - 1)) h) t e).
Proof.
  intros Hwf Hok Ht H hd.
  assert (Hid : t_id t = txID + i) by (eapply nth_tx_id; eauto).
  unfold index_entry in H. unfold entry_kvs, indexable.
  destruct (kv_nonindexable (e_md e)); [injection H as <-; reflexivity|].
  destruct (has_prefix (e_key e) (sp s)); cbn [negb andb] in *; [|injection H as <-; reflexivity].
  cbv zeta in H. fold (skey s e) in H. fold (tkey s e) in H.
  destruct (has_prefix (tkey s e) (tp s)); cbn [negb] in H; [|discriminate].
  cbn [fx_copy_key fx_own_txid fx_tomb_deleted fx_skip_dead_prev all_fixed andb] in H.
  set (p1 := {| p_key := _; p_val := _; p_t := txID + i |}) in H.
  assert (Hp1 : kvt_of hd p1 =
                mk_kvt (txID + i) (tkey s e, {| v_tx := t_id t; v_txmd := t_md t; v_md := e_md e; v_e := e |})).
  { unfold p1, kvt_of, mk_kvt, ser_ver; cbn. destruct (smap s), (tmap s); reflexivity. }
  clearbody p1.
  unfold tomb_active.
  destruct (inj s); cbn [andb] in *.
  2:{ injection H as <-. cbn. rewrite Hp1. reflexivity. }
  destruct (1 <? txID + i) eqn:Easof.
  2:{ injection H as <-. cbn [map]. rewrite Hp1.
      replace (N.to_nat (txID + i - 1)) with 0%nat by lia. cbn [firstn].
      unfold prev_entry, last_tx_with; cbn. destruct (src s); reflexivity. }
  destruct (src s) eqn:Esrc.
  - (* no source index *) injection H as <-. cbn. rewrite Hp1. reflexivity.
  - (* the index itself: no target mapper, the previous target key is the current one *)
    specialize (Hok Esrc).
    assert (Htk : forall v, mapk (tmap s) (skey s e) v = tkey s e).
    { intros v. unfold tkey. rewrite Hok. reflexivity. }
    assert (Hres : ps = [p1]).
    { destruct (lookup_prev s h tb (skey s e) (txID + i - 1)) as [[ptid|]| |]; cbn [bind] in H; try discriminate.
      - destruct (nth_tx h ptid) as [pt|]; [|discriminate].
        destruct (find_entry (e_key e) pt) as [pe|]; [|discriminate].
        destruct (kv_deleted (e_md pe)); [injection H as <-; reflexivity|].
        rewrite Htk, bytes_eqb_refl in H. injection H as <-; reflexivity.
      - injection H as <-; reflexivity. }
    subst ps. cbn [map]. rewrite Hp1. f_equal.
    destruct (prev_entry s _ e) as [[pt pe]|]; [|reflexivity].
    destruct (kv_deleted (e_md pe)); [reflexivity|].
    rewrite Htk, bytes_eqb_refl. reflexivity.
  - (* another index *)
    unfold lookup_prev in H. rewrite Esrc in H. unfold prev_entry.
    destruct (last_tx_with s (skey s e) (firstn (N.to_nat (txID + i - 1)) h)) as [pt|] eqn:El; cbn [bind] in H.
    2:{ injection H as <-. cbn. rewrite Hp1. reflexivity. }
    apply last_tx_with_in in El. rewrite (wf_in_firstn _ _ _ Hwf El) in H.
    destruct (find_entry (e_key e) pt) as [pe|]; [|discriminate].
    destruct (kv_deleted (e_md pe)); [injection H as <-; cbn; rewrite Hp1; reflexivity|].
    rewrite (bytes_eqb_sym (tkey s e)) in H.
    destruct (bytes_eqb (mapk (tmap s) (skey s e) (e_val pe)) (tkey s e)).
    + injection H as <-. cbn. rewrite Hp1. reflexivity.
    + destruct (has_prefix (mapk (tmap s) (skey s e) (e_val pe)) (tp s)); cbn [negb] in H; [|discriminate].
      injection H as <-. cbn [map]. rewrite Hp1. rewrite Hid. reflexivity.
Qed.

Lemma index_entries_fixed s h tb txID i t es : forall slot ps,
  wf_history h = true -> spec_ok s ->
  nth_tx h (txID + i) = Some t ->
  index_entries all_fixed s h tb txID i t slot es = Ok ps ->
  forall hd, map (kvt_of hd) ps =
             map (mk_kvt (txID + i)) (flat_map (entry_kvs s (firstn (N.to_nat (txID + i - 1)) h) t) es).
Proof.
  induction es as [|e es IH]; intros slot ps Hwf Hok Ht H hd; simpl in *.
  - injection H as <-; reflexivity.
  - destruct (index_entry all_fixed s h tb txID i t slot e) as [a| |] eqn:Ea; cbn [bind] in H; try discriminate.
    destruct (index_entries all_fixed s h tb txID i t (S slot) es) as [b| |] eqn:Eb; cbn [bind] in H; try discriminate.
    injection H as <-. rewrite !map_app.
    rewrite (index_entry_fixed _ _ _ _ _ _ _ _ _ Hwf Hok Ht Ea hd).
    rewrite (IH _ _ Hwf Hok Ht Eb hd). reflexivity.
Qed.

(* what the transactions id, id+1, ..., id+n-1 contribute according to the specification *)
Fixpoint bulk_kvts (s : ispec) (h : history) (id : N) (n : nat) : list kvt :=
  match n with
  | O => []
  | S n' =>
      match nth_tx h id with
      | Some t => map (mk_kvt id) (tx_kvs s (firstn (N.to_nat (id - 1)) h) t)
      | None => []
      end ++ bulk_kvts s h (id + 1) n'
  end.

Lemma index_txs_fixed s h tb txID cap : forall n i hd acc hd' ps,
  wf_history h = true -> spec_ok s ->
  index_txs all_fixed s h tb txID cap n i hd acc = Ok (hd', ps) ->
  (forall hd0, map (kvt_of hd0) ps = map (kvt_of hd0) acc ++ bulk_kvts s h (txID + i) n) /\
  (forall j, (j < n)%nat -> nth_tx h (txID + i + N.of_nat j) <> None).
Proof.
  induction n as [|n IH]; intros i hd acc hd' ps Hwf Hok H; simpl in *.
  - injection H as <- <-. split; [intros; rewrite app_nil_r; reflexivity|intros j Hj; lia].
  - destruct (nth_tx h (txID + i)) as [t|] eqn:Et; [|discriminate].
    destruct (index_entries all_fixed s h tb txID i t 0 (t_entries t)) as [pe| |] eqn:Ee; cbn [bind] in H; try discriminate.
    destruct (cap <? length (acc ++ pe))%nat; [discriminate|].
    apply IH in H as [H1 H2]; auto. split.
    + intros hd0. rewrite H1, map_app, <- app_assoc. f_equal.
      rewrite (index_entries_fixed _ _ _ _ _ _ _ _ _ Hwf Hok Et Ee hd0).
      replace (txID + (i + 1)) with (txID + i + 1) by lia. reflexivity.
    + intros [|j] Hj.
      * replace (txID + i + N.of_nat 0) with (txID + i) by lia. rewrite Et; discriminate.
      * replace (txID + i + N.of_nat (S j)) with (txID + (i + 1) + N.of_nat j) by lia. apply H2; lia.
Qed.

(* ------------------------------------------------------------------ *)
(* BulkInsert of what one transaction contributes                        *)
Definition sv (v : ver) : tval := (v_tx v, ser_ver v).
Definition at_ts (ts : N) (k : bytes) (kvs : list (bytes * ver)) : list tval :=
  match first_with k kvs with Some v => [(ts, ser_ver v)] | None => [] end.

Lemma mv_insert_all_app cur m a b :
  mv_insert_all cur m (a ++ b) = (do m1 <- mv_insert_all cur m a; mv_insert_all cur m1 b).
Proof.
  revert m; induction a as [|x a IH]; intros m; simpl; auto.
  destruct (mv_insert m (K x) _ (V x)); simpl; auto.
Qed.

Lemma insert_tx_gen ts cur m :
  ts <> 0 -> (forall k t v, In (t, v) (vs_of m k) -> t < ts) ->
  forall R P mc m',
    sorted (map fst mc) ->
    (forall k, vs_of mc k = at_ts ts k P ++ vs_of m k) ->
    mv_insert_all cur mc (map (mk_kvt ts) R) = Ok m' ->
    map fst m' = fold_left insf R (map fst mc) /\ sorted (map fst m') /\
    (forall k, vs_of m' k = at_ts ts k (P ++ R) ++ vs_of m k).
Proof.
  intros Hts Hlt. induction R as [|[k1 v1] R IH]; intros P mc m' Hs Hvs H.
  - simpl in H. injection H as <-. rewrite app_nil_r. auto.
  - cbn [map mv_insert_all mk_kvt K V T fst snd] in H.
    replace (ts =? 0) with false in H by (symmetry; apply N.eqb_neq; exact Hts).
    destruct (mv_insert mc k1 ts (ser_ver v1)) as [m1| |] eqn:E1; cbn [bind] in H; try discriminate.
    assert (Hk1 := mv_insert_keys _ _ _ _ _ E1).
    assert (Hs1 := mv_insert_sorted _ _ _ _ _ Hs E1).
    assert (Hf1 := mv_insert_find _ _ _ _ _ Hs E1).
    assert (Hvs1 : forall k, vs_of m1 k = at_ts ts k (P ++ [(k1, v1)]) ++ vs_of m k).
    { intros k. rewrite Hf1. unfold at_ts. rewrite first_with_app. cbn [first_with].
      destruct (bytes_eqb k1 k) eqn:Ek.
      - apply bytes_eqb_eq in Ek; subst k. rewrite Hvs. unfold at_ts.
        destruct (first_with k1 P) as [v|].
        + cbn. rewrite N.ltb_irrefl. reflexivity.
        + cbn [app]. destruct (vs_of m k1) as [|[t0 x] r] eqn:Eo; [reflexivity|].
          cbn [ins_vs]. assert (t0 < ts) by (eapply Hlt; rewrite Eo; left; reflexivity).
          replace (t0 <? ts) with true by (symmetry; apply N.ltb_lt; assumption). reflexivity.
      - rewrite Hvs. unfold at_ts. destruct (first_with k P); reflexivity. }
    specialize (IH (P ++ [(k1, v1)]) m1 m' Hs1 Hvs1 H) as [I1 [I2 I3]].
    split; [|split]; auto.
    + rewrite I1, Hk1. reflexivity.
    + intros k. rewrite I3, <- app_assoc. reflexivity.
Qed.

(* ------------------------------------------------------------------ *)
(* versions carry transaction ids of the prefix they come from           *)
Lemma firstn_step (h : history) n :
  firstn (S n) h = firstn n h \/ exists t, nth_error h n = Some t /\ firstn (S n) h = firstn n h ++ [t].
Proof.
  destruct (nth_error h n) as [t|] eqn:E.
  - right; exists t; split; auto. apply firstn_snoc; exact E.
  - left. apply nth_error_None in E. rewrite !firstn_all2 by lia. reflexivity.
Qed.

Lemma versions_tx_bound s h k : wf_history h = true ->
  forall n v, In v (versions s (firstn n h) k) -> v_tx v <= N.of_nat n.
Proof.
  intros Hwf. induction n as [|n IH]; intros v Hin.
  - simpl in Hin. destruct Hin.
  - destruct (firstn_step h n) as [E|[t [Et E]]]; rewrite E in Hin.
    + apply IH in Hin. lia.
    + rewrite versions_snoc in Hin. apply in_app_or in Hin as [Hin|Hin].
      * unfold pick1 in Hin. destruct (first_with k _) as [v'|] eqn:Ef; [|destruct Hin].
        destruct Hin as [->|[]]. apply first_with_in in Ef. apply tx_kvs_tx in Ef.
        rewrite Ef, (wf_nth _ _ _ Hwf Et). lia.
      * apply IH in Hin. lia.
Qed.

(* ------------------------------------------------------------------ *)
(* BulkInsert of what n consecutive transactions contribute               *)
Definition content (s : ispec) (h : history) (n : nat) (m : mvmap) : Prop :=
  map fst m = keys s (firstn n h) /\ (forall k, vs_of m k = map sv (versions s (firstn n h) k)).

Lemma content_ts_bound s h n m : wf_history h = true -> content s h n m ->
  forall k t v, In (t, v) (vs_of m k) -> t <= N.of_nat n.
Proof.
  intros Hwf [_ Hv] k t v Hin. rewrite Hv in Hin. apply in_map_iff in Hin as [x [Hx Hin]].
  injection Hx as <- _. eapply versions_tx_bound; eauto.
Qed.

Lemma content_sorted s h n m : content s h n m -> sorted (map fst m).
Proof. intros [Hk _]. rewrite Hk. apply keys_sorted. Qed.

Lemma insert_bulk s h cur : wf_history h = true -> forall n id m m',
  id <> 0 ->
  content s h (N.to_nat (id - 1)) m ->
  (forall j, (j < n)%nat -> nth_tx h (id + N.of_nat j) <> None) ->
  mv_insert_all cur m (bulk_kvts s h id n) = Ok m' ->
  content s h (N.to_nat (id - 1) + n) m'.
Proof.
  intros Hwf. induction n as [|n IH]; intros id m m' Hid Hc Hex H.
  - simpl in H. injection H as <-. rewrite Nat.add_0_r. exact Hc.
  - cbn [bulk_kvts] in H. destruct (nth_tx h id) as [t|] eqn:Et.
    2:{ exfalso. apply (Hex 0%nat); [lia|]. replace (id + N.of_nat 0) with id by lia. exact Et. }
    rewrite mv_insert_all_app in H.
    destruct (mv_insert_all cur m (map (mk_kvt id) (tx_kvs s (firstn (N.to_nat (id - 1)) h) t))) as [m1| |] eqn:E1;
      cbn [bind] in H; try discriminate.
    assert (Hlt : forall k t0 v, In (t0, v) (vs_of m k) -> t0 < id).
    { intros k t0 v Hin. assert (Hb := content_ts_bound _ _ _ _ Hwf Hc _ _ _ Hin). lia. }
    assert (Hvs0 : forall k, vs_of m k = at_ts id k [] ++ vs_of m k) by reflexivity.
    destruct (insert_tx_gen id cur m Hid Hlt _ [] m m1 (content_sorted _ _ _ _ Hc) Hvs0 E1) as [I1 [I2 I3]].
    apply nth_tx_some in Et as [_ Et].
    assert (Htid : t_id t = id) by (rewrite (wf_nth _ _ _ Hwf Et); lia).
    assert (Hc1 : content s h (N.to_nat (id + 1 - 1)) m1).
    { replace (N.to_nat (id + 1 - 1)) with (S (N.to_nat (id - 1))) by lia.
      unfold content. rewrite (firstn_snoc _ _ _ Et). destruct Hc as [Hk Hv]. split.
      - rewrite I1, Hk, keys_snoc. reflexivity.
      - intros k. rewrite I3, versions_snoc, map_app, Hv. f_equal. cbn [app].
        unfold at_ts, pick1. destruct (first_with k _) as [v|] eqn:Ef; [|reflexivity].
        apply first_with_in in Ef. apply tx_kvs_tx in Ef. cbn [map]. unfold sv. rewrite Ef, Htid. reflexivity. }
    replace (N.to_nat (id - 1) + S n)%nat with (N.to_nat (id + 1 - 1) + n)%nat by lia.
    apply (IH (id + 1) m1 m'); auto; try lia.
    intros j Hj. replace (id + 1 + N.of_nat j) with (id + N.of_nat (S j)) by lia. apply Hex; lia.
Qed.

(* transactions that contribute nothing leave the content as it is *)
Lemma content_skip s h m : forall n a,
  content s h a m ->
  bulk_kvts s h (N.of_nat (S a)) n = [] ->
  content s h (a + n) m.
Proof.
  induction n as [|n IH]; intros a Hc He.
  - rewrite Nat.add_0_r; exact Hc.
  - cbn [bulk_kvts] in He. apply app_eq_nil in He as [He1 He2].
    replace (a + S n)%nat with (S a + n)%nat by lia. apply IH.
    + unfold content. destruct (firstn_step h a) as [E|[t [Et E]]]; rewrite E; [exact Hc|].
      rewrite (nth_tx_of_nth _ _ _ Et) in He1.
      replace (N.to_nat (N.of_nat (S a) - 1)) with a in He1 by lia.
      apply map_eq_nil in He1. destruct Hc as [Hk Hv]. split.
      * rewrite keys_snoc_empty; auto.
      * intros k. rewrite versions_snoc_empty; auto.
    + replace (N.of_nat (S (S a))) with (N.of_nat (S a) + 1) by lia. exact He2.
Qed.

Lemma bulk_kvts_split s h : forall a id b,
  bulk_kvts s h id (a + b) = bulk_kvts s h id a ++ bulk_kvts s h (id + N.of_nat a) b.
Proof.
  induction a as [|a IH]; intros id b.
  - simpl. replace (id + 0) with id by lia. reflexivity.
  - cbn [Nat.add bulk_kvts]. rewrite IH, <- app_assoc.
    replace (id + 1 + N.of_nat a) with (id + N.of_nat (S a)) by lia. reflexivity.
Qed.

Lemma bulk_kvts_T s h : forall n id x, In x (bulk_kvts s h id n) -> id <= T x < id + N.of_nat n.
Proof.
  induction n as [|n IH]; intros id x Hin; [destruct Hin|].
  cbn [bulk_kvts] in Hin. apply in_app_or in Hin as [Hin|Hin].
  - destruct (nth_tx h id); [|destruct Hin]. apply in_map_iff in Hin as [kv [<- _]]. cbn. lia.
  - apply IH in Hin. lia.
Qed.

Lemma bulk_validate_ok maxk maxv cur : forall kvts init newts,
  bulk_validate maxk maxv cur kvts init = Ok newts ->
  (forall x, In x kvts -> T x <> 0) ->
  init <= newts /\ (forall x, In x kvts -> cur < T x <= newts) /\
  (newts = init \/ exists x, In x kvts /\ T x = newts).
Proof.
  induction kvts as [|x r IH]; intros init newts H Hnz; simpl in H.
  - injection H as <-. split; [lia|]. split; [intros x []|left; reflexivity].
  - destruct ((len (K x) =? 0) || (len (V x) =? 0)); [discriminate|].
    destruct (maxk <? len (K x)); [discriminate|]. destruct (maxv <? len (V x)); [discriminate|].
    assert (Hx : T x <> 0) by (apply Hnz; left; reflexivity).
    replace (T x =? 0) with false in H by (symmetry; apply N.eqb_neq; exact Hx).
    destruct (T x <=? cur) eqn:Ec; [discriminate|].
    apply IH in H as [H1 [H2 H3]]; [|intros y Hy; apply Hnz; right; exact Hy].
    split; [lia|]. split.
    + intros y [<-|Hy]; [lia|auto].
    + destruct H3 as [H3|[y [Hy H3]]].
      * destruct (N.max_spec init (T x)) as [[_ Em]|[_ Em]]; rewrite Em in H3.
        -- right; exists x; split; [left; reflexivity|auto].
        -- left; exact H3.
      * right; exists y; split; [right; exact Hy|exact H3].
Qed.

(* ------------------------------------------------------------------ *)
(* indexSince and the indexing loop                                      *)
Definition Inv (s : ispec) (h : history) (tb : tbt) : Prop :=
  (N.to_nat (tb_ts tb) <= length h)%nat /\ content s h (N.to_nat (tb_ts tb)) (tb_map tb).

Lemma Inv_init s h : Inv s h tbt_empty.
Proof. split; [simpl; lia|]. split; [reflexivity|intros k; reflexivity]. Qed.

Lemma index_since_fixed s lim h st mb k st' :
  wf_history h = true -> spec_ok s -> Inv s h (is_tb st) ->
  index_since all_fixed s lim h st mb k = Ok st' ->
  Inv s h (is_tb st') /\ tb_ts (is_tb st) < tb_ts (is_tb st').
Proof.
  intros Hwf Hok [Hn Hc] H. unfold index_since in H.
  destruct (Nat.eqb k 0) eqn:Ek; [discriminate|]. apply Nat.eqb_neq in Ek.
  remember (tb_ts (is_tb st)) as ts eqn:Ets.
  destruct (index_txs all_fixed s h (is_tb st) (ts + 1) (kvs_cap all_fixed lim mb) k 0 (is_hd st) []) as [[hd ps]| |] eqn:Et;
    cbn [bind] in H; try discriminate.
  destruct (index_txs_fixed _ _ _ _ _ _ _ _ _ _ _ Hwf Hok Et) as [Hps Hex].
  replace (ts + 1 + 0) with (ts + 1) in Hps by lia.
  assert (Hlen : (N.to_nat ts + k <= length h)%nat).
  { specialize (Hex (k - 1)%nat ltac:(lia)).
    destruct (nth_tx h (ts + 1 + 0 + N.of_nat (k - 1))) as [t|] eqn:E; [|contradiction].
    apply nth_tx_some in E as [_ E]. assert (Hl : nth_error h (N.to_nat (ts + 1 + 0 + N.of_nat (k - 1) - 1)) <> None) by (rewrite E; discriminate).
    apply nth_error_Some in Hl. lia. }
  assert (Hid : N.of_nat (S (N.to_nat ts)) = ts + 1) by lia.
  destruct ps as [|p ps']; cbn [is_nil] in H.
  - (* nothing to index: IncreaseTs *)
    specialize (Hps []). cbn [map app] in Hps.
    unfold increase_ts in H. rewrite <- Ets in H.
    destruct (ts + 1 + N.of_nat k - 1 <=? ts) eqn:El; [lia|]. cbn [bind] in H. injection H as <-.
    unfold Inv. cbn [is_tb tb_ts tb_map]. split; [|lia]. split.
    + lia.
    + replace (N.to_nat (ts + 1 + N.of_nat k - 1)) with (N.to_nat ts + k)%nat by lia.
      apply content_skip; auto. rewrite Hid. symmetry; exact Hps.
  - (* BulkInsert *)
    remember (p :: ps') as ps eqn:Eps.
    unfold bulk_insert in H.
    set (kvts := map _ ps) in H.
    assert (Hk : kvts = bulk_kvts s h (ts + 1) k).
    { unfold kvts. specialize (Hps hd). cbn [map app] in Hps. exact Hps. }
    assert (Hne : is_nil kvts = false) by (unfold kvts; rewrite Eps; reflexivity).
    rewrite Hne in H. rewrite <- Ets in H.
    destruct (bulk_validate (maxk lim) max_ival ts kvts 0) as [newts| |] eqn:Ev; cbn [bind] in H; try discriminate.
    destruct (mv_insert_all ts (tb_map (is_tb st)) kvts) as [m'| |] eqn:Ei; cbn [bind] in H; try discriminate.
    injection H as <-. unfold Inv. cbn [is_tb tb_ts tb_map].
    assert (HT : forall x, In x kvts -> T x <> 0).
    { intros x Hx. rewrite Hk in Hx. apply bulk_kvts_T in Hx. lia. }
    destruct (bulk_validate_ok _ _ _ _ _ _ Ev HT) as [_ [Hb Hmax]].
    assert (Hnew : ts + 1 <= newts < ts + 1 + N.of_nat k).
    { destruct Hmax as [Hz|[x [Hx Hxe]]].
      - exfalso. destruct kvts as [|x r] eqn:Ekv; [discriminate|].
        specialize (Hb x (or_introl eq_refl)). lia.
      - rewrite Hk in Hx. apply bulk_kvts_T in Hx. lia. }
    set (a := (N.to_nat newts - N.to_nat ts)%nat).
    assert (Hsplit : k = (a + (k - a))%nat) by (unfold a; lia).
    assert (Hrest : bulk_kvts s h (ts + 1 + N.of_nat a) (k - a) = []).
    { destruct (bulk_kvts s h (ts + 1 + N.of_nat a) (k - a)) as [|x r] eqn:Er; auto. exfalso.
      assert (Hx : In x kvts).
      { rewrite Hk, Hsplit, bulk_kvts_split. apply in_or_app; right. rewrite Er; left; reflexivity. }
      assert (Hx2 : In x (bulk_kvts s h (ts + 1 + N.of_nat a) (k - a))) by (rewrite Er; left; reflexivity).
      apply bulk_kvts_T in Hx2. apply Hb in Hx. unfold a in Hx2. lia. }
    rewrite Hk, Hsplit, bulk_kvts_split, Hrest, app_nil_r in Ei.
    split; [|lia]. split; [unfold a in *; lia|].
    replace (N.to_nat newts) with (N.to_nat (ts + 1 - 1) + a)%nat by (unfold a; lia).
    eapply (insert_bulk s h ts Hwf a (ts + 1)); eauto; try lia.
    + replace (N.to_nat (ts + 1 - 1)) with (N.to_nat ts) by lia. exact Hc.
    + intros j Hj. replace (ts + 1 + N.of_nat j) with (ts + 1 + 0 + N.of_nat j) by lia. apply Hex. unfold a in Hj; lia.
Qed.

Lemma run_fixed s lim h : wf_history h = true -> spec_ok s -> forall ks st st',
  Inv s h (is_tb st) -> run all_fixed s lim h ks st = Ok st' -> Inv s h (is_tb st').
Proof.
  intros Hwf Hok. induction ks as [|k ks IH]; intros st st' HI H; simpl in H.
  - injection H as <-; exact HI.
  - destruct (Nat.eqb (length h - N.to_nat (tb_ts (is_tb st))) 0); [injection H as <-; exact HI|].
    destruct (index_since all_fixed s lim h st k _) as [st1| |] eqn:E1; cbn [bind] in H; try discriminate.
    apply (IH st1 st'); auto. eapply index_since_fixed; eauto.
Qed.

(* a table with the keys and the versions of the specification IS the serialised abstract index *)
Lemma content_is_index s h n m : content s h n m -> m = ser_index (index_of_history s (firstn n h)).
Proof.
  intros [Hk Hv]. unfold ser_index, index_of_history. rewrite map_map. cbn [fst snd].
  rewrite <- Hk. apply (tab_eq m (fun k => map sv (versions s (firstn n h) k))).
  - apply sorted_NoDup. rewrite Hk. apply keys_sorted.
  - intros k Hin. destruct (mv_find_some _ _ Hin) as [vs Hf].
    specialize (Hv k). unfold vs_of in Hv. rewrite Hf in Hv. rewrite Hf, Hv. reflexivity.
Qed.

Theorem index_equals_history_fixed s lim h ks st :
  wf_history h = true -> spec_ok s ->
  run all_fixed s lim h ks istate_init = Ok st ->
  (N.to_nat (tb_ts (is_tb st)) <= length h)%nat /\
  tb_map (is_tb st) = ser_index (index_of_history s (firstn (N.to_nat (tb_ts (is_tb st))) h)).
Proof.
  intros Hwf Hok H. destruct (run_fixed s lim h Hwf Hok ks istate_init st (Inv_init s h) H) as [Hn Hc].
  split; auto. apply content_is_index; exact Hc.
Qed.

(* the content does not depend on how the transactions were grouped into bulks *)
Theorem bulk_partition_irrelevant_fixed s lim h ks ks' st st' :
  wf_history h = true -> spec_ok s ->
  run all_fixed s lim h ks istate_init = Ok st ->
  run all_fixed s lim h ks' istate_init = Ok st' ->
  tb_ts (is_tb st) = tb_ts (is_tb st') ->
  tb_map (is_tb st) = tb_map (is_tb st').
Proof.
  intros Hwf Hok H H' E.
  destruct (index_equals_history_fixed _ _ _ _ _ Hwf Hok H) as [_ ->].
  destruct (index_equals_history_fixed _ _ _ _ _ Hwf Hok H') as [_ ->].
  rewrite E. reflexivity.
Qed.
