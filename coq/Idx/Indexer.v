(* C04 — model of embedded/store/indexer.go (indexSince), of the serialised indexed value
   (serializeIndexableEntry / valueRefFrom, key_reader.go) and of the store's read paths
   (immustore.go Get / GetBetween / History / GetWithPrefix, key_reader.go readers and filters)
   on top of embedded/tbtree, which is treated as a correct multi-version ordered map (`tbt`
   below; its B-tree is the subject of C10, not of this file).

   The indexer is written AS THE CODE DOES IT:
     - transactions are read one after the other into ONE reused holder (idx.tx); `e.key()` is a
       slice into the holder's per-slot key buffer, which the next readTx overwrites in place;
     - (key, value, ts) triples are accumulated over up to MaxBulkSize transactions and inserted
       with one BulkInsert; an accumulated key is therefore a REFERENCE (slot, length) that is
       resolved against the holder's content at BulkInsert time, unless a mapper produced a fresh
       slice;
     - the injective-mapping tombstone looks the previous version up as of `txID-1` where txID is
       the FIRST transaction of the bulk, and marks it deleted through KVMetadata.AsDeleted, whose
       ErrReadOnly (metadata read back from the tx log is read-only) is discarded.
   The three places where the proposed repairs (fixes/C04-*.diff) change the code are switch
   points of the record `fixes`; `cur_code` is the code as it stands, `all_fixed` the repaired one. *)
From V Require Export Idx.Spec.

Definition ECorruptedIndex : N := 14.

(* ------------------------------------------------------------------ *)
(* embedded/tbtree as a multi-version ordered map                        *)
Definition tval := (N * bytes)%type.                     (* (ts, value) *)
Definition mvmap := list (bytes * list tval).             (* key order; versions newest first *)
Record tbt := { tb_map : mvmap; tb_ts : N }.
Record kvt := { K : bytes; V : bytes; T : N }.
Definition tbt_empty : tbt := {| tb_map := []; tb_ts := 0 |}.

(* leafNode.updateOnInsert for one KVT: older ts than the key's latest is an error, the same ts
   is ignored, a newer one becomes the latest version *)
Fixpoint mv_insert (m : mvmap) (k : bytes) (t : N) (v : bytes) : res mvmap :=
  match m with
  | [] => Ok [(k, [(t, v)])]
  | (k0, vs) :: r =>
      match bcmp k k0 with
      | Lt => Ok ((k, [(t, v)]) :: m)
      | Eq => match vs with
              | (t0, _) :: _ =>
                  if t <? t0 then Err EIllegalArguments
                  else if t0 <? t then Ok ((k0, (t, v) :: vs) :: r)
                  else Ok m
              | [] => Ok ((k0, [(t, v)]) :: r)
              end
      | Gt => do r' <- mv_insert r k t v; Ok ((k0, vs) :: r')
      end
  end.

(* bulkInsert's validation loop; returns the greatest timestamp *)
Fixpoint bulk_validate (maxk maxv cur : N) (kvts : list kvt) (newts : N) : res N :=
  match kvts with
  | [] => Ok newts
  | x :: r =>
      if (len (K x) =? 0) || (len (V x) =? 0) then Err EIllegalArguments
      else if maxk <? len (K x) then Err EIllegalArguments
      else if maxv <? len (V x) then Err EIllegalArguments
      else if (T x =? 0) then bulk_validate maxk maxv cur r (N.max newts (cur + 1))
      else if T x <=? cur then Err EIllegalArguments
      else bulk_validate maxk maxv cur r (N.max newts (T x))
  end.
Fixpoint mv_insert_all (cur : N) (m : mvmap) (kvts : list kvt) : res mvmap :=
  match kvts with
  | [] => Ok m
  | x :: r => do m' <- mv_insert m (K x) (if T x =? 0 then cur + 1 else T x) (V x);
              mv_insert_all cur m' r
  end.
Definition bulk_insert (maxk maxv : N) (tb : tbt) (kvts : list kvt) : res tbt :=
  if is_nil kvts then Err EIllegalArguments else
  do newts <- bulk_validate maxk maxv (tb_ts tb) kvts 0;
  do m <- mv_insert_all (tb_ts tb) (tb_map tb) kvts;
  Ok {| tb_map := m; tb_ts := newts |}.
Definition increase_ts (tb : tbt) (ts : N) : res tbt :=
  if ts <=? tb_ts tb then Err EIllegalArguments else Ok {| tb_map := tb_map tb; tb_ts := ts |}.

Fixpoint mv_find (m : mvmap) (k : bytes) : option (list tval) :=
  match m with
  | [] => None
  | (k', vs) :: r => if bytes_eqb k' k then Some vs else mv_find r k
  end.

(* (value, ts, hc) *)
Definition traw := (bytes * N * N)%type.
Definition mv_get (m : mvmap) (k : bytes) : res traw :=
  match mv_find m k with
  | Some ((t, v) :: r) => Ok (v, t, nlen ((t, v) :: r))
  | _ => Err ENotFound
  end.
(* leafValue.lastUpdateBetween *)
Fixpoint mv_between (vs : list tval) (lo hi : N) : res traw :=
  match vs with
  | [] => Err ENotFound
  | (t, v) :: r =>
      if t <? lo then Err ENotFound
      else if (hi =? 0) || (t <=? hi) then Ok (v, t, nlen vs)
      else mv_between r lo hi
  end.
Definition mv_get_between (m : mvmap) (k : bytes) (lo hi : N) : res traw :=
  match mv_find m k with
  | Some vs => if hi <? lo then Err EIllegalArguments else mv_between vs lo hi
  | None => Err ENotFound
  end.
(* leafValue.history: the timed values (no numbering) and the history count *)
Definition mv_history (m : mvmap) (k : bytes) (offset : N) (desc : bool) (limit : N) : res (list tval * N) :=
  if limit <? 1 then Err EIllegalArguments else
  match mv_find m k with
  | None => Err ENotFound
  | Some vs =>
      let hc := nlen vs in
      if offset =? hc then Err ENoMoreEntries
      else if hc <? offset then Err EOffsetOutOfRange
      else
        let o := N.to_nat offset in
        let n := N.to_nat limit in
        if desc then Ok (firstn n (skipn o vs), hc)
        else Ok (firstn n (skipn o (rev vs)), hc)
  end.
(* TBtree.GetWithPrefix *)
Definition mv_get_with_prefix (m : mvmap) (prefix neq : bytes) : res (bytes * traw) :=
  match find (fun kv => le_b prefix (fst kv) && (is_nil neq || lt_b neq (fst kv))) m with
  | Some (k, (t, v) :: r) =>
      if has_prefix k prefix then Ok (k, (v, t, nlen ((t, v) :: r))) else Err ENotFound
  | _ => Err ENotFound
  end.

(* ------------------------------------------------------------------ *)
(* the indexed value: serializeIndexableEntry / valueRefFrom             *)
Definition ser_ival (vlen voff : N) (hval txmdb kvmdb : bytes) : bytes :=
  be_enc w_lsz vlen ++ be_enc 8 voff ++ hval ++
  be_enc w_ssz (len txmdb) ++ txmdb ++ be_enc w_ssz (len kvmdb) ++ kvmdb.

(* what is stored for a version: the entry's value reference, the metadata of the transaction it
   was written in, and the entry metadata as indexed *)
Definition ser_ver (v : ver) : bytes :=
  ser_ival (len (e_val (v_e v))) (e_voff (v_e v)) (e_hval (v_e v))
           (txmd_bytes (v_txmd v)) (kvmd_bytes (v_md v)).

Record vref := {
  r_tx : N; r_hc : N; r_vlen : N; r_voff : N; r_hval : bytes;
  r_txmd : txmd;     (* nil *TxMetadata = txmd_empty *)
  r_kvmd : kvmd      (* nil *KVMetadata = kvmd_empty *)
}.

Definition valr_len : N := st_lszSize + st_offsetSize + hsize.

Definition value_ref_from (tx hc : N) (b : bytes) : res vref :=
  if len b <? valr_len then Err ECorruptedIndex else
  do s0 <- from_ b 0;
  do vlen <- uint_ w_lsz s0;
  do s1 <- from_ b st_lszSize;
  do voff <- uint_ 8 s1;
  let i := st_lszSize + st_offsetSize in
  do s2 <- from_ b i;
  let hval := take hsize (s2 ++ repeat 0 (N.to_nat hsize)) in     (* copy(hVal[:], indexedVal[i:]) *)
  let i := i + hsize in
  if len b <=? i then
    Ok {| r_tx := tx; r_hc := hc; r_vlen := vlen; r_voff := voff; r_hval := hval;
          r_txmd := txmd_empty; r_kvmd := kvmd_empty |}
  else
    if len b <? i + 2 * st_sszSize then Err ECorruptedIndex else
    do s3 <- from_ b i;
    do txmdLen <- uint_ w_ssz s3;
    let i := i + st_sszSize in
    if (st_maxTxMetadataLen <? txmdLen) || (len b <? i + txmdLen + st_sszSize) then Err ECorruptedIndex else
    do txmd <- (if 0 <? txmdLen then do s <- sub_ b i (i + txmdLen); txmd_read s else Ok txmd_empty);
    let i := i + txmdLen in
    do s4 <- from_ b i;
    do kvmdLen <- uint_ w_ssz s4;
    let i := i + st_sszSize in
    if (st_maxKVMetadataLen <? kvmdLen) || (len b <? i + kvmdLen) then Err ECorruptedIndex else
    do kvmd <- (if 0 <? kvmdLen then do s <- sub_ b i (i + kvmdLen); kvmd_read s else Ok kvmd_empty);
    let i := i + kvmdLen in
    if i <? len b then Err ECorruptedIndex else
    Ok {| r_tx := tx; r_hc := hc; r_vlen := vlen; r_voff := voff; r_hval := hval;
          r_txmd := txmd; r_kvmd := kvmd |}.

(* ------------------------------------------------------------------ *)
(* the reused transaction holder                                         *)
Definition holder := list bytes.     (* per entry slot: what its key buffer currently holds
                                        (bytes never written are 0) *)
(* readEntry: r.Read(entry.k[:kLen]) overwrites the first kLen bytes of the slot's buffer *)
Definition buf_write (buf k : bytes) : bytes := k ++ drop (len k) buf.
Fixpoint read_tx_keys (hd : holder) (ks : list bytes) : holder :=
  match ks with
  | [] => hd
  | k :: ks' =>
      match hd with
      | [] => buf_write [] k :: read_tx_keys [] ks'
      | b :: hd' => buf_write b k :: read_tx_keys hd' ks'
      end
  end.

(* an accumulated key: a slice (slot, length) into the holder, or a slice of its own *)
Inductive kref := KAlias (slot : nat) (n : N) | KOwn (k : bytes).
Definition resolve (hd : holder) (r : kref) : bytes :=
  match r with
  | KOwn k => k
  | KAlias j n => take n (nth j hd [] ++ repeat 0 (N.to_nat n))
  end.
Record pend := { p_key : kref; p_val : bytes; p_t : N }.

(* ------------------------------------------------------------------ *)
(* indexSince                                                            *)
Record fixes := {
  fx_copy_key : bool;       (* _kvs[..].K receives a copy of the key *)
  fx_own_txid : bool;       (* the tombstone lookup uses txID+i, not txID *)
  fx_tomb_deleted : bool;   (* the tombstone is marked deleted also when the replaced entry has metadata *)
  fx_kvs_cap : bool;        (* _kvs has room for two items (entry + tombstone) per transaction entry *)
  fx_skip_dead_prev : bool  (* 10acf02: no tombstone (and no value read) when the previous version is itself a tombstone *)
}.
Definition cur_code : fixes :=
  {| fx_copy_key := false; fx_own_txid := false; fx_tomb_deleted := false; fx_kvs_cap := false;
     fx_skip_dead_prev := false |}.
Definition all_fixed : fixes :=
  {| fx_copy_key := true; fx_own_txid := true; fx_tomb_deleted := true; fx_kvs_cap := true;
     fx_skip_dead_prev := true |}.

Definition nth_tx (h : history) (id : N) : option tx :=
  if id =? 0 then None else nth_error h (N.to_nat (id - 1)).

(* sourceIndexer.index.GetBetween(sourceKey, 1, bound): the id of the transaction holding the
   previous version of the source key *)
Definition lookup_prev (s : ispec) (h : history) (tb : tbt) (sourceKey : bytes) (bound : N) : res (option N) :=
  match src s with
  | SrcNone => Ok None
  | SrcSelf =>
      match mv_get_between (tb_map tb) sourceKey 1 bound with
      | Ok (_, ts, _) => Ok (Some ts)
      | Err e => if e =? ENotFound then Ok None else Err e
      | Panic => Panic
      end
  | SrcOther =>
      (* another index, assumed correct and waited for: it holds a version of sourceKey for every
         transaction with an indexable entry mapped to it *)
      match last_tx_with s sourceKey (firstn (N.to_nat bound) h) with
      | Some pt => Ok (Some (t_id pt))
      | None => Ok None
      end
  end.

Definition index_entry (fx : fixes) (s : ispec) (h : history) (tb : tbt)
           (txID i : N) (t : tx) (slot : nat) (e : entry) : res (list pend) :=
  if kv_nonindexable (e_md e) then Ok [] else
  if negb (has_prefix (e_key e) (sp s)) then Ok [] else
  let sourceKey := mapk (smap s) (e_key e) (e_val e) in
  let targetKey := mapk (tmap s) sourceKey (e_val e) in
  if negb (has_prefix targetKey (tp s)) then Err EIllegalArguments else
  let kr := match smap s, tmap s with
            | None, None => if fx_copy_key fx then KOwn targetKey else KAlias slot (len (e_key e))
            | _, _ => KOwn targetKey
            end in
  let p1 := {| p_key := kr;
               p_val := ser_ival (len (e_val e)) (e_voff e) (e_hval e) (txmd_bytes (t_md t)) (kvmd_bytes (e_md e));
               p_t := txID + i |} in
  let asof := if fx_own_txid fx then txID + i else txID in
  if inj s && (1 <? asof) then
    match src s with
    | SrcNone => Ok [p1]                            (* ErrIndexNotFound: continue *)
    | _ =>
      do prev <- lookup_prev s h tb sourceKey (asof - 1);
      match prev with
      | None => Ok [p1]
      | Some ptid =>
          (* ReadTxEntry(prevTxID, e.key()) *)
          match nth_tx h ptid with
          | None => Err ECorruptedData
          | Some pt =>
              match find_entry (e_key e) pt with
              | None => Err ENotFound
              | Some pe =>
                  if fx_skip_dead_prev fx && kv_deleted (e_md pe) then Ok [p1] else
                  let targetPrevKey := mapk (tmap s) sourceKey (e_val pe) in
                  if bytes_eqb targetKey targetPrevKey then Ok [p1] else
                  if negb (has_prefix targetPrevKey (tp s)) then Err EIllegalArguments else
                  let md := if fx_tomb_deleted fx then set_deleted (e_md pe)
                            else if is_nil (kvmd_bytes (e_md pe)) then set_deleted kvmd_empty
                            else e_md pe      (* AsDeleted on read-only metadata: ErrReadOnly, ignored *)
                  in
                  Ok [p1; {| p_key := KOwn targetPrevKey;
                             p_val := ser_ival (len (e_val pe)) (e_voff pe) (e_hval pe)
                                               (txmd_bytes (t_md pt)) (kvmd_bytes md);
                             p_t := txID + i |}]
              end
          end
      end
    end
  else Ok [p1].

Fixpoint index_entries (fx : fixes) (s : ispec) (h : history) (tb : tbt)
         (txID i : N) (t : tx) (slot : nat) (es : list entry) : res (list pend) :=
  match es with
  | [] => Ok []
  | e :: r =>
      do a <- index_entry fx s h tb txID i t slot e;
      do b <- index_entries fx s h tb txID i t (S slot) r;
      Ok (a ++ b)
  end.

(* the loop `for i := 0; i < bulk; i++`; idx._kvs has `cap` pre-allocated slots (newIndexer:
   maxTxEntries * MaxBulkSize): writing past them is a Go runtime panic (index out of range) *)
Fixpoint index_txs (fx : fixes) (s : ispec) (h : history) (tb : tbt) (txID : N) (cap : nat)
         (n : nat) (i : N) (hd : holder) (acc : list pend) : res (holder * list pend) :=
  match n with
  | O => Ok (hd, acc)
  | S n' =>
      match nth_tx h (txID + i) with
      | None => Err ECorruptedData             (* readTx of a transaction that is not there *)
      | Some t =>
          let hd' := read_tx_keys hd (map e_key (t_entries t)) in
          do ps <- index_entries fx s h tb txID i t O (t_entries t);
          if (cap <? length (acc ++ ps))%nat then Panic else
          index_txs fx s h tb txID cap n' (i + 1) hd' (acc ++ ps)
      end
  end.

Record istate := { is_tb : tbt; is_hd : holder }.
Definition istate_init : istate := {| is_tb := tbt_empty; is_hd := [] |}.

(* maximum key size of the tree = the store's MaxKeyLen; maximum value size as in newIndexer *)
Definition max_ival : N :=
  st_lszSize + st_offsetSize + hsize + st_sszSize + st_maxTxMetadataLen + st_sszSize + st_maxKVMetadataLen.

(* store limits: maximum key length, maximum number of entries of a transaction *)
Record limits := { maxk : N; maxtx : N }.

(* newIndexer pre-allocates maxTxEntries * MaxBulkSize items *)
Definition kvs_cap (fx : fixes) (lim : limits) (maxbulk : nat) : nat :=
  ((if fx_kvs_cap fx then 2 else 1) * N.to_nat (maxtx lim) * maxbulk)%nat.

(* one call of indexSince that accumulates `bulk` <= `maxbulk` = MaxBulkSize transactions *)
Definition index_since (fx : fixes) (s : ispec) (lim : limits) (h : history) (st : istate) (maxbulk bulk : nat) : res istate :=
  if Nat.eqb bulk 0 then Err EIllegalArguments else
  let txID := tb_ts (is_tb st) + 1 in
  do r <- index_txs fx s h (is_tb st) txID (kvs_cap fx lim maxbulk) bulk 0 (is_hd st) [];
  let '(hd, ps) := r in
  do tb' <- (if is_nil ps then increase_ts (is_tb st) (txID + N.of_nat bulk - 1)
             else bulk_insert (maxk lim) max_ival (is_tb st)
                    (map (fun p => {| K := resolve hd (p_key p); V := p_val p; T := p_t p |}) ps));
  Ok {| is_tb := tb'; is_hd := hd |}.

(* doIndexing: repeated indexSince(Ts+1); the k-th call accumulates min(ks[k], what is committed)
   transactions; stops when everything is indexed *)
Fixpoint run (fx : fixes) (s : ispec) (lim : limits) (h : history) (ks : list nat) (st : istate) : res istate :=
  match ks with
  | [] => Ok st
  | k :: ks' =>
      let avail := (length h - N.to_nat (tb_ts (is_tb st)))%nat in
      if Nat.eqb avail 0 then Ok st else
      do st' <- index_since fx s lim h st k (Nat.min k avail);
      run fx s lim h ks' st'
  end.

(* ------------------------------------------------------------------ *)
(* the store's reads                                                     *)
Definition filter_ref (now : N) (r : vref) : res vref :=
  if expired now (r_kvmd r) then Err EExpired
  else if kv_deleted (r_kvmd r) then Err ENotFound
  else Ok r.

(* ImmuStore.Get = GetWithFilters(IgnoreExpired, IgnoreDeleted) *)
Definition store_get (now : N) (tb : tbt) (k : bytes) : res vref :=
  do x <- mv_get (tb_map tb) k;
  let '(v, ts, hc) := x in
  do r <- value_ref_from ts hc v;
  filter_ref now r.

Definition store_get_between (tb : tbt) (k : bytes) (lo hi : N) : res vref :=
  do x <- mv_get_between (tb_map tb) k lo hi;
  let '(v, ts, hc) := x in
  value_ref_from ts hc v.

Fixpoint refs_up (tvs : list tval) (rev_ : N) : res (list vref) :=
  match tvs with
  | [] => Ok []
  | (t, v) :: r => do x <- value_ref_from t rev_ v; do xs <- refs_up r (rev_ + 1); Ok (x :: xs)
  end.
Fixpoint refs_down (tvs : list tval) (rev_ : N) : res (list vref) :=
  match tvs with
  | [] => Ok []
  | (t, v) :: r => do x <- value_ref_from t rev_ v; do xs <- refs_down r (rev_ - 1); Ok (x :: xs)
  end.

(* ImmuStore.History *)
Definition store_history (tb : tbt) (k : bytes) (offset : N) (desc : bool) (limit : N) : res (list vref * N) :=
  do x <- mv_history (tb_map tb) k offset desc limit;
  let '(tvs, hc) := x in
  do rs <- (if desc then refs_down tvs (hc - offset) else refs_up tvs (offset + 1));
  Ok (rs, hc).

(* Snapshot.History (key_reader.go): numbers the i-th returned value hCount - i, whatever the
   offset and the direction; `fixed` = numbering as ImmuStore.History does *)
Definition snapshot_history (fixed : bool) (tb : tbt) (k : bytes) (offset : N) (desc : bool) (limit : N)
  : res (list vref * N) :=
  if fixed then store_history tb k offset desc limit else
  do x <- mv_history (tb_map tb) k offset desc limit;
  let '(tvs, hc) := x in
  do rs <- refs_down tvs hc;
  Ok (rs, hc).

(* ImmuStore.GetWithPrefix *)
Definition store_get_with_prefix (now : N) (tb : tbt) (prefix neq : bytes) : res (bytes * vref) :=
  do x <- mv_get_with_prefix (tb_map tb) prefix neq;
  let '(k, (v, ts, hc)) := x in
  do r <- value_ref_from ts hc v;
  do r' <- filter_ref now r;
  Ok (k, r').

Definition pass_ref (r : rspec) (now : N) (x : vref) : bool :=
  negb (r_ign_deleted r && kv_deleted (r_kvmd x)) &&
  negb (r_ign_expired r && expired now (r_kvmd x)).

(* storeKeyReader.Read until ErrNoMoreEntries (tbtree reader: keys in range in (reverse) key
   order, latest version each) *)
Fixpoint scan_keys (now : N) (r : rspec) (m : mvmap) : res (list (bytes * vref)) :=
  match m with
  | [] => Ok []
  | (k, vs) :: rest =>
      do here <- (match vs with
                  | (t, v) :: _ =>
                      if in_range r k then
                        do x <- value_ref_from t (nlen vs) v;
                        Ok (if pass_ref r now x then [(k, x)] else [])
                      else Ok []
                  | [] => Ok []
                  end);
      do more <- scan_keys now r rest;
      Ok (here ++ more)
  end.
Definition store_scan (now : N) (tb : tbt) (r : rspec) : res (list (bytes * vref)) :=
  do l <- scan_keys now r (if r_desc r then rev (tb_map tb) else tb_map tb);
  Ok (skipn (N.to_nat (r_offset r)) l).

(* storeKeyReader.ReadBetween until ErrNoMoreEntries *)
Fixpoint scan_keys_between (now : N) (r : rspec) (lo hi : N) (m : mvmap) : res (list (bytes * vref)) :=
  match m with
  | [] => Ok []
  | (k, vs) :: rest =>
      do here <- (if in_range r k then
                    match (if hi <? lo then Err EIllegalArguments else mv_between vs lo hi) with
                    | Ok (v, t, hc) =>
                        do x <- value_ref_from t hc v;
                        Ok (if pass_ref r now x then [(k, x)] else [])
                    | _ => Ok []
                    end
                  else Ok []);
      do more <- scan_keys_between now r lo hi rest;
      Ok (here ++ more)
  end.
Definition store_scan_between (now : N) (tb : tbt) (r : rspec) (lo hi : N) : res (list (bytes * vref)) :=
  do l <- scan_keys_between now r lo hi (if r_desc r then rev (tb_map tb) else tb_map tb);
  Ok (skipn (N.to_nat (r_offset r)) l).

(* what a version looks like through a read *)
Definition vref_of (x : hit) : vref :=
  let v := fst x in
  {| r_tx := v_tx v; r_hc := snd x; r_vlen := len (e_val (v_e v)); r_voff := e_voff (v_e v);
     r_hval := e_hval (v_e v); r_txmd := v_txmd v; r_kvmd := v_md v |}.

(* the abstract index as the tree holds it: every version as (transaction id, serialised value) *)
Definition ser_index (ix : index) : mvmap :=
  map (fun kv => (fst kv, map (fun v => (v_tx v, ser_ver v)) (snd kv))) ix.

Definition rmap {A B} (f : A -> B) (r : res A) : res B :=
  match r with Ok a => Ok (f a) | Err e => Err e | Panic => Panic end.
