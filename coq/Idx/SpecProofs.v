(* C04 — facts about the specification itself: how versions / keys grow with the history, key
   order, and the plain reading of a lookup in index_of_history *)
From V Require Import Idx.Spec Idx.Indexer Idx.MapProofs.
From Coq Require Import Sorted.
From Coq Require Import ZifyN ZifyNat ZifyBool.

Definition insf (acc : list bytes) (kv : bytes * ver) : list bytes := ins (fst kv) acc.
Definition pick1 (k : bytes) (kvs : list (bytes * ver)) : list ver :=
  match first_with k kvs with Some v => [v] | None => [] end.

Lemma keys_unfold s h : keys s h = fold_left insf (concat (hist_kvs s h)) [].
Proof. reflexivity. Qed.
Lemma versions_unfold s h k : versions s h k = rev (flat_map (pick1 k) (hist_kvs s h)).
Proof. reflexivity. Qed.

Lemma kvs_seq_app s done a b :
  kvs_seq s done (a ++ b) = kvs_seq s done a ++ kvs_seq s (done ++ a) b.
Proof.
  revert done; induction a as [|t a IH]; intros done; simpl.
  - rewrite app_nil_r; reflexivity.
  - rewrite IH, <- app_assoc. reflexivity.
Qed.

Lemma hist_kvs_snoc s h t : hist_kvs s (h ++ [t]) = hist_kvs s h ++ [tx_kvs s h t].
Proof. unfold hist_kvs. rewrite kvs_seq_app. reflexivity. Qed.

Lemma versions_snoc s h t k : versions s (h ++ [t]) k = pick1 k (tx_kvs s h t) ++ versions s h k.
Proof.
  rewrite !versions_unfold, hist_kvs_snoc, flat_map_app, rev_app_distr. simpl. rewrite app_nil_r.
  unfold pick1. destruct (first_with k (tx_kvs s h t)); reflexivity.
Qed.

Lemma keys_snoc s h t : keys s (h ++ [t]) = fold_left insf (tx_kvs s h t) (keys s h).
Proof.
  rewrite !keys_unfold, hist_kvs_snoc, concat_app, fold_left_app. simpl. rewrite app_nil_r. reflexivity.
Qed.

Lemma firstn_snoc {A} (l : list A) n x : nth_error l n = Some x -> firstn (S n) l = firstn n l ++ [x].
Proof.
  revert n; induction l as [|y l IH]; intros [|n] H; simpl in *; try discriminate.
  - injection H as ->; reflexivity.
  - f_equal; auto.
Qed.

(* ---------- keys ---------- *)
Lemma fold_insf_sorted kvs l : sorted l -> sorted (fold_left insf kvs l).
Proof. revert l; induction kvs as [|kv kvs IH]; intros l H; simpl; auto. apply IH. apply ins_sorted; exact H. Qed.

Lemma keys_sorted s h : sorted (keys s h).
Proof. rewrite keys_unfold. apply fold_insf_sorted. apply sorted_nil. Qed.

Lemma fold_insf_in kvs l k : In k (fold_left insf kvs l) <-> In k (map fst kvs) \/ In k l.
Proof.
  revert l; induction kvs as [|kv kvs IH]; intros l; simpl.
  - intuition.
  - rewrite IH. unfold insf at 1. rewrite ins_in. intuition.
Qed.

Lemma first_with_none {A} k (l : list (bytes * A)) : first_with k l = None <-> ~ In k (map fst l).
Proof.
  induction l as [|[k' v] l IH]; simpl.
  - intuition.
  - destruct (bytes_eqb k' k) eqn:E.
    + apply bytes_eqb_eq in E; subst. split; [discriminate|]. intros H; exfalso; apply H; auto.
    + rewrite IH. apply bytes_eqb_neq in E. intuition.
Qed.

Lemma first_with_app {A} k (a b : list (bytes * A)) :
  first_with k (a ++ b) = match first_with k a with Some v => Some v | None => first_with k b end.
Proof.
  induction a as [|[k' v] a IH]; simpl; auto. destruct (bytes_eqb k' k); auto.
Qed.

Lemma first_with_in {A} k (l : list (bytes * A)) v : first_with k l = Some v -> In (k, v) l.
Proof.
  induction l as [|[k' v'] l IH]; simpl; [discriminate|].
  destruct (bytes_eqb k' k) eqn:E.
  - intros H; injection H as ->. apply bytes_eqb_eq in E; subst; auto.
  - auto.
Qed.

(* a key is listed exactly when it has at least one version *)
Lemma keys_iff_versions s h k : In k (keys s h) <-> versions s h k <> [].
Proof.
  induction h as [|t h IH] using rev_ind.
  - simpl. split; [intros []|intros H; apply H; reflexivity].
  - rewrite keys_snoc, versions_snoc, fold_insf_in, IH. unfold pick1.
    destruct (first_with k (tx_kvs s h t)) eqn:E.
    + split; [intros _; discriminate|]. intros _. left.
      apply first_with_in in E. apply (in_map fst) in E. exact E.
    + apply first_with_none in E. simpl. tauto.
Qed.

(* ---------- lookups in index_of_history ---------- *)
Lemma ix_find_tab (F : bytes -> list ver) KS k :
  ix_find (map (fun k => (k, F k)) KS) k = if in_dec (list_eq_dec N.eq_dec) k KS then Some (F k) else None.
Proof.
  induction KS as [|k0 KS IH]; simpl; auto.
  destruct (bytes_eqb k0 k) eqn:E.
  - apply bytes_eqb_eq in E; subst.
    destruct (list_eq_dec N.eq_dec k k); [|contradiction]. reflexivity.
  - rewrite IH. apply bytes_eqb_neq in E.
    destruct (list_eq_dec N.eq_dec k0 k); [contradiction|].
    destruct (in_dec (list_eq_dec N.eq_dec) k KS); reflexivity.
Qed.

(* reading index_of_history at k: the versions of k, a key without versions is not listed *)
Lemma ix_find_index s h k :
  ix_find (index_of_history s h) k = match versions s h k with [] => None | vs => Some vs end.
Proof.
  unfold index_of_history. rewrite ix_find_tab.
  destruct (in_dec (list_eq_dec N.eq_dec) k (keys s h)) as [Hin|Hnin].
  - apply keys_iff_versions in Hin. destruct (versions s h k); [contradiction|reflexivity].
  - destruct (versions s h k) eqn:E; auto. exfalso; apply Hnin. apply keys_iff_versions. rewrite E; discriminate.
Qed.

(* ---------- transactions that contribute nothing ---------- *)
Lemma versions_snoc_empty s h t : tx_kvs s h t = [] -> forall k, versions s (h ++ [t]) k = versions s h k.
Proof. intros E k. rewrite versions_snoc, E. reflexivity. Qed.
Lemma keys_snoc_empty s h t : tx_kvs s h t = [] -> keys s (h ++ [t]) = keys s h.
Proof. intros E. rewrite keys_snoc, E. reflexivity. Qed.

(* ---------- every version carries the id of the transaction that produced it ---------- *)
Lemma entry_kvs_tx s done t e k v : In (k, v) (entry_kvs s done t e) -> v_tx v = t_id t.
Proof.
  unfold entry_kvs. destruct (indexable s e); [|intros []].
  intros [H|H]; [injection H as _ <-; reflexivity|].
  destruct (tomb_active s); [|destruct H].
  destruct (prev_entry s done e) as [[pt pe]|]; [|destruct H].
  destruct (kv_deleted (e_md pe)); [destruct H|].
  destruct (bytes_eqb _ _); [destruct H|]. destruct H as [H|[]]. injection H as _ <-; reflexivity.
Qed.
Lemma tx_kvs_tx s done t k v : In (k, v) (tx_kvs s done t) -> v_tx v = t_id t.
Proof. unfold tx_kvs. rewrite in_flat_map. intros [e [_ H]]. eapply entry_kvs_tx; eauto. Qed.

(* ---------- well-formed histories ---------- *)
Lemma ids_from_nth n h i t : ids_from n h = true -> nth_error h i = Some t -> t_id t = n + N.of_nat i.
Proof.
  revert n i; induction h as [|x h IH]; intros n [|i] H E; simpl in *; try discriminate.
  - injection E as ->. apply andb_prop in H as [H _]. apply N.eqb_eq in H. lia.
  - apply andb_prop in H as [_ H]. rewrite (IH _ _ H E). lia.
Qed.
Lemma wf_nth h i t : wf_history h = true -> nth_error h i = Some t -> t_id t = N.of_nat (S i).
Proof. intros H E. unfold wf_history in H. rewrite (ids_from_nth _ _ _ _ H E). lia. Qed.

Lemma nth_tx_some h id t : nth_tx h id = Some t -> id <> 0 /\ nth_error h (N.to_nat (id - 1)) = Some t.
Proof. unfold nth_tx. destruct (id =? 0) eqn:E; [discriminate|]. intros H; split; auto. lia. Qed.
Lemma nth_tx_of_nth h i t : nth_error h i = Some t -> nth_tx h (N.of_nat (S i)) = Some t.
Proof.
  intros H. unfold nth_tx. destruct (N.of_nat (S i) =? 0) eqn:E; [lia|].
  replace (N.to_nat (N.of_nat (S i) - 1)) with i by lia. exact H.
Qed.
