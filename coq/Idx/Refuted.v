(* C04 — the code as it stands (cur_code) violates the property: witnesses, each replayed on the
   real store by the harness (harness/c04/probes.go) on every run *)
From V Require Import Store.Codec Store.CodecRoundtrip Idx.Spec Idx.Indexer Idx.MapProofs Idx.SpecProofs
  Idx.IndexerProofs Idx.SerProofs Idx.ReadProofs Idx.Theorems.
From Coq Require Import ZifyN ZifyNat ZifyBool.

Definition wmk (k v : bytes) (exp : option N) : entry :=
  {| e_key := k; e_md := {| kv_deleted := false; kv_expires := exp; kv_nonindexable := false |};
     e_val := v; e_voff := 0; e_hval := repeat 0 32 |}.
Definition wtx (id : N) (es : list entry) : tx := {| t_id := id; t_ts := 0; t_md := txmd_empty; t_entries := es |}.

(* the default index of a store: no prefixes, no mappers *)
Definition w_default : ispec := {| sp := []; smap := None; tmap := None; tp := []; inj := false; src := SrcNone |}.
(* SQL-like secondary index over rows "R.." : source keys "P.." (looked up in the primary index),
   target keys "S" ++ first byte of the value ++ row key *)
Definition w_secondary : ispec :=
  {| sp := [82]; smap := Some (fun k _ => 80 :: drop 1 k);
     tmap := Some (fun k v => 83 :: (match v with x :: _ => x | [] => 0 end) :: drop 1 k);
     tp := [83]; inj := true; src := SrcOther |}.

Definition wlim : limits := {| maxk := 1024; maxtx := 1024 |}.

(* ---- D1: key aliasing. two single-key transactions indexed in one bulk of 2 ---- *)
Definition h1 : history := [wtx 1 [wmk [107; 49] [97] None]; wtx 2 [wmk [107; 50] [98] None]].

Lemma d1_facts :
  exists st, run cur_code w_default wlim h1 [2%nat] istate_init = Ok st /\
             tb_ts (is_tb st) = 2 /\
             store_get 0 (is_tb st) [107; 49] = Err ENotFound /\
             (exists x, get 0 (index_of_history w_default h1) [107; 49] = Ok x).
Proof. eexists. split; [vm_compute; reflexivity|]. split; [reflexivity|]. split; [reflexivity|]. eexists. vm_compute. reflexivity. Qed.

(* the replay of the design phase: MaxBulkSize 8, 40 single-key transactions: 35 keys are lost *)
Fixpoint h40_from (n : nat) (id : N) : history :=
  match n with
  | O => []
  | S n' => wtx id [wmk [107; 48 + id / 10; 48 + id mod 10] [118; id] None] :: h40_from n' (id + 1)
  end.
Definition h40 := h40_from 40 1.
Example d1_forty :
  match run cur_code w_default wlim h40 (repeat 8%nat 5) istate_init with
  | Ok st => (tb_ts (is_tb st),
              length (filter (fun t => match store_get 0 (is_tb st) (e_key (hd (wmk [] [] None) (t_entries t))) with
                                       | Ok _ => false | _ => true end) h40))
  | _ => (0, 0%nat)
  end = (40, 35%nat).
Proof. vm_compute. reflexivity. Qed.

(* ---- D2: the previous version written inside the same bulk is not tombstoned ---- *)
Definition h2 : history :=
  [wtx 1 [wmk [82; 48] [122] None]; wtx 2 [wmk [82; 49] [97] None]; wtx 3 [wmk [82; 49] [98] None]].
Lemma d2_facts :
  exists st, run cur_code w_secondary wlim h2 [1%nat; 2%nat] istate_init = Ok st /\
             tb_ts (is_tb st) = 3 /\
             (exists r, store_get 0 (is_tb st) [83; 97; 49] = Ok r) /\
             get 0 (index_of_history w_secondary h2) [83; 97; 49] = Err ENotFound.
Proof. eexists. split; [vm_compute; reflexivity|]. split; [reflexivity|]. split; [eexists; vm_compute; reflexivity|]. vm_compute. reflexivity. Qed.

(* ---- D3: the tombstone of a replaced entry that carries metadata is not marked deleted (bulk 1) ---- *)
Definition h3 : history :=
  [wtx 1 [wmk [82; 51] [97] (Some 4102444800)]; wtx 2 [wmk [82; 51] [98] None]].
Lemma d3_facts :
  exists st, run cur_code w_secondary wlim h3 [1%nat; 1%nat] istate_init = Ok st /\
             tb_ts (is_tb st) = 2 /\
             (exists r, store_get 0 (is_tb st) [83; 97; 51] = Ok r) /\
             get 0 (index_of_history w_secondary h3) [83; 97; 51] = Err ENotFound.
Proof. eexists. split; [vm_compute; reflexivity|]. split; [reflexivity|]. split; [eexists; vm_compute; reflexivity|]. vm_compute. reflexivity. Qed.

Lemma h_ok : history_ok h1 = true /\ history_ok h2 = true /\ history_ok h3 = true /\
             wf_history h1 = true /\ wf_history h2 = true /\ wf_history h3 = true.
Proof. repeat split; reflexivity. Qed.

Lemma spec_ok_default : spec_ok w_default. Proof. intros H; discriminate. Qed.
Lemma spec_ok_secondary : spec_ok w_secondary. Proof. intros H; discriminate. Qed.

(* a difference in Get is a difference of the index content *)
Lemma get_differs_content_differs s h tb now k :
  history_ok h = true ->
  store_get now tb k <> rmap vref_of (get now (index_of_history s h) k) ->
  tb_map tb <> ser_index (index_of_history s h).
Proof.
  intros Hh Hd E. apply Hd. apply store_get_spec; auto. apply index_of_history_ok; exact Hh.
Qed.

(* for the code as it stands "the index equals the history" fails: with bulks of 2 on the default
   index, and with bulks of 1 on an injective mapped index *)
Theorem index_equals_history_refuted :
  exists s lim h ks st,
    wf_history h = true /\ history_ok h = true /\ spec_ok s /\
    run cur_code s lim h ks istate_init = Ok st /\ N.to_nat (tb_ts (is_tb st)) = length h /\
    tb_map (is_tb st) <> ser_index (index_of_history s (firstn (N.to_nat (tb_ts (is_tb st))) h)).
Proof.
  destruct d1_facts as [st [Hr [Hts [Hg [x Hx]]]]].
  exists w_default, wlim, h1, [2%nat], st. repeat split; try reflexivity; auto using spec_ok_default.
  - rewrite Hts; reflexivity.
  - rewrite Hts. change (firstn (N.to_nat 2) h1) with h1.
    apply (get_differs_content_differs _ _ _ 0 [107; 49]); [reflexivity|]. rewrite Hg, Hx. discriminate.
Qed.

(* a committed, live key is not found *)
Theorem get_is_latest_live_refuted :
  exists s lim h ks st now k x,
    wf_history h = true /\ history_ok h = true /\ spec_ok s /\
    run cur_code s lim h ks istate_init = Ok st /\ N.to_nat (tb_ts (is_tb st)) = length h /\
    get now (index_of_history s h) k = Ok x /\ store_get now (is_tb st) k = Err ENotFound.
Proof.
  destruct d1_facts as [st [Hr [Hts [Hg [x Hx]]]]].
  exists w_default, wlim, h1, [2%nat], st, 0, [107; 49], x.
  repeat split; try reflexivity; auto using spec_ok_default. rewrite Hts; reflexivity.
Qed.

(* a mapped key whose row has moved on stays live in an injective index: inside a bulk (D2) and,
   when the replaced entry has metadata, with bulks of one transaction (D3) *)
Theorem injective_tombstone_refuted :
  (exists h ks st k r,
     wf_history h = true /\ history_ok h = true /\
     run cur_code w_secondary wlim h ks istate_init = Ok st /\ N.to_nat (tb_ts (is_tb st)) = length h /\
     get 0 (index_of_history w_secondary h) k = Err ENotFound /\ store_get 0 (is_tb st) k = Ok r) /\
  (exists h n st k r,
     wf_history h = true /\ history_ok h = true /\
     run cur_code w_secondary wlim h (repeat 1%nat n) istate_init = Ok st /\ N.to_nat (tb_ts (is_tb st)) = length h /\
     get 0 (index_of_history w_secondary h) k = Err ENotFound /\ store_get 0 (is_tb st) k = Ok r).
Proof.
  split.
  - destruct d2_facts as [st [Hr [Hts [[r Hg] Hx]]]].
    exists h2, [1%nat; 2%nat], st, [83; 97; 49], r. repeat split; auto. rewrite Hts; reflexivity.
  - destruct d3_facts as [st [Hr [Hts [[r Hg] Hx]]]].
    exists h3, 2%nat, st, [83; 97; 51], r. repeat split; auto. rewrite Hts; reflexivity.
Qed.

(* ---- D4: Snapshot.History numbers the i-th returned version hCount - i ---- *)
Definition h4 : history :=
  [wtx 1 [wmk [107] [48] None]; wtx 2 [wmk [107] [49] None]; wtx 3 [wmk [107] [50] None];
   wtx 4 [wmk [107] [51] None]; wtx 5 [wmk [107] [52] None]].
Theorem snapshot_history_refuted :
  exists st, run cur_code w_default wlim h4 (repeat 1%nat 5) istate_init = Ok st /\
             option_map (fun x => map r_hc (fst x))
               (match snapshot_history false (is_tb st) [107] 2 false 2 with Ok x => Some x | _ => None end) = Some [5; 4] /\
             option_map (fun x => map r_hc (fst x))
               (match store_history (is_tb st) [107] 2 false 2 with Ok x => Some x | _ => None end) = Some [3; 4].
Proof. eexists. split; [vm_compute; reflexivity|]. split; vm_compute; reflexivity. Qed.

(* ---- D6: an injective index accumulates two items per entry (entry + tombstone) but _kvs has
   maxTxEntries * MaxBulkSize slots: a transaction that re-maps more than half of maxTxEntries keys
   overruns it (Go: index out of range in the indexer goroutine, the process dies) ---- *)
Definition wlim4 : limits := {| maxk := 1024; maxtx := 4 |}.
Definition h6 : history :=
  [wtx 1 [wmk [82; 48] [97] None; wmk [82; 49] [97] None; wmk [82; 50] [97] None; wmk [82; 51] [97] None];
   wtx 2 [wmk [82; 48] [98] None; wmk [82; 49] [98] None; wmk [82; 50] [98] None; wmk [82; 51] [98] None]].
Theorem indexer_panics_refuted :
  wf_history h6 = true /\ history_ok h6 = true /\
  Forall (fun t => (length (t_entries t) <= N.to_nat (maxtx wlim4))%nat) h6 /\
  run cur_code w_secondary wlim4 h6 [1%nat; 1%nat] istate_init = Panic /\
  (exists st, run all_fixed w_secondary wlim4 h6 [1%nat; 1%nat] istate_init = Ok st /\ tb_ts (is_tb st) = 2).
Proof.
  split; [reflexivity|]. split; [reflexivity|]. split; [repeat constructor|].
  split; [vm_compute; reflexivity|]. eexists. split; [vm_compute; reflexivity|reflexivity].
Qed.

(* the premises of the theorems of Idx.Theorems and Idx.Partial are satisfiable *)
Example theorems_premises_sat :
  exists s lim h ks st,
    wf_history h = true /\ history_ok h = true /\ spec_ok s /\ run all_fixed s lim h ks istate_init = Ok st /\
    N.to_nat (tb_ts (is_tb st)) = length h /\ versions s h [83; 98; 49] <> [].
Proof.
  exists w_secondary, wlim, h2, [1%nat; 2%nat]. eexists.
  split; [reflexivity|]. split; [reflexivity|]. split; [apply spec_ok_secondary|].
  split; [vm_compute; reflexivity|]. split; [reflexivity|]. vm_compute. discriminate.
Qed.
Example partial_premises_sat :
  exists s lim h n st,
    wf_history h = true /\ tomb_active s = false /\ spec_ok s /\
    run cur_code s lim h (repeat 1%nat n) istate_init = Ok st /\ N.to_nat (tb_ts (is_tb st)) = length h.
Proof.
  exists w_default, wlim, h1, 2%nat. eexists.
  split; [reflexivity|]. split; [reflexivity|]. split; [apply spec_ok_default|].
  split; [vm_compute; reflexivity|]. reflexivity.
Qed.
