(* C04 — what holds of the code as it stands (cur_code): with bulks of ONE transaction
   (MaxBulkSize = 1, the default) and an index that writes no tombstones (not injective, or no
   index registered for its source keys) the current indexer behaves as the repaired one, hence
   builds index_of_history *)
From V Require Import Store.Codec Idx.Spec Idx.Indexer Idx.MapProofs Idx.SpecProofs Idx.IndexerProofs.
From Coq Require Import ZifyN ZifyNat ZifyBool.

Lemma read_tx_keys_nth : forall ks hd j k,
  nth_error ks j = Some k -> nth j (read_tx_keys hd ks) [] = buf_write (nth j hd []) k.
Proof.
  induction ks as [|k0 ks IH]; intros hd j k H; [destruct j; discriminate|].
  destruct j as [|j]; cbn [nth_error] in H.
  - injection H as ->. destruct hd; reflexivity.
  - destruct hd as [|b hd]; cbn [read_tx_keys nth].
    + rewrite (IH [] j k H). destruct j; reflexivity.
    + apply IH; exact H.
Qed.

Lemma resolve_alias ks hd j k :
  nth_error ks j = Some k -> resolve (read_tx_keys hd ks) (KAlias j (len k)) = k.
Proof.
  intros H. unfold resolve. rewrite (read_tx_keys_nth _ _ _ _ H). unfold buf_write.
  rewrite <- app_assoc. apply take_app_exact.
Qed.

Definition req (hd : holder) (a b : res (list pend)) : Prop :=
  match a, b with
  | Ok x, Ok y => map (kvt_of hd) x = map (kvt_of hd) y
  | Err x, Err y => x = y
  | Panic, Panic => True
  | _, _ => False
  end.

Lemma index_entry_equiv s h tb txID t slot e hd :
  tomb_active s = false ->
  resolve hd (KAlias slot (len (e_key e))) = e_key e ->
  req hd (index_entry cur_code s h tb txID 0 t slot e) (index_entry all_fixed s h tb txID 0 t slot e).
Proof.
  intros Htomb Hres. unfold index_entry.
  destruct (kv_nonindexable (e_md e)); [reflexivity|].
  destruct (negb (has_prefix (e_key e) (sp s))); [reflexivity|].
  cbv zeta.
  destruct (negb (has_prefix _ (tp s))); [reflexivity|].
  cbn [fx_copy_key fx_own_txid fx_tomb_deleted cur_code all_fixed].
  unfold tomb_active in Htomb.
  assert (Hk : forall p_val p_t,
     kvt_of hd {| p_key := match smap s, tmap s with
                          | None, None => KAlias slot (len (e_key e))
                          | _, _ => KOwn (mapk (tmap s) (mapk (smap s) (e_key e) (e_val e)) (e_val e)) end;
                  p_val := p_val; p_t := p_t |} =
     kvt_of hd {| p_key := match smap s, tmap s with
                          | None, None => KOwn (mapk (tmap s) (mapk (smap s) (e_key e) (e_val e)) (e_val e))
                          | _, _ => KOwn (mapk (tmap s) (mapk (smap s) (e_key e) (e_val e)) (e_val e)) end;
                  p_val := p_val; p_t := p_t |}).
  { intros pv pt. unfold kvt_of. cbn [p_key p_val p_t]. f_equal.
    destruct (smap s), (tmap s); try reflexivity. cbn [mapk resolve]. exact Hres. }
  destruct (inj s); cbn [andb] in *.
  - destruct (src s); try discriminate.
    destruct (1 <? txID), (1 <? txID + 0); cbn [req map]; rewrite Hk; reflexivity.
  - cbn [req map]. rewrite Hk. reflexivity.
Qed.

Lemma index_entries_equiv s h tb txID t hd : tomb_active s = false -> forall es slot,
  (forall j e, nth_error es j = Some e -> resolve hd (KAlias (slot + j) (len (e_key e))) = e_key e) ->
  req hd (index_entries cur_code s h tb txID 0 t slot es) (index_entries all_fixed s h tb txID 0 t slot es).
Proof.
  intros Htomb. induction es as [|e es IH]; intros slot Hres; [reflexivity|].
  cbn [index_entries].
  assert (H0 : resolve hd (KAlias slot (len (e_key e))) = e_key e).
  { rewrite <- (Nat.add_0_r slot). apply (Hres 0%nat e eq_refl). }
  assert (He := index_entry_equiv s h tb txID t slot e hd Htomb H0).
  assert (Ht : forall j e', nth_error es j = Some e' -> resolve hd (KAlias (S slot + j) (len (e_key e'))) = e_key e').
  { intros j e' Hj. replace (S slot + j)%nat with (slot + S j)%nat by lia. apply (Hres (S j) e' Hj). }
  assert (Hr := IH (S slot) Ht).
  destruct (index_entry cur_code s h tb txID 0 t slot e) as [a| |], (index_entry all_fixed s h tb txID 0 t slot e) as [a'| |];
    cbn [req bind] in *; try contradiction; auto.
  destruct (index_entries cur_code s h tb txID 0 t (S slot) es) as [b| |],
           (index_entries all_fixed s h tb txID 0 t (S slot) es) as [b'| |];
    cbn [req bind] in *; try contradiction; auto.
  rewrite !map_app, He, Hr. reflexivity.
Qed.

Lemma map_eq_nil_iff {A B} (f : A -> B) x y : map f x = map f y -> is_nil x = is_nil y.
Proof. destruct x, y; simpl; intros H; try discriminate; reflexivity. Qed.

Lemma map_eq_length {A B} (f : A -> B) x y : map f x = map f y -> length x = length y.
Proof. intros H. apply (f_equal (@length B)) in H. rewrite !map_length in H. exact H. Qed.

(* one transaction per bulk: what the current code accepts, the repaired code accepts with the same
   result (its _kvs is larger, so it does not hit the capacity panic either) *)
Lemma index_since_one_impl s lim h st mb st' :
  tomb_active s = false ->
  index_since cur_code s lim h st mb 1 = Ok st' -> index_since all_fixed s lim h st mb 1 = Ok st'.
Proof.
  intros Htomb. unfold index_since. cbn [Nat.eqb index_txs].
  destruct (nth_tx h (tb_ts (is_tb st) + 1 + 0)) as [t|]; [|discriminate].
  set (hd := read_tx_keys (is_hd st) (map e_key (t_entries t))).
  assert (Hres : forall j e, nth_error (t_entries t) j = Some e -> resolve hd (KAlias (0 + j) (len (e_key e))) = e_key e).
  { intros j e Hj. cbn [Nat.add]. apply resolve_alias. rewrite nth_error_map, Hj. reflexivity. }
  assert (He := index_entries_equiv s h (is_tb st) (tb_ts (is_tb st) + 1) t hd Htomb (t_entries t) 0%nat Hres).
  destruct (index_entries cur_code s h (is_tb st) (tb_ts (is_tb st) + 1) 0 t 0 (t_entries t)) as [a| |],
           (index_entries all_fixed s h (is_tb st) (tb_ts (is_tb st) + 1) 0 t 0 (t_entries t)) as [b| |];
    cbn [req bind app] in *; try contradiction; try discriminate.
  assert (Hl := map_eq_length _ _ _ He).
  unfold kvs_cap. cbn [fx_kvs_cap cur_code all_fixed].
  destruct (1 * N.to_nat (maxtx lim) * mb <? length a)%nat eqn:Ec; [discriminate|].
  apply Nat.ltb_ge in Ec.
  replace (2 * N.to_nat (maxtx lim) * mb <? length b)%nat with false by (symmetry; apply Nat.ltb_ge; lia).
  cbn [bind]. rewrite (map_eq_nil_iff _ _ _ He).
  change (map (fun p => {| K := resolve hd (p_key p); V := p_val p; T := p_t p |}) a) with (map (kvt_of hd) a).
  change (map (fun p => {| K := resolve hd (p_key p); V := p_val p; T := p_t p |}) b) with (map (kvt_of hd) b).
  rewrite He. auto.
Qed.

Lemma run_ones_impl s lim h : tomb_active s = false -> forall n st st',
  run cur_code s lim h (repeat 1%nat n) st = Ok st' -> run all_fixed s lim h (repeat 1%nat n) st = Ok st'.
Proof.
  intros Htomb. induction n as [|n IH]; intros st st' H; [exact H|].
  cbn [repeat run] in *. destruct (Nat.eqb (length h - N.to_nat (tb_ts (is_tb st))) 0) eqn:E; [exact H|].
  apply Nat.eqb_neq in E.
  replace (Nat.min 1 (length h - N.to_nat (tb_ts (is_tb st)))) with 1%nat in * by lia.
  destruct (index_since cur_code s lim h st 1 1) as [st1| |] eqn:E1; cbn [bind] in H; try discriminate.
  rewrite (index_since_one_impl _ _ _ _ _ _ Htomb E1). cbn [bind]. apply IH; exact H.
Qed.

Theorem index_equals_history_partial s lim h n st :
  wf_history h = true -> tomb_active s = false -> spec_ok s ->
  run cur_code s lim h (repeat 1%nat n) istate_init = Ok st ->
  (N.to_nat (tb_ts (is_tb st)) <= length h)%nat /\
  tb_map (is_tb st) = ser_index (index_of_history s (firstn (N.to_nat (tb_ts (is_tb st))) h)).
Proof.
  intros Hwf Htomb Hok H. apply run_ones_impl in H; [|exact Htomb].
  eapply index_equals_history_fixed; eauto.
Qed.
