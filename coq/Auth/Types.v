(* C18 access control: vocabulary shared by the generated gate table (gen/Gates.v, written by
   vtrans-auth from pkg/server/*.go on every run) and the hand-written policy (Auth/Policy.v). *)
From Coq Require Import NArith String List Bool.
Import ListNotations.

(* configuration test guarding a step:  s.Options.GetMaintenance(), s.Options.GetAuth() / .auth and
   their negations; COpaque = a condition on request data the translator does not interpret *)
Inductive cond := CMaint | CNotMaint | CAuth | CNotAuth | COpaque
| CPerRequest   (* the step sits inside the handler's `for { ... stream.Recv() ... }` loop: it runs for every
                   request of the stream (always true for the request at hand) *)
| CLastLogin.   (* s.removeUserFromLoginList(user) returned true: the user's login counter reached zero *)

(* one disjunct of a refusal `if !A && !B ... { return error }` (the call proceeds iff A || B || ...) *)
Inductive chk :=
| KSysAdmin                (* user.IsSysAdmin *)
| KPermOn (p : N)          (* user.HasPermission(<database named in the request>, p) *)
| KAnyPerm (p : N)         (* user.HasAtLeastOnePermission(p) *)
| KOpaque.                 (* a test on request data (e.g. target user created by the caller) *)

Inductive atom :=
| ABlock                   (* unconditional `return <error>` under the step's configuration tests *)
| AReserved                (* refuse when the request names the system or the default database *)
| ADb (lit : string)       (* s.getDBFromCtx(ctx, "lit") *)
| ADbDyn                   (* s.getDBFromCtx with a non-literal method name *)
| AUser                    (* s.getLoggedInUserdataFromCtx(ctx) *)
| ASess                    (* s.SessManager.GetSessionFromContext(ctx) *)
| ATx                      (* s.SessManager.GetTransactionFromContext(ctx) *)
| ASessID                  (* sessions.GetSessionIDFromContext(ctx) *)
| ACred                    (* s.getValidatedUser(ctx, user, password): credentials carried by the request *)
| ATok                     (* auth.DropTokenKeysForCtx(ctx): needs a valid login token in the request *)
| ACheck (ks : list chk)
| AInvLogin                (* s.removeUserFromLoginList(user): not a guard; records that the handler drops the
                              target user's token login when the step's conditions hold *)
| AInvSess                 (* s.SessManager.CloseSessionsForUser(user): closes the target user's sessions *)
| AInvKeys                 (* auth.DropTokenKeys(user): invalidates every token of the target user *)
| ASqlRead                 (* Engine.checkUserPermissions for a SELECT; never generated (see Auth/Policy.v) *)
| ASqlWrite.               (* embedded/sql Engine.checkUserPermissions for a non-read-only statement;
                              never generated, appended by Auth/Policy.v for the SQL exec RPCs *)

Record gstep := mk_gstep { g_when : list cond; g_atom : atom }.

Record gate := mk_gate {
  gt_svc : string;        (* gRPC service *)
  gt_rpc : string;        (* RPC name as in the service descriptor *)
  gt_handler : string;    (* implementing Type.Method, "" when the registered type does not implement it *)
  gt_steps : list gstep }.
