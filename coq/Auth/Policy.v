(* C18 access control: the decision procedure of the server (interceptors, getDBFromCtx,
   getLoggedInUserdataFromCtx, HasPermissionForMethod, session / token validation, the SQL engine's
   statement check) over a finite request context, and the SPECIFICATION table that says what kind
   of operation every RPC is.  The per-RPC guard sequences and the permission tables are NOT written
   here: they come from gen/Gates.v, gen/AuthTables.v, gen/Rpcs.v (regenerated from /repo on every
   run).  No proofs in this file. *)
From Coq Require Import NArith String List Bool.
From V Require Export Auth.Types gen.AuthTables gen.Rpcs gen.Gates.
Import ListNotations.
Open Scope string_scope. Open Scope N_scope.

(* ------------------------------------------------------------------ request context *)

(* server configuration.  Initialize refuses maintenance+auth and auth-off with user databases, so
   three remain: CfgAuth (auth on), CfgMaint (maintenance, auth off), CfgOpen (auth off, only
   defaultdb: every getDBFromCtx returns defaultdb without looking at the caller) *)
Inductive cfg := CfgAuth | CfgMaint | CfgOpen.
(* what the user holds: sysadmin / admin, read-write, read on the database "own" / nothing anywhere *)
Inductive kind := KSys | KAdm | KRW | KRO | KNone.
(* credential carried by the request: none, a session id, a login token, a login token of a user who
   has a second live login (the server counts logins per user name) *)
Inductive hdr := HNone | HSess | HTok | HTok2.
(* database: the one the user was granted permission on, another one, systemdb, none selected *)
Inductive dbsel := DOwn | DOther | DSystem | DNone.
(* what happened after the credential was issued: nothing; it expired (session guard / token
   expiration); the user was deactivated (SetActiveUser); the user's permission on "own" was changed
   by ChangePermission: REVOKEd (SReperm), replaced by a GRANT of the next lower level (SLowered:
   admin -> read-write, read-write -> read) or of the next higher level (SRaised: none -> read,
   read -> read-write, read-write -> admin) *)
Inductive sstate := SValid | SExpired | SDeact | SReperm | SLowered | SRaised.

Record cx := mk_cx {
  cx_cfg : cfg; cx_kind : kind; cx_hdr : hdr;
  cx_sel : dbsel;     (* database selected by the credential (session database / token index) *)
  cx_tgt : dbsel;     (* database named in the request, for RPCs that take one *)
  cx_st : sstate }.

Inductive verdict := Through | Refused.

Definition cfg_eqb (a b : cfg) := match a, b with CfgAuth, CfgAuth | CfgMaint, CfgMaint | CfgOpen, CfgOpen => true | _, _ => false end.
Definition kind_eqb (a b : kind) := match a, b with KSys, KSys | KAdm, KAdm | KRW, KRW | KRO, KRO | KNone, KNone => true | _, _ => false end.
Definition hdr_eqb (a b : hdr) := match a, b with HNone, HNone | HSess, HSess | HTok, HTok | HTok2, HTok2 => true | _, _ => false end.
Definition dbsel_eqb (a b : dbsel) := match a, b with DOwn, DOwn | DOther, DOther | DSystem, DSystem | DNone, DNone => true | _, _ => false end.
Definition sstate_eqb (a b : sstate) := match a, b with SValid, SValid | SExpired, SExpired | SDeact, SDeact | SReperm, SReperm | SLowered, SLowered | SRaised, SRaised => true | _, _ => false end.
Definition permission_changed (st : sstate) : bool := match st with SReperm | SLowered | SRaised => true | _ => false end.
Definition verdict_eqb (a b : verdict) := match a, b with Through, Through | Refused, Refused => true | _, _ => false end.

Definition auth_on (c : cfg) := cfg_eqb c CfgAuth.
Definition maint_on (c : cfg) := cfg_eqb c CfgMaint.

(* ------------------------------------------------------------------ pkg/auth/permissions.go *)

Fixpoint assoc {A} (k : string) (l : list (string * A)) : option A :=
  match l with
  | [] => None
  | (k', v) :: r => if String.eqb k k' then Some v else assoc k r
  end.

Definition mem_str (s : string) (l : list string) := existsb (String.eqb s) l.

(* HasPermissionForMethod *)
Definition has_permission_for_method (p : N) (m : string) : bool :=
  match assoc m methods_permissions with
  | None => false
  | Some ps => existsb (N.eqb p) ps
  end.
(* IsMaintenanceMethod *)
Definition is_maintenance_method (m : string) : bool := mem_str m maintenance_methods.

(* ------------------------------------------------------------------ users *)

(* the permission list of the user: sysadmin holds {("*", SysAdmin)}, the others {("own", p)} or {} *)
Definition perm_of_kind (k : kind) : N :=
  match k with KSys => PermissionSysAdmin | KAdm => PermissionAdmin | KRW => PermissionRW | KRO => PermissionR | KNone => PermissionNone end.
Definition is_sysadmin (k : kind) := kind_eqb k KSys.
(* auth.User.HasPermission(db, p): exact match in the permission list *)
Definition has_permission (k : kind) (db : dbsel) (p : N) : bool :=
  match k with
  | KSys | KNone => false
  | _ => dbsel_eqb db DOwn && (perm_of_kind k =? p)
  end.
(* auth.User.HasAtLeastOnePermission(p) *)
Definition has_any_permission (k : kind) (p : N) : bool :=
  match k with KNone => false | _ => perm_of_kind k =? p end.
(* auth.User.WhichPermission(db) *)
Definition which_permission (k : kind) (db : dbsel) : N :=
  match k with
  | KSys => PermissionSysAdmin
  | KNone => PermissionNone
  | _ => if dbsel_eqb db DOwn then perm_of_kind k else PermissionNone
  end.

(* ------------------------------------------------------------------ credentials *)

(* What the server still holds for the presented credential.
   Sessions: the session map entry is deleted by the guard on expiry and by CloseSessionsForUser.
   Tokens: verifyToken checks signature (per-user key pair kept until logout/password change) and
   expiration; then the user name must be in the logged-in map.  removeUserFromLoginList DECREMENTS a
   per-user login counter and deletes the entry only when it reaches zero: with a second live login
   the entry, holding the user data as of login time, stays.
   WHETHER SetActiveUser / ChangePermission make these two calls for every request is read off the
   generated gate table (steps AInvSess / AInvLogin that apply unconditionally): a handler that
   invalidates only under some condition on the request (e.g. only for REVOKE) counts as not
   invalidating, and the theorems about dead credentials then fail. *)
Definition is_inv_sess (a : atom) := match a with AInvSess => true | _ => false end.
Definition is_inv_login (a : atom) := match a with AInvLogin => true | _ => false end.
Definition always_runs (rpc : string) (p : atom -> bool) : bool :=
  match find (fun g => String.eqb (gt_svc g) "ImmuService" && String.eqb (gt_rpc g) rpc) gates with
  | Some g => existsb (fun s => match g_when s with [] => p (g_atom s) | _ => false end) (gt_steps g)
  | None => false
  end.
Definition deact_closes_sessions : bool := Eval vm_compute in always_runs "SetActiveUser" is_inv_sess.
Definition deact_drops_login : bool := Eval vm_compute in always_runs "SetActiveUser" is_inv_login.
Definition reperm_closes_sessions : bool := Eval vm_compute in always_runs "ChangePermission" is_inv_sess.
Definition reperm_drops_login : bool := Eval vm_compute in always_runs "ChangePermission" is_inv_login.

Inductive cred := CrNone | CrSessOk | CrSessGone | CrTokOk | CrTokExpired | CrTokNotLogged.
Definition cred_of (h : hdr) (st : sstate) : cred :=
  match h with
  | HNone => CrNone
  | HSess =>
      match st with
      | SValid => CrSessOk
      | SExpired => CrSessGone
      | SDeact => if deact_closes_sessions then CrSessGone else CrSessOk
      | SReperm | SLowered | SRaised => if reperm_closes_sessions then CrSessGone else CrSessOk
      end
  | HTok =>
      match st with
      | SValid => CrTokOk
      | SExpired => CrTokExpired
      | SDeact => if deact_drops_login then CrTokNotLogged else CrTokOk
      | SReperm | SLowered | SRaised => if reperm_drops_login then CrTokNotLogged else CrTokOk
      end
  | HTok2 => match st with SExpired => CrTokExpired | _ => CrTokOk end
  end.

(* getLoggedInUserdataFromCtx succeeds (it then yields the credential's database and the user) *)
Definition logged_in (c : cx) : bool :=
  match cred_of (cx_hdr c) (cx_st c) with CrSessOk | CrTokOk => true | _ => false end.

Definition has_session_header (c : cx) := hdr_eqb (cx_hdr c) HSess.
Definition session_present (c : cx) : bool :=
  match cred_of (cx_hdr c) (cx_st c) with CrSessOk => true | _ => false end.

(* ------------------------------------------------------------------ getDBFromCtx (server.go) *)

(* The table look-ups of a guard (IsMaintenanceMethod(m), methodsPermissions[m]) depend only on the
   method-name literal, so they are resolved once per RPC (`prep`) and the per-request decision works
   on the resolved steps. *)
Definition get_db_from_ctx_r (c : cx) (is_maint_method : bool) (allowed : list N) : bool :=
  if cfg_eqb (cx_cfg c) CfgOpen then true                        (* auth off, no user dbs: defaultdb *)
  else if maint_on (cx_cfg c) && negb is_maint_method then false
  else if negb (logged_in c) then false
  else if dbsel_eqb (cx_sel c) DNone then false                  (* "please select a database first" *)
  else if dbsel_eqb (cx_sel c) DSystem && negb is_maint_method then false
  else if is_sysadmin (cx_kind c) then true
  else existsb (N.eqb (which_permission (cx_kind c) (cx_sel c))) allowed.   (* HasPermissionForMethod *)

Definition allowed_perms (m : string) : list N :=
  match assoc m methods_permissions with Some ps => ps | None => [] end.

Definition get_db_from_ctx (c : cx) (m : string) : bool :=
  get_db_from_ctx_r c (is_maintenance_method m) (allowed_perms m).

(* ------------------------------------------------------------------ guard sequences *)

(* the login counter of the user reaches zero when this credential's login is removed: always for a
   session credential (sessions are not counted), for a token unless a second login is alive *)
Definition last_login (c : cx) : bool :=
  negb (hdr_eqb (cx_hdr c) HTok2 && sstate_eqb (cx_st c) SValid).

Definition cond_holds (c : cx) (d : cond) : bool :=
  match d with
  | CMaint => maint_on (cx_cfg c)
  | CNotMaint => negb (maint_on (cx_cfg c))
  | CAuth => auth_on (cx_cfg c)
  | CNotAuth => negb (auth_on (cx_cfg c))
  | COpaque => false
  | CPerRequest => true
  | CLastLogin => last_login c
  end.

Definition chk_holds (c : cx) (k : chk) : bool :=
  match k with
  | KSysAdmin => is_sysadmin (cx_kind c)
  | KPermOn p => has_permission (cx_kind c) (cx_tgt c) p
  | KAnyPerm p => has_any_permission (cx_kind c) p
  | KOpaque => true
  end.

(* embedded/sql Engine.checkUserPermissions for a SELECT: the SELECT privilege must be among the
   privileges multidbHandler.GetLoggedUser reports: all of them for the user NAMED immudb, else those
   recorded for the selected database (defaults: SELECT for every permission level).  The anonymous
   sysadmin of maintenance mode has no name and no privileges. *)
Definition sql_read_allowed (c : cx) : bool :=
  negb (maint_on (cx_cfg c)) &&
  (is_sysadmin (cx_kind c) || negb (which_permission (cx_kind c) (cx_sel c) =? PermissionNone)).

(* embedded/sql Engine.checkUserPermissions for a statement that is not read-only (INSERT):
   refused for PermissionReadOnly; the statement's privilege must be among the user's privileges on
   the database (defaults: all for RW/Admin/SysAdmin, SELECT only for R, none without permission) *)
Definition sql_write_allowed (c : cx) : bool :=
  let p := which_permission (cx_kind c) (cx_sel c) in
  (p =? PermissionSysAdmin) || (p =? PermissionAdmin) || (p =? PermissionRW).

(* resolved atoms: ADb carries its two table look-ups *)
Inductive ratom :=
| RPlain (a : atom)
| RDb (is_maint_method : bool) (allowed : list N).

Definition resolve_atom (a : atom) : ratom :=
  match a with
  | ADb m => RDb (is_maintenance_method m) (allowed_perms m)
  | _ => RPlain a
  end.

(* true = the step lets the request proceed *)
Definition atom_passes (c : cx) (a : atom) : bool :=
  match a with
  | ABlock => false
  | AReserved => negb (dbsel_eqb (cx_tgt c) DSystem)
  | ADb m => get_db_from_ctx c m
  | ADbDyn => true
  | AUser => logged_in c
  | ASess | ATx => has_session_header c && session_present c
  | ASessID => has_session_header c
  | ACred => negb (sstate_eqb (cx_st c) SDeact)      (* Login/OpenSession: "user is not active" *)
  | ATok => match cred_of (cx_hdr c) (cx_st c) with CrTokOk => true | _ => false end
  | ACheck ks => existsb (chk_holds c) ks
  | AInvLogin | AInvSess | AInvKeys => true          (* not guards *)
  | ASqlRead => sql_read_allowed c
  | ASqlWrite => sql_write_allowed c
  end.

Definition ratom_passes (c : cx) (a : ratom) : bool :=
  match a with
  | RPlain a => atom_passes c a
  | RDb mm al => get_db_from_ctx_r c mm al
  end.

Record rstep := mk_rstep { r_when : list cond; r_atom : ratom }.

(* Login / OpenSession read the user record afresh (getValidatedUser): checks that follow see the
   permissions as they are NOW (the sysadmin's cannot be changed). *)
Definition kind_now (k : kind) (st : sstate) : kind :=
  match st, k with
  | _, KSys => KSys
  | SReperm, _ => KNone
  | SLowered, KAdm => KRW
  | SLowered, KRW => KRO
  | SRaised, KNone => KRO
  | SRaised, KRO => KRW
  | SRaised, KRW => KAdm
  | _, _ => k
  end.
Definition fresh_user (c : cx) : cx :=
  mk_cx (cx_cfg c) (kind_now (cx_kind c) (cx_st c)) (cx_hdr c) (cx_sel c) (cx_tgt c) (cx_st c).

Definition is_cred_atom (a : ratom) : bool := match a with RPlain ACred => true | _ => false end.

Fixpoint eval_steps (c : cx) (l : list rstep) : verdict :=
  match l with
  | [] => Through
  | s :: r =>
      if forallb (cond_holds c) (r_when s)
      then (if ratom_passes c (r_atom s)
            then eval_steps (if is_cred_atom (r_atom s) then fresh_user c else c) r
            else Refused)
      else eval_steps c r
  end.

(* second layer for the SQL RPCs: Engine.checkUserPermissions -> multidbHandler.GetLoggedUser
   (getLoggedInUserdataFromCtx, getDBFromCtx(ctx,"SQLQuery")) and, for statements that write, the
   read-only / privilege test.  (The harness sends an INSERT through SQLExec/TxSQLExec and a SELECT
   through the query RPCs.) *)
Definition sql_layer (svc rpc : string) : list gstep :=
  if negb (String.eqb svc "ImmuService") then []
  else if String.eqb rpc "SQLExec" || String.eqb rpc "TxSQLExec"
  then [mk_gstep [] AUser; mk_gstep [] (ADb "SQLQuery"); mk_gstep [] ASqlWrite]
  else if String.eqb rpc "SQLQuery" || String.eqb rpc "UnarySQLQuery" || String.eqb rpc "TxSQLQuery"
  then [mk_gstep [] AUser; mk_gstep [] (ADb "SQLQuery"); mk_gstep [] ASqlRead]
  else [].

(* ------------------------------------------------------------------ interceptors + handler *)

Definition rpc_streaming (svc rpc : string) : bool :=
  existsb (fun r => match r with (s, n, st) => String.eqb s svc && String.eqb n rpc && st end) rpcs.

(* KeepAliveSessionInterceptor only refreshes the activity time (no refusal for a non-empty id);
   auth.ServerUnaryInterceptor refuses non-local clients when auth is off (not in this model: the
   harness client is local); SessionAuthInterceptor (unary chain only) refuses a request that
   carries a session id unknown to the manager, for every method but ImmuService/OpenSession. *)
Definition session_interceptor_applies (g : gate) : bool :=
  negb (String.eqb (gt_svc g) "ImmuService" && String.eqb (gt_rpc g) "OpenSession") &&
  negb (rpc_streaming (gt_svc g) (gt_rpc g)) &&
  mem_str "SessionAuthInterceptor" unary_interceptors.

Record pgate := mk_pgate { pg_sess_interceptor : bool; pg_steps : list rstep }.

Definition full_steps (g : gate) : list gstep := gt_steps g ++ sql_layer (gt_svc g) (gt_rpc g).

Definition prep (g : gate) : pgate :=
  mk_pgate (session_interceptor_applies g)
           (map (fun s => mk_rstep (g_when s) (resolve_atom (g_atom s))) (full_steps g)).

Definition decide_p (p : pgate) (c : cx) : verdict :=
  if pg_sess_interceptor p && has_session_header c && negb (session_present c) then Refused
  else eval_steps c (pg_steps p).

Definition decide (g : gate) (c : cx) : verdict := decide_p (prep g) c.

(* ---- streams that serve several requests (gen/Gates.v multi_request_rpcs) *)
Definition multi_request (g : gate) : bool :=
  existsb (fun r => String.eqb (fst r) (gt_svc g) && String.eqb (snd r) (gt_rpc g)) multi_request_rpcs.
Definition is_auth_atom (a : atom) : bool :=
  match a with ADb _ | ADbDyn | AUser | ASess | ATx | ASessID | ATok | ACheck _ => true | _ => false end.
Definition in_recv_loop (s : gstep) : bool :=
  existsb (fun d => match d with CPerRequest => true | _ => false end) (g_when s).
(* every authentication / permission step of the handler sits inside the receive loop (and there is one) *)
Definition per_request (g : gate) : bool :=
  forallb (fun s => negb (is_auth_atom (g_atom s)) || in_recv_loop s) (gt_steps g) &&
  existsb (fun s => is_auth_atom (g_atom s) && in_recv_loop s) (gt_steps g).
(* decision for a LATER request on a stream opened in context c_open, the caller's context being
   c_now at the time of the request: re-decided when the guards are per request, else the decision
   taken when the stream was opened stands *)
Definition decide_next (g : gate) (c_open c_now : cx) : verdict :=
  if per_request g then decide g c_now else decide g c_open.

Definition find_gate (svc rpc : string) : option gate :=
  find (fun g => String.eqb (gt_svc g) svc && String.eqb (gt_rpc g) rpc) gates.

(* ------------------------------------------------------------------ specification *)

Inductive class :=
| ClPublic      (* no authentication by design: liveness / version *)
| ClCred        (* carries user name and password itself: Login, OpenSession *)
| ClSelect      (* selects a database: needs some permission on the named database *)
| ClSession     (* needs a live login, touches only the caller's own session / own user record *)
| ClRead        (* returns contents or settings of the selected database *)
| ClWrite       (* changes contents or structure of the selected database *)
| ClAdminSel    (* administrative operation on the selected database *)
| ClAdminTgt    (* administrative operation on the database named in the request *)
| ClAdminAny    (* user administration by someone who is admin of some database *)
| ClSysAdmin.   (* server-wide administration *)

Definition class_eqb (a b : class) : bool :=
  match a, b with
  | ClPublic, ClPublic | ClCred, ClCred | ClSelect, ClSelect | ClSession, ClSession | ClRead, ClRead
  | ClWrite, ClWrite | ClAdminSel, ClAdminSel | ClAdminTgt, ClAdminTgt | ClAdminAny, ClAdminAny
  | ClSysAdmin, ClSysAdmin => true
  | _, _ => false
  end.

Definition class_code (c : class) : N :=
  match c with
  | ClPublic => 0 | ClCred => 1 | ClSelect => 2 | ClSession => 3 | ClRead => 4 | ClWrite => 5
  | ClAdminSel => 6 | ClAdminTgt => 7 | ClAdminAny => 8 | ClSysAdmin => 9
  end.

Record spec := mk_spec {
  sp_svc : string; sp_rpc : string; sp_class : class;
  sp_mutates : bool;   (* changes contents/structure of the SELECTED database when it goes through *)
  sp_dbmgmt : bool }.  (* manages the life cycle / settings of the database NAMED in the request *)

Definition SP := mk_spec.
Definition AUTHZ := "AuthorizationService".
Definition DOCS := "DocumentService".
Definition IMMU := "ImmuService".

(* written from what each handler does (pkg/server/*.go) *)
Definition spec_table : list spec := [
  SP AUTHZ "CloseSession" ClSession false false;
  SP AUTHZ "KeepAlive" ClSession false false;
  SP AUTHZ "OpenSession" ClCred false false;

  SP DOCS "AddField" ClWrite true false;
  SP DOCS "AuditDocument" ClRead false false;
  SP DOCS "CountDocuments" ClRead false false;
  SP DOCS "CreateCollection" ClWrite true false;
  SP DOCS "CreateIndex" ClWrite true false;
  SP DOCS "DeleteCollection" ClWrite true false;
  SP DOCS "DeleteDocuments" ClWrite true false;
  SP DOCS "DeleteIndex" ClWrite true false;
  SP DOCS "GetCollection" ClRead false false;
  SP DOCS "GetCollections" ClRead false false;
  SP DOCS "InsertDocuments" ClWrite true false;
  SP DOCS "ProofDocument" ClRead false false;
  SP DOCS "RemoveField" ClWrite true false;
  SP DOCS "ReplaceDocuments" ClWrite true false;
  SP DOCS "SearchDocuments" ClRead false false;
  SP DOCS "UpdateCollection" ClWrite true false;

  SP IMMU "ChangePassword" ClAdminAny false false;
  SP IMMU "ChangePermission" ClAdminTgt false false;
  SP IMMU "ChangeSQLPrivileges" ClAdminTgt false false;
  SP IMMU "CloseSession" ClSession false false;
  SP IMMU "Commit" ClSession false false;          (* commits what TxSQLExec was allowed to stage *)
  SP IMMU "CompactIndex" ClAdminSel false false;
  SP IMMU "Count" ClRead false false;
  SP IMMU "CountAll" ClRead false false;
  SP IMMU "CreateDatabase" ClSysAdmin false false;
  SP IMMU "CreateDatabaseV2" ClSysAdmin false false;
  SP IMMU "CreateDatabaseWith" ClSysAdmin false false;
  SP IMMU "CreateUser" ClAdminTgt false false;
  SP IMMU "CurrentState" ClRead false false;
  SP IMMU "DatabaseHealth" ClRead false false;
  SP IMMU "DatabaseList" ClSession false false;    (* lists the databases the caller has permissions on *)
  SP IMMU "DatabaseListV2" ClSession false false;
  SP IMMU "Delete" ClWrite true false;
  SP IMMU "DeleteDatabase" ClAdminTgt false true;
  SP IMMU "DescribeTable" ClRead false false;
  SP IMMU "ExecAll" ClWrite true false;
  SP IMMU "FlushIndex" ClAdminSel false false;
  SP IMMU "Get" ClRead false false;
  SP IMMU "GetAll" ClRead false false;
  SP IMMU "GetDatabaseSettings" ClRead false false;
  SP IMMU "GetDatabaseSettingsV2" ClRead false false;
  SP IMMU "Health" ClPublic false false;
  SP IMMU "History" ClRead false false;
  SP IMMU "KeepAlive" ClSession false false;
  SP IMMU "ListTables" ClRead false false;
  SP IMMU "ListUsers" ClSession false false;       (* non-admins get their own record only *)
  SP IMMU "LoadDatabase" ClAdminTgt false true;
  SP IMMU "Login" ClCred false false;
  SP IMMU "Logout" ClSession false false;
  SP IMMU "NewTx" ClSession false false;
  SP IMMU "OpenSession" ClCred false false;
  SP IMMU "Rollback" ClSession false false;
  SP IMMU "SQLExec" ClWrite true false;
  SP IMMU "SQLQuery" ClRead false false;
  SP IMMU "Scan" ClRead false false;
  SP IMMU "ServerInfo" ClPublic false false;       (* version, uptime, aggregate counters *)
  SP IMMU "Set" ClWrite true false;
  SP IMMU "SetActiveUser" ClAdminAny false false;
  SP IMMU "SetReference" ClWrite true false;
  SP IMMU "TruncateDatabase" ClAdminTgt false true;
  SP IMMU "TxById" ClRead false false;
  SP IMMU "TxSQLExec" ClWrite true false;
  SP IMMU "TxSQLQuery" ClRead false false;
  SP IMMU "TxScan" ClRead false false;
  SP IMMU "UnarySQLQuery" ClRead false false;
  SP IMMU "UnloadDatabase" ClAdminTgt false true;
  SP IMMU "UpdateAuthConfig" ClSysAdmin false false;
  SP IMMU "UpdateDatabase" ClAdminTgt false true;
  SP IMMU "UpdateDatabaseV2" ClAdminTgt false true;
  SP IMMU "UpdateMTLSConfig" ClSysAdmin false false;
  SP IMMU "UseDatabase" ClSelect false false;
  SP IMMU "VerifiableGet" ClRead false false;
  SP IMMU "VerifiableSQLGet" ClRead false false;
  SP IMMU "VerifiableSet" ClWrite true false;
  SP IMMU "VerifiableSetReference" ClWrite true false;
  SP IMMU "VerifiableTxById" ClRead false false;
  SP IMMU "VerifiableZAdd" ClWrite true false;
  SP IMMU "ZAdd" ClWrite true false;
  SP IMMU "ZScan" ClRead false false;
  SP IMMU "exportTx" ClAdminSel false false;
  SP IMMU "replicateTx" ClAdminSel true false;     (* appends a transaction to the selected database *)
  SP IMMU "streamExecAll" ClWrite true false;
  SP IMMU "streamExportTx" ClAdminSel false false;
  SP IMMU "streamGet" ClRead false false;
  SP IMMU "streamHistory" ClRead false false;
  SP IMMU "streamScan" ClRead false false;
  SP IMMU "streamSet" ClWrite true false;
  SP IMMU "streamVerifiableGet" ClRead false false;
  SP IMMU "streamVerifiableSet" ClWrite true false;
  SP IMMU "streamZScan" ClRead false false
].

Definition find_spec (svc rpc : string) : option spec :=
  find (fun s => String.eqb (sp_svc s) svc && String.eqb (sp_rpc s) rpc) spec_table.
Definition spec_of (g : gate) : option spec := find_spec (gt_svc g) (gt_rpc g).
Definition class_of (g : gate) : option class := option_map sp_class (spec_of g).
Definition mutates (g : gate) : bool := match spec_of g with Some s => sp_mutates s | None => false end.
Definition dbmgmt (g : gate) : bool := match spec_of g with Some s => sp_dbmgmt s | None => false end.

(* ------------------------------------------------------------------ finite domains *)

Definition all_cfg := [CfgAuth; CfgMaint; CfgOpen].
Definition all_kind := [KSys; KAdm; KRW; KRO; KNone].
Definition all_hdr := [HNone; HSess; HTok; HTok2].
Definition all_dbsel := [DOwn; DOther; DSystem; DNone].
Definition all_sstate := [SValid; SExpired; SDeact; SReperm; SLowered; SRaised].

Definition all_cx : list cx :=
  flat_map (fun a => flat_map (fun b => flat_map (fun h => flat_map (fun d => flat_map (fun e =>
    map (fun f => mk_cx a b h d e f) all_sstate) all_dbsel) all_dbsel) all_hdr) all_kind) all_cfg.

(* ------------------------------------------------------------------ structural requirements
   (what "has table entries and a gate" means for each class) *)

(* a step that applies to every request when authentication is on *)
Definition cond_static_auth (d : cond) : bool :=
  match d with CNotMaint | CAuth | CPerRequest => true | _ => false end.
Definition applies_with_auth (s : gstep) : bool := forallb cond_static_auth (g_when s).

Definition is_db_gate_with_entry (s : gstep) : bool :=
  applies_with_auth s &&
  match g_atom s with ADb m => match assoc m methods_permissions with Some _ => true | None => false end | _ => false end.
Definition is_login_gate (s : gstep) : bool :=
  applies_with_auth s &&
  match g_atom s with AUser | ASess | ATx | ASessID => true | ADb _ => true | _ => false end.
Definition is_check (s : gstep) : bool :=
  applies_with_auth s && match g_atom s with ACheck ks => negb (existsb (fun k => match k with KOpaque => true | _ => false end) ks) | _ => false end.
Definition is_block (s : gstep) : bool :=
  applies_with_auth s && match g_atom s with ABlock => true | _ => false end.
Definition is_cred (s : gstep) : bool :=
  applies_with_auth s && match g_atom s with ACred => true | _ => false end.
Definition no_dynamic_gate (l : list gstep) : bool :=
  forallb (fun s => match g_atom s with ADbDyn => false | _ => true end) l.

Definition well_gated (cl : class) (l : list gstep) : bool :=
  no_dynamic_gate l &&
  match cl with
  | ClPublic => true
  | ClCred => existsb is_cred l
  | ClSelect => existsb is_check l
  | ClSession => existsb is_login_gate l
  | ClRead | ClWrite | ClAdminSel => existsb is_db_gate_with_entry l
  | ClAdminTgt | ClAdminAny | ClSysAdmin => existsb is_block l || (existsb is_login_gate l && existsb is_check l)
  end.

Definition rpc_ok (r : string * string * bool) : bool :=
  match r with (svc, rpc, _) =>
    match find_gate svc rpc, find_spec svc rpc with
    | Some g, Some s => negb (String.eqb (gt_handler g) "") && well_gated (sp_class s) (gt_steps g ++ sql_layer svc rpc)
    | _, _ => false
    end
  end.

Definition interceptors_ok : bool :=
  mem_str "SessionAuthInterceptor" unary_interceptors &&
  mem_str "KeepAliveSessionInterceptor" unary_interceptors &&
  mem_str "ServerUnaryInterceptor" unary_interceptors &&
  mem_str "KeepALiveSessionStreamInterceptor" stream_interceptors &&
  mem_str "ServerStreamInterceptor" stream_interceptors.
