(* C18: proofs about Auth/Policy.v over the GENERATED tables (gen/AuthTables.v, gen/Rpcs.v,
   gen/Gates.v).  The domain (RPC list x request contexts) is finite; each statement is first checked
   as a boolean sweep by vm_compute and then lifted to the quantified form with forallb_forall. *)
From Coq Require Import NArith String List Bool.
From V Require Import Auth.Policy.
Import ListNotations.
Open Scope string_scope.

(* ------------------------------------------------------------------ enumeration is complete *)

Lemma in_all_cx : forall c, In c all_cx.
Proof.
  intros [a b h d e f]. unfold all_cx.
  apply in_flat_map; exists a; split; [destruct a; cbn; tauto|].
  apply in_flat_map; exists b; split; [destruct b; cbn; tauto|].
  apply in_flat_map; exists h; split; [destruct h; cbn; tauto|].
  apply in_flat_map; exists d; split; [destruct d; cbn; tauto|].
  apply in_flat_map; exists e; split; [destruct e; cbn; tauto|].
  apply in_map. destruct f; cbn; tauto.
Qed.

Definition sweep (P : gate -> pgate -> cx -> bool) : bool :=
  forallb (fun g => let p := prep g in forallb (P g p) all_cx) gates.

Lemma sweep_all P : sweep P = true -> forall g c, In g gates -> P g (prep g) c = true.
Proof.
  unfold sweep. intros H g c Hg.
  rewrite forallb_forall in H. specialize (H g Hg). cbv zeta in H.
  rewrite forallb_forall in H. apply H, in_all_cx.
Qed.

Lemma find_gate_in svc rpc g : find_gate svc rpc = Some g -> In g gates.
Proof. unfold find_gate. intros H. apply find_some in H. tauto. Qed.

Definition is_class (g : gate) (cl : class) : bool :=
  match class_of g with Some c => class_eqb c cl | None => false end.

Lemma is_class_of g cl : class_of g = Some cl -> is_class g cl = true.
Proof. unfold is_class. intros ->. destruct cl; reflexivity. Qed.

Definition through (p : pgate) (c : cx) : bool := verdict_eqb (decide_p p c) Through.

Lemma through_of g c : decide g c = Through -> through (prep g) c = true.
Proof. unfold through, decide. intros ->. reflexivity. Qed.

Lemma not_through g c : through (prep g) c = false -> decide g c = Refused.
Proof. unfold through, decide. destruct (decide_p (prep g) c); [discriminate|reflexivity]. Qed.

Definition not_open (c : cx) : bool := negb (cfg_eqb (cx_cfg c) CfgOpen).
Lemma not_open_of c : cx_cfg c <> CfgOpen -> not_open c = true.
Proof. unfold not_open. destruct (cx_cfg c); cbn; congruence. Qed.

(* ------------------------------------------------------------------ 1. every RPC classified and gated *)

Lemma rpcs_ok : forallb rpc_ok rpcs = true.
Proof. vm_compute. reflexivity. Qed.

Lemma interceptors_present : interceptors_ok = true.
Proof. vm_compute. reflexivity. Qed.

Definition spec_row_live (s : spec) : bool :=
  existsb (fun r => match r with (svc, rpc, _) => String.eqb svc (sp_svc s) && String.eqb rpc (sp_rpc s) end) rpcs.
Lemma spec_rows_live : forallb spec_row_live spec_table = true.
Proof. vm_compute. reflexivity. Qed.

Lemma every_rpc_classified_and_gated :
  (forall svc rpc st, In (svc, rpc, st) rpcs ->
     exists g s, find_gate svc rpc = Some g /\ find_spec svc rpc = Some s /\
                 gt_handler g <> "" /\ well_gated (sp_class s) (full_steps g) = true) /\
  interceptors_ok = true /\
  (forall s, In s spec_table -> spec_row_live s = true).
Proof.
  split; [|split; [exact interceptors_present|]].
  - intros svc rpc st Hin.
    pose proof rpcs_ok as H. rewrite forallb_forall in H. specialize (H _ Hin).
    unfold rpc_ok in H.
    destruct (find_gate svc rpc) as [g|] eqn:Eg; [|discriminate].
    destruct (find_spec svc rpc) as [s|] eqn:Es; [|discriminate].
    apply andb_true_iff in H. destruct H as [Hh Hw].
    exists g, s. repeat split; auto.
    + intros E. rewrite E in Hh. discriminate.
    + unfold full_steps.
      assert (gt_svc g = svc /\ gt_rpc g = rpc) as [<- <-].
      { unfold find_gate in Eg. apply find_some in Eg. destruct Eg as [_ Eg].
        apply andb_true_iff in Eg. destruct Eg as [A B].
        apply String.eqb_eq in A. apply String.eqb_eq in B. auto. }
      exact Hw.
  - pose proof spec_rows_live as H. rewrite forallb_forall in H. exact H.
Qed.

(* ------------------------------------------------------------------ 2. write needs rw *)

Definition holds_rw_b (c : cx) : bool :=
  negb (hdr_eqb (cx_hdr c) HNone) && negb (dbsel_eqb (cx_sel c) DNone) &&
  (kind_eqb (cx_kind c) KSys || (dbsel_eqb (cx_sel c) DOwn && (kind_eqb (cx_kind c) KAdm || kind_eqb (cx_kind c) KRW))).

Definition holds_rw (c : cx) : Prop :=
  cx_hdr c <> HNone /\ cx_sel c <> DNone /\
  (cx_kind c = KSys \/ (cx_sel c = DOwn /\ (cx_kind c = KAdm \/ cx_kind c = KRW))).

Lemma holds_rw_ok c : holds_rw_b c = true -> holds_rw c.
Proof.
  destruct c as [cf k h s t st]. unfold holds_rw_b, holds_rw. cbn.
  destruct k, h, s; cbn; intros H; try discriminate; repeat split; try congruence; tauto.
Qed.

(* (the per-RPC part of every check is evaluated once per RPC, outside the sweep over contexts) *)
Definition chk_write (g : gate) (p : pgate) : cx -> bool :=
  if is_class g ClWrite then (fun c => negb (not_open c) || negb (through p c) || holds_rw_b c) else (fun _ => true).

Lemma write_sweep : sweep chk_write = true.
Proof. vm_compute. reflexivity. Qed.

Lemma write_requires_rw :
  forall g c, In g gates -> class_of g = Some ClWrite -> cx_cfg c <> CfgOpen ->
              decide g c = Through -> holds_rw c.
Proof.
  intros g c Hg Hc Ho Hd. pose proof (sweep_all _ write_sweep g c Hg) as H.
  unfold chk_write in H. rewrite (is_class_of _ _ Hc) in H. cbv beta in H.
  rewrite (not_open_of _ Ho), (through_of _ _ Hd) in H. apply holds_rw_ok. exact H.
Qed.

Example write_premises_satisfiable :
  exists g c, In g gates /\ class_of g = Some ClWrite /\ cx_cfg c <> CfgOpen /\ decide g c = Through.
Proof.
  eexists. exists (mk_cx CfgAuth KRW HSess DOwn DOwn SValid).
  split; [apply (find_gate_in "ImmuService" "Set"); vm_compute; reflexivity|].
  split; [vm_compute; reflexivity|]. split; [discriminate|vm_compute; reflexivity].
Qed.

(* ------------------------------------------------------------------ 3. read needs r *)

Definition holds_r_b (c : cx) : bool :=
  negb (hdr_eqb (cx_hdr c) HNone) && negb (dbsel_eqb (cx_sel c) DNone) &&
  (kind_eqb (cx_kind c) KSys ||
   (dbsel_eqb (cx_sel c) DOwn && (kind_eqb (cx_kind c) KAdm || kind_eqb (cx_kind c) KRW || kind_eqb (cx_kind c) KRO))).

Definition holds_r (c : cx) : Prop :=
  cx_hdr c <> HNone /\ cx_sel c <> DNone /\
  (cx_kind c = KSys \/ (cx_sel c = DOwn /\ (cx_kind c = KAdm \/ cx_kind c = KRW \/ cx_kind c = KRO))).

Lemma holds_r_ok c : holds_r_b c = true -> holds_r c.
Proof.
  destruct c as [cf k h s t st]. unfold holds_r_b, holds_r. cbn.
  destruct k, h, s; cbn; intros H; try discriminate; repeat split; try congruence; tauto.
Qed.

Definition chk_read (g : gate) (p : pgate) : cx -> bool :=
  if is_class g ClRead then (fun c => negb (not_open c) || negb (through p c) || holds_r_b c) else (fun _ => true).

Lemma read_sweep : sweep chk_read = true.
Proof. vm_compute. reflexivity. Qed.

Lemma read_requires_r :
  forall g c, In g gates -> class_of g = Some ClRead -> cx_cfg c <> CfgOpen ->
              decide g c = Through -> holds_r c.
Proof.
  intros g c Hg Hc Ho Hd. pose proof (sweep_all _ read_sweep g c Hg) as H.
  unfold chk_read in H. rewrite (is_class_of _ _ Hc) in H. cbv beta in H.
  rewrite (not_open_of _ Ho), (through_of _ _ Hd) in H. apply holds_r_ok. exact H.
Qed.

Example read_premises_satisfiable :
  exists g c, In g gates /\ class_of g = Some ClRead /\ cx_cfg c <> CfgOpen /\ decide g c = Through.
Proof.
  eexists. exists (mk_cx CfgAuth KRO HTok DOwn DOwn SValid).
  split; [apply (find_gate_in "ImmuService" "Get"); vm_compute; reflexivity|].
  split; [vm_compute; reflexivity|]. split; [discriminate|vm_compute; reflexivity].
Qed.

(* ------------------------------------------------------------------ 4. admin needs admin *)

Definition holds_admin_b (cl : class) (c : cx) : bool :=
  negb (hdr_eqb (cx_hdr c) HNone) &&
  match cl with
  | ClAdminSel => kind_eqb (cx_kind c) KSys || (dbsel_eqb (cx_sel c) DOwn && kind_eqb (cx_kind c) KAdm)
  | ClAdminTgt => kind_eqb (cx_kind c) KSys || (dbsel_eqb (cx_tgt c) DOwn && kind_eqb (cx_kind c) KAdm)
  | ClAdminAny => kind_eqb (cx_kind c) KSys || kind_eqb (cx_kind c) KAdm
  | ClSysAdmin => kind_eqb (cx_kind c) KSys
  | _ => true
  end.

Definition holds_admin (cl : class) (c : cx) : Prop :=
  cx_hdr c <> HNone /\
  match cl with
  | ClAdminSel => cx_kind c = KSys \/ (cx_sel c = DOwn /\ cx_kind c = KAdm)
  | ClAdminTgt => cx_kind c = KSys \/ (cx_tgt c = DOwn /\ cx_kind c = KAdm)
  | ClAdminAny => cx_kind c = KSys \/ cx_kind c = KAdm
  | ClSysAdmin => cx_kind c = KSys
  | _ => True
  end.

Definition is_admin_class (cl : class) : bool :=
  match cl with ClAdminSel | ClAdminTgt | ClAdminAny | ClSysAdmin => true | _ => false end.

Lemma holds_admin_ok cl c : holds_admin_b cl c = true -> holds_admin cl c.
Proof.
  destruct c as [cf k h s t st]. unfold holds_admin_b, holds_admin. cbn.
  destruct cl, k, h, s, t; cbn; intros H; try discriminate; split; try congruence; tauto.
Qed.

Definition chk_admin (g : gate) (p : pgate) : cx -> bool :=
  match class_of g with
  | Some cl => if is_admin_class cl then (fun c => negb (not_open c) || negb (through p c) || holds_admin_b cl c)
               else (fun _ => true)
  | None => (fun _ => true)
  end.

Lemma admin_sweep : sweep chk_admin = true.
Proof. vm_compute. reflexivity. Qed.

Lemma admin_requires_admin :
  forall g c cl, In g gates -> class_of g = Some cl -> is_admin_class cl = true ->
                 cx_cfg c <> CfgOpen -> decide g c = Through -> holds_admin cl c.
Proof.
  intros g c cl Hg Hc Ha Ho Hd. pose proof (sweep_all _ admin_sweep g c Hg) as H.
  unfold chk_admin in H. rewrite Hc, Ha in H. cbv beta in H.
  rewrite (not_open_of _ Ho), (through_of _ _ Hd) in H. apply holds_admin_ok. exact H.
Qed.

Example admin_premises_satisfiable :
  exists g c cl, In g gates /\ class_of g = Some cl /\ is_admin_class cl = true /\
                 cx_cfg c <> CfgOpen /\ decide g c = Through.
Proof.
  eexists. exists (mk_cx CfgAuth KAdm HSess DOwn DOwn SValid), ClAdminTgt.
  split; [apply (find_gate_in "ImmuService" "CreateUser"); vm_compute; reflexivity|].
  split; [vm_compute; reflexivity|]. split; [reflexivity|]. split; [discriminate|vm_compute; reflexivity].
Qed.

(* ------------------------------------------------------------------ 5. invalid sessions refused *)

(* the credential does not (or no longer) authenticate the request *)
Definition invalid_b (c : cx) : bool := hdr_eqb (cx_hdr c) HNone || negb (sstate_eqb (cx_st c) SValid).
Definition needs_login (cl : class) : bool := match cl with ClPublic | ClCred => false | _ => true end.
(* a login token of a user with a second live login, after deactivation / permission change *)
Definition stale_second_login (c : cx) : bool :=
  hdr_eqb (cx_hdr c) HTok2 && (sstate_eqb (cx_st c) SDeact || permission_changed (cx_st c)).

Definition chk_invalid_partial (g : gate) (p : pgate) : cx -> bool :=
  match class_of g with
  | Some cl => if needs_login cl
               then (fun c => negb (cfg_eqb (cx_cfg c) CfgAuth) || negb (invalid_b c) || stale_second_login c || negb (through p c))
               else (fun _ => true)
  | None => (fun _ => true)
  end.

Lemma invalid_sweep : sweep chk_invalid_partial = true.
Proof. vm_compute. reflexivity. Qed.

Lemma invalid_session_refused_partial :
  forall g c cl, In g gates -> class_of g = Some cl -> needs_login cl = true ->
                 cx_cfg c = CfgAuth -> (cx_hdr c = HNone \/ cx_st c <> SValid) ->
                 stale_second_login c = false ->
                 decide g c = Refused.
Proof.
  intros g c cl Hg Hc Hn Ho Hi Hs. pose proof (sweep_all _ invalid_sweep g c Hg) as H.
  unfold chk_invalid_partial in H. rewrite Hc, Hn in H. cbv beta in H. rewrite Ho, Hs in H.
  assert (invalid_b c = true) as Hib.
  { unfold invalid_b. destruct Hi as [-> | Hi]; [reflexivity|].
    destruct (cx_st c); try congruence; apply orb_true_r. }
  rewrite Hib in H. cbn in H. apply not_through. apply negb_true_iff. exact H.
Qed.

Example invalid_premises_satisfiable :
  exists g c cl, In g gates /\ class_of g = Some cl /\ needs_login cl = true /\ cx_cfg c = CfgAuth /\
                 (cx_hdr c = HNone \/ cx_st c <> SValid) /\ stale_second_login c = false.
Proof.
  eexists. exists (mk_cx CfgAuth KRW HSess DOwn DOwn SExpired), ClWrite.
  split; [apply (find_gate_in "ImmuService" "Set"); vm_compute; reflexivity|].
  split; [vm_compute; reflexivity|]. repeat split; auto. right; discriminate.
Qed.

(* the full statement fails on the code as it stands: Set by a deactivated read-write user whose
   name still has a second login in the logged-in map *)
Lemma invalid_session_refused_refuted :
  exists g c cl, In g gates /\ class_of g = Some cl /\ needs_login cl = true /\ cx_cfg c = CfgAuth /\
                 cx_st c = SDeact /\ decide g c = Through.
Proof.
  eexists. exists (mk_cx CfgAuth KRW HTok2 DOwn DOwn SDeact), ClWrite.
  split; [apply (find_gate_in "ImmuService" "Set"); vm_compute; reflexivity|].
  split; [vm_compute; reflexivity|]. repeat split; vm_compute; reflexivity.
Qed.

(* deactivated users cannot obtain a new credential *)
Definition chk_cred (g : gate) (p : pgate) : cx -> bool :=
  if is_class g ClCred
  then (fun c => negb (cfg_eqb (cx_cfg c) CfgAuth) || negb (sstate_eqb (cx_st c) SDeact) || negb (through p c))
  else (fun _ => true).
Lemma cred_sweep : sweep chk_cred = true.
Proof. vm_compute. reflexivity. Qed.

Lemma deactivated_user_cannot_login :
  forall g c, In g gates -> class_of g = Some ClCred -> cx_cfg c = CfgAuth -> cx_st c = SDeact ->
              decide g c = Refused.
Proof.
  intros g c Hg Hc Ho Hs. pose proof (sweep_all _ cred_sweep g c Hg) as H.
  unfold chk_cred in H. rewrite (is_class_of _ _ Hc) in H. cbv beta in H. rewrite Ho, Hs in H. cbn in H.
  apply not_through. apply negb_true_iff. exact H.
Qed.

(* selecting a database needs some permission on it: UseDatabase judges by the user record of the
   credential, OpenSession by the record as it is now (it authenticates afresh) *)
Definition judged_kind (g : gate) (c : cx) : kind :=
  if is_class g ClCred then kind_now (cx_kind c) (cx_st c) else cx_kind c.
Definition holds_any_b (k : kind) (c : cx) : bool :=
  kind_eqb k KSys || (dbsel_eqb (cx_tgt c) DOwn && negb (kind_eqb k KNone)).
Definition selects (g : gate) : bool :=
  (is_class g ClSelect || is_class g ClCred) && negb (String.eqb (gt_rpc g) "Login").
Definition chk_select (g : gate) (p : pgate) : cx -> bool :=
  if selects g
  then (let cr := is_class g ClCred in
        fun c => negb (cfg_eqb (cx_cfg c) CfgAuth) || negb (through p c) ||
                 holds_any_b (if cr then kind_now (cx_kind c) (cx_st c) else cx_kind c) c)
  else (fun _ => true).
Lemma select_sweep : sweep chk_select = true.
Proof. vm_compute. reflexivity. Qed.

Lemma select_requires_permission :
  forall g c, In g gates -> (class_of g = Some ClSelect \/ class_of g = Some ClCred) -> gt_rpc g <> "Login" ->
              cx_cfg c = CfgAuth -> decide g c = Through ->
              judged_kind g c = KSys \/ (cx_tgt c = DOwn /\ judged_kind g c <> KNone).
Proof.
  intros g c Hg Hc Hl Ho Hd. pose proof (sweep_all _ select_sweep g c Hg) as H.
  unfold chk_select in H.
  assert (selects g = true) as Hsel.
  { unfold selects. apply String.eqb_neq in Hl. rewrite Hl.
    destruct Hc as [Hc|Hc]; rewrite (is_class_of _ _ Hc); cbn; try rewrite orb_true_r; reflexivity. }
  rewrite Hsel in H. cbv beta zeta in H. rewrite Ho, (through_of _ _ Hd) in H.
  fold (judged_kind g c) in H. cbn [cfg_eqb negb orb] in H.
  unfold holds_any_b in H. destruct (judged_kind g c), (cx_tgt c); cbn in H; try discriminate;
    try (left; reflexivity); right; split; congruence.
Qed.

(* ------------------------------------------------------------------ 6. the system database *)

Definition on_system (c : cx) : bool := dbsel_eqb (cx_sel c) DSystem.

(* mutating RPCs that reach their operation body with the system database selected, in some
   configuration with authentication or maintenance mode on *)
Definition reaches_system (g : gate) : bool :=
  mutates g && (let p := prep g in existsb (fun c => not_open c && on_system c && through p c) all_cx).

Definition system_write_paths : list (string * string) :=
  map (fun g => (gt_svc g, gt_rpc g)) (filter reaches_system gates).

Definition known_system_write_paths : list (string * string) :=
  [("DocumentService", "AddField"); ("DocumentService", "CreateCollection"); ("DocumentService", "CreateIndex");
   ("DocumentService", "DeleteCollection"); ("DocumentService", "DeleteDocuments"); ("DocumentService", "DeleteIndex");
   ("DocumentService", "InsertDocuments"); ("DocumentService", "RemoveField"); ("DocumentService", "ReplaceDocuments");
   ("DocumentService", "UpdateCollection"); ("ImmuService", "TxSQLExec"); ("ImmuService", "replicateTx")].

Lemma system_write_paths_exactly : system_write_paths = known_system_write_paths.
Proof. vm_compute. reflexivity. Qed.

Definition in_known (g : gate) : bool :=
  existsb (fun r => String.eqb (fst r) (gt_svc g) && String.eqb (snd r) (gt_rpc g)) known_system_write_paths.

Definition chk_system_partial (g : gate) (p : pgate) : cx -> bool :=
  if mutates g && negb (in_known g)
  then (fun c => negb (not_open c) || negb (on_system c) || negb (through p c))
  else (fun _ => true).
Lemma system_sweep : sweep chk_system_partial = true.
Proof. vm_compute. reflexivity. Qed.

Lemma systemdb_not_writable_partial :
  forall g c, In g gates -> mutates g = true -> in_known g = false ->
              cx_cfg c <> CfgOpen -> cx_sel c = DSystem -> decide g c = Refused.
Proof.
  intros g c Hg Hm Hk Ho Hs. pose proof (sweep_all _ system_sweep g c Hg) as H.
  unfold chk_system_partial in H. rewrite Hm, Hk in H. cbv beta iota in H. cbn [andb negb] in H.
  rewrite (not_open_of _ Ho) in H.
  unfold on_system in H. rewrite Hs in H. cbn in H. apply not_through. apply negb_true_iff. exact H.
Qed.

Example system_partial_premises_satisfiable :
  exists g c, In g gates /\ mutates g = true /\ in_known g = false /\ cx_cfg c <> CfgOpen /\ cx_sel c = DSystem.
Proof.
  eexists. exists (mk_cx CfgAuth KSys HSess DSystem DSystem SValid).
  split; [apply (find_gate_in "ImmuService" "Set"); vm_compute; reflexivity|].
  repeat split; try (vm_compute; reflexivity). discriminate.
Qed.

(* the full statement fails: a sysadmin session on systemdb reaches CreateCollection's body *)
Lemma systemdb_not_writable_refuted :
  exists g c, In g gates /\ mutates g = true /\ cx_cfg c = CfgAuth /\ cx_sel c = DSystem /\ decide g c = Through.
Proof.
  eexists. exists (mk_cx CfgAuth KSys HSess DSystem DSystem SValid).
  split; [apply (find_gate_in "DocumentService" "CreateCollection"); vm_compute; reflexivity|].
  repeat split; vm_compute; reflexivity.
Qed.

(* database life-cycle RPCs never operate on the system database *)
Definition chk_dbmgmt (g : gate) (p : pgate) : cx -> bool :=
  if dbmgmt g then (fun c => negb (dbsel_eqb (cx_tgt c) DSystem) || negb (through p c)) else (fun _ => true).
Lemma dbmgmt_sweep : sweep chk_dbmgmt = true.
Proof. vm_compute. reflexivity. Qed.

Lemma systemdb_not_manageable :
  forall g c, In g gates -> dbmgmt g = true -> cx_tgt c = DSystem -> decide g c = Refused.
Proof.
  intros g c Hg Hm Hs. pose proof (sweep_all _ dbmgmt_sweep g c Hg) as H.
  unfold chk_dbmgmt in H. rewrite Hm in H. cbv beta in H. rewrite Hs in H. cbn in H. apply not_through. apply negb_true_iff. exact H.
Qed.

(* ------------------------------------------------------------------ 7. streams serving several requests *)

Lemma multi_request_streams_gated_per_request :
  forallb (fun g => negb (multi_request g) || per_request g) gates = true.
Proof. vm_compute. reflexivity. Qed.

Lemma stream_requests_reauthorized :
  forall g c_open c_now, In g gates -> multi_request g = true ->
    per_request g = true /\ decide_next g c_open c_now = decide g c_now.
Proof.
  intros g c0 c Hg Hm. pose proof multi_request_streams_gated_per_request as H.
  rewrite forallb_forall in H. specialize (H g Hg). rewrite Hm in H. cbn in H.
  split; [exact H|]. unfold decide_next. rewrite H. reflexivity.
Qed.

Example multi_request_premises_satisfiable : exists g, In g gates /\ multi_request g = true.
Proof.
  eexists. split; [apply (find_gate_in "ImmuService" "streamExportTx"); vm_compute; reflexivity|].
  vm_compute. reflexivity.
Qed.
