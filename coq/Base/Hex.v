(* hex strings -> bytes, used by the correspondence case files written by the Go harness *)
From V Require Export Base.Bytes.
From Coq Require Import String Ascii.

Definition hexval (c : ascii) : N :=
  let n := N_of_ascii c in
  if (48 <=? n) && (n <=? 57) then n - 48
  else if (97 <=? n) && (n <=? 102) then n - 87
  else 0.

Fixpoint hex (s : string) : bytes :=
  match s with
  | String a (String b r) => (hexval a * 16 + hexval b) :: hex r
  | _ => []
  end.

Fixpoint list_eqb {A} (eqb : A -> A -> bool) (a b : list A) : bool :=
  match a, b with
  | [], [] => true
  | x :: a', y :: b' => eqb x y && list_eqb eqb a' b'
  | _, _ => false
  end.
Definition bytes_eqb := list_eqb N.eqb.

Definition opt_eqb {A} (eqb : A -> A -> bool) (a b : option A) : bool :=
  match a, b with
  | None, None => true
  | Some x, Some y => eqb x y
  | _, _ => false
  end.

(* outcome comparison: payload compared on Ok, error classes deliberately NOT compared
   (the properties speak of "an error", never of which one) *)
Definition res_eqb {A} (eqb : A -> A -> bool) (a b : res A) : bool :=
  match a, b with
  | Ok x, Ok y => eqb x y
  | Err _, Err _ => true
  | Panic, Panic => true
  | _, _ => false
  end.

(* indices of the cases on which model and implementation disagree *)
Fixpoint mismatches {C} (ok : C -> bool) (idx : N) (cs : list C) : list N :=
  match cs with
  | [] => []
  | c :: r => if ok c then mismatches ok (idx + 1) r else idx :: mismatches ok (idx + 1) r
  end.
