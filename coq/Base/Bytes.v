(* Bytes as lists of N below 256; big-endian integers; Go slice primitives;
   lexicographic comparison (Go's bytes.Compare). *)
From V Require Export Base.Res.
From Coq Require Import ZifyN ZifyNat ZifyBool.
Ltac Zify.zify_post_hook ::= Z.div_mod_to_equations.

Definition bytes := list N.
Definition byte_ok (b : N) : bool := b <? 256.
Definition bytes_ok (l : bytes) : bool := forallb byte_ok l.
Definition len (l : bytes) : N := N.of_nat (length l).

Lemma bytes_ok_app a b : bytes_ok (a ++ b) = bytes_ok a && bytes_ok b.
Proof. apply forallb_app. Qed.

Lemma bytes_ok_firstn n l : bytes_ok l = true -> bytes_ok (firstn n l) = true.
Proof.
  revert n; induction l as [|x l IH]; intros [|n]; simpl; auto.
  intros H; apply andb_prop in H as [H1 H2]; rewrite H1; simpl; auto.
Qed.

Lemma bytes_ok_skipn n l : bytes_ok l = true -> bytes_ok (skipn n l) = true.
Proof.
  revert n; induction l as [|x l IH]; intros [|n]; simpl; auto.
  intros H; apply andb_prop in H as [H1 H2]; auto.
Qed.

(* ---- big endian ---- *)
Fixpoint be_enc (k : nat) (v : N) : bytes :=
  match k with
  | O => []
  | S k' => be_enc k' (v / 256) ++ [v mod 256]
  end.

Definition be_dec (l : bytes) : N := fold_left (fun acc b => acc * 256 + b) l 0.

Lemma be_enc_length k v : length (be_enc k v) = k.
Proof. revert v; induction k as [|k IH]; intros v; simpl; auto. rewrite app_length, IH; simpl; lia. Qed.

Lemma be_enc_ok k v : bytes_ok (be_enc k v) = true.
Proof.
  revert v; induction k as [|k IH]; intros v; simpl; auto.
  rewrite bytes_ok_app, IH; simpl. unfold byte_ok.
  assert (v mod 256 < 256) by (apply N.mod_lt; lia).
  destruct (N.ltb_spec (v mod 256) 256); auto; lia.
Qed.

Lemma fold_be_app acc a b :
  fold_left (fun acc b => acc * 256 + b) (a ++ b) acc =
  fold_left (fun acc b => acc * 256 + b) b (fold_left (fun acc b => acc * 256 + b) a acc).
Proof. apply fold_left_app. Qed.

Lemma be_dec_app a b : be_dec (a ++ [b]) = be_dec a * 256 + b.
Proof. unfold be_dec; rewrite fold_left_app; reflexivity. Qed.

Lemma be_dec_enc k v : be_dec (be_enc k v) = v mod 256 ^ N.of_nat k.
Proof.
  revert v; induction k as [|k IH]; intros v.
  - simpl. rewrite N.mod_1_r. reflexivity.
  - cbn [be_enc]. rewrite be_dec_app, IH.
    rewrite Nnat.Nat2N.inj_succ, N.pow_succ_r'.
    rewrite N.mod_mul_r by (try apply N.pow_nonzero; lia).
    lia.
Qed.

Lemma be_dec_enc_small k v : v < 256 ^ N.of_nat k -> be_dec (be_enc k v) = v.
Proof. intros H; rewrite be_dec_enc; apply N.mod_small; exact H. Qed.

Lemma be_dec_bound l : bytes_ok l = true -> be_dec l < 256 ^ len l.
Proof.
  unfold len. induction l as [|x l IH] using rev_ind; intros H.
  - reflexivity.
  - rewrite bytes_ok_app in H; apply andb_prop in H as [H1 H2]; simpl in H2.
    rewrite andb_true_r in H2; unfold byte_ok in H2; apply N.ltb_lt in H2.
    rewrite be_dec_app, app_length; simpl length.
    replace (N.of_nat (length l + 1)) with (N.succ (N.of_nat (length l))) by lia.
    rewrite N.pow_succ_r'. specialize (IH H1). lia.
Qed.

Lemma be_enc_dec l : bytes_ok l = true -> be_enc (length l) (be_dec l) = l.
Proof.
  induction l as [|x l IH] using rev_ind; intros H; [reflexivity|].
  rewrite bytes_ok_app in H; apply andb_prop in H as [H1 H2]; simpl in H2.
  rewrite andb_true_r in H2; unfold byte_ok in H2; apply N.ltb_lt in H2.
  rewrite app_length; simpl length. rewrite Nat.add_1_r. cbn [be_enc].
  rewrite be_dec_app.
  assert (E1: (be_dec l * 256 + x) / 256 = be_dec l) by lia.
  assert (E2: (be_dec l * 256 + x) mod 256 = x) by lia.
  rewrite E1, E2.
  rewrite IH by exact H1. reflexivity.
Qed.

Lemma be_enc_inj k v w :
  v < 256 ^ N.of_nat k -> w < 256 ^ N.of_nat k -> be_enc k v = be_enc k w -> v = w.
Proof.
  intros Hv Hw H. apply (f_equal be_dec) in H.
  rewrite !be_dec_enc_small in H; auto.
Qed.

(* ---- Go slice primitives; every out-of-range access is Panic ---- *)
Definition take (n : N) (l : bytes) : bytes := firstn (N.to_nat n) l.
Definition drop (n : N) (l : bytes) : bytes := skipn (N.to_nat n) l.

(* b[i] *)
Definition at_ (b : bytes) (i : N) : res N :=
  match nth_error b (N.to_nat i) with Some x => Ok x | None => Panic end.
(* b[i:] *)
Definition from_ (b : bytes) (i : N) : res bytes :=
  if i <=? len b then Ok (drop i b) else Panic.
(* b[i:j] on a slice whose capacity equals its length *)
Definition sub_ (b : bytes) (i j : N) : res bytes :=
  if (i <=? j) && (j <=? len b) then Ok (take (j - i) (drop i b)) else Panic.
(* binary.BigEndian.UintNN(b): reads the first k bytes, panics when shorter *)
Definition uint_ (k : nat) (b : bytes) : res N :=
  if N.of_nat k <=? len b then Ok (be_dec (firstn k b)) else Panic.

Lemma len_app a b : len (a ++ b) = len a + len b.
Proof. unfold len; rewrite app_length; lia. Qed.
Lemma len_take n l : len (take n l) = N.min n (len l).
Proof. unfold len, take; rewrite firstn_length; lia. Qed.
Lemma len_drop n l : len (drop n l) = len l - n.
Proof. unfold len, drop; rewrite skipn_length; lia. Qed.
Lemma len_be_enc k v : len (be_enc k v) = N.of_nat k.
Proof. unfold len; rewrite be_enc_length; reflexivity. Qed.
Lemma take_app_exact a b : take (len a) (a ++ b) = a.
Proof.
  unfold take, len. rewrite Nnat.Nat2N.id.
  rewrite firstn_app, Nat.sub_diag, firstn_all; simpl; apply app_nil_r.
Qed.
Lemma drop_app_exact a b : drop (len a) (a ++ b) = b.
Proof.
  unfold drop, len. rewrite Nnat.Nat2N.id.
  rewrite skipn_app, Nat.sub_diag, skipn_all; reflexivity.
Qed.
Lemma drop_0 l : drop 0 l = l. Proof. reflexivity. Qed.
Lemma take_all l : take (len l) l = l.
Proof. unfold take, len; rewrite Nnat.Nat2N.id; apply firstn_all. Qed.

(* ---- lexicographic comparison = Go bytes.Compare ---- *)
Fixpoint bcmp (a b : bytes) : comparison :=
  match a, b with
  | [], [] => Eq
  | [], _ :: _ => Lt
  | _ :: _, [] => Gt
  | x :: a', y :: b' =>
      match N.compare x y with Eq => bcmp a' b' | c => c end
  end.

Lemma bcmp_refl a : bcmp a a = Eq.
Proof. induction a as [|x a IH]; simpl; auto. rewrite N.compare_refl; exact IH. Qed.

Lemma bcmp_eq a b : bcmp a b = Eq -> a = b.
Proof.
  revert b; induction a as [|x a IH]; intros [|y b]; simpl; try discriminate; auto.
  destruct (N.compare_spec x y) as [E|L|G]; try discriminate. intros Hc; f_equal; auto.
Qed.

Lemma bcmp_antisym a b : bcmp b a = CompOpp (bcmp a b).
Proof.
  revert b; induction a as [|x a IH]; intros [|y b]; simpl; auto.
  rewrite (N.compare_antisym x y). destruct (N.compare x y); simpl; auto.
Qed.

Lemma bcmp_app_same p a b : bcmp (p ++ a) (p ++ b) = bcmp a b.
Proof. induction p as [|x p IH]; simpl; auto. rewrite N.compare_refl; exact IH. Qed.

(* equal-length heads decide the comparison unless equal *)
Lemma bcmp_app_eqlen a a' b b' :
  length a = length b ->
  bcmp (a ++ a') (b ++ b') = match bcmp a b with Eq => bcmp a' b' | c => c end.
Proof.
  revert b; induction a as [|x a IH]; intros [|y b] H; simpl in *; try discriminate; auto.
  destruct (N.compare x y); auto.
Qed.

Lemma bcmp_trans_lt a b c : bcmp a b = Lt -> bcmp b c = Lt -> bcmp a c = Lt.
Proof.
  revert b c; induction a as [|x a IH]; intros [|y b] [|z c]; simpl; try discriminate; auto.
  destruct (N.compare_spec x y) as [E1|L1|G1]; try discriminate;
  destruct (N.compare_spec y z) as [E2|L2|G2]; try discriminate; intros H1 H2.
  - subst. rewrite N.compare_refl. eauto.
  - subst. apply N.compare_lt_iff in L2. rewrite L2. reflexivity.
  - subst. apply N.compare_lt_iff in L1. rewrite L1. reflexivity.
  - assert (Hxz : x < z) by lia. apply N.compare_lt_iff in Hxz. rewrite Hxz. reflexivity.
Qed.

(* numeric order of fixed-width big-endian integers = byte order *)
Lemma bcmp_be_enc k v w :
  v < 256 ^ N.of_nat k -> w < 256 ^ N.of_nat k ->
  bcmp (be_enc k v) (be_enc k w) = N.compare v w.
Proof.
  revert v w; induction k as [|k IH]; intros v w Hv Hw.
  - simpl in *. assert (v = 0) by lia. assert (w = 0) by lia. subst. reflexivity.
  - cbn [be_enc]. rewrite bcmp_app_eqlen by (rewrite !be_enc_length; reflexivity).
    rewrite Nnat.Nat2N.inj_succ, N.pow_succ_r' in Hv, Hw.
    rewrite IH by (apply N.div_lt_upper_bound; lia).
    simpl.
    destruct (N.compare_spec (v / 256) (w / 256)) as [E|L|G].
    + destruct (N.compare_spec (v mod 256) (w mod 256)); symmetry.
      * apply N.compare_eq_iff. lia.
      * apply N.compare_lt_iff. lia.
      * apply N.compare_gt_iff. lia.
    + symmetry; apply N.compare_lt_iff. lia.
    + symmetry; apply N.compare_gt_iff. lia.
Qed.
