(* Outcome of a Go function that can return an error or hit a runtime panic. *)
From Coq Require Export List NArith ZArith Bool Lia.
Export ListNotations.
Open Scope N_scope.

Inductive res (A : Type) : Type :=
| Ok (a : A)
| Err (e : N)      (* a returned Go error; e = error class *)
| Panic.           (* a Go runtime panic (index / slice out of range, nil deref) *)
Arguments Ok {A} a.
Arguments Err {A} e.
Arguments Panic {A}.

Definition bind {A B} (r : res A) (f : A -> res B) : res B :=
  match r with Ok a => f a | Err e => Err e | Panic => Panic end.

Notation "'do' x <- r ; k" := (bind r (fun x => k))
  (at level 200, x pattern, r at level 100, k at level 200, right associativity).

Definition is_panic {A} (r : res A) : bool :=
  match r with Panic => true | _ => false end.
Definition is_ok {A} (r : res A) : bool :=
  match r with Ok _ => true | _ => false end.

Lemma bind_ok {A B} (r : res A) (f : A -> res B) b :
  bind r f = Ok b -> exists a, r = Ok a /\ f a = Ok b.
Proof. destruct r; simpl; intros H; try discriminate; eauto. Qed.

Lemma bind_not_panic {A B} (r : res A) (f : A -> res B) :
  r <> Panic -> (forall a, r = Ok a -> f a <> Panic) -> bind r f <> Panic.
Proof. destruct r; simpl; intros H1 H2; auto; congruence. Qed.

(* error classes shared by the store decoders *)
Definition EIllegalArguments : N := 1.
Definition ECorruptedData : N := 2.
Definition ENewerVersionOrCorrupted : N := 3.
Definition EIllegalTruncationArgument : N := 4.
Definition EOther : N := 99.
