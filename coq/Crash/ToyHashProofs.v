From V Require Import Crash.ToyHash.
Lemma Hc_len x : length (Hc x) = 32%nat.
Proof.
  unfold Hc. destruct (fold_left _ x (1, 0)) as [s1 s2].
  rewrite !app_length, !be_enc_length. reflexivity.
Qed.
