(* C03 — the write-ordering invariant of the commit protocol and its preservation by every step.
   Ghost state: h = the history of all precommitted transactions (records, offsets, Alh values),
   d = how many of them have their tx-log record fsynced. *)
From V Require Import Crash.Storage Crash.StorageProofs Crash.Protocol Crash.RecordProofs Crash.AhtProofs.
From Coq Require Import ZifyN ZifyNat ZifyBool Lia.

Section IP.
Variable H : bytes -> bytes.
Hypothesis H_len : forall x, length (H x) = 32%nat.

Notation chain := (chain H).
Notation step := (step H).
Notation alh0 := (alh0 H).
Notation chain_skipn := (RecordProofs.chain_skipn H H_len).
Notation chain_firstn := (RecordProofs.chain_firstn H H_len).
Notation chain_app := (RecordProofs.chain_app H H_len).
Notation chain_nth := (RecordProofs.chain_nth H H_len).
Notation chain_entries_len := (RecordProofs.chain_entries_len H H_len).
Notation rec_ok_alh_len := (RecordProofs.rec_ok_alh_len H H_len).

Definition dts (h : list trec) (d : N) : N := len (raws (firstn (N.to_nat d) h)).

(* the commit log between sync cycles: nothing pending but, after an open that found a partial last
   entry, the truncation that drops it *)
Definition cpre (o : N) (p : list pw) : Prop := p = [] \/ p = [PT o].

Record Inv (nv : nat) (s : st) (h : list trec) (d : N) : Prop := mkInv {
  v_cfg : c_prealloc (s_cfg s) = false /\ 0 < c_thld (s_cfg s);
  v_nv : length (vls s) = nv;
  v_chain : chain 0 alh0 0 h;
  v_plen : precommitted s = N.of_nat (length h);
  v_cd : committed s <= d /\ d <= precommitted s;
  v_ack : acked s <= committed s;
  v_pbuf : pbuf s = map pb_of (skipn (N.to_nat (committed s)) h);
  v_palh : palh s = last_alh alh0 h;
  v_pts : pts s = len (raws h);
  v_twf : wf (txl s);
  v_tdur : dts h d <= len (durable (txl s)) /\
           take (dts h d) (durable (txl s)) = raws (firstn (N.to_nat d) h) /\
           offs_ge (dts h d) (pending (txl s)) /\ dts h d <= bufoff (txl s);
  v_tview : pts s <= len (lview (txl s)) /\ take (pts s) (lview (txl s)) = raws h /\
            pts s <= f_offset (txl s);
  v_cwf : wf (cml s);
  v_cdur : 44 * committed s <= len (durable (cml s)) /\
           len (durable (cml s)) < 44 * committed s + 44 /\
           take (44 * committed s) (durable (cml s)) = entries (firstn (N.to_nat (committed s)) h);
  v_cph : match phase_ s with
          | PC t => t = precommitted s /\ d = precommitted s /\ committed s < precommitted s /\
                    pstream (44 * committed s) (fstream (cml s)) /\
                    concat_w (fstream (cml s)) = entries (skipn (N.to_nat (committed s)) h) /\
                    f_offset (cml s) = 44 * precommitted s
          | PV done => cpre (44 * committed s) (pending (cml s)) /\ buf (cml s) = [] /\ bufoff (cml s) = 44 * committed s /\
                       (NoDup done /\ Forall (fun v => (v < nv)%nat) done) /\ committed s < precommitted s
          | PIdle => cpre (44 * committed s) (pending (cml s)) /\ buf (cml s) = [] /\ bufoff (cml s) = 44 * committed s
          end;
  v_aht : AInv (c_thld (s_cfg s)) (aht_of s) /\ asize s <= precommitted s
}.

(* ---- small facts ---- *)
Lemma firstn_app_le {A} n (a b : list A) : (n <= length a)%nat -> firstn n (a ++ b) = firstn n a.
Proof. intros. rewrite firstn_app. replace (n - length a)%nat with 0%nat by lia. simpl. apply app_nil_r. Qed.

Lemma skipn_app_le {A} n (a b : list A) : (n <= length a)%nat -> skipn n (a ++ b) = skipn n a ++ b.
Proof. intros. rewrite skipn_app. replace (n - length a)%nat with 0%nat by lia. reflexivity. Qed.

Lemma last_alh_len pid pa off h : len pa = 32 -> chain pid pa off h -> len (last_alh pa h) = 32.
Proof.
  revert pid pa off; induction h as [|r h IH]; intros pid pa off Hp Hc; cbn [last_alh]; auto.
  cbn [RecordProofs.chain] in Hc. destruct Hc as (Hr & _ & _ & _ & Hc). eapply IH; eauto.
  apply rec_ok_alh_len; auto.
Qed.

Lemma alh0_len : len alh0 = 32.
Proof. apply H_len'; auto. Qed.

Lemma pbuf_entries_map l : pbuf_entries (map pb_of l) = entries l.
Proof.
  unfold pbuf_entries, entries. rewrite map_map. f_equal.
Qed.

Lemma lview_as_writes f : lview f = apply_writes (durable f) (fstream f).
Proof.
  unfold lview, fstream, os_view. rewrite apply_writes_app.
  destruct (buf f); simpl; [apply wr_nil|reflexivity].
Qed.

Lemma flushn_nobuf f n : buf f = [] -> f_flushn f n = f.
Proof. intros E. unfold f_flushn. rewrite E. unfold take. rewrite firstn_nil. reflexivity. Qed.

Lemma length_set_nth {A} (l : list A) i x : length (set_nth l i x) = length l.
Proof. revert i; induction l as [|y l IH]; intros [|i]; simpl; auto. Qed.

Lemma dts_app h r d : d <= N.of_nat (length h) -> dts (h ++ [r]) d = dts h d.
Proof. intros. unfold dts. rewrite firstn_app_le by lia. reflexivity. Qed.

Lemma dts_all h : dts h (N.of_nat (length h)) = len (raws h).
Proof. unfold dts. rewrite Nnat.Nat2N.id, firstn_all. reflexivity. Qed.

Lemma dts_le h d : dts h d <= len (raws h).
Proof.
  unfold dts. rewrite <- (firstn_skipn (N.to_nat d) h) at 2. rewrite raws_app, len_app. lia.
Qed.

Lemma entries_skipn_len pid pa off h n : chain pid pa off h -> (n <= length h)%nat ->
  len (entries (skipn n h)) = 44 * N.of_nat (length h - n).
Proof.
  intros Hc Hn. pose proof (chain_skipn pid pa off n h Hn Hc) as Hs.
  rewrite (chain_entries_len _ _ _ _ Hs). rewrite skipn_length. reflexivity.
Qed.

Lemma entries_firstn_len pid pa off h n : chain pid pa off h -> (n <= length h)%nat ->
  len (entries (firstn n h)) = 44 * N.of_nat n.
Proof.
  intros Hc Hn. pose proof (chain_firstn pid pa off n h Hc) as Hs.
  rewrite (chain_entries_len _ _ _ _ Hs). rewrite firstn_length_le by auto. reflexivity.
Qed.

(* ---- initial state ---- *)
Lemma Inv_init c nv : c_prealloc c = false -> 0 < c_thld c -> Inv nv (init H c nv) [] 0.
Proof.
  intros Hp Ht. unfold init. rewrite Hp.
  assert (W: wf f_empty) by apply wf_open.
  constructor; unfold precommitted, dts, AInv, aht_of;
    cbn [s_cfg vls txl cml ahd ahc committed pbuf palh pts acked phase_ asize alatest acnt length
         a_d a_c a_size a_latest a_cnt N.to_nat firstn skipn map];
    try (cbn; unfold cpre; repeat split; auto; try lia; try constructor; fail).
  apply repeat_length.
Qed.

(* ---- steps ---- *)
Ltac fold_p s :=
  repeat change (precommitted (mkSt _ _ _ _ _ _ (committed s) _ (pbuf s) _ _ _ _ _ _ _ _)) with (precommitted s) in *.
Ltac simp_st :=
  unfold aht_of, upd_files in *;
  cbn [s_cfg vls txl cml ahd ahc committed calh pbuf palh pts acked phase_ inflight asize alatest acnt
       a_d a_c a_size a_latest a_cnt] in *.

Ltac inv_fields I :=
  destruct I as [Icfg Inv_nv Ichain Iplen Icd Iack Ipbuf Ipalh Ipts Itwf Itdur Itview Icwf Icdur Icph Iaht].

Lemma step_OVal nv s h d v dd s' : Inv nv s h d -> step s (OVal v dd) = Ok s' -> Inv nv s' h d.
Proof.
  intros I E. unfold Protocol.step in E. destruct (nth_error (vls s) v) as [f|] eqn:En; [|discriminate].
  assert (s' = mkSt (s_cfg s) (txl s) (cml s) (set_nth (vls s) v (f_append f dd)) (ahd s) (ahc s)
                    (committed s) (calh s) (pbuf s) (palh s) (pts s) (acked s) (phase_ s)
                    (inflight s ++ [(N.of_nat v, f_offset f, len dd, H dd)]) (asize s) (alatest s) (acnt s))
    by (cbn in E; congruence).
  subst s'. inv_fields I.
  constructor; cbn [s_cfg vls txl cml ahd ahc committed pbuf palh pts acked phase_ asize alatest acnt]; auto.
  rewrite length_set_nth; auto.
Qed.

Lemma step_OSyncStart nv s h d s' : Inv nv s h d -> step s OSyncStart = Ok s' -> Inv nv s' h d.
Proof.
  intros I E. unfold Protocol.step in E.
  destruct (phase_ s) eqn:Ep; cbn [phase_idle andb] in E; try discriminate.
  destruct (N.eqb_spec (precommitted s) (committed s)) as [|Np]; cbn [negb] in E; [discriminate|].
  assert (s' = mkSt (s_cfg s) (txl s) (cml s) (vls s) (ahd s) (ahc s) (committed s) (calh s) (pbuf s)
                    (palh s) (pts s) (acked s) (PV []) (inflight s) (asize s) (alatest s) (acnt s)) by congruence.
  subst s'. inv_fields I. rewrite Ep in Icph.
  constructor; cbn [s_cfg vls txl cml ahd ahc committed pbuf palh pts acked phase_ asize alatest acnt]; auto.
  simp_st. fold_p s. destruct Icph as (A & B & C). repeat split; auto; try lia; constructor.
Qed.

Lemma step_OSyncV nv s h d v s' : Inv nv s h d -> step s (OSyncV v) = Ok s' -> Inv nv s' h d.
Proof.
  intros I E. unfold Protocol.step in E.
  destruct (phase_ s) as [|done|t] eqn:Ep; try discriminate.
  destruct (existsb (Nat.eqb v) done) eqn:Ex; [discriminate|].
  destruct (nth_error (vls s) v) as [g|] eqn:En; [|discriminate].
  assert (s' = mkSt (s_cfg s) (txl s) (cml s) (set_nth (vls s) v (f_sync g)) (ahd s) (ahc s) (committed s)
                    (calh s) (pbuf s) (palh s) (pts s) (acked s) (PV (v :: done)) (inflight s) (asize s)
                    (alatest s) (acnt s)) by congruence.
  subst s'. inv_fields I. rewrite Ep in Icph.
  constructor; cbn [s_cfg vls txl cml ahd ahc committed pbuf palh pts acked phase_ asize alatest acnt]; auto.
  - rewrite length_set_nth; auto.
  - destruct Icph as (A & B & C & (D1 & D2) & E'). repeat split; auto.
    + constructor; auto. intros Hin.
      assert (existsb (Nat.eqb v) done = true) by (apply existsb_exists; exists v; split; [auto|apply Nat.eqb_refl]).
      congruence.
    + constructor; auto. assert (v < length (vls s))%nat by (apply nth_error_Some; congruence). lia.
Qed.

Lemma step_OFlush nv s h d f n s' : Inv nv s h d -> step s (OFlush f n) = Ok s' -> Inv nv s' h d.
Proof.
  intros I E. unfold Protocol.step in E. inv_fields I.
  destruct f as [| |v| |].
  - (* tx log *)
    assert (s' = upd_files s (f_flushn (txl s) n) (cml s) (vls s) (ahd s) (ahc s)) by congruence. subst s'.
    destruct Itdur as (T1 & T2 & T3 & T4). destruct Itview as (V1 & V2 & V3).
    constructor; unfold upd_files;
      cbn [s_cfg vls txl cml ahd ahc committed pbuf palh pts acked phase_ asize alatest acnt precommitted]; auto.
    + apply wf_flushn; auto.
    + rewrite durable_flushn. repeat split; auto.
      * apply pending_flushn_ge; auto.
      * rewrite bufoff_flushn. lia.
    + rewrite lview_flushn, f_offset_flushn by auto. auto.
  - (* commit log *)
    assert (s' = upd_files s (txl s) (f_flushn (cml s) n) (vls s) (ahd s) (ahc s)) by congruence. subst s'.
    constructor; unfold upd_files;
      cbn [s_cfg vls txl cml ahd ahc committed pbuf palh pts acked phase_ asize alatest acnt precommitted]; auto.
    + apply wf_flushn; auto.
    + rewrite durable_flushn. auto.
    + destruct (phase_ s) as [|i|t].
      * destruct Icph as (A & B & C). rewrite flushn_nobuf by auto. auto.
      * destruct Icph as (A & B & C). rewrite flushn_nobuf by auto. auto.
      * destruct Icph as (A & B & C & D & E' & F). repeat split; auto.
        -- apply pstream_flushn; auto.
        -- rewrite fstream_flushn; auto.
        -- rewrite f_offset_flushn; auto.
  - (* value log *)
    destruct (nth_error (vls s) v) as [g|] eqn:En; [|discriminate].
    assert (s' = upd_files s (txl s) (cml s) (set_nth (vls s) v (f_flushn g n)) (ahd s) (ahc s)) by congruence.
    subst s'.
    constructor; unfold upd_files;
      cbn [s_cfg vls txl cml ahd ahc committed pbuf palh pts acked phase_ asize alatest acnt precommitted]; auto.
    rewrite length_set_nth; auto.
  - (* tree data *)
    assert (s' = upd_files s (txl s) (cml s) (vls s) (f_flushn (ahd s) n) (ahc s)) by congruence. subst s'.
    constructor; unfold upd_files;
      cbn [s_cfg vls txl cml ahd ahc committed pbuf palh pts acked phase_ asize alatest acnt precommitted]; auto.
    destruct Iaht as ((A1 & A2 & A3 & A4 & A5 & A6) & B). split; auto.
    unfold AInv in *. simp_st.
    rewrite f_offset_flushn. split; [apply wf_flushn; auto|]. auto.
  - (* tree commit log: nothing is ever buffered there between steps *)
    assert (s' = upd_files s (txl s) (cml s) (vls s) (ahd s) (f_flushn (ahc s) n)) by congruence. subst s'.
    destruct Iaht as ((A1 & A2 & A3 & A4 & A5 & A6) & B).
    simp_st. rewrite flushn_nobuf by (apply A2).
    constructor; unfold upd_files;
      cbn [s_cfg vls txl cml ahd ahc committed pbuf palh pts acked phase_ asize alatest acnt precommitted]; auto.
    split; auto. unfold AInv. simp_st. auto 10.
Qed.

Lemma step_OSyncTx nv s h d s' : Inv nv s h d -> step s OSyncTx = Ok s' ->
  Inv nv s' h (precommitted s) /\
  (if c_ahtsync (s_cfg s) then aht_sync (aht_of s) else Ok (aht_of s)) = Ok (aht_of s') /\
  asize s' = asize s /\ vls s' = vls s /\ inflight s' = inflight s /\ txl s' = f_sync (txl s).
Proof.
  intros I E. unfold Protocol.step in E.
  destruct (phase_ s) as [|i|t] eqn:Ep; try discriminate.
  destruct (Nat.eqb (length i) (length (vls s))); cbn [negb] in E; [|discriminate].
  destruct (if c_ahtsync (s_cfg s) then aht_sync (aht_of s) else Ok (aht_of s)) as [a| |] eqn:Ea;
    cbn [bind] in E; try discriminate.
  rewrite (proj1 (v_cfg _ _ _ _ I)) in E.
  destruct (f_setoffset_gen false (cml s) (44 * committed s)) as [c1|] eqn:Es; [|discriminate].
  assert (s' = mkSt (s_cfg s) (f_sync (txl s)) (f_append c1 (pbuf_entries (pbuf s))) (vls s) (a_d a) (a_c a)
                    (committed s) (calh s) (pbuf s) (palh s) (pts s) (acked s) (PC (precommitted s))
                    (inflight s) (a_size a) (a_latest a) (a_cnt a)) by congruence.
  assert (IAa: AInv (c_thld (s_cfg s)) a /\ a_size a = asize s).
  { destruct (v_aht _ _ _ _ I) as (IA & _). destruct (c_ahtsync (s_cfg s)).
    - destruct (aht_sync_AInv _ _ IA) as (a' & Ea' & IA' & Sz & _).
      assert (a' = a) by congruence. subst a'. split; [exact IA'|exact Sz].
    - assert (a = aht_of s) by congruence. subst a. split; [exact IA|reflexivity]. }
  destruct IAa as (IAa & Sza).
  split; [|subst s'; cbn [asize vls inflight txl]; repeat split; auto; destruct a; reflexivity].
  subst s'. inv_fields I. rewrite Ep in Icph. destruct Icph as (P1 & P2 & P3 & P4 & P5).
  destruct Itdur as (T1 & T2 & T3 & T4). destruct Itview as (V1 & V2 & V3).
  destruct (f_sync_spec (txl s) Itwf) as (Y1 & Y2 & Y3 & Y4).
  destruct (f_setoffset_spec _ _ _ _ Icwf Es) as (S1 & S2 & S3 & S4 & S5 & _ & _ & S7 & _ & S10 & _).
  specialize (S10 P2). specialize (S5 ltac:(lia)).
  assert (Bc1: bufoff c1 = 44 * committed s) by (rewrite S7; lia).
  assert (Dp: dts h (precommitted s) = pts s) by (rewrite Iplen, dts_all, Ipts; reflexivity).
  assert (Fp: firstn (N.to_nat (precommitted s)) h = h) by (rewrite Iplen, Nnat.Nat2N.id; apply firstn_all).
  assert (Lsk: len (entries (skipn (N.to_nat (committed s)) h)) = 44 * (precommitted s - committed s)).
  { rewrite (entries_skipn_len _ _ _ _ _ Ichain) by lia. lia. }
  constructor; simp_st; fold_p s.
  - auto.
  - auto.
  - auto.
  - auto.
  - lia.
  - auto.
  - auto.
  - auto.
  - auto.
  - apply wf_sync; auto.
  - rewrite Dp, Fp, Y1, Y2, Y4. repeat split; auto; try lia. constructor.
  - rewrite lview_sync by auto. unfold f_offset at 1. rewrite Y3, Y4, len_nil. repeat split; auto; lia.
  - apply wf_append; auto.
  - cbn [f_append durable]. rewrite S4. auto.
  - rewrite Ipbuf, pbuf_entries_map. unfold fstream. cbn [f_append pending buf bufoff].
    rewrite S5, S10. cbn [app].
    assert (St: stream_from (44 * committed s) (tailw (bufoff c1) (entries (skipn (N.to_nat (committed s)) h))))
      by (apply stream_tail; intros _; exact Bc1).
    split; [reflexivity|]. split; [reflexivity|]. split; [lia|]. split; [|split].
    + destruct P1 as [-> | ->]; cbn [app]; [left; exact St|right; eexists; split; [reflexivity|exact St]].
    + destruct P1 as [-> | ->]; cbn [app]; [|rewrite concat_w_PT]; apply concat_w_tail.
    + unfold f_offset. cbn [f_append bufoff buf]. rewrite S10. cbn [app]. rewrite Bc1, Lsk. lia.
  - split; [destruct a; exact IAa|]. rewrite Sza. destruct Iaht as (_ & B). exact B.
Qed.

Lemma step_OSyncC nv s h d s' : Inv nv s h d -> step s OSyncC = Ok s' ->
  Inv nv s' h d /\ committed s' = precommitted s /\ acked s' = precommitted s /\ d = precommitted s.
Proof.
  intros I E. unfold Protocol.step in E.
  destruct (phase_ s) as [|i|t] eqn:Ep; try discriminate.
  assert (s' = mkSt (s_cfg s) (txl s) (f_sync (cml s)) (vls s) (ahd s) (ahc s) t (palh s) [] (palh s) (pts s)
                    t PIdle (inflight s) (asize s) (alatest s) (acnt s)) by congruence.
  subst s'. inv_fields I. rewrite Ep in Icph. destruct Icph as (P1 & P2 & P3 & P4 & P5 & P6). subst t.
  destruct Icdur as (C1 & C2 & C3).
  destruct (f_sync_spec (cml s) Icwf) as (Y1 & Y2 & Y3 & Y4).
  assert (Pn: forall a b c d e f g i j k l m n o q,
             precommitted (mkSt a b c d e f (precommitted s) g [] i j k l m n o q) = precommitted s)
    by (intros; unfold precommitted at 1; cbn [committed pbuf length]; lia).
  set (c := committed s) in *. set (p := precommitted s) in *.
  assert (Lsk: len (entries (skipn (N.to_nat c) h)) = 44 * (p - c)).
  { rewrite (entries_skipn_len _ _ _ _ _ Ichain) by lia. lia. }
  assert (Dur: exists m, 44 * c <= m /\
     durable (f_sync (cml s)) = wr (take m (durable (cml s))) (44 * c) (entries (skipn (N.to_nat c) h))).
  { rewrite Y1, lview_as_writes. destruct (pstream_apply _ _ (durable (cml s)) P4 C1) as (m & Hm & ->).
    exists m. rewrite P5. auto. }
  destruct Dur as (m & Hm & Dur).
  assert (Lm: 44 * c <= len (take m (durable (cml s))) /\ len (take m (durable (cml s))) < 44 * c + 44)
    by (rewrite len_take; lia).
  assert (Tm: take (44 * c) (take m (durable (cml s))) = take (44 * c) (durable (cml s)))
    by (apply take_take; lia).
  assert (Hent: entries (firstn (N.to_nat c) h) ++ entries (skipn (N.to_nat c) h) = entries h)
    by (rewrite <- entries_app, firstn_skipn; reflexivity).
  assert (Fp: firstn (N.to_nat p) h = h) by (rewrite Iplen, Nnat.Nat2N.id; apply firstn_all).
  split; [|repeat split; auto].
  constructor; simp_st; rewrite ?Pn; fold p.
  - auto.
  - auto.
  - auto.
  - auto.
  - lia.
  - lia.
  - rewrite Iplen, Nnat.Nat2N.id, skipn_all. reflexivity.
  - auto.
  - auto.
  - auto.
  - auto.
  - auto.
  - apply wf_sync; auto.
  - rewrite Dur. rewrite len_wr by lia. rewrite Lsk. split; [lia|]. split; [lia|].
    replace (44 * p) with (44 * c + len (entries (skipn (N.to_nat c) h))) by lia.
    rewrite take_wr_through by lia. rewrite Tm, C3, Hent, Fp. reflexivity.
  - split; [left; exact Y2|]. split; [exact Y3|]. rewrite Y4. exact P6.
  - auto.
Qed.

Lemma step_OPre nv s h d i payload s' : Inv nv s h d -> step s (OPre i payload) = Ok s' ->
  exists r, Inv nv s' (h ++ [r]) d /\ t_id r = precommitted s + 1 /\ committed s' = committed s /\
            acked s' = acked s /\ asize s' = precommitted s + 1 /\ phase_ s' = PIdle /\
            t_raw r = enc_rec H (precommitted s + 1) (palh s) (t_body r) /\
            (exists v vo vn hv, nth_error (inflight s) i = Some (v, vo, vn, hv) /\
                                t_body r = enc_vref v vo vn hv ++ payload /\
                                v < 256 /\ vo < 2 ^ 64 /\ vn < 2 ^ 32) /\
            vls s' = vls s /\ inflight s' = remove_nth (inflight s) i.
Proof.
  intros I E. unfold Protocol.step in E. cbv zeta in E.
  destruct (phase_ s) as [| |] eqn:Eph; cbn [phase_idle negb] in E; try discriminate.
  destruct (nth_error (inflight s) i) as [[[[v vo] vn] hv]|] eqn:Ei; [|discriminate].
  destruct (N.leb_spec (committed s + c_maxact (s_cfg s)) (precommitted s)) as [|Hact]; [discriminate|].
  rewrite (proj1 (v_cfg _ _ _ _ I)) in E.
  destruct (f_setoffset_gen false (txl s) (pts s)) as [t1|] eqn:Es; [|discriminate].
  set (p := precommitted s) in *.
  set (body := enc_vref v vo vn hv ++ payload) in *.
  set (raw := enc_rec H (p + 1) (palh s) body) in *.
  set (alh := alh_of H (p + 1) (palh s) body) in *.
  destruct ((p + 1 <? 2 ^ 64) && (len raw <? 2 ^ 32) && (pts s + len raw <? 2 ^ 64) &&
            (v <? 256) && (vo <? 2 ^ 64) && (vn <? 2 ^ 32)) eqn:G; cbn [negb] in E; [|discriminate].
  apply andb_prop in G as [G G6]. apply andb_prop in G as [G G5]. apply andb_prop in G as [G G4].
  apply andb_prop in G as [G G3]. apply andb_prop in G as [G1 G2].
  apply N.ltb_lt in G1, G2, G3, G4, G5, G6.
  inv_fields I. rewrite Eph in Icph. destruct Icph as (P1 & P2 & P3).
  destruct Iaht as (IA & IAs).
  (* the tree: ResetSize is a no-op (sizes agree) or fails *)
  assert (Ha1: aht_reset (c_ahtreset (s_cfg s)) (aht_of s) p = Ok (aht_of s) /\ asize s = p \/
               aht_reset (c_ahtreset (s_cfg s)) (aht_of s) p = Err EOther).
  { unfold aht_reset. assert (Esz: a_size (aht_of s) = asize s) by reflexivity. rewrite Esz.
    destruct (N.ltb_spec (asize s) p); [right; reflexivity|].
    left. fold p in IAs. assert (asize s = p) by lia.
    destruct (N.eqb_spec (asize s) p); [auto|contradiction]. }
  destruct Ha1 as [[Ha1 Hsz]|Ha1]; rewrite Ha1 in E; cbn [bind] in E; [|discriminate].
  assert (Lalh: len alh = 32) by (unfold alh, alh_of; apply (H_len' H H_len)).
  destruct (aht_append_ok _ _ alh IA Lalh) as (a2 & Ea & IA2 & Sz2).
  rewrite Ea in E. cbn [bind] in E.
  assert (s' = mkSt (s_cfg s) (f_append t1 raw) (cml s) (vls s) (a_d a2) (a_c a2) (committed s) (calh s)
                    (pbuf s ++ [(p + 1, alh, pts s, len raw)]) alh (pts s + len raw) (acked s) PIdle
                    (remove_nth (inflight s) i) (a_size a2) (a_latest a2) (a_cnt a2)) by congruence.
  subst s'. clear E.
  set (r := mkT raw (p + 1) (palh s) body alh (pts s)).
  (* the new record is well formed *)
  assert (Lp: len (palh s) = 32).
  { rewrite Ipalh. eapply last_alh_len; [apply alh0_len|exact Ichain]. }
  assert (Lraw: len raw = 76 + len body) by (unfold raw; apply (len_enc_rec H H_len); auto).
  assert (Rok: rec_ok H r).
  { unfold rec_ok, r. cbn [t_raw t_id t_prev t_body t_alh t_off]. split; [|repeat split; auto; lia].
    intros b Hb. rewrite Lraw.
    eapply (parse_rec_prefix H H_len (raw ++ [])).
    - unfold raw. apply (parse_enc H H_len); auto; lia.
    - rewrite app_nil_r. rewrite <- Lraw. rewrite Hb. symmetry. apply take_all. }
  assert (Hlen: (N.to_nat (committed s) <= length h)%nat) by (fold p in Icd; lia).
  destruct Itdur as (T1 & T2 & T3 & T4). destruct Itview as (V1 & V2 & V3).
  destruct (f_setoffset_spec _ _ _ _ Itwf Es) as (S1 & S2 & S3 & S4 & _ & _ & S6 & S7 & S8 & _ & S11).
  specialize (S6 V1).
  assert (Dd: dts (h ++ [r]) d = dts h d) by (apply dts_app; fold p in Icd; lia).
  assert (Pn: precommitted (mkSt (s_cfg s) (f_append t1 raw) (cml s) (vls s) (a_d a2) (a_c a2) (committed s)
                (calh s) (pbuf s ++ [(p + 1, alh, pts s, len raw)]) alh (pts s + len raw) (acked s) PIdle
                (remove_nth (inflight s) i) (a_size a2) (a_latest a2) (a_cnt a2)) = p + 1).
  { unfold precommitted at 1. cbn [committed pbuf]. rewrite app_length. cbn [length]. unfold p, precommitted. lia. }
  exists r. split; [|repeat split; auto].
  3:{ exists v, vo, vn, hv. repeat split; auto. }
  2:{ cbn [asize]. rewrite Sz2. unfold aht_of; cbn [a_size]. lia. }
  constructor; simp_st; rewrite ?Pn.
  - auto.
  - auto.
  - apply chain_app. split; [auto|]. cbn [RecordProofs.chain]. rewrite N.add_0_l.
    split; [exact Rok|]. unfold r; cbn [t_raw t_id t_prev t_body t_alh t_off].
    repeat split; auto; try lia.
  - rewrite app_length. cbn [length]. lia.
  - lia.
  - auto.
  - rewrite skipn_app_le by auto. rewrite map_app. cbn [map]. unfold pb_of, r; cbn [t_raw t_id t_alh t_off].
    rewrite Ipbuf. reflexivity.
  - rewrite last_alh_app. cbn [last_alh]. reflexivity.
  - rewrite raws_app, len_app. unfold raws at 2; cbn [map concat]. rewrite app_nil_r. cbn [t_raw r]. lia.
  - apply wf_append; auto.
  - rewrite Dd. cbn [f_append durable pending bufoff]. rewrite S4.
    rewrite firstn_app_le by (fold p in Icd; lia). repeat split; auto.
    { apply S11; auto. pose proof (dts_le h d). lia. }
    destruct (N.le_gt_cases (bufoff (txl s)) (pts s)) as [Hle|Hgt].
    + rewrite (S7 Hle). auto.
    + rewrite (S8 Hgt). pose proof (dts_le h d). lia.
  - assert (Tk: take (pts s + len raw) (lview (f_append t1 raw)) = raws h ++ raw).
    { rewrite <- S3. rewrite take_lview_append by auto. rewrite S3, S6, V2. reflexivity. }
    split; [|split].
    + assert (L: len (take (pts s + len raw) (lview (f_append t1 raw))) = len (raws h ++ raw)) by (rewrite Tk; reflexivity).
      rewrite len_take, len_app in L. lia.
    + rewrite Tk, raws_app. unfold raws at 3; cbn [map concat]. rewrite app_nil_r. reflexivity.
    + unfold f_offset. cbn [f_append bufoff buf]. rewrite len_app. unfold f_offset in S3. lia.
  - auto.
  - rewrite firstn_app_le by auto. auto.
  - auto.
  - split; [|lia]. destruct a2; exact IA2.
Qed.

End IP.
