(* C03 — the value-log part of the write-ordering invariant, preserved by every step.  Recovery
   re-establishes it (Crash/RecoverProofs.v) since fix ccd70f3: a precommitted record is reloaded only
   when its values are found in the value log with the recorded digest. *)
From V Require Import Crash.Storage Crash.StorageProofs Crash.Protocol Crash.RecordProofs Crash.AhtProofs
  Crash.InvProofs.
From Coq Require Import ZifyN ZifyNat ZifyBool Lia.

Section VP.
Variable H : bytes -> bytes.
Hypothesis H_len : forall x, length (H x) = 32%nat.

Notation Inv := (Inv H).
Notation step := (step H).
Notation run := (run H).

Definition vref := (N * N * N * bytes)%type.
Definition vlog_of (x : vref) : N := match x with (v, _, _, _) => v end.

(* append-only file: the OS size is the buffer position; nothing pending below the durable size *)
Definition VF (f : file) : Prop :=
  len (os_view f) = bufoff f /\ offs_ge (len (durable f)) (pending f) /\ len (durable f) <= bufoff f.

(* empty values are never looked at (neither by the reader nor by recovery) *)
Definition val_view (s : st) (x : vref) : Prop :=
  match x with (v, vo, vn, hv) =>
    len hv = 32 /\
    (vn = 0 \/ exists f, nth_error (vls s) (N.to_nat v) = Some f /\ vo + vn <= f_offset f /\
                         H (slice (lview f) vo vn) = hv)
  end.
Definition val_dur (s : st) (x : vref) : Prop :=
  match x with (v, vo, vn, hv) =>
    vn = 0 \/ exists f, nth_error (vls s) (N.to_nat v) = Some f /\ vo + vn <= len (durable f) /\
                        H (slice (durable f) vo vn) = hv
  end.

Definition must_be_durable (s : st) (d : N) (i : nat) (x : vref) : Prop :=
  N.of_nat i < d \/ exists done, phase_ s = PV done /\ In (N.to_nat (vlog_of x)) done.

Record VInv (s : st) (h : list trec) (d : N) : Prop := mkVInv {
  vv_files : Forall VF (vls s);
  vv_infl : Forall (val_view s) (inflight s);
  vv_hist : forall i r, nth_error h i = Some r ->
              exists x, body_vref (t_body r) = Some x /\ val_view s x /\
                        (must_be_durable s d i x -> val_dur s x)
}.

Lemma VF_wf f : VF f -> wf f.
Proof. intros (A & _). unfold wf. lia. Qed.

Lemma VF_len_lview f : VF f -> len (lview f) = f_offset f.
Proof. intros V. rewrite len_lview by (apply VF_wf; auto). destruct V as (A & _). unfold f_offset. lia. Qed.

Lemma VF_durable_prefix f : VF f -> take (len (durable f)) (lview f) = durable f.
Proof.
  intros (A & B & C).
  destruct (apply_writes_prefix (len (durable f)) (durable f) (pending f) B ltac:(lia)) as (P1 & P2).
  fold (os_view f) in P1, P2.
  unfold lview. rewrite take_wr_below by lia. rewrite P1. apply take_all.
Qed.

Lemma VF_empty : VF f_empty.
Proof. unfold VF, f_empty, f_open, os_view. cbn. repeat split; try lia. constructor. Qed.

Lemma VF_append f d : VF f -> VF (f_append f d).
Proof. intros (A & B & C). unfold VF. cbn [f_append durable pending bufoff]. rewrite os_view_append. auto. Qed.

Lemma VF_flushn f n : VF f -> VF (f_flushn f n).
Proof.
  intros (A & B & C). unfold VF. rewrite os_view_flushn, bufoff_flushn, durable_flushn.
  rewrite len_wr by lia. split; [lia|]. split; [apply pending_flushn_ge; auto|lia].
Qed.

Lemma VF_sync f : VF f -> VF (f_sync f).
Proof.
  intros V. pose proof (VF_wf _ V) as W. destruct (f_sync_spec f W) as (D1 & D2 & D3 & D4).
  unfold VF. rewrite os_view_sync by auto. rewrite D1, D2, D4. rewrite VF_len_lview by auto.
  split; [reflexivity|]. split; [constructor|lia].
Qed.

(* an extent below the current offset is not touched by later operations on the file *)
Lemma slice_stable_append f d vo vn : VF f -> vo + vn <= f_offset f ->
  slice (lview (f_append f d)) vo vn = slice (lview f) vo vn.
Proof.
  intros V Hle. rewrite lview_append by (apply VF_wf; auto).
  apply (slice_eq_of_take _ _ (f_offset f)); auto.
  apply take_wr_below; [lia|]. rewrite VF_len_lview by auto. lia.
Qed.

Lemma Forall_set_nth {A} (P : A -> Prop) l i x : Forall P l -> P x -> Forall P (set_nth l i x).
Proof.
  revert i; induction l as [|y l IH]; intros [|i] F Px; simpl; auto; inversion F; subst; constructor; auto.
Qed.

Lemma nth_set_nth_same {A} (l : list A) i x y : nth_error l i = Some y -> nth_error (set_nth l i x) i = Some x.
Proof. revert i; induction l as [|z l IH]; intros [|i] E; simpl in *; try discriminate; auto. Qed.

Lemma nth_set_nth_other {A} (l : list A) i j x : i <> j -> nth_error (set_nth l i x) j = nth_error l j.
Proof.
  revert i j; induction l as [|z l IH]; intros [|i] [|j] Hne; simpl; auto; try congruence.
Qed.

Lemma Forall_nth {A} (P : A -> Prop) l i x : Forall P l -> nth_error l i = Some x -> P x.
Proof. intros F E. rewrite Forall_forall in F. apply F. eapply nth_error_In; eauto. Qed.

(* replacing file i by g that keeps extents and offsets *)
Lemma val_view_set s s' i f g x :
  nth_error (vls s) i = Some f -> vls s' = set_nth (vls s) i g ->
  f_offset f <= f_offset g ->
  (forall vo vn, vo + vn <= f_offset f -> slice (lview g) vo vn = slice (lview f) vo vn) ->
  val_view s x -> val_view s' x.
Proof.
  intros Ef Ev Ho Hs. destruct x as [[[v vo] vn] hv]. intros (Lh & [Z|(f' & E' & L & Hh)]).
  - split; auto.
  - split; [auto|]. right. rewrite Ev.
    destruct (Nat.eq_dec i (N.to_nat v)) as [->|Hne].
    + assert (f' = f) by congruence. subst f'. exists g. rewrite (nth_set_nth_same _ _ _ _ Ef).
      split; [reflexivity|]. split; [lia|]. rewrite Hs by lia. auto.
    + exists f'. rewrite nth_set_nth_other by auto. auto.
Qed.

Lemma val_dur_set s s' i f g x :
  nth_error (vls s) i = Some f -> vls s' = set_nth (vls s) i g ->
  len (durable f) <= len (durable g) -> take (len (durable f)) (durable g) = durable f ->
  val_dur s x -> val_dur s' x.
Proof.
  intros Ef Ev Hl Ht. destruct x as [[[v vo] vn] hv]. intros [Z|(f' & E' & L & Hh)]; [left; auto|].
  right. rewrite Ev.
  destruct (Nat.eq_dec i (N.to_nat v)) as [->|Hne].
  - assert (f' = f) by congruence. subst f'. exists g. rewrite (nth_set_nth_same _ _ _ _ Ef).
    split; [reflexivity|]. split; [lia|].
    rewrite <- Hh. f_equal. apply (slice_eq_of_take _ _ (len (durable f))); auto.
    rewrite Ht. symmetry. apply take_all.
  - exists f'. rewrite nth_set_nth_other by auto. auto.
Qed.

Lemma body_vref_enc v vo vn hv payload :
  v < 256 -> vo < 2 ^ 64 -> vn < 2 ^ 32 -> len hv = 32 ->
  body_vref (enc_vref v vo vn hv ++ payload) = Some (v, vo, vn, hv).
Proof.
  intros Hv Ho Hn Hh. unfold body_vref, enc_vref.
  set (b := (be_enc 1 v ++ be_enc 8 vo ++ be_enc 4 vn ++ hv) ++ payload).
  assert (Eb: b = be_enc 1 v ++ be_enc 8 vo ++ be_enc 4 vn ++ hv ++ payload)
    by (unfold b; rewrite <- !app_assoc; reflexivity).
  assert (Lb: len b = 45 + len payload).
  { rewrite Eb, !len_app, len_be1, len_be8, len_be4, Hh. lia. }
  destruct (N.ltb_spec (len b) 45); [lia|].
  assert (S1: take 1 b = be_enc 1 v).
  { rewrite Eb. rewrite take_app_le by (rewrite len_be1; lia). rewrite <- (len_be1 v) at 1. apply take_all. }
  assert (S2: take 8 (drop 1 b) = be_enc 8 vo).
  { change (take 8 (drop 1 b)) with (slice b 1 8). rewrite Eb.
    rewrite <- (len_be1 v) at 1. rewrite <- (len_be8 vo) at 1. apply (slice_app_mid H H_len). }
  assert (S3: take 4 (drop 9 b) = be_enc 4 vn).
  { change (take 4 (drop 9 b)) with (slice b 9 4). rewrite Eb. rewrite (app_assoc (be_enc 1 v)).
    replace 9 with (len (be_enc 1 v ++ be_enc 8 vo)) by (rewrite len_app, len_be1, len_be8; lia).
    rewrite <- (len_be4 vn) at 1. apply (slice_app_mid H H_len). }
  assert (S4: take 32 (drop 13 b) = hv).
  { change (take 32 (drop 13 b)) with (slice b 13 32). rewrite Eb.
    rewrite (app_assoc (be_enc 8 vo)), (app_assoc (be_enc 1 v)).
    replace 13 with (len (be_enc 1 v ++ be_enc 8 vo ++ be_enc 4 vn)) by (rewrite !len_app, len_be1, len_be8, len_be4; lia).
    rewrite <- Hh at 1. apply (slice_app_mid H H_len). }
  rewrite S1, S2, S3, S4. rewrite dec_enc1, dec_enc8, dec_enc4 by lia. reflexivity.
Qed.

(* transfer when the value logs do not change *)
Lemma val_view_same s s' x : vls s' = vls s -> val_view s x -> val_view s' x.
Proof. intros E. destruct x as [[[v vo] vn] hv]. unfold val_view. rewrite E. auto. Qed.
Lemma val_dur_same s s' x : vls s' = vls s -> val_dur s x -> val_dur s' x.
Proof. intros E. destruct x as [[[v vo] vn] hv]. unfold val_dur. rewrite E. auto. Qed.

Lemma VInv_same_vls s s' h d :
  vls s' = vls s -> inflight s' = inflight s ->
  (forall i x, must_be_durable s' d i x -> must_be_durable s d i x) ->
  VInv s h d -> VInv s' h d.
Proof.
  intros Ev Ei Hm [F I Hh]. constructor.
  - rewrite Ev. auto.
  - rewrite Ei. eapply Forall_impl; [|exact I]. intros x. apply val_view_same; auto.
  - intros i r E. destruct (Hh i r E) as (x & B & V & D). exists x. split; [auto|].
    split; [eapply val_view_same; eauto|]. intros M. eapply val_dur_same; eauto.
Qed.

Lemma VInv_init c nv : VInv (init H c nv) [] 0.
Proof.
  constructor.
  - unfold init. cbn [vls]. clear. induction nv; simpl; constructor; auto. apply VF_empty.
  - constructor.
  - intros [|i] r E; discriminate.
Qed.

Lemma vstep_OFlush s h d f n s' : VInv s h d -> step s (OFlush f n) = Ok s' -> VInv s' h d.
Proof.
  intros V E. unfold Protocol.step in E.
  assert (Q: forall a b, @Ok st a = Ok b -> a = b) by (intros ? ? Q; congruence).
  assert (Same: forall s1, vls s1 = vls s -> inflight s1 = inflight s -> phase_ s1 = phase_ s -> VInv s1 h d).
  { intros s1 A B C. eapply VInv_same_vls; eauto.
    intros i x [M|(j & M1 & M2)]; [left; auto|right; exists j; rewrite <- C; auto]. }
  destruct f as [| |v| |]; try (apply Q in E; subst s'; apply Same; reflexivity).
  destruct (nth_error (vls s) v) as [g|] eqn:En; [|discriminate].
  assert (s' = upd_files s (txl s) (cml s) (set_nth (vls s) v (f_flushn g n)) (ahd s) (ahc s)) by congruence.
  subst s'. destruct V as [F I Hh].
  pose proof (Forall_nth _ _ _ _ F En) as Vg.
  set (s1 := upd_files s (txl s) (cml s) (set_nth (vls s) v (f_flushn g n)) (ahd s) (ahc s)).
  assert (Tv: forall x, val_view s x -> val_view s1 x).
  { intros x. apply (val_view_set s s1 v g (f_flushn g n) x En eq_refl).
    - rewrite f_offset_flushn. lia.
    - intros. rewrite lview_flushn by (apply VF_wf; auto). reflexivity. }
  assert (Td: forall x, val_dur s x -> val_dur s1 x).
  { intros x. apply (val_dur_set s s1 v g (f_flushn g n) x En eq_refl).
    - rewrite durable_flushn. lia.
    - rewrite durable_flushn. apply take_all. }
  constructor.
  - cbn [s1 upd_files vls]. apply Forall_set_nth; [auto|apply VF_flushn; auto].
  - cbn [upd_files inflight]. eapply Forall_impl; [|exact I]. exact Tv.
  - intros i r E'. destruct (Hh i r E') as (x & B & Vx & D). exists x. split; [auto|]. split; [auto|].
    intros [M|(j & M1 & M2)]; apply Td, D; [left; auto|right; exists j; auto].
Qed.

Lemma vstep_OVal s h d v dd s' : VInv s h d -> step s (OVal v dd) = Ok s' -> VInv s' h d.
Proof.
  intros V E. unfold Protocol.step in E. destruct (nth_error (vls s) v) as [f|] eqn:En; [|discriminate].
  assert (s' = mkSt (s_cfg s) (txl s) (cml s) (set_nth (vls s) v (f_append f dd)) (ahd s) (ahc s)
                    (committed s) (calh s) (pbuf s) (palh s) (pts s) (acked s) (phase_ s)
                    (inflight s ++ [(N.of_nat v, f_offset f, len dd, H dd)]) (asize s) (alatest s) (acnt s))
    by (cbn in E; congruence).
  subst s'. destruct V as [F I Hh].
  pose proof (Forall_nth _ _ _ _ F En) as Vf.
  set (s1 := mkSt _ _ _ _ _ _ _ _ _ _ _ _ _ _ _ _ _).
  assert (Tv: forall x, val_view s x -> val_view s1 x).
  { intros x. apply (val_view_set s s1 v f (f_append f dd) x En eq_refl).
    - unfold f_offset. cbn [f_append bufoff buf]. rewrite len_app. lia.
    - intros. apply slice_stable_append; auto. }
  assert (Td: forall x, val_dur s x -> val_dur s1 x).
  { intros x. apply (val_dur_set s s1 v f (f_append f dd) x En eq_refl).
    - cbn [f_append durable]. lia.
    - cbn [f_append durable]. apply take_all. }
  constructor.
  - cbn [s1 vls]. apply Forall_set_nth; [auto|apply VF_append; auto].
  - cbn [s1 inflight]. apply Forall_app. split.
    + eapply Forall_impl; [|exact I]. exact Tv.
    + constructor; [|constructor]. unfold val_view. split; [apply (H_len' H H_len)|]. right. exists (f_append f dd).
      cbn [s1 vls]. rewrite Nnat.Nat2N.id. rewrite (nth_set_nth_same _ _ _ _ En).
      split; [reflexivity|]. split.
      { unfold f_offset. cbn [f_append bufoff buf]. rewrite len_app. lia. }
      rewrite lview_append by (apply VF_wf; auto).
      rewrite slice_wr_at; [reflexivity|]. rewrite VF_len_lview by auto. lia.
  - intros i r E'. destruct (Hh i r E') as (x & B & Vx & D). exists x. split; [auto|]. split; [auto|].
    intros [M|(j & M1 & M2)]; apply Td, D; [left; auto|right; exists j; auto].
Qed.

Lemma Forall_remove_nth {A} (P : A -> Prop) l i : Forall P l -> Forall P (remove_nth l i).
Proof.
  revert i; induction l as [|y l IH]; intros [|i] F; simpl; auto; inversion F; subst; auto.
Qed.

Lemma vstep_OPre nv s h d i payload s' r :
  Inv nv s h d -> VInv s h d -> step s (OPre i payload) = Ok s' ->
  (exists v vo vn hv, nth_error (inflight s) i = Some (v, vo, vn, hv) /\
                      t_body r = enc_vref v vo vn hv ++ payload /\ v < 256 /\ vo < 2 ^ 64 /\ vn < 2 ^ 32) ->
  vls s' = vls s -> inflight s' = remove_nth (inflight s) i -> phase_ s' = PIdle ->
  VInv s' (h ++ [r]) d.
Proof.
  intros I [F If Hh] E (v & vo & vn & hv & Ei & Eb & B1 & B2 & B3) Ev Einf Eph.
  pose proof (Forall_nth _ _ _ _ If Ei) as Vx.
  assert (Lh: len hv = 32) by (destruct Vx as (Lh & _); exact Lh).
  constructor.
  - rewrite Ev. auto.
  - rewrite Einf. apply Forall_remove_nth. eapply Forall_impl; [|exact If].
    intros x. apply val_view_same; auto.
  - intros j r' E'.
    assert (Hd: d <= N.of_nat (length h)).
    { pose proof (v_cd _ _ _ _ _ I). pose proof (v_plen _ _ _ _ _ I). lia. }
    destruct (Nat.lt_ge_cases j (length h)) as [Hlt|Hge].
    + rewrite nth_error_app1 in E' by auto. destruct (Hh j r' E') as (x & B & V & D).
      exists x. split; [auto|]. split; [eapply val_view_same; eauto|].
      intros [M|(k & M1 & M2)].
      * eapply val_dur_same; eauto. apply D. left. exact M.
      * rewrite Eph in M1. discriminate.
    + rewrite nth_error_app2 in E' by auto.
      destruct (j - length h)%nat as [|q] eqn:Eq; [|destruct q; discriminate].
      cbn [nth_error] in E'. assert (r' = r) by congruence. subst r'.
      exists (v, vo, vn, hv). split; [rewrite Eb; apply body_vref_enc; auto|].
      split; [eapply val_view_same; eauto|].
      intros [M|(k & M1 & M2)]; [lia|rewrite Eph in M1; discriminate].
Qed.

Lemma vstep_OSyncStart s h d s' : VInv s h d -> step s OSyncStart = Ok s' -> VInv s' h d.
Proof.
  intros V E. unfold Protocol.step in E.
  destruct (phase_ s) eqn:Ep; cbn [phase_idle andb] in E; try discriminate.
  destruct (negb (precommitted s =? committed s)); [|discriminate].
  assert (s' = mkSt (s_cfg s) (txl s) (cml s) (vls s) (ahd s) (ahc s) (committed s) (calh s) (pbuf s)
                    (palh s) (pts s) (acked s) (PV []) (inflight s) (asize s) (alatest s) (acnt s)) by congruence.
  subst s'. eapply (VInv_same_vls s); [reflexivity|reflexivity| |exact V].
  intros i x [M|(j & M1 & M2)]; [left; auto|]. cbn [phase_] in M1. assert (j = []) by congruence. subst j. destruct M2.
Qed.

Lemma vstep_OSyncV nv s h d v s' : Inv nv s h d -> VInv s h d -> step s (OSyncV v) = Ok s' -> VInv s' h d.
Proof.
  intros I0 V E. unfold Protocol.step in E.
  destruct (phase_ s) as [|done|t] eqn:Ep; try discriminate.
  destruct (existsb (Nat.eqb v) done); [discriminate|].
  destruct (nth_error (vls s) v) as [g|] eqn:En; [|discriminate].
  assert (s' = mkSt (s_cfg s) (txl s) (cml s) (set_nth (vls s) v (f_sync g)) (ahd s) (ahc s) (committed s)
                    (calh s) (pbuf s) (palh s) (pts s) (acked s) (PV (v :: done)) (inflight s) (asize s)
                    (alatest s) (acnt s)) by congruence.
  subst s'. destruct V as [F I Hh].
  pose proof (Forall_nth _ _ _ _ F En) as Vg. pose proof (VF_wf _ Vg) as Wg.
  destruct (f_sync_spec g Wg) as (D1 & D2 & D3 & D4).
  set (s1 := mkSt _ _ _ _ _ _ _ _ _ _ _ _ _ _ _ _ _).
  assert (Tv: forall x, val_view s x -> val_view s1 x).
  { intros x. apply (val_view_set s s1 v g (f_sync g) x En eq_refl).
    - unfold f_offset at 2. rewrite D3, D4, len_nil. lia.
    - intros. rewrite lview_sync by auto. reflexivity. }
  assert (Td: forall x, val_dur s x -> val_dur s1 x).
  { intros x. apply (val_dur_set s s1 v g (f_sync g) x En eq_refl).
    - rewrite D1, VF_len_lview by auto. destruct Vg as (_ & _ & C). unfold f_offset. lia.
    - rewrite D1. apply VF_durable_prefix; auto. }
  constructor.
  - cbn [s1 vls]. apply Forall_set_nth; [auto|apply VF_sync; auto].
  - cbn [s1 inflight]. eapply Forall_impl; [|exact I]. exact Tv.
  - intros j r E'. destruct (Hh j r E') as (x & B & Vx & D). exists x. split; [auto|]. split; [auto|].
    intros [M|(k & M1 & M2)].
    + apply Td, D. left; auto.
    + cbn [s1 phase_] in M1. assert (k = v :: done) by congruence. subst k.
      destruct M2 as [Eq|Hin].
      * (* the file just synced: the view extent is now durable *)
        destruct x as [[[v' vo] vn] hv]. cbn [vlog_of] in Eq.
        destruct Vx as (_ & [Z|(f' & E1 & L & Hv)]); [left; exact Z|].
        rewrite <- Eq in E1. assert (f' = g) by congruence. subst f'.
        unfold val_dur. right. exists (f_sync g). cbn [s1 vls]. rewrite <- Eq, (nth_set_nth_same _ _ _ _ En).
        split; [reflexivity|]. rewrite D1. rewrite VF_len_lview by auto. split; [lia|exact Hv].
      * apply Td, D. right. exists done. split; [auto|exact Hin].
Qed.

Lemma vstep_OSyncTx nv s h d s' : Inv nv s h d -> VInv s h d -> step s OSyncTx = Ok s' ->
  VInv s' h (precommitted s).
Proof.
  intros I0 V E. unfold Protocol.step in E.
  destruct (phase_ s) as [|i|t] eqn:Ep; try discriminate.
  destruct (Nat.eqb (length i) (length (vls s))) eqn:Ei; cbn [negb] in E; [|discriminate].
  apply Nat.eqb_eq in Ei.
  destruct (if c_ahtsync (s_cfg s) then aht_sync (aht_of s) else Ok (aht_of s)) as [a| |] eqn:Ea;
    cbn [bind] in E; try discriminate.
  destruct (f_setoffset_gen (c_prealloc (s_cfg s)) (cml s) (44 * committed s)) as [c1|] eqn:Es; [|discriminate].
  assert (s' = mkSt (s_cfg s) (f_sync (txl s)) (f_append c1 (pbuf_entries (pbuf s))) (vls s) (a_d a) (a_c a)
                    (committed s) (calh s) (pbuf s) (palh s) (pts s) (acked s) (PC (precommitted s))
                    (inflight s) (a_size a) (a_latest a) (a_cnt a)) by congruence.
  subst s'. destruct V as [F I Hh].
  constructor; cbn [vls inflight]; [exact F|exact I|].
  intros j r E'.
  { destruct (Hh j r E') as (x & B & Vx & D). exists x. split; [auto|].
    split; [exact Vx|]. intros _.
    destruct x as [[[v vo] vn] hv]. pose proof Vx as Vx'. destruct Vx' as (_ & [Z|(f & E1 & _)]).
    { left. exact Z. }
    eapply val_dur_same; [reflexivity|]. apply D. right. exists i. split; [auto|]. cbn [vlog_of].
    (* every value log has been synced: nv distinct indices below nv are all of them *)
    assert (Hv: (N.to_nat v < length (vls s))%nat) by (apply nth_error_Some; congruence).
    pose proof (v_cph _ _ _ _ _ I0) as Cph. rewrite Ep in Cph. destruct Cph as (_ & _ & _ & (Nd & Fa) & _).
    pose proof (v_nv _ _ _ _ _ I0) as Hnv.
    assert (Incl: incl (seq 0 nv) i).
    { apply NoDup_length_incl; [exact Nd|rewrite seq_length; lia|].
      intros q Hq. apply in_seq. rewrite Forall_forall in Fa. specialize (Fa q Hq). lia. }
    apply Incl. apply in_seq. lia. }
Qed.

Lemma vstep_OSyncC s h d s' : VInv s h d -> step s OSyncC = Ok s' -> VInv s' h d.
Proof.
  intros V E. unfold Protocol.step in E.
  destruct (phase_ s) as [|i|t] eqn:Ep; try discriminate.
  assert (s' = mkSt (s_cfg s) (txl s) (f_sync (cml s)) (vls s) (ahd s) (ahc s) t (palh s) [] (palh s) (pts s)
                    t PIdle (inflight s) (asize s) (alatest s) (acnt s)) by congruence.
  subst s'. eapply (VInv_same_vls s); [reflexivity|reflexivity| |exact V].
  intros j x [M|(k & M1 & M2)]; [left; auto|]. cbn [phase_] in M1. discriminate.
Qed.

(* ---- along any run from a fresh store ---- *)
Lemma run_VInv nv ops : forall s h d s',
  Inv nv s h d -> VInv s h d -> run s ops = Ok s' -> exists h' d', Inv nv s' h' d' /\ VInv s' h' d'.
Proof.
  induction ops as [|o ops IH]; intros s h d s' I V E; cbn [Protocol.run] in E.
  - assert (s' = s) by congruence. subst. eauto.
  - destruct (step s o) as [s1| |] eqn:E1; cbn [bind] in E; try discriminate.
    destruct o.
    + eapply IH; [eapply step_OVal; eauto|eapply vstep_OVal; eauto|exact E].
    + destruct (step_OPre H H_len _ _ _ _ _ _ _ I E1) as (r & I' & _ & _ & _ & _ & Ph & _ & Hx & Ev & Ei).
      eapply IH; [exact I'| |exact E]. eapply vstep_OPre; eauto.
    + eapply IH; [eapply step_OFlush; eauto|eapply vstep_OFlush; eauto|exact E].
    + eapply IH; [eapply step_OSyncStart; eauto|eapply vstep_OSyncStart; eauto|exact E].
    + eapply IH; [eapply step_OSyncV; eauto|eapply vstep_OSyncV; eauto|exact E].
    + eapply IH; [eapply (proj1 (step_OSyncTx H H_len _ _ _ _ _ I E1))|eapply vstep_OSyncTx; eauto|exact E].
    + destruct (step_OSyncC H H_len _ _ _ _ _ I E1) as (I' & _).
      eapply IH; [exact I'|eapply vstep_OSyncC; eauto|exact E].
Qed.

End VP.
