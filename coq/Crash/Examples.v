(* C03 — the premises of the implications proved in Crash/ are satisfiable (no vacuous theorem):
   concrete reachable states, crash images and recoveries, evaluated with the hash of ToyHash.v. *)
From V Require Import Crash.Storage Crash.StorageProofs Crash.Protocol Crash.ToyHash Crash.ToyHashProofs
  Crash.Refuted Crash.Progress.
From Coq Require Import Lia.

Definition cfE := mkCfg 2 4 false 0 RSync false true.
Definition opsE := [OVal 0 [1; 2; 3]; OPre 0 [9]; OVal 0 [4]; OPre 0 [8]; OFlush FTx 50;
                    OSyncStart; OSyncV 0; OSyncTx; OFlush FCm 60; OSyncC; OVal 0 [5; 5]; OPre 0 [7]; OFlush FTx 1000; OFlush (FVal 0) 100].
Definition sE := get (run Hc (init Hc cfE 1) opsE) (init Hc cfE 1).
Lemma runE : run Hc (init Hc cfE 1) opsE = Ok sE. Proof. vm_compute. reflexivity. Qed.

(* a first-incarnation state with acknowledged transactions and an un-acknowledged one *)
Example ex_reach0_acked :
  exists s, reach0 Hc cfE 1 s /\ c_prealloc cfE = false /\ 0 < c_thld cfE /\
            acked s = 2 /\ precommitted s = 3 /\ phase_ s = PIdle /\ asize s = precommitted s /\
            precommitted s < committed s + c_maxact cfE.
Proof. exists sE. split; [exists opsE; exact runE|]. vm_compute. repeat split; congruence. Qed.

(* it has crash images, the recovery of one reloads the precommitted transaction or not *)
Example ex_crash_recover :
  crash sE (img_tx sE) /\ is_ok (recover Hc cfE (img_tx sE)) = true /\
  crash sE (img_dur sE) /\ is_ok (recover Hc cfE (img_dur sE)) = true.
Proof.
  split; [apply crash_tx|]. split; [vm_compute; reflexivity|]. split; [apply crash_dur|]. vm_compute. reflexivity.
Qed.

(* an interrupted recovery (0 leaves re-linked) followed by a crash image of it *)
Example ex_interrupted_recovery :
  exists s1, recover_upto Hc 0 cfE (img_dur sE) = Ok s1 /\ crash s1 (img_dur s1).
Proof.
  eexists. split; [vm_compute; reflexivity|]. apply crash_dur.
Qed.

(* the side conditions of the new-commit theorem hold in the initial state *)
Example ex_commit_premises :
  let s := init Hc cfE 1 in
  phase_ s = PIdle /\ asize s = precommitted s /\ precommitted s < committed s + c_maxact cfE /\
  nth_error (vls s) 0 = Some f_empty /\ precommitted s + 1 < 2 ^ 64 /\ pts s + 121 + 1 < 2 ^ 64.
Proof. vm_compute. repeat split; congruence. Qed.

(* a recovered state with a backlog (precommitted > committed), idle *)
Example ex_backlog :
  crash sE (img_os sE) /\
  exists s', recover Hc cfE (img_os sE) = Ok s' /\ phase_ s' = PIdle /\ committed s' < precommitted s'.
Proof. split; [apply crash_os|]. eexists. split; [vm_compute; reflexivity|]. vm_compute. split; reflexivity. Qed.

(* the repaired configuration has reachable states with a non-empty tree (premises of tree_ok) *)
Definition cfR := mkCfg 2 4 false 0 RSync false true.
Definition sR := get (run Hc (init Hc cfR 1) opsE) (init Hc cfR 1).
Example ex_repaired_reach :
  exists s, reach Hc cfR 1 s /\ c_prealloc cfR = false /\ 0 < c_thld cfR /\ c_ahtsync cfR = true /\ asize s = 3.
Proof.
  exists sR. split.
  - apply (Refuted.reach_run cfR 1 (init Hc cfR 1) opsE sR (r_init Hc cfR 1)). vm_compute. reflexivity.
  - vm_compute. repeat split; congruence.
Qed.

(* the configuration with the durable ResetSize (the code since 0b488aa) has reachable states and recoveries that go
   through the reset (premises of crash_safety_repaired) *)
Example ex_durable_reset_reach :
  reach Hc cfD' 1 sD3' /\ c_prealloc cfD' = false /\ 0 < c_thld cfD' /\ c_ahtsync cfD' = true /\
  c_ahtreset cfD' = RSync /\ crash sD3' (img_ahd sD3') /\ acked sD3' = 1.
Proof.
  split.
  - apply (Refuted.reach_run cfD' 1 sD2' opsD2 sD3'); [|vm_compute; reflexivity].
    apply (r_crash Hc cfD' 1 sD1' (img_dur sD1') (N.to_nat (len (i_txl (img_dur sD1')))) sD2');
      [|exact (crash_dur sD1')|vm_compute; reflexivity].
    apply (Refuted.reach_run cfD' 1 (init Hc cfD' 1) opsD1 sD1' (r_init Hc cfD' 1)). vm_compute. reflexivity.
  - split; [reflexivity|]. split; [reflexivity|]. split; [reflexivity|]. split; [reflexivity|].
    split; [exact (crash_ahd sD3')|]. vm_compute. reflexivity.
Qed.
