(* An executable 32-byte "hash" made of additions on small numbers only (Fletcher-style
   position-weighted sums).  The theorems of Crash/ are about an ARBITRARY function H with 32-byte
   outputs; this instance is used (1) to RUN the model against the traces of the real store — no
   hash VALUE is ever compared with the real store there, record bodies are abstract — and (2) as
   the concrete H of the refutation witnesses, which do not depend on any property of the hash. *)
From V Require Export Base.Bytes.

Definition Hc (x : bytes) : bytes :=
  match fold_left (fun acc b => match acc with (s1, s2) => let s1' := s1 + b + 1 in (s1', s2 + s1') end) x (1, 0) with
  | (s1, s2) => be_enc 8 s1 ++ be_enc 8 s2 ++ be_enc 8 (len x) ++ be_enc 8 (s1 + 3 * s2 + 5)
  end.
