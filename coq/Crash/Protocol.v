(* C03 — the commit protocol of embedded/store/immustore.go as a state machine over durability-aware
   log files (Crash/Storage.v), at the granularity of its storage operations, and the recovery of
   OpenWith.  Definitions only.

   Transliterated: precommit (values appended to a value log BEFORE the commit lock), performPrecommit
   (txLog.SetOffset(precommittedTxLogSize); tx record appended; aht.ResetSize + aht.Append with the
   tree's OWN sync threshold; cLogBuf.put), sync() (for each vLog Flush+Sync; txLog Flush+Sync;
   cLog.SetOffset(committedTxID*44); one 44-byte entry (txOff, txSize, alh) per tx; cLog Flush+Sync;
   only then committedTxID advances and commitWHub.DoneUpto acknowledges), OpenWith (commit-log size
   trimmed to a multiple of 44, or last non-zero slot by binary search with PreallocFiles; ONLY the
   last entry's transaction read back and its Alh compared; precommitted transactions reloaded from
   the tx log while id / PrevAlh chain and the record's own check hold AND its values are found in
   the value log with the recorded digest (fix ccd70f3); hash tree: ResetSize to the COMMITTED id when
   larger (fix 2077e08), "up to date" when EQUAL to the precommitted id, re-appended from the tx log
   otherwise).  Rewinds below the flushed size are truncations (fix 09014a8, Crash/Storage.v);
   ahtree.ResetSize = sync() + rewind of the tree's commit log (fix 6a85281) + its fsync (fix 0b488aa,
   c_ahtreset = RSync); the size checks of ahtree.OpenWith are the comparison "digest log at least as long as the
   commit log says" (fix 34e747f only makes it wrap-around free).  NOT modelled: I/O errors (every
   storage call succeeds or the process crashes: the deferred commit-log rewind of an incomplete
   commit loop, fix 8728288, is never taken) and DiscardPrecommittedTxsSince (which since 8728288
   also rewinds the tx log).

   Abstractions (named in the evidence): a tx record is  id(8) ‖ prevAlh(32) ‖ len(4) ‖ body ‖ alh(32)
   with alh = H(id ‖ prevAlh ‖ H body) and body = value reference (vlog, off, len, H values) ‖ opaque
   payload: "the record parses and its embedded Alh equals the recomputed one" is the integrity check
   of tx.readFrom; H is an arbitrary function (SHA-256 when the model is run).  One value extent per
   transaction (all values of a tx go to one value log, consecutively).  The hash tree keeps one
   32-byte leaf per transaction in ONE data log standing for the payload and digest logs (both are
   written and synced by the same discipline) plus its commit log of 12-byte entries.  No file
   rotation (multiapp chunks), no external commit allowance, no embedded-values mode.
   Atomicity of each critical section (commit mutex, commitStateRWMutex, per-vLog lock, the tree's
   mutex) is a TRUSTED ASSUMPTION: every op below is one atomic step, any interleaving of ops is
   allowed.  A Flush+Sync pair is one step because the state between them is reachable by OFlush.
   The value logs are synced in ANY order (store.sync ranges over a Go map). *)
From V Require Export Crash.Storage.

Section Proto.
Variable H : bytes -> bytes.

(* ahtree.ResetSize to a smaller size: what happens to the tree's commit log *)
Inductive rmode :=
| RMem    (* sizes lowered in memory only (the code before fix 6a85281) *)
| RCut    (* the commit log is rewound = truncated, NOT fsynced (the code between 6a85281 and 0b488aa) *)
| RSync.  (* rewound and fsynced (the code as it is, fix 0b488aa = fixes/C03-aht-durable-reset.diff) *)

Record cfg := mkCfg {
  c_thld : N;        (* AHTOpts.SyncThld *)
  c_maxact : N;      (* MaxActiveTransactions *)
  c_prealloc : bool; (* PreallocFiles *)
  c_psize : N;       (* bytes preallocated (zero-filled) in the tx and commit logs *)
  c_ahtreset : rmode; (* NOT an option of the store: which ahtree.ResetSize the model runs.  RSync = the code
                        as it is (fix 0b488aa: the tree's commit log is rewound AND fsynced before the
                        payload/digest logs can be truncated); RCut, RMem = history (Crash/Refuted.v) *)
  c_preallocfix : bool; (* NOT an option: true = proposed repair fixes/C03-prealloc-clog-trim.diff (OpenWith
                        ignores a partially written last commit-log entry of a preallocated commit log) *)
  c_ahtsync : bool   (* NOT an option of the store: true = the code since fix b260503 (store.sync() fsyncs the
                        hash tree after the tx log and before the commit entries are appended); false = the
                        code before that fix (kept for the historical witness Crash/Refuted.v tree_refuted) *)
}.

Definition alh0 : bytes := H [].
Definition alh_of (id : N) (prev body : bytes) : bytes := H (be_enc 8 id ++ prev ++ H body).
Definition enc_rec (id : N) (prev body : bytes) : bytes :=
  be_enc 8 id ++ prev ++ be_enc 4 (len body) ++ body ++ alh_of id prev body.

Fixpoint list_eqb_N (a b : bytes) : bool :=
  match a, b with
  | [], [] => true
  | x :: a', y :: b' => (x =? y) && list_eqb_N a' b'
  | _, _ => false
  end.

(* tx.readFrom on the bytes starting at a record: (id, prevAlh, body, record length) *)
Definition parse_rec (b : bytes) : option (N * bytes * bytes * N) :=
  if len b <? 44 then None else
  let id := be_dec (take 8 b) in
  if id =? 0 then None else                       (* "underlying file may be preallocated": io.EOF *)
  let prev := take 32 (drop 8 b) in
  let bl := be_dec (take 4 (drop 40 b)) in
  if 2 ^ 32 <=? 44 + bl + 32 then None else       (* record sizes are bounded (maxTxSize; uint32 in the commit log) *)
  if len b <? 44 + bl + 32 then None else
  let body := take bl (drop 44 b) in
  if list_eqb_N (take 32 (drop (44 + bl) b)) (alh_of id prev body)
  then Some (id, prev, body, 44 + bl + 32) else None.

(* value reference at the head of a record body *)
Definition enc_vref (v off n : N) (hv : bytes) : bytes := be_enc 1 v ++ be_enc 8 off ++ be_enc 4 n ++ hv.
Definition body_vref (body : bytes) : option (N * N * N * bytes) :=
  if len body <? 45 then None else
  Some (be_dec (take 1 body), be_dec (take 8 (drop 1 body)), be_dec (take 4 (drop 9 body)), take 32 (drop 13 body)).

Definition enc_entry (off size : N) (alh : bytes) : bytes := be_enc 8 off ++ be_enc 4 size ++ alh.
(* commit-log entry of tx k (k >= 1) *)
Definition entry_at (cm : bytes) (k : N) : option (N * N * bytes) :=
  let e := slice cm (44 * (k - 1)) 44 in
  if len e <? 44 then None else Some (be_dec (take 8 e), be_dec (take 4 (drop 8 e)), drop 12 e).
(* the record bytes of committed tx k as ReadTx finds them: through the commit-log entry *)
Definition tx_at (tx cm : bytes) (k : N) : option bytes :=
  match entry_at cm k with
  | Some (off, size, _) => if off + size <=? len tx then Some (slice tx off size) else None
  | None => None
  end.

(* what a reader of the two logs sees as "transaction k is well formed and chained":
   the commit-log entry k points to a record that parses with id k, whose PrevAlh is the Alh recorded
   for transaction k-1 (H [] for k = 1) and whose own Alh is the one recorded in entry k *)
Definition alh_at (cm : bytes) (k : N) : bytes :=
  if k =? 0 then alh0 else match entry_at cm k with Some (_, _, a) => a | None => [] end.
Definition tx_ok (tx cm : bytes) (k : N) : Prop :=
  exists raw prev body n,
    tx_at tx cm k = Some raw /\ parse_rec raw = Some (k, prev, body, n) /\ n = len raw /\
    prev = alh_at cm (k - 1) /\ alh_at cm k = alh_of k prev body.
Definition history_ok (tx cm : bytes) (n : N) : Prop := forall k, 1 <= k <= n -> tx_ok tx cm k.

(* PV done: sync() is going through the value logs (Go ranges over a MAP: any order, each log once);
   done = the logs already flushed and fsynced *)
Inductive phase := PIdle | PV (done : list nat) | PC (t : N).

Record st := mkSt {
  s_cfg : cfg;
  txl : file; cml : file; vls : list file; ahd : file; ahc : file;
  committed : N; calh : bytes;            (* committedTxID, committedAlh *)
  pbuf : list (N * bytes * N * N);        (* cLogBuf: (id, alh, txOff, txSize), oldest first *)
  palh : bytes;                           (* inmemPrecommittedAlh *)
  pts : N;                                (* precommittedTxLogSize *)
  acked : N;                              (* commitWHub: every id <= acked is acknowledged *)
  phase_ : phase;                         (* where store.sync() stands (commitStateRWMutex held when not idle) *)
  inflight : list (N * N * N * bytes);    (* value extents appended by committers not yet precommitted *)
  asize : N; alatest : N; acnt : N        (* hash tree: size, latestSyncedNode, cLogBufCount *)
}.

Definition precommitted (s : st) : N := committed s + N.of_nat (length (pbuf s)).

(* the values of committed transaction k are in the FSYNCED content of the value log its record
   refers to and hash to the digest stored in the record (empty values are never looked at) *)
Definition values_durable_for (s : st) (k : N) : Prop :=
  exists raw prev body n v vo vn hv,
    tx_at (durable (txl s)) (durable (cml s)) k = Some raw /\
    parse_rec raw = Some (k, prev, body, n) /\ body_vref body = Some (v, vo, vn, hv) /\
    (vn = 0 \/ exists f, nth_error (vls s) (N.to_nat v) = Some f /\ vo + vn <= len (durable f) /\
                         H (slice (durable f) vo vn) = hv).

(* the Alh of transaction k as the running store knows it: committed ones through the commit log,
   precommitted ones from the commit buffer *)
Definition tx_alh (s : st) (k : N) : bytes :=
  if k <=? committed s then alh_at (durable (cml s)) k
  else match nth_error (pbuf s) (N.to_nat (k - committed s - 1)) with Some (_, a, _, _) => a | None => [] end.
(* leaf k of the hash tree, as the process sees it *)
Definition tree_leaf (s : st) (k : N) : bytes := slice (lview (ahd s)) (32 * (k - 1)) 32.

Definition zeros (n : N) : bytes := repeat 0 (N.to_nat n).
Definition init (c : cfg) (nv : nat) : st :=
  (* a preallocated file is created zero-filled and fsynced; its position is its size until the
     first SetOffset (performPrecommit / sync rewind it to 0) *)
  let z0 := if c_prealloc c then f_open (zeros (c_psize c)) else f_empty in
  mkSt c z0 z0 (repeat f_empty nv) f_empty f_empty 0 alh0 [] alh0 0 0 PIdle [] 0 0 0.

Fixpoint set_nth {A} (l : list A) (i : nat) (x : A) : list A :=
  match l, i with
  | [], _ => []
  | _ :: r, O => x :: r
  | y :: r, S j => y :: set_nth r j x
  end.
Fixpoint remove_nth {A} (l : list A) (i : nat) : list A :=
  match l, i with
  | [], _ => []
  | _ :: r, O => r
  | y :: r, S j => y :: remove_nth r j
  end.

Definition upd_files (s : st) (t c : file) (v : list file) (d a : file) : st :=
  mkSt (s_cfg s) t c v d a (committed s) (calh s) (pbuf s) (palh s) (pts s) (acked s) (phase_ s)
       (inflight s) (asize s) (alatest s) (acnt s).

(* ---- hash tree (embedded/ahtree): sync(), ResetSize, Append ---- *)
Definition aht_entry (n : N) : bytes := be_enc 8 (32 * (n - 1)) ++ be_enc 4 32.
Fixpoint aht_entries (from : N) (cnt : nat) : bytes :=
  match cnt with O => [] | S c => aht_entry (from + 1) ++ aht_entries (from + 1) c end.

Record aht := mkAht { a_d : file; a_c : file; a_size : N; a_latest : N; a_cnt : N }.

Definition aht_sync (a : aht) : res aht :=
  if a_cnt a =? 0 then Ok a else
  let d := f_sync (a_d a) in
  match f_setoffset (a_c a) (12 * a_latest a) with
  | None => Err EOther
  | Some c1 =>
      let c2 := f_sync (f_append c1 (aht_entries (a_latest a) (N.to_nat (a_cnt a)))) in
      Ok (mkAht d c2 (a_size a) (a_latest a + a_cnt a) 0)
  end.

Definition aht_reset (m : rmode) (a : aht) (n : N) : res aht :=
  if a_size a <? n then Err EOther            (* ErrCannotResetToLargerSize *)
  else if a_size a =? n then Ok a
  else do a1 <- aht_sync a;
       match m with
       | RMem =>
           (* sizes are lowered IN MEMORY only; the tree's commit log keeps its tail on disk *)
           Ok (mkAht (a_d a1) (a_c a1) n n 0)
       | RCut =>
           (* fix 6a85281: cLog.SetOffset(newSize*12), a truncation since 09014a8, pending *)
           match f_setoffset (a_c a1) (12 * n) with
           | None => Err EOther
           | Some c1 => Ok (mkAht (a_d a1) c1 n n 0)
           end
       | RSync =>
           (* fix 0b488aa: ... and fsynced *)
           match f_setoffset (a_c a1) (12 * n) with
           | None => Err EOther
           | Some c1 => Ok (mkAht (a_d a1) (f_sync c1) n n 0)
           end
       end.

Definition aht_append (thld : N) (a : aht) (leaf : bytes) : res aht :=
  match f_setoffset (a_d a) (32 * a_size a) with
  | None => Err EOther
  | Some d1 =>
      let a1 := mkAht (f_append d1 leaf) (a_c a) (a_size a) (a_latest a) (a_cnt a + 1) in
      do a2 <- (if a_cnt a1 =? thld then aht_sync a1 else Ok a1);
      Ok (mkAht (a_d a2) (a_c a2) (a_size a2 + 1) (a_latest a2) (a_cnt a2))
  end.

Definition aht_of (s : st) : aht := mkAht (ahd s) (ahc s) (asize s) (alatest s) (acnt s).

(* ---- operations ---- *)
Inductive fid := FTx | FCm | FVal (v : nat) | FAhd | FAhc.
Inductive op :=
| OVal (v : nat) (d : bytes)        (* a committer appends its values to value log v (no commit lock) *)
| OPre (i : nat) (payload : bytes)  (* performPrecommit by the committer owning inflight extent i *)
| OFlush (f : fid) (n : N)          (* n buffered bytes of a file reach the OS (Flush, or buffer full) *)
| OSyncStart                        (* sync(): lock taken, something to do *)
| OSyncV (v : nat)                  (* one more value log: Flush + Sync *)
| OSyncTx                           (* txLog Flush + Sync; cLog.SetOffset; commit entries appended *)
| OSyncC.                           (* cLog Flush + Sync; committedTxID advances; acknowledgement *)

Definition phase_idle (p : phase) : bool := match p with PIdle => true | _ => false end.

Definition pbuf_entries (pb : list (N * bytes * N * N)) : bytes :=
  concat (map (fun e => match e with (_, alh, off, size) => enc_entry off size alh end) pb).

Definition step (s : st) (o : op) : res st :=
  let c := s_cfg s in
  match o with
  | OVal v d =>
      match nth_error (vls s) v with
      | None => Err EOther
      | Some f =>
          let s1 := upd_files s (txl s) (cml s) (set_nth (vls s) v (f_append f d)) (ahd s) (ahc s) in
          Ok (mkSt c (txl s1) (cml s1) (vls s1) (ahd s1) (ahc s1) (committed s) (calh s) (pbuf s) (palh s)
                   (pts s) (acked s) (phase_ s)
                   (inflight s ++ [(N.of_nat v, f_offset f, len d, H d)]) (asize s) (alatest s) (acnt s))
      end
  | OPre i payload =>
      if negb (phase_idle (phase_ s)) then Err EOther else
      match nth_error (inflight s) i with
      | None => Err EOther
      | Some (v, vo, vn, hv) =>
          let p := precommitted s in
          if committed s + c_maxact c <=? p then Err EOther      (* ErrMaxActiveTransactionsLimitExceeded *)
          else match f_setoffset_gen (c_prealloc c) (txl s) (pts s) with
          | None => Err EOther
          | Some t1 =>
              let id := p + 1 in
              let body := enc_vref v vo vn hv ++ payload in
              let raw := enc_rec id (palh s) body in
              (* widths of the fixed-size fields (uint64 id / offset, uint32 lengths) *)
              if negb ((id <? 2 ^ 64) && (len raw <? 2 ^ 32) && (pts s + len raw <? 2 ^ 64) &&
                       (v <? 256) && (vo <? 2 ^ 64) && (vn <? 2 ^ 32)) then Err EOther else
              let alh := alh_of id (palh s) body in
              let t2 := f_append t1 raw in
              do a1 <- aht_reset (c_ahtreset c) (aht_of s) p;
              do a2 <- aht_append (c_thld c) a1 alh;
              Ok (mkSt c t2 (cml s) (vls s) (a_d a2) (a_c a2) (committed s) (calh s)
                       (pbuf s ++ [(id, alh, pts s, len raw)]) alh (pts s + len raw) (acked s) PIdle
                       (remove_nth (inflight s) i) (a_size a2) (a_latest a2) (a_cnt a2))
          end
      end
  | OFlush f n =>
      match f with
      | FTx => Ok (upd_files s (f_flushn (txl s) n) (cml s) (vls s) (ahd s) (ahc s))
      | FCm => Ok (upd_files s (txl s) (f_flushn (cml s) n) (vls s) (ahd s) (ahc s))
      | FVal v =>
          match nth_error (vls s) v with
          | None => Err EOther
          | Some g => Ok (upd_files s (txl s) (cml s) (set_nth (vls s) v (f_flushn g n)) (ahd s) (ahc s))
          end
      | FAhd => Ok (upd_files s (txl s) (cml s) (vls s) (f_flushn (ahd s) n) (ahc s))
      | FAhc => Ok (upd_files s (txl s) (cml s) (vls s) (ahd s) (f_flushn (ahc s) n))
      end
  | OSyncStart =>
      if phase_idle (phase_ s) && negb (precommitted s =? committed s) then
        Ok (mkSt c (txl s) (cml s) (vls s) (ahd s) (ahc s) (committed s) (calh s) (pbuf s) (palh s) (pts s)
                 (acked s) (PV []) (inflight s) (asize s) (alatest s) (acnt s))
      else Err EOther
  | OSyncV v =>
      match phase_ s with
      | PV done =>
          if existsb (Nat.eqb v) done then Err EOther else
          match nth_error (vls s) v with
          | Some g =>
              Ok (mkSt c (txl s) (cml s) (set_nth (vls s) v (f_sync g)) (ahd s) (ahc s) (committed s) (calh s)
                       (pbuf s) (palh s) (pts s) (acked s) (PV (v :: done)) (inflight s) (asize s) (alatest s) (acnt s))
          | None => Err EOther
          end
      | _ => Err EOther
      end
  | OSyncTx =>
      match phase_ s with
      | PV done =>
          if negb (Nat.eqb (length done) (length (vls s))) then Err EOther else   (* every value log *)
          let t1 := f_sync (txl s) in
          do a <- (if c_ahtsync c then aht_sync (aht_of s) else Ok (aht_of s));
          match f_setoffset_gen (c_prealloc c) (cml s) (44 * committed s) with
          | None => Err EOther
          | Some c1 =>
              Ok (mkSt c t1 (f_append c1 (pbuf_entries (pbuf s))) (vls s) (a_d a) (a_c a) (committed s) (calh s)
                       (pbuf s) (palh s) (pts s) (acked s) (PC (precommitted s)) (inflight s)
                       (a_size a) (a_latest a) (a_cnt a))
          end
      | _ => Err EOther
      end
  | OSyncC =>
      match phase_ s with
      | PC t =>
          Ok (mkSt c (txl s) (f_sync (cml s)) (vls s) (ahd s) (ahc s) t (palh s) [] (palh s) (pts s)
                   t PIdle (inflight s) (asize s) (alatest s) (acnt s))
      | _ => Err EOther
      end
  end.

Fixpoint run (s : st) (ops : list op) : res st :=
  match ops with
  | [] => Ok s
  | o :: r => do s1 <- step s o; run s1 r
  end.

(* ---- crash ---- *)
Record images := mkImg { i_txl : bytes; i_cml : bytes; i_vls : list bytes; i_ahd : bytes; i_ahc : bytes }.

(* every file loses, independently, an arbitrary suffix of its un-fsynced writes *)
Definition crash (s : st) (im : images) : Prop :=
  crash_image (txl s) (i_txl im) /\ crash_image (cml s) (i_cml im) /\
  Forall2 crash_image (vls s) (i_vls im) /\
  crash_image (ahd s) (i_ahd im) /\ crash_image (ahc s) (i_ahc im).

(* ---- recovery: OpenWith ---- *)
Definition all_zero (b : bytes) : bool := forallb (fun x => x =? 0) b.

(* PreallocFiles: binary search for the last non-zero 44-byte slot (immustore.go:455-487) *)
Fixpoint prealloc_search (fuel : nat) (cm : bytes) (left right : N) : N :=
  match fuel with
  | O => left
  | S f =>
      if left <? right then
        let middle := left + ((right - left) + 1) / 2 in
        if all_zero (slice cm ((middle - 1) * 44) 44) then prealloc_search f cm left (middle - 1)
        else prealloc_search f cm middle right
      else left
  end.
Definition prealloc_csz (cm : bytes) : N :=
  let left := prealloc_search (length cm) cm 1 (len cm / 44) in
  if all_zero (slice cm ((left - 1) * 44) 44) then 0 else left * 44.

(* precommittedValuesReadable (fix ccd70f3): the value extent a reloaded record refers to must be in
   its value log and hash to the digest of the record.  Empty values are not looked at.  The value
   reference is part of the record format (Go parses the entries in tx.readFrom): a body without one
   does not pass. *)
Definition vref_readable (vl : list bytes) (x : N * N * N * bytes) : bool :=
  match x with (v, vo, vn, hv) =>
    (vn =? 0) ||
    match nth_error vl (N.to_nat v) with
    | Some img => (vo + vn <=? len img) && list_eqb_N (H (slice img vo vn)) hv
    | None => false
    end
  end.
Definition values_readable_img (vl : list bytes) (body : bytes) : bool :=
  match body_vref body with Some x => vref_readable vl x | None => false end.

(* precommitted transactions reloaded from the tx log after the last committed one *)
Fixpoint reload (fuel : nat) (tx : bytes) (vl : list bytes) (pos pid : N) (pa : bytes)
  : list (N * bytes * N * N) * N * bytes :=
  match fuel with
  | O => ([], pos, pa)
  | S f =>
      match parse_rec (drop pos tx) with
      | None => ([], pos, pa)
      | Some (id, prev, body, n) =>
          if (id =? pid + 1) && list_eqb_N prev pa && (pos + n <? 2 ^ 64) (* int64 file offsets *)
             && values_readable_img vl body then
            let a := alh_of id prev body in
            match reload f tx vl (pos + n) id a with
            | (l, pos', pa') => ((id, a, pos, n) :: l, pos', pa')
            end
          else ([], pos, pa)
      end
  end.

(* Alh of tx k read back through the commit log (k <= committed) or the reloaded buffer *)
Definition read_alh (tx cm : bytes) (c : N) (pb : list (N * bytes * N * N)) (k : N) : res bytes :=
  if k <=? c then
    match entry_at cm k with
    | None => Err ECorruptedData
    | Some (off, _, _) =>
        match parse_rec (drop off tx) with
        | Some (id, prev, body, _) => Ok (alh_of id prev body)
        | None => Err ECorruptedData
        end
    end
  else match nth_error pb (N.to_nat (k - c - 1)) with
       | Some (_, a, _, _) => Ok a
       | None => Err ECorruptedData
       end.

(* syncBinaryLinking: the tree is behind, leaves are re-appended from the tx log.  `upto` bounds the
   number of leaves (a crash DURING recovery stops it anywhere). *)
Fixpoint relink (n : nat) (thld : N) (tx cm : bytes) (c : N) (pb : list (N * bytes * N * N)) (a : aht) : res aht :=
  match n with
  | O => Ok a
  | S m =>
      do leaf <- read_alh tx cm c pb (a_size a + 1);
      do a1 <- aht_append thld a leaf;
      relink m thld tx cm c pb a1
  end.

(* SetOffset at open (partial last entry): a truncation since fix 09014a8 *)
Definition open_trim (img : bytes) (unit_ : N) : file :=
  let r := len img mod unit_ in
  if 0 <? r then mkFile img [PT (len img - r)] (len img - r) [] else f_open img.

(* the part of recovery that reads the tx log and the commit log:
   (committedTxID, committedAlh, reloaded cLogBuf, precommittedAlh, precommittedTxLogSize) *)
Definition recover_logs_at (csz : N) (tx cm : bytes) (vl : list bytes)
  : res (N * bytes * list (N * bytes * N * N) * bytes * N) :=
  do cst <- (if 0 <? csz then
      match entry_at cm (csz / 44) with
      | None => Err ECorruptedData
      | Some (off, size, alh) =>
          if len tx <? off + size then Err ECorruptedData else     (* "size is too small" *)
          match parse_rec (drop off tx) with
          | None => Err ECorruptedData                               (* "could not read the last transaction" *)
          | Some (id, prev, body, _) =>
              if list_eqb_N alh (alh_of id prev body) then Ok (csz / 44, alh, off + size)
              else Err ECorruptedData                                (* "digest mismatch in the last transaction" *)
          end
      end
    else Ok (0, alh0, 0));
  match cst with
  | (cid, ca, ctls) =>
      match reload (S (length tx)) tx vl ctls cid ca with
      | (pb, ptls, pa) => Ok (cid, ca, pb, pa, ptls)
      end
  end.

(* slot = the first j < 44 bytes of `full`, zero filled: a partially written commit-log entry *)
Fixpoint zero_padded_prefix_upto (j : nat) (slot full : bytes) : bool :=
  match j with
  | O => false
  | S i => list_eqb_N slot (take (N.of_nat i) full ++ zeros (44 - N.of_nat i)) || zero_padded_prefix_upto i slot full
  end.
Definition zero_padded_prefix (slot full : bytes) : bool := zero_padded_prefix_upto 44 slot full.

Definition recover_logs (c : cfg) (tx cm : bytes) (vl : list bytes)
  : res (N * bytes * list (N * bytes * N * N) * bytes * N) :=
  let csz := if c_prealloc c then prealloc_csz cm else len cm - len cm mod 44 in
  match recover_logs_at csz tx cm vl with
  | Ok r => Ok r
  | e =>
      (* proposed repair for PreallocFiles: the last non-zero slot does not validate; if it is a zero
         padded prefix of the entry of the transaction found in the tx log right after the previous
         commit, it is a partial write of a not yet committed transaction: ignore it *)
      if c_prealloc c && c_preallocfix c && (0 <? csz) then
        match recover_logs_at (csz - 44) tx cm vl with
        | Ok (cid, ca, (id, a, off, n) :: pb, pa, ptls) =>
            if zero_padded_prefix (slice cm (csz - 44) 44) (enc_entry off n a)
            then Ok (cid, ca, (id, a, off, n) :: pb, pa, ptls) else e
        | _ => e
        end
      else e
  end.

(* recovery, relinking at most `upto` leaves *)
Definition recover_upto (upto : nat) (c : cfg) (im : images) : res st :=
  let tx := i_txl im in
  let cm := i_cml im in
  let cmf := if c_prealloc c then f_open cm else open_trim cm 44 in
  do lg <- recover_logs c tx cm (i_vls im);
  match lg with
  | (cid, ca, pb, pa, ptls) =>
      let p := cid + N.of_nat (length pb) in
      (* ahtree.OpenWith *)
      let ac := i_ahc im in
      let asz := len ac / 12 in
      if (0 <? asz) && (len (i_ahd im) <? 32 * asz) then Err ECorruptedData else
      let a0 := mkAht (f_open (i_ahd im)) (open_trim ac 12) asz asz 0 in
      (* fix 2077e08: leaves beyond the COMMITTED transactions are not trusted; they are re-appended
         from the reloaded precommitted transactions *)
      do a1 <- (if cid <? asz then aht_reset (c_ahtreset c) a0 cid else Ok a0);
      do a2 <- relink (Nat.min upto (N.to_nat (p - a_size a1))) (c_thld c) tx cm cid pb a1;
      Ok (mkSt c (f_open tx) cmf (map f_open (i_vls im)) (a_d a2) (a_c a2)
               cid ca pb pa ptls cid PIdle [] (a_size a2) (a_latest a2) (a_cnt a2))
  end.

Definition recover (c : cfg) (im : images) : res st := recover_upto (N.to_nat (len (i_txl im))) c im.

(* ---- reachability ---- *)
(* first incarnation: a fresh store driven by any sequence of operations *)
Definition reach0 (c : cfg) (nv : nat) (s : st) : Prop := exists ops, run (init c nv) ops = Ok s.

(* closed under crash + recovery (any number of crashes, also during recovery).  Operations are
   performed only by a store whose Open has RETURNED, i.e. whose hash tree has been re-linked up to the
   precommitted id (`ready`); a recovery interrupted earlier (recover_upto with a small `upto`) is a
   state that can only crash again. *)
Definition ready (s : st) : Prop := asize s = precommitted s.
Inductive reach (c : cfg) (nv : nat) : st -> Prop :=
| r_init : reach c nv (init c nv)
| r_step : forall s o s', reach c nv s -> ready s -> step s o = Ok s' -> reach c nv s'
| r_crash : forall s im upto s', reach c nv s -> crash s im -> recover_upto upto c im = Ok s' -> reach c nv s'.

End Proto.
