(* C03 — what the invariant gives to a reader of the files, and the recovery of OpenWith on any
   crash image of a state satisfying it. *)
From V Require Import Crash.Storage Crash.StorageProofs Crash.Protocol Crash.RecordProofs Crash.AhtProofs Crash.InvProofs Crash.ValuesProofs.
From Coq Require Import ZifyN ZifyNat ZifyBool Lia.

Section RC.
Variable H : bytes -> bytes.
Hypothesis H_len : forall x, length (H x) = 32%nat.

Notation chain := (chain H).
Notation alh0 := (alh0 H).
Notation Inv := (Inv H).
Notation rec_ok := (rec_ok H).

Lemma firstn_firstn_le {A} (k c : nat) (h : list A) : (k <= c)%nat -> firstn k (firstn c h) = firstn k h.
Proof. intros. rewrite firstn_firstn. f_equal. lia. Qed.

Lemma entries_prefix pid pa off h k c : chain pid pa off h -> (k <= c)%nat -> (c <= length h)%nat ->
  take (44 * N.of_nat k) (entries (firstn c h)) = entries (firstn k h).
Proof.
  intros Hc Hk Hl.
  rewrite <- (firstn_skipn k (firstn c h)). rewrite firstn_firstn_le by auto. rewrite entries_app.
  rewrite <- (entries_firstn_len H H_len pid pa off h k) by (auto; lia).
  apply take_app_exact.
Qed.

Lemma raws_prefix h k c : (k <= c)%nat ->
  take (len (raws (firstn k h))) (raws (firstn c h)) = raws (firstn k h).
Proof.
  intros Hk. rewrite <- (firstn_skipn k (firstn c h)). rewrite firstn_firstn_le by auto.
  rewrite raws_app. apply take_app_exact.
Qed.

Lemma raws_firstn_mono h k c : (k <= c)%nat -> len (raws (firstn k h)) <= len (raws (firstn c h)).
Proof.
  intros Hk. rewrite <- (firstn_skipn k (firstn c h)). rewrite firstn_firstn_le by auto.
  rewrite raws_app, len_app. lia.
Qed.

(* reading committed transaction k (1 <= k <= c) out of ANY pair of contents whose prefixes are the
   encodings of the first c entries / the first c records *)
Lemma read_committed h tx cm c k :
  chain 0 alh0 0 h -> (c <= length h)%nat ->
  take (44 * N.of_nat c) cm = entries (firstn c h) ->
  take (len (raws (firstn c h))) tx = raws (firstn c h) -> len (raws (firstn c h)) <= len tx ->
  (1 <= k <= c)%nat ->
  exists r, nth_error h (k - 1) = Some r /\ rec_ok r /\ t_id r = N.of_nat k /\
    entry_at cm (N.of_nat k) = Some (t_off r, len (t_raw r), t_alh r) /\
    tx_at tx cm (N.of_nat k) = Some (t_raw r) /\
    t_off r + len (t_raw r) = len (raws (firstn k h)) /\
    t_prev r = last_alh alh0 (firstn (k - 1) h) /\
    parse_rec H (drop (t_off r) tx) = Some (t_id r, t_prev r, t_body r, len (t_raw r)).
Proof.
  intros Hc Hl Tc Tt Ltx Hk.
  destruct k as [|k]; [lia|]. replace (S k - 1)%nat with k by lia.
  destruct (nth_error h k) as [r|] eqn:En; [|apply nth_error_None in En; lia].
  destruct (chain_nth H H_len _ _ _ _ _ _ Hc En) as (Hr & Hid & Ho & Hp).
  exists r. split; [reflexivity|]. split; [auto|]. split; [lia|].
  assert (Tk: take (44 * N.of_nat (S k)) cm = entries (firstn (S k) h)).
  { rewrite <- (take_take _ (44 * N.of_nat c)) by lia. rewrite Tc. eapply entries_prefix; eauto. lia. }
  assert (Tr: take (len (raws (firstn (S k) h))) tx = raws (firstn (S k) h)).
  { rewrite <- (take_take _ (len (raws (firstn c h)))) by (apply raws_firstn_mono; lia).
    rewrite Tt. apply raws_prefix. lia. }
  pose proof (entry_at_history H H_len _ _ _ _ _ _ _ Hc En Tk) as Ee.
  destruct (record_at_history H H_len _ _ _ _ _ _ Hc En Tr) as (Rl & Rs).
  assert (Lk: len (raws (firstn (S k) h)) <= len tx).
  { pose proof (raws_firstn_mono h (S k) c). lia. }
  split; [exact Ee|]. split; [|split; [exact Rl|split; [exact Hp|]]].
  - unfold tx_at. rewrite Ee. destruct (N.leb_spec (t_off r + len (t_raw r)) (len tx)); [|lia].
    rewrite Rs. reflexivity.
  - destruct Hr as (Hparse & _). apply Hparse.
    unfold slice in Rs. exact Rs.
Qed.

(* ---- ack_implies_durable, from the invariant ---- *)
Lemma Inv_acked_durable nv s h d k :
  Inv nv s h d -> 1 <= k <= committed s ->
  exists r, nth_error h (N.to_nat k - 1) = Some r /\ rec_ok r /\ t_id r = k /\
    entry_at (durable (cml s)) k = Some (t_off r, len (t_raw r), t_alh r) /\
    tx_at (durable (txl s)) (durable (cml s)) k = Some (t_raw r).
Proof.
  intros I Hk. destruct I as [_ _ Ichain Iplen Icd _ _ _ _ _ Itdur _ _ Icdur _ _].
  destruct Itdur as (T1 & T2 & _). destruct Icdur as (C1 & _ & C3).
  set (c := N.to_nat (committed s)).
  assert (Hcl: (c <= length h)%nat) by (unfold c; lia).
  assert (Hcd: (c <= N.to_nat d)%nat) by (unfold c; lia).
  destruct (read_committed h (durable (txl s)) (durable (cml s)) c (N.to_nat k)) as (r & R1 & R2 & R3 & R4 & R5 & _); auto.
  - unfold c. rewrite Nnat.N2Nat.id. exact C3.
  - rewrite <- (take_take _ (dts h d)) by (unfold dts; apply raws_firstn_mono; auto).
    rewrite T2. apply raws_prefix. auto.
  - pose proof (raws_firstn_mono h c (N.to_nat d) Hcd). unfold dts in T1. lia.
  - unfold c. lia.
  - rewrite Nnat.N2Nat.id in *. exists r. split; [auto|]. split; [auto|]. split; [auto|]. split; auto.
Qed.

(* ---- the commit-log image ---- *)
Lemma firstn_add {A} (c m : nat) (h : list A) : firstn (c + m) h = firstn c h ++ firstn m (skipn c h).
Proof.
  revert h; induction c as [|c IH]; intros h; simpl; auto.
  destruct h as [|x h]; simpl.
  - rewrite firstn_nil. reflexivity.
  - f_equal. apply IH.
Qed.

Lemma cpre_pstream o p : cpre o p -> pstream o p /\ concat_w p = [].
Proof.
  intros [-> | ->]; (split; [|reflexivity]).
  - left. exact Logic.I.
  - right. exists []. split; [reflexivity|exact Logic.I].
Qed.

Lemma cm_image nv s h d cm :
  Inv nv s h d -> crash_image (cml s) cm ->
  exists c', committed s <= c' /\ c' <= d /\ 44 * c' <= len cm /\ len cm < 44 * c' + 44 /\
             take (44 * c') cm = entries (firstn (N.to_nat c') h) /\
             (c' = committed s \/ exists t, phase_ s = PC t).
Proof.
  intros I Hci. destruct I as [_ _ Ichain Iplen Icd _ _ _ _ _ _ _ _ Icdur Icph _].
  destruct Icdur as (C1 & C2 & C3).
  set (c := committed s) in *. set (p := precommitted s) in *.
  set (E := entries (skipn (N.to_nat c) h)).
  assert (LE: len E = 44 * (p - c)).
  { unfold E. rewrite (entries_skipn_len H H_len _ _ _ _ _ Ichain) by lia. lia. }
  assert (Himg: exists m j, 44 * c <= m /\ j <= len E /\ (0 < j -> d = p /\ exists t, phase_ s = PC t) /\
                            cm = wr (take m (durable (cml s))) (44 * c) (take j E)).
  { assert (Quiet: cpre (44 * c) (pending (cml s)) ->
              exists m j, 44 * c <= m /\ j <= len E /\ (0 < j -> d = p /\ exists t, phase_ s = PC t) /\
                          cm = wr (take m (durable (cml s))) (44 * c) (take j E)).
    { intros P1. destruct (cpre_pstream _ _ P1) as (Hps & Hnil).
      destruct (crash_image_pstream _ _ _ Hps C1 Hci) as (m & j & Hm & Hj & ->).
      rewrite Hnil in *. rewrite len_nil in Hj. assert (j = 0) by lia. subst j.
      exists m, 0. split; [exact Hm|]. split; [lia|]. split; [lia|]. rewrite !take_0. reflexivity. }
    destruct (phase_ s) as [|i|t] eqn:Ep.
    - destruct Icph as (P1 & _). auto.
    - destruct Icph as (P1 & _). auto.
    - destruct Icph as (P1 & P2 & P3 & P4 & P5 & P6). subst t.
      unfold fstream in P4, P5. apply pstream_app_l in P4.
      rewrite concat_w_app, concat_w_tail in P5.
      destruct (crash_image_pstream _ _ _ P4 C1 Hci) as (m & j & Hm & Hj & ->).
      assert (Lpe: len (concat_w (pending (cml s))) <= len E) by (unfold E; rewrite <- P5, len_app; lia).
      exists m, j. split; [exact Hm|]. split; [lia|]. split; [intros _; split; [exact P2|eauto]|].
      f_equal. unfold E. rewrite <- P5. rewrite take_app_le by lia. reflexivity. }
  destruct Himg as (m0 & j & Hm0 & Hj & Hjd & ->).
  set (D := take m0 (durable (cml s))).
  assert (D1: 44 * c <= len D) by (unfold D; rewrite len_take; lia).
  assert (D2: len D < 44 * c + 44) by (unfold D; rewrite len_take; lia).
  assert (D3: take (44 * c) D = entries (firstn (N.to_nat c) h)).
  { unfold D. rewrite take_take by lia. exact C3. }
  assert (Lt: len (take j E) = j) by (rewrite len_take; lia).
  destruct (N.le_gt_cases (44 * c + j) (len D)) as [Hsm|Hbig].
  + exists c. split; [lia|]. split; [lia|]. rewrite len_wr by lia. rewrite Lt.
    split; [lia|]. split; [lia|]. split; [|left; reflexivity]. rewrite take_wr_below by lia. exact D3.
  + assert (Hjp: 0 < j) by lia. destruct (Hjd Hjp) as (Hd & t & Ept).
    set (m := j / 44).
    exists (c + m). rewrite len_wr by lia. rewrite Lt.
    assert (Hm: 44 * m <= j /\ j < 44 * m + 44) by (unfold m; lia).
    split; [lia|]. split; [lia|]. split; [lia|]. split; [lia|]. split; [|right; eauto].
    (* content *)
    assert (Hmn: (N.to_nat m <= length (skipn (N.to_nat c) h))%nat) by (rewrite skipn_length; lia).
    assert (TE: take (44 * m) (take j E) = entries (firstn (N.to_nat m) (skipn (N.to_nat c) h))).
    { rewrite take_take by lia. unfold E.
      pose proof (chain_skipn H H_len 0 alh0 0 (N.to_nat c) h ltac:(lia) Ichain) as Hs.
      rewrite <- (firstn_all (skipn (N.to_nat c) h)) at 1.
      replace (44 * m) with (44 * N.of_nat (N.to_nat m)) by lia.
      eapply entries_prefix; eauto. }
    replace (N.to_nat (c + m)) with (N.to_nat c + N.to_nat m)%nat by lia.
    rewrite firstn_add, entries_app, <- TE, <- D3.
    unfold wr.
    assert (L1: len (take (44 * c) D) = 44 * c) by (rewrite len_take; lia).
    replace (44 * (c + m)) with (len (take (44 * c) D) + 44 * m) by lia.
    rewrite take_app_ge by lia.
    replace (len (take (44 * c) D) + 44 * m - len (take (44 * c) D)) with (44 * m) by lia.
    f_equal. rewrite take_app_le by lia. reflexivity.
Qed.

(* ---- reloading precommitted transactions ---- *)
Lemma take_add a b (l : bytes) : take (a + b) l = take a l ++ take b (drop a l).
Proof.
  unfold take, drop. replace (N.to_nat (a + b)) with (N.to_nat a + N.to_nat b)%nat by lia.
  generalize (N.to_nat a) as x, (N.to_nat b) as y. clear. intros x y.
  revert l; induction x as [|x IH]; intros l; simpl; auto.
  destruct l; simpl; [rewrite firstn_nil; reflexivity|]. f_equal. apply IH.
Qed.

Lemma slice_add c o a b : slice c o (a + b) = slice c o a ++ slice c (o + a) b.
Proof. unfold slice. rewrite take_add, drop_drop. reflexivity. Qed.

Lemma reload_sound fuel tx vl pos pid pa pb pos' pa' :
  reload H fuel tx vl pos pid pa = (pb, pos', pa') -> pos <= len tx ->
  exists rs, chain pid pa pos rs /\ pb = map pb_of rs /\ pos' = pos + len (raws rs) /\ pos' <= len tx /\
             slice tx pos (len (raws rs)) = raws rs /\ pa' = last_alh pa rs /\
             Forall (fun r => values_readable_img H vl (t_body r) = true) rs.
Proof.
  revert pos pid pa pb pos' pa'; induction fuel as [|fuel IH]; intros pos pid pa pb pos' pa' E Hpos.
  - cbn [reload] in E. assert (pb = [] /\ pos' = pos /\ pa' = pa) as (-> & -> & ->) by (split; [|split]; congruence).
    exists []. cbn [RecordProofs.chain map last_alh]. unfold raws; cbn [map concat]. unfold slice. rewrite take_0, len_nil. repeat split; auto; try lia; constructor.
  - cbn [reload] in E.
    destruct (parse_rec H (drop pos tx)) as [[[[id prev] body] n]|] eqn:P.
    2:{ assert (pb = [] /\ pos' = pos /\ pa' = pa) as (-> & -> & ->) by (split; [|split]; congruence).
        exists []. cbn [RecordProofs.chain map last_alh]. unfold raws; cbn [map concat]. unfold slice. rewrite take_0, len_nil. repeat split; auto; try lia; constructor. }
    destruct ((id =? pid + 1) && list_eqb_N prev pa && (pos + n <? 2 ^ 64) && values_readable_img H vl body) eqn:G.
    2:{ assert (pb = [] /\ pos' = pos /\ pa' = pa) as (-> & -> & ->) by (split; [|split]; congruence).
        exists []. cbn [RecordProofs.chain map last_alh]. unfold raws; cbn [map concat]. unfold slice. rewrite take_0, len_nil. repeat split; auto; try lia; constructor. }
    apply andb_prop in G as [G G4]. apply andb_prop in G as [G G3]. apply andb_prop in G as [G1 G2].
    apply N.eqb_eq in G1. apply (list_eqb_N_eq) in G2. apply N.ltb_lt in G3.
    destruct (reload H fuel tx vl (pos + n) id (alh_of H id prev body)) as [[l pos2] pa2] eqn:R.
    assert (pb = (id, alh_of H id prev body, pos, n) :: l /\ pos' = pos2 /\ pa' = pa2) as (-> & -> & ->)
      by (split; [|split]; congruence).
    destruct (parse_rec_inv H H_len _ _ _ _ _ P) as (Hn & Hnb & Hn32 & Hid & _ & _ & Hlp & _ & _ & _).
    rewrite len_drop in Hnb.
    destruct (IH _ _ _ _ _ _ R) as (rs & Hc & Hl & Hp2 & Hle & Hs & Hpa & Hva); [lia|].
    set (r := mkT (take n (drop pos tx)) id prev body (alh_of H id prev body) pos).
    assert (Lr: len (t_raw r) = n) by (unfold r; cbn [t_raw]; rewrite len_take, len_drop; lia).
    exists (r :: rs). cbn [RecordProofs.chain map last_alh]. rewrite raws_cons, len_app, Lr.
    split; [|split; [|split; [|split; [|split; [|split]]]]].
    + split; [|repeat split; auto; try lia].
      unfold rec_ok. rewrite Lr. unfold r; cbn [t_raw t_id t_prev t_body t_alh t_off].
      split; [|repeat split; auto; lia].
      intros b Hb. eapply (parse_rec_prefix H H_len); [exact P|]. exact Hb.
    + unfold pb_of at 1. unfold r at 1 2 3; cbn [t_id t_alh t_off]. rewrite Lr. f_equal. exact Hl.
    + lia.
    + lia.
    + rewrite slice_add. f_equal. exact Hs.
    + unfold r; cbn [t_alh]. exact Hpa.
    + constructor; [unfold r; cbn [t_body]; exact G4|exact Hva].
Qed.

(* ---- re-linking the hash tree ---- *)
Lemma relink_ok n thld tx cm c pb a :
  AInv thld a ->
  (forall k, a_size a < k <= a_size a + N.of_nat n ->
             exists leaf, read_alh H tx cm c pb k = Ok leaf /\ len leaf = 32) ->
  exists a', relink H n thld tx cm c pb a = Ok a' /\ AInv thld a' /\ a_size a' = a_size a + N.of_nat n.
Proof.
  revert a; induction n as [|n IH]; intros a IA Hr.
  - exists a. cbn [relink]. split; [reflexivity|]. split; [exact IA|]. lia.
  - cbn [relink]. destruct (Hr (a_size a + 1)) as (leaf & El & Ll); [lia|].
    rewrite El. cbn [bind].
    destruct (aht_append_ok thld a leaf IA Ll) as (a1 & Ea & IA1 & Sz).
    rewrite Ea. cbn [bind].
    destruct (IH a1 IA1) as (a' & Er & IA' & Sz').
    + intros k Hk. apply Hr. lia.
    + exists a'. split; [exact Er|]. split; [exact IA'|]. lia.
Qed.

Lemma raws_len_ge pid pa off h : chain pid pa off h -> N.of_nat (length h) <= len (raws h).
Proof.
  revert pid pa off; induction h as [|r h IH]; intros pid pa off Hc; [cbn; lia|].
  cbn [RecordProofs.chain] in Hc. destruct Hc as (Hr & _ & _ & _ & Hc).
  rewrite raws_cons, len_app. specialize (IH _ _ _ Hc).
  destruct Hr as (_ & _ & L & _). cbn [length]. lia.
Qed.

Lemma last_alh_firstn_S h k r pa : nth_error h k = Some r -> last_alh pa (firstn (S k) h) = t_alh r.
Proof.
  intros E. rewrite (firstn_S_nth _ _ _ E), last_alh_app. reflexivity.
Qed.

Lemma open_trim_spec img u : 0 < u ->
  durable (open_trim img u) = img /\ cpre (len img - len img mod u) (pending (open_trim img u)) /\
  buf (open_trim img u) = [] /\
  bufoff (open_trim img u) = len img - len img mod u /\ wf (open_trim img u) /\
  (len img mod u = 0 -> open_trim img u = f_open img) /\
  os_view (open_trim img u) = take (len img - len img mod u) img.
Proof.
  intros Hu. unfold open_trim. destruct (N.ltb_spec 0 (len img mod u)) as [Hr|Hr].
  - cbn [durable pending buf bufoff]. split; [reflexivity|]. split; [right; reflexivity|].
    split; [reflexivity|]. split; [reflexivity|]. split; [|split; [lia|reflexivity]].
    unfold wf, os_view. cbn [durable pending bufoff apply_writes fold_left apply1]. rewrite len_take.
    pose proof (N.mod_le (len img) u). lia.
  - cbn [f_open durable pending buf bufoff]. split; [reflexivity|]. split; [left; reflexivity|].
    split; [reflexivity|]. split; [lia|]. split; [apply wf_open|]. split; [reflexivity|].
    unfold os_view. cbn [durable pending apply_writes fold_left]. symmetry. apply take_ge.
    apply N.le_0_r in Hr. rewrite Hr, N.sub_0_r. apply N.le_refl.
Qed.

Lemma Forall2_length' {A B} (R : A -> B -> Prop) l1 l2 : Forall2 R l1 l2 -> length l1 = length l2.
Proof. induction 1; simpl; auto. Qed.

(* ---- values: from a state to a crash image, and from the reload check ---- *)
Lemma Forall2_nth {A B} (R : A -> B -> Prop) l l' i a :
  Forall2 R l l' -> nth_error l i = Some a -> exists b, nth_error l' i = Some b /\ R a b.
Proof.
  intros F. revert i. induction F as [|x y l l' Hxy F IH]; intros [|i] E; cbn in *; try discriminate.
  - exists y. split; [reflexivity|]. congruence.
  - apply IH; auto.
Qed.

Lemma nth_error_firstn_lt {A} (a b : nat) (h : list A) : (b < a)%nat -> nth_error (firstn a h) b = nth_error h b.
Proof.
  revert b h; induction a as [|a IH]; intros b h Hlt; [lia|].
  destruct h as [|x h]; [destruct b; reflexivity|].
  destruct b as [|b]; [reflexivity|]. cbn [firstn nth_error]. apply IH. lia.
Qed.

Lemma VF_open b : VF (f_open b).
Proof. unfold VF, f_open, os_view. cbn. repeat split; try lia. constructor. Qed.

Lemma body_vref_len body v vo vn hv : body_vref body = Some (v, vo, vn, hv) -> len hv = 32.
Proof.
  unfold body_vref. destruct (N.ltb_spec (len body) 45); [discriminate|]. intros E.
  assert (hv = take 32 (drop 13 body)) by congruence. subst hv. rewrite len_take, len_drop. lia.
Qed.

Lemma nth_map_open l i img : nth_error l i = Some img -> nth_error (map f_open l) i = Some (f_open img).
Proof. intros E. rewrite nth_error_map, E. reflexivity. Qed.

(* a durable extent of s is readable in every crash image of s *)
Lemma val_dur_image s s' im x :
  Forall VF (vls s) -> Forall2 crash_image (vls s) (i_vls im) -> vls s' = map f_open (i_vls im) ->
  val_dur H s x -> val_dur H s' x /\ (forall hvlen : len (snd x) = 32, val_view H s' x).
Proof.
  intros Fv Cv Ev. destruct x as [[[v vo] vn] hv]. intros [Z|(f & E1 & L & Hh)].
  - split; [left; auto|]. intros Lh. split; [exact Lh|left; auto].
  - destruct (Forall2_nth _ _ _ _ _ Cv E1) as (img & Ei & Ci).
    pose proof (Forall_nth _ _ _ _ Fv E1) as (Va & Vb & Vc).
    destruct (crash_image_prefix (len (durable f)) f img Vb ltac:(lia) Ci) as (P1 & P2).
    rewrite take_all in P1.
    assert (Sl: slice img vo vn = slice (durable f) vo vn).
    { apply (slice_eq_of_take _ _ (len (durable f))); [lia|]. rewrite P1. symmetry. apply take_all. }
    pose proof (nth_map_open _ _ _ Ei) as En.
    split.
    + right. exists (f_open img). rewrite Ev. split; [exact En|]. cbn [f_open durable].
      split; [lia|]. rewrite Sl. exact Hh.
    + intros Lh. split; [exact Lh|]. right. exists (f_open img). rewrite Ev. split; [exact En|].
      rewrite lview_open. unfold f_offset. cbn [f_open bufoff buf]. rewrite len_nil.
      split; [lia|]. rewrite Sl. exact Hh.
Qed.

(* what the reload check establishes *)
Lemma val_of_reload s' im body :
  vls s' = map f_open (i_vls im) -> values_readable_img H (i_vls im) body = true ->
  exists x, body_vref body = Some x /\ val_view H s' x /\ val_dur H s' x.
Proof.
  intros Ev R. unfold values_readable_img in R. destruct (body_vref body) as [x|] eqn:B; [|discriminate].
  exists x. split; [reflexivity|]. destruct x as [[[v vo] vn] hv].
  pose proof (body_vref_len _ _ _ _ _ B) as Lh. unfold vref_readable in R.
  destruct (N.eqb_spec vn 0) as [Z|NZ]; cbn [orb] in R.
  - split; [split; [exact Lh|left; exact Z]|left; exact Z].
  - destruct (nth_error (i_vls im) (N.to_nat v)) as [img|] eqn:Ei; [|discriminate].
    apply andb_prop in R as [R1 R2]. apply N.leb_le in R1. apply (list_eqb_N_eq) in R2.
    pose proof (nth_map_open _ _ _ Ei) as En.
    split.
    + split; [exact Lh|]. right. exists (f_open img). rewrite Ev. split; [exact En|].
      rewrite lview_open. unfold f_offset. cbn [f_open bufoff buf]. rewrite len_nil. split; [lia|exact R2].
    + right. exists (f_open img). rewrite Ev. split; [exact En|]. cbn [f_open durable]. split; [lia|exact R2].
Qed.

(* ---- recovery on a crash image of a state satisfying the invariant ---- *)
(* The logs always recover; ahtree.OpenWith's size check is the only thing that can fail (it does for
   the code between 09014a8 and 0b488aa, Crash/Refuted.v; it cannot since fix 0b488aa, Crash/TreeProofs.v). *)
Lemma recover_ok nv s h d im upto :
  Inv nv s h d -> VInv H s h d -> crash s im ->
  (len (i_ahd im) < 32 * (len (i_ahc im) / 12) /\ recover_upto H upto (s_cfg s) im = Err ECorruptedData) \/
  (32 * (len (i_ahc im) / 12) <= len (i_ahd im) /\
  exists s' c' rs,
    recover_upto H upto (s_cfg s) im = Ok s' /\
    committed s <= c' /\ c' <= d /\ committed s' = c' /\ acked s' = c' /\
    Inv nv s' (firstn (N.to_nat c') h ++ rs) (c' + N.of_nat (length rs)) /\
    phase_ s' = PIdle /\ s_cfg s' = s_cfg s /\
    txl s' = f_open (i_txl im) /\ vls s' = map f_open (i_vls im) /\
    durable (cml s') = i_cml im /\ cml s' = open_trim (i_cml im) 44 /\ (c' = committed s \/ exists t, phase_ s = PC t) /\
    take (44 * c') (i_cml im) = entries (firstn (N.to_nat c') h) /\
    take (dts h d) (i_txl im) = raws (firstn (N.to_nat d) h) /\ dts h d <= len (i_txl im) /\
    ((N.to_nat (precommitted s') <= upto)%nat -> asize s' = precommitted s') /\
    VInv H s' (firstn (N.to_nat c') h ++ rs) (c' + N.of_nat (length rs)) /\
    (* how the hash tree of s' was obtained *)
    (let asz := len (i_ahc im) / 12 in
     let a0 := mkAht (f_open (i_ahd im)) (open_trim (i_ahc im) 12) asz asz 0 in
     (exists m, bufoff (ahc s) <= m /\ i_ahc im = take m (durable (ahc s))) /\
     exists a1, (if c' <? asz then aht_reset (c_ahtreset (s_cfg s)) a0 c' else Ok a0) = Ok a1 /\
       AInv (c_thld (s_cfg s)) a0 /\
       relink H (Nat.min upto (N.to_nat (c' + N.of_nat (length rs) - a_size a1))) (c_thld (s_cfg s))
              (i_txl im) (i_cml im) c' (map pb_of rs) a1 = Ok (aht_of s'))).
Proof.
  intros I VI (Ctx & Ccm & Cvl & Cad & Cac).
  destruct (cm_image _ _ _ _ _ I Ccm) as (c' & Hc1 & Hc2 & Hc3 & Hc4 & Hc5 & Hc6).
  pose proof I as I0.
  destruct I as [Icfg Inv_nv Ichain Iplen Icd Iack Ipbuf Ipalh Ipts Itwf Itdur Itview Icwf Icdur Icph Iaht].
  destruct Icfg as (Hpre & Hthld).
  destruct Itdur as (T1 & T2 & T3 & T4).
  destruct (crash_image_prefix _ _ _ T3 T1 Ctx) as (Tp & Tl). rewrite T2 in Tp.
  set (tx := i_txl im) in *. set (cm := i_cml im) in *.
  set (cn := N.to_nat c').
  assert (Hcn: (cn <= length h)%nat) by (unfold cn; lia).
  assert (Hcnd: (cn <= N.to_nat d)%nat) by (unfold cn; lia).
  set (ctls := len (raws (firstn cn h))).
  assert (Hctls: ctls <= dts h d) by (unfold ctls, dts; apply raws_firstn_mono; auto).
  assert (Tc: take ctls tx = raws (firstn cn h)).
  { unfold ctls. rewrite <- (take_take _ (dts h d)) by exact Hctls. rewrite Tp. apply raws_prefix. auto. }
  assert (Hcsz: len cm - len cm mod 44 = 44 * c') by lia.
  assert (Hdiv: 44 * c' / 44 = c') by lia.
  (* the last committed transaction validates *)
  set (ca := last_alh alh0 (firstn cn h)).
  assert (Cst: (if 0 <? 44 * c' then
      match entry_at cm (44 * c' / 44) with
      | None => Err ECorruptedData
      | Some (off, size, alh) =>
          if len tx <? off + size then Err ECorruptedData else
          match parse_rec H (drop off tx) with
          | None => Err ECorruptedData
          | Some (id, prev, body, _) =>
              if list_eqb_N alh (alh_of H id prev body) then Ok (44 * c' / 44, alh, off + size)
              else Err ECorruptedData
          end
      end
    else Ok (0, alh0, 0)) = Ok (c', ca, ctls)).
  { destruct (N.ltb_spec 0 (44 * c')) as [Hpos|Hz].
    - rewrite Hdiv.
      assert (Q1: take (44 * N.of_nat cn) cm = entries (firstn cn h)) by (unfold cn; rewrite Nnat.N2Nat.id; exact Hc5).
      assert (Q2: len (raws (firstn cn h)) <= len tx) by (fold ctls; lia).
      assert (Q3: (1 <= cn <= cn)%nat) by (unfold cn; lia).
      destruct (read_committed h tx cm cn cn Ichain Hcn Q1 Tc Q2 Q3) as (r & R1 & R2 & R3 & R4 & R5 & R6 & R7 & R8).
      + unfold cn in R4. rewrite Nnat.N2Nat.id in R4. rewrite R4.
        fold ctls in R6.
        destruct (N.ltb_spec (len tx) (t_off r + len (t_raw r))); [lia|].
        rewrite R8. destruct R2 as (_ & Ealh & _). rewrite <- Ealh.
        assert (X: list_eqb_N (t_alh r) (t_alh r) = true) by (apply list_eqb_N_eq; reflexivity).
        rewrite X. f_equal. f_equal; [f_equal|exact R6].
        unfold ca. replace cn with (S (cn - 1)) by (unfold cn; lia).
        symmetry. apply last_alh_firstn_S. exact R1.
    - assert (c' = 0) by lia. subst c'. unfold ca, ctls, cn. cbn. reflexivity. }
  (* reload *)
  destruct (reload H (S (length tx)) tx (i_vls im) ctls c' ca) as [[pb ptls] pa] eqn:Rl.
  destruct (reload_sound _ _ _ _ _ _ _ _ _ Rl) as (rs & Rc & Rpb & Rpos & Rle & Rsl & Rpa & Rva); [lia|].
  assert (Elogs: recover_logs H (s_cfg s) tx cm (i_vls im) = Ok (c', ca, pb, pa, ptls)).
  { unfold recover_logs. rewrite Hpre. unfold recover_logs_at. rewrite Hcsz, Cst. cbn [bind]. rewrite Rl. reflexivity. }
  set (h' := firstn cn h ++ rs).
  set (p' := c' + N.of_nat (length rs)).
  assert (Lfn: length (firstn cn h) = cn) by (apply firstn_length_le; auto).
  assert (Ch': chain 0 alh0 0 h').
  { apply (chain_app H H_len). split; [apply (chain_firstn H H_len); auto|].
    rewrite Lfn, !N.add_0_l. unfold cn. rewrite Nnat.N2Nat.id. exact Rc. }
  assert (Lh': N.of_nat (length h') = p') by (unfold h', p'; rewrite app_length, Lfn; unfold cn; lia).
  assert (Rh': raws h' = raws (firstn cn h) ++ raws rs) by (apply raws_app).
  assert (Lrh': len (raws h') = ptls) by (rewrite Rh', len_app; fold ctls; lia).
  assert (Tp': take ptls tx = raws h').
  { rewrite Rpos, take_add, Tc, Rh'. f_equal. exact Rsl. }
  (* the hash tree *)
  destruct Iaht as ((A1 & A2 & A3 & A4 & A5 & A6) & A11).
  unfold aht_of in *. cbn [a_d a_c a_size a_latest a_cnt] in *.
  assert (Eac: exists m, bufoff (ahc s) <= m /\ i_ahc im = take m (durable (ahc s))) by (apply CL_image; auto).
  set (ac := i_ahc im) in *. set (asz := len ac / 12).
  destruct (open_trim_spec ac 12 ltac:(lia)) as (O1 & O2 & O3 & O4 & O5 & _ & O7).
  destruct (N.lt_ge_cases (len (i_ahd im)) (32 * asz)) as [Hbad|Hgood].
  { (* ahtree.OpenWith: ErrorCorruptedDigests *)
    left. split; [exact Hbad|].
    unfold recover_upto. fold tx cm. rewrite Elogs. cbn [bind]. fold ac asz.
    destruct (N.ltb_spec 0 asz); [|lia].
    destruct (N.ltb_spec (len (i_ahd im)) (32 * asz)); [|lia]. reflexivity. }
  right. split; [exact Hgood|].
  assert (Hchk: ((0 <? asz) && (len (i_ahd im) <? 32 * asz)) = false).
  { destruct (N.ltb_spec (len (i_ahd im)) (32 * asz)); [lia|apply andb_false_r]. }
  set (a0 := mkAht (f_open (i_ahd im)) (open_trim ac 12) asz asz 0).
  assert (IA0: AInv (c_thld (s_cfg s)) a0).
  { unfold AInv, a0. cbn [a_d a_c a_size a_latest a_cnt].
    split; [apply wf_open|]. split.
    { unfold CL. rewrite O1, O3, O4. split; [reflexivity|]. split.
      { destruct O2 as [-> | ->]; repeat constructor. }
      split.
      { destruct O2 as [-> | ->]; repeat constructor. cbn [pw_off]. lia. }
      split; [lia|]. split; [exact O7|lia]. }
    unfold f_offset. cbn [f_open bufoff buf]. rewrite len_nil, O4.
    repeat split; try lia; unfold asz; lia. }
  assert (Ha1: exists a1, (if c' <? asz then aht_reset (c_ahtreset (s_cfg s)) a0 c' else Ok a0) = Ok a1 /\
                          AInv (c_thld (s_cfg s)) a1 /\ a_size a1 <= p').
  { destruct (N.ltb_spec c' asz).
    - assert (Q: c' <= a_size a0) by (unfold a0; cbn [a_size]; lia).
      destruct (aht_reset_ok_le (c_ahtreset (s_cfg s)) _ a0 c' IA0 Q Hthld) as (a1 & E1 & I1 & S1).
      exists a1. split; [exact E1|]. split; [exact I1|unfold p'; lia].
    - exists a0. split; [reflexivity|]. split; [exact IA0|]. unfold a0, p'; cbn [a_size]. lia. }
  destruct Ha1 as (a1 & Ea1 & IA1 & Sa1).
  set (n := Nat.min upto (N.to_nat (p' - a_size a1))).
  destruct (relink_ok n (c_thld (s_cfg s)) tx cm c' pb a1 IA1) as (a2 & Ea2 & IA2 & Sa2).
  { intros k Hk. unfold read_alh.
    destruct (N.leb_spec k c') as [Hkc|Hkc].
    - assert (Q1: take (44 * N.of_nat cn) cm = entries (firstn cn h)) by (unfold cn; rewrite Nnat.N2Nat.id; exact Hc5).
      assert (Q2: len (raws (firstn cn h)) <= len tx) by (fold ctls; lia).
      assert (Q3: (1 <= N.to_nat k <= cn)%nat) by (unfold cn; lia).
      destruct (read_committed h tx cm cn (N.to_nat k) Ichain Hcn Q1 Tc Q2 Q3) as (r & R1 & R2 & R3 & R4 & R5 & R6 & R7 & R8).
      + rewrite Nnat.N2Nat.id in R4. rewrite R4, R8. eexists. split; [reflexivity|]. apply (H_len' H H_len).
    - assert (Hidx: (N.to_nat (k - c' - 1) < length rs)%nat) by (unfold n, p' in Hk; lia).
      destruct (nth_error rs (N.to_nat (k - c' - 1))) as [r|] eqn:En; [|apply nth_error_None in En; lia].
      rewrite Rpb. rewrite nth_error_map, En. cbn [option_map pb_of].
      eexists. split; [reflexivity|].
      destruct (chain_nth H H_len _ _ _ _ _ _ Rc En) as (Hr & _). apply (rec_ok_alh_len H H_len); auto. }
  assert (VIgoal: forall s', vls s' = map f_open (i_vls im) -> inflight s' = [] -> VInv H s' h' p').
  { intros s' Ev Ei. destruct VI as [Fv Iv Hv].
    constructor.
    - rewrite Ev. generalize (i_vls im) as l. intros l. induction l; cbn; constructor; auto. apply VF_open.
    - rewrite Ei. constructor.
    - intros i r E.
      destruct (Nat.lt_ge_cases i cn) as [Hlt|Hge].
      + unfold h' in E. rewrite nth_error_app1 in E by lia.
        assert (E0: nth_error h i = Some r) by (rewrite <- E; symmetry; apply nth_error_firstn_lt; exact Hlt).
        destruct (Hv i r E0) as (x & B & Vx & D).
        assert (Dx: val_dur H s x) by (apply D; left; lia).
        destruct (val_dur_image s s' im x Fv Cvl Ev Dx) as (D' & V').
        exists x. split; [exact B|]. split; [|intros _; exact D'].
        apply V'. destruct x as [[[v vo] vn] hv]. destruct Vx as (Lh & _). exact Lh.
      + unfold h' in E. rewrite nth_error_app2 in E by lia. rewrite Lfn in E.
        pose proof (Forall_nth _ _ _ _ Rva E) as Rr. cbn beta in Rr.
        destruct (val_of_reload s' im (t_body r) Ev Rr) as (x & B & Vx & Dx).
        exists x. split; [exact B|]. split; [exact Vx|intros _; exact Dx]. }
  (* assemble *)
  unfold recover_upto. rewrite Hpre. fold tx cm. rewrite Elogs. cbn [bind].
  fold ac asz. rewrite Hchk. fold a0.
  assert (Epb: c' + N.of_nat (length pb) = p') by (unfold p'; rewrite Rpb, map_length; reflexivity).
  rewrite Ea1. cbn [bind]. rewrite Epb. fold n. rewrite Ea2. cbn [bind].
  destruct (open_trim_spec cm 44 ltac:(lia)) as (Q1 & Q2 & Q3 & Q4 & Q5 & _ & _).
  eexists. exists c', rs. split; [reflexivity|].
  cbn [committed acked phase_ s_cfg txl vls cml asize].
  split; [exact Hc1|]. split; [exact Hc2|]. split; [reflexivity|]. split; [reflexivity|].
  split.
  2:{ split; [reflexivity|]. split; [reflexivity|]. split; [reflexivity|]. split; [reflexivity|].
      split; [exact Q1|]. split; [reflexivity|]. split; [exact Hc6|]. split; [exact Hc5|].
      split; [exact Tp|]. split; [lia|]. split.
      2:{ split; [apply VIgoal; reflexivity|]. cbv zeta. fold ac asz a0. split; [exact Eac|]. exists a1. split; [exact Ea1|].
          split; [exact IA0|].
          fold tx cm p'. fold n. rewrite <- Rpb. rewrite Ea2. unfold aht_of. cbn [ahd ahc asize alatest acnt].
          destruct a2; reflexivity. }
      intros Hup. unfold precommitted. cbn [committed pbuf asize]. rewrite Rpb, map_length. fold p'.
      unfold precommitted in Hup. cbn [committed pbuf] in Hup. rewrite Rpb, map_length in Hup. fold p' in Hup.
      rewrite Sa2. unfold n. lia. }
  fold cn. fold h'. fold p'.
  constructor; unfold precommitted, aht_of;
    cbn [s_cfg vls txl cml ahd ahc committed calh pbuf palh pts acked phase_ inflight asize alatest acnt
         a_d a_c a_size a_latest a_cnt].
  - auto.
  - rewrite map_length. rewrite <- (Forall2_length' _ _ _ Cvl). exact Inv_nv.
  - exact Ch'.
  - rewrite Rpb, map_length. lia.
  - rewrite Rpb, map_length. fold p'. lia.
  - lia.
  - rewrite Rpb. unfold h'. rewrite skipn_app, Lfn. fold cn.
    rewrite skipn_all2 by lia. replace (cn - cn)%nat with 0%nat by lia. reflexivity.
  - rewrite Rpa. unfold h', ca. rewrite last_alh_app. reflexivity.
  - lia.
  - apply wf_open.
  - assert (Dd: dts h' p' = ptls).
    { unfold dts. rewrite <- Lh', Nnat.Nat2N.id, firstn_all. exact Lrh'. }
    rewrite Dd. cbn [f_open durable pending bufoff]. rewrite <- Lh', Nnat.Nat2N.id, firstn_all.
    repeat split; auto; try lia. constructor.
  - rewrite lview_open. unfold f_offset. cbn [f_open bufoff buf]. rewrite len_nil. repeat split; auto; lia.
  - exact Q5.
  - rewrite Q1. unfold h'. rewrite firstn_app_le by lia. rewrite firstn_firstn_le by lia.
    repeat split; auto.
  - rewrite Q3, Q4. rewrite Hcsz in Q2. repeat split; auto.
  - split; [destruct a2; exact IA2|]. rewrite Rpb, map_length. fold p'. rewrite Sa2. unfold n. lia.
Qed.

End RC.
