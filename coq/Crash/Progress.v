(* C03 — the machine accepts new commits: from any idle state satisfying the invariant whose hash
   tree is linked up to the precommitted id (every completely recovered state is one), a sync cycle
   commits the backlog, and a new transaction goes through precommit and the next sync cycle and is
   acknowledged. *)
From V Require Import Crash.Storage Crash.StorageProofs Crash.Protocol Crash.RecordProofs Crash.AhtProofs
  Crash.InvProofs Crash.RecoverProofs Crash.Theorems.
From Coq Require Import ZifyN ZifyNat ZifyBool Lia.

Section PG.
Variable H : bytes -> bytes.
Hypothesis H_len : forall x, length (H x) = 32%nat.

Notation Inv := (Inv H).
Notation step := (step H).
Notation run := (run H).

Definition sync_cycle (nv : nat) : list op := [OSyncStart] ++ map OSyncV (seq 0 nv) ++ [OSyncTx; OSyncC].

Lemma run_app s a b : run s (a ++ b) = (do s1 <- run s a; run s1 b).
Proof.
  revert s; induction a as [|o a IH]; intros s; cbn [app Protocol.run bind]; auto.
  destruct (step s o); cbn [bind]; auto.
Qed.

(* everything but the value logs and the phase *)
Definition same_core (s s' : st) : Prop :=
  s_cfg s' = s_cfg s /\ txl s' = txl s /\ cml s' = cml s /\ ahd s' = ahd s /\ ahc s' = ahc s /\
  committed s' = committed s /\ pbuf s' = pbuf s /\ palh s' = palh s /\ pts s' = pts s /\
  acked s' = acked s /\ inflight s' = inflight s /\ asize s' = asize s /\ alatest s' = alatest s /\
  acnt s' = acnt s /\ length (vls s') = length (vls s).

Lemma same_core_refl s : same_core s s.
Proof. unfold same_core. repeat split; auto. Qed.

Lemma same_core_trans a b c : same_core a b -> same_core b c -> same_core a c.
Proof. unfold same_core. intros. intuition congruence. Qed.

Lemma syncv_loop nv m : forall s h d i done,
  Inv nv s h d -> phase_ s = PV done -> length done = i -> Forall (fun v => (v < i)%nat) done ->
  (i + m = nv)%nat ->
  exists s' done', run s (map OSyncV (seq i m)) = Ok s' /\ Inv nv s' h d /\ phase_ s' = PV done' /\
                   length done' = nv /\ same_core s s'.
Proof.
  induction m as [|m IH]; intros s h d i done I Ep Hl Hf Hi.
  - exists s, done. cbn [seq map Protocol.run].
    split; [reflexivity|]. split; [exact I|]. split; [exact Ep|]. split; [lia|apply same_core_refl].
  - cbn [seq map Protocol.run].
    assert (Hlt: (i < length (vls s))%nat) by (rewrite (v_nv _ _ _ _ _ I); lia).
    destruct (nth_error (vls s) i) as [g|] eqn:En; [|apply nth_error_None in En; lia].
    assert (Ex: existsb (Nat.eqb i) done = false).
    { destruct (existsb (Nat.eqb i) done) eqn:Ex; [|reflexivity].
      apply existsb_exists in Ex as (x & Hx & Ex). apply Nat.eqb_eq in Ex. subst x.
      rewrite Forall_forall in Hf. specialize (Hf i Hx). lia. }
    assert (E1: step s (OSyncV i) = Ok (mkSt (s_cfg s) (txl s) (cml s) (set_nth (vls s) i (f_sync g)) (ahd s) (ahc s)
                 (committed s) (calh s) (pbuf s) (palh s) (pts s) (acked s) (PV (i :: done)) (inflight s)
                 (asize s) (alatest s) (acnt s))).
    { unfold Protocol.step. rewrite Ep, Ex, En. reflexivity. }
    rewrite E1. cbn [bind].
    pose proof (step_OSyncV H _ _ _ _ _ _ I E1) as I1.
    destruct (IH _ h d (S i) (i :: done) I1 eq_refl) as (s' & done' & R & I' & P' & L' & C').
    + cbn [length]. lia.
    + constructor; [lia|]. eapply Forall_impl; [|exact Hf]. cbn. intros; lia.
    + lia.
    + exists s', done'. split; [exact R|]. split; [exact I'|]. split; [exact P'|]. split; [exact L'|].
      eapply same_core_trans; [|exact C']. unfold same_core. cbn. rewrite length_set_nth. repeat split; auto.
Qed.

Lemma precommitted_core s s' : committed s' = committed s -> pbuf s' = pbuf s -> precommitted s' = precommitted s.
Proof. unfold precommitted. intros -> ->. reflexivity. Qed.

Lemma sync_cycle_ok nv s h d :
  Inv nv s h d -> phase_ s = PIdle -> committed s < precommitted s ->
  exists s', run s (sync_cycle nv) = Ok s' /\ Inv nv s' h (precommitted s) /\
    committed s' = precommitted s /\ acked s' = precommitted s /\ precommitted s' = precommitted s /\
    phase_ s' = PIdle /\ asize s' = asize s /\ pts s' = pts s /\ palh s' = palh s /\
    inflight s' = inflight s /\ s_cfg s' = s_cfg s /\ pbuf s' = [] /\
    durable (txl s') = lview (txl s) /\ length (vls s') = length (vls s).
Proof.
  intros I Ep Hlt. unfold sync_cycle. rewrite run_app. cbn [Protocol.run].
  (* OSyncStart *)
  assert (E1: step s OSyncStart = Ok (mkSt (s_cfg s) (txl s) (cml s) (vls s) (ahd s) (ahc s) (committed s) (calh s)
               (pbuf s) (palh s) (pts s) (acked s) (PV []) (inflight s) (asize s) (alatest s) (acnt s))).
  { unfold Protocol.step. rewrite Ep. cbn [phase_idle andb].
    destruct (N.eqb_spec (precommitted s) (committed s)); [lia|]. reflexivity. }
  rewrite E1. cbn [bind].
  pose proof (step_OSyncStart H _ _ _ _ _ I E1) as I1.
  set (s1 := mkSt _ _ _ _ _ _ _ _ _ _ _ _ (PV []) _ _ _ _) in *.
  rewrite run_app.
  destruct (syncv_loop nv nv s1 h d 0%nat [] I1 eq_refl eq_refl ltac:(constructor) ltac:(lia)) as (s2 & done2 & R2 & I2 & P2 & L2 & C2).
  rewrite R2. cbn [bind Protocol.run].
  destruct C2 as (K1 & K2 & K3 & K4 & K5 & K6 & K7 & K8 & K9 & K10 & K11 & K12 & K13 & K14 & K15).
  cbn [s1 s_cfg txl cml ahd ahc committed pbuf palh pts acked inflight asize alatest acnt vls] in *.
  (* OSyncTx *)
  pose proof I2 as I2'. destruct I2' as [_ Inv2 _ _ _ _ _ _ _ _ _ _ _ _ Icph2 _].
  rewrite P2 in Icph2. destruct Icph2 as (Q1 & Q2 & Q3 & _ & _).
  assert (Es: exists c1, f_setoffset_gen (c_prealloc (s_cfg s2)) (cml s2) (44 * committed s2) = Some c1).
  { apply f_setoffset_some. unfold f_offset. rewrite Q2, Q3, len_nil. lia. }
  destruct Es as (c1 & Es).
  assert (Ea: exists a, (if c_ahtsync (s_cfg s2) then aht_sync (aht_of s2) else Ok (aht_of s2)) = Ok a /\
                        a_size a = asize s2).
  { destruct (v_aht _ _ _ _ _ I2) as (IA & _). destruct (c_ahtsync (s_cfg s2)).
    - destruct (aht_sync_AInv _ _ IA) as (a' & Ea' & _ & Sz & _). exists a'. split; [exact Ea'|exact Sz].
    - exists (aht_of s2). split; reflexivity. }
  destruct Ea as (a & Ea & Sza).
  assert (E3: step s2 OSyncTx = Ok (mkSt (s_cfg s2) (f_sync (txl s2)) (f_append c1 (pbuf_entries (pbuf s2))) (vls s2)
               (a_d a) (a_c a) (committed s2) (calh s2) (pbuf s2) (palh s2) (pts s2) (acked s2)
               (PC (precommitted s2)) (inflight s2) (a_size a) (a_latest a) (a_cnt a))).
  { unfold Protocol.step. rewrite P2, L2, Inv2, Nat.eqb_refl. cbn [negb]. rewrite Ea. cbn [bind]. rewrite Es. reflexivity. }
  rewrite E3. cbn [bind].
  pose proof (proj1 (step_OSyncTx H H_len _ _ _ _ _ I2 E3)) as I3.
  set (s3 := mkSt _ _ _ _ _ _ _ _ _ _ _ _ (PC _) _ _ _ _) in *.
  (* OSyncC *)
  assert (E4: step s3 OSyncC = Ok (mkSt (s_cfg s3) (txl s3) (f_sync (cml s3)) (vls s3) (ahd s3) (ahc s3)
               (precommitted s2) (palh s3) [] (palh s3) (pts s3) (precommitted s2) PIdle (inflight s3)
               (asize s3) (alatest s3) (acnt s3))) by reflexivity.
  rewrite E4. cbn [bind].
  destruct (step_OSyncC H H_len _ _ _ _ _ I3 E4) as (I4 & F1 & F2 & F3).
  assert (P12: precommitted s2 = precommitted s) by (apply precommitted_core; auto).
  assert (P3: precommitted s3 = precommitted s2) by reflexivity.
  eexists. split; [reflexivity|].
  cbn [committed acked phase_ asize pts palh inflight s_cfg pbuf txl vls s3].
  rewrite P12 in *.
  split; [exact I4|]. split; [reflexivity|]. split; [reflexivity|].
  split; [unfold precommitted; cbn [committed pbuf length]; lia|].
  split; [reflexivity|]. split; [congruence|]. split; [congruence|]. split; [congruence|].
  split; [congruence|]. split; [congruence|]. split; [reflexivity|].
  split; [|congruence].
  rewrite K2. apply f_sync_spec. exact (v_twf _ _ _ _ _ I).
Qed.

Lemma nth_error_app_last {A} (l : list A) x : nth_error (l ++ [x]) (length l) = Some x.
Proof. rewrite nth_error_app2 by lia. rewrite Nat.sub_diag. reflexivity. Qed.

(* one new transaction: values, precommit, sync cycle, acknowledgement *)
Lemma commit_ok nv s h d dd payload f0 :
  Inv nv s h d -> phase_ s = PIdle -> asize s = precommitted s ->
  precommitted s < committed s + c_maxact (s_cfg s) ->
  nth_error (vls s) 0 = Some f0 ->
  precommitted s + 1 < 2 ^ 64 -> 121 + len payload < 2 ^ 32 -> pts s + 121 + len payload < 2 ^ 64 ->
  f_offset f0 < 2 ^ 64 -> len dd < 2 ^ 32 ->
  exists s' h' d',
    run s ([OVal 0 dd; OPre (length (inflight s)) payload] ++ sync_cycle nv) = Ok s' /\
    Inv nv s' h' d' /\ phase_ s' = PIdle /\ asize s' = precommitted s' /\
    precommitted s' = precommitted s + 1 /\ committed s' = precommitted s + 1 /\
    acked s' = precommitted s + 1 /\
    tx_at (durable (txl s')) (durable (cml s')) (precommitted s + 1) =
      Some (enc_rec H (precommitted s + 1) (palh s) (enc_vref 0 (f_offset f0) (len dd) (H dd) ++ payload)).
Proof.
  intros I Ep Has Hact Ef G1 G2 G3 G4 G5.
  rewrite run_app. cbn [Protocol.run].
  (* OVal *)
  set (s1 := mkSt (s_cfg s) (txl s) (cml s) (set_nth (vls s) 0 (f_append f0 dd)) (ahd s) (ahc s)
                  (committed s) (calh s) (pbuf s) (palh s) (pts s) (acked s) (phase_ s)
                  (inflight s ++ [(N.of_nat 0, f_offset f0, len dd, H dd)]) (asize s) (alatest s) (acnt s)).
  assert (E1: step s (OVal 0 dd) = Ok s1).
  { unfold Protocol.step. rewrite Ef. reflexivity. }
  rewrite E1. cbn [bind].
  pose proof (step_OVal H _ _ _ _ _ _ _ I E1) as I1.
  (* OPre *)
  set (body := enc_vref 0 (f_offset f0) (len dd) (H dd) ++ payload).
  assert (Lb: len body = 45 + len payload).
  { unfold body, enc_vref. rewrite !len_app, (len_be1 0), (len_be8 (f_offset f0)), (len_be4 (len dd)), (H_len' H H_len). lia. }
  assert (P1: precommitted s1 = precommitted s) by reflexivity.
  assert (Lp: len (palh s) = 32).
  { rewrite (v_palh _ _ _ _ _ I). eapply last_alh_len; [exact H_len|apply alh0_len; exact H_len|exact (v_chain _ _ _ _ _ I)]. }
  assert (Lraw: len (enc_rec H (precommitted s + 1) (palh s) body) = 76 + len body)
    by (apply (len_enc_rec H H_len); exact Lp).
  destruct (f_setoffset_some (c_prealloc (s_cfg s)) (txl s) (pts s)) as (t1 & Es).
  { pose proof (v_tview _ _ _ _ _ I) as (_ & _ & V3). exact V3. }
  pose proof (v_aht _ _ _ _ _ I) as (IA & _).
  assert (Lalh: len (alh_of H (precommitted s + 1) (palh s) body) = 32) by (apply (H_len' H H_len)).
  destruct (aht_append_ok _ _ _ IA Lalh) as (a2 & Ea & IA2 & Sz2).
  assert (E2: exists s2, step s1 (OPre (length (inflight s)) payload) = Ok s2).
  { unfold Protocol.step. cbv zeta.
    assert (Eph: phase_ s1 = PIdle) by exact Ep. rewrite Eph. cbn [phase_idle negb].
    assert (Ein: nth_error (inflight s1) (length (inflight s)) = Some (N.of_nat 0, f_offset f0, len dd, H dd))
      by (apply nth_error_app_last).
    rewrite Ein. rewrite P1.
    assert (Ec: committed s1 = committed s) by reflexivity. assert (Ecf: s_cfg s1 = s_cfg s) by reflexivity.
    rewrite Ec, Ecf.
    destruct (N.leb_spec (committed s + c_maxact (s_cfg s)) (precommitted s)); [lia|].
    assert (Et: txl s1 = txl s) by reflexivity. assert (Ept: pts s1 = pts s) by reflexivity.
    assert (Epa: palh s1 = palh s) by reflexivity.
    rewrite Et, Ept, Epa, Es. change (N.of_nat 0) with 0. fold body.
    rewrite Lraw, Lb.
    assert (G: ((precommitted s + 1 <? 2 ^ 64) && (76 + (45 + len payload) <? 2 ^ 32) &&
                (pts s + (76 + (45 + len payload)) <? 2 ^ 64) && (0 <? 256) && (f_offset f0 <? 2 ^ 64) &&
                (len dd <? 2 ^ 32)) = true).
    { repeat (apply andb_true_intro; split); apply N.ltb_lt; lia. }
    rewrite G. cbn [negb].
    assert (Ea1: aht_of s1 = aht_of s) by reflexivity. rewrite Ea1.
    rewrite aht_reset_same by (unfold aht_of; cbn [a_size]; exact Has). cbn [bind].
    rewrite Ea. cbn [bind]. eauto. }
  destruct E2 as (s2 & E2). rewrite E2. cbn [bind].
  destruct (step_OPre H H_len _ _ _ _ _ _ _ I1 E2) as (r & I2 & R1 & R2 & R3 & R4 & R5 & R6 & (v' & vo' & vn' & hv' & R7 & R8 & _) & _).
  rewrite P1 in *.
  (* sync cycle *)
  assert (P2: precommitted s2 = precommitted s + 1).
  { pose proof (v_plen _ _ _ _ _ I2) as L2. pose proof (v_plen _ _ _ _ _ I1) as L1.
    rewrite app_length in L2. cbn [length] in L2. rewrite P1 in L1. lia. }
  assert (C2: committed s2 < precommitted s2).
  { rewrite R2, P2. pose proof (v_cd _ _ _ _ _ I) as Cd. assert (committed s1 = committed s) by reflexivity. lia. }
  destruct (sync_cycle_ok nv s2 _ _ I2 R5 C2)
    as (s3 & R & I3 & F1 & F2 & F3 & F4 & F5 & F6 & F7 & F8 & F9 & F10 & F11 & F12).
  exists s3. eexists. eexists. split; [exact R|]. split; [exact I3|]. split; [exact F4|].
  split; [congruence|]. split; [congruence|]. split; [congruence|]. split; [congruence|].
  (* the committed record, read back from the durable logs *)
  destruct (Inv_read H H_len _ _ _ _ I3) as (_ & B).
  destruct (B (precommitted s + 1)) as (r' & N1 & N2); [lia|].
  rewrite N2. f_equal.
  pose proof (v_plen _ _ _ _ _ I1) as L1. rewrite P1 in L1.
  replace (N.to_nat (precommitted s + 1) - 1)%nat with (length h) in N1 by lia.
  rewrite nth_error_app_last in N1. assert (r' = r) by congruence. subst r'.
  rewrite R6, R8.
  assert (Ein: nth_error (inflight s1) (length (inflight s)) = Some (N.of_nat 0, f_offset f0, len dd, H dd))
    by (apply nth_error_app_last).
  rewrite Ein in R7. change (N.of_nat 0) with 0 in R7.
  assert (v' = 0) by congruence. assert (vo' = f_offset f0) by congruence.
  assert (vn' = len dd) by congruence. assert (hv' = H dd) by congruence. subst.
  reflexivity.
Qed.


Notation reach_run := (Theorems.reach_run H H_len).

(* ================= the machine accepts new commits ================= *)
Theorem backlog_is_committed c nv s :
  c_prealloc c = false -> 0 < c_thld c -> reach H c nv s ->
  phase_ s = PIdle -> asize s = precommitted s -> committed s < precommitted s ->
  exists s', run s (sync_cycle nv) = Ok s' /\ reach H c nv s' /\
    committed s' = precommitted s /\ acked s' = precommitted s /\ precommitted s' = precommitted s /\
    phase_ s' = PIdle /\ asize s' = asize s.
Proof.
  intros Hp Ht R Ep Has Hlt. destruct (reach_Inv H H_len _ _ _ Hp Ht R) as (_ & h & d & I & _).
  destruct (sync_cycle_ok nv s h d I Ep Hlt) as (s' & E & _ & F1 & F2 & F3 & F4 & F5 & _).
  exists s'. split; [exact E|]. split; [exact (proj1 (reach_run c nv s _ s' Hp Ht R Has E))|]. auto.
Qed.

Theorem accepts_new_commits c nv s dd payload f0 :
  c_prealloc c = false -> 0 < c_thld c -> reach H c nv s ->
  phase_ s = PIdle -> asize s = precommitted s -> precommitted s < committed s + c_maxact c ->
  nth_error (vls s) 0 = Some f0 ->
  precommitted s + 1 < 2 ^ 64 -> 121 + len payload < 2 ^ 32 -> pts s + 121 + len payload < 2 ^ 64 ->
  f_offset f0 < 2 ^ 64 -> len dd < 2 ^ 32 ->
  exists s',
    run s ([OVal 0 dd; OPre (length (inflight s)) payload] ++ sync_cycle nv) = Ok s' /\ reach H c nv s' /\
    phase_ s' = PIdle /\ committed s' = precommitted s + 1 /\ acked s' = precommitted s + 1 /\
    tx_at (durable (txl s')) (durable (cml s')) (precommitted s + 1) =
      Some (enc_rec H (precommitted s + 1) (palh s) (enc_vref 0 (f_offset f0) (len dd) (H dd) ++ payload)).
Proof.
  intros Hp Ht R Ep Has Hact Ef G1 G2 G3 G4 G5.
  destruct (reach_Inv H H_len _ _ _ Hp Ht R) as (Ec & h & d & I & _).
  rewrite <- Ec in Hact.
  destruct (commit_ok nv s h d dd payload f0 I Ep Has Hact Ef G1 G2 G3 G4 G5)
    as (s' & h' & d' & E & _ & F1 & _ & _ & F4 & F5 & F6).
  exists s'. split; [exact E|]. split; [exact (proj1 (reach_run c nv s _ s' Hp Ht R Has E))|]. auto.
Qed.

(* ================= crash during recovery ================= *)
Lemma recover_core upto c im s :
  recover_upto H upto c im = Ok s ->
  recover_logs H c (i_txl im) (i_cml im) (i_vls im) = Ok (committed s, calh s, pbuf s, palh s, pts s) /\
  txl s = f_open (i_txl im) /\ vls s = map f_open (i_vls im) /\
  cml s = (if c_prealloc c then f_open (i_cml im) else open_trim (i_cml im) 44) /\
  acked s = committed s /\ phase_ s = PIdle /\ inflight s = [] /\ s_cfg s = c /\
  ~ aht_check_fails im.
Proof.
  clear H_len. unfold recover_upto. intros E.
  destruct (recover_logs H c (i_txl im) (i_cml im) (i_vls im)) as [[[[[cid ca] pb] pa] ptls]| |]; cbn [bind] in E; try discriminate.
  destruct ((0 <? len (i_ahc im) / 12) && (len (i_ahd im) <? 32 * (len (i_ahc im) / 12))) eqn:Ck; [discriminate|].
  apply bind_ok in E as (a1 & _ & E). apply bind_ok in E as (a2 & _ & E).
  assert (Q: forall a b, @Ok st a = Ok b -> a = b) by (intros ? ? Q; congruence).
  apply Q in E. subst s. cbn. repeat split; try reflexivity.
  unfold aht_check_fails. intros Hf.
  destruct (N.ltb_spec 0 (len (i_ahc im) / 12)); [|lia].
  destruct (N.ltb_spec (len (i_ahd im)) (32 * (len (i_ahc im) / 12))); [discriminate|lia].
Qed.

Lemma crash_image_open b img : crash_image (f_open b) img -> img = b.
Proof. intros C. apply (crash_image_nopending (f_open b)); auto. Qed.

Lemma Forall2_open l l' : Forall2 crash_image (map f_open l) l' -> l' = l.
Proof.
  revert l'; induction l as [|b l IH]; intros l' F; inversion F; subst; auto.
  f_equal; [apply crash_image_open; auto|apply IH; auto].
Qed.

(* the truncation issued by an open that found a partial last commit-log entry may or may not (or
   partly) have reached the disk: the logs recover to the same state *)
Lemma entry_at_take cm m k : 1 <= k -> 44 * k <= m -> entry_at (take m cm) k = entry_at cm k.
Proof. intros Hk Hm. unfold entry_at. rewrite slice_take by lia. reflexivity. Qed.

Lemma recover_logs_trim c tx cm vl m :
  c_prealloc c = false -> len cm - len cm mod 44 <= m ->
  recover_logs H c tx (take m cm) vl = recover_logs H c tx cm vl.
Proof.
  intros Hp Hm. unfold recover_logs. rewrite Hp. cbn [andb].
  set (csz := len cm - len cm mod 44) in *.
  assert (Ec: len (take m cm) - len (take m cm) mod 44 = csz).
  { rewrite len_take. unfold csz. lia. }
  rewrite Ec.
  assert (El: recover_logs_at H csz tx (take m cm) vl = recover_logs_at H csz tx cm vl).
  { unfold recover_logs_at. destruct (N.ltb_spec 0 csz) as [Hpos|Hz]; [|reflexivity].
    rewrite entry_at_take; [reflexivity| |]; unfold csz in *; lia. }
  rewrite El. reflexivity.
Qed.

Theorem crash_during_recovery c nv s im upto s1 im' :
  c_prealloc c = false -> 0 < c_thld c -> reach H c nv s -> crash s im ->
  recover_upto H upto c im = Ok s1 ->      (* recovery interrupted after re-linking `upto` leaves *)
  crash s1 im' ->                           (* ... by a second crash *)
  (* recovery wrote nothing to the tx and value logs and at most dropped the partial last entry of
     the commit log *)
  i_txl im' = i_txl im /\ i_vls im' = i_vls im /\
  (exists m, len (i_cml im) - len (i_cml im) mod 44 <= m /\ i_cml im' = take m (i_cml im)) /\
  exists sf,
    recover H c im = Ok sf /\ phase_ sf = PIdle /\ asize sf = precommitted sf /\
    ((aht_check_fails im' /\ recover H c im' = Err ECorruptedData) \/
     (~ aht_check_fails im' /\ exists s2,
        recover H c im' = Ok s2 /\
        committed s2 = committed sf /\ calh s2 = calh sf /\ pbuf s2 = pbuf sf /\ palh s2 = palh sf /\
        pts s2 = pts sf /\ acked s2 = acked sf /\ txl s2 = txl sf /\ vls s2 = vls sf /\
        phase_ s2 = PIdle /\ asize s2 = precommitted s2)).
Proof.
  intros Hp Ht R Cr E1 Cr'.
  assert (R1: reach H c nv s1) by (eapply r_crash; eauto).
  destruct (recover_core _ _ _ _ E1) as (L1 & T1 & V1 & C1 & _ & _ & _ & _ & Nf1).
  rewrite Hp in C1.
  pose proof Cr' as Cr2.
  destruct Cr' as (Ctx & Ccm & Cvl & _ & _).
  rewrite T1 in Ctx. rewrite V1 in Cvl. rewrite C1 in Ccm.
  assert (Etx: i_txl im' = i_txl im) by (apply crash_image_open; auto).
  assert (Evl: i_vls im' = i_vls im) by (apply Forall2_open; auto).
  assert (Ecm: exists m, len (i_cml im) - len (i_cml im) mod 44 <= m /\ i_cml im' = take m (i_cml im)).
  { destruct (open_trim_spec H H_len (i_cml im) 44 ltac:(lia)) as (O1 & O2 & _).
    destruct (cpre_pstream _ _ O2) as (Hps & Hnil).
    destruct (crash_image_pstream _ _ _ Hps ltac:(rewrite O1; lia) Ccm) as (m & j & Hm & Hj & Ei).
    rewrite Hnil, O1 in *. rewrite len_nil in Hj. assert (j = 0) by lia. subst j.
    rewrite take_0, wr_nil in Ei. exists m. auto. }
  split; [exact Etx|]. split; [exact Evl|]. split; [exact Ecm|].
  destruct Ecm as (m & Hm & Ecm).
  destruct (crash_safety H H_len c nv s im Hp Ht R Cr) as [(Bad & _)|(_ & sf & Ef & _ & _ & Af & Pf & Sf & _)];
    [contradiction|].
  exists sf. split; [exact Ef|]. split; [exact Pf|]. split; [exact Sf|].
  destruct (crash_safety H H_len c nv s1 im' Hp Ht R1 Cr2) as [(Bad & E2)|(Good & s2 & E2 & _ & _ & A2 & P2 & S2 & _)].
  { left. auto. }
  right. split; [exact Good|]. exists s2. split; [exact E2|].
  destruct (recover_core _ _ _ _ E2) as (L2 & T2 & V2 & _ & K2 & _).
  destruct (recover_core _ _ _ _ Ef) as (Lf & Tf & Vf & _ & Kf & _).
  rewrite Etx, Ecm, Evl in L2. rewrite (recover_logs_trim c _ _ _ m Hp Hm) in L2. rewrite L2 in Lf.
  assert (committed s2 = committed sf) by congruence.
  assert (calh s2 = calh sf) by congruence. assert (pbuf s2 = pbuf sf) by congruence.
  assert (palh s2 = palh sf) by congruence. assert (pts s2 = pts sf) by congruence.
  rewrite Evl in V2. rewrite Etx in T2.
  repeat split; auto; try congruence.
Qed.

End PG.
