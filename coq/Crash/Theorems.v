(* C03 — the theorems about the commit protocol and recovery (statements re-exported, closed by
   `exact`, in Properties/C03.v). *)
From V Require Import Crash.Storage Crash.StorageProofs Crash.Protocol Crash.RecordProofs Crash.AhtProofs
  Crash.InvProofs Crash.ValuesProofs Crash.RecoverProofs.
From Coq Require Import ZifyN ZifyNat ZifyBool Lia.

Section TH.
Variable H : bytes -> bytes.
Hypothesis H_len : forall x, length (H x) = 32%nat.

Notation Inv := (Inv H).
Notation step := (step H).
Notation reach := (reach H).

Notation VInv := (VInv H).

Lemma step_Inv nv s h d o s' : Inv nv s h d -> VInv s h d -> step s o = Ok s' ->
  exists h' d', Inv nv s' h' d' /\ VInv s' h' d' /\
    match o with OPre _ _ => exists r, h' = h ++ [r] | _ => h' = h end.
Proof.
  intros I V E. destruct o.
  - exists h, d. split; [eapply step_OVal; eauto|split; [eapply vstep_OVal; eauto|reflexivity]].
  - destruct (step_OPre H H_len _ _ _ _ _ _ _ I E) as (r & I' & _ & _ & _ & _ & Ph & _ & Hx & Ev & Ei).
    exists (h ++ [r]), d. split; [exact I'|]. split; [eapply vstep_OPre; eauto|eauto].
  - exists h, d. split; [eapply step_OFlush; eauto|split; [eapply vstep_OFlush; eauto|reflexivity]].
  - exists h, d. split; [eapply step_OSyncStart; eauto|split; [eapply vstep_OSyncStart; eauto|reflexivity]].
  - exists h, d. split; [eapply step_OSyncV; eauto|split; [eapply vstep_OSyncV; eauto|reflexivity]].
  - exists h, (precommitted s). split; [eapply (proj1 (step_OSyncTx H H_len _ _ _ _ _ I E))|split; [eapply vstep_OSyncTx; eauto|reflexivity]].
  - exists h, d. split; [eapply step_OSyncC; eauto|split; [eapply vstep_OSyncC; eauto|reflexivity]].
Qed.

Lemma step_cfg s o s' : step s o = Ok s' -> s_cfg s' = s_cfg s.
Proof.
  intros E. unfold Protocol.step in E. cbv zeta in E.
  assert (Q: forall a b, @Ok st a = Ok b -> a = b) by (intros ? ? Q; congruence).
  destruct o;
  repeat first
    [ discriminate
    | match type of E with bind _ _ = Ok _ => apply bind_ok in E as (? & ? & E) end
    | match type of E with
      | context [match ?x with _ => _ end] => destruct x eqn:?
      | context [if ?x then _ else _] => destruct x eqn:?
      end ];
  try (apply Q in E; subst s'; reflexivity).
Qed.

Lemma step_ready nv s h d o s' : Inv nv s h d -> step s o = Ok s' -> ready s -> ready s'.
Proof.
  unfold ready. intros I E R. unfold Protocol.step in E. cbv zeta in E.
  assert (Q: forall a b, @Ok st a = Ok b -> a = b) by (intros ? ? Q; congruence).
  destruct o.
  - destruct (nth_error (vls s) v); [|discriminate]. apply Q in E. subst s'. exact R.
  - destruct (negb (phase_idle (phase_ s))); [discriminate|].
    destruct (nth_error (inflight s) i) as [[[[v vo] vn] hv]|]; [|discriminate].
    destruct (_ <=? _); [discriminate|].
    destruct (f_setoffset_gen _ (txl s) (pts s)); [|discriminate].
    destruct (negb _); [discriminate|].
    apply bind_ok in E as (a1 & E1 & E). apply bind_ok in E as (a2 & E2 & E).
    apply Q in E. subst s'. unfold precommitted. cbn [asize committed pbuf].
    apply aht_reset_size in E1. apply aht_append_size in E2. rewrite app_length. cbn [length].
    unfold precommitted in *. lia.
  - destruct f; try (apply Q in E; subst s'; exact R).
    destruct (nth_error (vls s) v); [|discriminate]. apply Q in E; subst s'; exact R.
  - destruct (_ && _); [|discriminate]. apply Q in E; subst s'; exact R.
  - destruct (phase_ s); try discriminate. destruct (existsb _ _); [discriminate|].
    destruct (nth_error (vls s) v); [|discriminate]. apply Q in E; subst s'; exact R.
  - destruct (phase_ s); try discriminate. destruct (negb _); [discriminate|].
    apply bind_ok in E as (a & Ea & E).
    destruct (f_setoffset_gen _ (cml s) (44 * committed s)); [|discriminate].
    apply Q in E. subst s'. unfold precommitted. cbn [asize committed pbuf].
    assert (a_size a = asize s).
    { destruct (c_ahtsync (s_cfg s)); [apply aht_sync_size in Ea; exact Ea|].
      assert (a = aht_of s) by congruence. subst a. reflexivity. }
    unfold precommitted in R. lia.
  - destruct (phase_ s) as [| |t] eqn:Ep; try discriminate. apply Q in E. subst s'.
    unfold precommitted. cbn [asize committed pbuf length].
    pose proof (v_cph _ _ _ _ _ I) as Cph. rewrite Ep in Cph. destruct Cph as (Et & _). lia.
Qed.

Lemma reach_Inv c nv s :
  c_prealloc c = false -> 0 < c_thld c -> reach c nv s ->
  s_cfg s = c /\ exists h d, Inv nv s h d /\ VInv s h d.
Proof.
  intros Hp Ht R. induction R as [|s o s' R IH Rd E|s im upto s' R IH Cr E].
  - split; [reflexivity|]. exists [], 0. split; [apply Inv_init; auto|apply VInv_init].
  - destruct IH as (Ec & h & d & I & V). split; [rewrite (step_cfg _ _ _ E); exact Ec|].
    destruct (step_Inv _ _ _ _ _ _ I V E) as (h' & d' & I' & V' & _). eauto.
  - destruct IH as (Ec & h & d & I & V).
    destruct (recover_ok H H_len _ _ _ _ _ upto I V Cr)
      as [(_ & E2)|(_ & s2 & c' & rs & E2 & _ & _ & _ & _ & I2 & _ & Ecfg & _ & _ & _ & _ & _ & _ & _ & _ & _ & V2 & _)];
      rewrite Ec in E2; [congruence|].
    assert (s2 = s') by congruence. subst s2. split; [congruence|]. eauto.
Qed.

(* ---- a reader of logs that start with the encodings of c chained transactions ---- *)
Lemma history_ok_of_prefixes h tx cm c :
  chain H 0 (alh0 H) 0 h -> (c <= length h)%nat ->
  take (44 * N.of_nat c) cm = entries (firstn c h) ->
  take (len (raws (firstn c h))) tx = raws (firstn c h) -> len (raws (firstn c h)) <= len tx ->
  history_ok H tx cm (N.of_nat c) /\
  (forall k, (1 <= k <= c)%nat -> exists r, nth_error h (k - 1) = Some r /\ tx_at tx cm (N.of_nat k) = Some (t_raw r)).
Proof.
  intros Hc Hl Tc Tt Ltx. split.
  - intros k Hk.
    assert (Hk': (1 <= N.to_nat k <= c)%nat) by lia.
    destruct (read_committed H H_len h tx cm c (N.to_nat k) Hc Hl Tc Tt Ltx Hk')
      as (r & R1 & R2 & R3 & R4 & R5 & R6 & R7 & R8).
    rewrite Nnat.N2Nat.id in *.
    destruct R2 as (Hparse & Halh & Hlen & _).
    exists (t_raw r), (t_prev r), (t_body r), (len (t_raw r)).
    split; [exact R5|]. split.
    { rewrite <- R3. apply Hparse. apply take_all. }
    split; [reflexivity|]. split.
    + (* PrevAlh = Alh recorded for k-1 *)
      rewrite R7. unfold alh_at.
      destruct (N.eqb_spec (k - 1) 0) as [E0|N0].
      * replace (N.to_nat k - 1)%nat with 0%nat by lia. reflexivity.
      * assert (Hk2: (1 <= N.to_nat (k - 1) <= c)%nat) by lia.
        destruct (read_committed H H_len h tx cm c (N.to_nat (k - 1)) Hc Hl Tc Tt Ltx Hk2)
          as (r' & Q1 & _ & _ & Q4 & _).
        rewrite Nnat.N2Nat.id in Q4. rewrite Q4.
        replace (N.to_nat k - 1)%nat with (S (N.to_nat (k - 1) - 1)) by lia.
        apply last_alh_firstn_S. exact Q1.
    + unfold alh_at. destruct (N.eqb_spec k 0); [lia|]. rewrite R4, Halh, R3. reflexivity.
  - intros k Hk.
    destruct (read_committed H H_len h tx cm c k Hc Hl Tc Tt Ltx Hk) as (r & R1 & _ & _ & _ & R5 & _).
    exists r. auto.
Qed.

Lemma Inv_read nv s h d :
  Inv nv s h d ->
  history_ok H (durable (txl s)) (durable (cml s)) (committed s) /\
  (forall k, 1 <= k <= committed s ->
     exists r, nth_error h (N.to_nat k - 1) = Some r /\
               tx_at (durable (txl s)) (durable (cml s)) k = Some (t_raw r)).
Proof.
  intros I. destruct I as [_ _ Ichain Iplen Icd _ _ _ _ _ Itdur _ _ Icdur _ _].
  destruct Itdur as (T1 & T2 & _). destruct Icdur as (C1 & _ & C3).
  set (c := N.to_nat (committed s)).
  assert (Hcl: (c <= length h)%nat) by (unfold c; lia).
  assert (Hcd: (c <= N.to_nat d)%nat) by (unfold c; lia).
  destruct (history_ok_of_prefixes h (durable (txl s)) (durable (cml s)) c) as (A & B); auto.
  - unfold c. rewrite Nnat.N2Nat.id. exact C3.
  - rewrite <- (take_take _ (dts h d)) by (unfold dts; apply raws_firstn_mono; auto).
    rewrite T2. apply raws_prefix. auto.
  - pose proof (raws_firstn_mono h c (N.to_nat d) Hcd). unfold dts in T1. lia.
  - unfold c in *. rewrite Nnat.N2Nat.id in A. split; [exact A|].
    intros k Hk. destruct (B (N.to_nat k)) as (r & R1 & R2); [lia|].
    rewrite Nnat.N2Nat.id in R2. eauto.
Qed.

(* values of committed transaction k, from the two invariants *)
Lemma Inv_values nv s h d k :
  Inv nv s h d -> VInv s h d -> 1 <= k <= committed s -> values_durable_for H s k.
Proof.
  intros I V Hk.
  destruct (Inv_read _ _ _ _ I) as (A & B).
  pose proof (v_cd _ _ _ _ _ I) as Hcd.
  destruct (B k Hk) as (r & R1 & R2).
  destruct (vv_hist _ _ _ _ V _ _ R1) as (x & X1 & X2 & X3).
  destruct x as [[[v vo] vn] hv].
  assert (X4: val_dur H s (v, vo, vn, hv)) by (apply X3; left; lia).
  destruct (A k Hk) as (raw & prev & body & n & T1 & T2 & _).
  assert (raw = t_raw r) by congruence. subst raw.
  pose proof (v_chain _ _ _ _ _ I) as Ch.
  destruct (chain_nth H H_len _ _ _ _ _ _ Ch R1) as ((Hparse & _) & _).
  specialize (Hparse (t_raw r) (take_all _)). rewrite Hparse in T2.
  assert (body = t_body r) by congruence. subst body.
  exists (t_raw r), prev, (t_body r), n, v, vo, vn, hv.
  split; [exact T1|]. split; [rewrite Hparse; congruence|]. split; [exact X1|exact X4].
Qed.

(* ================= ack_implies_durable (any number of crashes) ================= *)
Theorem ack_implies_durable c nv s :
  c_prealloc c = false -> 0 < c_thld c -> reach c nv s ->
  acked s <= committed s /\
  history_ok H (durable (txl s)) (durable (cml s)) (acked s) /\
  forall k, 1 <= k <= acked s -> values_durable_for H s k.
Proof.
  intros Hp Ht R. destruct (reach_Inv _ _ _ Hp Ht R) as (_ & h & d & I & V).
  destruct (Inv_read _ _ _ _ I) as (A & _).
  pose proof (v_ack _ _ _ _ _ I) as Hack. split; [exact Hack|].
  split; [intros k Hk; apply A; lia|].
  intros k Hk. eapply Inv_values; eauto. lia.
Qed.

(* ================= crash safety ================= *)
(* what a successful recovery guarantees *)
Definition recovered_ok (s : st) (im : images) (s' : st) : Prop :=
    acked s <= committed s' /\ acked s' = committed s' /\ phase_ s' = PIdle /\
    asize s' = precommitted s' /\
    durable (txl s') = i_txl im /\ durable (cml s') = i_cml im /\ map durable (vls s') = i_vls im /\
    (forall k, 1 <= k <= acked s ->
       tx_at (i_txl im) (i_cml im) k = tx_at (durable (txl s)) (durable (cml s)) k) /\
    history_ok H (i_txl im) (i_cml im) (committed s') /\
    (forall k, 1 <= k <= committed s' -> values_durable_for H s' k).

(* the size check of ahtree.OpenWith: the tree's digest log is shorter than its commit log says *)
Definition aht_check_fails (im : images) : Prop := len (i_ahd im) < 32 * (len (i_ahc im) / 12).

Theorem crash_safety c nv s im :
  c_prealloc c = false -> 0 < c_thld c -> reach c nv s -> crash s im ->
  (aht_check_fails im /\ recover H c im = Err ECorruptedData) \/
  (~ aht_check_fails im /\ exists s', recover H c im = Ok s' /\ reach c nv s' /\ recovered_ok s im s').
Proof.
  intros Hp Ht R Cr. destruct (reach_Inv _ _ _ Hp Ht R) as (Ec & h & d & I & V).
  unfold recover.
  destruct (recover_ok H H_len _ _ _ _ _ (N.to_nat (len (i_txl im))) I V Cr)
    as [(Hbad & E)|(Hgood & s' & c' & rs & E & Hc1 & Hc2 & Ecm & Eack & I' & Eph & Ecfg & Etx & Evl & Ecd & Ecf & Hidle & Tcm & Ttx & Ltx & Hup & V' & _)];
    rewrite Ec in E.
  { left. split; [exact Hbad|exact E]. }
  right. split; [unfold aht_check_fails; lia|].
  exists s'. split; [exact E|]. split; [eapply r_crash; eauto|].
  pose proof (v_ack _ _ _ _ _ I) as Hack. unfold recovered_ok.
  split; [lia|]. split; [congruence|]. split; [exact Eph|].
  destruct (Inv_read _ _ _ _ I') as (A' & B').
  split; [|split; [rewrite Etx; reflexivity|split; [exact Ecd|split]]].
  - (* the tree has been re-linked completely: there are at most len(tx) transactions *)
    apply Hup.
    pose proof (v_plen _ _ _ _ _ I') as Pl. pose proof (v_chain _ _ _ _ _ I') as Ch.
    pose proof (raws_len_ge H H_len _ _ _ _ Ch) as Lg.
    pose proof (v_tview _ _ _ _ _ I') as (V1 & _). pose proof (v_pts _ _ _ _ _ I') as Pt.
    rewrite Etx, lview_open in V1. lia.
  - rewrite Evl, map_map. cbn [f_open durable]. apply map_id.
  - rewrite Etx, Ecd in A', B'. cbn [f_open durable] in A', B'.
    split; [|split].
    + intros k Hk.
      pose proof (v_plen _ _ _ _ _ I) as Pl0. pose proof (v_cd _ _ _ _ _ I) as Cd0.
      destruct (Inv_read _ _ _ _ I) as (_ & B).
      destruct (B k ltac:(lia)) as (r & R1 & R2).
      destruct (B' k ltac:(lia)) as (r' & R1' & R2').
      rewrite R2, R2'. f_equal. f_equal.
      rewrite nth_error_app1 in R1' by (rewrite firstn_length_le by lia; lia).
      rewrite nth_error_firstn_lt in R1' by lia.
      congruence.
    + exact A'.
    + intros k Hk. eapply Inv_values; eauto.
Qed.

Lemma reach_run c nv s ops s' :
  c_prealloc c = false -> 0 < c_thld c ->
  reach c nv s -> ready s -> run H s ops = Ok s' -> reach c nv s' /\ ready s'.
Proof.
  intros Hp Ht. revert s; induction ops as [|o ops IH]; intros s R Rd E; cbn [run] in E.
  - assert (s' = s) by congruence. subst. auto.
  - destruct (step s o) as [s1| |] eqn:E1; cbn [bind] in E; try discriminate.
    destruct (reach_Inv _ _ _ Hp Ht R) as (_ & h & d & I & _).
    eapply IH; [|eapply step_ready; eauto|exact E]. eapply r_step; eauto.
Qed.

Lemma reach0_reach c nv s : c_prealloc c = false -> 0 < c_thld c -> reach0 H c nv s -> reach c nv s /\ ready s.
Proof. intros Hp Ht (ops & E). eapply reach_run; eauto; [apply r_init|reflexivity]. Qed.

End TH.
