(* C03 — the theorems about the commit protocol and recovery (statements re-exported, closed by
   `exact`, in Properties/C03.v). *)
From V Require Import Crash.Storage Crash.StorageProofs Crash.Protocol Crash.RecordProofs Crash.AhtProofs
  Crash.InvProofs Crash.RecoverProofs.
From Coq Require Import ZifyN ZifyNat ZifyBool Lia.

Section TH.
Variable H : bytes -> bytes.
Hypothesis H_len : forall x, length (H x) = 32%nat.

Notation Inv := (Inv H).
Notation step := (step H).
Notation reach := (reach H).

Lemma step_Inv nv s h d o s' : Inv nv s h d -> step s o = Ok s' -> exists h' d', Inv nv s' h' d'.
Proof.
  intros I E. destruct o.
  - exists h, d. eapply step_OVal; eauto.
  - destruct (step_OPre H H_len _ _ _ _ _ _ _ I E) as (r & I' & _). eauto.
  - exists h, d. eapply step_OFlush; eauto.
  - exists h, d. eapply step_OSyncStart; eauto.
  - exists h, d. eapply step_OSyncV; eauto.
  - exists h, (precommitted s). eapply step_OSyncTx; eauto.
  - exists h, d. eapply step_OSyncC; eauto.
Qed.

Lemma step_cfg s o s' : step s o = Ok s' -> s_cfg s' = s_cfg s.
Proof.
  intros E. unfold Protocol.step in E. cbv zeta in E.
  destruct o; repeat match type of E with
  | context [match ?x with _ => _ end] => destruct x eqn:?; try discriminate
  | context [if ?x then _ else _] => destruct x eqn:?; try discriminate
  end;
  repeat match type of E with
  | bind _ _ = Ok _ => apply bind_ok in E as (? & ? & E)
  end;
  try (assert (Q: forall a b, @Ok st a = Ok b -> a = b) by (intros ? ? Q; congruence); apply Q in E; subst s'; reflexivity).
Qed.

Lemma reach_Inv c nv s :
  c_prealloc c = false -> 0 < c_thld c -> reach c nv s -> s_cfg s = c /\ exists h d, Inv nv s h d.
Proof.
  intros Hp Ht R. induction R as [|s o s' R IH E|s im upto s' R IH Cr E].
  - split; [reflexivity|]. exists [], 0. apply Inv_init; auto.
  - destruct IH as (Ec & h & d & I). split; [rewrite (step_cfg _ _ _ E); exact Ec|].
    eapply step_Inv; eauto.
  - destruct IH as (Ec & h & d & I).
    destruct (recover_ok H H_len _ _ _ _ _ upto I Cr) as (s2 & c' & rs & E2 & _ & _ & _ & _ & I2 & _ & Ecfg & _).
    rewrite Ec in E2. assert (s2 = s') by congruence. subst s2. split; [congruence|]. eauto.
Qed.

Lemma nth_error_firstn_lt {A} (a b : nat) (h : list A) : (b < a)%nat -> nth_error (firstn a h) b = nth_error h b.
Proof.
  revert b h; induction a as [|a IH]; intros b h Hlt; [lia|].
  destruct h as [|x h]; [destruct b; reflexivity|].
  destruct b as [|b]; [reflexivity|]. cbn [firstn nth_error]. apply IH. lia.
Qed.

(* ---- a reader of logs that start with the encodings of c chained transactions ---- *)
Lemma history_ok_of_prefixes h tx cm c :
  chain H 0 (alh0 H) 0 h -> (c <= length h)%nat ->
  take (44 * N.of_nat c) cm = entries (firstn c h) ->
  take (len (raws (firstn c h))) tx = raws (firstn c h) -> len (raws (firstn c h)) <= len tx ->
  history_ok H tx cm (N.of_nat c) /\
  (forall k, (1 <= k <= c)%nat -> exists r, nth_error h (k - 1) = Some r /\ tx_at tx cm (N.of_nat k) = Some (t_raw r)).
Proof.
  intros Hc Hl Tc Tt Ltx. split.
  - intros k Hk.
    assert (Hk': (1 <= N.to_nat k <= c)%nat) by lia.
    destruct (read_committed H H_len h tx cm c (N.to_nat k) Hc Hl Tc Tt Ltx Hk')
      as (r & R1 & R2 & R3 & R4 & R5 & R6 & R7 & R8).
    rewrite Nnat.N2Nat.id in *.
    destruct R2 as (Hparse & Halh & Hlen & _).
    exists (t_raw r), (t_prev r), (t_body r), (len (t_raw r)).
    split; [exact R5|]. split.
    { rewrite <- R3. apply Hparse. apply take_all. }
    split; [reflexivity|]. split.
    + (* PrevAlh = Alh recorded for k-1 *)
      rewrite R7. unfold alh_at.
      destruct (N.eqb_spec (k - 1) 0) as [E0|N0].
      * replace (N.to_nat k - 1)%nat with 0%nat by lia. reflexivity.
      * assert (Hk2: (1 <= N.to_nat (k - 1) <= c)%nat) by lia.
        destruct (read_committed H H_len h tx cm c (N.to_nat (k - 1)) Hc Hl Tc Tt Ltx Hk2)
          as (r' & Q1 & _ & _ & Q4 & _).
        rewrite Nnat.N2Nat.id in Q4. rewrite Q4.
        replace (N.to_nat k - 1)%nat with (S (N.to_nat (k - 1) - 1)) by lia.
        apply last_alh_firstn_S. exact Q1.
    + unfold alh_at. destruct (N.eqb_spec k 0); [lia|]. rewrite R4, Halh, R3. reflexivity.
  - intros k Hk.
    destruct (read_committed H H_len h tx cm c k Hc Hl Tc Tt Ltx Hk) as (r & R1 & _ & _ & _ & R5 & _).
    exists r. auto.
Qed.

Lemma Inv_read nv s h d :
  Inv nv s h d ->
  history_ok H (durable (txl s)) (durable (cml s)) (committed s) /\
  (forall k, 1 <= k <= committed s ->
     exists r, nth_error h (N.to_nat k - 1) = Some r /\
               tx_at (durable (txl s)) (durable (cml s)) k = Some (t_raw r)).
Proof.
  intros I. destruct I as [_ _ Ichain Iplen Icd _ _ _ _ _ Itdur _ _ Icdur _ _].
  destruct Itdur as (T1 & T2 & _). destruct Icdur as (C1 & _ & C3).
  set (c := N.to_nat (committed s)).
  assert (Hcl: (c <= length h)%nat) by (unfold c; lia).
  assert (Hcd: (c <= N.to_nat d)%nat) by (unfold c; lia).
  destruct (history_ok_of_prefixes h (durable (txl s)) (durable (cml s)) c) as (A & B); auto.
  - unfold c. rewrite Nnat.N2Nat.id. exact C3.
  - rewrite <- (take_take _ (dts h d)) by (unfold dts; apply raws_firstn_mono; auto).
    rewrite T2. apply raws_prefix. auto.
  - pose proof (raws_firstn_mono h c (N.to_nat d) Hcd). unfold dts in T1. lia.
  - unfold c in *. rewrite Nnat.N2Nat.id in A. split; [exact A|].
    intros k Hk. destruct (B (N.to_nat k)) as (r & R1 & R2); [lia|].
    rewrite Nnat.N2Nat.id in R2. eauto.
Qed.

(* ================= ack_implies_durable (log part, any number of crashes) ================= *)
Theorem ack_implies_durable_logs c nv s :
  c_prealloc c = false -> 0 < c_thld c -> reach c nv s ->
  acked s <= committed s /\
  history_ok H (durable (txl s)) (durable (cml s)) (acked s).
Proof.
  intros Hp Ht R. destruct (reach_Inv _ _ _ Hp Ht R) as (_ & h & d & I).
  destruct (Inv_read _ _ _ _ I) as (A & _).
  pose proof (v_ack _ _ _ _ _ I) as Hack. split; [exact Hack|].
  intros k Hk. apply A. lia.
Qed.

(* ================= crash safety (log part) ================= *)
Theorem crash_safety_logs c nv s im :
  c_prealloc c = false -> 0 < c_thld c -> reach c nv s -> crash s im ->
  exists s', recover H c im = Ok s' /\ reach c nv s' /\
    acked s <= committed s' /\ acked s' = committed s' /\ phase_ s' = PIdle /\
    asize s' = precommitted s' /\
    (forall k, 1 <= k <= acked s ->
       tx_at (i_txl im) (i_cml im) k = tx_at (durable (txl s)) (durable (cml s)) k) /\
    history_ok H (i_txl im) (i_cml im) (committed s').
Proof.
  intros Hp Ht R Cr. destruct (reach_Inv _ _ _ Hp Ht R) as (Ec & h & d & I).
  unfold recover.
  destruct (recover_ok H H_len _ _ _ _ _ (N.to_nat (len (i_txl im))) I Cr)
    as (s' & c' & rs & E & Hc1 & Hc2 & Ecm & Eack & I' & Eph & Ecfg & Etx & Evl & Ecd & Ecp & Ecb & Tcm & Ttx & Ltx & Hup).
  rewrite Ec in E. exists s'. split; [exact E|]. split; [eapply r_crash; eauto|].
  pose proof (v_ack _ _ _ _ _ I) as Hack.
  split; [lia|]. split; [congruence|]. split; [exact Eph|].
  destruct (Inv_read _ _ _ _ I') as (A' & B').
  rewrite Etx, Ecd in A', B'. cbn [f_open durable] in A', B'.
  split; [|split].
  - (* the tree has been re-linked completely: there are at most len(tx) transactions *)
    apply Hup.
    pose proof (v_plen _ _ _ _ _ I') as Pl. pose proof (v_chain _ _ _ _ _ I') as Ch.
    pose proof (raws_len_ge H H_len _ _ _ _ Ch) as Lg.
    pose proof (v_tview _ _ _ _ _ I') as (V1 & _). pose proof (v_pts _ _ _ _ _ I') as Pt.
    rewrite Etx, lview_open in V1. lia.
  - intros k Hk.
    pose proof (v_plen _ _ _ _ _ I) as Pl0. pose proof (v_cd _ _ _ _ _ I) as Cd0.
    destruct (Inv_read _ _ _ _ I) as (_ & B).
    destruct (B k ltac:(lia)) as (r & R1 & R2).
    destruct (B' k ltac:(lia)) as (r' & R1' & R2').
    rewrite R2, R2'. f_equal. f_equal.
    rewrite nth_error_app1 in R1' by (rewrite firstn_length_le by lia; lia).
    rewrite nth_error_firstn_lt in R1' by lia.
    congruence.
  - exact A'.
Qed.

Lemma reach_run c nv s ops s' : reach c nv s -> run H s ops = Ok s' -> reach c nv s'.
Proof.
  revert s; induction ops as [|o ops IH]; intros s R E; cbn [run] in E.
  - congruence.
  - destruct (step s o) as [s1| |] eqn:E1; cbn [bind] in E; try discriminate.
    eapply IH; [|exact E]. eapply r_step; eauto.
Qed.

Lemma reach0_reach c nv s : reach0 H c nv s -> reach c nv s.
Proof. intros (ops & E). eapply reach_run; [apply r_init|exact E]. Qed.

End TH.
