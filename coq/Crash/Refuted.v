(* C03 — where the faithful model VIOLATES the full statement: concrete traces + crash images,
   evaluated by vm_compute with the executable hash of Crash/ToyHash.v (the positive theorems hold
   for EVERY 32-byte-valued H, so one instance refutes the full statement; no witness depends on a
   property of the hash: a value log that is too short, a leaf of another transaction, a torn entry).  Each witness is replayed on the real store
   by the Go harness (harness/c03, directed scenarios A, B, C). *)
From V Require Import Crash.Storage Crash.StorageProofs Crash.Protocol Crash.ToyHash Crash.ToyHashProofs.
From Coq Require Import Lia.

Definition Hh := Hc.
Lemma Hh_len : forall x, length (Hh x) = 32%nat.
Proof. exact Hc_len. Qed.

(* running operations from a reachable state: every operation is performed by a `ready` store *)
Fixpoint run_chk (s : st) (ops : list op) : option st :=
  match ops with
  | [] => Some s
  | o :: r =>
      if asize s =? precommitted s then
        match step Hh s o with Ok s1 => run_chk s1 r | _ => None end
      else None
  end.
Lemma reach_run c nv s ops s' : reach Hh c nv s -> run_chk s ops = Some s' -> reach Hh c nv s'.
Proof.
  revert s; induction ops as [|o ops IH]; intros s R E; cbn [run_chk] in E.
  - congruence.
  - destruct (N.eqb_spec (asize s) (precommitted s)) as [Rd|]; [|discriminate].
    destruct (step Hh s o) as [s1| |] eqn:E1; try discriminate.
    eapply IH; [|exact E]. eapply r_step; eauto.
Qed.

Lemma Forall2_durable l : Forall2 crash_image l (map durable l).
Proof. induction l; simpl; constructor; auto. apply crash_image_durable. Qed.

(* three kinds of crash images used below, for ANY state *)
Definition img_dur (s : st) : images :=
  mkImg (durable (txl s)) (durable (cml s)) (map durable (vls s)) (durable (ahd s)) (durable (ahc s)).
Definition img_tx (s : st) : images :=   (* the tx log as the OS has it, everything else durable only *)
  mkImg (os_view (txl s)) (durable (cml s)) (map durable (vls s)) (durable (ahd s)) (durable (ahc s)).
Definition img_txcm (s : st) : images := (* tx and commit log as the OS has them *)
  mkImg (os_view (txl s)) (os_view (cml s)) (map durable (vls s)) (durable (ahd s)) (durable (ahc s)).
Definition img_os (s : st) : images :=   (* every file as the OS has it (process kill) *)
  mkImg (os_view (txl s)) (os_view (cml s)) (map os_view (vls s)) (os_view (ahd s)) (os_view (ahc s)).
Lemma Forall2_os l : Forall2 crash_image l (map os_view l).
Proof. induction l; simpl; constructor; auto. apply crash_image_os. Qed.
Lemma crash_os s : crash s (img_os s).
Proof. unfold crash, img_os; cbn [i_txl i_cml i_vls i_ahd i_ahc].
  repeat split; try apply crash_image_os. apply Forall2_os. Qed.
Lemma crash_dur s : crash s (img_dur s).
Proof. unfold crash, img_dur; cbn [i_txl i_cml i_vls i_ahd i_ahc].
  repeat split; try apply crash_image_durable. apply Forall2_durable. Qed.
Lemma crash_tx s : crash s (img_tx s).
Proof. unfold crash, img_tx; cbn [i_txl i_cml i_vls i_ahd i_ahc].
  repeat split; try apply crash_image_durable. apply crash_image_os. apply Forall2_durable. Qed.
Definition img_ahd (s : st) : images := (* the tree's data log as the OS has it (truncation included) *)
  mkImg (durable (txl s)) (durable (cml s)) (map durable (vls s)) (os_view (ahd s)) (durable (ahc s)).
Lemma crash_ahd s : crash s (img_ahd s).
Proof. unfold crash, img_ahd; cbn [i_txl i_cml i_vls i_ahd i_ahc].
  repeat split; try apply crash_image_durable; try apply crash_image_os. apply Forall2_durable. Qed.
Lemma crash_txcm s : crash s (img_txcm s).
Proof. unfold crash, img_txcm; cbn [i_txl i_cml i_vls i_ahd i_ahc].
  repeat split; try apply crash_image_durable; try apply crash_image_os. apply Forall2_durable. Qed.

Definition get (r : res st) (d : st) : st := match r with Ok a => a | _ => d end.

(* ---- what a reader checks ---- *)
(* leaf k of the hash tree is the Alh of transaction k (committed: through the commit log;
   precommitted: from the commit buffer) *)
Definition alh_of_tx (s : st) (k : N) : bytes :=
  if k <=? committed s then alh_at Hh (lview (cml s)) k
  else match nth_error (pbuf s) (N.to_nat (k - committed s - 1)) with Some (_, a, _, _) => a | None => [] end.
Fixpoint tree_matches_upto (s : st) (n : nat) : bool :=
  match n with
  | O => true
  | S m => tree_matches_upto s m &&
           list_eqb_N (slice (lview (ahd s)) (32 * N.of_nat m) 32) (alh_of_tx s (N.of_nat (S m)))
  end.
Definition tree_matches (s : st) : bool := tree_matches_upto s (N.to_nat (asize s)).

(* ============ A (FIXED by ccd70f3): a precommitted record without its values is not reloaded ============ *)
Definition cfA := mkCfg 4 4 false 0 RSync false true.
Definition sA0 := init Hh cfA 1.
(* a committer appends its values and precommits; the tx-log buffer reaches the OS (buffer full /
   write-back), the value-log buffer does not; crash.  Before the fix recovery reloaded the record
   and the syncer committed a transaction whose values were nowhere. *)
Definition opsA := [OVal 0 [1; 2; 3]; OPre 0 [9; 9]; OFlush FTx 1000].
Definition sA1 := get (run Hh sA0 opsA) sA0.
Definition imA := img_tx sA1.
Definition sA2 := get (recover Hh cfA imA) sA0.
Lemma runA : run_chk sA0 opsA = Some sA1. Proof. vm_compute. reflexivity. Qed.
Lemma recA : recover_upto Hh (N.to_nat (len (i_txl imA))) cfA imA = Ok sA2. Proof. vm_compute. reflexivity. Qed.
Lemma crashA : crash sA1 imA.
Proof. exact (crash_tx sA1). Qed.

(* the record IS in the tx-log image, and is discarded: nothing reloaded, nothing committed *)
Example scenario_A_discarded :
  reach Hh cfA 1 sA2 /\ len (i_txl imA) = 123 /\ committed sA2 = 0 /\ precommitted sA2 = 0 /\ pts sA2 = 0.
Proof.
  split.
  - exact (r_crash Hh cfA 1 sA1 imA (N.to_nat (len (i_txl imA))) sA2
             (reach_run cfA 1 sA0 opsA sA1 (r_init Hh cfA 1) runA) crashA recA).
  - vm_compute. repeat split; congruence.
Qed.

(* ============ B (FIXED by b260503; history: the code before it, c_ahtsync = false): the hash tree keeps a
   leaf of a LOST transaction and is taken as up to date ============ *)
Definition cfB := mkCfg 2 4 false 0 RMem false false.
Definition sB0 := init Hh cfB 1.
(* two transactions are precommitted: the tree reaches its own sync threshold (2) and fsyncs its
   logs; the tx log is still in its write buffer; crash: both transactions are lost, the tree is not *)
Definition opsB1 := [OVal 0 [1]; OPre 0 [7]; OVal 0 [2]; OPre 0 [8]].
Definition sB1 := get (run Hh sB0 opsB1) sB0.
Definition imB1 := img_dur sB1.
Definition sB2 := get (recover Hh cfB imB1) sB0.
(* recovery lowered the tree's size (to the committed id, fix 2077e08) IN MEMORY only (ResetSize).  A new transaction 1' is committed
   durably (values, tx log, commit log fsynced; acknowledged); the tree holds it in its buffers
   (threshold not reached).  Second crash. *)
Definition opsB2 := [OVal 0 [3]; OPre 0 [5]; OSyncStart; OSyncV 0; OSyncTx; OSyncC].
Definition sB3 := get (run Hh sB2 opsB2) sB0.
Definition imB2 := img_dur sB3.
Definition sB4 := get (recover Hh cfB imB2) sB0.

Lemma runB1 : run_chk sB0 opsB1 = Some sB1. Proof. vm_compute. reflexivity. Qed.
Lemma recB1 : recover_upto Hh (N.to_nat (len (i_txl imB1))) cfB imB1 = Ok sB2. Proof. vm_compute. reflexivity. Qed.
Lemma runB2 : run_chk sB2 opsB2 = Some sB3. Proof. vm_compute. reflexivity. Qed.
Lemma recB2 : recover_upto Hh (N.to_nat (len (i_txl imB2))) cfB imB2 = Ok sB4. Proof. vm_compute. reflexivity. Qed.
Lemma crashB1 : crash sB1 imB1.
Proof. exact (crash_dur sB1). Qed.
Lemma crashB2 : crash sB3 imB2.
Proof. exact (crash_dur sB3). Qed.

Lemma reachB1 : reach Hh cfB 1 sB1.
Proof. exact (reach_run cfB 1 sB0 opsB1 sB1 (r_init Hh cfB 1) runB1). Qed.
Lemma reachB2 : reach Hh cfB 1 sB2.
Proof. exact (r_crash Hh cfB 1 sB1 imB1 (N.to_nat (len (i_txl imB1))) sB2 reachB1 crashB1 recB1). Qed.
Lemma reachB3 : reach Hh cfB 1 sB3.
Proof. exact (reach_run cfB 1 sB2 opsB2 sB3 reachB2 runB2). Qed.
Lemma reachB4 : reach Hh cfB 1 sB4.
Proof. exact (r_crash Hh cfB 1 sB3 imB2 (N.to_nat (len (i_txl imB2))) sB4 reachB3 crashB2 recB2). Qed.

Theorem tree_refuted :
  exists (c : cfg) (nv : nat) (s : st),
    c_prealloc c = false /\ c_ahtsync c = false /\ reach Hh c nv s /\ phase_ s = PIdle /\
    committed s = 1 /\ acked s = 1 /\
    asize s = precommitted s /\     (* "binary-linking up to date" *)
    tree_matches s = false.         (* but leaf 1 is the Alh of the transaction that was lost *)
Proof.
  exists cfB, 1%nat, sB4. split; [reflexivity|]. split; [reflexivity|]. split.
  - exact reachB4.
  - vm_compute. repeat split; congruence.
Qed.

(* the SAME trace and crash images on the code since b260503 (the tree is fsynced by sync() before the
   commit entries are written): the recovered tree matches *)
Definition cfB' := mkCfg 2 4 false 0 RMem false true.
Definition sB1' := get (run Hh (init Hh cfB' 1) opsB1) (init Hh cfB' 1).
Definition sB2' := get (recover Hh cfB' (img_dur sB1')) (init Hh cfB' 1).
Definition sB3' := get (run Hh sB2' opsB2) (init Hh cfB' 1).
Definition sB4' := get (recover Hh cfB' (img_dur sB3')) (init Hh cfB' 1).
Example scenario_B_repaired :
  is_ok (run Hh (init Hh cfB' 1) opsB1) = true /\ is_ok (recover Hh cfB' (img_dur sB1')) = true /\
  is_ok (run Hh sB2' opsB2) = true /\ is_ok (recover Hh cfB' (img_dur sB3')) = true /\
  committed sB4' = 1 /\ asize sB4' = precommitted sB4' /\ tree_matches sB4' = true.
Proof. vm_compute. repeat split; congruence. Qed.

(* ============ C: PreallocFiles — a partially written commit-log entry stops recovery ============ *)
Definition cfC := mkCfg 4 4 true 440 RSync false true.
Definition sC0 := init Hh cfC 1.
(* one transaction goes through sync() up to the commit-log append; 20 of the 44 bytes of its entry
   reach the disk (write buffer flushed in the middle of the entry, or torn write); crash.
   The transaction was NOT acknowledged. *)
Definition opsC := [OVal 0 [1]; OPre 0 [7]; OSyncStart; OSyncV 0; OSyncTx; OFlush FCm 20].
Definition sC1 := get (run Hh sC0 opsC) sC0.
Definition imC := img_txcm sC1.
Lemma runC : run_chk sC0 opsC = Some sC1. Proof. vm_compute. reflexivity. Qed.
Lemma crashC : crash sC1 imC.
Proof. exact (crash_txcm sC1). Qed.

Theorem prealloc_refuted :
  exists (c : cfg) (nv : nat) (s : st) (im : images),
    c_prealloc c = true /\ reach Hh c nv s /\ crash s im /\ acked s = 0 /\
    is_ok (recover Hh c im) = false.
Proof.
  exists cfC, 1%nat, sC1, imC. split; [reflexivity|]. split.
  - exact (reach_run cfC 1 sC0 opsC sC1 (r_init Hh cfC 1) runC).
  - split; [exact crashC|]. vm_compute. split; reflexivity.
Qed.

(* the same image without PreallocFiles recovers (the partial entry is trimmed) *)
Definition cfC' := mkCfg 4 4 false 0 RSync false true.
Definition sC1' := get (run Hh (init Hh cfC' 1) opsC) (init Hh cfC' 1).
Definition imC' := img_txcm sC1'.
Example no_prealloc_recovers : is_ok (recover Hh cfC' imC') = true.
Proof. vm_compute. reflexivity. Qed.

(* the same image with the proposed repair fixes/C03-prealloc-clog-trim.diff (c_preallocfix = true): the
   slot is a zero-padded prefix of the entry of the transaction found in the tx log right after the
   last valid entry; it is ignored, the transaction is reloaded as precommitted *)
Definition cfCfix := mkCfg 4 4 true 440 RSync true true.
Definition sC1f := get (run Hh (init Hh cfCfix 1) opsC) (init Hh cfCfix 1).
Definition sC2f := get (recover Hh cfCfix (img_txcm sC1f)) (init Hh cfCfix 1).
Example scenario_C_repaired :
  is_ok (run Hh (init Hh cfCfix 1) opsC) = true /\ is_ok (recover Hh cfCfix (img_txcm sC1f)) = true /\
  committed sC2f = 0 /\ precommitted sC2f = 1 /\ asize sC2f = 1.
Proof. vm_compute. repeat split; congruence. Qed.

(* ============ D (FIXED by 0b488aa; history: the code between 09014a8 and 0b488aa, c_ahtreset = RCut): the
   tree's logs are truncated while its commit log still lists the entries ============ *)
(* Since 09014a8 a rewind below the flushed size truncates the file (and removes chunk files).
   ahtree.ResetSize rewinds the tree's commit log (fix 6a85281) WITHOUT fsyncing it; the next Append
   rewinds pLog/dLog = truncation (chunk files removed: durable at once).  Nothing orders the two
   truncations on their way to the disk.  Crash with the second on disk and the first not:
   ahtree.OpenWith finds a digest log shorter than the commit log says and refuses to open. *)
Definition cfD := mkCfg 2 4 false 0 RCut false true.
Definition sD0 := init Hh cfD 1.
(* transaction 1 is committed and acknowledged; 2 and 3 are precommitted: the tree reaches its sync
   threshold and fsyncs 3 leaves; the tx log is still buffered; crash: 2 and 3 are lost *)
Definition opsD1 := [OVal 0 [1]; OPre 0 [7]; OSyncStart; OSyncV 0; OSyncTx; OSyncC;
                     OVal 0 [2]; OPre 0 [8]; OVal 0 [3]; OPre 0 [9]].
Definition sD1 := get (run Hh sD0 opsD1) sD0.
Definition imD1 := img_dur sD1.
Definition sD2 := get (recover Hh cfD imD1) sD0.
(* recovery resets the tree to 1 leaf (commit log rewound, not fsynced); a new transaction 2' is
   precommitted: its leaf is appended at offset 32 = the data log is truncated there; second crash,
   the truncation of the data log reached the disk, that of the commit log did not *)
Definition opsD2 := [OVal 0 [4]; OPre 0 [5]].
Definition sD3 := get (run Hh sD2 opsD2) sD0.
Definition imD2 := img_ahd sD3.

Lemma runD1 : run_chk sD0 opsD1 = Some sD1. Proof. vm_compute. reflexivity. Qed.
Lemma recD1 : recover_upto Hh (N.to_nat (len (i_txl imD1))) cfD imD1 = Ok sD2. Proof. vm_compute. reflexivity. Qed.
Lemma runD2 : run_chk sD2 opsD2 = Some sD3. Proof. vm_compute. reflexivity. Qed.
Lemma reachD3 : reach Hh cfD 1 sD3.
Proof.
  apply (reach_run cfD 1 sD2 opsD2 sD3); [|exact runD2].
  apply (r_crash Hh cfD 1 sD1 imD1 (N.to_nat (len (i_txl imD1))) sD2); [|exact (crash_dur sD1)|exact recD1].
  exact (reach_run cfD 1 sD0 opsD1 sD1 (r_init Hh cfD 1) runD1).
Qed.

Theorem aht_truncation_refuted :
  exists (c : cfg) (nv : nat) (s : st) (im : images),
    c_prealloc c = false /\ 0 < c_thld c /\ c_ahtsync c = true /\ c_ahtreset c = RCut /\
    reach Hh c nv s /\ crash s im /\ acked s = 1 /\
    len (i_ahd im) < 32 * (len (i_ahc im) / 12) /\
    recover Hh c im = Err ECorruptedData.    (* an acknowledged commit, and the store does not open *)
Proof.
  exists cfD, 1%nat, sD3, imD2. split; [reflexivity|]. split; [reflexivity|]. split; [reflexivity|].
  split; [reflexivity|]. split; [exact reachD3|]. split; [exact (crash_ahd sD3)|].
  vm_compute. repeat split; congruence.
Qed.

(* the SAME trace on the code since 0b488aa (ResetSize fsyncs the tree's commit log after rewinding
   it): the store opens, the acknowledged transaction is there *)
Definition cfD' := mkCfg 2 4 false 0 RSync false true.
Definition sD1' := get (run Hh (init Hh cfD' 1) opsD1) (init Hh cfD' 1).
Definition sD2' := get (recover Hh cfD' (img_dur sD1')) (init Hh cfD' 1).
Definition sD3' := get (run Hh sD2' opsD2) (init Hh cfD' 1).
Definition sD4' := get (recover Hh cfD' (img_ahd sD3')) (init Hh cfD' 1).
Example scenario_D_repaired :
  is_ok (run Hh (init Hh cfD' 1) opsD1) = true /\ is_ok (recover Hh cfD' (img_dur sD1')) = true /\
  is_ok (run Hh sD2' opsD2) = true /\ is_ok (recover Hh cfD' (img_ahd sD3')) = true /\
  committed sD4' = 1 /\ asize sD4' = precommitted sD4' /\ tree_matches sD4' = true.
Proof. vm_compute. repeat split; congruence. Qed.
