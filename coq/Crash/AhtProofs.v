(* C03 — the hash-tree part of the protocol never fails and keeps its size bookkeeping
   (the CONTENT of the tree is not claimed here: see Crash/Refuted.v). *)
From V Require Import Crash.Storage Crash.StorageProofs Crash.Protocol.
From Coq Require Import ZifyN ZifyNat ZifyBool Lia.

Definition AInv (thld : N) (a : aht) : Prop :=
  wf (a_d a) /\ wf (a_c a) /\ a_latest a + a_cnt a = a_size a /\ a_cnt a < thld /\
  32 * a_size a <= f_offset (a_d a) /\ pending (a_c a) = [] /\ buf (a_c a) = [] /\
  12 * a_latest a <= bufoff (a_c a) /\ 32 * (len (durable (a_c a)) / 12) <= len (durable (a_d a)).

Lemma len_aht_entries from cnt : len (aht_entries from cnt) = 12 * N.of_nat cnt.
Proof.
  revert from; induction cnt as [|c IH]; intros from; [reflexivity|].
  cbn [aht_entries]. rewrite len_app, IH. unfold aht_entry. rewrite len_app, !len_be_enc.
  change (N.of_nat 8) with 8. change (N.of_nat 4) with 4. lia.
Qed.

Lemma os_view_nopending f : pending f = [] -> os_view f = durable f.
Proof. unfold os_view. intros ->. reflexivity. Qed.

Lemma len_durable_le_os f : len (durable f) <= len (os_view f).
Proof. apply apply_writes_len. Qed.

(* sync with K = latest + cnt pending entries accounted for *)
Lemma aht_sync_ok a K :
  wf (a_d a) -> wf (a_c a) -> a_latest a + a_cnt a = K -> 32 * K <= f_offset (a_d a) ->
  pending (a_c a) = [] -> buf (a_c a) = [] -> 12 * a_latest a <= bufoff (a_c a) ->
  32 * (len (durable (a_c a)) / 12) <= len (durable (a_d a)) ->
  exists a', aht_sync a = Ok a' /\ a_size a' = a_size a /\ a_latest a' = K /\ a_cnt a' = 0 /\
    wf (a_d a') /\ wf (a_c a') /\ f_offset (a_d a') = f_offset (a_d a) /\
    pending (a_c a') = [] /\ buf (a_c a') = [] /\ 12 * K <= bufoff (a_c a') /\
    32 * (len (durable (a_c a')) / 12) <= len (durable (a_d a')) /\
    len (durable (a_d a)) <= len (durable (a_d a')).
Proof.
  intros Wd Wc HK H32 Hp Hb H12 Hdur. unfold aht_sync.
  destruct (N.eqb_spec (a_cnt a) 0) as [E0|N0].
  - exists a. repeat split; auto; try lia.
  - destruct (f_setoffset (a_c a) (12 * a_latest a)) as [c1|] eqn:Es.
    2:{ unfold f_setoffset in Es. unfold f_offset in Es. rewrite Hb, len_nil in Es.
        destruct (N.ltb_spec (bufoff (a_c a) + 0) (12 * a_latest a)); [lia|].
        destruct (bufoff (a_c a) <=? 12 * a_latest a); discriminate. }
    destruct (f_setoffset_spec _ _ _ Wc Es) as (S1 & S2 & S3 & S4 & S5 & _ & _ & _ & _ & S9).
    specialize (S9 Hb).
    set (ents := aht_entries (a_latest a) (N.to_nat (a_cnt a))).
    assert (Le: len ents = 12 * a_cnt a) by (unfold ents; rewrite len_aht_entries; lia).
    set (c2 := f_append c1 ents).
    assert (W2: wf c2) by (apply wf_append; auto).
    destruct (f_sync_spec c2 W2) as (D1 & D2 & D3 & D4).
    destruct (f_sync_spec (a_d a) Wd) as (E1 & E2 & E3 & E4).
    eexists. split; [reflexivity|]. cbn [a_size a_latest a_cnt a_d a_c].
    assert (Lv1: lview c1 = durable (a_c a)).
    { unfold lview. rewrite S9, wr_nil. unfold os_view. rewrite S5, S4, Hp. reflexivity. }
    assert (O1: f_offset c1 = 12 * a_latest a) by exact S3.
    assert (Ld: len (durable (f_sync c2)) = N.max (len (durable (a_c a))) (12 * K)).
    { rewrite D1. unfold c2. rewrite lview_append by auto. rewrite Lv1, O1.
      rewrite len_wr.
      - rewrite Le. lia.
      - unfold wf in S2. unfold f_offset in O1. rewrite S9, len_nil in O1.
        rewrite os_view_nopending in S2 by congruence. rewrite S4 in S2. lia. }
    repeat split; auto; try lia.
    + apply wf_sync; auto.
    + apply wf_sync; auto.
    + unfold f_offset at 1. rewrite E3, E4, len_nil. lia.
    + rewrite D4. unfold c2, f_offset. cbn [f_append bufoff buf]. rewrite len_app, Le.
      unfold f_offset in O1. lia.
    + rewrite Ld, E1. rewrite len_lview by auto.
      pose proof (len_durable_le_os (a_d a)). lia.
    + rewrite E1, len_lview by auto. pose proof (len_durable_le_os (a_d a)). lia.
Qed.

Lemma aht_append_ok thld a leaf :
  AInv thld a -> len leaf = 32 ->
  exists a', aht_append thld a leaf = Ok a' /\ AInv thld a' /\ a_size a' = a_size a + 1 /\
             len (durable (a_d a)) <= len (durable (a_d a')).
Proof.
  intros (Wd & Wc & Hs & Hc & H32 & Hp & Hb & H12 & Hdur) Hl. unfold aht_append.
  destruct (f_setoffset (a_d a) (32 * a_size a)) as [d1|] eqn:Es.
  2:{ unfold f_setoffset in Es. destruct (N.ltb_spec (f_offset (a_d a)) (32 * a_size a)); [lia|].
      destruct (bufoff (a_d a) <=? 32 * a_size a); discriminate. }
  destruct (f_setoffset_spec _ _ _ Wd Es) as (S1 & S2 & S3 & S4 & S5 & _).
  set (d2 := f_append d1 leaf).
  assert (W2: wf d2) by (apply wf_append; auto).
  assert (O2: f_offset d2 = 32 * a_size a + 32).
  { unfold d2, f_offset. cbn [f_append bufoff buf]. rewrite len_app, Hl. unfold f_offset in S3. lia. }
  assert (D2: durable d2 = durable (a_d a)) by (unfold d2; cbn [f_append durable]; exact S4).
  cbn [a_cnt a_d a_c a_size a_latest].
  destruct (N.eqb_spec (a_cnt a + 1) thld) as [Et|Nt].
  - destruct (aht_sync_ok (mkAht d2 (a_c a) (a_size a) (a_latest a) (a_cnt a + 1)) (a_size a + 1))
      as (a' & Ea & R1 & R2 & R3 & R4 & R5 & R6 & R7 & R8 & R9 & R10 & R11);
      cbn [a_cnt a_d a_c a_size a_latest]; auto; try lia.
    + rewrite D2. exact Hdur.
    + rewrite Ea. cbn [bind]. eexists. split; [reflexivity|].
      cbn [a_cnt a_d a_c a_size a_latest] in R1, R6, R11.
      split; [|split].
      * unfold AInv. cbn [a_cnt a_d a_c a_size a_latest]. rewrite R1, R2, R3.
        repeat split; auto; try lia.
      * cbn [a_size]. rewrite R1. reflexivity.
      * cbn [a_d] in *. rewrite D2 in R11. exact R11.
  - cbn [bind]. eexists. split; [reflexivity|]. split; [|split].
    + unfold AInv. cbn [a_cnt a_d a_c a_size a_latest]. repeat split; auto; try lia.
      rewrite D2. exact Hdur.
    + reflexivity.
    + cbn [a_d]. rewrite D2. lia.
Qed.

Lemma aht_reset_ok thld a n :
  AInv thld a -> n <= a_size a -> 0 < thld ->
  exists a', aht_reset a n = Ok a' /\ AInv thld a' /\ a_size a' = n /\
             len (durable (a_d a)) <= len (durable (a_d a')).
Proof.
  intros (Wd & Wc & Hs & Hc & H32 & Hp & Hb & H12 & Hdur) Hn Ht. unfold aht_reset.
  destruct (N.ltb_spec (a_size a) n); [lia|].
  destruct (N.eqb_spec (a_size a) n) as [E|N].
  - exists a. split; [reflexivity|]. split; [unfold AInv; repeat split; auto|split; [auto|lia]].
  - destruct (aht_sync_ok a (a_size a)) as (a' & Ea & R1 & R2 & R3 & R4 & R5 & R6 & R7 & R8 & R9 & R10 & R11); auto.
    rewrite Ea. cbn [bind]. eexists. split; [reflexivity|]. split; [|split; [reflexivity|exact R11]].
    unfold AInv. cbn [a_cnt a_d a_c a_size a_latest]. repeat split; auto; try lia.
Qed.

Lemma aht_reset_same a n : a_size a = n -> aht_reset a n = Ok a.
Proof.
  intros E. unfold aht_reset. destruct (N.ltb_spec (a_size a) n); [lia|].
  destruct (N.eqb_spec (a_size a) n); [reflexivity|contradiction].
Qed.

Lemma aht_sync_AInv thld a :
  AInv thld a ->
  exists a', aht_sync a = Ok a' /\ AInv thld a' /\ a_size a' = a_size a /\
             a_latest a' = a_size a /\ a_cnt a' = 0 /\ f_offset (a_d a') = f_offset (a_d a) /\
             len (durable (a_d a)) <= len (durable (a_d a')).
Proof.
  intros (Wd & Wc & Hs & Hc & H32 & Hp & Hb & H12 & Hdur).
  destruct (aht_sync_ok a (a_size a)) as (a' & Ea & R1 & R2 & R3 & R4 & R5 & R6 & R7 & R8 & R9 & R10 & R11); auto.
  exists a'. split; [exact Ea|]. split; [|repeat split; auto].
  unfold AInv. rewrite R1, R2, R3, R6. repeat split; auto; lia.
Qed.

(* sizes, without any invariant *)
Lemma aht_sync_size a a' : aht_sync a = Ok a' -> a_size a' = a_size a.
Proof.
  unfold aht_sync. destruct (a_cnt a =? 0); [congruence|].
  destruct (f_setoffset (a_c a) (12 * a_latest a)); [|discriminate].
  intros E. assert (Q: forall x y, @Ok aht x = Ok y -> x = y) by (intros ? ? Q; congruence).
  apply Q in E. subst a'. reflexivity.
Qed.

Lemma aht_reset_size a n a' : aht_reset a n = Ok a' -> a_size a' = n.
Proof.
  unfold aht_reset. destruct (N.ltb_spec (a_size a) n); [discriminate|].
  destruct (N.eqb_spec (a_size a) n); [congruence|].
  intros E. apply bind_ok in E as (a1 & _ & E).
  assert (Q: forall x y, @Ok aht x = Ok y -> x = y) by (intros ? ? Q; congruence).
  apply Q in E. subst a'. reflexivity.
Qed.

Lemma aht_append_size thld a leaf a' : aht_append thld a leaf = Ok a' -> a_size a' = a_size a + 1.
Proof.
  unfold aht_append. destruct (f_setoffset (a_d a) (32 * a_size a)); [|discriminate].
  intros E. apply bind_ok in E as (a2 & E2 & E).
  assert (Q: forall x y, @Ok aht x = Ok y -> x = y) by (intros ? ? Q; congruence).
  apply Q in E. subst a'. cbn [a_size].
  destruct (_ =? thld).
  - apply aht_sync_size in E2. rewrite E2. reflexivity.
  - apply Q in E2. subst a2. reflexivity.
Qed.

(* what sync() leaves in the two files *)
Lemma aht_sync_content a a' :
  wf (a_d a) -> wf (a_c a) -> pending (a_c a) = [] -> buf (a_c a) = [] -> 12 * a_latest a <= bufoff (a_c a) ->
  aht_sync a = Ok a' ->
  (a_cnt a = 0 /\ a' = a) \/
  (a_cnt a <> 0 /\ durable (a_d a') = lview (a_d a) /\ pending (a_d a') = [] /\ buf (a_d a') = [] /\
   bufoff (a_d a') = f_offset (a_d a) /\ lview (a_d a') = lview (a_d a) /\
   12 * (a_latest a + a_cnt a) <= len (durable (a_c a')) /\
   a_latest a' = a_latest a + a_cnt a /\ a_size a' = a_size a /\ a_cnt a' = 0).
Proof.
  intros Wd Wc Hp Hb H12. unfold aht_sync.
  destruct (N.eqb_spec (a_cnt a) 0) as [E0|N0].
  - intros E. left. split; [exact E0|congruence].
  - destruct (f_setoffset (a_c a) (12 * a_latest a)) as [c1|] eqn:Es; [|discriminate].
    intros E. right. split; [exact N0|].
    assert (Q: forall x y, @Ok aht x = Ok y -> x = y) by (intros ? ? Q; congruence).
    apply Q in E. subst a'. cbn [a_d a_c a_size a_latest a_cnt].
    destruct (f_setoffset_spec _ _ _ Wc Es) as (S1 & S2 & S3 & S4 & S5 & _ & _ & _ & _ & S9).
    specialize (S9 Hb).
    set (ents := aht_entries (a_latest a) (N.to_nat (a_cnt a))) in *.
    assert (Le: len ents = 12 * a_cnt a) by (unfold ents; rewrite len_aht_entries; lia).
    set (c2 := f_append c1 ents).
    assert (W2: wf c2) by (apply wf_append; auto).
    destruct (f_sync_spec c2 W2) as (D1 & D2 & D3 & D4).
    destruct (f_sync_spec (a_d a) Wd) as (E1 & E2 & E3 & E4).
    assert (Lv1: lview c1 = durable (a_c a)).
    { unfold lview. rewrite S9, wr_nil. unfold os_view. rewrite S5, S4, Hp. reflexivity. }
    assert (O1: f_offset c1 = 12 * a_latest a) by exact S3.
    assert (Ld: len (durable (f_sync c2)) = N.max (len (durable (a_c a))) (12 * (a_latest a + a_cnt a))).
    { rewrite D1. unfold c2. rewrite lview_append by auto. rewrite Lv1, O1.
      rewrite len_wr.
      - rewrite Le. lia.
      - unfold wf in S2. unfold f_offset in O1. rewrite S9, len_nil in O1.
        rewrite os_view_nopending in S2 by congruence. rewrite S4 in S2. lia. }
    split; [exact E1|]. split; [exact E2|]. split; [exact E3|]. split; [exact E4|].
    split; [apply lview_sync; auto|]. split; [rewrite Ld; lia|]. repeat split; reflexivity.
Qed.
