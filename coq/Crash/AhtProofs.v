(* C03 — the hash-tree part of the protocol never fails and keeps its size bookkeeping
   (the CONTENT of the tree is not claimed here: see Crash/Refuted.v). *)
From V Require Import Crash.Storage Crash.StorageProofs Crash.Protocol.
From Coq Require Import ZifyN ZifyNat ZifyBool Lia.

Definition AInv (thld : N) (a : aht) : Prop :=
  wf (a_d a) /\ wf (a_c a) /\ a_latest a + a_cnt a = a_size a /\ a_cnt a < thld /\
  32 * a_size a <= f_offset (a_d a) /\ pending (a_c a) = [] /\ buf (a_c a) = [] /\
  12 * a_latest a <= bufoff (a_c a) /\ bufoff (a_c a) = len (durable (a_c a)) /\
  len (durable (a_c a)) mod 12 = 0.

Lemma len_aht_entries from cnt : len (aht_entries from cnt) = 12 * N.of_nat cnt.
Proof.
  revert from; induction cnt as [|c IH]; intros from; [reflexivity|].
  cbn [aht_entries]. rewrite len_app, IH. unfold aht_entry. rewrite len_app, !len_be_enc.
  change (N.of_nat 8) with 8. change (N.of_nat 4) with 4. lia.
Qed.

Lemma os_view_nopending f : pending f = [] -> os_view f = durable f.
Proof. unfold os_view. intros ->. reflexivity. Qed.

Lemma f_setoffset_some keep f o : o <= f_offset f -> exists g, f_setoffset_gen keep f o = Some g.
Proof.
  intros Ho. unfold f_setoffset_gen. destruct (N.ltb_spec (f_offset f) o); [lia|].
  destruct (bufoff f <=? o); eauto.
Qed.

(* the tree's commit log after a rewind to o (nothing pending, nothing buffered) and an append + fsync *)
Lemma clog_rewrite c o ents c1 :
  wf c -> pending c = [] -> buf c = [] -> bufoff c = len (durable c) -> o <= bufoff c ->
  f_setoffset c o = Some c1 ->
  let c2 := f_sync (f_append c1 ents) in
  wf c2 /\ pending c2 = [] /\ buf c2 = [] /\ bufoff c2 = o + len ents /\
  durable c2 = take o (durable c) ++ ents.
Proof.
  intros Wc Hp Hb Hl Ho Es. cbv zeta.
  destruct (f_setoffset_spec _ _ _ _ Wc Es) as (S1 & S2 & S3 & S4 & S5 & S6 & S7 & S8 & S9 & S10 & _).
  specialize (S10 Hb).
  assert (W2: wf (f_append c1 ents)) by (apply wf_append; auto).
  destruct (f_sync_spec _ W2) as (D1 & D2 & D3 & D4).
  assert (Lv: o <= len (lview c)).
  { rewrite len_lview by auto. rewrite os_view_nopending by auto. lia. }
  specialize (S7 Lv).
  assert (Lvc: lview c = durable c).
  { unfold lview. rewrite Hb, wr_nil. apply os_view_nopending; auto. }
  assert (Lv1: lview c1 = take o (durable c)).
  { assert (Ll1: len (lview c1) = o).
    { rewrite len_lview by auto. unfold f_offset in *. rewrite S10, len_nil in *.
      destruct (N.le_gt_cases (bufoff c) o) as [Hle|Hgt].
      - rewrite (S8 Hle) in *. unfold os_view. rewrite (S5 Hle), Hp. cbn [apply_writes fold_left]. rewrite S4. lia.
      - rewrite (S9 Hgt) in *. unfold os_view. rewrite (S6 Hgt), Hp, S4. cbn [app apply_writes fold_left apply1].
        rewrite len_take. lia. }
    rewrite <- (take_ge o (lview c1)) by lia. rewrite S7, Lvc. reflexivity. }
  split; [apply wf_sync; auto|]. split; [exact D2|]. split; [exact D3|]. split.
  - rewrite D4. unfold f_offset. cbn [f_append bufoff buf]. rewrite len_app. unfold f_offset in S3. lia.
  - rewrite D1. rewrite lview_append by auto. rewrite Lv1, S3. unfold wr.
    rewrite take_ge by (rewrite len_take; lia).
    rewrite drop_ge by (rewrite len_take; lia). rewrite app_nil_r. reflexivity.
Qed.

(* sync with K = latest + cnt pending entries accounted for *)
Lemma aht_sync_ok a K :
  wf (a_d a) -> wf (a_c a) -> a_latest a + a_cnt a = K -> 32 * K <= f_offset (a_d a) ->
  pending (a_c a) = [] -> buf (a_c a) = [] -> 12 * a_latest a <= bufoff (a_c a) ->
  bufoff (a_c a) = len (durable (a_c a)) -> len (durable (a_c a)) mod 12 = 0 ->
  exists a', aht_sync a = Ok a' /\ a_size a' = a_size a /\ a_latest a' = K /\ a_cnt a' = 0 /\
    wf (a_d a') /\ wf (a_c a') /\ f_offset (a_d a') = f_offset (a_d a) /\
    pending (a_c a') = [] /\ buf (a_c a') = [] /\ 12 * K <= bufoff (a_c a') /\
    bufoff (a_c a') = len (durable (a_c a')) /\ len (durable (a_c a')) mod 12 = 0.
Proof.
  intros Wd Wc HK H32 Hp Hb H12 Hbl Hm. unfold aht_sync.
  destruct (N.eqb_spec (a_cnt a) 0) as [E0|N0].
  - exists a. repeat split; auto; try lia.
  - destruct (f_setoffset_some false (a_c a) (12 * a_latest a)) as (c1 & Es).
    { unfold f_offset. lia. }
    unfold f_setoffset. rewrite Es.
    set (ents := aht_entries (a_latest a) (N.to_nat (a_cnt a))).
    assert (Le: len ents = 12 * a_cnt a) by (unfold ents; rewrite len_aht_entries; lia).
    destruct (clog_rewrite (a_c a) (12 * a_latest a) ents c1 Wc Hp Hb Hbl H12 Es) as (C1 & C2 & C3 & C4 & C5).
    destruct (f_sync_spec (a_d a) Wd) as (E1 & E2 & E3 & E4).
    eexists. split; [reflexivity|]. cbn [a_size a_latest a_cnt a_d a_c].
    assert (Ld: len (take (12 * a_latest a) (durable (a_c a)) ++ ents) = 12 * K).
    { rewrite len_app, len_take, Le. lia. }
    repeat split; auto; try lia.
    + apply wf_sync; auto.
    + unfold f_offset at 1. rewrite E3, E4, len_nil. lia.
    + rewrite C4, C5, Ld, Le. lia.
    + rewrite C5, Ld. rewrite N.mul_comm. apply N.mod_mul. lia.
Qed.

Lemma aht_append_ok thld a leaf :
  AInv thld a -> len leaf = 32 ->
  exists a', aht_append thld a leaf = Ok a' /\ AInv thld a' /\ a_size a' = a_size a + 1.
Proof.
  intros (Wd & Wc & Hs & Hc & H32 & Hp & Hb & H12 & Hbl & Hm) Hl. unfold aht_append.
  destruct (f_setoffset_some false (a_d a) (32 * a_size a) H32) as (d1 & Es).
  unfold f_setoffset. rewrite Es.
  destruct (f_setoffset_spec _ _ _ _ Wd Es) as (S1 & S2 & S3 & S4 & _).
  set (d2 := f_append d1 leaf).
  assert (W2: wf d2) by (apply wf_append; auto).
  assert (O2: f_offset d2 = 32 * a_size a + 32).
  { unfold d2, f_offset. cbn [f_append bufoff buf]. rewrite len_app, Hl. unfold f_offset in S3. lia. }
  cbn [a_cnt a_d a_c a_size a_latest].
  destruct (N.eqb_spec (a_cnt a + 1) thld) as [Et|Nt].
  - destruct (aht_sync_ok (mkAht d2 (a_c a) (a_size a) (a_latest a) (a_cnt a + 1)) (a_size a + 1))
      as (a' & Ea & R1 & R2 & R3 & R4 & R5 & R6 & R7 & R8 & R9 & R10 & R11);
      cbn [a_cnt a_d a_c a_size a_latest]; auto; try lia.
    rewrite Ea. cbn [bind]. eexists. split; [reflexivity|].
    cbn [a_cnt a_d a_c a_size a_latest] in R1, R6.
    split.
    * unfold AInv. cbn [a_cnt a_d a_c a_size a_latest]. rewrite R1, R2, R3.
      repeat split; auto; try lia.
    * cbn [a_size]. rewrite R1. reflexivity.
  - cbn [bind]. eexists. split; [reflexivity|]. split.
    + unfold AInv. cbn [a_cnt a_d a_c a_size a_latest]. repeat split; auto; try lia.
    + reflexivity.
Qed.

Lemma aht_sync_AInv thld a :
  AInv thld a ->
  exists a', aht_sync a = Ok a' /\ AInv thld a' /\ a_size a' = a_size a /\
             a_latest a' = a_size a /\ a_cnt a' = 0 /\ f_offset (a_d a') = f_offset (a_d a).
Proof.
  intros (Wd & Wc & Hs & Hc & H32 & Hp & Hb & H12 & Hbl & Hm).
  destruct (aht_sync_ok a (a_size a)) as (a' & Ea & R1 & R2 & R3 & R4 & R5 & R6 & R7 & R8 & R9 & R10 & R11); auto.
  exists a'. split; [exact Ea|]. split; [|repeat split; auto].
  unfold AInv. rewrite R1, R2, R3, R6. repeat split; auto; lia.
Qed.

Lemma f_append_nil f : f_append f [] = f.
Proof. unfold f_append. rewrite app_nil_r. destruct f; reflexivity. Qed.

(* ResetSize to a smaller size: with dur = true (proposed repair) the tree's commit log is rewound
   and fsynced, otherwise only the sizes in memory change *)
Lemma aht_reset_ok dur thld a n :
  AInv thld a -> n < a_size a -> 0 < thld ->
  exists a1 a', aht_sync a = Ok a1 /\ aht_reset dur a n = Ok a' /\ AInv thld a' /\
    a_size a' = n /\ a_latest a' = n /\ a_cnt a' = 0 /\ a_d a' = a_d a1 /\
    (dur = false -> a_c a' = a_c a1) /\
    (dur = true -> durable (a_c a') = take (12 * n) (durable (a_c a1)) /\ len (durable (a_c a')) = 12 * n).
Proof.
  intros IA Hn Ht. unfold aht_reset.
  destruct (N.ltb_spec (a_size a) n); [lia|].
  destruct (N.eqb_spec (a_size a) n) as [E|N]; [lia|].
  destruct (aht_sync_AInv _ _ IA) as (a1 & Ea & IA1 & Sz & La & Cn & _).
  rewrite Ea. cbn [bind]. exists a1.
  destruct IA1 as (Wd & Wc & Hs & Hc & H32 & Hp & Hb & H12 & Hbl & Hm).
  destruct dur.
  - destruct (f_setoffset_some false (a_c a1) (12 * n)) as (c1 & Es); [unfold f_offset; lia|].
    unfold f_setoffset. rewrite Es.
    destruct (clog_rewrite (a_c a1) (12 * n) [] c1 Wc Hp Hb Hbl ltac:(lia) Es) as (C1 & C2 & C3 & C4 & C5).
    rewrite f_append_nil in C1, C2, C3, C4, C5. rewrite app_nil_r in C5. rewrite len_nil in C4.
    assert (Ld: len (durable (f_sync c1)) = 12 * n) by (rewrite C5, len_take; lia).
    eexists. split; [reflexivity|]. split; [reflexivity|]. cbn [a_size a_latest a_cnt a_d a_c].
    split; [|repeat split; auto; discriminate].
    unfold AInv. cbn [a_size a_latest a_cnt a_d a_c]. repeat split; auto; try lia.
  - eexists. split; [reflexivity|]. split; [reflexivity|]. cbn [a_size a_latest a_cnt a_d a_c].
    split; [|repeat split; auto; discriminate].
    unfold AInv. cbn [a_size a_latest a_cnt a_d a_c]. repeat split; auto; lia.
Qed.

Lemma aht_reset_same dur a n : a_size a = n -> aht_reset dur a n = Ok a.
Proof.
  intros E. unfold aht_reset. destruct (N.ltb_spec (a_size a) n); [lia|].
  destruct (N.eqb_spec (a_size a) n); [reflexivity|contradiction].
Qed.

Lemma aht_reset_ok_le dur thld a n :
  AInv thld a -> n <= a_size a -> 0 < thld ->
  exists a', aht_reset dur a n = Ok a' /\ AInv thld a' /\ a_size a' = n.
Proof.
  intros IA Hn Ht. destruct (N.eq_dec (a_size a) n) as [E|NE].
  - exists a. split; [apply aht_reset_same; auto|auto].
  - destruct (aht_reset_ok dur thld a n IA ltac:(lia) Ht) as (a1 & a' & _ & E & IA' & Sz & _).
    exists a'. auto.
Qed.

(* sizes, without any invariant *)
Lemma aht_sync_size a a' : aht_sync a = Ok a' -> a_size a' = a_size a.
Proof.
  unfold aht_sync. destruct (a_cnt a =? 0); [congruence|].
  destruct (f_setoffset (a_c a) (12 * a_latest a)); [|discriminate].
  intros E. assert (Q: forall x y, @Ok aht x = Ok y -> x = y) by (intros ? ? Q; congruence).
  apply Q in E. subst a'. reflexivity.
Qed.

Lemma aht_reset_size dur a n a' : aht_reset dur a n = Ok a' -> a_size a' = n.
Proof.
  unfold aht_reset. destruct (N.ltb_spec (a_size a) n); [discriminate|].
  destruct (N.eqb_spec (a_size a) n); [congruence|].
  intros E. apply bind_ok in E as (a1 & _ & E).
  assert (Q: forall x y, @Ok aht x = Ok y -> x = y) by (intros ? ? Q; congruence).
  destruct dur.
  - destruct (f_setoffset (a_c a1) (12 * n)); [|discriminate]. apply Q in E. subst a'. reflexivity.
  - apply Q in E. subst a'. reflexivity.
Qed.

Lemma aht_append_size thld a leaf a' : aht_append thld a leaf = Ok a' -> a_size a' = a_size a + 1.
Proof.
  unfold aht_append. destruct (f_setoffset (a_d a) (32 * a_size a)); [|discriminate].
  intros E. apply bind_ok in E as (a2 & E2 & E).
  assert (Q: forall x y, @Ok aht x = Ok y -> x = y) by (intros ? ? Q; congruence).
  apply Q in E. subst a'. cbn [a_size].
  destruct (_ =? thld).
  - apply aht_sync_size in E2. rewrite E2. reflexivity.
  - apply Q in E2. subst a2. reflexivity.
Qed.

(* what sync() leaves in the two files *)
Lemma aht_sync_content a a' :
  wf (a_d a) -> wf (a_c a) -> pending (a_c a) = [] -> buf (a_c a) = [] -> 12 * a_latest a <= bufoff (a_c a) ->
  bufoff (a_c a) = len (durable (a_c a)) ->
  aht_sync a = Ok a' ->
  (a_cnt a = 0 /\ a' = a) \/
  (a_cnt a <> 0 /\ durable (a_d a') = lview (a_d a) /\ pending (a_d a') = [] /\ buf (a_d a') = [] /\
   bufoff (a_d a') = f_offset (a_d a) /\ lview (a_d a') = lview (a_d a) /\
   len (durable (a_c a')) = 12 * (a_latest a + a_cnt a) /\
   a_latest a' = a_latest a + a_cnt a /\ a_size a' = a_size a /\ a_cnt a' = 0).
Proof.
  intros Wd Wc Hp Hb H12 Hbl. unfold aht_sync.
  destruct (N.eqb_spec (a_cnt a) 0) as [E0|N0].
  - intros E. left. split; [exact E0|congruence].
  - destruct (f_setoffset (a_c a) (12 * a_latest a)) as [c1|] eqn:Es; [|discriminate].
    intros E. right. split; [exact N0|].
    assert (Q: forall x y, @Ok aht x = Ok y -> x = y) by (intros ? ? Q; congruence).
    apply Q in E. subst a'. cbn [a_d a_c a_size a_latest a_cnt].
    set (ents := aht_entries (a_latest a) (N.to_nat (a_cnt a))) in *.
    assert (Le: len ents = 12 * a_cnt a) by (unfold ents; rewrite len_aht_entries; lia).
    destruct (clog_rewrite (a_c a) (12 * a_latest a) ents c1 Wc Hp Hb Hbl H12 Es) as (C1 & C2 & C3 & C4 & C5).
    destruct (f_sync_spec (a_d a) Wd) as (E1 & E2 & E3 & E4).
    split; [exact E1|]. split; [exact E2|]. split; [exact E3|]. split; [exact E4|].
    split; [apply lview_sync; auto|]. split; [|repeat split; reflexivity].
    rewrite C5, len_app, len_take, Le. lia.
Qed.
