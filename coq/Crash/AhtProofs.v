(* C03 — the hash-tree part of the protocol never fails and keeps its size bookkeeping
   (the CONTENT of the tree is not claimed here: see Crash/Refuted.v). *)
From V Require Import Crash.Storage Crash.StorageProofs Crash.Protocol.
From Coq Require Import ZifyN ZifyNat ZifyBool Lia.

(* the tree's commit log between operations: nothing buffered, nothing pending but truncations (the
   rewind of ResetSize since fix 6a85281, the cut of a partial last entry at open), whole entries *)
Definition is_pt (w : pw) : Prop := match w with PT _ => True | PW _ _ => False end.
Definition CL (c : file) : Prop :=
  buf c = [] /\ Forall is_pt (pending c) /\ offs_ge (bufoff c) (pending c) /\
  bufoff c <= len (durable c) /\ os_view c = take (bufoff c) (durable c) /\ bufoff c mod 12 = 0.

Definition AInv (thld : N) (a : aht) : Prop :=
  wf (a_d a) /\ CL (a_c a) /\ a_latest a + a_cnt a = a_size a /\ a_cnt a < thld /\
  32 * a_size a <= f_offset (a_d a) /\ 12 * a_latest a <= bufoff (a_c a).

Lemma len_aht_entries from cnt : len (aht_entries from cnt) = 12 * N.of_nat cnt.
Proof.
  revert from; induction cnt as [|c IH]; intros from; [reflexivity|].
  cbn [aht_entries]. rewrite len_app, IH. unfold aht_entry. rewrite len_app, !len_be_enc.
  change (N.of_nat 8) with 8. change (N.of_nat 4) with 4. lia.
Qed.

Lemma os_view_nopending f : pending f = [] -> os_view f = durable f.
Proof. unfold os_view. intros ->. reflexivity. Qed.

Lemma f_setoffset_some keep f o : o <= f_offset f -> exists g, f_setoffset_gen keep f o = Some g.
Proof.
  intros Ho. unfold f_setoffset_gen. destruct (N.ltb_spec (f_offset f) o); [lia|].
  destruct (bufoff f <=? o); eauto.
Qed.

Lemma CL_wf c : CL c -> wf c.
Proof. intros (_ & _ & _ & Hl & Ho & _). unfold wf. rewrite Ho, len_take. lia. Qed.

Lemma CL_open img : len img mod 12 = 0 -> CL (f_open img).
Proof.
  intros Hm. unfold CL, f_open, os_view. cbn [buf pending bufoff durable apply_writes fold_left].
  repeat split; auto; try constructor; try lia. symmetry. apply take_all.
Qed.

(* truncations at or above b leave a prefix of at least b bytes *)
Lemma apply_pts d ws b : Forall is_pt ws -> offs_ge b ws -> b <= len d ->
  exists m, b <= m /\ apply_writes d ws = take m d.
Proof.
  revert d; induction ws as [|w ws IH]; intros d Hp Hg Hb.
  - exists (len d). split; [exact Hb|]. symmetry. apply take_all.
  - inversion Hp as [|? ? Hw Hp']; subst. inversion Hg as [|? ? Hw' Hg']; subst.
    destruct w as [o x|m1]; [contradiction|]. cbn [pw_off] in Hw'.
    cbn [apply_writes fold_left apply1]. fold (apply_writes (take m1 d) ws).
    destruct (IH (take m1 d) Hp' Hg') as (m' & Hm' & E); [rewrite len_take; lia|].
    rewrite E. destruct (N.le_gt_cases m' m1).
    + exists m'. split; [exact Hm'|]. apply take_take. exact H.
    + exists m1. split; [exact Hw'|]. apply take_ge. rewrite len_take. lia.
Qed.

Lemma is_pt_firstn k ws : Forall is_pt ws -> Forall is_pt (firstn k ws).
Proof.
  revert k; induction ws as [|w ws IH]; intros [|k] Hp; cbn [firstn]; auto.
  inversion Hp; subst. constructor; auto.
Qed.

Lemma is_pt_sub a b : sub_trunc a b -> Forall is_pt a -> Forall is_pt b.
Proof. induction 1; intros Hp; auto; inversion Hp; subst; [contradiction|constructor; [exact Logic.I|auto]]. Qed.

Lemma prefix_torn_pts ws k t : Forall is_pt ws -> prefix_torn ws k t = firstn k ws.
Proof.
  intros Hp. unfold prefix_torn.
  destruct (nth_error ws k) as [[o d|n]|] eqn:E; try apply app_nil_r.
  exfalso. rewrite Forall_forall in Hp. exact (Hp (PW o d) (nth_error_In _ _ E)).
Qed.

(* a crash image of the tree's commit log: the durable content cut at or after the rewound offset *)
Lemma CL_image c img : CL c -> crash_image c img -> exists m, bufoff c <= m /\ img = take m (durable c).
Proof.
  intros (Hb & Hp & Hg & Hl & Ho & Hm) (k & t & ws & Hs & ->).
  rewrite prefix_torn_pts in Hs by exact Hp.
  apply apply_pts; auto.
  - eapply is_pt_sub; [exact Hs|]. apply is_pt_firstn. exact Hp.
  - eapply offs_ge_sub; [exact Hs|]. apply offs_ge_firstn. exact Hg.
Qed.

(* rewind of the tree's commit log to o *)
Lemma CL_setoffset c o c1 : CL c -> o <= bufoff c -> o mod 12 = 0 -> f_setoffset c o = Some c1 ->
  CL c1 /\ bufoff c1 = o /\ durable c1 = durable c /\ (o = bufoff c -> pending c1 = pending c).
Proof.
  intros HC Ho Hm Es. pose proof (CL_wf _ HC) as Wc.
  destruct HC as (Hb & Hp & Hg & Hl & Hv & Hm0).
  destruct (f_setoffset_spec _ _ _ _ Wc Es) as (S1 & S2 & S3 & S4 & S5 & S6 & S7 & S8 & S9 & S10 & S11).
  specialize (S10 Hb).
  destruct (N.eq_dec o (bufoff c)) as [E|NE].
  - specialize (S5 ltac:(lia)). specialize (S8 ltac:(lia)).
    split; [|split; [lia|split; [exact S4|intros _; exact S5]]].
    unfold CL. unfold os_view in *. rewrite S10, S5, S8, S4. repeat split; auto.
  - specialize (S6 ltac:(lia)). specialize (S9 ltac:(lia)). cbv iota in S6.
    split; [|split; [exact S9|split; [exact S4|intros; lia]]].
    unfold CL. rewrite S10, S6, S9, S4. repeat split; auto; try lia.
    + apply Forall_app. split; [exact Hp|]. constructor; [exact Logic.I|constructor].
    + apply offs_ge_app; [eapply offs_ge_weaken; [|exact Hg]; lia|]. constructor; [cbn; lia|constructor].
    + unfold os_view. rewrite S6, S4, apply_writes_app. fold (os_view c). rewrite Hv.
      cbn [apply_writes fold_left apply1]. apply take_take. lia.
Qed.

(* ... followed by an append and an fsync *)
Lemma clog_rewrite c o ents c1 :
  CL c -> o <= bufoff c -> o mod 12 = 0 -> len ents mod 12 = 0 ->
  f_setoffset c o = Some c1 ->
  let c2 := f_sync (f_append c1 ents) in
  CL c2 /\ pending c2 = [] /\ bufoff c2 = o + len ents /\
  durable c2 = take o (durable c) ++ ents /\ len (durable c2) = o + len ents.
Proof.
  intros HC Ho Hm He Es. cbv zeta.
  destruct (CL_setoffset _ _ _ HC Ho Hm Es) as (HC1 & B1 & D1' & _).
  pose proof (CL_wf _ HC1) as W1. destruct HC1 as (Hb1 & Hp1 & Hg1 & Hl1 & Hv1 & Hm1).
  assert (W2: wf (f_append c1 ents)) by (apply wf_append; auto).
  destruct (f_sync_spec _ W2) as (D1 & D2 & D3 & D4).
  assert (Lv1: lview c1 = take o (durable c)).
  { unfold lview. rewrite Hb1, wr_nil, Hv1, B1, D1'. reflexivity. }
  assert (O1: f_offset c1 = o) by (unfold f_offset; rewrite Hb1, len_nil; lia).
  assert (Dd: durable (f_sync (f_append c1 ents)) = take o (durable c) ++ ents).
  { rewrite D1. rewrite lview_append by auto. rewrite Lv1, O1. unfold wr.
    destruct HC as (_ & _ & _ & Hl & _).
    rewrite take_ge by (rewrite len_take; lia).
    rewrite drop_ge by (rewrite len_take; lia). rewrite app_nil_r. reflexivity. }
  assert (Ld: len (take o (durable c) ++ ents) = o + len ents).
  { destruct HC as (_ & _ & _ & Hl & _). rewrite len_app, len_take. lia. }
  assert (Bo: bufoff (f_sync (f_append c1 ents)) = o + len ents).
  { rewrite D4. unfold f_offset. cbn [f_append bufoff buf]. rewrite len_app, Hb1, len_nil. lia. }
  split; [|split; [exact D2|split; [exact Bo|split; [exact Dd|rewrite Dd; exact Ld]]]].
  unfold CL. rewrite D2, D3, Bo, Dd, Ld. unfold os_view. rewrite D2, Dd. cbn [apply_writes fold_left].
  repeat split; auto; try constructor; try lia.
  symmetry. apply take_ge. lia.
Qed.

(* sync with K = latest + cnt pending entries accounted for *)
Lemma aht_sync_ok a K :
  wf (a_d a) -> CL (a_c a) -> a_latest a + a_cnt a = K -> 32 * K <= f_offset (a_d a) ->
  12 * a_latest a <= bufoff (a_c a) ->
  exists a', aht_sync a = Ok a' /\ a_size a' = a_size a /\ a_latest a' = K /\ a_cnt a' = 0 /\
    wf (a_d a') /\ CL (a_c a') /\ f_offset (a_d a') = f_offset (a_d a) /\ 12 * K <= bufoff (a_c a').
Proof.
  intros Wd HC HK H32 H12. unfold aht_sync.
  destruct (N.eqb_spec (a_cnt a) 0) as [E0|N0].
  - exists a. split; [reflexivity|]. split; [reflexivity|]. split; [lia|]. split; [lia|].
    split; [exact Wd|]. split; [exact HC|]. split; [reflexivity|lia].
  - destruct (f_setoffset_some false (a_c a) (12 * a_latest a)) as (c1 & Es).
    { unfold f_offset. lia. }
    unfold f_setoffset. rewrite Es.
    set (ents := aht_entries (a_latest a) (N.to_nat (a_cnt a))).
    assert (Le: len ents = 12 * a_cnt a) by (unfold ents; rewrite len_aht_entries; lia).
    destruct (clog_rewrite (a_c a) (12 * a_latest a) ents c1 HC H12 ltac:(lia) ltac:(lia) Es) as (C1 & C2 & C3 & C4 & C5).
    destruct (f_sync_spec (a_d a) Wd) as (E1 & E2 & E3 & E4).
    eexists. split; [reflexivity|]. cbn [a_size a_latest a_cnt a_d a_c].
    repeat split; auto; try lia; try (apply C1).
    + apply wf_sync; auto.
    + unfold f_offset at 1. rewrite E3, E4, len_nil. lia.
Qed.

Lemma aht_append_ok thld a leaf :
  AInv thld a -> len leaf = 32 ->
  exists a', aht_append thld a leaf = Ok a' /\ AInv thld a' /\ a_size a' = a_size a + 1.
Proof.
  intros (Wd & HC & Hs & Hc & H32 & H12) Hl. unfold aht_append.
  destruct (f_setoffset_some false (a_d a) (32 * a_size a) H32) as (d1 & Es).
  unfold f_setoffset. rewrite Es.
  destruct (f_setoffset_spec _ _ _ _ Wd Es) as (S1 & S2 & S3 & S4 & _).
  set (d2 := f_append d1 leaf).
  assert (W2: wf d2) by (apply wf_append; auto).
  assert (O2: f_offset d2 = 32 * a_size a + 32).
  { unfold d2, f_offset. cbn [f_append bufoff buf]. rewrite len_app, Hl. unfold f_offset in S3. lia. }
  cbn [a_cnt a_d a_c a_size a_latest].
  destruct (N.eqb_spec (a_cnt a + 1) thld) as [Et|Nt].
  - destruct (aht_sync_ok (mkAht d2 (a_c a) (a_size a) (a_latest a) (a_cnt a + 1)) (a_size a + 1))
      as (a' & Ea & R1 & R2 & R3 & R4 & R5 & R6 & R7);
      cbn [a_cnt a_d a_c a_size a_latest]; auto; try lia.
    rewrite Ea. cbn [bind]. eexists. split; [reflexivity|].
    cbn [a_cnt a_d a_c a_size a_latest] in R1, R6.
    split.
    * unfold AInv. cbn [a_cnt a_d a_c a_size a_latest]. rewrite R1, R2, R3.
      repeat split; auto; try lia; apply R5.
    * cbn [a_size]. rewrite R1. reflexivity.
  - cbn [bind]. eexists. split; [reflexivity|]. split.
    + unfold AInv. cbn [a_cnt a_d a_c a_size a_latest]. repeat split; auto; try lia; apply HC.
    + reflexivity.
Qed.

Lemma aht_sync_AInv thld a :
  AInv thld a ->
  exists a', aht_sync a = Ok a' /\ AInv thld a' /\ a_size a' = a_size a /\
             a_latest a' = a_size a /\ a_cnt a' = 0 /\ f_offset (a_d a') = f_offset (a_d a).
Proof.
  intros (Wd & HC & Hs & Hc & H32 & H12).
  destruct (aht_sync_ok a (a_size a)) as (a' & Ea & R1 & R2 & R3 & R4 & R5 & R6 & R7); auto.
  exists a'. split; [exact Ea|]. split; [|repeat split; auto].
  unfold AInv. rewrite R1, R2, R3, R6. repeat split; auto; try lia; apply R5.
Qed.

Lemma f_append_nil f : f_append f [] = f.
Proof. unfold f_append. rewrite app_nil_r. destruct f; reflexivity. Qed.

(* ResetSize to a smaller size *)
Lemma aht_reset_ok m thld a n :
  AInv thld a -> n < a_size a -> 0 < thld ->
  exists a1 a', aht_sync a = Ok a1 /\ aht_reset m a n = Ok a' /\ AInv thld a' /\
    a_size a' = n /\ a_latest a' = n /\ a_cnt a' = 0 /\ a_d a' = a_d a1 /\
    durable (a_c a') = take (len (durable (a_c a'))) (durable (a_c a1)) /\ 12 * n <= len (durable (a_c a')) /\
    (m = RSync -> pending (a_c a') = [] /\ len (durable (a_c a')) = 12 * n).
Proof.
  intros IA Hn Ht. unfold aht_reset.
  destruct (N.ltb_spec (a_size a) n); [lia|].
  destruct (N.eqb_spec (a_size a) n) as [E|N]; [lia|].
  destruct (aht_sync_AInv _ _ IA) as (a1 & Ea & IA1 & Sz & La & Cn & _).
  rewrite Ea. cbn [bind]. exists a1.
  destruct IA1 as (Wd & HC & Hs & Hc & H32 & H12).
  pose proof HC as (_ & _ & _ & Hl & _).
  destruct m.
  - (* in memory only *)
    eexists. split; [reflexivity|]. split; [reflexivity|]. cbn [a_size a_latest a_cnt a_d a_c].
    split; [|repeat split; auto; try discriminate; try lia; symmetry; apply take_all].
    unfold AInv. cbn [a_size a_latest a_cnt a_d a_c]. repeat split; auto; try lia; apply HC.
  - (* cut, not fsynced *)
    destruct (f_setoffset_some false (a_c a1) (12 * n)) as (c1 & Es).
    { destruct HC as (Hb & _). unfold f_offset. rewrite Hb, len_nil. lia. }
    unfold f_setoffset. rewrite Es.
    destruct (CL_setoffset (a_c a1) (12 * n) c1 HC ltac:(lia) ltac:(lia) Es) as (HC1 & B1 & D1 & _).
    eexists. split; [reflexivity|]. split; [reflexivity|]. cbn [a_size a_latest a_cnt a_d a_c].
    split; [|rewrite D1; repeat split; auto; try discriminate; try lia; symmetry; apply take_all].
    unfold AInv. cbn [a_size a_latest a_cnt a_d a_c]. repeat split; auto; try lia; apply HC1.
  - (* cut and fsynced *)
    destruct (f_setoffset_some false (a_c a1) (12 * n)) as (c1 & Es).
    { destruct HC as (Hb & _). unfold f_offset. rewrite Hb, len_nil. lia. }
    unfold f_setoffset. rewrite Es.
    destruct (clog_rewrite (a_c a1) (12 * n) [] c1 HC ltac:(lia) ltac:(lia) ltac:(rewrite len_nil; reflexivity) Es)
      as (C1 & C2 & C3 & C4 & C5).
    rewrite f_append_nil in C1, C2, C3, C4, C5. rewrite app_nil_r in C4. rewrite len_nil in C3, C5.
    eexists. split; [reflexivity|]. split; [reflexivity|]. cbn [a_size a_latest a_cnt a_d a_c].
    split; [|rewrite C5; repeat split; auto; try lia].
    + unfold AInv. cbn [a_size a_latest a_cnt a_d a_c]. repeat split; auto; try lia; apply C1.
    + rewrite C4. f_equal. lia.
Qed.

Lemma aht_reset_same dur a n : a_size a = n -> aht_reset dur a n = Ok a.
Proof.
  intros E. unfold aht_reset. destruct (N.ltb_spec (a_size a) n); [lia|].
  destruct (N.eqb_spec (a_size a) n); [reflexivity|contradiction].
Qed.

Lemma aht_reset_ok_le dur thld a n :
  AInv thld a -> n <= a_size a -> 0 < thld ->
  exists a', aht_reset dur a n = Ok a' /\ AInv thld a' /\ a_size a' = n.
Proof.
  intros IA Hn Ht. destruct (N.eq_dec (a_size a) n) as [E|NE].
  - exists a. split; [apply aht_reset_same; auto|auto].
  - destruct (aht_reset_ok dur thld a n IA ltac:(lia) Ht) as (a1 & a' & _ & E & IA' & Sz & _).
    exists a'. auto.
Qed.

(* sizes, without any invariant *)
Lemma aht_sync_size a a' : aht_sync a = Ok a' -> a_size a' = a_size a.
Proof.
  unfold aht_sync. destruct (a_cnt a =? 0); [congruence|].
  destruct (f_setoffset (a_c a) (12 * a_latest a)); [|discriminate].
  intros E. assert (Q: forall x y, @Ok aht x = Ok y -> x = y) by (intros ? ? Q; congruence).
  apply Q in E. subst a'. reflexivity.
Qed.

Lemma aht_reset_size dur a n a' : aht_reset dur a n = Ok a' -> a_size a' = n.
Proof.
  unfold aht_reset. destruct (N.ltb_spec (a_size a) n); [discriminate|].
  destruct (N.eqb_spec (a_size a) n); [congruence|].
  intros E. apply bind_ok in E as (a1 & _ & E).
  assert (Q: forall x y, @Ok aht x = Ok y -> x = y) by (intros ? ? Q; congruence).
  destruct dur.
  - apply Q in E. subst a'. reflexivity.
  - destruct (f_setoffset (a_c a1) (12 * n)); [|discriminate]. apply Q in E. subst a'. reflexivity.
  - destruct (f_setoffset (a_c a1) (12 * n)); [|discriminate]. apply Q in E. subst a'. reflexivity.
Qed.

Lemma aht_append_size thld a leaf a' : aht_append thld a leaf = Ok a' -> a_size a' = a_size a + 1.
Proof.
  unfold aht_append. destruct (f_setoffset (a_d a) (32 * a_size a)); [|discriminate].
  intros E. apply bind_ok in E as (a2 & E2 & E).
  assert (Q: forall x y, @Ok aht x = Ok y -> x = y) by (intros ? ? Q; congruence).
  apply Q in E. subst a'. cbn [a_size].
  destruct (_ =? thld).
  - apply aht_sync_size in E2. rewrite E2. reflexivity.
  - apply Q in E2. subst a2. reflexivity.
Qed.

(* what sync() leaves in the two files *)
Lemma aht_sync_content a a' :
  wf (a_d a) -> CL (a_c a) -> 12 * a_latest a <= bufoff (a_c a) ->
  aht_sync a = Ok a' ->
  (a_cnt a = 0 /\ a' = a) \/
  (a_cnt a <> 0 /\ durable (a_d a') = lview (a_d a) /\ pending (a_d a') = [] /\ buf (a_d a') = [] /\
   bufoff (a_d a') = f_offset (a_d a) /\ lview (a_d a') = lview (a_d a) /\
   len (durable (a_c a')) = 12 * (a_latest a + a_cnt a) /\ pending (a_c a') = [] /\
   a_latest a' = a_latest a + a_cnt a /\ a_size a' = a_size a /\ a_cnt a' = 0).
Proof.
  intros Wd HC H12. unfold aht_sync.
  destruct (N.eqb_spec (a_cnt a) 0) as [E0|N0].
  - intros E. left. split; [exact E0|congruence].
  - destruct (f_setoffset (a_c a) (12 * a_latest a)) as [c1|] eqn:Es; [|discriminate].
    intros E. right. split; [exact N0|].
    assert (Q: forall x y, @Ok aht x = Ok y -> x = y) by (intros ? ? Q; congruence).
    apply Q in E. subst a'. cbn [a_d a_c a_size a_latest a_cnt].
    set (ents := aht_entries (a_latest a) (N.to_nat (a_cnt a))) in *.
    assert (Le: len ents = 12 * a_cnt a) by (unfold ents; rewrite len_aht_entries; lia).
    destruct (clog_rewrite (a_c a) (12 * a_latest a) ents c1 HC H12 ltac:(lia) ltac:(lia) Es) as (C1 & C2 & C3 & C4 & C5).
    destruct (f_sync_spec (a_d a) Wd) as (E1 & E2 & E3 & E4).
    split; [exact E1|]. split; [exact E2|]. split; [exact E3|]. split; [exact E4|].
    split; [apply lview_sync; auto|]. split; [rewrite C5, Le; lia|]. split; [exact C2|].
    repeat split; reflexivity.
Qed.
