(* C03 — lemmas about the record / commit-entry encodings of Crash/Protocol.v and the ghost history
   used by the invariants. *)
From V Require Import Crash.Storage Crash.StorageProofs Crash.Protocol.
From Coq Require Import ZifyN ZifyNat ZifyBool Lia.

Section RP.
Variable H : bytes -> bytes.
Hypothesis H_len : forall x, length (H x) = 32%nat.

Lemma H_len' x : len (H x) = 32.
Proof. unfold len. rewrite H_len. reflexivity. Qed.

Lemma list_eqb_N_eq a b : list_eqb_N a b = true <-> a = b.
Proof.
  revert b; induction a as [|x a IH]; intros [|y b]; simpl; split; intros E; try discriminate; auto.
  - apply andb_prop in E as [E1 E2]. apply N.eqb_eq in E1. apply IH in E2. congruence.
  - injection E as -> ->. rewrite N.eqb_refl. simpl. apply IH. reflexivity.
Qed.

Lemma len_be8 v : len (be_enc 8 v) = 8. Proof. rewrite len_be_enc. reflexivity. Qed.
Lemma len_be4 v : len (be_enc 4 v) = 4. Proof. rewrite len_be_enc. reflexivity. Qed.
Lemma len_be1 v : len (be_enc 1 v) = 1. Proof. rewrite len_be_enc. reflexivity. Qed.

Lemma dec_enc8 v : v < 2 ^ 64 -> be_dec (be_enc 8 v) = v.
Proof. intros. apply be_dec_enc_small. change (256 ^ N.of_nat 8) with (2 ^ 64). exact H0. Qed.
Lemma dec_enc4 v : v < 2 ^ 32 -> be_dec (be_enc 4 v) = v.
Proof. intros. apply be_dec_enc_small. change (256 ^ N.of_nat 4) with (2 ^ 32). exact H0. Qed.
Lemma dec_enc1 v : v < 256 -> be_dec (be_enc 1 v) = v.
Proof. intros. apply be_dec_enc_small. change (256 ^ N.of_nat 1) with 256. exact H0. Qed.

Lemma len_alh id prev body : len (alh_of H id prev body) = 32.
Proof. apply H_len'. Qed.

Lemma len_enc_rec id prev body : len prev = 32 -> len (enc_rec H id prev body) = 76 + len body.
Proof. intros Hp. unfold enc_rec. rewrite !len_app, len_be8, len_be4, len_alh, Hp. lia. Qed.

(* what parse_rec reads *)
Lemma parse_rec_inv b id prev body n :
  parse_rec H b = Some (id, prev, body, n) ->
  n = 76 + len body /\ n <= len b /\ n < 2 ^ 32 /\ id <> 0 /\
  id = be_dec (take 8 b) /\ prev = slice b 8 32 /\ len prev = 32 /\
  body = slice b 44 (be_dec (slice b 40 4)) /\ len body = be_dec (slice b 40 4) /\
  slice b (44 + len body) 32 = alh_of H id prev body.
Proof.
  unfold parse_rec. fold (slice b 8 32) (slice b 40 4).
  destruct (N.ltb_spec (len b) 44) as [|H44]; [discriminate|].
  destruct (N.eqb_spec (be_dec (take 8 b)) 0) as [|Hid]; [discriminate|].
  set (bl := be_dec (slice b 40 4)).
  destruct (N.leb_spec (2 ^ 32) (44 + bl + 32)) as [|Hb]; [discriminate|].
  destruct (N.ltb_spec (len b) (44 + bl + 32)) as [|Hl]; [discriminate|].
  fold (slice b 44 bl) (slice b (44 + bl) 32).
  destruct (list_eqb_N _ _) eqn:E; [|discriminate].
  apply list_eqb_N_eq in E. intros Q.
  assert (E1: id = be_dec (take 8 b)) by congruence.
  assert (E2: prev = slice b 8 32) by congruence.
  assert (E3: body = slice b 44 bl) by congruence.
  assert (E4: n = 44 + bl + 32) by congruence.
  clear Q. subst id prev body n.
  assert (Hlb: len (slice b 44 bl) = bl) by (apply len_slice; lia).
  assert (Hlp: len (slice b 8 32) = 32) by (apply len_slice; lia).
  rewrite Hlb. repeat split; auto; try lia.
Qed.

Lemma parse_rec_prefix b b' id prev body n :
  parse_rec H b = Some (id, prev, body, n) -> take n b' = take n b ->
  parse_rec H b' = Some (id, prev, body, n).
Proof.
  intros P E. pose proof (parse_rec_inv _ _ _ _ _ P) as (Hn & Hnb & Hn32 & Hid & Eid & Eprev & Hlp & Ebody & Hlb & Ealh).
  assert (Hlen': n <= len b').
  { assert (L: len (take n b') = len (take n b)) by (rewrite E; reflexivity).
    rewrite !len_take in L. lia. }
  assert (S: forall o m, o + m <= n -> slice b' o m = slice b o m)
    by (intros; eapply slice_eq_of_take; eauto).
  assert (T8: take 8 b' = take 8 b).
  { change (take 8 b') with (slice b' 0 8). change (take 8 b) with (slice b 0 8). apply S. lia. }
  unfold parse_rec. fold (slice b' 8 32) (slice b' 40 4).
  rewrite T8, <- Eid.
  destruct (N.ltb_spec (len b') 44); [lia|].
  destruct (N.eqb_spec id 0); [contradiction|].
  rewrite (S 40 4) by lia. rewrite <- Hlb.
  destruct (N.leb_spec (2 ^ 32) (44 + len body + 32)); [lia|].
  destruct (N.ltb_spec (len b') (44 + len body + 32)); [lia|].
  fold (slice b' 44 (len body)) (slice b' (44 + len body) 32).
  rewrite (S 8 32), (S 44 (len body)), (S (44 + len body) 32) by lia.
  assert (Eb2: slice b 44 (len body) = body) by (rewrite Hlb; symmetry; exact Ebody).
  rewrite <- Eprev, Eb2, Ealh.
  assert (X: list_eqb_N (alh_of H id prev body) (alh_of H id prev body) = true) by (apply list_eqb_N_eq; reflexivity).
  rewrite X. f_equal. f_equal. lia.
Qed.

Lemma slice_app_mid (a m z : bytes) : slice (a ++ m ++ z) (len a) (len m) = m.
Proof.
  unfold slice. rewrite drop_app_ge by lia. replace (len a - len a) with 0 by lia. rewrite drop_0.
  rewrite take_app_le by lia. apply take_all.
Qed.

Lemma parse_enc id prev body rest :
  0 < id < 2 ^ 64 -> len prev = 32 -> 76 + len body < 2 ^ 32 ->
  parse_rec H (enc_rec H id prev body ++ rest) = Some (id, prev, body, 76 + len body).
Proof.
  intros Hid Hp Hb.
  set (b := enc_rec H id prev body ++ rest).
  set (A := alh_of H id prev body).
  assert (LA: len A = 32) by apply len_alh.
  assert (Eb: b = be_enc 8 id ++ prev ++ be_enc 4 (len body) ++ body ++ A ++ rest).
  { unfold b, enc_rec. rewrite <- !app_assoc. reflexivity. }
  assert (Hl: len b = 76 + len body + len rest).
  { rewrite Eb, !len_app, len_be8, len_be4, Hp, LA. lia. }
  assert (S8: take 8 b = be_enc 8 id).
  { rewrite Eb. rewrite take_app_le by (rewrite len_be8; lia).
    rewrite <- (len_be8 id) at 1. apply take_all. }
  assert (Sp: slice b 8 32 = prev).
  { rewrite Eb. rewrite <- (len_be8 id) at 1. rewrite <- Hp at 1. apply slice_app_mid. }
  assert (Sl: slice b 40 4 = be_enc 4 (len body)).
  { rewrite Eb. rewrite (app_assoc (be_enc 8 id)).
    replace 40 with (len (be_enc 8 id ++ prev)) by (rewrite len_app, len_be8, Hp; lia).
    rewrite <- (len_be4 (len body)) at 1. apply slice_app_mid. }
  assert (Sb: slice b 44 (len body) = body).
  { rewrite Eb. rewrite (app_assoc prev), (app_assoc (be_enc 8 id)).
    replace 44 with (len (be_enc 8 id ++ prev ++ be_enc 4 (len body)))
      by (rewrite !len_app, len_be8, len_be4, Hp; lia).
    apply slice_app_mid. }
  assert (Sa: slice b (44 + len body) 32 = A).
  { rewrite Eb.
    rewrite (app_assoc (be_enc 4 (len body))), (app_assoc prev), (app_assoc (be_enc 8 id)).
    replace (44 + len body) with (len (be_enc 8 id ++ prev ++ be_enc 4 (len body) ++ body))
      by (rewrite !len_app, len_be8, len_be4, Hp; lia).
    rewrite <- LA at 1. apply slice_app_mid. }
  unfold parse_rec. fold (slice b 8 32) (slice b 40 4).
  rewrite S8, Sp, Sl. rewrite dec_enc8, dec_enc4 by lia.
  destruct (N.ltb_spec (len b) 44); [lia|].
  destruct (N.eqb_spec id 0); [lia|].
  destruct (N.leb_spec (2 ^ 32) (44 + len body + 32)); [lia|].
  destruct (N.ltb_spec (len b) (44 + len body + 32)); [lia|].
  fold (slice b 44 (len body)) (slice b (44 + len body) 32).
  rewrite Sb, Sa.
  assert (X: list_eqb_N A A = true) by (apply list_eqb_N_eq; reflexivity).
  unfold A in X at 2. rewrite X. f_equal. f_equal. lia.
Qed.

(* ---- commit-log entries ---- *)
Lemma len_enc_entry off size alh : len alh = 32 -> len (enc_entry off size alh) = 44.
Proof. intros. unfold enc_entry. rewrite !len_app, len_be8, len_be4. lia. Qed.

Lemma entry_decode off size alh :
  len alh = 32 -> off < 2 ^ 64 -> size < 2 ^ 32 ->
  let e := enc_entry off size alh in
  be_dec (take 8 e) = off /\ be_dec (take 4 (drop 8 e)) = size /\ drop 12 e = alh.
Proof.
  intros Ha Ho Hs e. unfold e, enc_entry. split; [|split].
  - rewrite take_app_le by (rewrite len_be8; lia). rewrite <- (len_be8 off) at 1. rewrite take_all.
    apply dec_enc8; auto.
  - rewrite drop_app_ge by (rewrite len_be8; lia). rewrite len_be8. replace (8 - 8) with 0 by lia.
    rewrite drop_0. rewrite take_app_le by (rewrite len_be4; lia).
    rewrite <- (len_be4 size) at 1. rewrite take_all. apply dec_enc4; auto.
  - rewrite app_assoc. rewrite drop_app_ge by (rewrite len_app, len_be8, len_be4; lia).
    rewrite len_app, len_be8, len_be4. replace (12 - (8 + 4)) with 0 by lia. apply drop_0.
Qed.

Lemma entry_at_slice cm k off size alh :
  slice cm (44 * (k - 1)) 44 = enc_entry off size alh ->
  len alh = 32 -> off < 2 ^ 64 -> size < 2 ^ 32 ->
  entry_at cm k = Some (off, size, alh).
Proof.
  intros S Ha Ho Hs. unfold entry_at. rewrite S. rewrite len_enc_entry by auto.
  destruct (N.ltb_spec 44 44); [lia|].
  destruct (entry_decode off size alh Ha Ho Hs) as (-> & -> & ->). reflexivity.
Qed.

(* ---- ghost history ---- *)
Record trec := mkT { t_raw : bytes; t_id : N; t_prev : bytes; t_body : bytes; t_alh : bytes; t_off : N }.

Definition rec_ok (r : trec) : Prop :=
  (forall b, take (len (t_raw r)) b = t_raw r ->
             parse_rec H b = Some (t_id r, t_prev r, t_body r, len (t_raw r))) /\
  t_alh r = alh_of H (t_id r) (t_prev r) (t_body r) /\
  len (t_raw r) = 76 + len (t_body r) /\ len (t_raw r) < 2 ^ 32 /\ t_off r + len (t_raw r) < 2 ^ 64 /\
  t_id r <> 0.

Fixpoint chain (pid : N) (pa : bytes) (off : N) (h : list trec) : Prop :=
  match h with
  | [] => True
  | r :: h' => rec_ok r /\ t_id r = pid + 1 /\ t_prev r = pa /\ t_off r = off /\
               chain (t_id r) (t_alh r) (off + len (t_raw r)) h'
  end.

Definition raws (h : list trec) : bytes := concat (map t_raw h).
Definition ent_of (r : trec) : bytes := enc_entry (t_off r) (len (t_raw r)) (t_alh r).
Definition entries (h : list trec) : bytes := concat (map ent_of h).
Definition pb_of (r : trec) : N * bytes * N * N := (t_id r, t_alh r, t_off r, len (t_raw r)).
Fixpoint last_alh (pa : bytes) (h : list trec) : bytes :=
  match h with [] => pa | r :: h' => last_alh (t_alh r) h' end.

Lemma raws_app a b : raws (a ++ b) = raws a ++ raws b.
Proof. unfold raws. rewrite map_app, concat_app. reflexivity. Qed.
Lemma entries_app a b : entries (a ++ b) = entries a ++ entries b.
Proof. unfold entries. rewrite map_app, concat_app. reflexivity. Qed.
Lemma last_alh_app pa a b : last_alh pa (a ++ b) = last_alh (last_alh pa a) b.
Proof. revert pa; induction a as [|r a IH]; intros pa; simpl; auto. Qed.

Lemma rec_ok_alh_len r : rec_ok r -> len (t_alh r) = 32.
Proof. intros (_ & -> & _). apply len_alh. Qed.

Lemma chain_app pid pa off a b :
  chain pid pa off (a ++ b) <->
  chain pid pa off a /\ chain (pid + N.of_nat (length a)) (last_alh pa a) (off + len (raws a)) b.
Proof.
  revert pid pa off; induction a as [|r a IH]; intros pid pa off.
  - cbn [app chain last_alh length]. unfold raws; cbn [map concat]. rewrite len_nil, !N.add_0_r. tauto.
  - cbn [app chain last_alh length]. rewrite IH.
    assert (Er: raws (r :: a) = t_raw r ++ raws a) by reflexivity. rewrite Er, len_app.
    replace (off + (len (t_raw r) + len (raws a))) with (off + len (t_raw r) + len (raws a)) by lia.
    split.
    + intros (Hr & Hid & Hp & Ho & Ha & Hb).
      replace (pid + N.of_nat (S (length a))) with (t_id r + N.of_nat (length a)) by lia. tauto.
    + intros ((Hr & Hid & Hp & Ho & Ha) & Hb).
      replace (pid + N.of_nat (S (length a))) with (t_id r + N.of_nat (length a)) in Hb by lia. tauto.
Qed.

Lemma entries_cons r h : entries (r :: h) = ent_of r ++ entries h.
Proof. reflexivity. Qed.
Lemma raws_cons r h : raws (r :: h) = t_raw r ++ raws h.
Proof. reflexivity. Qed.

Lemma chain_entries_len pid pa off h : chain pid pa off h -> len (entries h) = 44 * N.of_nat (length h).
Proof.
  revert pid pa off; induction h as [|r h IH]; intros pid pa off; [reflexivity|].
  cbn [chain length]. intros (Hr & _ & _ & _ & Hc). rewrite entries_cons, len_app.
  rewrite (IH _ _ _ Hc). unfold ent_of. rewrite len_enc_entry by (apply rec_ok_alh_len; auto). lia.
Qed.

Lemma chain_firstn pid pa off n h : chain pid pa off h -> chain pid pa off (firstn n h).
Proof.
  intros Hc. rewrite <- (firstn_skipn n h) in Hc. apply chain_app in Hc. tauto.
Qed.

Lemma chain_skipn pid pa off n h : (n <= length h)%nat -> chain pid pa off h ->
  chain (pid + N.of_nat n) (last_alh pa (firstn n h)) (off + len (raws (firstn n h))) (skipn n h).
Proof.
  intros Hn Hc. rewrite <- (firstn_skipn n h) in Hc. apply chain_app in Hc as [_ Hc].
  rewrite firstn_length_le in Hc by auto. exact Hc.
Qed.

(* the k-th transaction (1-based) of a chained history *)
Lemma chain_nth pid pa off h k r :
  chain pid pa off h -> nth_error h k = Some r ->
  rec_ok r /\ t_id r = pid + N.of_nat k + 1 /\ t_off r = off + len (raws (firstn k h)) /\
  t_prev r = last_alh pa (firstn k h).
Proof.
  revert pid pa off k; induction h as [|x h IH]; intros pid pa off [|k] Hc E; cbn [nth_error] in E; try discriminate.
  - assert (x = r) by congruence. subst x. cbn [chain] in Hc. destruct Hc as (Hr & Hid & Hp & Ho & _).
    cbn [firstn last_alh]. unfold raws; cbn [map concat]. rewrite len_nil.
    split; [auto|]. split; [lia|]. split; [lia|auto].
  - cbn [chain] in Hc. destruct Hc as (Hr & Hid & Hp & Ho & Hc). destruct (IH _ _ _ _ Hc E) as (R1 & R2 & R3 & R4).
    cbn [firstn last_alh]. rewrite raws_cons, len_app.
    split; [auto|]. split; [lia|]. split; [lia|auto].
Qed.

(* reading entry k (1-based: index k-1 of the history) out of any content that starts with the
   encodings of the first k entries *)
Lemma firstn_S_nth {A} (h : list A) k r : nth_error h k = Some r -> firstn (S k) h = firstn k h ++ [r].
Proof.
  revert k; induction h as [|x h IH]; intros [|k] E; simpl in *; try discriminate.
  - injection E as ->. reflexivity.
  - f_equal. apply IH. exact E.
Qed.

Lemma entry_at_history pid pa off h cm k r :
  chain pid pa off h -> nth_error h k = Some r ->
  take (44 * N.of_nat (S k)) cm = entries (firstn (S k) h) ->
  entry_at cm (N.of_nat (S k)) = Some (t_off r, len (t_raw r), t_alh r).
Proof.
  intros Hc E T.
  pose proof (firstn_S_nth _ _ _ E) as Hsplit.
  destruct (chain_nth _ _ _ _ _ _ Hc E) as (Hr & _ & _ & _).
  assert (Hk: (k < length h)%nat) by (apply nth_error_Some; congruence).
  assert (Hl: len (entries (firstn k h)) = 44 * N.of_nat k).
  { rewrite (chain_entries_len pid pa off) by (apply chain_firstn; auto).
    rewrite firstn_length_le by lia. reflexivity. }
  assert (L44: len (ent_of r) = 44) by (unfold ent_of; apply len_enc_entry; apply rec_ok_alh_len; exact Hr).
  apply entry_at_slice.
  - rewrite <- (slice_take _ _ (44 * N.of_nat (S k))) by lia. rewrite T, Hsplit, entries_app.
    unfold entries at 2; cbn [map concat]. rewrite app_nil_r.
    replace (44 * (N.of_nat (S k) - 1)) with (len (entries (firstn k h))) by lia.
    rewrite <- L44 at 1. rewrite <- (app_nil_r (ent_of r)) at 1. apply slice_app_mid.
  - apply rec_ok_alh_len; auto.
  - destruct Hr as (_ & _ & _ & H32 & H64 & _). lia.
  - destruct Hr as (_ & _ & _ & H32 & H64 & _). lia.
Qed.

(* ... and the record it points to, out of any tx-log content that starts with the records *)
Lemma record_at_history pid pa h tx k r :
  chain pid pa 0 h -> nth_error h k = Some r ->
  take (len (raws (firstn (S k) h))) tx = raws (firstn (S k) h) ->
  t_off r + len (t_raw r) = len (raws (firstn (S k) h)) /\
  slice tx (t_off r) (len (t_raw r)) = t_raw r.
Proof.
  intros Hc E T.
  pose proof (firstn_S_nth _ _ _ E) as Hsplit.
  destruct (chain_nth _ _ _ _ _ _ Hc E) as (Hr & _ & Ho & _). rewrite N.add_0_l in Ho.
  assert (L: len (raws (firstn (S k) h)) = t_off r + len (t_raw r)).
  { rewrite Hsplit, raws_app, len_app. unfold raws at 2; simpl. rewrite app_nil_r. lia. }
  split; [lia|].
  rewrite <- (slice_take _ _ (len (raws (firstn (S k) h)))) by lia.
  rewrite T, Hsplit, raws_app. unfold raws at 2; simpl. rewrite app_nil_r.
  rewrite Ho. rewrite <- (app_nil_r (t_raw r)) at 1. apply slice_app_mid.
Qed.

End RP.
