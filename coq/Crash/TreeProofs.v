(* C03 — the CONTENT of the hash tree, for the code since fix b260503 (c_ahtsync = true: store.sync()
   fsyncs the tree after the tx log and before the commit entries are appended).  Invariant: the leaves below latestSyncedNode are
   durable and are the Alh values of the transactions, the committed id never exceeds
   latestSyncedNode, so the reset-to-committed of OpenWith (fix 2077e08) always lands on genuine
   leaves and the re-link rebuilds the rest.  For the code before b260503 the statement is refuted
   (Crash/Refuted.v, tree_refuted: history).
   Since fix 0b488aa (ResetSize fsyncs the tree's commit log, c_ahtreset = RSync) the durable size of the
   tree's commit log IS latestSyncedNode, the size check of ahtree.OpenWith never fails and crash
   safety holds without the exception stated in Crash/Theorems.v. *)
From V Require Import Crash.Storage Crash.StorageProofs Crash.Protocol Crash.RecordProofs Crash.AhtProofs
  Crash.InvProofs Crash.ValuesProofs Crash.RecoverProofs Crash.Theorems Crash.Progress.
From Coq Require Import ZifyN ZifyNat ZifyBool Lia.

Section TP.
Variable H : bytes -> bytes.
Hypothesis H_len : forall x, length (H x) = 32%nat.

Notation Inv := (Inv H).
Notation step := (step H).
Notation reach := (reach H).
Notation chain := (chain H).

Definition leaves (h : list trec) : bytes := concat (map t_alh h).

Lemma leaves_app a b : leaves (a ++ b) = leaves a ++ leaves b.
Proof. unfold leaves. rewrite map_app, concat_app. reflexivity. Qed.

Lemma leaves_len pid pa off h : chain pid pa off h -> len (leaves h) = 32 * N.of_nat (length h).
Proof.
  revert pid pa off; induction h as [|r h IH]; intros pid pa off Hc; [reflexivity|].
  cbn [RecordProofs.chain] in Hc. destruct Hc as (Hr & _ & _ & _ & Hc).
  change (leaves (r :: h)) with (t_alh r ++ leaves h). rewrite len_app, (IH _ _ _ Hc).
  rewrite (rec_ok_alh_len H H_len r Hr). cbn [length]. lia.
Qed.

Lemma leaves_firstn_len pid pa off h n : chain pid pa off h -> (n <= length h)%nat ->
  len (leaves (firstn n h)) = 32 * N.of_nat n.
Proof.
  intros Hc Hn. rewrite (leaves_len pid pa off) by (apply (chain_firstn H H_len); auto).
  rewrite firstn_length_le by auto. reflexivity.
Qed.

Lemma leaves_prefix pid pa off h k c : chain pid pa off h -> (k <= c)%nat -> (c <= length h)%nat ->
  take (32 * N.of_nat k) (leaves (firstn c h)) = leaves (firstn k h).
Proof.
  intros Hc Hk Hl. rewrite <- (firstn_skipn k (firstn c h)). rewrite firstn_firstn_le by auto.
  rewrite leaves_app. rewrite <- (leaves_firstn_len pid pa off h k) by (auto; lia).
  apply take_app_exact.
Qed.

Lemma leaves_S h n r : nth_error h n = Some r -> leaves (firstn (S n) h) = leaves (firstn n h) ++ t_alh r.
Proof.
  intros E. rewrite (firstn_S_nth _ _ _ E), leaves_app. unfold leaves at 2. cbn. rewrite app_nil_r. reflexivity.
Qed.

(* the tree part of the state agrees with history h *)
Definition TA (a : aht) (h : list trec) : Prop :=
  a_latest a <= a_size a /\ (N.to_nat (a_size a) <= length h)%nat /\
  32 * a_latest a <= len (durable (a_d a)) /\
  take (32 * a_latest a) (durable (a_d a)) = leaves (firstn (N.to_nat (a_latest a)) h) /\
  offs_ge (32 * a_latest a) (pending (a_d a)) /\ 32 * a_latest a <= bufoff (a_d a) /\
  take (32 * a_size a) (lview (a_d a)) = leaves (firstn (N.to_nat (a_size a)) h) /\
  12 * a_latest a <= len (durable (a_c a)).

Record TInv (s : st) (h : list trec) : Prop := mkTInv {
  t_ta : TA (aht_of s) h;
  t_comm : committed s <= alatest s;
  t_pc : match phase_ s with PC _ => alatest s = asize s /\ asize s = precommitted s | _ => True end;
  t_dur : c_ahtreset (s_cfg s) = RSync -> pending (ahc s) = [] /\ len (durable (ahc s)) = 12 * alatest s
}.

(* with the durable ResetSize (fix 0b488aa): nothing is pending on the tree's commit log and its durable
   size is latestSyncedNode *)
Definition CD (a : aht) : Prop := pending (a_c a) = [] /\ len (durable (a_c a)) = 12 * a_latest a.

Lemma TA_ext a h h' : TA a h -> firstn (N.to_nat (a_size a)) h' = firstn (N.to_nat (a_size a)) h ->
  (length h <= length h')%nat -> TA a h'.
Proof.
  intros (A1 & A2 & A3 & A4 & A5 & A6 & A7 & A8) E L.
  assert (E2: firstn (N.to_nat (a_latest a)) h' = firstn (N.to_nat (a_latest a)) h).
  { rewrite <- (firstn_firstn_le (N.to_nat (a_latest a)) (N.to_nat (a_size a)) h') by lia.
    rewrite E. apply firstn_firstn_le. lia. }
  unfold TA. rewrite E, E2. repeat split; auto; lia.
Qed.

(* sync() *)
Lemma aht_sync_TA thld a h a' :
  AInv thld a -> TA a h -> aht_sync a = Ok a' ->
  TA a' h /\ a_latest a' = a_size a /\ a_size a' = a_size a /\ AInv thld a' /\ (CD a -> CD a').
Proof.
  intros IA T E.
  destruct (aht_sync_AInv _ _ IA) as (a'' & E'' & IA' & Sz & La & _).
  assert (a'' = a') by congruence. subst a''.
  destruct IA as (Wd & HC & Hs & Hc & H32 & H12).
  destruct T as (A1 & A2 & A3 & A4 & A5 & A6 & A7 & A8).
  destruct (aht_sync_content a a' Wd HC H12 E) as [(Z & ->)|(NZ & D1 & D2 & D3 & D4 & D5 & D6 & D6b & D7 & D8 & D9)].
  - split; [|auto]. unfold TA. repeat split; auto.
  - split; [|split; [auto|split; [auto|split; [auto|intros _; split; [exact D6b|rewrite D6, D7; reflexivity]]]]].
    assert (Ll: 32 * a_size a <= len (lview (a_d a))) by (rewrite len_lview by auto; lia).
    unfold TA. rewrite D1, D2, D4, D5, D7, D8. rewrite Hs.
    split; [lia|]. split; [exact A2|]. split; [exact Ll|]. split; [exact A7|].
    split; [constructor|]. split; [lia|]. split; [exact A7|]. rewrite <- Hs. rewrite D6. lia.
Qed.

(* Append of the Alh of the next transaction of h *)
Lemma aht_append_TA thld a h r a' :
  AInv thld a -> TA a h -> nth_error h (N.to_nat (a_size a)) = Some r -> len (t_alh r) = 32 ->
  aht_append thld a (t_alh r) = Ok a' ->
  TA a' h /\ a_size a' = a_size a + 1 /\ a_latest a <= a_latest a' /\ AInv thld a' /\ (CD a -> CD a').
Proof.
  intros IA T En Lr E.
  destruct (aht_append_ok thld a (t_alh r) IA Lr) as (a'' & E'' & IA' & Sz).
  assert (a'' = a') by congruence. subst a''.
  pose proof IA as IA0.
  destruct IA as (Wd & HC & Hs & Hc & H32 & H12).
  destruct T as (A1 & A2 & A3 & A4 & A5 & A6 & A7 & A8).
  assert (Hlt: (N.to_nat (a_size a) < length h)%nat) by (apply nth_error_Some; congruence).
  unfold aht_append in E.
  unfold f_setoffset in E.
  destruct (f_setoffset_gen false (a_d a) (32 * a_size a)) as [d1|] eqn:Es; [|discriminate].
  destruct (f_setoffset_spec _ _ _ _ Wd Es) as (S1 & S2 & S3 & S4 & _ & _ & S6 & S7 & S8 & _ & S11).
  assert (Ll: 32 * a_size a <= len (lview (a_d a))) by (rewrite len_lview by auto; lia).
  specialize (S6 Ll).
  assert (S5: offs_ge (32 * a_latest a) (pending d1)) by (apply S11; auto; lia).
  set (d2 := f_append d1 (t_alh r)) in *.
  assert (W2: wf d2) by (apply wf_append; auto).
  assert (V2: take (32 * (a_size a + 1)) (lview d2) = leaves (firstn (N.to_nat (a_size a + 1)) h)).
  { replace (32 * (a_size a + 1)) with (f_offset d1 + len (t_alh r)) by lia.
    unfold d2. rewrite take_lview_append by auto. rewrite S3, S6, A7.
    replace (N.to_nat (a_size a + 1)) with (S (N.to_nat (a_size a))) by lia.
    rewrite (leaves_S _ _ _ En). reflexivity. }
  assert (B2: 32 * a_latest a <= bufoff d2).
  { unfold d2. cbn [f_append bufoff]. destruct (N.le_gt_cases (bufoff (a_d a)) (32 * a_size a)) as [Hle|Hgt].
    - rewrite (S7 Hle). exact A6.
    - rewrite (S8 Hgt). lia. }
  set (a1 := mkAht d2 (a_c a) (a_size a) (a_latest a) (a_cnt a + 1)) in *.
  apply bind_ok in E as (a2 & E2 & E).
  assert (Q: forall x y, @Ok aht x = Ok y -> x = y) by (intros ? ? Q; congruence).
  apply Q in E. subst a'.
  (* the intermediate tree a1 (leaf appended, size not yet advanced) *)
  assert (T1: a_latest a1 <= a_size a1 + 1 /\
              32 * a_latest a1 <= len (durable (a_d a1)) /\
              take (32 * a_latest a1) (durable (a_d a1)) = leaves (firstn (N.to_nat (a_latest a1)) h) /\
              offs_ge (32 * a_latest a1) (pending (a_d a1)) /\ 12 * a_latest a1 <= len (durable (a_c a1))).
  { unfold a1, d2. cbn [a_d a_c a_size a_latest f_append durable pending]. rewrite S4. repeat split; auto; lia. }
  destruct T1 as (U1 & U3 & U4 & U5 & U8).
  cbn [a_cnt a1] in E2.
  destruct (N.eqb_spec (a_cnt a + 1) thld) as [Et|Nt].
  - (* threshold reached: sync *)
    assert (Wd1: wf (a_d a1)) by exact W2.
    destruct (aht_sync_content a1 a2 Wd1 HC H12 E2) as [(Z & _)|(NZ & D1 & D2 & D3 & D4 & D5 & D6 & D6b & D7 & D8 & D9)].
    { cbn [a1 a_cnt] in Z. lia. }
    cbn [a1 a_d a_c a_size a_latest a_cnt] in *.
    split; [|split; [cbn [a_size]; lia|split; [cbn [a_latest]; lia|split; [exact IA'|intros _; unfold CD; cbn [a_c a_latest]; split; [exact D6b|rewrite D6, D7; reflexivity]]]]].
    unfold TA. cbn [a_d a_c a_size a_latest a_cnt]. rewrite D1, D2, D4, D5, D7, D8.
    assert (Ls: a_latest a + (a_cnt a + 1) = a_size a + 1) by lia. rewrite Ls in *.
    assert (Ll2: 32 * (a_size a + 1) <= len (lview d2)).
    { rewrite len_lview by auto. unfold d2, f_offset. cbn [f_append bufoff buf]. rewrite len_app, Lr.
      unfold f_offset in S3. lia. }
    split; [lia|]. split; [lia|]. split; [exact Ll2|]. split; [exact V2|].
    split; [constructor|]. split.
    { unfold d2, f_offset. cbn [f_append bufoff buf]. rewrite len_app, Lr. unfold f_offset in S3. lia. }
    split; [exact V2|rewrite D6; lia].
  - (* below the threshold: only buffered *)
    apply Q in E2. subst a2. cbn [a1 a_d a_c a_size a_latest a_cnt].
    split; [|split; [reflexivity|split; [lia|split; [exact IA'|auto]]]].
    unfold TA. cbn [a_d a_c a_size a_latest a_cnt].
    unfold d2 at 1 2 3 4. cbn [f_append durable pending]. rewrite S4.
    split; [lia|]. split; [lia|]. split; [exact A3|]. split; [exact A4|]. split; [exact S5|].
    split; [exact B2|]. split; [exact V2|exact A8].
Qed.

Lemma TInv_init c nv : TInv (init H c nv) [].
Proof.
  constructor.
  - unfold TA, aht_of, init. cbn. repeat split; try lia; try constructor.
  - cbn. lia.
  - cbn. exact I.
  - intros _. unfold init. destruct (c_prealloc c); split; reflexivity.
Qed.

Lemma Q_ok {A} (a b : A) : Ok a = Ok b -> a = b.
Proof. congruence. Qed.

(* ---- steps (c_ahtsync = true; performed by a ready store) ---- *)
Lemma TInv_step nv s h d o s' h' d' :
  c_ahtsync (s_cfg s) = true -> Inv nv s h d -> TInv s h -> ready s -> step s o = Ok s' ->
  Inv nv s' h' d' -> (match o with OPre _ _ => exists r, h' = h ++ [r] | _ => h' = h end) ->
  TInv s' h'.
Proof.
  intros Fl I T Rd E I' Hh. pose proof E as E0. unfold Protocol.step in E. cbv zeta in E.
  destruct T as [Ta Tc Tp Td].
  pose proof (v_aht _ _ _ _ _ I) as (IA & Has).
  destruct o.
  - (* OVal *)
    destruct (nth_error (vls s) v); [|discriminate]. apply Q_ok in E. subst s'.
    subst h'. constructor; auto.
  - (* OPre *)
    destruct Hh as (r & ->).
    destruct (step_OPre H H_len _ _ _ _ _ _ _ I E0)
      as (r0 & _ & _ & R2 & R3 & R4 & R5 & _ & (v & vo & vn & hv & R7 & _ & _) & _).
    destruct (phase_ s) eqn:Ep; cbn [phase_idle negb] in E; try discriminate.
    rewrite R7 in E.
    destruct (_ <=? _); [discriminate|].
    destruct (f_setoffset_gen _ (txl s) (pts s)); [|discriminate].
    destruct (negb _); [discriminate|].
    apply bind_ok in E as (a1 & E1 & E). apply bind_ok in E as (a2 & E2 & E).
    apply Q_ok in E. subst s'.
    rewrite (aht_reset_same _ (aht_of s) (precommitted s) Rd) in E1. apply Q_ok in E1. subst a1.
    pose proof (v_chain _ _ _ _ _ I') as Ch'. pose proof (v_plen _ _ _ _ _ I) as Pl.
    assert (En: nth_error (h ++ [r]) (N.to_nat (a_size (aht_of s))) = Some r).
    { unfold aht_of; cbn [a_size]. unfold ready in Rd. rewrite Rd, Pl, Nnat.Nat2N.id.
      rewrite nth_error_app2 by lia. rewrite Nat.sub_diag. reflexivity. }
    destruct (chain_nth H H_len _ _ _ _ _ _ Ch' En) as (Rok & Rid & _ & Rprev).
    assert (Lr: len (t_alh r) = 32) by (apply (rec_ok_alh_len H H_len); exact Rok).
    (* the leaf appended by the step is the Alh of the last record of the new history: both are read
       back from the state after the step (palh) *)
    assert (Eleaf: alh_of H (precommitted s + 1) (palh s) (enc_vref v vo vn hv ++ payload) = t_alh r).
    { pose proof (v_palh _ _ _ _ _ I') as Pa'. cbn [palh] in Pa'.
      rewrite last_alh_app in Pa'. cbn [last_alh] in Pa'. exact Pa'. }
    rewrite Eleaf in E2.
    assert (Ta': TA (aht_of s) (h ++ [r])).
    { eapply TA_ext; [exact Ta| |rewrite app_length; lia].
      destruct Ta as (_ & A2 & _). rewrite firstn_app_le by exact A2. reflexivity. }
    destruct (aht_append_TA _ _ _ _ _ IA Ta' En Lr E2) as (T2 & Sz & Lt & _ & Dk).
    constructor.
    + unfold aht_of. cbn [ahd ahc asize alatest acnt]. destruct a2; exact T2.
    + cbn [committed alatest]. unfold aht_of in Lt; cbn [a_latest] in Lt. lia.
    + cbn [phase_]. trivial.
    + cbn [s_cfg ahc alatest]. intros Fr. apply (Dk (Td Fr)).
  - (* OFlush *)
    subst h'.
    destruct f as [| |v| |].
    + apply Q_ok in E. subst s'. constructor; auto.
    + apply Q_ok in E. subst s'. constructor; auto.
    + destruct (nth_error (vls s) v); [|discriminate]. apply Q_ok in E. subst s'. constructor; auto.
    + apply Q_ok in E. subst s'. constructor; auto.
      destruct IA as (Wd & _).
      destruct Ta as (A1 & A2 & A3 & A4 & A5 & A6 & A7 & A8).
      unfold TA, aht_of, upd_files in *. cbn [a_d a_c a_size a_latest ahd ahc asize alatest acnt] in *.
      rewrite durable_flushn, lview_flushn by exact Wd. repeat split; auto.
      * apply pending_flushn_ge; auto.
      * rewrite bufoff_flushn. lia.
    + apply Q_ok in E. subst s'.
      destruct IA as (_ & (Hb & _) & _).
      unfold aht_of in Hb; cbn [a_c] in Hb.
      constructor; auto.
      * unfold aht_of, upd_files. cbn [ahd ahc asize alatest acnt].
        rewrite flushn_nobuf by exact Hb. exact Ta.
      * unfold upd_files. cbn [s_cfg ahc alatest]. rewrite flushn_nobuf by exact Hb. exact Td.
  - (* OSyncStart *)
    destruct (_ && _); [|discriminate]. apply Q_ok in E. subst s'.
    subst h'. constructor; auto; cbn [phase_]; trivial.
  - (* OSyncV *)
    destruct (phase_ s); try discriminate. destruct (existsb _ _); [discriminate|].
    destruct (nth_error (vls s) v); [|discriminate]. apply Q_ok in E. subst s'.
    subst h'. constructor; auto; cbn [phase_]; trivial.
  - (* OSyncTx: the tree is fsynced *)
    destruct (phase_ s); try discriminate. destruct (negb _); [discriminate|].
    rewrite Fl in E. apply bind_ok in E as (a & Ea & E).
    destruct (f_setoffset_gen _ (cml s) (44 * committed s)); [|discriminate].
    apply Q_ok in E. subst s'.
    destruct (aht_sync_TA _ _ _ _ IA Ta Ea) as (T2 & La & Sz & _ & Dk).
    subst h'.
    unfold aht_of in La, Sz; cbn [a_size] in La, Sz.
    constructor.
    + unfold aht_of. cbn [ahd ahc asize alatest acnt]. destruct a; exact T2.
    + cbn [committed alatest]. pose proof (v_cd _ _ _ _ _ I). unfold ready in Rd. lia.
    + cbn [phase_ alatest asize]. split; [lia|]. unfold precommitted. cbn [committed pbuf].
      unfold ready, precommitted in Rd. lia.
    + cbn [s_cfg ahc alatest]. intros Fr. apply (Dk (Td Fr)).
  - (* OSyncC *)
    destruct (phase_ s) as [| |t] eqn:Ep; try discriminate. apply Q_ok in E. subst s'.
    pose proof (v_cph _ _ _ _ _ I) as Cph. rewrite Ep in Cph. destruct Cph as (Et & _).
    destruct Tp as (P1 & P2).
    subst h'.
    constructor; auto.
    + cbn [committed alatest]. lia.
    + cbn [phase_]. trivial.
Qed.

(* ---- recovery ---- *)
(* read_alh on the logs of a state satisfying Inv returns the Alh of the ghost history *)
Lemma read_alh_spec nv s h d k r :
  Inv nv s h d -> pending (txl s) = [] -> buf (txl s) = [] ->
  nth_error h (N.to_nat k - 1) = Some r -> 1 <= k ->
  read_alh H (durable (txl s)) (durable (cml s)) (committed s) (pbuf s) k = Ok (t_alh r).
Proof.
  intros I Pt Bt En Hk. unfold read_alh.
  pose proof (v_plen _ _ _ _ _ I) as Pl. pose proof (v_cd _ _ _ _ _ I) as Cd.
  assert (Hlt: (N.to_nat k - 1 < length h)%nat) by (apply nth_error_Some; congruence).
  destruct (N.leb_spec k (committed s)) as [Hc|Hc].
  - destruct (Inv_read H H_len _ _ _ _ I) as (A & B).
    destruct (B k ltac:(lia)) as (r' & R1 & R2). assert (r' = r) by congruence. subst r'.
    destruct (A k ltac:(lia)) as (raw & prev & body & n & T1 & T2 & T3 & T4 & T5).
    assert (raw = t_raw r) by congruence. subst raw.
    unfold tx_at in T1. destruct (entry_at (durable (cml s)) k) as [[[off size] alh]|] eqn:Ee; [|discriminate].
    destruct (off + size <=? len (durable (txl s))) eqn:El; [|discriminate].
    pose proof (v_chain _ _ _ _ _ I) as Ch.
    destruct (chain_nth H H_len _ _ _ _ _ _ Ch En) as ((Hparse & Halh & _) & Rid & _).
    assert (Es: slice (durable (txl s)) off size = t_raw r) by congruence.
    assert (Ls: size = len (t_raw r)).
    { apply N.leb_le in El. rewrite <- Es. symmetry. apply len_slice. exact El. }
    rewrite (Hparse (drop off (durable (txl s)))).
    + rewrite Halh. reflexivity.
    + rewrite <- Ls. exact Es.
  - pose proof (v_pbuf _ _ _ _ _ I) as Pb. rewrite Pb.
    rewrite nth_error_map.
    assert (E2: nth_error (skipn (N.to_nat (committed s)) h) (N.to_nat (k - committed s - 1)) = Some r).
    { rewrite <- En.
      assert (Ei: (N.to_nat k - 1 = N.to_nat (committed s) + N.to_nat (k - committed s - 1))%nat) by lia.
      rewrite Ei. clear. generalize (N.to_nat (committed s)) as a, (N.to_nat (k - committed s - 1)) as b.
      intros a b. revert h. induction a as [|a IH]; intros h; [reflexivity|].
      destruct h; [destruct b; reflexivity|]. apply IH. }
    rewrite E2. reflexivity.
Qed.

Lemma relink_TA n : forall thld tx cm c pb a a' h,
  AInv thld a -> TA a h ->
  (forall k r, a_size a < k -> nth_error h (N.to_nat k - 1) = Some r ->
               read_alh H tx cm c pb k = Ok (t_alh r) /\ len (t_alh r) = 32) ->
  (N.to_nat (a_size a) + n <= length h)%nat ->
  relink H n thld tx cm c pb a = Ok a' ->
  TA a' h /\ a_latest a <= a_latest a' /\ AInv thld a' /\ (CD a -> CD a').
Proof.
  induction n as [|n IH]; intros thld tx cm c pb a a' h IA T Hr Hn E; cbn [relink] in E.
  - apply Q_ok in E. subst a'. split; [exact T|split; [lia|split; [exact IA|auto]]].
  - apply bind_ok in E as (leaf & El & E). apply bind_ok in E as (a1 & Ea & E).
    destruct (nth_error h (N.to_nat (a_size a))) as [r|] eqn:En; [|apply nth_error_None in En; lia].
    assert (En': nth_error h (N.to_nat (a_size a + 1) - 1) = Some r).
    { replace (N.to_nat (a_size a + 1) - 1)%nat with (N.to_nat (a_size a)) by lia. exact En. }
    destruct (Hr (a_size a + 1) r ltac:(lia) En') as (Er & Lr).
    assert (leaf = t_alh r) by congruence. subst leaf.
    destruct (aht_append_TA _ _ _ _ _ IA T En Lr Ea) as (T1 & Sz & Lt & IA1 & Dk1).
    destruct (IH thld tx cm c pb a1 a' h IA1 T1) as (T' & Lt' & IA' & Dk'); auto.
    + intros k r' Hk. apply Hr. lia.
    + lia.
    + split; [exact T'|split; [lia|split; [exact IA'|auto]]].
Qed.

(* the size check of ahtree.OpenWith on a crash image, since fix 0b488aa *)
Lemma TInv_check nv s h d im :
  c_ahtreset (s_cfg s) = RSync -> Inv nv s h d -> TInv s h -> crash s im -> ~ aht_check_fails im.
Proof.
  intros Fr I T (_ & _ & _ & Cad & Cac).
  destruct T as [(A1 & A2 & A3 & A4 & A5 & A6 & A7 & A8) _ _ Td]. destruct (Td Fr) as (Tp & Tl).
  unfold aht_of in *. cbn [a_d a_c a_size a_latest a_cnt] in *.
  assert (Eac: i_ahc im = durable (ahc s)) by (apply crash_image_nopending; auto).
  destruct (crash_image_prefix _ _ _ A5 A3 Cad) as (_ & Lad).
  unfold aht_check_fails. rewrite Eac, Tl. lia.
Qed.

Lemma recover_TInv nv s h d im upto s' :
  c_ahtsync (s_cfg s) = true -> Inv nv s h d -> VInv H s h d -> TInv s h -> crash s im ->
  recover_upto H upto (s_cfg s) im = Ok s' ->
  exists h' d', Inv nv s' h' d' /\ VInv H s' h' d' /\ TInv s' h'.
Proof.
  intros Fl I V T Cr E.
  destruct (recover_ok H H_len _ _ _ _ _ upto I V Cr)
    as [(_ & E2)|(Hgood & s2 & c' & rs & E2 & Hc1 & Hc2 & Ecm & Eack & I2 & Eph & Ecfg & Etx & Evl & Ecd & Ecf & Hc6 & Tcm & Ttx & Ltx & Hup & V2 & Haht)];
    [congruence|].
  assert (s2 = s') by congruence. subst s2.
  set (h' := firstn (N.to_nat c') h ++ rs) in *.
  exists h', (c' + N.of_nat (length rs)). split; [exact I2|]. split; [exact V2|].
  cbv zeta in Haht. destruct Haht as ((mi & Hmi & Eac) & a1 & Ea1 & IA0 & Erl).
  destruct T as [Ta Tc Tp Td].
  destruct Ta as (A1 & A2 & A3 & A4 & A5 & A6 & A7 & A8).
  pose proof (v_aht _ _ _ _ _ I) as ((Wd & HC & Hs & Hcn & H32 & H12) & Has).
  unfold aht_of in *. cbn [a_d a_c a_size a_latest a_cnt] in *.
  destruct Cr as (_ & Ccm & _ & Cad & Cac).
  destruct (crash_image_prefix _ _ _ A5 A3 Cad) as (Pad & Lad). rewrite A4 in Pad.
  pose proof (v_plen _ _ _ _ _ I) as Pl. pose proof (v_cd _ _ _ _ _ I) as Cd.
  pose proof (v_chain _ _ _ _ _ I) as Ch. pose proof (v_chain _ _ _ _ _ I2) as Ch'.
  pose proof (proj2 (v_cfg _ _ _ _ _ I)) as Ht.
  (* the recovered committed id does not exceed latestSyncedNode *)
  assert (Hcl: c' <= alatest s).
  { destruct Hc6 as [-> | (t & Ept)]; [exact Tc|]. rewrite Ept in Tp. destruct Tp as (P1 & P2). lia. }
  set (asz := len (i_ahc im) / 12) in *.
  assert (Lac: 12 * alatest s <= len (i_ahc im)) by (rewrite Eac, len_take; lia).
  assert (Hasz: c' <= asz) by (unfold asz; lia).
  set (a0 := mkAht (f_open (i_ahd im)) (open_trim (i_ahc im) 12) asz asz 0) in *.
  destruct (open_trim_spec H H_len (i_ahc im) 12 ltac:(lia)) as (O1 & O2 & O3 & O4 & O5 & O6 & O7).
  (* the reset lands on c' in both cases *)
  assert (F1: AInv (c_thld (s_cfg s)) a1 /\ a_size a1 = c' /\ a_latest a1 = c' /\ a_d a1 = f_open (i_ahd im) /\
              12 * c' <= len (durable (a_c a1)) /\
              (c_ahtreset (s_cfg s) = RSync -> pending (a_c a1) = [] /\ len (durable (a_c a1)) = 12 * c')).
  { destruct (N.ltb_spec c' asz) as [Hlt|Hge].
    - destruct (aht_reset_ok (c_ahtreset (s_cfg s)) _ a0 c' IA0 Hlt Ht)
        as (a1' & a' & Es & Er & IA' & Sz & La & Cn & Ed & _ & L12 & Et).
      assert (a' = a1) by congruence. subst a'.
      assert (a1' = a0).
      { unfold aht_sync in Es. unfold a0 in Es. cbn [a_cnt] in Es. change (0 =? 0) with true in Es.
        cbv iota in Es. unfold a0. congruence. }
      subst a1'. split; [exact IA'|]. split; [exact Sz|]. split; [exact La|]. split; [exact Ed|].
      split; [exact L12|exact Et].
    - assert (asz = c') by lia. assert (a1 = a0) by congruence. subst a1.
      split; [exact IA0|]. cbn [a0 a_size a_latest a_d a_c]. rewrite O1.
      split; [auto|]. split; [auto|]. split; [reflexivity|]. split; [lia|].
      intros Fr. destruct (Td Fr) as (Tp0 & Tl0).
      assert (Ei: i_ahc im = durable (ahc s)) by (apply crash_image_nopending; auto).
      assert (Hm0: len (i_ahc im) mod 12 = 0) by (rewrite Ei, Tl0; lia).
      rewrite (O6 Hm0). cbn [f_open pending]. split; [reflexivity|]. unfold asz in *. lia. }
  destruct F1 as (IA1 & Sz1 & La1 & Ed1 & Lc1 & Dk1).
  assert (Lc': (N.to_nat c' <= length h)%nat) by lia.
  assert (Lh': (N.to_nat c' <= length h')%nat) by (unfold h'; rewrite app_length, firstn_length_le by lia; lia).
  assert (Fh': firstn (N.to_nat c') h' = firstn (N.to_nat c') h).
  { unfold h'. rewrite firstn_app_le by (rewrite firstn_length_le by lia; lia). apply firstn_firstn_le. lia. }
  assert (Limg: 32 * c' <= len (i_ahd im)) by lia.
  assert (Timg: take (32 * c') (i_ahd im) = leaves (firstn (N.to_nat c') h')).
  { rewrite <- (take_take _ (32 * alatest s)) by lia. rewrite Pad.
    replace (32 * c') with (32 * N.of_nat (N.to_nat c')) by lia.
    rewrite Fh'. eapply leaves_prefix; eauto; lia. }
  assert (TA1: TA a1 h').
  { unfold TA. rewrite Sz1, La1, Ed1. cbn [f_open durable pending bufoff].
    rewrite lview_open. repeat split; auto; try lia; try constructor. }
  (* relink *)
  assert (Etd: durable (txl s') = i_txl im) by (rewrite Etx; reflexivity).
  assert (Epb: pbuf s' = map pb_of rs).
  { rewrite (v_pbuf _ _ _ _ _ I2), Ecm. unfold h'. rewrite skipn_app, firstn_length_le by lia.
    rewrite skipn_all2 by (rewrite firstn_length_le by lia; lia).
    replace (N.to_nat c' - N.to_nat c')%nat with 0%nat by lia. reflexivity. }
  assert (Ptx: pending (txl s') = [] /\ buf (txl s') = []) by (rewrite Etx; split; reflexivity).
  assert (RT := fun P1 P2 => relink_TA _ _ _ _ _ _ _ _ h' IA1 TA1 P1 P2 Erl).
  destruct RT as (T2 & Lt2 & _ & Dk2).
  - intros k r Hk En.
    pose proof (read_alh_spec nv s' h' _ k r I2 (proj1 Ptx) (proj2 Ptx) En ltac:(lia)) as Rs.
    rewrite Etd, Ecd, Ecm, Epb in Rs. split; [exact Rs|].
    assert (Hlt: (N.to_nat k - 1 < length h')%nat) by (apply nth_error_Some; congruence).
    destruct (chain_nth H H_len _ _ _ _ _ _ Ch' En) as (Rok & _). apply (rec_ok_alh_len H H_len); exact Rok.
  - rewrite Sz1. pose proof (v_plen _ _ _ _ _ I2) as Pl'. unfold precommitted in Pl'. rewrite Ecm, Epb, map_length in Pl'. lia.
  - constructor.
    + exact T2.
    + rewrite Ecm. rewrite La1 in Lt2. unfold aht_of in Lt2. cbn [a_latest] in Lt2. exact Lt2.
    + rewrite Eph. trivial.
    + rewrite Ecfg. intros Fr. unfold CD, aht_of in Dk2. cbn [a_c a_latest] in Dk2. apply Dk2.
      rewrite La1. auto.
Qed.

(* ---- every reachable state (code since b260503) ---- *)
Lemma reach_TInv c nv s :
  c_prealloc c = false -> 0 < c_thld c -> c_ahtsync c = true -> reach c nv s ->
  s_cfg s = c /\ exists h d, Inv nv s h d /\ VInv H s h d /\ TInv s h.
Proof.
  intros Hp Ht Fl R. induction R as [|s o s' R IH Rd E|s im upto s' R IH Cr E].
  - split; [reflexivity|]. exists [], 0. split; [apply Inv_init; auto|]. split; [apply VInv_init|apply TInv_init].
  - destruct IH as (Ec & h & d & I & V & T). split; [rewrite (step_cfg H _ _ _ E); exact Ec|].
    destruct (step_Inv H H_len _ _ _ _ _ _ I V E) as (h' & d' & I' & V' & Hh).
    exists h', d'. split; [exact I'|]. split; [exact V'|].
    eapply (TInv_step nv s h d o s' h' d'); eauto. rewrite Ec. exact Fl.
  - destruct IH as (Ec & h & d & I & V & T).
    rewrite <- Ec in E, Fl.
    destruct (recover_TInv _ _ _ _ _ _ _ Fl I V T Cr E) as (h' & d' & I' & V' & T').
    destruct (Progress.recover_core H _ _ _ _ E) as (_ & _ & _ & _ & _ & _ & _ & Ecf & _).
    split; [congruence|]. eauto.
Qed.

(* ================= since fix 0b488aa (c_ahtreset = RSync): recovery never fails ================= *)
Theorem aht_check_never_fails c nv s im :
  c_prealloc c = false -> 0 < c_thld c -> c_ahtsync c = true -> c_ahtreset c = RSync ->
  reach c nv s -> crash s im -> ~ aht_check_fails im.
Proof.
  intros Hp Ht Fl Fr R Cr.
  destruct (reach_TInv _ _ _ Hp Ht Fl R) as (Ec & h & d & I & _ & T).
  eapply TInv_check; eauto. rewrite Ec. exact Fr.
Qed.

Theorem crash_safety_repaired c nv s im :
  c_prealloc c = false -> 0 < c_thld c -> c_ahtsync c = true -> c_ahtreset c = RSync ->
  reach c nv s -> crash s im ->
  exists s', recover H c im = Ok s' /\ reach c nv s' /\ recovered_ok H s im s'.
Proof.
  intros Hp Ht Fl Fr R Cr.
  destruct (crash_safety H H_len c nv s im Hp Ht R Cr) as [(Bad & _)|(_ & Good)]; [|exact Good].
  exfalso. exact (aht_check_never_fails c nv s im Hp Ht Fl Fr R Cr Bad).
Qed.

Theorem crash_during_recovery_repaired c nv s im upto s1 im' :
  c_prealloc c = false -> 0 < c_thld c -> c_ahtsync c = true -> c_ahtreset c = RSync ->
  reach c nv s -> crash s im -> recover_upto H upto c im = Ok s1 -> crash s1 im' ->
  exists sf s2,
    recover H c im = Ok sf /\ recover H c im' = Ok s2 /\
    committed s2 = committed sf /\ calh s2 = calh sf /\ pbuf s2 = pbuf sf /\ palh s2 = palh sf /\
    pts s2 = pts sf /\ acked s2 = acked sf /\ txl s2 = txl sf /\ vls s2 = vls sf /\
    phase_ s2 = PIdle /\ phase_ sf = PIdle /\ asize s2 = precommitted s2 /\ asize sf = precommitted sf.
Proof.
  intros Hp Ht Fl Fr R Cr E1 Cr'.
  destruct (Progress.crash_during_recovery H H_len c nv s im upto s1 im' Hp Ht R Cr E1 Cr')
    as (_ & _ & _ & sf & Ef & Pf & Sf & [(Bad & _)|(_ & s2 & E2 & K)]).
  - exfalso. assert (R1: reach c nv s1) by (eapply r_crash; eauto).
    exact (aht_check_never_fails c nv s1 im' Hp Ht Fl Fr R1 Cr' Bad).
  - exists sf, s2. destruct K as (K1 & K2 & K3 & K4 & K5 & K6 & K7 & K8 & K9 & K10).
    repeat split; auto.
Qed.

Lemma leaves_slice pid pa off h n k r :
  chain pid pa off h -> (n <= length h)%nat -> (k < n)%nat -> nth_error h k = Some r ->
  slice (leaves (firstn n h)) (32 * N.of_nat k) 32 = t_alh r.
Proof.
  intros Hc Hn Hk En.
  destruct (chain_nth H H_len _ _ _ _ _ _ Hc En) as (Rok & _).
  pose proof (rec_ok_alh_len H H_len r Rok) as Lr.
  assert (Es: firstn n h = firstn k h ++ [r] ++ skipn (S k) (firstn n h)).
  { rewrite <- (firstn_skipn (S k) (firstn n h)) at 1. rewrite firstn_firstn_le by lia.
    rewrite (firstn_S_nth _ _ _ En). rewrite <- app_assoc. reflexivity. }
  rewrite Es, !leaves_app.
  rewrite <- (leaves_firstn_len pid pa off h k Hc ltac:(lia)).
  assert (El: leaves [r] = t_alh r) by (unfold leaves; cbn; apply app_nil_r).
  rewrite El. rewrite <- Lr at 1. apply (slice_app_mid H H_len).
Qed.

(* ================= the hash tree (code since b260503) ================= *)
Theorem tree_ok c nv s :
  c_prealloc c = false -> 0 < c_thld c -> c_ahtsync c = true -> reach c nv s ->
  forall k, 1 <= k <= asize s -> tree_leaf s k = tx_alh H s k /\ len (tree_leaf s k) = 32.
Proof.
  intros Hp Ht Fl R k Hk.
  destruct (reach_TInv _ _ _ Hp Ht Fl R) as (_ & h & d & I & _ & T).
  destruct T as [(A1 & A2 & A3 & A4 & A5 & A6 & A7 & A8) _ _ _].
  unfold aht_of in *. cbn [a_d a_c a_size a_latest] in *.
  pose proof (v_chain _ _ _ _ _ I) as Ch. pose proof (v_plen _ _ _ _ _ I) as Pl.
  pose proof (v_cd _ _ _ _ _ I) as Cd.
  assert (Hlt: (N.to_nat k - 1 < length h)%nat) by lia.
  destruct (nth_error h (N.to_nat k - 1)) as [r|] eqn:En; [|apply nth_error_None in En; lia].
  assert (Leaf: tree_leaf s k = t_alh r).
  { unfold tree_leaf.
    rewrite <- (slice_take _ _ (32 * asize s)) by lia. rewrite A7.
    replace (32 * (k - 1)) with (32 * N.of_nat (N.to_nat k - 1)) by lia.
    eapply leaves_slice; eauto; lia. }
  destruct (chain_nth H H_len _ _ _ _ _ _ Ch En) as (Rok & _).
  split; [|rewrite Leaf; apply (rec_ok_alh_len H H_len); exact Rok].
  rewrite Leaf. unfold tx_alh.
  destruct (N.leb_spec k (committed s)) as [Hc|Hc].
  - unfold alh_at. destruct (N.eqb_spec k 0); [lia|].
    destruct (Inv_acked_durable H H_len _ _ _ _ k I ltac:(lia)) as (r' & R1 & _ & _ & R4 & _).
    assert (r' = r) by congruence. subst r'. rewrite R4. reflexivity.
  - rewrite (v_pbuf _ _ _ _ _ I), nth_error_map.
    assert (E2: nth_error (skipn (N.to_nat (committed s)) h) (N.to_nat (k - committed s - 1)) = Some r).
    { rewrite <- En.
      assert (Ei: (N.to_nat k - 1 = N.to_nat (committed s) + N.to_nat (k - committed s - 1))%nat) by lia.
      rewrite Ei. clear. generalize (N.to_nat (committed s)) as a, (N.to_nat (k - committed s - 1)) as b.
      intros a b. revert h. induction a as [|a IH]; intros h; [reflexivity|].
      destruct h; [destruct b; reflexivity|]. apply IH. }
    rewrite E2. reflexivity.
Qed.

End TP.
