(* C03 — durability-aware model of ONE log file behind an appendable (singleapp/multiapp):

     durable : the content as of the last fsync            (survives any crash)
     pending : writes AND TRUNCATIONS handed to the OS since then, in order (each may or may not survive)
     buf     : bytes still in the user-space write buffer   (lost at any crash)
     bufoff  : file offset at which the buffered bytes will be written

   A rewind (SetOffset below the flushed file offset) TRUNCATES the file there (singleapp.SetOffset
   since fix 09014a8; multiapp also removes the chunk files behind the offset and fsyncs the
   directory); the truncation is not fsynced by itself, so at a crash it is undetermined until the
   next fsync of the file: a crash image may have it applied completely, at any larger offset (the
   later chunk files are gone, the tail of the chunk is not) or not at all — an over-approximation
   that contains the durable removal of whole chunks.  Preallocated files keep their size (no truncation).
   A reopen takes the size from the file.  This file contains definitions only. *)
From V Require Export Base.Bytes.

(* what is handed to the OS: pwrite(off, data) or ftruncate(n) *)
Inductive pw := PW (off : N) (d : bytes) | PT (n : N).
Definition pw_off (w : pw) : N := match w with PW o _ => o | PT n => n end.
Definition pw_data (w : pw) : bytes := match w with PW _ d => d | PT _ => [] end.

Record file := mkFile {
  durable : bytes;
  pending : list pw;
  bufoff : N;
  buf : bytes }.

(* pwrite(off, d) on content c.  Offsets never exceed the size in the protocols modelled here
   (an invariant proved in StorageProofs/ProtocolProofs), so no hole filling is needed. *)
Definition wr (c : bytes) (off : N) (d : bytes) : bytes :=
  take off c ++ d ++ drop (off + len d) c.

Definition apply1 (c : bytes) (w : pw) : bytes :=
  match w with PW o d => wr c o d | PT n => take n c end.
Definition apply_writes (c : bytes) (ws : list pw) : bytes := fold_left apply1 ws c.

(* what the operating system would return for the whole file *)
Definition os_view (f : file) : bytes := apply_writes (durable f) (pending f).
(* what the process sees: the OS content overlaid with its own write buffer *)
Definition lview (f : file) : bytes := wr (os_view f) (bufoff f) (buf f).

Definition f_offset (f : file) : N := bufoff f + len (buf f).

(* Append: into the write buffer; returns the offset *)
Definition f_append (f : file) (d : bytes) : file :=
  mkFile (durable f) (pending f) (bufoff f) (buf f ++ d).

(* SetOffset: above the current offset is an error; at or above the flushed file offset it only
   shortens the buffer; below it the buffer is discarded, the file position moves back and — unless
   the file is preallocated (keep = true) — the file is truncated there *)
Definition f_setoffset_gen (keep : bool) (f : file) (o : N) : option file :=
  if f_offset f <? o then None
  else if bufoff f <=? o then Some (mkFile (durable f) (pending f) (bufoff f) (take (o - bufoff f) (buf f)))
  else Some (mkFile (durable f) (if keep then pending f else pending f ++ [PT o]) o []).
Definition f_setoffset (f : file) (o : N) : option file := f_setoffset_gen false f o.

(* the first n buffered bytes are handed to the OS (explicit Flush = all of them; a full write
   buffer flushes whatever it holds, possibly in the middle of a record) *)
Definition f_flushn (f : file) (n : N) : file :=
  match take n (buf f) with
  | [] => f
  | d => mkFile (durable f) (pending f ++ [PW (bufoff f) d]) (bufoff f + len d) (drop n (buf f))
  end.
Definition f_flush (f : file) : file := f_flushn f (len (buf f)).

(* Sync = Flush + fsync: everything handed to the OS becomes durable *)
Definition f_sync (f : file) : file :=
  let g := f_flush f in mkFile (os_view g) [] (bufoff g) [].

(* a crash image: the durable content after the first k pending operations and the first t bytes of
   the next write (torn write).  A truncation among them (a rewind below the flushed size: Truncate
   in singleapp, chunk files removed + directory fsynced and then Truncate in multiapp, not fsynced
   by SetOffset itself) may have reached the disk completely, partly (the chunk files are gone, the
   bytes behind the new offset in its chunk are still there) or not at all: `PT n` may take effect at
   any m >= n.  In every reachable state of the protocol a truncation is the FIRST pending operation
   of its file (rewinds below the flushed size only follow an open). *)
Definition prefix_torn (ws : list pw) (k : nat) (t : N) : list pw :=
  firstn k ws ++ match nth_error ws k with Some (PW o d) => [PW o (take t d)] | _ => [] end.
Inductive sub_trunc : list pw -> list pw -> Prop :=
| st_nil : sub_trunc [] []
| st_w : forall o d a b, sub_trunc a b -> sub_trunc (PW o d :: a) (PW o d :: b)
| st_t : forall n m a b, n <= m -> sub_trunc a b -> sub_trunc (PT n :: a) (PT m :: b).
Definition crash_image (f : file) (img : bytes) : Prop :=
  exists k t ws, sub_trunc (prefix_torn (pending f) k t) ws /\ img = apply_writes (durable f) ws.

(* reopen after a crash (or a clean restart): size and position come from the file *)
Definition f_open (img : bytes) : file := mkFile img [] (len img) [].
Definition f_empty : file := f_open [].

Definition slice (c : bytes) (o n : N) : bytes := take n (drop o c).

(* writes at consecutive offsets starting at o *)
Fixpoint stream_from (o : N) (ws : list pw) : Prop :=
  match ws with
  | [] => True
  | PW o' d :: r => o' = o /\ stream_from (o + len d) r
  | PT _ :: _ => False
  end.
Definition concat_w (ws : list pw) : bytes := concat (map pw_data ws).
(* pending operations followed by the buffered bytes, as one list *)
Definition tailw (o : N) (b : bytes) : list pw := match b with [] => [] | _ :: _ => [PW o b] end.
Definition fstream (f : file) : list pw := pending f ++ tailw (bufoff f) (buf f).
