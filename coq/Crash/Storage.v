(* C03 — durability-aware model of ONE log file behind an appendable (singleapp/multiapp):

     durable : the content as of the last fsync            (survives any crash)
     pending : writes handed to the OS since then, in order (each may or may not survive)
     buf     : bytes still in the user-space write buffer   (lost at any crash)
     bufoff  : file offset at which the buffered bytes will be written

   A rewind (SetOffset below the file offset) moves `bufoff` back and NEVER truncates: stale bytes
   beyond the rewound offset stay in `durable`/`pending` exactly as they are on disk, and a reopen
   takes the size from the file.  This file contains definitions only. *)
From V Require Export Base.Bytes.

Record file := mkFile {
  durable : bytes;
  pending : list (N * bytes);
  bufoff : N;
  buf : bytes }.

(* pwrite(off, d) on content c.  Offsets never exceed the size in the protocols modelled here
   (an invariant proved in StorageProofs/ProtocolProofs), so no hole filling is needed. *)
Definition wr (c : bytes) (off : N) (d : bytes) : bytes :=
  take off c ++ d ++ drop (off + len d) c.

Definition apply_writes (c : bytes) (ws : list (N * bytes)) : bytes :=
  fold_left (fun c w => wr c (fst w) (snd w)) ws c.

(* what the operating system would return for the whole file *)
Definition os_view (f : file) : bytes := apply_writes (durable f) (pending f).
(* what the process sees: the OS content overlaid with its own write buffer *)
Definition lview (f : file) : bytes := wr (os_view f) (bufoff f) (buf f).

Definition f_offset (f : file) : N := bufoff f + len (buf f).

(* Append: into the write buffer; returns the offset *)
Definition f_append (f : file) (d : bytes) : file :=
  mkFile (durable f) (pending f) (bufoff f) (buf f ++ d).

(* SetOffset: above the current offset is an error; at or above the file offset it only shortens
   the buffer; below the file offset it discards the buffer and moves the file position back
   (singleapp.SetOffset; the file is not truncated) *)
Definition f_setoffset (f : file) (o : N) : option file :=
  if f_offset f <? o then None
  else if bufoff f <=? o then Some (mkFile (durable f) (pending f) (bufoff f) (take (o - bufoff f) (buf f)))
  else Some (mkFile (durable f) (pending f) o []).

(* the first n buffered bytes are handed to the OS (explicit Flush = all of them; a full write
   buffer flushes whatever it holds, possibly in the middle of a record) *)
Definition f_flushn (f : file) (n : N) : file :=
  match take n (buf f) with
  | [] => f
  | d => mkFile (durable f) (pending f ++ [(bufoff f, d)]) (bufoff f + len d) (drop n (buf f))
  end.
Definition f_flush (f : file) : file := f_flushn f (len (buf f)).

(* Sync = Flush + fsync: everything handed to the OS becomes durable *)
Definition f_sync (f : file) : file :=
  let g := f_flush f in mkFile (os_view g) [] (bufoff g) [].

(* a crash image: the durable content overwritten by the first k pending writes and by the first t
   bytes of the next one (torn write) *)
Definition image_of (f : file) (k : nat) (t : N) : bytes :=
  apply_writes (durable f)
    (firstn k (pending f) ++
     match nth_error (pending f) k with Some w => [(fst w, take t (snd w))] | None => [] end).
Definition crash_image (f : file) (img : bytes) : Prop := exists k t, img = image_of f k t.

(* reopen after a crash (or a clean restart): size and position come from the file *)
Definition f_open (img : bytes) : file := mkFile img [] (len img) [].
Definition f_empty : file := f_open [].

Definition slice (c : bytes) (o n : N) : bytes := take n (drop o c).

(* writes at consecutive offsets starting at o *)
Fixpoint stream_from (o : N) (ws : list (N * bytes)) : Prop :=
  match ws with
  | [] => True
  | w :: r => fst w = o /\ stream_from (o + len (snd w)) r
  end.
Definition concat_w (ws : list (N * bytes)) : bytes := concat (map snd ws).
(* pending writes followed by the buffered bytes, as one list of writes *)
Definition tailw (o : N) (b : bytes) : list (N * bytes) := match b with [] => [] | _ :: _ => [(o, b)] end.
Definition fstream (f : file) : list (N * bytes) := pending f ++ tailw (bufoff f) (buf f).
