(* C03 — lemmas about the file model of Crash/Storage.v *)
From V Require Import Crash.Storage.
From Coq Require Import ZifyN ZifyNat ZifyBool Lia.

Ltac nat_ify := unfold take, drop, len, slice in *.

Lemma take_drop_id n (l : bytes) : take n l ++ drop n l = l.
Proof. nat_ify. apply firstn_skipn. Qed.

Lemma take_take n m (l : bytes) : n <= m -> take n (take m l) = take n l.
Proof. intros Hle. nat_ify. rewrite firstn_firstn. f_equal. lia. Qed.

Lemma take_app_le n (a b : bytes) : n <= len a -> take n (a ++ b) = take n a.
Proof.
  intros Hle. nat_ify. rewrite firstn_app.
  replace (N.to_nat n - length a)%nat with 0%nat by lia. simpl. apply app_nil_r.
Qed.

Lemma take_app_ge n (a b : bytes) : len a <= n -> take n (a ++ b) = a ++ take (n - len a) b.
Proof.
  intros Hle. nat_ify. rewrite firstn_app. rewrite firstn_all2 by lia. f_equal. f_equal. lia.
Qed.

Lemma drop_app_le n (a b : bytes) : n <= len a -> drop n (a ++ b) = drop n a ++ b.
Proof.
  intros Hle. nat_ify. rewrite skipn_app.
  replace (N.to_nat n - length a)%nat with 0%nat by lia. reflexivity.
Qed.

Lemma drop_app_ge n (a b : bytes) : len a <= n -> drop n (a ++ b) = drop (n - len a) b.
Proof.
  intros Hle. nat_ify. rewrite skipn_app. rewrite skipn_all2 by lia. simpl. f_equal. lia.
Qed.

Lemma take_ge n (l : bytes) : len l <= n -> take n l = l.
Proof. intros. nat_ify. apply firstn_all2. lia. Qed.

Lemma drop_ge n (l : bytes) : len l <= n -> drop n l = [].
Proof. intros. nat_ify. apply skipn_all2. lia. Qed.

Lemma skipn_skipn' {A} (a b : nat) (l : list A) : skipn a (skipn b l) = skipn (b + a) l.
Proof.
  revert l; induction b as [|b IH]; intros l; simpl; auto.
  destruct l; simpl; auto. destruct a; reflexivity.
Qed.

Lemma drop_drop n m (l : bytes) : drop n (drop m l) = drop (m + n) l.
Proof. nat_ify. rewrite skipn_skipn'. f_equal. lia. Qed.

Lemma take_0 (l : bytes) : take 0 l = [].
Proof. reflexivity. Qed.

Lemma len_nil : len [] = 0. Proof. reflexivity. Qed.

Lemma len_0_nil (l : bytes) : len l = 0 -> l = [].
Proof. destruct l; auto. unfold len; simpl; lia. Qed.

Lemma take_drop_comm n m (l : bytes) : take n (drop m l) = drop m (take (m + n) l).
Proof.
  nat_ify. replace (N.to_nat (m + n)) with (N.to_nat m + N.to_nat n)%nat by lia.
  revert l. generalize (N.to_nat m) as a, (N.to_nat n) as b. clear.
  induction a as [|a IH]; intros b l; simpl; auto.
  destruct l; simpl; auto. destruct b; reflexivity.
Qed.

Lemma slice_take o n F (c : bytes) : o + n <= F -> slice (take F c) o n = slice c o n.
Proof.
  intros Hle. unfold slice. rewrite !take_drop_comm. rewrite take_take by lia. reflexivity.
Qed.

Lemma slice_eq_of_take o n F (a b : bytes) : o + n <= F -> take F a = take F b -> slice a o n = slice b o n.
Proof. intros Hle E. rewrite <- (slice_take o n F a), <- (slice_take o n F b) by lia. rewrite E. reflexivity. Qed.

Lemma len_slice o n (c : bytes) : o + n <= len c -> len (slice c o n) = n.
Proof. intros. unfold slice. rewrite len_take, len_drop. lia. Qed.

(* ---- wr ---- *)
Lemma len_wr c off d : off <= len c -> len (wr c off d) = N.max (len c) (off + len d).
Proof. intros. unfold wr. rewrite !len_app, len_take, len_drop. lia. Qed.

Lemma len_wr_ge c off d : len c <= len (wr c off d) \/ len (wr c off d) = len c + len d /\ len c < off.
Proof.
  destruct (N.le_gt_cases off (len c)).
  - left. rewrite len_wr by auto. lia.
  - right. split; auto. unfold wr. rewrite !len_app, len_take, len_drop. lia.
Qed.

Lemma take_wr_below F c off d : F <= off -> F <= len c -> take F (wr c off d) = take F c.
Proof.
  intros H1 H2. unfold wr. rewrite take_app_le by (rewrite len_take; lia). apply take_take. lia.
Qed.

Lemma wr_nil c off : wr c off [] = c.
Proof. unfold wr. simpl. rewrite N.add_0_r. apply take_drop_id. Qed.

Lemma slice_wr_at c off d : off <= len c -> slice (wr c off d) off (len d) = d.
Proof.
  intros. unfold slice, wr. rewrite drop_app_ge by (rewrite len_take; lia).
  rewrite len_take. replace (off - N.min off (len c)) with 0 by lia. rewrite drop_0.
  rewrite take_app_le by lia. apply take_all.
Qed.

Lemma take_wr_through c off d : off <= len c -> take (off + len d) (wr c off d) = take off c ++ d.
Proof.
  intros. unfold wr. rewrite take_app_ge by (rewrite len_take; lia). f_equal.
  rewrite len_take. replace (off + len d - N.min off (len c)) with (len d) by lia.
  rewrite take_app_le by lia. apply take_all.
Qed.

(* a write of the same bytes extended: wr c o (a ++ b) = wr (wr c o a) (o + len a) b *)
Lemma wr_app c o a b : o <= len c -> wr (wr c o a) (o + len a) b = wr c o (a ++ b).
Proof.
  intros Ho. unfold wr at 1.
  rewrite take_wr_through by auto.
  assert (E: drop (o + len a + len b) (wr c o a) = drop (o + len (a ++ b)) c).
  { unfold wr. rewrite drop_app_ge by (rewrite len_take; lia). rewrite len_take.
    rewrite drop_app_ge by lia. rewrite drop_drop. f_equal. rewrite len_app. lia. }
  rewrite E. unfold wr. rewrite <- !app_assoc. reflexivity.
Qed.

(* ---- apply_writes ---- *)
Lemma apply_writes_app c a b : apply_writes c (a ++ b) = apply_writes (apply_writes c a) b.
Proof. unfold apply_writes. apply fold_left_app. Qed.

Definition offs_ge (F : N) (ws : list (N * bytes)) : Prop := Forall (fun w => F <= fst w) ws.

Lemma apply_writes_len c ws : len c <= len (apply_writes c ws).
Proof.
  revert c; induction ws as [|w ws IH]; intros c; simpl; [lia|].
  specialize (IH (wr c (fst w) (snd w))).
  destruct (len_wr_ge c (fst w) (snd w)) as [Hl|[Hl _]]; lia.
Qed.

Lemma apply_writes_prefix F c ws :
  offs_ge F ws -> F <= len c -> take F (apply_writes c ws) = take F c.
Proof.
  revert c; induction ws as [|w ws IH]; intros c Hf Hc; simpl; auto.
  inversion Hf; subst. rewrite IH; auto.
  - apply take_wr_below; auto.
  - destruct (len_wr_ge c (fst w) (snd w)) as [Hl|[Hl _]]; lia.
Qed.

Lemma offs_ge_firstn F k ws : offs_ge F ws -> offs_ge F (firstn k ws).
Proof.
  unfold offs_ge. revert k; induction ws as [|w ws IH]; intros [|k] Hf; simpl; auto.
  inversion Hf; subst. constructor; auto.
Qed.

Lemma offs_ge_app F a b : offs_ge F a -> offs_ge F b -> offs_ge F (a ++ b).
Proof. unfold offs_ge. intros. apply Forall_app; auto. Qed.

Lemma offs_ge_weaken F G ws : G <= F -> offs_ge F ws -> offs_ge G ws.
Proof. unfold offs_ge. intros Hle Hf. eapply Forall_impl; [|exact Hf]. simpl. intros; lia. Qed.

(* ---- crash images ---- *)
Lemma image_writes_ge F f k t :
  offs_ge F (pending f) ->
  offs_ge F (firstn k (pending f) ++
             match nth_error (pending f) k with Some w => [(fst w, take t (snd w))] | None => [] end).
Proof.
  intros Hf. apply offs_ge_app. apply offs_ge_firstn; auto.
  destruct (nth_error (pending f) k) as [w|] eqn:E; [|constructor].
  constructor; [|constructor]. simpl.
  unfold offs_ge in Hf. rewrite Forall_forall in Hf. apply Hf. eapply nth_error_In; eauto.
Qed.

Lemma crash_image_prefix F f img :
  offs_ge F (pending f) -> F <= len (durable f) -> crash_image f img ->
  take F img = take F (durable f) /\ len (durable f) <= len img.
Proof.
  intros Hf Hc [k [t ->]]. unfold image_of. split.
  - apply apply_writes_prefix; auto. apply image_writes_ge; auto.
  - apply apply_writes_len.
Qed.

Lemma crash_image_nopending f img : pending f = [] -> crash_image f img -> img = durable f.
Proof.
  intros E [k [t ->]]. unfold image_of. rewrite E. destruct k; reflexivity.
Qed.

Lemma crash_image_durable f : crash_image f (durable f).
Proof.
  exists 0%nat, 0. unfold image_of. simpl.
  destruct (pending f) as [|w r]; simpl; auto. rewrite wr_nil. reflexivity.
Qed.

Lemma crash_image_os f : crash_image f (os_view f).
Proof.
  exists (length (pending f)), 0. unfold image_of, os_view.
  rewrite firstn_all.
  assert (E: nth_error (pending f) (length (pending f)) = None) by (apply nth_error_None; lia).
  rewrite E, app_nil_r. reflexivity.
Qed.

(* ---- file operations and the views ---- *)
Definition wf (f : file) : Prop := bufoff f <= len (os_view f).

Lemma os_view_flushn f n :
  os_view (f_flushn f n) = wr (os_view f) (bufoff f) (take n (buf f)).
Proof.
  unfold f_flushn. destruct (take n (buf f)) as [|x d] eqn:E.
  - rewrite wr_nil. reflexivity.
  - unfold os_view. simpl. rewrite apply_writes_app. reflexivity.
Qed.

Lemma bufoff_flushn f n : bufoff (f_flushn f n) = bufoff f + len (take n (buf f)).
Proof.
  unfold f_flushn. destruct (take n (buf f)) as [|x d] eqn:E; simpl; [rewrite len_nil; lia|reflexivity].
Qed.

Lemma buf_flushn f n : buf (f_flushn f n) = drop n (buf f).
Proof.
  unfold f_flushn. destruct (take n (buf f)) as [|x d] eqn:E; simpl; auto.
  (* take n buf = [] : either n = 0 or buf = [] *)
  destruct (buf f) as [|y b] eqn:Eb; [nat_ify; rewrite skipn_nil; reflexivity|].
  nat_ify. destruct (N.to_nat n); simpl in *; [reflexivity|discriminate].
Qed.

Lemma durable_flushn f n : durable (f_flushn f n) = durable f.
Proof. unfold f_flushn. destruct (take n (buf f)); reflexivity. Qed.

Lemma lview_flushn f n : wf f -> lview (f_flushn f n) = lview f.
Proof.
  intros Hw. unfold lview. rewrite os_view_flushn, bufoff_flushn, buf_flushn.
  rewrite wr_app by exact Hw. rewrite take_drop_id. reflexivity.
Qed.

Lemma wf_flushn f n : wf f -> wf (f_flushn f n).
Proof.
  intros Hw. unfold wf in *. rewrite os_view_flushn, bufoff_flushn, len_wr by exact Hw. lia.
Qed.

Lemma f_offset_flushn f n : f_offset (f_flushn f n) = f_offset f.
Proof.
  unfold f_offset. rewrite bufoff_flushn, buf_flushn, len_take, len_drop. lia.
Qed.

Lemma pending_flushn_ge F f n : offs_ge F (pending f) -> F <= bufoff f -> offs_ge F (pending (f_flushn f n)).
Proof.
  intros Hp Hb. unfold f_flushn. destruct (take n (buf f)); simpl; auto.
  apply offs_ge_app; auto. constructor; [simpl; lia|constructor].
Qed.

Lemma f_sync_spec f : wf f ->
  durable (f_sync f) = lview f /\ pending (f_sync f) = [] /\ buf (f_sync f) = [] /\
  bufoff (f_sync f) = f_offset f.
Proof.
  intros Hw. unfold f_sync, f_flush. simpl. repeat split.
  - rewrite os_view_flushn. rewrite take_all. reflexivity.
  - rewrite bufoff_flushn, take_all. reflexivity.
Qed.

Lemma os_view_sync f : wf f -> os_view (f_sync f) = lview f.
Proof. intros Hw. unfold os_view. destruct (f_sync_spec f Hw) as (-> & -> & _). reflexivity. Qed.

Lemma lview_sync f : wf f -> lview (f_sync f) = lview f.
Proof.
  intros Hw. unfold lview at 1. rewrite os_view_sync by auto.
  destruct (f_sync_spec f Hw) as (_ & _ & -> & _). apply wr_nil.
Qed.

Lemma len_lview f : wf f -> len (lview f) = N.max (len (os_view f)) (f_offset f).
Proof. intros Hw. unfold lview. rewrite len_wr by exact Hw. reflexivity. Qed.

Lemma wf_sync f : wf f -> wf (f_sync f).
Proof.
  intros Hw. unfold wf. rewrite os_view_sync by auto. destruct (f_sync_spec f Hw) as (_ & _ & _ & ->).
  rewrite len_lview by auto. lia.
Qed.

Lemma wf_open b : wf (f_open b).
Proof. unfold wf, f_open, os_view. simpl. lia. Qed.

Lemma lview_open b : lview (f_open b) = b.
Proof. unfold lview, f_open, os_view. simpl. apply wr_nil. Qed.

(* append *)
Lemma os_view_append f d : os_view (f_append f d) = os_view f.
Proof. reflexivity. Qed.

Lemma wf_append f d : wf f -> wf (f_append f d).
Proof. auto. Qed.

Lemma lview_append f d : wf f -> lview (f_append f d) = wr (lview f) (f_offset f) d.
Proof.
  intros Hw. unfold lview, f_append, f_offset. simpl. rewrite <- wr_app by exact Hw. reflexivity.
Qed.

Lemma take_lview_append f d : wf f ->
  take (f_offset f + len d) (lview (f_append f d)) = take (f_offset f) (lview f) ++ d.
Proof.
  intros Hw. rewrite lview_append by auto. apply take_wr_through.
  rewrite len_lview by auto. lia.
Qed.

(* setoffset *)
Lemma f_setoffset_spec f o g : wf f -> f_setoffset f o = Some g ->
  o <= f_offset f /\ wf g /\ f_offset g = o /\ durable g = durable f /\ pending g = pending f /\
  (o <= len (lview f) -> take o (lview g) = take o (lview f)) /\
  (bufoff f <= o -> bufoff g = bufoff f) /\ (o < bufoff f -> bufoff g = o) /\
  len (os_view f) <= len (lview g) /\ (buf f = [] -> buf g = []).
Proof.
  intros Hw. unfold f_setoffset.
  destruct (N.ltb_spec (f_offset f) o); [discriminate|].
  destruct (N.leb_spec (bufoff f) o) as [Hbo|Hbo]; intros E; injection E as <-.
  - unfold f_offset in *. split; [lia|]. split; [exact Hw|]. simpl. rewrite len_take.
    split; [lia|]. split; [reflexivity|]. split; [reflexivity|]. split; [|split; [auto|split; [lia|]]].
    + intros _. unfold lview, os_view. simpl. fold (os_view f).
      (* take o (wr os b (take (o-b) buf)) = take o (wr os b buf) *)
      rewrite <- (take_drop_id (o - bufoff f) (buf f)) at 2.
      rewrite <- wr_app by exact Hw.
      symmetry. rewrite take_wr_below; auto.
      * rewrite len_take. lia.
      * rewrite len_wr by exact Hw. rewrite len_take. lia.
    + split. unfold lview, os_view. simpl. fold (os_view f). rewrite len_wr by exact Hw. lia.
      intros ->. unfold take. apply firstn_nil.
  - split; [lia|]. unfold wf in *. unfold os_view in *. simpl. split; [lia|].
    unfold f_offset. simpl. rewrite len_nil. split; [lia|]. split; [reflexivity|]. split; [reflexivity|].
    split; [|split; [lia|split; [auto|]]].
    + intros _. unfold lview, os_view. simpl. rewrite wr_nil. symmetry. apply take_wr_below; lia.
    + split; [|reflexivity]. unfold lview, os_view. simpl. rewrite wr_nil. lia.
Qed.

(* ---- streams of consecutive writes ---- *)
Lemma stream_app o a b : stream_from o (a ++ b) <-> stream_from o a /\ stream_from (o + len (concat_w a)) b.
Proof.
  revert o; induction a as [|w a IH]; intros o; simpl.
  - unfold concat_w; simpl. rewrite len_nil, N.add_0_r. tauto.
  - rewrite IH. unfold concat_w; simpl. rewrite len_app.
    replace (o + len (snd w) + len (concat (map snd a))) with (o + (len (snd w) + len (concat (map snd a)))) by lia.
    tauto.
Qed.

Lemma concat_w_app a b : concat_w (a ++ b) = concat_w a ++ concat_w b.
Proof. unfold concat_w. rewrite map_app, concat_app. reflexivity. Qed.

Lemma apply_stream c o ws : stream_from o ws -> o <= len c ->
  apply_writes c ws = wr c o (concat_w ws).
Proof.
  revert c o; induction ws as [|w ws IH]; intros c o Hs Ho; simpl.
  - unfold concat_w; simpl. rewrite wr_nil. reflexivity.
  - destruct Hs as [E Hs]. rewrite E. rewrite (IH _ _ Hs).
    + unfold concat_w; simpl. apply wr_app; auto.
    + rewrite len_wr by auto. lia.
Qed.

Lemma stream_firstn o k ws : stream_from o ws -> stream_from o (firstn k ws).
Proof.
  revert o k; induction ws as [|w ws IH]; intros o [|k] Hs; simpl; auto.
  destruct Hs; split; auto.
Qed.

(* the image of a file whose pending writes are consecutive from o: a byte prefix of the stream *)
Lemma crash_image_stream f o img :
  stream_from o (pending f) -> o <= len (durable f) -> crash_image f img ->
  exists j, j <= len (concat_w (pending f)) /\ img = wr (durable f) o (take j (concat_w (pending f))).
Proof.
  intros Hs Ho [k [t ->]]. unfold image_of.
  set (ws := pending f) in *.
  assert (Hsplit: ws = firstn k ws ++ skipn k ws) by (symmetry; apply firstn_skipn).
  destruct (nth_error ws k) as [w|] eqn:E.
  - (* torn write k *)
    assert (Hk: skipn k ws = w :: skipn (S k) ws).
    { clear -E. revert k E; induction ws as [|x ws IH]; intros [|k] E; simpl in *; try discriminate.
      - injection E as ->. reflexivity.
      - apply IH; auto. }
    rewrite Hsplit in Hs. apply stream_app in Hs as [Hs1 Hs2]. rewrite Hk in Hs2. simpl in Hs2.
    destruct Hs2 as [Hw _].
    exists (len (concat_w (firstn k ws)) + N.min t (len (snd w))). split.
    + rewrite Hsplit at 2. rewrite concat_w_app, Hk. unfold concat_w at 3; simpl. rewrite !len_app. lia.
    + rewrite (apply_stream _ o).
      * f_equal. rewrite concat_w_app. unfold concat_w at 2; simpl. rewrite app_nil_r.
        rewrite Hsplit at 3. rewrite concat_w_app, Hk. unfold concat_w at 4; simpl.
        rewrite take_app_ge by lia.
        replace (len (concat_w (firstn k ws)) + N.min t (len (snd w)) - len (concat_w (firstn k ws)))
          with (N.min t (len (snd w))) by lia.
        f_equal. rewrite take_app_le by lia.
        destruct (N.le_gt_cases t (len (snd w))).
        -- replace (N.min t (len (snd w))) with t by lia. reflexivity.
        -- replace (N.min t (len (snd w))) with (len (snd w)) by lia. rewrite take_all. apply take_ge. lia.
      * apply stream_app. split; auto. simpl. split; auto.
      * exact Ho.
  - apply nth_error_None in E. rewrite app_nil_r. rewrite firstn_all2 by exact E.
    exists (len (concat_w ws)). split; [lia|]. rewrite take_all. apply apply_stream; auto.
Qed.

Lemma concat_w_tail o (b : bytes) : concat_w (tailw o b) = b.
Proof. destruct b; unfold concat_w; simpl; auto. rewrite app_nil_r. reflexivity. Qed.

Lemma fstream_flushn f n : concat_w (fstream (f_flushn f n)) = concat_w (fstream f).
Proof.
  unfold fstream, f_flushn. destruct (take n (buf f)) as [|x d] eqn:E; [reflexivity|].
  cbn [pending buf bufoff]. rewrite !concat_w_app, !concat_w_tail.
  unfold concat_w at 2; simpl. rewrite app_nil_r. rewrite <- app_assoc. f_equal.
  rewrite <- E. apply take_drop_id.
Qed.

Lemma stream_tail o o' (b : bytes) : (b <> [] -> o' = o) -> stream_from o (tailw o' b).
Proof. destruct b; simpl; auto. intros Hh. split; auto. apply Hh. discriminate. Qed.

Lemma fstream_stream_flushn o f n : stream_from o (fstream f) -> stream_from o (fstream (f_flushn f n)).
Proof.
  unfold fstream, f_flushn. intros Hs. destruct (take n (buf f)) as [|x d] eqn:E; [exact Hs|].
  cbn [pending buf bufoff].
  assert (Hb: buf f = (x :: d) ++ drop n (buf f)) by (rewrite <- E; symmetry; apply take_drop_id).
  apply stream_app in Hs as [Hs1 Hs2]. rewrite Hb in Hs2. simpl in Hs2. destruct Hs2 as [Ho _].
  rewrite <- app_assoc. apply stream_app. split; auto. simpl. split; auto.
  apply stream_tail. intros _. lia.
Qed.
