(* C03 — lemmas about the file model of Crash/Storage.v *)
From V Require Import Crash.Storage.
From Coq Require Import ZifyN ZifyNat ZifyBool Lia.

Ltac nat_ify := unfold take, drop, len, slice in *.

Lemma take_drop_id n (l : bytes) : take n l ++ drop n l = l.
Proof. nat_ify. apply firstn_skipn. Qed.

Lemma take_take n m (l : bytes) : n <= m -> take n (take m l) = take n l.
Proof. intros Hle. nat_ify. rewrite firstn_firstn. f_equal. lia. Qed.

Lemma take_app_le n (a b : bytes) : n <= len a -> take n (a ++ b) = take n a.
Proof.
  intros Hle. nat_ify. rewrite firstn_app.
  replace (N.to_nat n - length a)%nat with 0%nat by lia. simpl. apply app_nil_r.
Qed.

Lemma take_app_ge n (a b : bytes) : len a <= n -> take n (a ++ b) = a ++ take (n - len a) b.
Proof.
  intros Hle. nat_ify. rewrite firstn_app. rewrite firstn_all2 by lia. f_equal. f_equal. lia.
Qed.

Lemma drop_app_le n (a b : bytes) : n <= len a -> drop n (a ++ b) = drop n a ++ b.
Proof.
  intros Hle. nat_ify. rewrite skipn_app.
  replace (N.to_nat n - length a)%nat with 0%nat by lia. reflexivity.
Qed.

Lemma drop_app_ge n (a b : bytes) : len a <= n -> drop n (a ++ b) = drop (n - len a) b.
Proof.
  intros Hle. nat_ify. rewrite skipn_app. rewrite skipn_all2 by lia. simpl. f_equal. lia.
Qed.

Lemma take_ge n (l : bytes) : len l <= n -> take n l = l.
Proof. intros. nat_ify. apply firstn_all2. lia. Qed.

Lemma drop_ge n (l : bytes) : len l <= n -> drop n l = [].
Proof. intros. nat_ify. apply skipn_all2. lia. Qed.

Lemma skipn_skipn' {A} (a b : nat) (l : list A) : skipn a (skipn b l) = skipn (b + a) l.
Proof.
  revert l; induction b as [|b IH]; intros l; simpl; auto.
  destruct l; simpl; auto. destruct a; reflexivity.
Qed.

Lemma drop_drop n m (l : bytes) : drop n (drop m l) = drop (m + n) l.
Proof. nat_ify. rewrite skipn_skipn'. f_equal. lia. Qed.

Lemma take_0 (l : bytes) : take 0 l = [].
Proof. reflexivity. Qed.

Lemma len_nil : len [] = 0. Proof. reflexivity. Qed.

Lemma len_0_nil (l : bytes) : len l = 0 -> l = [].
Proof. destruct l; auto. unfold len; simpl; lia. Qed.

Lemma take_drop_comm n m (l : bytes) : take n (drop m l) = drop m (take (m + n) l).
Proof.
  nat_ify. replace (N.to_nat (m + n)) with (N.to_nat m + N.to_nat n)%nat by lia.
  revert l. generalize (N.to_nat m) as a, (N.to_nat n) as b. clear.
  induction a as [|a IH]; intros b l; simpl; auto.
  destruct l; simpl; auto. destruct b; reflexivity.
Qed.

Lemma slice_take o n F (c : bytes) : o + n <= F -> slice (take F c) o n = slice c o n.
Proof.
  intros Hle. unfold slice. rewrite !take_drop_comm. rewrite take_take by lia. reflexivity.
Qed.

Lemma slice_eq_of_take o n F (a b : bytes) : o + n <= F -> take F a = take F b -> slice a o n = slice b o n.
Proof. intros Hle E. rewrite <- (slice_take o n F a), <- (slice_take o n F b) by lia. rewrite E. reflexivity. Qed.

Lemma len_slice o n (c : bytes) : o + n <= len c -> len (slice c o n) = n.
Proof. intros. unfold slice. rewrite len_take, len_drop. lia. Qed.

(* ---- wr ---- *)
Lemma len_wr c off d : off <= len c -> len (wr c off d) = N.max (len c) (off + len d).
Proof. intros. unfold wr. rewrite !len_app, len_take, len_drop. lia. Qed.

Lemma len_wr_ge c off d : len c <= len (wr c off d) \/ len (wr c off d) = len c + len d /\ len c < off.
Proof.
  destruct (N.le_gt_cases off (len c)).
  - left. rewrite len_wr by auto. lia.
  - right. split; auto. unfold wr. rewrite !len_app, len_take, len_drop. lia.
Qed.

Lemma take_wr_below F c off d : F <= off -> F <= len c -> take F (wr c off d) = take F c.
Proof.
  intros H1 H2. unfold wr. rewrite take_app_le by (rewrite len_take; lia). apply take_take. lia.
Qed.

Lemma wr_nil c off : wr c off [] = c.
Proof. unfold wr. simpl. rewrite N.add_0_r. apply take_drop_id. Qed.

Lemma slice_wr_at c off d : off <= len c -> slice (wr c off d) off (len d) = d.
Proof.
  intros. unfold slice, wr. rewrite drop_app_ge by (rewrite len_take; lia).
  rewrite len_take. replace (off - N.min off (len c)) with 0 by lia. rewrite drop_0.
  rewrite take_app_le by lia. apply take_all.
Qed.

Lemma take_wr_through c off d : off <= len c -> take (off + len d) (wr c off d) = take off c ++ d.
Proof.
  intros. unfold wr. rewrite take_app_ge by (rewrite len_take; lia). f_equal.
  rewrite len_take. replace (off + len d - N.min off (len c)) with (len d) by lia.
  rewrite take_app_le by lia. apply take_all.
Qed.

(* a write of the same bytes extended: wr c o (a ++ b) = wr (wr c o a) (o + len a) b *)
Lemma wr_app c o a b : o <= len c -> wr (wr c o a) (o + len a) b = wr c o (a ++ b).
Proof.
  intros Ho. unfold wr at 1.
  rewrite take_wr_through by auto.
  assert (E: drop (o + len a + len b) (wr c o a) = drop (o + len (a ++ b)) c).
  { unfold wr. rewrite drop_app_ge by (rewrite len_take; lia). rewrite len_take.
    rewrite drop_app_ge by lia. rewrite drop_drop. f_equal. rewrite len_app. lia. }
  rewrite E. unfold wr. rewrite <- !app_assoc. reflexivity.
Qed.

(* ---- apply_writes ---- *)
Lemma apply_writes_app c a b : apply_writes c (a ++ b) = apply_writes (apply_writes c a) b.
Proof. unfold apply_writes. apply fold_left_app. Qed.

Definition offs_ge (F : N) (ws : list pw) : Prop := Forall (fun w => F <= pw_off w) ws.

Lemma apply1_prefix F c w : F <= pw_off w -> F <= len c ->
  take F (apply1 c w) = take F c /\ F <= len (apply1 c w).
Proof.
  destruct w as [o d|n]; cbn [apply1 pw_off]; intros Ho Hc.
  - split; [apply take_wr_below; auto|].
    destruct (len_wr_ge c o d) as [Hl|[Hl _]]; lia.
  - split; [apply take_take; auto|]. rewrite len_take. lia.
Qed.

(* nothing below F is touched by operations at or above F, and the file stays at least F long *)
Lemma apply_writes_prefix F c ws :
  offs_ge F ws -> F <= len c -> take F (apply_writes c ws) = take F c /\ F <= len (apply_writes c ws).
Proof.
  revert c; induction ws as [|w ws IH]; intros c Hf Hc; cbn [apply_writes fold_left]; [split; auto|].
  inversion Hf; subst. destruct (apply1_prefix F c w) as (E1 & L1); auto.
  fold (apply_writes (apply1 c w) ws). destruct (IH (apply1 c w)) as (E2 & L2); auto.
  split; [congruence|auto].
Qed.

Lemma offs_ge_firstn F k ws : offs_ge F ws -> offs_ge F (firstn k ws).
Proof.
  unfold offs_ge. revert k; induction ws as [|w ws IH]; intros [|k] Hf; simpl; auto.
  inversion Hf; subst. constructor; auto.
Qed.

Lemma offs_ge_app F a b : offs_ge F a -> offs_ge F b -> offs_ge F (a ++ b).
Proof. unfold offs_ge. intros. apply Forall_app; auto. Qed.

Lemma offs_ge_weaken F G ws : G <= F -> offs_ge F ws -> offs_ge G ws.
Proof. unfold offs_ge. intros Hle Hf. eapply Forall_impl; [|exact Hf]. simpl. intros; lia. Qed.

Lemma offs_ge_sub F a b : sub_trunc a b -> offs_ge F a -> offs_ge F b.
Proof.
  unfold offs_ge. induction 1; intros Hf; auto; inversion Hf; subst; constructor; auto.
  cbn [pw_off] in *. lia.
Qed.

Lemma sub_trunc_refl a : sub_trunc a a.
Proof. induction a as [|[o d|n] a IH]; constructor; auto. lia. Qed.

(* ---- crash images ---- *)
Lemma prefix_torn_ge F ws k t : offs_ge F ws -> offs_ge F (prefix_torn ws k t).
Proof.
  intros Hf. unfold prefix_torn. apply offs_ge_app. apply offs_ge_firstn; auto.
  destruct (nth_error ws k) as [[o d|n]|] eqn:E; try constructor; [|constructor].
  cbn [pw_off]. unfold offs_ge in Hf. rewrite Forall_forall in Hf.
  apply (Hf (PW o d)). eapply nth_error_In; eauto.
Qed.

Lemma crash_image_prefix F f img :
  offs_ge F (pending f) -> F <= len (durable f) -> crash_image f img ->
  take F img = take F (durable f) /\ F <= len img.
Proof.
  intros Hf Hc (k & t & ws & Hs & ->).
  apply apply_writes_prefix; auto. eapply offs_ge_sub; eauto. apply prefix_torn_ge; auto.
Qed.

Lemma crash_image_nopending f img : pending f = [] -> crash_image f img -> img = durable f.
Proof.
  intros E (k & t & ws & Hs & ->). rewrite E in Hs. unfold prefix_torn in Hs.
  destruct k; cbn in Hs; inversion Hs; reflexivity.
Qed.

Lemma crash_image_durable f : crash_image f (durable f).
Proof.
  exists 0%nat, 0. unfold prefix_torn. cbn [firstn app].
  destruct (pending f) as [|[o d|n] r]; cbn [nth_error].
  - exists []. split; [constructor|reflexivity].
  - exists [PW o (take 0 d)]. split; [apply sub_trunc_refl|]. cbn. rewrite wr_nil. reflexivity.
  - exists []. split; [constructor|reflexivity].
Qed.

Lemma crash_image_os f : crash_image f (os_view f).
Proof.
  exists (length (pending f)), 0, (pending f). unfold prefix_torn, os_view.
  rewrite firstn_all.
  assert (E: nth_error (pending f) (length (pending f)) = None) by (apply nth_error_None; lia).
  rewrite E, app_nil_r. split; [apply sub_trunc_refl|reflexivity].
Qed.

(* ---- file operations and the views ---- *)
Definition wf (f : file) : Prop := bufoff f <= len (os_view f).

Lemma os_view_flushn f n :
  os_view (f_flushn f n) = wr (os_view f) (bufoff f) (take n (buf f)).
Proof.
  unfold f_flushn. destruct (take n (buf f)) as [|x d] eqn:E.
  - rewrite wr_nil. reflexivity.
  - unfold os_view. simpl. rewrite apply_writes_app. reflexivity.
Qed.

Lemma bufoff_flushn f n : bufoff (f_flushn f n) = bufoff f + len (take n (buf f)).
Proof.
  unfold f_flushn. destruct (take n (buf f)) as [|x d] eqn:E; simpl; [rewrite len_nil; lia|reflexivity].
Qed.

Lemma buf_flushn f n : buf (f_flushn f n) = drop n (buf f).
Proof.
  unfold f_flushn. destruct (take n (buf f)) as [|x d] eqn:E; simpl; auto.
  destruct (buf f) as [|y b] eqn:Eb; [nat_ify; rewrite skipn_nil; reflexivity|].
  nat_ify. destruct (N.to_nat n); simpl in *; [reflexivity|discriminate].
Qed.

Lemma durable_flushn f n : durable (f_flushn f n) = durable f.
Proof. unfold f_flushn. destruct (take n (buf f)); reflexivity. Qed.

Lemma lview_flushn f n : wf f -> lview (f_flushn f n) = lview f.
Proof.
  intros Hw. unfold lview. rewrite os_view_flushn, bufoff_flushn, buf_flushn.
  rewrite wr_app by exact Hw. rewrite take_drop_id. reflexivity.
Qed.

Lemma wf_flushn f n : wf f -> wf (f_flushn f n).
Proof.
  intros Hw. unfold wf in *. rewrite os_view_flushn, bufoff_flushn, len_wr by exact Hw. lia.
Qed.

Lemma f_offset_flushn f n : f_offset (f_flushn f n) = f_offset f.
Proof.
  unfold f_offset. rewrite bufoff_flushn, buf_flushn, len_take, len_drop. lia.
Qed.

Lemma pending_flushn_ge F f n : offs_ge F (pending f) -> F <= bufoff f -> offs_ge F (pending (f_flushn f n)).
Proof.
  intros Hp Hb. unfold f_flushn. destruct (take n (buf f)); simpl; auto.
  apply offs_ge_app; auto. constructor; [simpl; lia|constructor].
Qed.

Lemma f_sync_spec f : wf f ->
  durable (f_sync f) = lview f /\ pending (f_sync f) = [] /\ buf (f_sync f) = [] /\
  bufoff (f_sync f) = f_offset f.
Proof.
  intros Hw. unfold f_sync, f_flush. simpl. repeat split.
  - rewrite os_view_flushn. rewrite take_all. reflexivity.
  - rewrite bufoff_flushn, take_all. reflexivity.
Qed.

Lemma os_view_sync f : wf f -> os_view (f_sync f) = lview f.
Proof. intros Hw. unfold os_view. destruct (f_sync_spec f Hw) as (-> & -> & _). reflexivity. Qed.

Lemma lview_sync f : wf f -> lview (f_sync f) = lview f.
Proof.
  intros Hw. unfold lview at 1. rewrite os_view_sync by auto.
  destruct (f_sync_spec f Hw) as (_ & _ & -> & _). apply wr_nil.
Qed.

Lemma len_lview f : wf f -> len (lview f) = N.max (len (os_view f)) (f_offset f).
Proof. intros Hw. unfold lview. rewrite len_wr by exact Hw. reflexivity. Qed.

Lemma wf_sync f : wf f -> wf (f_sync f).
Proof.
  intros Hw. unfold wf. rewrite os_view_sync by auto. destruct (f_sync_spec f Hw) as (_ & _ & _ & ->).
  rewrite len_lview by auto. lia.
Qed.

Lemma wf_open b : wf (f_open b).
Proof. unfold wf, f_open, os_view. simpl. lia. Qed.

Lemma lview_open b : lview (f_open b) = b.
Proof. unfold lview, f_open, os_view. simpl. apply wr_nil. Qed.

(* append *)
Lemma os_view_append f d : os_view (f_append f d) = os_view f.
Proof. reflexivity. Qed.

Lemma wf_append f d : wf f -> wf (f_append f d).
Proof. auto. Qed.

Lemma lview_append f d : wf f -> lview (f_append f d) = wr (lview f) (f_offset f) d.
Proof.
  intros Hw. unfold lview, f_append, f_offset. simpl. rewrite <- wr_app by exact Hw. reflexivity.
Qed.

Lemma take_lview_append f d : wf f ->
  take (f_offset f + len d) (lview (f_append f d)) = take (f_offset f) (lview f) ++ d.
Proof.
  intros Hw. rewrite lview_append by auto. apply take_wr_through.
  rewrite len_lview by auto. lia.
Qed.

(* setoffset (keep = true: preallocated file, the rewind does not truncate) *)
Lemma f_setoffset_spec keep f o g : wf f -> f_setoffset_gen keep f o = Some g ->
  o <= f_offset f /\ wf g /\ f_offset g = o /\ durable g = durable f /\
  (bufoff f <= o -> pending g = pending f) /\
  (o < bufoff f -> pending g = if keep then pending f else pending f ++ [PT o]) /\
  (o <= len (lview f) -> take o (lview g) = take o (lview f)) /\
  (bufoff f <= o -> bufoff g = bufoff f) /\ (o < bufoff f -> bufoff g = o) /\
  (buf f = [] -> buf g = []) /\
  (forall F, offs_ge F (pending f) -> F <= o -> offs_ge F (pending g)).
Proof.
  intros Hw. unfold f_setoffset_gen.
  destruct (N.ltb_spec (f_offset f) o); [discriminate|].
  destruct (N.leb_spec (bufoff f) o) as [Hbo|Hbo]; intros E; injection E as <-.
  - unfold f_offset in *. split; [lia|]. split; [exact Hw|]. simpl. rewrite len_take.
    split; [lia|]. split; [reflexivity|]. split; [auto|]. split; [intros; lia|].
    split; [|split; [auto|split; [lia|split]]].
    + intros _. unfold lview, os_view. simpl. fold (os_view f).
      rewrite <- (take_drop_id (o - bufoff f) (buf f)) at 2.
      rewrite <- wr_app by exact Hw.
      symmetry. rewrite take_wr_below; auto.
      * rewrite len_take. lia.
      * rewrite len_wr by exact Hw. rewrite len_take. lia.
    + intros ->. unfold take. apply firstn_nil.
    + auto.
  - assert (Hos: o <= len (os_view f)) by (unfold wf in Hw; lia).
    assert (Eos: os_view (mkFile (durable f) (if keep then pending f else pending f ++ [PT o]) o []) =
                 if keep then os_view f else take o (os_view f)).
    { unfold os_view. cbn [durable pending]. destruct keep; [reflexivity|].
      rewrite apply_writes_app. reflexivity. }
    split; [lia|]. split.
    { unfold wf. rewrite Eos. cbn [bufoff]. destruct keep; [lia|rewrite len_take; lia]. }
    unfold f_offset. cbn [bufoff buf durable pending]. rewrite len_nil.
    split; [lia|]. split; [reflexivity|]. split; [intros; lia|]. split; [auto|].
    split; [|split; [intros; lia|split; [auto|split; [auto|]]]].
    + intros _. unfold lview at 1. rewrite Eos. cbn [bufoff buf]. rewrite wr_nil.
      unfold lview.
      destruct keep.
      * symmetry. apply take_wr_below; lia.
      * rewrite take_take by lia. symmetry. apply take_wr_below; lia.
    + intros F Hf HF. destruct keep; [exact Hf|]. apply offs_ge_app; auto.
      constructor; [cbn; lia|constructor].
Qed.

(* ---- streams of consecutive writes ---- *)
Lemma stream_app o a b : stream_from o (a ++ b) <-> stream_from o a /\ stream_from (o + len (concat_w a)) b.
Proof.
  revert o; induction a as [|[o' d|n] a IH]; intros o; cbn [app stream_from].
  - unfold concat_w; cbn. change (len []) with 0. rewrite N.add_0_r. tauto.
  - rewrite IH. unfold concat_w; cbn [map pw_data concat]. rewrite len_app.
    replace (o + len d + len (concat (map pw_data a))) with (o + (len d + len (concat (map pw_data a)))) by lia.
    tauto.
  - tauto.
Qed.

Lemma concat_w_app a b : concat_w (a ++ b) = concat_w a ++ concat_w b.
Proof. unfold concat_w. rewrite map_app, concat_app. reflexivity. Qed.

Lemma apply_stream c o ws : stream_from o ws -> o <= len c ->
  apply_writes c ws = wr c o (concat_w ws).
Proof.
  revert c o; induction ws as [|[o' d|n] ws IH]; intros c o Hs Ho; cbn [apply_writes fold_left stream_from] in *.
  - unfold concat_w; cbn. rewrite wr_nil. reflexivity.
  - destruct Hs as [E Hs]. subst o'. fold (apply_writes (apply1 c (PW o d)) ws). cbn [apply1].
    rewrite (IH _ _ Hs).
    + unfold concat_w; cbn [map pw_data concat]. apply wr_app; auto.
    + rewrite len_wr by auto. lia.
  - contradiction.
Qed.

Lemma stream_firstn o k ws : stream_from o ws -> stream_from o (firstn k ws).
Proof.
  revert o k; induction ws as [|[o' d|n] ws IH]; intros o [|k] Hs; cbn [firstn stream_from] in *; auto.
  destruct Hs; split; auto.
Qed.

Lemma sub_trunc_stream o a b : stream_from o a -> sub_trunc a b -> b = a.
Proof.
  intros Hs Hb. revert o Hs. induction Hb; intros o' Hs; auto.
  - cbn [stream_from] in Hs. destruct Hs as [_ Hs]. f_equal. eapply IHHb; eauto.
  - cbn [stream_from] in Hs. contradiction.
Qed.

(* a byte prefix of a stream: the first k writes and t bytes of the next *)
Lemma prefix_torn_stream o ws k t : stream_from o ws ->
  exists j, j <= len (concat_w ws) /\ stream_from o (prefix_torn ws k t) /\
            concat_w (prefix_torn ws k t) = take j (concat_w ws).
Proof.
  intros Hs. unfold prefix_torn.
  assert (Hsplit: ws = firstn k ws ++ skipn k ws) by (symmetry; apply firstn_skipn).
  destruct (nth_error ws k) as [w|] eqn:E.
  - assert (Hk: skipn k ws = w :: skipn (S k) ws).
    { clear -E. revert k E; induction ws as [|x ws IH]; intros [|k] E; simpl in *; try discriminate.
      - injection E as ->. reflexivity.
      - apply IH; auto. }
    pose proof Hs as Hs0. rewrite Hsplit in Hs. apply stream_app in Hs as [Hs1 Hs2]. rewrite Hk in Hs2.
    destruct w as [o' d|n]; cbn [stream_from] in Hs2; [|contradiction]. destruct Hs2 as [Hw _].
    exists (len (concat_w (firstn k ws)) + N.min t (len d)). split; [|split].
    + rewrite Hsplit at 2. rewrite concat_w_app, Hk. unfold concat_w at 3; cbn [map pw_data concat]. rewrite !len_app. lia.
    + apply stream_app. split; auto. cbn [stream_from]. split; auto.
    + rewrite concat_w_app. unfold concat_w at 2; cbn [map pw_data concat]. rewrite app_nil_r.
      rewrite Hsplit at 3. rewrite concat_w_app, Hk. unfold concat_w at 4; cbn [map pw_data concat].
      rewrite take_app_ge by lia.
      replace (len (concat_w (firstn k ws)) + N.min t (len d) - len (concat_w (firstn k ws)))
        with (N.min t (len d)) by lia.
      f_equal. rewrite take_app_le by lia.
      destruct (N.le_gt_cases t (len d)).
      * replace (N.min t (len d)) with t by lia. reflexivity.
      * replace (N.min t (len d)) with (len d) by lia. rewrite take_all. apply take_ge. lia.
  - apply nth_error_None in E. rewrite app_nil_r. rewrite firstn_all2 by exact E.
    exists (len (concat_w ws)). split; [lia|]. split; [exact Hs|]. rewrite take_all. reflexivity.
Qed.

(* the image of a file whose pending operations are consecutive writes from o: a byte prefix of the stream *)
Lemma crash_image_stream f o img :
  stream_from o (pending f) -> o <= len (durable f) -> crash_image f img ->
  exists j, j <= len (concat_w (pending f)) /\ img = wr (durable f) o (take j (concat_w (pending f))).
Proof.
  intros Hs Ho (k & t & ws & Hsub & ->).
  destruct (prefix_torn_stream o (pending f) k t Hs) as (j & Hj & Hs' & Ec).
  rewrite (sub_trunc_stream _ _ _ Hs' Hsub).
  exists j. split; [exact Hj|]. rewrite (apply_stream _ o) by auto. rewrite Ec. reflexivity.
Qed.

(* ... and when a truncation at o may precede the stream (the rewind that started it) *)
Definition pstream (o : N) (ws : list pw) : Prop :=
  stream_from o ws \/ exists r, ws = PT o :: r /\ stream_from o r.

Lemma concat_w_PT n r : concat_w (PT n :: r) = concat_w r.
Proof. reflexivity. Qed.

Lemma pstream_apply o ws c : pstream o ws -> o <= len c ->
  exists m, o <= m /\ apply_writes c ws = wr (take m c) o (concat_w ws).
Proof.
  intros [Hs|(r & -> & Hs)] Ho.
  - exists (len c). split; [exact Ho|]. rewrite take_all. apply apply_stream; auto.
  - exists o. split; [lia|]. cbn [apply_writes fold_left apply1]. fold (apply_writes (take o c) r).
    rewrite concat_w_PT. apply apply_stream; auto. rewrite len_take. lia.
Qed.

Lemma crash_image_pstream f o img :
  pstream o (pending f) -> o <= len (durable f) -> crash_image f img ->
  exists m j, o <= m /\ j <= len (concat_w (pending f)) /\
    img = wr (take m (durable f)) o (take j (concat_w (pending f))).
Proof.
  intros [Hs|(r & Ep & Hs)] Ho Hc.
  - destruct (crash_image_stream f o img Hs Ho Hc) as (j & Hj & ->).
    exists (len (durable f)), j. rewrite take_all. auto.
  - destruct Hc as (k & t & ws' & Hsub & ->). rewrite Ep in *. rewrite concat_w_PT.
    destruct k as [|k].
    + unfold prefix_torn in Hsub. cbn in Hsub. inversion Hsub; subst.
      exists (len (durable f)), 0. split; [exact Ho|]. split; [lia|].
      rewrite take_all, take_0, wr_nil. reflexivity.
    + assert (Ept: prefix_torn (PT o :: r) (S k) t = PT o :: prefix_torn r k t) by reflexivity.
      rewrite Ept in Hsub.
      destruct (prefix_torn_stream o r k t Hs) as (j & Hj & Hs' & Ec).
      inversion Hsub as [| |n m a b Hm Hx]; subst.
      rewrite (sub_trunc_stream _ _ _ Hs' Hx).
      exists m, j. split; [exact Hm|]. split; [exact Hj|].
      cbn [apply_writes fold_left apply1]. fold (apply_writes (take m (durable f)) (prefix_torn r k t)).
      rewrite (apply_stream _ o) by (auto; rewrite len_take; lia). rewrite Ec. reflexivity.
Qed.

Lemma pstream_app_l o a b : pstream o (a ++ b) -> pstream o a.
Proof.
  intros [Hs|(r & E & Hs)].
  - left. apply stream_app in Hs as [Hs _]. exact Hs.
  - destruct a as [|w a].
    + left. exact Logic.I.
    + cbn [app] in E. injection E as -> <-. right. exists a. split; [reflexivity|].
      apply stream_app in Hs as [Hs _]. exact Hs.
Qed.

Lemma concat_w_tail o (b : bytes) : concat_w (tailw o b) = b.
Proof. destruct b; unfold concat_w; simpl; auto. rewrite app_nil_r. reflexivity. Qed.

Lemma fstream_flushn f n : concat_w (fstream (f_flushn f n)) = concat_w (fstream f).
Proof.
  unfold fstream, f_flushn. destruct (take n (buf f)) as [|x d] eqn:E; [reflexivity|].
  cbn [pending buf bufoff]. rewrite !concat_w_app, !concat_w_tail.
  unfold concat_w at 2; simpl. rewrite app_nil_r. rewrite <- app_assoc. f_equal.
  rewrite <- E. apply take_drop_id.
Qed.

Lemma stream_tail o o' (b : bytes) : (b <> [] -> o' = o) -> stream_from o (tailw o' b).
Proof. destruct b; simpl; auto. intros Hh. split; auto. apply Hh. discriminate. Qed.

Lemma fstream_stream_flushn o f n : stream_from o (fstream f) -> stream_from o (fstream (f_flushn f n)).
Proof.
  unfold fstream, f_flushn. intros Hs. destruct (take n (buf f)) as [|x d] eqn:E; [exact Hs|].
  cbn [pending buf bufoff].
  assert (Hb: buf f = (x :: d) ++ drop n (buf f)) by (rewrite <- E; symmetry; apply take_drop_id).
  apply stream_app in Hs as [Hs1 Hs2]. rewrite Hb in Hs2. simpl in Hs2. destruct Hs2 as [Ho _].
  rewrite <- app_assoc. apply stream_app. split; auto. simpl. split; auto.
  apply stream_tail. intros _. lia.
Qed.

Lemma pstream_flushn o f n : pstream o (fstream f) -> pstream o (fstream (f_flushn f n)).
Proof.
  intros [Hs|(r & E & Hs)]; [left; apply fstream_stream_flushn; exact Hs|].
  right. unfold fstream in E.
  destruct (pending f) as [|w p'] eqn:Ep.
  - exfalso. cbn [app] in E. destruct (buf f); cbn in E; discriminate.
  - cbn [app] in E. injection E as -> <-.
    set (f' := mkFile (durable f) p' (bufoff f) (buf f)).
    assert (Hs': stream_from o (fstream f')) by exact Hs.
    pose proof (fstream_stream_flushn o f' n Hs') as Hs2.
    exists (fstream (f_flushn f' n)). split; [|exact Hs2].
    unfold fstream, f_flushn. change (buf f') with (buf f). change (bufoff f') with (bufoff f).
    destruct (take n (buf f)); cbn [pending buf bufoff durable f']; rewrite Ep; reflexivity.
Qed.
