(* C06: concurrent histories of API calls and the standard definition of linearizability
   (Herlihy & Wing) with respect to the sequential specification of Spec.v.  Definitions only. *)
From V Require Export Lin.Spec.

Inductive call := CW (w : wop) | CR (r : rop).

(* one call: invocation stamp, return stamp (None: still pending), what was called, and the
   response (None: no response known).  Stamps come from one global counter. *)
Record oprec := mkOp { o_inv : N; o_ret : option N; o_call : call; o_res : option result }.
Definition history := list oprec.

(* a returned before b was invoked *)
Definition rt_before (a b : oprec) : Prop :=
  exists r, o_ret a = Some r /\ r < o_inv b.

Definition completed (o : oprec) : bool :=
  match o_ret o with Some _ => true | None => false end.
(* a response the property speaks about (calls answering with an unspecific failure - MVCC
   conflict and the like - have no effect and are treated like calls that never happened) *)
Definition effective (o : oprec) : bool :=
  match o_res o with Some ResAbort => false | Some _ => true | None => false end.

(* one call executed alone on the specification, from state s, answering r and leaving s' *)
Definition step_ok (s : state) (c : call) (r : result) (s' : state) : Prop :=
  match c with
  | CW w =>
      (exists t, apply s w = Ok t /\ r = ResTx (slen s + 1) /\ s' = s ++ [t]) \/
      (exists e, apply s w = Err e /\ r = ResErr e /\ s' = s)
  | CR q => spec_read s q = r /\ s' = s
  end.

(* sequential execution of a list of calls with their responses *)
Fixpoint run (s : state) (l : list oprec) (s' : state) : Prop :=
  match l with
  | [] => s' = s
  | o :: rest => exists r s1, o_res o = Some r /\ step_ok s (o_call o) r s1 /\ run s1 rest s'
  end.

(* the calls selected by a list of positions of the history *)
Fixpoint pick (h : history) (lin : list nat) : list oprec :=
  match lin with
  | [] => []
  | i :: r => match nth_error h i with Some o => o :: pick h r | None => pick h r end
  end.

(* real-time order is respected by a sequence: nobody placed later returned before somebody
   placed earlier was invoked *)
Fixpoint rt_ordered (l : list oprec) : Prop :=
  match l with
  | [] => True
  | a :: r => (forall b, In b r -> ~ rt_before b a) /\ rt_ordered r
  end.

(* Linearizability: a total order (a duplicate-free list of positions) of calls of the history
   that contains every completed call with an effective response (pending calls may be taken,
   with the response recorded for them, or dropped), respects real-time precedence, and is a legal
   sequential execution of the specification from the empty database with exactly the recorded
   responses. *)
Definition linearizable (h : history) : Prop :=
  exists lin : list nat,
    NoDup lin /\
    (forall i, In i lin -> exists o, nth_error h i = Some o /\ effective o = true) /\
    (forall i o, nth_error h i = Some o -> completed o = true -> effective o = true -> In i lin) /\
    rt_ordered (pick h lin) /\
    exists s', run [] (pick h lin) s'.
