(* C06: generic lemmas for the machine proofs (sequential runs, real-time order of sequences,
   pointwise updates) *)
From V Require Import Lin.Machine.
From Coq Require Import ZifyN ZifyNat ZifyBool.
Local Open Scope nat_scope.

Lemma set_eq {A} (f : nat -> A) i x : set f i x i = x.
Proof. unfold set. now rewrite Nat.eqb_refl. Qed.
Lemma set_neq {A} (f : nat -> A) i j x : j <> i -> set f i x j = f j.
Proof. unfold set. intros H. destruct (Nat.eqb_spec j i); congruence. Qed.

Lemma run_app s l1 l2 s' : run s (l1 ++ l2) s' <-> exists s1, run s l1 s1 /\ run s1 l2 s'.
Proof.
  revert s. induction l1 as [|o l1 IH]; simpl; intros s.
  - split; [intros H; exists s; auto|intros (s1 & -> & H); auto].
  - split.
    + intros (r & s1 & R & St & Rn). apply IH in Rn as (s2 & R1 & R2).
      exists s2; split; auto. exists r, s1; auto.
    + intros (s2 & (r & s1 & R & St & R1) & R2). exists r, s1. repeat split; auto.
      apply IH. eauto.
Qed.

(* run looks only at the call and the response of the selected calls *)
Lemma run_ext (f g : nat -> oprec) l : forall s s',
  (forall x, In x l -> o_res (f x) = o_res (g x) /\ o_call (f x) = o_call (g x)) ->
  run s (map f l) s' -> run s (map g l) s'.
Proof.
  induction l as [|x l IH]; simpl; intros s s' H R; auto.
  destruct R as (r & s1 & R1 & St & Rn). destruct (H x (or_introl eq_refl)) as [E1 E2].
  exists r, s1. rewrite <- E1, <- E2. repeat split; auto.
Qed.

(* a run of successful writes only extends the state *)
Lemma run_extends l : forall s s',
  (forall o, In o l -> exists w id, o_call o = CW w /\ o_res o = Some (ResTx id)) ->
  run s l s' -> exists ts, s' = s ++ ts.
Proof.
  induction l as [|o l IH]; simpl; intros s s' H R.
  - exists []. now rewrite app_nil_r.
  - destruct R as (r & s1 & R1 & St & Rn).
    destruct (H o (or_introl eq_refl)) as (w & id & C & Rs).
    rewrite C in St. rewrite Rs in R1. inversion R1; subst r. simpl in St.
    destruct St as [(t & A & _ & ->)|(e & _ & Bad & _)]; [|discriminate].
    destruct (IH _ _ (fun o Ho => H o (or_intror Ho)) Rn) as [ts ->].
    exists (t :: ts). now rewrite <- app_assoc.
Qed.

Lemma rt_ordered_app l1 l2 :
  rt_ordered (l1 ++ l2) <->
  rt_ordered l1 /\ rt_ordered l2 /\ (forall a b, In a l1 -> In b l2 -> ~ rt_before b a).
Proof.
  induction l1 as [|x l1 IH]; simpl.
  - split; [intros H; repeat split; auto; intros ? ? []|intros (_ & H & _); auto].
  - rewrite IH. split.
    + intros (H1 & H2 & H3 & H4). repeat split; auto.
      * intros b Hb. apply H1. apply in_or_app; auto.
      * intros a b [<-|Ha] Hb; [apply H1; apply in_or_app; auto|auto].
    + intros ((H1 & H2) & H3 & H4). repeat split; auto.
      intros b Hb. apply in_app_or in Hb as [Hb|Hb]; auto.
Qed.

Lemma rt_ordered_map_ext (f g : nat -> oprec) l :
  (forall a b, In a l -> In b l -> ~ rt_before (f b) (f a) -> ~ rt_before (g b) (g a)) ->
  rt_ordered (map f l) -> rt_ordered (map g l).
Proof.
  induction l as [|x l IH]; simpl; auto. intros H [H1 H2]. split.
  - intros b Hb. apply in_map_iff in Hb as (y & <- & Hy). apply H; auto.
    apply H1. now apply in_map.
  - apply IH; auto.
Qed.

Lemma nth_error_map_seq {A} (f : nat -> A) n i : i < n -> nth_error (map f (seq 0 n)) i = Some (f i).
Proof.
  intros H. rewrite nth_error_map. rewrite nth_error_nth' with (d := 0) by now rewrite seq_length.
  rewrite seq_nth by auto. reflexivity.
Qed.

Lemma pick_map (f : nat -> oprec) n l : (forall i, In i l -> i < n) ->
  pick (map f (seq 0 n)) l = map f l.
Proof.
  induction l as [|i l IH]; simpl; intros H; auto.
  rewrite nth_error_map_seq by auto. f_equal. auto.
Qed.
