(* C06: sequential specification of the key-value API of pkg/database (Set, multi-key Set, ExecAll,
   Delete, SetReference, ZAdd with preconditions; Get latest/SinceTx/AtTx/AtRevision, GetAll, Scan,
   ZScan, History, Count).  State = the list of committed transactions, tx id = 1-based position.
   Definitions only; proofs are in SpecLemmas.v / CheckerSound.v / MachineProofs.v.

   Keys, values, set names and scores are numbers (the harness uses one-byte keys 'a'+k, decimal
   values, one-byte set names and small non-negative integer scores, for which byte order = numeric
   order).  The functions follow the Go control flow of database.go / reference.go / sorted_set.go /
   all_ops.go / scan.go at the level of what a client can observe.

   Every read that the Go code performs with TWO separate index look-ups (Get: the entry itself on
   d.st, then the target of an unbound reference again on d.st; ZScan: one snapshot of the
   sorted-set index, one of the key-value index) takes two states [s1] [s2]; the sequential
   specification is the diagonal s1 = s2. *)
From V Require Export Base.Res.

Inductive entry :=
| EKv (k v : N)                 (* plain value *)
| EDel (k : N)                  (* tombstone (KVMetadata.Deleted) *)
| ERef (k rk at_ : N)           (* reference k -> rk, at_ = 0: unbound *)
| EZ (set score k at_ : N).     (* sorted-set entry (own index, prefix 1) *)
Definition tx := list entry.
Definition state := list tx.
Definition slen (s : state) : N := N.of_nat (length s).

(* error classes (only what the property needs: not-found, precondition verdict, and the
   state-dependent refusals of SetReference/ZAdd/ExecAll) *)
Definition EKeyNotFound : N := 1.
Definition EPrecond : N := 2.
Definition EIllegal : N := 3.
Definition ETxNotFound : N := 4.
Definition EInvalidRevision : N := 5.
Definition EFinalKey : N := 6.          (* ErrFinalKeyCannotBeConvertedIntoReference *)
Definition ERefIsRef : N := 7.          (* ErrReferencedKeyCannotBeAReference *)
Definition EResolutionLimit : N := 8.   (* ErrKeyResolutionLimitReached (MaxKeyResolutionLimit = 1) *)
Definition ENoMoreEntries : N := 9.

Definition ekey (e : entry) : option N :=
  match e with EKv k _ => Some k | EDel k => Some k | ERef k _ _ => Some k | EZ _ _ _ _ => None end.
Definition has_key (k : N) (e : entry) : bool :=
  match ekey e with Some k' => k' =? k | None => false end.
Definition tx_find (t : tx) (k : N) : option entry := find (has_key k) t.

(* updates of key k, oldest first, with their tx ids *)
Fixpoint khist_from (i : N) (s : state) (k : N) : list (N * entry) :=
  match s with
  | [] => []
  | t :: r => match tx_find t k with
              | Some e => (i, e) :: khist_from (i + 1) r k
              | None => khist_from (i + 1) r k
              end
  end.
Definition khist (s : state) (k : N) := khist_from 1 s k.
(* index.Get without filters: latest update, its tx and the history count (revision) *)
Definition klatest (s : state) (k : N) : option (N * entry * N) :=
  let h := khist s k in
  match rev h with
  | [] => None
  | (i, e) :: _ => Some (i, e, N.of_nat (length h))
  end.
Definition is_del (e : entry) : bool := match e with EDel _ => true | _ => false end.
Definition is_ref (e : entry) : bool := match e with ERef _ _ _ => true | _ => false end.
(* key exists = latest update is not a tombstone (IgnoreDeleted) *)
Definition live (s : state) (k : N) : bool :=
  match klatest s k with Some (_, e, _) => negb (is_del e) | None => false end.

Record rentry := mkE { e_tx : N; e_key : N; e_val : N; e_rev : N; e_ref : option (N * N * N * N) }.

(* resolveValue with resolved = MaxKeyResolutionLimit *)
Definition resolve_final (id : N) (e : entry) (rv : N) : res rentry :=
  match e with
  | EKv k v => Ok (mkE id k v rv None)
  | EDel _ => Err EKeyNotFound
  | ERef _ _ _ => Err EResolutionLimit
  | EZ _ _ _ _ => Err EOther
  end.
(* store.ReadTxEntry *)
Definition read_tx_entry (s : state) (t k : N) : res entry :=
  if (t =? 0) || (slen s <? t) then Err ETxNotFound
  else match nth_error s (N.to_nat (t - 1)) with
       | None => Err ETxNotFound
       | Some x => match tx_find x k with None => Err EKeyNotFound | Some e => Ok e end
       end.
Definition get_target (s : state) (rk at_ : N) : res rentry :=
  if at_ =? 0 then
    match klatest s rk with
    | None => Err EKeyNotFound
    | Some (i, e, hc) => resolve_final i e hc
    end
  else do e <- read_tx_entry s at_ rk; resolve_final at_ e 0.
(* resolveValue with resolved = 0; [s2] is the index used for the target of a reference *)
Definition resolve (s2 : state) (id : N) (e : entry) (rv : N) : res rentry :=
  match e with
  | ERef k rk at_ =>
      do t <- get_target s2 rk at_;
      Ok (mkE (e_tx t) (e_key t) (e_val t) (e_rev t) (Some (id, k, at_, rv)))
  | _ => resolve_final id e rv
  end.
(* getAtTx(key, atTx, 0, index, 0) *)
Definition get_at (s1 s2 : state) (k at_ : N) : res rentry :=
  if at_ =? 0 then
    match klatest s1 k with
    | None => Err EKeyNotFound
    | Some (i, e, hc) => resolve s2 i e hc
    end
  else do e <- read_tx_entry s1 at_ k; resolve s2 at_ e 0.

(* ---------------- reads ---------------- *)
Inductive rop :=
| RGet (k since at_ : N) (rv : Z)
| RGetAll (ks : list N) (since : N)
| RScan (seek endk : option N) (incs ince desc : bool) (limit since : N)
| RZScan (set : N) (desc : bool) (limit since : N)
| RHistory (k offset : N) (desc : bool) (limit since : N)
| RCount.

Inductive result :=
| ResTx (id : N)
| ResErr (e : N)
| ResEntry (e : rentry)
| ResEntries (l : list rentry)
| ResZ (l : list (N * N * rentry))            (* score, atTx, entry *)
| ResHist (l : list (N * N * entry))          (* tx, revision, update *)
| ResCount (n : N)
| ResAbort.                                    (* call failed without effect and without a verdict
                                                  the property speaks about (MVCC conflict, ...) *)

Definition of_res (r : res rentry) : result :=
  match r with Ok e => ResEntry e | Err c => ResErr c | Panic => ResErr EOther end.

Definition spec_get (s1 s2 : state) (k since at_ : N) (rv : Z) : res rentry :=
  if (0 <? at_) && ((0 <? since) || negb (rv =? 0)%Z) then Err EIllegal
  else if slen s1 <? since then Err EIllegal
  else if negb (rv =? 0)%Z then
    (* getAtRevision: store.History(key, offset, desc, 1) then getAtTx(key, tx, .., revision) *)
    let h := khist s1 k in
    let hc := N.of_nat (length h) in
    let off := if (0 <? rv)%Z then Z.to_N rv - 1 else Z.to_N (- rv) in
    if hc =? 0 then Err EKeyNotFound
    else if hc <=? off then Err EInvalidRevision
    else
      let idx := if (0 <? rv)%Z then off else hc - 1 - off in
      match nth_error h (N.to_nat idx) with
      | None => Err EInvalidRevision
      | Some (i, _) => do e <- read_tx_entry s1 i k; resolve s2 i e (idx + 1)
      end
  else get_at s1 s2 k at_.

(* keys ever written (kv index), ascending, without duplicates *)
Fixpoint ins_sorted (k : N) (l : list N) : list N :=
  match l with
  | [] => [k]
  | x :: r => if k <? x then k :: l else if k =? x then l else x :: ins_sorted k r
  end.
Definition tx_keys (t : tx) (acc : list N) : list N :=
  fold_left (fun a e => match ekey e with Some k => ins_sorted k a | None => a end) t acc.
Definition all_keys (s : state) : list N := fold_left (fun a t => tx_keys t a) s [].

Definition lim {A} (limit : N) (l : list A) : list A := if limit =? 0 then l else firstn (N.to_nat limit) l.

(* resolve every candidate; not-found ones are skipped, any other error fails the whole call *)
Fixpoint collect {A B} (f : A -> res B) (l : list A) : res (list B) :=
  match l with
  | [] => Ok []
  | a :: r => match f a with
              | Ok b => do t <- collect f r; Ok (b :: t)
              | Err c => if c =? EKeyNotFound then collect f r else Err c
              | Panic => Panic
              end
  end.

Definition in_range (seek endk : option N) (incs ince desc : bool) (k : N) : bool :=
  (match seek with
   | None => true
   | Some x => if desc then (if incs then k <=? x else k <? x) else (if incs then x <=? k else x <? k)
   end) &&
  (match endk with
   | None => true
   | Some x => if desc then (if ince then x <=? k else x <? k) else (if ince then k <=? x else k <? x)
   end).

Definition spec_scan (s : state) (seek endk : option N) (incs ince desc : bool) (limit since : N) : res (list rentry) :=
  if slen s <? since then Err EIllegal else
  let ks := filter (fun k => live s k && in_range seek endk incs ince desc k) (all_keys s) in
  let ks := if desc then rev ks else ks in
  collect (fun k => match klatest s k with
                    | Some (i, e, hc) => resolve s i e hc
                    | None => Err EKeyNotFound
                    end) (lim limit ks).

(* sorted-set index: key (set, score, k, at_); a later ZAdd of the same key replaces it *)
Definition zkey_lt (a b : N * N * N) : bool :=
  let '(s1, k1, a1) := a in let '(s2, k2, a2) := b in
  (s1 <? s2) || ((s1 =? s2) && ((k1 <? k2) || ((k1 =? k2) && (a1 <? a2)))).
Definition zkey_eq (a b : N * N * N) : bool :=
  let '(s1, k1, a1) := a in let '(s2, k2, a2) := b in (s1 =? s2) && (k1 =? k2) && (a1 =? a2).
Fixpoint zins (z : N * N * N) (l : list (N * N * N)) : list (N * N * N) :=
  match l with
  | [] => [z]
  | x :: r => if zkey_lt z x then z :: l else if zkey_eq z x then l else x :: zins z r
  end.
Definition zset (s : state) (set : N) : list (N * N * N) :=
  fold_left (fun a t => fold_left (fun a e => match e with
                                              | EZ st sc k at_ => if st =? set then zins (sc, k, at_) a else a
                                              | _ => a end) t a) s [].
(* ZScan takes the sorted-set entries from a snapshot of the sorted-set index [s1] and resolves the
   keys on a second snapshot, of the key-value index [s2] (sequential specification: s1 = s2) *)
Definition spec_zscan (s1 s2 : state) (set : N) (desc : bool) (limit since : N) : res (list (N * N * rentry)) :=
  if slen s1 <? since then Err EIllegal else
  let zs := zset s1 set in
  let zs := if desc then rev zs else zs in
  collect (fun z => let '(sc, k, at_) := z in
                    do e <- get_target s2 k at_; Ok (sc, at_, e)) (lim limit zs).

Fixpoint number_from (i : N) {A} (l : list A) : list (N * A) :=
  match l with [] => [] | a :: r => (i, a) :: number_from (i + 1) r end.
Definition spec_history (s : state) (k offset : N) (desc : bool) (limit since : N) : result :=
  if slen s <? since then ResErr EIllegal else
  let h := number_from 1 (khist s k) in                 (* (revision, (tx, update)) *)
  let hc := N.of_nat (length h) in
  if hc =? 0 then ResErr EKeyNotFound
  else if offset =? hc then ResErr ENoMoreEntries
  else if hc <? offset then ResHist []
  else
    let l := if desc then skipn (N.to_nat offset) (rev h) else skipn (N.to_nat offset) h in
    ResHist (map (fun x => let '(rv, (i, e)) := x in (i, rv, e)) (lim limit l)).

Definition spec_read2 (s1 s2 : state) (r : rop) : result :=
  match r with
  | RGet k since at_ rv => of_res (spec_get s1 s2 k since at_ rv)
  | RGetAll ks since =>
      if slen s2 <? since then ResErr EIllegal else
      match collect (fun k => get_at s2 s2 k 0) ks with
      | Ok l => ResEntries l | Err c => ResErr c | Panic => ResErr EOther end
  | RScan seek endk incs ince desc limit since =>
      match spec_scan s2 seek endk incs ince desc limit since with
      | Ok l => ResEntries l | Err c => ResErr c | Panic => ResErr EOther end
  | RZScan set desc limit since =>
      match spec_zscan s1 s2 set desc limit since with
      | Ok l => ResZ l | Err c => ResErr c | Panic => ResErr EOther end
  | RHistory k offset desc limit since => spec_history s2 k offset desc limit since
  | RCount => ResCount (N.of_nat (length (all_keys s2)))
  end.
(* GetAll / Scan / ZScan read one index snapshot; with SinceTx > 0 the code may reuse an older
   snapshot as long as it includes SinceTx (tbtree SnapshotMustIncludeTsWithRenewalPeriod) *)
Definition snap_since (r : rop) : N :=
  match r with
  | RGetAll _ since => since
  | RScan _ _ _ _ _ _ since => since
  | RZScan _ _ _ since => since
  | _ => 0
  end.
(* the sequential specification of a read *)
Definition spec_read (s : state) (r : rop) : result := spec_read2 s s r.

(* ---------------- writes ---------------- *)
Inductive precond :=
| PMustExist (k : N)
| PMustNotExist (k : N)
| PNotModifiedAfter (k t : N).
Definition pre_ok (s : state) (p : precond) : bool :=
  match p with
  | PMustExist k => live s k
  | PMustNotExist k => negb (live s k)
  | PNotModifiedAfter k t => match klatest s k with None => true | Some (i, _, _) => i <=? t end
  end.
Definition pre_static_ok (p : precond) : bool :=
  match p with PNotModifiedAfter _ t => negb (t =? 0) | _ => true end.

Inductive eop :=
| OKv (k v : N)
| ORef (k rk at_ : N) (bound : bool)
| OZAdd (set score k at_ : N) (bound : bool).

Inductive wop :=
| WSet (kvs : list (N * N)) (pre : list precond)
| WDelete (ks : list N)
| WSetRef (k rk at_ : N) (bound : bool) (pre : list precond)
| WZAdd (set score k at_ : N) (bound : bool)
| WExecAll (ops : list eop) (pre : list precond).

Definition wpre (w : wop) : list precond :=
  match w with
  | WSet _ p => p | WSetRef _ _ _ _ p => p | WExecAll _ p => p | _ => []
  end.
Definition pre_all (s : state) (w : wop) : bool := forallb (pre_ok s) (wpre w).

Fixpoint nodupb (l : list N) : bool :=
  match l with [] => true | x :: r => negb (existsb (N.eqb x) r) && nodupb r end.

(* "referenced key exists and is not itself a reference" (SetReference, ZAdd, ExecAll) *)
Definition check_target (s : state) (rk at_ : N) : res unit :=
  do e <- get_at s s rk at_;
  match e_ref e with Some _ => Err ERefIsRef | None => Ok tt end.
(* "key does not exist or is already a reference" *)
Definition check_refkey (s : state) (k at_ : N) : res unit :=
  match get_at s s k at_ with
  | Ok e => match e_ref e with None => Err EFinalKey | Some _ => Ok tt end
  | Err c => if c =? EKeyNotFound then Ok tt else Err c
  | Panic => Panic
  end.

(* the ExecAll callback: entries built in order; kmap = keys of the Kv operations seen so far *)
Fixpoint exec_ops (s : state) (txid : N) (kmap : list N) (ops : list eop) : res tx :=
  match ops with
  | [] => Ok []
  | OKv k v :: r => do t <- exec_ops s txid (k :: kmap) r; Ok (EKv k v :: t)
  | ORef k rk at_ bound :: r =>
      if (0 <? at_) && negb bound then Err EIllegal else
      do _ <- check_refkey s k 0;
      do _ <- (if negb (existsb (N.eqb rk) kmap) || (0 <? at_) then check_target s rk at_ else Ok tt);
      do t <- exec_ops s txid kmap r;
      Ok (ERef k rk (if bound && (at_ =? 0) then txid else at_) :: t)
  | OZAdd set score k at_ bound :: r =>
      if (0 <? at_) && negb bound then Err EIllegal else
      do _ <- (if negb (existsb (N.eqb k) kmap) || (0 <? at_) then check_target s k at_ else Ok tt);
      do t <- exec_ops s txid kmap r;
      Ok (EZ set score k (if bound && (at_ =? 0) then txid else at_) :: t)
  end.

Definition eop_key (o : eop) : option N :=
  match o with OKv k _ => Some k | ORef k _ _ _ => Some k | OZAdd _ _ _ _ _ => None end.
Fixpoint opt_keys (l : list eop) : list N :=
  match l with [] => [] | o :: r => match eop_key o with Some k => k :: opt_keys r | None => opt_keys r end end.

Definition check_pre (s : state) (pre : list precond) (t : tx) : res tx :=
  if negb (forallb pre_static_ok pre) then Err EIllegal
  else if forallb (pre_ok s) pre then Ok t else Err EPrecond.

(* what a write does on the state immediately before it: the committed transaction, or a refusal *)
Definition apply (s : state) (w : wop) : res tx :=
  match w with
  | WSet kvs pre =>
      if match kvs with [] => true | _ => false end || negb (nodupb (map fst kvs)) then Err EIllegal
      else check_pre s pre (map (fun kv => EKv (fst kv) (snd kv)) kvs)
  | WDelete ks =>
      if match ks with [] => true | _ => false end || negb (nodupb ks) then Err EIllegal
      else if forallb (live s) ks then Ok (map EDel ks) else Err EKeyNotFound
  | WSetRef k rk at_ bound pre =>
      if ((at_ =? 0) && bound) || ((0 <? at_) && negb bound) then Err EIllegal else
      do _ <- check_refkey s k at_;
      do _ <- check_target s rk at_;
      check_pre s pre [ERef k rk at_]
  | WZAdd set score k at_ bound =>
      if ((at_ =? 0) && bound) || ((0 <? at_) && negb bound) then Err EIllegal else
      do _ <- check_target s k at_;
      Ok [EZ set score k at_]
  | WExecAll ops pre =>
      if match ops with [] => true | _ => false end || negb (nodupb (opt_keys ops)) then Err EIllegal else
      do t <- exec_ops s (slen s + 1) [] ops;
      check_pre s pre t
  end.

(* a write whose outcome does not depend on the state (no precondition, no look-up): the code
   commits it without waiting for the index *)
Definition needs_index (w : wop) : bool :=
  match w with WSet _ [] => false | _ => true end.
