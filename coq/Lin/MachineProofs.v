(* C06: every history of the protocol machine is linearizable; conditional writes are atomic. *)
From V Require Import Lin.Machine Lin.MachineLemmas Lin.SpecLemmas.
From Coq Require Import ZifyN ZifyNat ZifyBool.
Local Open Scope nat_scope.

Definition ops (m : mstate) (l : list nat) : list oprec := map (op_at m) l.
Definition lin (m : mstate) : list nat := m_lo m ++ m_hi m.
Definition waiting (m : mstate) (b c0 : nat) : Prop :=
  (exists nw, m_phase m b = PInvoked c0 nw) \/ (exists nw s1, m_phase m b = PRead1 c0 nw s1).

Definition phase_okc (mode : bool) (ph : phase) (rs : option result) (rt : option N) (c : call)
           (clen indexed : nat) : Prop :=
  match ph with
  | PNone => rs = None /\ rt = None
  | PInvoked c0 nw =>
      rs = None /\ rt = None /\ (nw = true -> is_write c = negb mode) /\ c0 <= clen
  | PRead1 c0 nw s1 =>
      rs = None /\ rt = None /\ (nw = true -> mode = true) /\ (nw = true \/ c0 <= s1) /\ s1 <= indexed
  | PCommitted id nw =>
      rt = None /\ rs = Some (ResTx (N.of_nat id)) /\ (nw = true -> mode = false) /\ id <= clen
  | PAnswered => rt = None /\ forall id, rs <> Some (ResTx id)
  | PDone => True
  end.
Definition phase_ok (mode : bool) (m : mstate) (i : nat) : Prop :=
  phase_okc mode (m_phase m i) (m_res m i) (m_ret m i) (m_call m i) (length (m_committed m)) (m_indexed m).

Lemma phase_okc_mono mode ph rs rt c clen ix clen' ix' :
  clen <= clen' -> ix <= ix' -> phase_okc mode ph rs rt c clen ix -> phase_okc mode ph rs rt c clen' ix'.
Proof. intros H1 H2. destruct ph; simpl; intuition lia. Qed.

Record InvA (mode : bool) (m : mstate) : Prop := {
  i_idx : m_indexed m <= length (m_committed m);
  i_hilen : length (m_hi m) + m_indexed m = length (m_committed m);
  i_fresh : forall i, m_n m <= i -> m_phase m i = PNone;
  i_clock : forall i, i < m_n m -> (m_inv m i < m_clock m)%N /\ forall r, m_ret m i = Some r -> (r < m_clock m)%N;
  i_phase : forall i, phase_ok mode m i;
  i_ids : forall x id, m_res m x = Some (ResTx id) -> N.to_nat id <= length (m_committed m);
  i_hub : m_hub m = m_indexed m }.

Ltac proj := cbn [m_n m_inv m_ret m_call m_res m_phase m_clock m_committed m_indexed m_hub m_lo m_hi m_split
                  op_at o_inv o_ret o_call o_res] in *.

(* the compaction step is excluded by the premise m_split m' = [] of every step lemma; the waits
   look at m_hub, equal to m_indexed as long as no compaction happened *)
Ltac kill_compact Hs Hhub Hlen :=
  try match goal with H : _ < m_indexed _ |- _ => exfalso; clear - Hs; discriminate Hs end;
  rewrite ?Hhub in *;
  (* the indexing step: m_hi is not empty (ghost bookkeeping, i_hilen) *)
  try match goal with
      | H : m_indexed ?m < length (m_committed ?m) |- _ =>
          let x := fresh "x" in let rest := fresh "rest" in let Hhi := fresh "Hhi" in
          destruct (m_hi m) as [|x rest] eqn:Hhi;
          [ exfalso; clear - Hlen Hhi H; try rewrite Hhi in Hlen; simpl in Hlen; lia | change (firstn 1 (x :: rest)) with [x] in *; change (skipn 1 (x :: rest)) with rest in * ]
      end.

Ltac set_cases i j :=
  destruct (Nat.eq_dec j i) as [->|?]; [rewrite ?set_eq in *|rewrite ?set_neq in * by auto].

Lemma idx_commit m t : m_indexed m <= length (m_committed m) ->
  firstn (m_indexed m) (m_committed m ++ [t]) = firstn (m_indexed m) (m_committed m).
Proof.
  intros H. rewrite firstn_app. replace (m_indexed m - length (m_committed m)) with 0 by lia.
  simpl. now rewrite app_nil_r.
Qed.

Lemma invA_step mode m l m' : InvA mode m -> mstep mode m l m' -> m_split m' = [] -> InvA mode m'.
Proof.
  intros [I1 I2 I3 I4 I5 I6 Hhub] St Hs. pose proof I2 as Hlen. constructor.
  - inversion St; subst; proj; kill_compact Hs Hhub Hlen; rewrite ?app_length; simpl; lia.
  - inversion St; subst; proj; kill_compact Hs Hhub Hlen; rewrite ?app_length; simpl; try lia.
    try rewrite Hhi in *; simpl in *; lia.
  - inversion St; subst; proj; kill_compact Hs Hhub Hlen; intros j Hj; try (rewrite set_neq by lia); apply I3; lia.
  - inversion St; subst; proj; kill_compact Hs Hhub Hlen; intros j Hj.
    1:{ destruct (Nat.eq_dec j (m_n m)) as [->|Hn].
        - rewrite set_eq. split; [lia|]. intros r Hr. pose proof (I5 (m_n m)) as P.
          unfold phase_ok in P. rewrite (I3 (m_n m)) in P by lia. simpl in P. destruct P. congruence.
        - rewrite set_neq by auto. destruct (I4 j) as [A B]; [lia|]. split; [lia|].
          intros r Hr. specialize (B r Hr). lia. }
    all: try (apply I4; assumption).
    all: destruct (I4 j Hj) as [A B]; split; [lia|]; intros r; set_cases i j;
      [intros Hr; inversion Hr; lia|intros Hr; specialize (B r Hr); lia].
  - intros j. pose proof (I5 j) as P. unfold phase_ok in *.
    inversion St; subst; proj; kill_compact Hs Hhub Hlen.
    1: destruct (Nat.eq_dec j (m_n m)) as [->|?]; [rewrite ?set_eq in *|rewrite ?set_neq in * by auto].
    1: { rewrite (I3 (m_n m)) in P by lia. simpl in P. simpl. intuition. }
    1: { exact P. }
    all: try (set_cases i j;
      [ repeat match goal with H : m_phase _ _ = _ |- _ => rewrite H in P end; simpl in P |- *
      | eapply phase_okc_mono; [| |exact P]; rewrite ?app_length; simpl; lia ]).
    all: try (eapply phase_okc_mono; [| |exact P]; lia).
    all: repeat match goal with H : m_call _ _ = _ |- _ => rewrite H in P end; simpl in P.
    all: try tauto.
    all: try (split; [tauto|intros tid Hq; try discriminate;
                      inversion Hq as [Hz]; eapply spec_read2_not_tx; eauto]).
    + destruct P as (A & B & C & D). repeat split; auto.
      * unfold slen. do 2 f_equal. lia.
      * intros E. specialize (C E). destruct mode; simpl in C; congruence.
      * rewrite app_length; simpl; lia.
    + destruct P as (A & B & C & D). repeat split; auto.
      intros E. specialize (C E). destruct mode; simpl in C; congruence.
  - inversion St; subst; proj; kill_compact Hs Hhub Hlen; intros y tid; try (apply I6); rewrite ?app_length; simpl.
    all: set_cases i y; try (intros Hy; inversion Hy; subst; unfold slen; lia);
      try (intros Hy; apply I6 in Hy; lia); try discriminate.
    all: intros Hy; inversion Hy as [Hz]; exfalso; eapply spec_read2_not_tx; eauto.
  - inversion St; subst; proj; kill_compact Hs Hhub Hlen; auto. lia.
Qed.

(* ---- membership of the linearization ---- *)
Definition eff (m : mstate) (i : nat) : bool := effective (op_at m i).

Record InvB (mode : bool) (m : mstate) : Prop := {
  i_lin : forall i, In i (lin m) -> i < m_n m /\ eff m i = true;
  i_nodup : NoDup (lin m);
  i_complete : forall i, i < m_n m -> eff m i = true -> In i (lin m) \/ In i (m_split m);
  i_hi : forall j x, nth_error (m_hi m) j = Some x ->
         exists w, m_call m x = CW w /\
                   m_res m x = Some (ResTx (N.of_nat (m_indexed m + j + 1))) /\
                   (mode = true -> m_ret m x = None) }.

Lemma in_mid {A} (a x : A) l1 l2 : In x ((l1 ++ [a]) ++ l2) <-> x = a \/ In x (l1 ++ l2).
Proof. rewrite <- app_assoc. simpl. rewrite !in_app_iff. simpl. intuition. Qed.

Lemma nodup_mid {A} (a : A) l1 l2 : NoDup (l1 ++ l2) -> ~ In a (l1 ++ l2) -> NoDup ((l1 ++ [a]) ++ l2).
Proof.
  intros H1 H2. rewrite <- app_assoc. simpl.
  apply (NoDup_Add (Add_app a l1 l2)). auto.
Qed.

Lemma eff_none m i : m_res m i = None -> eff m i = false.
Proof. unfold eff, effective, op_at. simpl. now intros ->. Qed.

Lemma invB_step mode m l m' : InvA mode m -> InvB mode m -> mstep mode m l m' -> m_split m' = [] -> InvB mode m'.
Proof.
  intros A [B1 B2 B3 B4] St Hs. pose proof (i_hub _ _ A) as Hhub. pose proof (i_hilen _ _ A) as Hlen.
  assert (Hnot : forall i c0 nw, m_phase m i = PInvoked c0 nw -> ~ In i (lin m)).
  { intros i c0 nw Hp Hi. apply B1 in Hi as [_ E]. pose proof (i_phase _ _ A i) as P.
    unfold phase_ok in P. rewrite Hp in P. simpl in P. destruct P as [R _].
    rewrite eff_none in E by auto. discriminate. }
  assert (Hnot1 : forall i c0 nw s1, m_phase m i = PRead1 c0 nw s1 -> ~ In i (lin m)).
  { intros i c0 nw s1 Hp Hi. apply B1 in Hi as [_ E]. pose proof (i_phase _ _ A i) as P.
    unfold phase_ok in P. rewrite Hp in P. simpl in P. destruct P as [R _].
    rewrite eff_none in E by auto. discriminate. }
  constructor.
  - (* i_lin *)
    unfold lin, eff, effective in *. inversion St; subst; proj; kill_compact Hs Hhub Hlen; intros j Hj.
    + apply B1 in Hj as [? ?]. split; [lia|auto].
    + rewrite app_assoc in Hj. apply in_app_or in Hj as [Hj|[<-|[]]].
      * assert (j <> i) by (intros ->; eapply Hnot; eauto). rewrite set_neq by auto. auto.
      * rewrite set_eq. auto.
    + apply in_mid in Hj as [->|Hj].
      * rewrite set_eq. auto.
      * assert (j <> i) by (intros ->; eapply Hnot; eauto). rewrite set_neq by auto. auto.
    + assert (j <> i) by (intros ->; eapply Hnot; eauto). rewrite set_neq by auto. auto.
    + rewrite <- app_assoc in Hj. simpl in Hj. auto.
    + auto.
    + apply in_mid in Hj as [->|Hj].
      * rewrite set_eq. split; auto.
        pose proof (spec_read2_not_abort (firstn s1 (m_committed m)) (idx m) q).
        destruct (spec_read2 (firstn s1 (m_committed m)) (idx m) q); congruence.
      * assert (j <> i) by (intros ->; eapply Hnot1; eauto). rewrite set_neq by auto. auto.
    + assert (j <> i) by (intros ->; eapply Hnot1; eauto). rewrite set_neq by auto. auto.
    + apply in_mid in Hj as [->|Hj].
      * rewrite set_eq. split; auto.
        pose proof (spec_read2_not_abort (firstn p (m_committed m)) (firstn p2 (m_committed m)) q) as Hna.
        destruct (spec_read2 (firstn p (m_committed m)) (firstn p2 (m_committed m)) q); congruence.
      * assert (j <> i) by (intros ->; eapply Hnot; eauto). rewrite set_neq by auto. auto.
    + assert (j <> i) by (intros ->; eapply Hnot; eauto). rewrite set_neq by auto. auto.
    + auto.
    + auto.
  - (* i_nodup *)
    unfold lin in *. inversion St; subst; proj; kill_compact Hs Hhub Hlen; auto.
    + rewrite app_assoc. apply (NoDup_Add (Add_app i (m_lo m ++ m_hi m) [])). rewrite app_nil_r.
      split; auto. eapply Hnot; eauto.
    + apply nodup_mid; auto. eapply Hnot; eauto.
    + rewrite <- app_assoc. simpl. auto.
    + apply nodup_mid; auto. eapply Hnot1; eauto.
    + apply nodup_mid; auto. eapply Hnot; eauto.
  - (* i_complete *)
    unfold lin, eff, effective in *. inversion St; subst; proj; kill_compact Hs Hhub Hlen; intros j Hj Ej.
    + destruct (Nat.eq_dec j (m_n m)) as [->|?]; [|apply B3; auto; lia].
      pose proof (i_phase _ _ A (m_n m)) as P. unfold phase_ok in P.
      rewrite (i_fresh _ _ A (m_n m)) in P by lia. simpl in P. destruct P as [R _].
      rewrite R in Ej. discriminate.
    + set_cases i j.
      * left. rewrite app_assoc. apply in_or_app. right. simpl; auto.
      * destruct (B3 j Hj Ej) as [H'|H']; auto. left. rewrite app_assoc. apply in_or_app; auto.
    + set_cases i j.
      * left. apply in_mid; auto.
      * destruct (B3 j Hj Ej) as [H'|H']; auto. left. apply in_mid; auto.
    + set_cases i j; [discriminate|auto].
    + rewrite <- app_assoc. simpl. auto.
    + auto.
    + set_cases i j.
      * left. apply in_mid; auto.
      * destruct (B3 j Hj Ej) as [H'|H']; auto. left. apply in_mid; auto.
    + set_cases i j.
      * right. simpl; auto.
      * destruct (B3 j Hj Ej) as [H'|H']; auto. right. simpl; auto.
    + set_cases i j.
      * left. apply in_mid; auto.
      * destruct (B3 j Hj Ej) as [H'|H']; auto. left. apply in_mid; auto.
    + set_cases i j.
      * right. simpl; auto.
      * destruct (B3 j Hj Ej) as [H'|H']; auto. right. simpl; auto.
    + auto.
    + auto.
  - (* i_hi *)
    assert (Hin : forall j y, nth_error (m_hi m) j = Some y -> In y (lin m)).
    { intros j y Hy. unfold lin. apply in_or_app. right. eapply nth_error_In; eauto. }
    inversion St; subst; proj; kill_compact Hs Hhub Hlen; intros j y Hy.
    + pose proof (Hin _ _ Hy) as Hl. apply B1 in Hl as [Hl _].
      rewrite set_neq by lia. eauto.
    + destruct (Nat.lt_ge_cases j (length (m_hi m))) as [Hlt|Hge].
      * rewrite nth_error_app1 in Hy by auto.
        assert (y <> i) by (intros ->; eapply Hnot; eauto). rewrite set_neq by auto. eauto.
      * rewrite nth_error_app2 in Hy by auto.
        destruct (j - length (m_hi m)) as [|k] eqn:Ek; simpl in Hy; [|destruct k; discriminate].
        inversion Hy; subst y. rewrite set_eq. exists w. repeat split; auto.
        { unfold slen. do 2 f_equal. pose proof (i_hilen _ _ A). lia. }
        { intros _. pose proof (i_phase _ _ A i) as P. unfold phase_ok in P.
          match goal with H : m_phase m i = _ |- _ => rewrite H in P end. simpl in P. tauto. }
    + assert (y <> i) by (intros ->; eapply Hnot; eauto). rewrite set_neq by auto. eauto.
    + assert (y <> i) by (intros ->; eapply Hnot; eauto). rewrite set_neq by auto. eauto.
    + try (rewrite Hhi in B4).
      destruct (B4 (S j) y Hy) as (w & ? & ? & ?). exists w. repeat split; auto.
      replace (S (m_indexed m) + j + 1) with (m_indexed m + S j + 1) by lia. auto.
    + eauto.
    + assert (y <> i) by (intros ->; eapply Hnot1; eauto). rewrite set_neq by auto. eauto.
    + assert (y <> i) by (intros ->; eapply Hnot1; eauto). rewrite set_neq by auto. eauto.
    + assert (y <> i) by (intros ->; eapply Hnot; eauto). rewrite set_neq by auto. eauto.
    + assert (y <> i) by (intros ->; eapply Hnot; eauto). rewrite set_neq by auto. eauto.
    + destruct (B4 j y Hy) as (w & Hc & Hr & Ht). exists w. repeat split; auto.
      intros Hm. set_cases i y; auto.
      exfalso. pose proof (i_phase _ _ A i) as P. unfold phase_ok in P.
      match goal with H : m_phase m i = _ |- _ => rewrite H in P end. simpl in P.
      destruct P as (_ & R & Cn & _). rewrite Hr in R. inversion R.
      match goal with H : _ \/ _ |- _ => destruct H as [->|?] end; [specialize (Cn eq_refl); congruence|lia].
    + destruct (B4 j y Hy) as (w & Hc & Hr & Ht). exists w. repeat split; auto.
      intros Hm. set_cases i y; auto.
      exfalso. pose proof (i_phase _ _ A i) as P. unfold phase_ok in P.
      match goal with H : m_phase m i = _ |- _ => rewrite H in P end. simpl in P.
      destruct P as [_ P]. eapply P; eauto.
Qed.

(* ---- in mode = false (reads wait): a write with id above the frontier a waiting call captured
   cannot have returned before that call was invoked ---- *)
Definition InvP (m : mstate) : Prop :=
  forall b c0 x id r, waiting m b c0 -> m_res m x = Some (ResTx id) -> c0 < N.to_nat id ->
                      m_ret m x = Some r -> (m_inv m b < r)%N.

Lemma waiting_lt mode m b c0 : InvA mode m -> waiting m b c0 -> b < m_n m.
Proof.
  intros A W. destruct (Nat.lt_ge_cases b (m_n m)) as [|Hge]; auto.
  apply (i_fresh _ _ A) in Hge. destruct W as [(nw & W)|(nw & s1 & W)]; congruence.
Qed.

Lemma invP_step mode m l m' : InvA mode m -> InvP m -> mstep mode m l m' -> m_split m' = [] -> InvP m'.
Proof.
  intros A P St Hs. pose proof (i_hub _ _ A) as Hhub. pose proof (i_hilen _ _ A) as Hlen. unfold InvP, waiting in *.
  inversion St; subst; proj; kill_compact Hs Hhub Hlen; intros b c1 y tid r W Hres Hlt Hret.
  - (* invoke *)
    destruct (Nat.eq_dec b (m_n m)) as [->|Hb]; rewrite ?set_eq, ?set_neq in * by auto.
    + destruct W as [(nw' & W)|(nw' & s1 & W)]; [|discriminate]. inversion W; subst.
      apply (i_ids _ _ A) in Hres. lia.
    + eapply P; eauto.
  - (* commit *)
    set_cases i y.
    + pose proof (i_phase _ _ A i) as Ph. unfold phase_ok in Ph.
      match goal with H : m_phase m i = _ |- _ => rewrite H in Ph end. simpl in Ph.
      destruct Ph as (_ & R & _). congruence.
    + set_cases i b.
      * destruct W as [(? & W)|(? & ? & W)]; discriminate.
      * eapply P; eauto.
  - set_cases i y; [discriminate|]. set_cases i b.
    + destruct W as [(? & W)|(? & ? & W)]; discriminate.
    + eapply P; eauto.
  - set_cases i y; [discriminate|]. set_cases i b.
    + destruct W as [(? & W)|(? & ? & W)]; discriminate.
    + eapply P; eauto.
  - eapply P; eauto.
  - set_cases i b.
    + destruct W as [(? & W)|(? & ? & W)]; [discriminate|]. inversion W; subst.
      eapply P; eauto.
    + eapply P; eauto.
  - set_cases i y; [inversion Hres as [Hz]; exfalso; eapply spec_read2_not_tx; eauto|]. set_cases i b.
    + destruct W as [(? & W)|(? & ? & W)]; discriminate.
    + eapply P; eauto.
  - set_cases i y; [inversion Hres as [Hz]; exfalso; eapply spec_read2_not_tx; eauto|]. set_cases i b.
    + destruct W as [(? & W)|(? & ? & W)]; discriminate.
    + eapply P; eauto.
  - set_cases i y; [inversion Hres as [Hz]; exfalso; eapply spec_read2_not_tx; eauto|]. set_cases i b.
    + destruct W as [(? & W)|(? & ? & W)]; discriminate.
    + eapply P; eauto.
  - set_cases i y; [inversion Hres as [Hz]; exfalso; eapply spec_read2_not_tx; eauto|]. set_cases i b.
    + destruct W as [(? & W)|(? & ? & W)]; discriminate.
    + eapply P; eauto.
  - set_cases i b; [destruct W as [(? & W)|(? & ? & W)]; discriminate|].
    set_cases i y.
    + inversion Hret; subst.
      assert (Hb : b < m_n m) by (eapply waiting_lt with (c0 := c1); eauto).
      destruct (i_clock _ _ A b Hb) as [Hi _]. exact Hi.
    + eapply P; eauto.
  - set_cases i b; [destruct W as [(? & W)|(? & ? & W)]; discriminate|].
    set_cases i y.
    + inversion Hret; subst.
      assert (Hb : b < m_n m) by (eapply waiting_lt with (c0 := c1); eauto).
      destruct (i_clock _ _ A b Hb) as [Hi _]. exact Hi.
    + eapply P; eauto.
Qed.

(* ---- the linearization is a legal sequential execution ---- *)
Definition InvR (m : mstate) : Prop :=
  run [] (ops m (m_lo m)) (idx m) /\ run (idx m) (ops m (m_hi m)) (m_committed m).

Lemma lo_in_lin m x : In x (m_lo m) -> In x (lin m).
Proof. intros; unfold lin; apply in_or_app; auto. Qed.
Lemma hi_in_lin m x : In x (m_hi m) -> In x (lin m).
Proof. intros; unfold lin; apply in_or_app; auto. Qed.

Lemma idx_full m : m_indexed m = length (m_committed m) -> idx m = m_committed m.
Proof. intros E. unfold idx. rewrite E. apply firstn_all. Qed.

Lemma apply_at_commit m w t :
  (needs_index w = true -> m_indexed m = length (m_committed m)) ->
  apply (idx m) w = Ok t -> apply (m_committed m) w = Ok t.
Proof.
  intros G Ap. destruct (needs_index w) eqn:N.
  - rewrite <- (idx_full m) by auto. exact Ap.
  - rewrite (apply_indep w (m_committed m) (idx m)) by auto. exact Ap.
Qed.

Lemma invR_step mode m l m' : InvA mode m -> InvB mode m -> InvR m -> mstep mode m l m' -> m_split m' = [] -> InvR m'.
Proof.
  intros A B [R1 R2] St Hs. pose proof (i_hub _ _ A) as Hhub. pose proof (i_hilen _ _ A) as Hlen.
  assert (Hnot : forall i c0 nw, m_phase m i = PInvoked c0 nw -> ~ In i (lin m)).
  { intros i c0 nw Hp Hi. apply (i_lin _ _ B) in Hi as [_ E]. pose proof (i_phase _ _ A i) as P.
    unfold phase_ok in P. rewrite Hp in P. simpl in P. destruct P as [R _].
    rewrite eff_none in E by auto. discriminate. }
  assert (Hnot1 : forall i c0 nw s1, m_phase m i = PRead1 c0 nw s1 -> ~ In i (lin m)).
  { intros i c0 nw s1 Hp Hi. apply (i_lin _ _ B) in Hi as [_ E]. pose proof (i_phase _ _ A i) as P.
    unfold phase_ok in P. rewrite Hp in P. simpl in P. destruct P as [R _].
    rewrite eff_none in E by auto. discriminate. }
  unfold InvR, ops, idx in *.
  inversion St; subst; proj; kill_compact Hs Hhub Hlen.
  - (* invoke *)
    split; (eapply run_ext; [|eassumption]); intros x Hx; proj.
    + apply lo_in_lin, (i_lin _ _ B) in Hx as [Hx _]. rewrite set_neq by lia. auto.
    + apply hi_in_lin, (i_lin _ _ B) in Hx as [Hx _]. rewrite set_neq by lia. auto.
  - (* commit *)
    rewrite idx_commit by apply (i_idx _ _ A). split.
    + eapply run_ext; [|eassumption]. intros x Hx; proj.
      assert (x <> i) by (intros ->; eapply Hnot; eauto using lo_in_lin). rewrite set_neq by auto. auto.
    + rewrite map_app. apply run_app. exists (m_committed m). split.
      * eapply run_ext; [|eassumption]. intros x Hx; proj.
        assert (x <> i) by (intros ->; eapply Hnot; eauto using hi_in_lin). rewrite set_neq by auto. auto.
      * simpl. rewrite set_eq. eexists _, _. split; [reflexivity|]. split; [|reflexivity].
        match goal with H : m_call m i = _ |- _ => rewrite H end. simpl. left.
        exists t. repeat split. eapply apply_at_commit; eauto.
  - (* refuse *)
    split.
    + rewrite map_app. apply run_app. eexists. split.
      * eapply run_ext; [|eassumption]. intros x Hx; proj.
        assert (x <> i) by (intros ->; eapply Hnot; eauto using lo_in_lin). rewrite set_neq by auto. auto.
      * simpl. rewrite set_eq. eexists _, _. split; [reflexivity|]. split; [|reflexivity].
        match goal with H : m_call m i = _ |- _ => rewrite H end. simpl. right.
        exists e. repeat split. assumption.
    + eapply run_ext; [|eassumption]. intros x Hx; proj.
      assert (x <> i) by (intros ->; eapply Hnot; eauto using hi_in_lin). rewrite set_neq by auto. auto.
  - (* abort *)
    split; (eapply run_ext; [|eassumption]); intros x Hx; proj.
    + assert (x <> i) by (intros ->; eapply Hnot; eauto using lo_in_lin). rewrite set_neq by auto. auto.
    + assert (x <> i) by (intros ->; eapply Hnot; eauto using hi_in_lin). rewrite set_neq by auto. auto.
  - (* index *)
    try rewrite Hhi in R2. simpl in R2.
    destruct R2 as (r & s1 & Hr & Hst & Hrest).
    assert (Hx0 : nth_error (m_hi m) 0 = Some x) by (rewrite Hhi; reflexivity).
    destruct (i_hi _ _ B 0 x Hx0) as (w & Hc & Hrs & _).
    proj. rewrite Hc in Hst. rewrite Hrs in Hr. inversion Hr; subst r. simpl in Hst.
    destruct Hst as [(t & Ap & _ & ->)|(e & _ & Bad & _)]; [|discriminate].
    assert (Hext : exists ts, m_committed m = (firstn (m_indexed m) (m_committed m) ++ [t]) ++ ts).
    { eapply run_extends; [|eassumption]. intros o Ho. apply in_map_iff in Ho as (y & <- & Hy).
      apply In_nth_error in Hy as [j Hj].
      assert (Hj' : nth_error (m_hi m) (S j) = Some y) by (rewrite Hhi; exact Hj).
      destruct (i_hi _ _ B (S j) y Hj') as (w' & ? & ? & _).
      proj. eauto. }
    destruct Hext as [ts Hts].
    assert (Hfirst : firstn (S (m_indexed m)) (m_committed m) = firstn (m_indexed m) (m_committed m) ++ [t]).
    { rewrite Hts at 1. rewrite firstn_app.
      assert (Hl : length (firstn (m_indexed m) (m_committed m) ++ [t]) = S (m_indexed m)).
      { rewrite app_length, firstn_length. pose proof (i_idx _ _ A). simpl. lia. }
      rewrite Hl, Nat.sub_diag. rewrite firstn_O, app_nil_r.
      rewrite <- Hl. apply firstn_all. }
    rewrite Hfirst. split; auto.
    rewrite map_app. apply run_app. eexists. split; [eassumption|].
    simpl. eexists _, _. split; [exact Hrs|]. split; [|reflexivity].
    rewrite Hc. simpl. left. exists t. repeat split; auto.
    do 2 f_equal. unfold slen. rewrite firstn_length. pose proof (i_idx _ _ A). lia.
  - (* read1 *) split; auto.
  - (* read2 *)
    split.
    + rewrite map_app. apply run_app. eexists. split.
      * eapply run_ext; [|eassumption]. intros x Hx; proj.
        assert (x <> i) by (intros ->; eapply Hnot1; eauto using lo_in_lin). rewrite set_neq by auto. auto.
      * simpl. rewrite set_eq. eexists _, _. split; [reflexivity|]. split; [|reflexivity].
        match goal with H : m_call m i = _ |- _ => rewrite H end. simpl. split; auto.
    + eapply run_ext; [|eassumption]. intros x Hx; proj.
      assert (x <> i) by (intros ->; eapply Hnot1; eauto using hi_in_lin). rewrite set_neq by auto. auto.
  - (* read2 split *)
    split; (eapply run_ext; [|eassumption]); intros x Hx; proj.
    + assert (x <> i) by (intros ->; eapply Hnot1; eauto using lo_in_lin). rewrite set_neq by auto. auto.
    + assert (x <> i) by (intros ->; eapply Hnot1; eauto using hi_in_lin). rewrite set_neq by auto. auto.
  - (* snapshot read, same answer as on the current index *)
    split.
    + rewrite map_app. apply run_app. eexists. split.
      * eapply run_ext; [|eassumption]. intros x Hx; proj.
        assert (x <> i) by (intros ->; eapply Hnot; eauto using lo_in_lin). rewrite set_neq by auto. auto.
      * simpl. rewrite set_eq. eexists _, _. split; [reflexivity|]. split; [|reflexivity].
        match goal with H : m_call m i = _ |- _ => rewrite H end. simpl. split; auto.
    + eapply run_ext; [|eassumption]. intros x Hx; proj.
      assert (x <> i) by (intros ->; eapply Hnot; eauto using hi_in_lin). rewrite set_neq by auto. auto.
  - (* stale snapshot read *)
    split; (eapply run_ext; [|eassumption]); intros x Hx; proj.
    + assert (x <> i) by (intros ->; eapply Hnot; eauto using lo_in_lin). rewrite set_neq by auto. auto.
    + assert (x <> i) by (intros ->; eapply Hnot; eauto using hi_in_lin). rewrite set_neq by auto. auto.
  - split; (eapply run_ext; [|eassumption]); intros x Hx; proj; auto.
  - split; (eapply run_ext; [|eassumption]); intros x Hx; proj; auto.
Qed.

(* ---- the linearization respects real-time precedence ---- *)
Definition InvT (m : mstate) : Prop := rt_ordered (ops m (lin m)).

Lemma hi_empty mode m : InvA mode m -> m_indexed m = length (m_committed m) -> m_hi m = [].
Proof.
  intros A E. pose proof (i_hilen _ _ A). destruct (m_hi m); auto. simpl in *. lia.
Qed.

(* inserting a call that has not returned, after every call linearized in the indexed prefix and
   before the not yet indexed writes *)
Lemma rt_insert (f g : nat -> oprec) lo hi i :
  rt_ordered (map f (lo ++ hi)) ->
  (forall x, In x (lo ++ hi) -> x <> i) ->
  (forall x, x <> i -> o_inv (g x) = o_inv (f x) /\ o_ret (g x) = o_ret (f x)) ->
  o_ret (g i) = None ->
  (forall x, In x hi -> ~ rt_before (g x) (g i)) ->
  rt_ordered (map g ((lo ++ [i]) ++ hi)).
Proof.
  intros R Hne Hsame Hret Hhi.
  assert (R' : rt_ordered (map g (lo ++ hi))).
  { eapply rt_ordered_map_ext; [|exact R]. intros a b Ha Hb Hn (r & E & L).
    apply Hn. destruct (Hsame a (Hne a Ha)) as [Ea _]. destruct (Hsame b (Hne b Hb)) as [_ Eb].
    exists r. rewrite <- Eb, <- Ea. auto. }
  rewrite map_app in R'. apply rt_ordered_app in R' as (Rl & Rh & Rc).
  rewrite !map_app. simpl. apply rt_ordered_app. repeat split; auto.
  - apply rt_ordered_app. repeat split; simpl; auto.
    intros a b Ha [<-|[]] (r & E & _). congruence.
  - intros a b Ha Hb. apply in_app_or in Ha as [Ha|[<-|[]]]; auto.
    apply in_map_iff in Hb as (x & <- & Hx). auto.
Qed.

Lemma invT_step mode m l m' :
  InvA mode m -> InvB mode m -> (mode = false -> InvP m) -> InvT m -> mstep mode m l m' -> m_split m' = [] -> InvT m'.
Proof.
  intros A B P T St Hs. pose proof (i_hub _ _ A) as Hhub. pose proof (i_hilen _ _ A) as Hlen.
  assert (Hnot : forall i c0 nw, m_phase m i = PInvoked c0 nw -> ~ In i (lin m)).
  { intros i c0 nw Hp Hi. apply (i_lin _ _ B) in Hi as [_ E]. pose proof (i_phase _ _ A i) as Ph.
    unfold phase_ok in Ph. rewrite Hp in Ph. simpl in Ph. destruct Ph as [R _].
    rewrite eff_none in E by auto. discriminate. }
  assert (Hnot1 : forall i c0 nw s1, m_phase m i = PRead1 c0 nw s1 -> ~ In i (lin m)).
  { intros i c0 nw s1 Hp Hi. apply (i_lin _ _ B) in Hi as [_ E]. pose proof (i_phase _ _ A i) as Ph.
    unfold phase_ok in Ph. rewrite Hp in Ph. simpl in Ph. destruct Ph as [R _].
    rewrite eff_none in E by auto. discriminate. }
  (* a write still in m_hi cannot have returned before a call i that captured c0 <= indexed *)
  assert (Hhi : forall i c0 x, waiting m i c0 -> c0 <= m_indexed m -> In x (m_hi m) ->
                  forall r, m_ret m x = Some r -> ~ (r < m_inv m i)%N).
  { intros i c0 x W Hc Hx r Hr. apply In_nth_error in Hx as [j Hj].
    destruct (i_hi _ _ B j x Hj) as (w & _ & Hres & Hm). destruct mode.
    - rewrite Hm in Hr by auto. discriminate.
    - pose proof (P eq_refl i c0 x _ r W Hres) as Q. rewrite Nat2N.id in Q.
      specialize (Q ltac:(lia) Hr). lia. }
  unfold InvT, ops, lin in *.
  inversion St; subst; proj; kill_compact Hs Hhub Hlen.
  - (* invoke *)
    eapply rt_ordered_map_ext; [|exact T]. intros a b Ha Hb Hn (r & E & L). proj.
    apply (i_lin _ _ B) in Ha as [Ha _]. rewrite set_neq in L by lia.
    apply Hn. exists r; auto.
  - (* commit: appended at the end, not returned *)
    rewrite app_assoc. rewrite <- (app_nil_r ((m_lo m ++ m_hi m) ++ [i])).
    eapply rt_insert with (f := op_at m); proj; rewrite ?app_nil_r; auto.
    + intros x Hx ->. eapply Hnot; eauto.
    + pose proof (i_phase _ _ A i) as Ph. unfold phase_ok in Ph.
      match goal with H : m_phase m i = _ |- _ => rewrite H in Ph end. simpl in Ph. tauto.
  - (* refuse *)
    eapply rt_insert with (f := op_at m); proj; auto.
    + intros x Hx ->. eapply Hnot; eauto.
    + pose proof (i_phase _ _ A i) as Ph. unfold phase_ok in Ph.
      match goal with H : m_phase m i = _ |- _ => rewrite H in Ph end. simpl in Ph. tauto.
    + intros x Hx (r & E & L). proj.
      destruct (N.eqb_spec e EPrecond) as [->|Hne].
      * match goal with H : m_indexed m = _ |- _ => rewrite (hi_empty _ _ A H) in Hx end. destruct Hx.
      * eapply (Hhi i c0 x); eauto. left; eauto.
  - (* abort *)
    eapply rt_ordered_map_ext; [|exact T]. intros a b Ha Hb Hn (r & E & L). proj.
    apply Hn. exists r; auto.
  - (* index *)
    rewrite <- app_assoc. simpl. exact T.
  - (* read1 *) exact T.
  - (* read2 *)
    eapply rt_insert with (f := op_at m); proj; auto.
    + intros x Hx ->. eapply Hnot1; eauto.
    + pose proof (i_phase _ _ A i) as Ph. unfold phase_ok in Ph.
      match goal with H : m_phase m i = _ |- _ => rewrite H in Ph end. simpl in Ph. tauto.
    + intros x Hx (r & E & L). proj.
      pose proof (i_phase _ _ A i) as Ph. unfold phase_ok in Ph.
      match goal with H : m_phase m i = _ |- _ => rewrite H in Ph end. simpl in Ph.
      destruct Ph as (_ & _ & Hnw & Hor & Hs1).
      apply In_nth_error in Hx as [j Hj].
      destruct (i_hi _ _ B j x Hj) as (w & _ & Hres & Hm). destruct mode.
      * rewrite Hm in E by auto. discriminate.
      * destruct Hor as [->|Hc]; [specialize (Hnw eq_refl); discriminate|].
        eapply (Hhi i c0 x); eauto; [right; eauto|lia|eapply nth_error_In; eauto].
  - (* read2 split *)
    eapply rt_ordered_map_ext; [|exact T]. intros a b Ha Hb Hn (r & E & L). proj.
    apply Hn. exists r; auto.
  - (* snapshot read *)
    eapply rt_insert with (f := op_at m); proj; auto.
    + intros x Hx ->. eapply Hnot; eauto.
    + pose proof (i_phase _ _ A i) as Ph. unfold phase_ok in Ph.
      match goal with H : m_phase m i = _ |- _ => rewrite H in Ph end. simpl in Ph. tauto.
    + intros x Hx (r & E & L). proj.
      apply In_nth_error in Hx as [j Hj].
      destruct (i_hi _ _ B j x Hj) as (w & _ & Hres & Hm).
      match goal with H : mode = true \/ _ |- _ => destruct H as [->|Hc] end.
      * rewrite Hm in E by auto. discriminate.
      * eapply (Hhi i c0 x); eauto; [left; eauto|eapply nth_error_In; eauto].
  - (* stale snapshot read *)
    eapply rt_ordered_map_ext; [|exact T]. intros a b Ha Hb Hn (r & E & L). proj.
    apply Hn. exists r; auto.
  - (* return of a write *)
    eapply rt_ordered_map_ext; [|exact T]. intros a b Ha Hb Hn (r & E & L). proj.
    set_cases i b.
    + inversion E; subst r. apply (i_lin _ _ B) in Ha as [Ha _].
      destruct (i_clock _ _ A a Ha) as [Hi _]. lia.
    + apply Hn. exists r; auto.
  - eapply rt_ordered_map_ext; [|exact T]. intros a b Ha Hb Hn (r & E & L). proj.
    set_cases i b.
    + inversion E; subst r. apply (i_lin _ _ B) in Ha as [Ha _].
      destruct (i_clock _ _ A a Ha) as [Hi _]. lia.
    + apply Hn. exists r; auto.
Qed.

(* ---- all together ---- *)
Definition Inv (mode : bool) (m : mstate) : Prop :=
  InvA mode m /\ InvB mode m /\ InvP m /\ InvR m /\ InvT m.

Lemma inv_init mode : Inv mode m_init.
Proof.
  unfold Inv. split; [|split; [|split; [|split]]].
  - constructor; simpl; auto.
    + intros i Hi. lia.
    + intros i. unfold phase_ok. simpl. auto.
    + intros x id H. discriminate.
  - constructor; unfold lin; simpl.
    + intros i [].
    + constructor.
    + intros i H. lia.
    + intros j x H. destruct j; discriminate.
  - intros b c0 x id r _ H. discriminate.
  - split; simpl; reflexivity.
  - unfold InvT. simpl. exact I.
Qed.

Lemma split_mono mode m l m' : mstep mode m l m' -> m_split m' = [] -> m_split m = [].
Proof. intros St. inversion St; subst; proj; auto; discriminate. Qed.

Lemma inv_reach mode m : reach mode m -> m_split m = [] -> Inv mode m.
Proof.
  induction 1 as [|m l m' R IH St]; intros Hs; [apply inv_init|].
  destruct (IH (split_mono _ _ _ _ St Hs)) as (A & B & P & Rn & T).
  unfold Inv. split; [|split; [|split; [|split]]].
  - eapply invA_step; eauto.
  - eapply invB_step; eauto.
  - eapply invP_step; eauto.
  - eapply invR_step; eauto.
  - eapply invT_step; eauto.
Qed.


(* every history of the machine in which no Get was answered from two different index states is
   linearizable *)
Theorem kv_linearizable_partial_proof : forall mode m,
  reach mode m -> m_split m = [] -> linearizable (m_hist m).
Proof.
  intros mode m R Hs. destruct (inv_reach _ _ R Hs) as (A & B & P & [R1 R2] & T).
  exists (lin m). unfold m_hist.
  assert (Hlt : forall i, In i (lin m) -> i < m_n m) by (intros i Hi; apply (i_lin _ _ B) in Hi; tauto).
  repeat split.
  - apply (i_nodup _ _ B).
  - intros i Hi. exists (op_at m i). split.
    + apply nth_error_map_seq. auto.
    + apply (i_lin _ _ B) in Hi. tauto.
  - intros i o Hn Hc He.
    assert (Hi : i < m_n m).
    { assert (Hx : nth_error (map (op_at m) (seq 0 (m_n m))) i <> None) by congruence.
      apply nth_error_Some in Hx. now rewrite map_length, seq_length in Hx. }
    rewrite nth_error_map_seq in Hn by auto. inversion Hn; subst o.
    destruct (i_complete _ _ B i Hi He) as [H|H]; auto. rewrite Hs in H. destruct H.
  - rewrite pick_map by auto. exact T.
  - rewrite pick_map by auto. exists (m_committed m). unfold lin, ops in *.
    rewrite map_app. apply run_app. eauto.
Qed.

(* a write that commits had all its preconditions true on the committed state it is appended to,
   and a refusal with the precondition verdict is decided on exactly the committed state *)
Theorem precondition_atomic_proof : forall mode m l m',
  reach mode m -> mstep mode m l m' -> m_split m' = [] ->
  (forall i w t, l = LCommit i w t ->
     apply (m_committed m) w = Ok t /\ pre_all (m_committed m) w = true /\
     m_committed m' = m_committed m ++ [t] /\
     m_res m' i = Some (ResTx (slen (m_committed m) + 1)%N)) /\
  (forall i w, l = LRefuse i w EPrecond ->
     apply (m_committed m) w = Err EPrecond /\ pre_all (m_committed m) w = false /\
     m_committed m' = m_committed m /\ m_res m' i = Some (ResErr EPrecond)) /\
  ((forall i w t, l <> LCommit i w t) -> m_committed m' = m_committed m).
Proof.
  intros mode m l m' R St Hs.
  destruct (inv_reach _ _ R (split_mono _ _ _ _ St Hs)) as (A & _).
  pose proof (i_hub _ _ A) as Hhub.
  split; [|split].
  - intros i w t ->. inversion St; subst. proj. rewrite ?Hhub in *.
    assert (Ap : apply (m_committed m) w = Ok t) by (eapply apply_at_commit; eauto).
    repeat split; auto.
    + eapply apply_ok_pre; eauto.
    + now rewrite set_eq.
  - intros i w ->. inversion St; subst. proj. rewrite ?Hhub in *.
    match goal with H : if _ then _ else _ |- _ => simpl in H; rewrite (idx_full m H) in * end.
    repeat split; auto.
    + now apply apply_precond_pre.
    + now rewrite set_eq.
  - intros Hl. inversion St; subst; proj; auto. exfalso. eapply Hl; reflexivity.
Qed.

(* premises satisfiable: a reachable state with a pending call and nothing answered from a stale index *)
Example reach_nonempty : exists m, reach true m /\ m_split m = [] /\ m_n m = 1.
Proof.
  eexists. split; [|split].
  - eapply reach_step; [apply reach_init|].
    exact (s_invoke true m_init (CW (WSet [(0, 1)%N] [])) false ltac:(discriminate)).
  - reflexivity.
  - reflexivity.
Qed.
