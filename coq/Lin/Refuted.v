(* C06: the machine with Get's two index look-ups (the code that exists) has a history that is NOT
   linearizable: ExecAll{k0:=1, k1->k0}; Get(k1) reads the reference k1 (written by tx 1), then
   ExecAll{k0:=2, k1->k0} commits and is indexed, then Get resolves the target k0 and answers
   "k0 = 2 written by tx 2, referenced by k1 as written by tx 1" - a pair no committed state ever
   contained.  Replayed on the Go code by the harness (known finding). *)
From V Require Import Lin.Machine Lin.MachineLemmas.
From Coq Require Import ZifyN ZifyNat ZifyBool.
Local Open Scope nat_scope.

Definition W1 : wop := WExecAll [OKv 0 1; ORef 1 0 0 false] [].
Definition W2 : wop := WExecAll [OKv 0 2; ORef 1 0 0 false] [].
Definition G : rop := RGet 1 0 0 0%Z.
Definition T1 : tx := [EKv 0 1; ERef 1 0 0].
Definition T2 : tx := [EKv 0 2; ERef 1 0 0].
Definition answer : result := ResEntry (mkE 2 0 2 2 (Some (1, 1, 0, 1)%N)).

Definition witness_hist : history :=
  [ mkOp 1 (Some 2%N) (CW W1) (Some (ResTx 1));
    mkOp 3 (Some 5%N) (CR G) (Some answer);
    mkOp 4 (Some 6%N) (CW W2) (Some (ResTx 2)) ].

Ltac dec := first [reflexivity | vm_compute; reflexivity | vm_compute; lia | (vm_compute; discriminate)].

Lemma witness_reach : exists m, reach true m /\ m_hist m = witness_hist.
Proof.
  pose proof (reach_init true) as R.
  eapply reach_step in R; [|exact (s_invoke true _ (CW W1) false ltac:(discriminate))]. cbn in R.
  eapply reach_step in R; [|refine (s_commit true _ 0 W1 T1 0 false _ _ _ _ _); dec]. cbn in R.
  eapply reach_step in R; [|refine (s_index true _ _); dec]. cbn in R.
  eapply reach_step in R; [|refine (s_return_write true _ 0 1 false _ _ _); try dec; right; dec]. cbn in R.
  eapply reach_step in R; [|exact (s_invoke true _ (CR G) false ltac:(discriminate))]. cbn in R.
  eapply reach_step in R; [|refine (s_read1 true _ 1 G 1 false _ _ _ _); try dec; right; dec]. cbn in R.
  eapply reach_step in R; [|exact (s_invoke true _ (CW W2) false ltac:(discriminate))]. cbn in R.
  eapply reach_step in R; [|refine (s_commit true _ 2 W2 T2 1 false _ _ _ _ _); dec]. cbn in R.
  eapply reach_step in R; [|refine (s_index true _ _); dec]. cbn in R.
  eapply reach_step in R; [|refine (s_read2_split true _ 1 G 1 false 1 _ _ _ _); dec]. cbn in R.
  eapply reach_step in R; [|refine (s_return true _ 1 _ _); dec]. cbn in R.
  eapply reach_step in R; [|refine (s_return_write true _ 2 2 false _ _ _); try dec; right; dec]. cbn in R.
  eexists. split; [exact R|]. vm_compute. reflexivity.
Qed.

Lemma nodup_app_l {A} (l1 l2 : list A) : NoDup (l1 ++ l2) -> NoDup l1.
Proof.
  induction l1 as [|a l1 IH]; simpl; intros H; [constructor|].
  inversion H as [|? ? Hn Hr]; subst. constructor; auto.
  intros Hi. apply Hn. apply in_or_app; auto.
Qed.

(* no sequential order of the three calls explains the Get's answer *)
Lemma witness_not_linearizable : ~ linearizable witness_hist.
Proof.
  intros (lin & ND & Hin & Hall & _ & s' & Hrun).
  assert (H1 : In 1 lin) by (apply (Hall 1 _ eq_refl); reflexivity).
  assert (Hdom : forall i, In i lin -> i = 0 \/ i = 1 \/ i = 2).
  { intros i Hi. destruct (Hin i Hi) as (o & Ho & _).
    destruct i as [|[|[|i]]]; auto. simpl in Ho. destruct i; discriminate. }
  apply in_split in H1 as (l1 & l2 & ->).
  assert (Hrun1 : exists s1, run [] (pick witness_hist l1) s1 /\ spec_read s1 G = answer).
  { clear - Hrun. revert Hrun. generalize (@nil tx) as s0. induction l1 as [|x l1 IH]; intros s0 Hrun.
    - unfold witness_hist in Hrun. cbn [app pick nth_error run o_res o_call step_ok] in Hrun.
      destruct Hrun as (r & s1 & Hr & [Hs ->] & _). inversion Hr as [Hr']. rewrite <- Hr' in Hs.
      exists s0. split; [reflexivity|exact Hs].
    - simpl in Hrun. destruct (nth_error witness_hist x) as [o|] eqn:E.
      + simpl in Hrun. destruct Hrun as (r & s1 & Hr & Hs & Hrest).
        destruct (IH _ Hrest) as (s2 & R2 & A2). exists s2. split; auto.
        simpl. rewrite E. simpl. eauto.
      + destruct (IH _ Hrun) as (s2 & R2 & A2). exists s2. split; auto. simpl. rewrite E. auto. }
  destruct Hrun1 as (s1 & R1 & Ans).
  assert (Hl1 : forall i, In i l1 -> i = 0 \/ i = 2).
  { intros i Hi. destruct (Hdom i) as [?|[->|?]]; auto.
    - apply in_or_app; auto.
    - exfalso. apply NoDup_remove_2 in ND. apply ND. apply in_or_app; auto. }
  assert (ND1 : NoDup l1).
  { apply NoDup_remove_1 in ND. now apply nodup_app_l in ND. }
  (* the states the Get can be placed after: [], [T1], [T1; T2] *)
  destruct l1 as [|a l1].
  { simpl in R1. subst s1. vm_compute in Ans. discriminate. }
  destruct (Hl1 a (or_introl eq_refl)) as [->| ->].
  2:{ simpl in R1. destruct R1 as (r & s2 & Hr & Hs & _). inversion Hr; subst r.
      simpl in Hs. destruct Hs as [(t & _ & Bad & _)|(e & _ & Bad & _)]; discriminate. }
  simpl in R1. destruct R1 as (r & s2 & Hr & Hs & R1). inversion Hr; subst r.
  destruct Hs as [(t & Ap & _ & ->)|(e & _ & Bad & _)]; [|discriminate].
  vm_compute in Ap. inversion Ap; subst t. simpl in R1.
  destruct l1 as [|b l1].
  { simpl in R1. subst s1. vm_compute in Ans. discriminate. }
  destruct (Hl1 b (or_intror (or_introl eq_refl))) as [->| ->].
  { inversion ND1 as [|? ? Hn _]. exfalso. apply Hn. simpl; auto. }
  simpl in R1. destruct R1 as (r & s3 & Hr2 & Hs & R1). inversion Hr2; subst r.
  destruct Hs as [(t & Ap2 & _ & ->)|(e & _ & Bad & _)]; [|discriminate].
  vm_compute in Ap2. inversion Ap2; subst t.
  destruct l1 as [|c l1].
  { simpl in R1. subst s1. vm_compute in Ans. discriminate. }
  exfalso. inversion ND1 as [|? ? Hn ND2]. inversion ND2 as [|? ? Hn2 _].
  destruct (Hl1 c (or_intror (or_intror (or_introl eq_refl)))) as [->| ->].
  - apply Hn. simpl; auto.
  - apply Hn2. simpl; auto.
Qed.

Theorem kv_linearizable_refuted_proof : exists mode m, reach mode m /\ ~ linearizable (m_hist m).
Proof.
  destruct witness_reach as (m & R & H). exists true, m. split; auto.
  rewrite H. apply witness_not_linearizable.
Qed.

(* ---- second witness: a snapshot read with SinceTx > 0 served from a reused older snapshot ----
   Set(k0:=1) = tx 1 and Set(k0:=2) = tx 2 are committed, indexed and acknowledged one after the
   other; GetAll([k0], SinceTx=1), invoked afterwards, is answered from the snapshot taken at tx 1
   and returns k0 = 1. *)
Definition S1 : wop := WSet [(0, 1)%N] [].
Definition S2 : wop := WSet [(0, 2)%N] [].
Definition GA : rop := RGetAll [0%N] 1.
Definition stale_answer : result := ResEntries [mkE 1 0 1 1 None].

Definition witness2_hist : history :=
  [ mkOp 1 (Some 2%N) (CW S1) (Some (ResTx 1));
    mkOp 3 (Some 4%N) (CW S2) (Some (ResTx 2));
    mkOp 5 (Some 6%N) (CR GA) (Some stale_answer) ].

Lemma witness2_reach : exists m, reach true m /\ m_hist m = witness2_hist.
Proof.
  pose proof (reach_init true) as R.
  eapply reach_step in R; [|exact (s_invoke true _ (CW S1) false ltac:(discriminate))]. cbn in R.
  eapply reach_step in R; [|refine (s_commit true _ 0 S1 [EKv 0 1] 0 false _ _ _ _ _); dec]. cbn in R.
  eapply reach_step in R; [|refine (s_index true _ _); dec]. cbn in R.
  eapply reach_step in R; [|refine (s_return_write true _ 0 1 false _ _ _); try dec; right; dec]. cbn in R.
  eapply reach_step in R; [|exact (s_invoke true _ (CW S2) false ltac:(discriminate))]. cbn in R.
  eapply reach_step in R; [|refine (s_commit true _ 1 S2 [EKv 0 2] 1 false _ _ _ _ _); dec]. cbn in R.
  eapply reach_step in R; [|refine (s_index true _ _); dec]. cbn in R.
  eapply reach_step in R; [|refine (s_return_write true _ 1 2 false _ _ _); try dec; right; dec]. cbn in R.
  eapply reach_step in R; [|exact (s_invoke true _ (CR GA) false ltac:(discriminate))]. cbn in R.
  eapply reach_step in R; [|refine (s_snap_stale true _ 2 GA 2 false 1 1 _ _ _ _ _ _ _ _ _); dec]. cbn in R.
  eapply reach_step in R; [|refine (s_return true _ 2 _ _); dec]. cbn in R.
  eexists. split; [exact R|]. vm_compute. reflexivity.
Qed.

Lemma witness2_not_linearizable : ~ linearizable witness2_hist.
Proof.
  intros (lin & ND & Hin & Hall & Hrt & s' & Hrun).
  assert (H0 : In 0 lin) by (apply (Hall 0 _ eq_refl); reflexivity).
  assert (H1 : In 1 lin) by (apply (Hall 1 _ eq_refl); reflexivity).
  assert (H2 : In 2 lin) by (apply (Hall 2 _ eq_refl); reflexivity).
  assert (Hdom : forall i, In i lin -> i = 0 \/ i = 1 \/ i = 2).
  { intros i Hi. destruct (Hin i Hi) as (o & Ho & _).
    destruct i as [|[|[|i]]]; auto. simpl in Ho. destruct i; discriminate. }
  apply in_split in H2 as (l1 & l2 & ->).
  (* nothing that returned before the GetAll was invoked can be placed after it *)
  assert (Hl2 : forall i, In i l2 -> False).
  { intros i Hi.
    assert (Hrt' : rt_ordered (pick witness2_hist (2 :: l2))).
    { clear - Hrt. induction l1 as [|x l1 IH]; [exact Hrt|].
      simpl in Hrt. destruct (nth_error witness2_hist x); [destruct Hrt as [_ Hrt]|]; auto. }
    simpl in Hrt'. destruct Hrt' as [Hb _].
    destruct (Hdom i) as [-> | [-> | ->]]; [apply in_or_app; right; right; exact Hi| | |].
    - apply (Hb (mkOp 1 (Some 2%N) (CW S1) (Some (ResTx 1)))).
      + clear - Hi. induction l2 as [|y l2 IH]; [destruct Hi|]. destruct Hi as [->|Hi]; simpl; auto.
        destruct (nth_error witness2_hist y); simpl; auto.
      + exists 2%N. split; [reflexivity|]. simpl. lia.
    - apply (Hb (mkOp 3 (Some 4%N) (CW S2) (Some (ResTx 2)))).
      + clear - Hi. induction l2 as [|y l2 IH]; [destruct Hi|]. destruct Hi as [->|Hi]; simpl; auto.
        destruct (nth_error witness2_hist y); simpl; auto.
      + exists 4%N. split; [reflexivity|]. simpl. lia.
    - apply NoDup_remove_2 in ND. apply ND. apply in_or_app; auto. }
  assert (H0' : In 0 l1).
  { apply in_app_or in H0 as [?|[?|?]]; auto; [discriminate|exfalso; eauto]. }
  assert (H1' : In 1 l1).
  { apply in_app_or in H1 as [?|[?|?]]; auto; [discriminate|exfalso; eauto]. }
  assert (Hrun1 : exists s1, run [] (pick witness2_hist l1) s1 /\ spec_read s1 GA = stale_answer).
  { clear - Hrun. revert Hrun. generalize (@nil tx) as s0. induction l1 as [|x l1 IH]; intros s0 Hrun.
    - unfold witness2_hist in Hrun. cbn [app pick nth_error run o_res o_call step_ok] in Hrun.
      destruct Hrun as (r & s1 & Hr & [Hs ->] & _). inversion Hr as [Hr']. rewrite <- Hr' in Hs.
      exists s0. split; [reflexivity|exact Hs].
    - simpl in Hrun. destruct (nth_error witness2_hist x) as [o|] eqn:E.
      + simpl in Hrun. destruct Hrun as (r & s1 & Hr & Hs & Hrest).
        destruct (IH _ Hrest) as (s2 & R2 & A2). exists s2. split; auto.
        simpl. rewrite E. simpl. eauto.
      + destruct (IH _ Hrun) as (s2 & R2 & A2). exists s2. split; auto. simpl. rewrite E. auto. }
  destruct Hrun1 as (s1 & R1 & Ans).
  assert (Hl1 : forall i, In i l1 -> i = 0 \/ i = 1).
  { intros i Hi. destruct (Hdom i) as [? | [? | ->]]; auto.
    - apply in_or_app; auto.
    - exfalso. apply NoDup_remove_2 in ND. apply ND. apply in_or_app; auto. }
  assert (ND1 : NoDup l1).
  { apply NoDup_remove_1 in ND. now apply nodup_app_l in ND. }
  destruct l1 as [|a l1]; [destruct H0'|].
  destruct (Hl1 a (or_introl eq_refl)) as [->| ->].
  2:{ simpl in R1. destruct R1 as (r & s2 & Hr & Hs & _). inversion Hr; subst r.
      simpl in Hs. destruct Hs as [(t & _ & Bad & _)|(e & _ & Bad & _)]; discriminate. }
  simpl in R1. destruct R1 as (r & s2 & Hr & Hs & R1). inversion Hr; subst r.
  destruct Hs as [(t & Ap & _ & ->)|(e & _ & Bad & _)]; [|discriminate].
  vm_compute in Ap. inversion Ap; subst t. simpl in R1.
  destruct l1 as [|b l1].
  { destruct H1' as [?|[]]. discriminate. }
  destruct (Hl1 b (or_intror (or_introl eq_refl))) as [->| ->].
  { inversion ND1 as [|? ? Hn _]. exfalso. apply Hn. simpl; auto. }
  simpl in R1. destruct R1 as (r & s3 & Hr2 & Hs & R1). inversion Hr2; subst r.
  destruct Hs as [(t & Ap2 & _ & ->)|(e & _ & Bad & _)]; [|discriminate].
  vm_compute in Ap2. inversion Ap2; subst t.
  destruct l1 as [|c l1].
  { simpl in R1. subst s1. vm_compute in Ans. discriminate. }
  exfalso. inversion ND1 as [|? ? Hn ND2]. inversion ND2 as [|? ? Hn2 _].
  destruct (Hl1 c (or_intror (or_intror (or_introl eq_refl)))) as [->| ->].
  - apply Hn. simpl; auto.
  - apply Hn2. simpl; auto.
Qed.

Definition no_get (h : history) : Prop :=
  forall o, In o h -> match o_call o with CR (RGet _ _ _ _) => False | _ => True end.

Theorem snapshot_since_refuted_proof :
  exists mode m, reach mode m /\ no_get (m_hist m) /\ ~ linearizable (m_hist m).
Proof.
  destruct witness2_reach as (m & R & H). exists true, m. split; auto.
  rewrite H. split; [|apply witness2_not_linearizable].
  intros o [<-|[<-|[<-|[]]]]; exact I.
Qed.

(* ---- third witness: online index compaction ----
   Set(k0:=1) = tx 1 is committed, indexed and acknowledged.  CompactIndex re-opens the index from a
   copy dumped before tx 1 (indexed := 0) while the wait hub still says "indexed up to 1".  A
   conditional Set(k0:=2) with KeyMustNotExist(k0), invoked afterwards, passes its wait, has its
   precondition evaluated on the stale (empty) index and commits as tx 2. *)
Definition C2 : wop := WSet [(0, 2)%N] [PMustNotExist 0].

Definition witness3_hist : history :=
  [ mkOp 1 (Some 2%N) (CW S1) (Some (ResTx 1));
    mkOp 3 (Some 4%N) (CW C2) (Some (ResTx 2)) ].

Lemma witness3_reach :
  exists m0 m1 m, reach true m0 /\ mstep true m0 (LCommit 1 C2 [EKv 0 2]) m1 /\
                  pre_all (m_committed m0) C2 = false /\
                  reach true m /\ m_hist m = witness3_hist.
Proof.
  pose proof (reach_init true) as R.
  eapply reach_step in R; [|exact (s_invoke true _ (CW S1) false ltac:(discriminate))]. cbn in R.
  eapply reach_step in R; [|refine (s_commit true _ 0 S1 [EKv 0 1] 0 false _ _ _ _ _); dec]. cbn in R.
  eapply reach_step in R; [|refine (s_index true _ _); dec]. cbn in R.
  eapply reach_step in R; [|refine (s_return_write true _ 0 1 false _ _ _); try dec; right; dec]. cbn in R.
  eapply reach_step in R; [|refine (s_compact true _ 0 _); dec]. cbn in R.
  eapply reach_step in R; [|exact (s_invoke true _ (CW C2) false ltac:(discriminate))]. cbn in R.
  pose proof R as R0.
  match type of R0 with reach _ ?m0 =>
    assert (St : mstep true m0 (LCommit 1 C2 [EKv 0 2])
              (mkM (m_n m0) (m_inv m0) (m_ret m0) (m_call m0)
                 (set (m_res m0) 1 (Some (ResTx (slen (m_committed m0) + 1)%N)))
                 (set (m_phase m0) 1 (PCommitted (S (length (m_committed m0))) false))
                 (m_clock m0) (m_committed m0 ++ [[EKv 0 2]]) (m_indexed m0) (m_hub m0) (m_lo m0)
                 (m_hi m0 ++ [1]) (m_split m0)))
      by (refine (s_commit true _ 1 C2 [EKv 0 2] 1 false _ _ _ _ _); dec)
  end.
  eapply reach_step in R; [|exact St]. cbn in R.
  eapply reach_step in R; [|refine (s_index true _ _); dec]. cbn in R.
  eapply reach_step in R; [|refine (s_index true _ _); dec]. cbn in R.
  eapply reach_step in R; [|refine (s_return_write true _ 1 2 false _ _ _); try dec; right; dec].
  cbn in R.
  eexists _, _, _. split; [exact R0|]. split; [exact St|]. split; [vm_compute; reflexivity|].
  split; [exact R|]. vm_compute. reflexivity.
Qed.

Lemma witness3_not_linearizable : ~ linearizable witness3_hist.
Proof.
  intros (lin & ND & Hin & Hall & _ & s' & Hrun).
  assert (H0 : In 0 lin) by (apply (Hall 0 _ eq_refl); reflexivity).
  assert (H1 : In 1 lin) by (apply (Hall 1 _ eq_refl); reflexivity).
  assert (Hdom : forall i, In i lin -> i = 0 \/ i = 1).
  { intros i Hi. destruct (Hin i Hi) as (o & Ho & _).
    destruct i as [|[|i]]; auto. simpl in Ho. destruct i; discriminate. }
  destruct lin as [|a lin]; [destruct H0|].
  destruct (Hdom a (or_introl eq_refl)) as [-> | ->].
  - (* Set first: the conditional Set must then be refused *)
    simpl in Hrun. destruct Hrun as (r & s1 & Hr & Hs & Hrun). inversion Hr; subst r.
    destruct Hs as [(t & Ap & _ & ->)|(e & _ & Bad & _)]; [|discriminate].
    vm_compute in Ap. inversion Ap; subst t.
    destruct lin as [|b lin]; [destruct H1 as [?|[]]; discriminate|].
    destruct (Hdom b (or_intror (or_introl eq_refl))) as [-> | ->].
    + inversion ND as [|? ? Hn _]. exfalso. apply Hn. simpl; auto.
    + simpl in Hrun. destruct Hrun as (r & s2 & Hr2 & Hs & _). inversion Hr2; subst r.
      destruct Hs as [(t & Ap2 & _ & _)|(e & _ & Bad & _)]; [|discriminate].
      vm_compute in Ap2. discriminate.
  - (* conditional Set first: it cannot be transaction 2 *)
    simpl in Hrun. destruct Hrun as (r & s1 & Hr & Hs & _). inversion Hr; subst r.
    destruct Hs as [(t & _ & Bad & _)|(e & _ & Bad & _)]; discriminate.
Qed.

Definition only_sets (h : history) : Prop :=
  forall o, In o h -> match o_call o with CW (WSet _ _) => True | _ => False end.

(* after an index compaction a conditional write can be committed although its precondition is
   false on the state it is appended to, and the resulting history is not linearizable *)
Theorem compaction_refuted_proof :
  exists mode m0 i w t m1 m,
    reach mode m0 /\ mstep mode m0 (LCommit i w t) m1 /\ pre_all (m_committed m0) w = false /\
    reach mode m /\ only_sets (m_hist m) /\ ~ linearizable (m_hist m).
Proof.
  destruct witness3_reach as (m0 & m1 & m & R0 & St & Pf & R & H).
  exists true, m0, 1, C2, [EKv 0 2], m1, m. repeat split; auto.
  - rewrite H. intros o [<-|[<-|[]]]; exact I.
  - rewrite H. apply witness3_not_linearizable.
Qed.
