(* C06: facts about the sequential specification used by the machine proofs *)
From V Require Import Lin.History.
From Coq Require Import ZifyN ZifyNat ZifyBool.

(* a write without precondition or look-up has the same outcome on every state *)
Lemma apply_indep w s s' : needs_index w = false -> apply s w = apply s' w.
Proof.
  destruct w as [kvs pre| | | |]; simpl; try discriminate.
  destruct pre; [|discriminate]. intros _. reflexivity.
Qed.

Lemma check_pre_ok s pre t t' : check_pre s pre t = Ok t' -> forallb (pre_ok s) pre = true /\ t' = t.
Proof.
  unfold check_pre. destruct (negb (forallb pre_static_ok pre)); [discriminate|].
  destruct (forallb (pre_ok s) pre); [|discriminate]. intros H; inversion H; auto.
Qed.

Lemma check_pre_precond s pre t : check_pre s pre t = Err EPrecond -> forallb (pre_ok s) pre = false.
Proof.
  unfold check_pre. destruct (negb (forallb pre_static_ok pre)); [discriminate|].
  destruct (forallb (pre_ok s) pre); [discriminate|]. reflexivity.
Qed.

(* a committed write had all its preconditions true on the state it was applied to *)
Lemma apply_ok_pre s w t : apply s w = Ok t -> pre_all s w = true.
Proof.
  unfold pre_all. destruct w as [kvs pre|ks|k rk a b pre|st sc k a b|ops pre]; simpl; try reflexivity.
  - destruct (_ || _); [discriminate|]. intros H. now apply check_pre_ok in H as [H _].
  - destruct (_ || _); [discriminate|].
    destruct (check_refkey s k a); simpl; try discriminate.
    destruct (check_target s rk a); simpl; try discriminate.
    intros H. now apply check_pre_ok in H as [H _].
  - destruct (_ || _); [discriminate|].
    destruct (exec_ops s (slen s + 1) [] ops); simpl; try discriminate.
    intros H. now apply check_pre_ok in H as [H _].
Qed.

(* the look-ups never answer with the class reserved for the precondition verdict *)
Lemma resolve_final_class i e rv c : resolve_final i e rv = Err c -> c <> EPrecond.
Proof. destruct e; simpl; intros H; inversion H; discriminate. Qed.

Lemma read_tx_entry_class s t k c : read_tx_entry s t k = Err c -> c <> EPrecond.
Proof.
  unfold read_tx_entry. destruct (_ || _); [intros H; inversion H; discriminate|].
  destruct (nth_error _ _); [|intros H; inversion H; discriminate].
  destruct (tx_find _ _); intros H; inversion H; discriminate.
Qed.

Lemma get_target_class s rk a c : get_target s rk a = Err c -> c <> EPrecond.
Proof.
  unfold get_target. destruct (a =? 0).
  - destruct (klatest s rk) as [[[i e] hc]|]; [apply resolve_final_class|intros H; inversion H; discriminate].
  - destruct (read_tx_entry s a rk) eqn:R; simpl; try discriminate.
    + apply resolve_final_class.
    + intros H; inversion H; subst. eapply read_tx_entry_class; eauto.
Qed.

Lemma resolve_class s i e rv c : resolve s i e rv = Err c -> c <> EPrecond.
Proof.
  destruct e; simpl; try (intros H; inversion H; discriminate).
  destruct (get_target s rk at_) eqn:G; simpl; try discriminate.
  intros H; inversion H; subst. eapply get_target_class; eauto.
Qed.

Lemma get_at_class s1 s2 k a c : get_at s1 s2 k a = Err c -> c <> EPrecond.
Proof.
  unfold get_at. destruct (a =? 0).
  - destruct (klatest s1 k) as [[[i e] hc]|]; [apply resolve_class|intros H; inversion H; discriminate].
  - destruct (read_tx_entry s1 a k) eqn:R; simpl; try discriminate.
    + apply resolve_class.
    + intros H; inversion H; subst. eapply read_tx_entry_class; eauto.
Qed.

Lemma check_target_class s rk a c : check_target s rk a = Err c -> c <> EPrecond.
Proof.
  unfold check_target. destruct (get_at s s rk a) eqn:G; simpl; try discriminate.
  - destruct (e_ref a0); intros H; inversion H; discriminate.
  - intros H; inversion H; subst. eapply get_at_class; eauto.
Qed.

Lemma check_refkey_class s k a c : check_refkey s k a = Err c -> c <> EPrecond.
Proof.
  unfold check_refkey. destruct (get_at s s k a) eqn:G; try discriminate.
  - destruct (e_ref a0); intros H; inversion H; discriminate.
  - destruct (e =? EKeyNotFound) eqn:E; [discriminate|].
    intros H; inversion H; subst. eapply get_at_class; eauto.
Qed.

Lemma exec_ops_class s txid ops : forall kmap c, exec_ops s txid kmap ops = Err c -> c <> EPrecond.
Proof.
  induction ops as [|o ops IH]; simpl; intros kmap c; [discriminate|].
  destruct o as [k v|k rk a b|st sc k a b].
  - destruct (exec_ops s txid (k :: kmap) ops) eqn:X; simpl; try discriminate.
    intros H; inversion H; subst; eauto.
  - destruct (_ && _); [intros H; inversion H; discriminate|].
    destruct (check_refkey s k 0) eqn:C1; simpl; try discriminate.
    2:{ intros H; inversion H; subst. eapply check_refkey_class; eauto. }
    match goal with |- context [if ?b then _ else Ok tt] => destruct b end.
    + destruct (check_target s rk a) eqn:C2; simpl; try discriminate.
      2:{ intros H; inversion H; subst. eapply check_target_class; eauto. }
      destruct (exec_ops s txid kmap ops) eqn:X; simpl; try discriminate.
      intros H; inversion H; subst; eauto.
    + simpl. destruct (exec_ops s txid kmap ops) eqn:X; simpl; try discriminate.
      intros H; inversion H; subst; eauto.
  - destruct (_ && _); [intros H; inversion H; discriminate|].
    match goal with |- context [if ?b then _ else Ok tt] => destruct b end.
    + destruct (check_target s k a) eqn:C2; simpl; try discriminate.
      2:{ intros H; inversion H; subst. eapply check_target_class; eauto. }
      destruct (exec_ops s txid kmap ops) eqn:X; simpl; try discriminate.
      intros H; inversion H; subst; eauto.
    + simpl. destruct (exec_ops s txid kmap ops) eqn:X; simpl; try discriminate.
      intros H; inversion H; subst; eauto.
Qed.

(* a refusal with the precondition verdict means some precondition is false on that state *)
Lemma apply_precond_pre s w : apply s w = Err EPrecond -> pre_all s w = false.
Proof.
  unfold pre_all. destruct w as [kvs pre|ks|k rk a b pre|st sc k a b|ops pre]; simpl.
  - destruct (_ || _); [discriminate|]. apply check_pre_precond.
  - destruct (_ || _); [discriminate|]. destruct (forallb (live s) ks); discriminate.
  - destruct (_ || _); [discriminate|].
    destruct (check_refkey s k a) eqn:C1; simpl; try discriminate.
    2:{ intros H; inversion H; subst. exfalso. eapply check_refkey_class; eauto. }
    destruct (check_target s rk a) eqn:C2; simpl; try discriminate.
    2:{ intros H; inversion H; subst. exfalso. eapply check_target_class; eauto. }
    apply check_pre_precond.
  - destruct (_ || _); [discriminate|].
    destruct (check_target s k a) eqn:C2; simpl; try discriminate.
    intros H; inversion H; subst. exfalso. eapply check_target_class; eauto.
  - destruct (_ || _); [discriminate|].
    destruct (exec_ops s (slen s + 1) [] ops) eqn:X; simpl; try discriminate.
    + apply check_pre_precond.
    + intros H; inversion H; subst. exfalso. eapply exec_ops_class; eauto.
Qed.

(* premises satisfiable: a conditional write that is applied, and one that is refused *)
Example apply_cond_ok : apply [] (WSet [(0, 1)] [PMustNotExist 0]) = Ok [EKv 0 1].
Proof. reflexivity. Qed.
Example apply_cond_refused : apply [[EKv 0 1]] (WSet [(0, 2)] [PMustNotExist 0]) = Err EPrecond.
Proof. reflexivity. Qed.

(* a read never answers with a transaction id *)
Lemma spec_read2_not_tx s1 s2 q id : spec_read2 s1 s2 q <> ResTx id.
Proof.
  destruct q; simpl.
  - destruct (spec_get s1 s2 k since at_ rv); simpl; discriminate.
  - destruct (_ <? _); [discriminate|]. destruct (collect _ _); discriminate.
  - destruct (spec_scan _ _ _ _ _ _ _ _); discriminate.
  - destruct (spec_zscan _ _ _ _ _ _); discriminate.
  - unfold spec_history. repeat (match goal with |- context [if ?b then _ else _] => destruct b end; try discriminate).
  - discriminate.
Qed.

Lemma spec_read2_not_abort s1 s2 q : spec_read2 s1 s2 q <> ResAbort.
Proof.
  destruct q; simpl.
  - destruct (spec_get s1 s2 k since at_ rv); simpl; discriminate.
  - destruct (_ <? _); [discriminate|]. destruct (collect _ _); discriminate.
  - destruct (spec_scan _ _ _ _ _ _ _ _); discriminate.
  - destruct (spec_zscan _ _ _ _ _ _); discriminate.
  - unfold spec_history. repeat (match goal with |- context [if ?b then _ else _] => destruct b end; try discriminate).
  - discriminate.
Qed.
