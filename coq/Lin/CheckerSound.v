(* C06: soundness of the executable checker: an accepted history is linearizable. *)
From V Require Import Lin.Checker.
From Coq Require Import ZifyN ZifyNat ZifyBool.

Lemma list_eqb_eq {A} (eqb : A -> A -> bool) :
  (forall x y, eqb x y = true -> x = y) -> forall a b, list_eqb eqb a b = true -> a = b.
Proof.
  intros H a; induction a as [|x a IH]; intros [|y b] E; simpl in E; try discriminate; auto.
  apply andb_true_iff in E as [E1 E2]. f_equal; auto.
Qed.

Lemma opt_eqb_eq {A} (eqb : A -> A -> bool) :
  (forall x y, eqb x y = true -> x = y) -> forall a b, opt_eqb eqb a b = true -> a = b.
Proof. intros H [x|] [y|] E; simpl in E; try discriminate; auto. f_equal; auto. Qed.

Ltac split_andb :=
  repeat match goal with
         | H : _ && _ = true |- _ => apply andb_true_iff in H; destruct H
         | H : (_ =? _) = true |- _ => apply N.eqb_eq in H
         end.

Lemma entry_eqb_eq a b : entry_eqb a b = true -> a = b.
Proof. destruct a, b; simpl; intros E; try discriminate; split_andb; subst; reflexivity. Qed.

Lemma ref_eqb_eq a b : ref_eqb a b = true -> a = b.
Proof.
  destruct a as [[[a1 a2] a3] a4], b as [[[b1 b2] b3] b4]; simpl; intros E; split_andb; subst; reflexivity.
Qed.

Lemma rentry_eqb_eq a b : rentry_eqb a b = true -> a = b.
Proof.
  destruct a, b; unfold rentry_eqb; simpl; intros E; split_andb; subst.
  f_equal. eapply opt_eqb_eq; eauto using ref_eqb_eq.
Qed.

Lemma zentry_eqb_eq a b : zentry_eqb a b = true -> a = b.
Proof.
  destruct a as [[a1 a2] a3], b as [[b1 b2] b3]; simpl; intros E; split_andb; subst.
  f_equal. now apply rentry_eqb_eq.
Qed.

Lemma hentry_eqb_eq a b : hentry_eqb a b = true -> a = b.
Proof.
  destruct a as [[a1 a2] a3], b as [[b1 b2] b3]; simpl; intros E; split_andb; subst.
  f_equal. now apply entry_eqb_eq.
Qed.

Lemma result_eqb_eq a b : result_eqb a b = true -> a = b.
Proof.
  destruct a, b; simpl; intros E; try discriminate; try (apply N.eqb_eq in E; subst); try reflexivity; f_equal.
  - now apply rentry_eqb_eq.
  - eapply list_eqb_eq; eauto using rentry_eqb_eq.
  - eapply list_eqb_eq; eauto using zentry_eqb_eq.
  - eapply list_eqb_eq; eauto using hentry_eqb_eq.
Qed.

Lemma nodup_nat_sound l : nodup_nat l = true -> NoDup l.
Proof.
  induction l as [|x l IH]; simpl; intros E; [constructor|].
  apply andb_true_iff in E as [E1 E2]. constructor; auto.
  intros HIn. apply negb_true_iff in E1.
  assert (existsb (Nat.eqb x) l = true); [|congruence].
  apply existsb_exists. exists x; split; auto. apply Nat.eqb_refl.
Qed.

Lemma rt_beforeb_sound a b : rt_before a b -> rt_beforeb a b = true.
Proof. intros (r & E & L). unfold rt_beforeb. rewrite E. now apply N.ltb_lt. Qed.

Lemma rt_orderedb_sound l : rt_orderedb l = true -> rt_ordered l.
Proof.
  induction l as [|a l IH]; simpl; intros E; auto.
  apply andb_true_iff in E as [E1 E2]. split; auto.
  intros b Hb Hrt. rewrite forallb_forall in E1. specialize (E1 b Hb).
  apply rt_beforeb_sound in Hrt. rewrite Hrt in E1. discriminate.
Qed.

Lemma step_b_sound s c r s' : step_b s c r = Some s' -> step_ok s c r s'.
Proof.
  unfold step_b, step_b2, step_ok. destruct c as [w|q].
  - destruct (apply s w) as [t|e|] eqn:A; destruct r; try discriminate.
    + destruct (N.eqb_spec id (slen s + 1)); intros E; inversion E; subst. left; eauto.
    + destruct (N.eqb_spec e e0); intros E; inversion E; subst. right; eauto.
  - destruct (result_eqb (spec_read2 s s q) r) eqn:E; intros H; inversion H; subst.
    split; auto. now apply result_eqb_eq.
Qed.

Lemma run_b_sound l : forall s, run_b s l = true -> exists s', run s l s'.
Proof.
  induction l as [|o l IH]; simpl; intros s E; [eauto|].
  destruct (o_res o) as [r|] eqn:R; [|discriminate].
  destruct (step_b s (o_call o) r) as [s1|] eqn:S1; [|discriminate].
  destruct (IH _ E) as [s' Hs']. exists s', r, s1. auto using step_b_sound.
Qed.

Lemma all_from_sound f h : forall i, all_from i f h = true ->
  forall j o, nth_error h j = Some o -> f (i + j)%nat o = true.
Proof.
  induction h as [|x h IH]; simpl; intros i E j o Hj; [destruct j; discriminate|].
  apply andb_true_iff in E as [E1 E2]. destruct j as [|j]; simpl in Hj.
  - inversion Hj; subst. now rewrite Nat.add_0_r.
  - replace (i + S j)%nat with (S i + j)%nat by lia. eauto.
Qed.

(* the validator decides the definition: any list it accepts is a linearization *)
Theorem valid_lin_sound h lin : valid_lin h lin = true -> linearizable h.
Proof.
  unfold valid_lin. intros E.
  apply andb_true_iff in E as [E E5]. apply andb_true_iff in E as [E E4].
  apply andb_true_iff in E as [E E3]. apply andb_true_iff in E as [E1 E2].
  exists lin. repeat split.
  - now apply nodup_nat_sound.
  - intros i Hi. rewrite forallb_forall in E2. specialize (E2 i Hi).
    destruct (nth_error h i) as [o|]; [eauto|discriminate].
  - intros i o Hn Hc He. pose proof (all_from_sound _ _ _ E3 i o Hn) as H. simpl in H.
    rewrite Hc, He in H. simpl in H. apply existsb_exists in H as (x & Hx & Ex).
    apply Nat.eqb_eq in Ex. now subst.
  - now apply rt_orderedb_sound.
  - now apply run_b_sound.
Qed.

Theorem checker_sound_proof : forall h, check h = true -> linearizable h.
Proof. intros h. unfold check. apply valid_lin_sound. Qed.

(* ---- premises satisfiable: a concurrent history the checker accepts ----
   Set(k0 := 7) [1,4] commits as tx 1 while Get(k0) [2,3] overlaps it and sees nothing;
   a later Get(k0) [5,6] sees tx 1. *)
Example check_accepts :
  check [ mkOp 1 (Some 4) (CW (WSet [(0, 7)] [])) (Some (ResTx 1));
          mkOp 2 (Some 3) (CR (RGet 0 0 0 0%Z)) (Some (ResErr EKeyNotFound));
          mkOp 5 (Some 6) (CR (RGet 0 0 0 0%Z)) (Some (ResEntry (mkE 1 0 7 1 None))) ] = true.
Proof. vm_compute. reflexivity. Qed.

(* a stale read after an acknowledged write is rejected *)
Example check_rejects_stale :
  check [ mkOp 1 (Some 2) (CW (WSet [(0, 7)] [])) (Some (ResTx 1));
          mkOp 3 (Some 4) (CR (RGet 0 0 0 0%Z)) (Some (ResErr EKeyNotFound)) ] = false.
Proof. vm_compute. reflexivity. Qed.

(* two KeyMustNotExist writers on the same key that both "win" are rejected *)
Example check_rejects_double_win :
  check [ mkOp 1 (Some 4) (CW (WSet [(0, 7)] [PMustNotExist 0])) (Some (ResTx 1));
          mkOp 2 (Some 3) (CW (WSet [(0, 8)] [PMustNotExist 0])) (Some (ResTx 2)) ] = false.
Proof. vm_compute. reflexivity. Qed.
