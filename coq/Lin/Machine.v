(* C06: the abstract protocol machine of pkg/database over embedded/store, at the granularity of
   what matters for linearizability:

     committed      the committed transactions (store.commit under s.mutex appends one)
     indexed        how many of them the indexer has applied, indexed <= |committed|
                    (the index state is the prefix `firstn indexed committed`)
     hub            what WaitForIndexingUpto compares with (indexer.wHub.DoneUpto): the highest
                    value `indexed` ever had; it differs from `indexed` only after an online
                    index compaction re-opened the index from an older copy
     calls          numbered 0..n-1, each with invocation/return stamps from one clock, a phase,
                    and the response once it is determined

   * a write is evaluated and committed in ONE step (commit lock) on the index, which the code forces
     up to date first whenever the outcome depends on the state (immustore.go precommit:
     hasPreconditions -> WaitForIndexingUpto(currPrecommittedTxID); SetReference/ZAdd/ExecAll:
     WaitForIndexingUpto(lastTxID) under the exclusive database lock; Delete: MVCC read-set
     validated under the commit lock) - guard `needs_index w -> indexed = |committed|`;
   * a default write returns only after indexed >= its id (commit(.., waitForIndexing=true));
     a NoWait write returns right after the commit;
   * a default read captures `committed` at invocation, waits for indexed >= it, then performs its
     first index look-up, and at some later step its second one (Get resolves the target of a
     reference with a second look-up on the live index; every other read uses one snapshot);
     a NoWait read does not wait;
   * a refused write (precondition failed, key not found, referenced key is a reference ...) is
     evaluated on the index like a read; a precondition verdict is produced under the commit lock
     on the up-to-date index.
   mode = true : all writes wait (reads may be NoWait);  mode = false: all reads wait (writes may
   be NoWait).  The default API ("default waiting semantics") is the intersection of both.

   The runtime scheduler is represented by the nondeterministic choice of the next step.
   Ghost components (no influence on behaviour): m_lo / m_hi, the linearization being built
   (m_lo: calls linearized within the indexed prefix, m_hi: committed writes not yet indexed), and
   m_split: Gets whose two look-ups saw different index states, and snapshot reads with SinceTx > 0
   served from a reused older snapshot, whose response differs from what a single look-up on the
   current index would have given; and a marker for every index compaction that moved the index
   back.
   Definitions only; proofs in MachineProofs.v. *)
From V Require Export Lin.History.
Local Open Scope nat_scope.

Inductive phase :=
| PNone
| PInvoked (c0 : nat) (nw : bool)     (* c0 = |committed| at invocation, nw = NoWait *)
| PRead1 (c0 : nat) (nw : bool) (s1 : nat)   (* first look-up done when indexed was s1 *)
| PCommitted (id : nat) (nw : bool)
| PAnswered
| PDone.

Record mstate := mkM {
  m_n : nat;
  m_inv : nat -> N;
  m_ret : nat -> option N;
  m_call : nat -> call;
  m_res : nat -> option result;
  m_phase : nat -> phase;
  m_clock : N;
  m_committed : state;
  m_indexed : nat;
  m_hub : nat;
  m_lo : list nat;
  m_hi : list nat;
  m_split : list nat }.

Definition set {A} (f : nat -> A) (i : nat) (x : A) : nat -> A :=
  fun j => if Nat.eqb j i then x else f j.

Definition m_init : mstate :=
  mkM 0 (fun _ => 0%N) (fun _ => None) (fun _ => CR RCount) (fun _ => None) (fun _ => PNone)
      1%N [] 0 0 [] [] [].

Definition idx (m : mstate) : state := firstn (m_indexed m) (m_committed m).
Definition is_write (c : call) : bool := match c with CW _ => true | CR _ => false end.

Inductive label :=
| LInvoke (c : call) (nw : bool)
| LCommit (i : nat) (w : wop) (t : tx)
| LRefuse (i : nat) (w : wop) (e : N)
| LAbort (i : nat)
| LIndex
| LRead1 (i : nat)
| LRead2 (i : nat)
| LSnap (i : nat)
| LCompact (p : nat)
| LReturn (i : nat).

Inductive mstep (mode : bool) : mstate -> label -> mstate -> Prop :=
| s_invoke m c nw :
    (nw = true -> is_write c = negb mode) ->
    mstep mode m (LInvoke c nw)
      (mkM (S (m_n m)) (set (m_inv m) (m_n m) (m_clock m)) (m_ret m) (set (m_call m) (m_n m) c)
           (m_res m) (set (m_phase m) (m_n m) (PInvoked (length (m_committed m)) nw))
           (m_clock m + 1)%N (m_committed m) (m_indexed m) (m_hub m) (m_lo m) (m_hi m) (m_split m))
| s_commit m i w t c0 nw :
    i < m_n m -> m_call m i = CW w -> m_phase m i = PInvoked c0 nw ->
    (needs_index w = true -> m_hub m = length (m_committed m)) ->
    apply (idx m) w = Ok t ->
    mstep mode m (LCommit i w t)
      (mkM (m_n m) (m_inv m) (m_ret m) (m_call m)
           (set (m_res m) i (Some (ResTx (slen (m_committed m) + 1)%N)))
           (set (m_phase m) i (PCommitted (S (length (m_committed m))) nw))
           (m_clock m) (m_committed m ++ [t]) (m_indexed m) (m_hub m) (m_lo m) (m_hi m ++ [i]) (m_split m))
| s_refuse m i w e c0 nw :
    i < m_n m -> m_call m i = CW w -> m_phase m i = PInvoked c0 nw ->
    (if (e =? EPrecond)%N then m_hub m = length (m_committed m) else c0 <= m_hub m) ->
    apply (idx m) w = Err e ->
    mstep mode m (LRefuse i w e)
      (mkM (m_n m) (m_inv m) (m_ret m) (m_call m) (set (m_res m) i (Some (ResErr e)))
           (set (m_phase m) i PAnswered)
           (m_clock m) (m_committed m) (m_indexed m) (m_hub m) (m_lo m ++ [i]) (m_hi m) (m_split m))
| s_abort m i c0 nw :
    i < m_n m -> m_phase m i = PInvoked c0 nw ->
    mstep mode m (LAbort i)
      (mkM (m_n m) (m_inv m) (m_ret m) (m_call m) (set (m_res m) i (Some ResAbort))
           (set (m_phase m) i PAnswered)
           (m_clock m) (m_committed m) (m_indexed m) (m_hub m) (m_lo m) (m_hi m) (m_split m))
| s_index m :
    m_indexed m < length (m_committed m) ->
    mstep mode m LIndex
      (mkM (m_n m) (m_inv m) (m_ret m) (m_call m) (m_res m) (m_phase m)
           (m_clock m) (m_committed m) (S (m_indexed m)) (Nat.max (m_hub m) (S (m_indexed m)))
           (m_lo m ++ firstn 1 (m_hi m)) (skipn 1 (m_hi m)) (m_split m))
| s_read1 m i q c0 nw :
    i < m_n m -> m_call m i = CR q -> m_phase m i = PInvoked c0 nw ->
    (nw = true \/ c0 <= m_hub m) ->
    mstep mode m (LRead1 i)
      (mkM (m_n m) (m_inv m) (m_ret m) (m_call m) (m_res m)
           (set (m_phase m) i (PRead1 c0 nw (m_indexed m)))
           (m_clock m) (m_committed m) (m_indexed m) (m_hub m) (m_lo m) (m_hi m) (m_split m))
| s_read2 m i q c0 nw s1 :
    i < m_n m -> m_call m i = CR q -> m_phase m i = PRead1 c0 nw s1 ->
    spec_read2 (firstn s1 (m_committed m)) (idx m) q = spec_read (idx m) q ->
    mstep mode m (LRead2 i)
      (mkM (m_n m) (m_inv m) (m_ret m) (m_call m)
           (set (m_res m) i (Some (spec_read2 (firstn s1 (m_committed m)) (idx m) q)))
           (set (m_phase m) i PAnswered)
           (m_clock m) (m_committed m) (m_indexed m) (m_hub m) (m_lo m ++ [i]) (m_hi m) (m_split m))
| s_read2_split m i q c0 nw s1 :
    i < m_n m -> m_call m i = CR q -> m_phase m i = PRead1 c0 nw s1 ->
    spec_read2 (firstn s1 (m_committed m)) (idx m) q <> spec_read (idx m) q ->
    mstep mode m (LRead2 i)
      (mkM (m_n m) (m_inv m) (m_ret m) (m_call m)
           (set (m_res m) i (Some (spec_read2 (firstn s1 (m_committed m)) (idx m) q)))
           (set (m_phase m) i PAnswered)
           (m_clock m) (m_committed m) (m_indexed m) (m_hub m) (m_lo m) (m_hi m) (i :: m_split m))
(* GetAll / Scan / ZScan with SinceTx > 0: the snapshot handed out may be a reused one, i.e. the
   index state after any p transactions with SinceTx <= p <= indexed (ZScan takes two snapshots,
   p for the sorted-set index and p2 for the key-value index) *)
| s_snap m i q c0 nw p p2 :
    i < m_n m -> m_call m i = CR q -> m_phase m i = PInvoked c0 nw ->
    (0 < snap_since q)%N -> N.to_nat (snap_since q) <= p -> p <= m_indexed m ->
    N.to_nat (snap_since q) <= p2 -> p2 <= m_indexed m ->
    (mode = true \/ c0 <= m_hub m) ->
    spec_read2 (firstn p (m_committed m)) (firstn p2 (m_committed m)) q = spec_read (idx m) q ->
    mstep mode m (LSnap i)
      (mkM (m_n m) (m_inv m) (m_ret m) (m_call m)
           (set (m_res m) i (Some (spec_read2 (firstn p (m_committed m)) (firstn p2 (m_committed m)) q)))
           (set (m_phase m) i PAnswered)
           (m_clock m) (m_committed m) (m_indexed m) (m_hub m) (m_lo m ++ [i]) (m_hi m) (m_split m))
| s_snap_stale m i q c0 nw p p2 :
    i < m_n m -> m_call m i = CR q -> m_phase m i = PInvoked c0 nw ->
    (0 < snap_since q)%N -> N.to_nat (snap_since q) <= p -> p <= m_indexed m ->
    N.to_nat (snap_since q) <= p2 -> p2 <= m_indexed m ->
    spec_read2 (firstn p (m_committed m)) (firstn p2 (m_committed m)) q <> spec_read (idx m) q ->
    mstep mode m (LSnap i)
      (mkM (m_n m) (m_inv m) (m_ret m) (m_call m)
           (set (m_res m) i (Some (spec_read2 (firstn p (m_committed m)) (firstn p2 (m_committed m)) q)))
           (set (m_phase m) i PAnswered)
           (m_clock m) (m_committed m) (m_indexed m) (m_hub m) (m_lo m) (m_hi m) (i :: m_split m))
(* CompactIndex (indexer.restartIndex): the index is closed and re-opened from the compacted copy,
   which was dumped from an older snapshot (p < indexed transactions); the indexer then re-indexes
   from there, but the hub the waits look at keeps its high-water mark *)
| s_compact m p :
    p < m_indexed m ->
    mstep mode m (LCompact p)
      (mkM (m_n m) (m_inv m) (m_ret m) (m_call m) (m_res m) (m_phase m)
           (m_clock m) (m_committed m) p (m_hub m) (m_lo m) (m_hi m) (m_n m :: m_split m))
| s_return_write m i id nw :
    i < m_n m -> m_phase m i = PCommitted id nw ->
    (nw = true \/ id <= m_hub m) ->
    mstep mode m (LReturn i)
      (mkM (m_n m) (m_inv m) (set (m_ret m) i (Some (m_clock m))) (m_call m) (m_res m)
           (set (m_phase m) i PDone)
           (m_clock m + 1)%N (m_committed m) (m_indexed m) (m_hub m) (m_lo m) (m_hi m) (m_split m))
| s_return m i :
    i < m_n m -> m_phase m i = PAnswered ->
    mstep mode m (LReturn i)
      (mkM (m_n m) (m_inv m) (set (m_ret m) i (Some (m_clock m))) (m_call m) (m_res m)
           (set (m_phase m) i PDone)
           (m_clock m + 1)%N (m_committed m) (m_indexed m) (m_hub m) (m_lo m) (m_hi m) (m_split m)).

Inductive reach (mode : bool) : mstate -> Prop :=
| reach_init : reach mode m_init
| reach_step m l m' : reach mode m -> mstep mode m l m' -> reach mode m'.

(* the call/return history recorded by the machine *)
Definition op_at (m : mstate) (i : nat) : oprec :=
  mkOp (m_inv m i) (m_ret m i) (m_call m i) (m_res m i).
Definition m_hist (m : mstate) : history := map (op_at m) (seq 0 (m_n m)).
