(* C06: executable linearizability checker for recorded call/return histories.

   check h = valid_lin h (build_lin h):
     build_lin  proposes a linearization (a list of positions of h): the successful writes in the
                order of the transaction ids the API returned, every other call (reads, refused
                writes) placed after the smallest prefix of the writes that (i) contains every write
                that returned before the call was invoked, (ii) is not shorter than the prefix chosen
                for any call that returned before it was invoked, (iii) precedes every write invoked
                after it returned, and (iv) on which the specification gives the recorded response;
     valid_lin  decides, independently of how the proposal was found, every clause of the
                definition of `linearizable` for it.
   Only valid_lin is trusted by checker_sound; build_lin is a search heuristic.
   Definitions only; proofs in CheckerSound.v. *)
From V Require Export Lin.History Base.Hex.

(* ---- decidable equality on responses ---- *)
Definition entry_eqb (a b : entry) : bool :=
  match a, b with
  | EKv k v, EKv k' v' => (k =? k') && (v =? v')
  | EDel k, EDel k' => k =? k'
  | ERef k r a, ERef k' r' a' => (k =? k') && (r =? r') && (a =? a')
  | EZ s c k a, EZ s' c' k' a' => (s =? s') && (c =? c') && (k =? k') && (a =? a')
  | _, _ => false
  end.
Definition ref_eqb (a b : N * N * N * N) : bool :=
  let '(a1, a2, a3, a4) := a in let '(b1, b2, b3, b4) := b in
  (a1 =? b1) && (a2 =? b2) && (a3 =? b3) && (a4 =? b4).
Definition rentry_eqb (a b : rentry) : bool :=
  (e_tx a =? e_tx b) && (e_key a =? e_key b) && (e_val a =? e_val b) && (e_rev a =? e_rev b) &&
  opt_eqb ref_eqb (e_ref a) (e_ref b).
Definition zentry_eqb (a b : N * N * rentry) : bool :=
  let '(a1, a2, a3) := a in let '(b1, b2, b3) := b in (a1 =? b1) && (a2 =? b2) && rentry_eqb a3 b3.
Definition hentry_eqb (a b : N * N * entry) : bool :=
  let '(a1, a2, a3) := a in let '(b1, b2, b3) := b in (a1 =? b1) && (a2 =? b2) && entry_eqb a3 b3.
Definition result_eqb (a b : result) : bool :=
  match a, b with
  | ResTx i, ResTx j => i =? j
  | ResErr i, ResErr j => i =? j
  | ResEntry x, ResEntry y => rentry_eqb x y
  | ResEntries x, ResEntries y => list_eqb rentry_eqb x y
  | ResZ x, ResZ y => list_eqb zentry_eqb x y
  | ResHist x, ResHist y => list_eqb hentry_eqb x y
  | ResCount i, ResCount j => i =? j
  | ResAbort, ResAbort => true
  | _, _ => false
  end.

(* ---- the validator ---- *)
Definition rt_beforeb (a b : oprec) : bool :=
  match o_ret a with Some r => r <? o_inv b | None => false end.
Fixpoint rt_orderedb (l : list oprec) : bool :=
  match l with
  | [] => true
  | a :: r => forallb (fun b => negb (rt_beforeb b a)) r && rt_orderedb r
  end.

(* step_ok as a function; s2 is the state used for the second look-up of Get (= s for the
   sequential specification) *)
Definition step_b2 (s s2 : state) (c : call) (r : result) : option state :=
  match c with
  | CW w =>
      match apply s w, r with
      | Ok t, ResTx id => if id =? slen s + 1 then Some (s ++ [t]) else None
      | Err e, ResErr e' => if e =? e' then Some s else None
      | _, _ => None
      end
  | CR q => if result_eqb (spec_read2 s s2 q) r then Some s else None
  end.
Definition step_b (s : state) (c : call) (r : result) : option state := step_b2 s s c r.

Fixpoint run_b (s : state) (l : list oprec) : bool :=
  match l with
  | [] => true
  | o :: rest =>
      match o_res o with
      | None => false
      | Some r => match step_b s (o_call o) r with Some s1 => run_b s1 rest | None => false end
      end
  end.

Fixpoint nodup_nat (l : list nat) : bool :=
  match l with [] => true | x :: r => negb (existsb (Nat.eqb x) r) && nodup_nat r end.

Fixpoint all_from (i : nat) (f : nat -> oprec -> bool) (h : history) : bool :=
  match h with [] => true | o :: r => f i o && all_from (S i) f r end.

Definition valid_lin (h : history) (lin : list nat) : bool :=
  nodup_nat lin &&
  forallb (fun i => match nth_error h i with Some o => effective o | None => false end) lin &&
  all_from 0 (fun i o => negb (completed o && effective o) || existsb (Nat.eqb i) lin) h &&
  rt_orderedb (pick h lin) &&
  run_b [] (pick h lin).

(* ---- the proposal ---- *)
Definition write_id (o : oprec) : option N :=
  match o_call o, o_res o with CW _, Some (ResTx id) => Some id | _, _ => None end.
Fixpoint index_from (i : nat) (h : history) : list (nat * oprec) :=
  match h with [] => [] | o :: r => (i, o) :: index_from (S i) r end.
Definition find_write (ih : list (nat * oprec)) (id : N) : option (nat * oprec) :=
  find (fun x => match write_id (snd x) with Some j => j =? id | None => false end) ih.

(* replay of the successful writes in id order: the committed transactions *)
Fixpoint replay (ih : list (nat * oprec)) (fuel : nat) (id : N) (s : state) : state :=
  match fuel with
  | O => s
  | S f => match find_write ih id with
           | Some (_, o) => match o_call o with
                            | CW w => match apply s w with
                                      | Ok t => replay ih f (id + 1) (s ++ [t])
                                      | _ => s
                                      end
                            | _ => s
                            end
           | None => s
           end
  end.

Definition prefix_of (txs : state) (p : N) : state := firstn (N.to_nat p) txs.

(* smallest / largest admissible prefix for a non-write call o, from real-time order with the
   successful writes *)
Definition lo_writes (ih : list (nat * oprec)) (o : oprec) : N :=
  fold_left (fun m x => match write_id (snd x) with
                        | Some id => if rt_beforeb (snd x) o then N.max m id else m
                        | None => m end) ih 0.
Definition hi_writes (ih : list (nat * oprec)) (n : N) (o : oprec) : N :=
  fold_left (fun m x => match write_id (snd x) with
                        | Some id => if rt_beforeb o (snd x) then N.min m (id - 1) else m
                        | None => m end) ih n.

(* first p in [lo, lo+fuel) .. hi accepted by ok *)
Fixpoint search (ok : N -> bool) (fuel : nat) (p hi : N) : option N :=
  match fuel with
  | O => None
  | S f => if hi <? p then None else if ok p then Some p else search ok f (p + 1) hi
  end.

(* others: effective calls that are not successful writes, in history order (= invocation order in
   the harness output); each gets a prefix length *)
Definition is_other (o : oprec) : bool :=
  effective o && match write_id o with Some _ => false | None => true end.

Fixpoint assign (ih : list (nat * oprec)) (txs : state) (n : N) (todo : list (nat * oprec))
         (done : list (nat * oprec * N)) : list (nat * oprec * N) :=
  match todo with
  | [] => rev done
  | (i, o) :: rest =>
      if is_other o then
        let lo1 := lo_writes ih o in
        let lo2 := fold_left (fun m x => let '(_, a, p) := x in if rt_beforeb a o then N.max m p else m) done 0 in
        let lo := N.max lo1 lo2 in
        let hi := hi_writes ih n o in
        let ok p := match o_res o with
                    | Some r => match step_b (prefix_of txs p) (o_call o) r with Some _ => true | None => false end
                    | None => false end in
        let p := match search ok (S (N.to_nat n)) lo hi with Some p => p | None => lo end in
        assign ih txs n rest ((i, o, p) :: done)
      else assign ih txs n rest done
  end.

Fixpoint slots (ih : list (nat * oprec)) (asg : list (nat * oprec * N)) (fuel : nat) (p : N) : list nat :=
  let here := map (fun x => fst (fst x)) (filter (fun x => snd x =? p) asg) in
  let w := if p =? 0 then [] else match find_write ih p with Some (i, _) => [i] | None => [] end in
  match fuel with
  | O => w ++ here
  | S f => w ++ here ++ slots ih asg f (p + 1)
  end.

Definition n_writes (h : history) : nat :=
  length (filter (fun o => match write_id o with Some _ => effective o | None => false end) h).

Definition build_lin (h : history) : list nat :=
  let ih := index_from 0 h in
  let n := n_writes h in
  let txs := replay ih n 1 [] in
  let asg := assign ih txs (N.of_nat n) ih [] in
  slots ih asg n 0.

Definition check (h : history) : bool := valid_lin h (build_lin h).

(* ---- tolerance used ONLY by the correspondence (Tie/C06.v), never by a theorem: the same
   validation, except that a Get is also accepted when its two index look-ups (entry, then target
   of the reference) are explained by two different prefixes inside the call's real-time window,
   and a snapshot read with SinceTx > 0 when it is explained by an older prefix that includes
   SinceTx - the two behaviours of the code recorded as known findings ---- *)
Definition is_get (o : oprec) : bool :=
  match o_call o with CR (RGet _ _ _ _) => true | _ => false end.
Fixpoint range (fuel : nat) (lo : N) : list N :=
  match fuel with O => [] | S f => lo :: range f (lo + 1) end.
Definition get_split_ok (ih : list (nat * oprec)) (txs : state) (n : N) (o : oprec) : bool :=
  let lo := lo_writes ih o in
  let hi := hi_writes ih n o in
  let ps := filter (fun p => p <=? hi) (range (S (N.to_nat (hi - lo))) lo) in
  match o_res o with
  | Some r => existsb (fun p1 => existsb (fun p2 =>
                 match step_b2 (prefix_of txs p1) (prefix_of txs p2) (o_call o) r with
                 | Some _ => true | None => false end) ps) ps
  | None => false
  end.
(* GetAll / Scan / ZScan with SinceTx > 0 served from a reused snapshot: any prefix that includes
   SinceTx and precedes every write invoked after the call returned (second known finding); ZScan
   has two snapshots, hence two prefixes *)
Definition stale_ok (ih : list (nat * oprec)) (txs : state) (n : N) (o : oprec) : bool :=
  match o_call o, o_res o with
  | CR q, Some r =>
      let since := snap_since q in
      let hi := hi_writes ih n o in
      let ps := filter (fun p => p <=? hi) (range (S (N.to_nat (hi - since))) since) in
      (0 <? since) &&
      existsb (fun p1 => existsb (fun p2 =>
                 match step_b2 (prefix_of txs p1) (prefix_of txs p2) (o_call o) r with
                 | Some _ => true | None => false end) ps) ps
  | _, _ => false
  end.
Fixpoint run_relaxed (ih : list (nat * oprec)) (txs : state) (n : N) (s : state) (l : list oprec) : bool :=
  match l with
  | [] => true
  | o :: rest =>
      match o_res o with
      | None => false
      | Some r => match step_b s (o_call o) r with
                  | Some s1 => run_relaxed ih txs n s1 rest
                  | None => ((is_get o && get_split_ok ih txs n o) || stale_ok ih txs n o) && run_relaxed ih txs n s rest
                  end
      end
  end.
Definition check_relaxed (h : history) : bool :=
  let ih := index_from 0 h in
  let n := n_writes h in
  let txs := replay ih n 1 [] in
  let lin := build_lin h in
  nodup_nat lin &&
  forallb (fun i => match nth_error h i with Some o => effective o | None => false end) lin &&
  all_from 0 (fun i o => negb (completed o && effective o) || existsb (Nat.eqb i) lin) h &&
  rt_orderedb (pick h lin) &&
  run_relaxed ih txs (N.of_nat n) [] (pick h lin).
