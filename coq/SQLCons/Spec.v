(* C12 — the notions the property theorems are stated with (definitions only, no proofs):
   what "no duplicates under the UNIQUE index" and "fits type and length" mean, which statements a
   partial theorem excludes, and the witness histories of the refutations. *)
From V Require Import SQLCons.Model.
From Coq Require Import ZArith.
Open Scope N_scope.

(* no two live rows hold the same value under the UNIQUE index: the same v, or the same (v, s) for the
   composite index (NULL counts as a value, as the index treats it) *)
Definition unique_ok (g : cfg) (c : cstate) : Prop :=
  c_uidx c = true ->
  forall k1 r1 k2 r2, In (k1, r1) (live_rows c) -> In (k2, r2) (live_rows c) -> uvals g r1 = uvals g r2 -> k1 = k2.


(* values fit their declared type and length *)
Definition tl_ok (g : cfg) (r : row) : Prop :=
  (r_v r = VNull \/ exists z, r_v r = VInt z /\ in_i64 z = true) /\
  (r_s r = VNull \/ exists s, r_s r = VStr s /\ len s <= k_maxlen g).


(* ---------- statements that a tracked guard covers ---------- *)
(* nn / ck say which of NOT NULL / CHECK the caller wants preserved.  With the repaired code every
   statement is safe; with the code as it is, the statements that assign NULL (resp. a value violating
   the CHECK) to v through UPDATE / ON CONFLICT DO UPDATE are not. *)
Definition stmt_safe (g : cfg) (fx : fixes) (nn ck : bool) (s : stmt) : bool :=
  match s with
  | SIns (MDoUpdate true x) _ =>
      (negb nn || fx_notnull fx || negb (k_notnull g && is_null x)) &&
      (negb ck || fx_check fx || check_ok g x)
  | SUpd _ true x => negb nn || fx_notnull fx || negb (k_notnull g && is_null x)
  | _ => true
  end.


(* an event is safe when its statements are *)
Definition ev_safe (g : cfg) (fx : fixes) (nn ck : bool) (ev : event) : bool :=
  match snd ev with
  | AStmt s => stmt_safe g fx nn ck s
  | AAuto ss => forallb (stmt_safe g fx nn ck) ss
  | _ => true
  end.


(* INSERT statements, with or without ON CONFLICT DO NOTHING *)
Definition plain_insert (s : stmt) : bool :=
  match s with SIns MInsert _ | SIns MDoNothing _ => true | _ => false end.


(* only the uniqueness repair switched on *)
Definition fix_unique_only : fixes := mkFix true false false.

(* ---------- witness histories ---------- *)
Definition g_plain : cfg := mkCfg false false 3 false false.
Definition g_nn : cfg := mkCfg false true 3 false false.
Definition g_ck : cfg := mkCfg false false 3 true false.
Definition ins1 (k v : Z) : action := AAuto [SIns MInsert [(Some (VInt k), VInt v, VNull)]].

(* CREATE UNIQUE INDEX ON t(v); INSERT (1,10); UPDATE t SET v=20 WHERE id=1; INSERT (2,10); INSERT (3,10) *)
Definition wit_unique : list event :=
  [(0, ADdl true); (0, ins1 1 10); (0, AAuto [SUpd (WId 1) true (VInt 20)]); (0, ins1 2 10); (0, ins1 3 10)].
(* INSERT (1,5); INSERT (2,10); INSERT (3,10); DELETE WHERE id=1; CREATE UNIQUE INDEX ON t(v) *)
Definition wit_create : list event :=
  [(0, ins1 1 5); (0, ins1 2 10); (0, ins1 3 10); (0, AAuto [SDel (WId 1)]); (0, ADdl true)].
(* the same duplicate through two concurrent sessions: no read conflict at either commit *)
Definition wit_unique_conc : list event :=
  [(0, ADdl true); (0, ins1 1 10); (0, AAuto [SUpd (WId 1) true (VInt 20)]);
   (0, ABegin); (1, ABegin);
   (0, AStmt (SIns MInsert [(Some (VInt 2), VInt 10, VNull)]));
   (1, AStmt (SIns MInsert [(Some (VInt 3), VInt 10, VNull)]));
   (0, ACommit); (1, ACommit)].
(* NOT NULL: INSERT (1,10); UPDATE t SET v = NULL WHERE id = 1 *)
Definition wit_nn_update : list event := [(0, ins1 1 10); (0, AAuto [SUpd (WId 1) true VNull])].
Definition wit_nn_conflict : list event :=
  [(0, ins1 1 10); (0, AAuto [SIns (MDoUpdate true VNull) [(Some (VInt 1), VInt 3, VNull)]])].
(* CHECK (v >= 0): INSERT (1,10); INSERT (1,3) ON CONFLICT DO UPDATE SET v = -5 *)
Definition wit_ck_conflict : list event :=
  [(0, ins1 1 10); (0, AAuto [SIns (MDoUpdate true (VInt (-5))) [(Some (VInt 1), VInt 3, VNull)]])].

Definition dup_rows (g : cfg) (c : cstate) : Prop :=
  c_uidx c = true /\ exists k1 r1 k2 r2, In (k1, r1) (live_rows c) /\ In (k2, r2) (live_rows c) /\
                                        uvals g r1 = uvals g r2 /\ k1 <> k2.
