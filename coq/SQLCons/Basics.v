(* C12 — basic facts about the model's data structures: association lists, the committed row
   store, well-formedness of committed states, key encodings. *)
From V Require Import SQLCons.Model.
From Coq Require Import ZArith Lia.
From Coq Require Import ZifyN ZifyNat ZifyBool.
Open Scope N_scope.

(* ---------- booleans on bytes / values ---------- *)
Lemma bytes_eqb_refl a : bytes_eqb a a = true.
Proof.
  unfold bytes_eqb. induction a as [|x a IH]; cbn [list_eqb]; auto.
  rewrite N.eqb_refl; exact IH.
Qed.
Lemma bytes_eqb_eq a b : bytes_eqb a b = true -> a = b.
Proof.
  unfold bytes_eqb. revert b; induction a as [|x a IH]; intros [|y b]; cbn [list_eqb]; try discriminate; auto.
  intros H; apply andb_prop in H as [H1 H2]. apply N.eqb_eq in H1. f_equal; auto.
Qed.
Lemma bytes_eqb_neq a b : bytes_eqb a b = false -> a <> b.
Proof. intros H E; subst; rewrite bytes_eqb_refl in H; discriminate. Qed.

Lemma val_eqb_eq a b : val_eqb a b = true -> a = b.
Proof.
  destruct a, b; simpl; try discriminate; auto.
  - intros H; apply Z.eqb_eq in H; congruence.
  - intros H; apply bytes_eqb_eq in H; congruence.
Qed.
Lemma val_eqb_refl a : val_eqb a a = true.
Proof. destruct a; simpl; auto. apply Z.eqb_refl. apply bytes_eqb_refl. Qed.

Lemma has_prefix_app p r : has_prefix p (p ++ r) = true.
Proof.
  unfold has_prefix. rewrite app_length.
  destruct (Nat.ltb_spec (length p + length r) (length p)); [lia|].
  rewrite firstn_app, Nat.sub_diag, firstn_all; simpl. rewrite app_nil_r. apply bytes_eqb_refl.
Qed.

(* ---------- association lists ---------- *)
Lemma alookup_aset {A} k k' (x : A) l :
  alookup k' (aset k x l) = if (k' =? k)%Z then Some x else alookup k' l.
Proof.
  induction l as [|[k0 y] l IH]; simpl.
  - destruct (Z.eqb_spec k' k); auto.
  - destruct (Z.eqb_spec k k0).
    + subst. simpl. destruct (Z.eqb_spec k' k0); auto.
    + simpl. destruct (Z.eqb_spec k' k0).
      * subst. destruct (Z.eqb_spec k0 k); congruence.
      * exact IH.
Qed.

Lemma aset_keys {A} k (x : A) l z : In z (map fst (aset k x l)) -> z = k \/ In z (map fst l).
Proof.
  induction l as [|[k0 y] l IH]; simpl.
  - intros [H|[]]; auto.
  - destruct (Z.eqb_spec k k0); simpl.
    + intros [H|H]; auto.
    + intros [H|H]; auto. destruct (IH H); auto.
Qed.

Lemma aset_nodup {A} k (x : A) l : NoDup (map fst l) -> NoDup (map fst (aset k x l)).
Proof.
  induction l as [|[k0 y] l IH]; simpl; intros H.
  - constructor; [simpl; tauto | constructor].
  - inversion H as [|? ? Hn Hd]; subst. destruct (Z.eqb_spec k k0); simpl.
    + subst. constructor; auto.
    + constructor; auto. intros Hi. apply aset_keys in Hi as [Hi|Hi]; congruence.
Qed.

Lemma alookup_in {A} k (x : A) l : alookup k l = Some x -> In (k, x) l.
Proof.
  induction l as [|[k0 y] l IH]; simpl; try discriminate.
  destruct (Z.eqb_spec k k0); intros H.
  - inversion H; subst; auto.
  - right; auto.
Qed.
Lemma alookup_none {A} k (l : list (Z * A)) : alookup k l = None -> ~ In k (map fst l).
Proof.
  induction l as [|[k0 y] l IH]; simpl; auto.
  destruct (Z.eqb_spec k k0); try discriminate. intros H [E|Hi]; [congruence|]. exact (IH H Hi).
Qed.
Lemma in_alookup {A} k (x : A) l : NoDup (map fst l) -> In (k, x) l -> alookup k l = Some x.
Proof.
  induction l as [|[k0 y] l IH]; simpl; intros Hn [].
  - inversion H; subst. rewrite Z.eqb_refl; auto.
  - inversion Hn; subst. destruct (Z.eqb_spec k k0).
    + subst. exfalso. apply H2. change k0 with (fst (k0, x)). apply in_map; auto.
    + auto.
Qed.

(* ---------- the committed row store ---------- *)
Lemma lookup_pk_in k rows v vs : lookup_pk k rows = v :: vs -> In (k, v :: vs) rows.
Proof.
  induction rows as [|[k0 ws] r IH]; simpl; try discriminate.
  destruct (Z.eqb_spec k k0); intros H; subst; auto.
Qed.
Lemma in_lookup_pk k rows vs : NoDup (map fst rows) -> In (k, vs) rows -> lookup_pk k rows = vs.
Proof.
  induction rows as [|[k0 ws] r IH]; simpl; intros Hn [].
  - inversion H; subst. rewrite Z.eqb_refl; auto.
  - inversion Hn; subst. destruct (Z.eqb_spec k k0).
    + subst. exfalso. apply H2. change k0 with (fst (k0, vs)). apply in_map; auto.
    + auto.
Qed.
Lemma lookup_pk_notin k rows : ~ In k (map fst rows) -> lookup_pk k rows = [].
Proof.
  induction rows as [|[k0 ws] r IH]; simpl; auto.
  intros H. destruct (Z.eqb_spec k k0); [subst; tauto|]. apply IH; tauto.
Qed.

Lemma c_upd_some k v rows r :
  c_upd k v rows = Some r ->
  In k (map fst rows) /\ map fst r = map fst rows /\
  forall k', lookup_pk k' r = if (k' =? k)%Z then v :: lookup_pk k rows else lookup_pk k' rows.
Proof.
  revert r; induction rows as [|[k0 ws] rows IH]; simpl; intros r; try discriminate.
  destruct (Z.eqb_spec k k0).
  - subst. intros H; inversion H; subst. simpl. split; auto. split; auto.
    intros k'. destruct (Z.eqb_spec k' k0); auto.
  - destruct (c_upd k v rows) as [r'|] eqn:E; try discriminate.
    intros H; inversion H; subst. destruct (IH _ eq_refl) as (H1 & H2 & H3). simpl.
    split; auto. split; [congruence|].
    intros k'. destruct (Z.eqb_spec k' k0).
    + subst. destruct (Z.eqb_spec k0 k); congruence.
    + apply H3.
Qed.
Lemma c_upd_none k v rows : c_upd k v rows = None -> ~ In k (map fst rows).
Proof.
  induction rows as [|[k0 ws] rows IH]; simpl; auto.
  destruct (Z.eqb_spec k k0); try discriminate.
  destruct (c_upd k v rows); try discriminate. intros _ [H|H]; [congruence|]. apply IH; auto.
Qed.
Lemma c_ins_keys k v rows z : In z (map fst (c_ins k v rows)) <-> z = k \/ In z (map fst rows).
Proof.
  induction rows as [|[k0 ws] rows IH]; simpl.
  - intuition congruence.
  - destruct (Z.ltb_spec k k0); simpl; [intuition congruence|]. rewrite IH. intuition congruence.
Qed.
Lemma c_ins_lookup k v rows k' :
  ~ In k (map fst rows) ->
  lookup_pk k' (c_ins k v rows) = if (k' =? k)%Z then [v] else lookup_pk k' rows.
Proof.
  induction rows as [|[k0 ws] rows IH]; simpl; intros Hn.
  - destruct (Z.eqb_spec k' k); auto.
  - destruct (Z.ltb_spec k k0); simpl.
    + destruct (Z.eqb_spec k' k); auto.
    + destruct (Z.eqb_spec k' k0).
      * subst. destruct (Z.eqb_spec k0 k); auto. subst; tauto.
      * apply IH; tauto.
Qed.
Lemma c_ins_nodup k v rows :
  ~ In k (map fst rows) -> NoDup (map fst rows) -> NoDup (map fst (c_ins k v rows)).
Proof.
  induction rows as [|[k0 ws] rows IH]; simpl; intros Hn Hd.
  - constructor; [simpl; tauto | constructor].
  - destruct (Z.ltb_spec k k0); simpl.
    + constructor; auto.
    + inversion Hd; subst. constructor.
      * rewrite c_ins_keys. tauto.
      * apply IH; tauto.
Qed.

(* c_add: the new version sits on top of the versions of k, everything else is unchanged *)
Lemma c_add_lookup k v rows k' :
  lookup_pk k' (c_add k v rows) = if (k' =? k)%Z then v :: lookup_pk k rows else lookup_pk k' rows.
Proof.
  unfold c_add. destruct (c_upd k v rows) as [r|] eqn:E.
  - apply c_upd_some in E as (_ & _ & H). apply H.
  - apply c_upd_none in E. rewrite c_ins_lookup by exact E.
    destruct (Z.eqb_spec k' k); auto. subst. rewrite lookup_pk_notin; auto.
Qed.
Lemma c_add_keys k v rows z : In z (map fst (c_add k v rows)) <-> z = k \/ In z (map fst rows).
Proof.
  unfold c_add. destruct (c_upd k v rows) as [r|] eqn:E.
  - apply c_upd_some in E as (H1 & H2 & _). rewrite H2. split; auto. intros [->|]; auto.
  - apply c_ins_keys.
Qed.
Lemma c_add_nodup k v rows : NoDup (map fst rows) -> NoDup (map fst (c_add k v rows)).
Proof.
  unfold c_add. destruct (c_upd k v rows) as [r|] eqn:E.
  - apply c_upd_some in E as (_ & H2 & _). rewrite H2; auto.
  - apply c_upd_none in E. apply c_ins_nodup; auto.
Qed.

(* ---------- well-formed committed states ---------- *)
(* versions of one key: transaction ids positive, bounded, strictly decreasing (newest first) *)
Fixpoint dec_tx (b : N) (vs : list ver) : Prop :=
  match vs with
  | [] => True
  | v :: r => 0 < v_tx v /\ v_tx v <= b /\ dec_tx (v_tx v - 1) r
  end.

Lemma dec_tx_mono b b' vs : b <= b' -> dec_tx b vs -> dec_tx b' vs.
Proof. destruct vs as [|v r]; simpl; auto. intros H (H1 & H2 & H3). repeat split; auto. lia. Qed.
Lemma dec_tx_bound b vs v : dec_tx b vs -> In v vs -> 0 < v_tx v /\ v_tx v <= b.
Proof.
  revert b; induction vs as [|x r IH]; simpl; intros b H Hi; [tauto|]. destruct H as (H1 & H2 & H3).
  destruct Hi as [Hi|Hi].
  - subst; auto.
  - destruct (IH _ H3 Hi). split; auto. lia.
Qed.
(* within one key a transaction id identifies the version *)
Lemma dec_tx_inj b vs v w : dec_tx b vs -> In v vs -> In w vs -> v_tx v = v_tx w -> v = w.
Proof.
  revert b; induction vs as [|x r IH]; simpl; intros b H Hv Hw E; [tauto|]. destruct H as (H1 & H2 & H3).
  destruct Hv as [Hv|Hv], Hw as [Hw|Hw]; subst; auto.
  - destruct (dec_tx_bound _ _ _ H3 Hw). lia.
  - destruct (dec_tx_bound _ _ _ H3 Hv). lia.
  - eapply IH; eauto.
Qed.
Lemma vers_at_all b vs ts : dec_tx b vs -> b <= ts -> vers_at ts vs = vs.
Proof.
  revert b; induction vs as [|x r IH]; simpl; intros b H Hb; auto. destruct H as (H1 & H2 & H3).
  destruct (N.leb_spec (v_tx x) ts); [|lia]. f_equal. apply (IH (v_tx x - 1)); auto. lia.
Qed.
Lemma vers_at_in ts vs v : In v (vers_at ts vs) -> In v vs /\ v_tx v <= ts.
Proof. unfold vers_at. rewrite filter_In. intros [H1 H2]. split; auto. apply N.leb_le; auto. Qed.
Lemma vers_at_dec b ts vs : dec_tx b vs -> dec_tx b (vers_at ts vs).
Proof.
  revert b; induction vs as [|x r IH]; simpl; intros b H; auto. destruct H as (H1 & H2 & H3).
  destruct (v_tx x <=? ts); simpl; auto.
  apply dec_tx_mono with (v_tx x - 1); [lia|]. auto.
Qed.

Record cwf (c : cstate) : Prop := mkWf {
  w_nodup : NoDup (map fst (c_rows c));
  w_rows : forall k vs, In (k, vs) (c_rows c) -> in_i64 k = true /\ dec_tx (c_last c) vs;
  w_cat : c_cat c <= c_last c
}.

Lemma cwf_init : cwf c_init.
Proof. constructor; simpl; [constructor | tauto | lia]. Qed.

Lemma cwf_lookup c k : cwf c -> dec_tx (c_last c) (lookup_pk k (c_rows c)).
Proof.
  intros W. destruct (lookup_pk k (c_rows c)) as [|v vs] eqn:E; [exact I|].
  apply lookup_pk_in in E. apply (w_rows c W) in E. tauto.
Qed.
Lemma cwf_key c k v vs : cwf c -> lookup_pk k (c_rows c) = v :: vs -> in_i64 k = true.
Proof. intros W E. apply lookup_pk_in in E. apply (w_rows c W) in E. tauto. Qed.

(* ---------- table contents ---------- *)
Lemma live_rows_in c k r :
  In (k, r) (live_rows c) <-> exists v vs, In (k, v :: vs) (c_rows c) /\ v_del v = false /\ v_row v = r.
Proof.
  unfold live_rows. rewrite in_flat_map. split.
  - intros [[k0 vs] [H1 H2]]. unfold live_of in H2; simpl in H2.
    destruct vs as [|v vs]; [destruct H2|]. destruct (v_del v) eqn:D; [destruct H2|].
    destruct H2 as [H2|[]]. inversion H2; subst. eauto.
  - intros (v & vs & H1 & H2 & H3). exists (k, v :: vs). split; auto.
    unfold live_of; simpl. rewrite H2. left. congruence.
Qed.
Lemma live_rows_lookup c k r :
  NoDup (map fst (c_rows c)) ->
  (In (k, r) (live_rows c) <-> exists v vs, lookup_pk k (c_rows c) = v :: vs /\ v_del v = false /\ v_row v = r).
Proof.
  intros Hn. rewrite live_rows_in. split; intros (v & vs & H1 & H2 & H3); exists v, vs; repeat split; auto.
  - apply in_lookup_pk; auto.
  - apply lookup_pk_in; auto.
Qed.
Lemma live_rows_keys c : NoDup (map fst (c_rows c)) -> NoDup (map fst (live_rows c)).
Proof.
  unfold live_rows. induction (c_rows c) as [|[k vs] rows IH]; simpl; intros Hn; [constructor|].
  inversion Hn; subst. rewrite map_app. unfold live_of at 1; simpl.
  destruct vs as [|v vs]; simpl; auto. destruct (v_del v); simpl; auto.
  constructor; auto. intros Hi. apply H1.
  apply in_map_iff in Hi as ([k' r'] & E & Hi). simpl in E; subst k'.
  apply in_flat_map in Hi as ([k0 vs0] & Hi & Hl). unfold live_of in Hl; simpl in Hl.
  destruct vs0 as [|v0 vs0]; [destruct Hl|]. destruct (v_del v0); [destruct Hl|]. destruct Hl as [Hl|[]].
  inversion Hl; subst. change k with (fst (k, v0 :: vs0)). apply in_map; auto.
Qed.

(* ---------- applying the writes of a transaction ---------- *)
Definition add_writes (tx : N) (wr : list (Z * (bool * row))) (rows : list (Z * list ver)) :=
  fold_left (fun rows w => c_add (fst w) (mkVer tx (fst (snd w)) (snd (snd w))) rows) wr rows.

Lemma add_writes_lookup tx wr rows k :
  NoDup (map fst wr) ->
  lookup_pk k (add_writes tx wr rows) =
  match alookup k wr with
  | Some dr => mkVer tx (fst dr) (snd dr) :: lookup_pk k rows
  | None => lookup_pk k rows
  end.
Proof.
  unfold add_writes. revert rows; induction wr as [|[k0 dr] wr IH]; simpl; intros rows Hn; auto.
  inversion Hn; subst. rewrite IH by auto. rewrite !c_add_lookup.
  destruct (Z.eqb_spec k k0).
  - subst. destruct (alookup k0 wr) eqn:E; auto.
    exfalso. apply H1. apply alookup_in in E. change k0 with (fst (k0, p)). apply in_map; auto.
  - destruct (alookup k wr); auto.
Qed.
Lemma add_writes_keys tx wr rows z :
  In z (map fst (add_writes tx wr rows)) <-> In z (map fst wr) \/ In z (map fst rows).
Proof.
  unfold add_writes. revert rows; induction wr as [|[k0 dr] wr IH]; simpl; intros rows.
  - tauto.
  - rewrite IH, c_add_keys. intuition congruence.
Qed.
Lemma add_writes_nodup tx wr rows : NoDup (map fst rows) -> NoDup (map fst (add_writes tx wr rows)).
Proof.
  unfold add_writes. revert rows; induction wr as [|[k0 dr] wr IH]; simpl; intros rows Hn; auto.
  apply IH. apply c_add_nodup; auto.
Qed.

(* ---------- a later committed state on the same timeline ---------- *)
Record ext (c c' : cstate) : Prop := mkExt {
  e_last : c_last c <= c_last c';
  e_rows : forall k, exists newer, lookup_pk k (c_rows c') = newer ++ lookup_pk k (c_rows c) /\
                                   Forall (fun v => c_last c < v_tx v) newer;
  e_uidx : c_uidx c = true -> c_uidx c' = true;
  e_cat : c_cat c <= c_cat c'
}.
Lemma ext_refl c : ext c c.
Proof. constructor; auto; try lia. intros k; exists []; split; auto. Qed.
Lemma ext_trans a b c : ext a b -> ext b c -> ext a c.
Proof.
  intros [A1 A2 A3 A4] [B1 B2 B3 B4]. constructor; auto; try lia.
  intros k. destruct (A2 k) as (n1 & E1 & F1). destruct (B2 k) as (n2 & E2 & F2).
  exists (n2 ++ n1). rewrite E2, E1, app_assoc. split; auto.
  apply Forall_app; split; auto. eapply Forall_impl; [|exact F2]. simpl; intros; lia.
Qed.

Lemma ext_apply_writes c t : NoDup (map fst (t_rows t)) -> ext c (apply_writes c t).
Proof.
  intros Hn. unfold apply_writes. destruct (t_rows t) as [|w wr] eqn:E; [apply ext_refl|].
  rewrite <- E in *. constructor; simpl; auto; try lia.
  intros k. fold (add_writes (c_last c + 1) (t_rows t) (c_rows c)).
  rewrite add_writes_lookup by auto. destruct (alookup k (t_rows t)) as [dr|].
  - exists [mkVer (c_last c + 1) (fst dr) (snd dr)]. split; auto. constructor; simpl; auto. lia.
  - exists []; split; auto.
Qed.

Lemma cwf_apply_writes c t :
  cwf c -> NoDup (map fst (t_rows t)) -> (forall k, In k (map fst (t_rows t)) -> in_i64 k = true) ->
  cwf (apply_writes c t).
Proof.
  intros W Hn Hk. unfold apply_writes. destruct (t_rows t) as [|w wr] eqn:E; auto.
  rewrite <- E in *. fold (add_writes (c_last c + 1) (t_rows t) (c_rows c)).
  destruct W as [W1 W2 W3]. constructor; simpl.
  - apply add_writes_nodup; auto.
  - intros k vs Hi.
    assert (Hl : lookup_pk k (add_writes (c_last c + 1) (t_rows t) (c_rows c)) = vs)
      by (apply in_lookup_pk; auto; apply add_writes_nodup; auto).
    rewrite add_writes_lookup in Hl by auto.
    assert (Hold : dec_tx (c_last c) (lookup_pk k (c_rows c))).
    { destruct (lookup_pk k (c_rows c)) as [|v0 vs0] eqn:E0; [exact I|].
      apply lookup_pk_in in E0. apply W2 in E0. tauto. }
    split.
    + assert (Hin : In k (map fst (add_writes (c_last c + 1) (t_rows t) (c_rows c)))).
      { change k with (fst (k, vs)). apply in_map; auto. }
      apply add_writes_keys in Hin as [Hin|Hin]; auto.
      apply in_map_iff in Hin as ([k' vs'] & Ek & Hin). simpl in Ek; subst. apply W2 in Hin. tauto.
    + destruct (alookup k (t_rows t)) as [dr|]; subst vs.
      * simpl. repeat split; try lia. replace (c_last c + 1 - 1) with (c_last c) by lia. auto.
      * eapply dec_tx_mono; [|exact Hold]. lia.
  - lia.
Qed.

(* ---------- key encodings ---------- *)
Lemma app_inj_len {A} (a a' b b' : list A) :
  a ++ b = a' ++ b' -> length b = length b' -> a = a' /\ b = b'.
Proof.
  revert a'; induction a as [|x a IH]; intros [|y a'] H L; simpl in *.
  - auto.
  - subst b. simpl in L. rewrite app_length in L. lia.
  - subst b'. simpl in L. rewrite app_length in L. lia.
  - inversion H; subst. destruct (IH _ H2 L); subst; auto.
Qed.

Lemma enc_int_len z : length (enc_int z) = 9%nat.
Proof. unfold enc_int. cbn [length]. rewrite be_enc_length. reflexivity. Qed.
Lemma enc_int_inj a b : in_i64 a = true -> in_i64 b = true -> enc_int a = enc_int b -> a = b.
Proof.
  unfold in_i64, enc_int, two63. intros Ha Hb H1. apply (f_equal (@tl N)) in H1. cbn [tl] in H1.
  apply andb_prop in Ha as [Ha1 Ha2]. apply andb_prop in Hb as [Hb1 Hb2].
  apply Z.leb_le in Ha1, Hb1. apply Z.ltb_lt in Ha2, Hb2.
  rewrite !Z.mod_small in H1 by lia.
  apply be_enc_inj in H1.
  - apply Z2N.inj in H1; lia.
  - change (256 ^ N.of_nat 8) with 18446744073709551616. lia.
  - change (256 ^ N.of_nat 8) with 18446744073709551616. lia.
Qed.
Lemma ukey_inj g x k x' k' :
  in_i64 k = true -> in_i64 k' = true -> ukey g x k = ukey g x' k' -> k = k' /\ smkey_u g x = smkey_u g x'.
Proof.
  unfold ukey. intros Hk Hk' H. apply app_inj_len in H as [H1 H2].
  - split; auto. apply enc_int_inj; auto.
  - rewrite !enc_int_len; auto.
Qed.
Lemma ukey_prefix g x k : has_prefix (smkey_u g x) (ukey g x k) = true.
Proof. unfold ukey. apply has_prefix_app. Qed.

Lemma conv_v_same nv v' : conv_v nv = Ok v' -> v' = nv.
Proof.
  destruct nv; simpl; try discriminate.
  - intros H; inversion H; auto.
  - destruct (in_i64 z); try discriminate. intros H; inversion H; auto.
Qed.
