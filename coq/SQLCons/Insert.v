(* C12 — INSERT never touches an existing row: an autocommit batch of INSERT statements (keys given
   explicitly or auto-generated, with or without ON CONFLICT DO NOTHING), run from any reachable
   state, leaves every live row in place.  Together with the uniqueness of primary keys this says
   that auto-generated keys never collide with existing ones. *)
From V Require Import SQLCons.Model SQLCons.Spec SQLCons.Basics SQLCons.Steps SQLCons.Frame SQLCons.Refuted.
From Coq Require Import ZArith Lia.
From Coq Require Import ZifyN ZifyNat ZifyBool.
Open Scope N_scope.

Lemma tx_get_false c t k t1 :
  tx_get c t k = (false, t1) ->
  alookup k (t_rows t) = None /\
  match vers_at (psnap_ts c t) (lookup_pk k (c_rows c)) with v :: _ => v_del v = true | [] => True end.
Proof.
  unfold tx_get. cbv zeta. simpl t_rows. destruct (alookup k (t_rows t)); [discriminate|].
  destruct (vers_at (psnap_ts c t) (lookup_pk k (c_rows c))) as [|v vs]; auto.
  destruct (v_del v); [auto | discriminate].
Qed.

Lemma psnap_ts_mono c t t' : mono c t t' -> psnap_ts c t' = psnap_ts c t.
Proof.
  intros M. unfold psnap_ts. destruct (t_psnap t') as [a|] eqn:E.
  - destruct (m_ps _ _ _ M a E) as [->|[-> ->]]; auto.
  - destruct (t_psnap t) as [b|] eqn:E'; auto. rewrite (m_ps' _ _ _ M b E') in E. discriminate.
Qed.

Lemma do_upsert_psnap g fx c t k nv ns reuse t' :
  do_upsert g fx c t k nv ns reuse = Ok t' -> t_psnap t' = Some (psnap_ts c t).
Proof.
  intros H. apply do_upsert_inv in H as (t1 & ru & rn & v' & s' & M1 & _ & _ & _ & t3 & H3 & H4).
  cbv zeta in H3. set (t2 := set_rows (aset k (false, mkRow v' s') (t_rows t1)) (touch_p c t1)) in *.
  assert (M3 : mono c t2 t3).
  { destruct (t_uidx t2 && negb ru).
    - destruct H3 as (tc & Hc & Hk). eapply mono_trans; [eapply check_unique_mono; eauto | eapply key_set_mono; eauto].
    - subst; apply mono_refl. }
  assert (M4 : mono c t3 t').
  { destruct (t_nidx t3 && negb rn); [eapply key_set_mono; eauto | subst; apply mono_refl]. }
  apply (m_ps' _ _ _ M4), (m_ps' _ _ _ M3). unfold t2; simpl. rewrite (psnap_ts_mono _ _ _ M1). reflexivity.
Qed.

Section Ins.
  Variables (g : cfg) (fx : fixes) (c : cstate).
  Hypothesis W : cwf c.

  (* the transaction reads the current state, and has written only keys that are not live in it *)
  Definition J (t : txs) : Prop :=
    psnap_ts c t = c_last c /\
    forall k, In k (map fst (t_rows t)) -> forall r, ~ In (k, r) (live_rows c).

  Lemma J_mono t t' : J t -> mono c t t' -> J t'.
  Proof. intros [J1 J2] M. split. rewrite (psnap_ts_mono _ _ _ M); auto. rewrite (m_rows _ _ _ M); auto. Qed.

  Lemma J_ins_row m t r t' :
    m = MInsert \/ m = MDoNothing -> J t -> ins_row g fx c m t r = Ok t' -> J t'.
  Proof.
    intros Hm Jt H. unfold ins_row in H. cbv zeta in H. bind_inv H. destruct a as [[k me] t0].
    simpl fst in H; simpl snd in H.
    assert (J0 : J t0).
    { destruct (fst (fst r)) as [[|z|s]|]; try discriminate.
      - destruct (in_i64 z); inversion Hb; subst; auto.
      - destruct (k_autoinc g && match m with MUpsert => false | _ => true end); inversion Hb; subst.
        eapply J_mono; [exact Jt | apply mono_set_maxpk]. }
    clear Hb.
    destruct (k_notnull g && is_null (snd (fst r))); try discriminate.
    destruct (negb (check_ok g (snd (fst r)))); try discriminate.
    destruct (tx_get c t0 k) as [found0 t1] eqn:Eg.
    assert (J1 : J t1).
    { eapply J_mono; [exact J0|]. pose proof (tx_get_mono c t0 k) as M. rewrite Eg in M; exact M. }
    remember (found0 && negb match alookup k (t_rows t1) with Some (true, _) => true | _ => false end) as found eqn:Efound.
    destruct (negb found && me); try discriminate.
    assert (Hw : found = false -> forall reuse, do_upsert g fx c t1 k (snd (fst r)) (snd r) reuse = Ok t' -> J t').
    { intros Hf reuse Hd.
      (* either the key is not live in the committed state, or this transaction already wrote it *)
      assert (Hk : forall rr, ~ In (k, rr) (live_rows c)).
      { destruct found0.
        - simpl in Efound. rewrite Hf in Efound.
          destruct (alookup k (t_rows t1)) as [[[|] r0]|] eqn:Ea; simpl in Efound; try discriminate.
          intros rr. apply (proj2 J1). apply alookup_in in Ea.
          change k with (fst (k, (true, r0))). apply in_map; auto.
        - apply tx_get_false in Eg as [Hl Hv].
          destruct J0 as [P0 _]. rewrite P0 in Hv.
          rewrite (vers_at_all _ _ _ (cwf_lookup c k W)) in Hv by lia.
          intros rr Hlive. apply live_rows_lookup in Hlive; [|apply (w_nodup c W)].
          destruct Hlive as (v & vs & E & Hd' & _). rewrite E in Hv. congruence. }
      split.
      - unfold psnap_ts. rewrite (do_upsert_psnap _ _ _ _ _ _ _ _ _ Hd). apply (proj1 J1).
      - apply do_upsert_rows in Hd as (v' & s' & _ & _ & Hr & _). rewrite Hr.
        intros z Hz rr Hlive. apply aset_keys in Hz as [->|Hz]; [|eapply (proj2 J1); eauto].
        eapply Hk; eauto. }
    clear Efound.
    destruct Hm as [->| ->]; destruct found; try discriminate; eauto.
    inversion H; subst; auto.
  Qed.

  Lemma J_stmts ss t t' :
    forallb plain_insert ss = true -> J t -> rfold (exec_stmt g fx c) ss t = Ok t' -> J t'.
  Proof.
    intros Hs Jt H. refine (rfold_ind _ J ss t t' _ Jt H).
    intros x s x' Hin Jx Hx. rewrite forallb_forall in Hs. specialize (Hs _ Hin).
    destruct s as [m rows| |]; try discriminate. unfold exec_stmt in Hx.
    refine (rfold_ind _ J rows x x' _ Jx Hx). intros y r y' _ Jy Hy.
    apply (J_ins_row m y r y'); auto. destruct m; simpl in Hs; try discriminate; auto.
  Qed.

  Lemma insert_batch_preserves ss c' :
    forallb plain_insert ss = true -> run_auto g fx c ss = Ok c' ->
    forall k r, In (k, r) (live_rows c) -> In (k, r) (live_rows c').
  Proof.
    intros Hs H k r Hl. unfold run_auto in H. bind_inv H. rename a into t.
    assert (Jn : J (new_tx g c false)).
    { split; [|rewrite new_tx_rows; simpl; tauto].
      unfold new_tx, psnap_ts. cbv zeta. destruct (k_autoinc g); auto.
      destruct (last_key (c_rows c) (c_last c) None) as [[k0 tx]|]; reflexivity. }
    pose proof (J_stmts _ _ _ Hs Jn Hb) as [_ Jt].
    assert (B : tbase t).
    { refine (rfold_ind _ tbase ss _ t _ (tbase_new g c false) Hb). intros; eapply exec_tbase; eauto. }
    unfold commit in H. destruct (t_rows t) as [|w wr] eqn:E; [inversion H; subst; auto|].
    destruct (validate g c t); [|discriminate]. inversion H; subst; clear H.
    unfold apply_writes. rewrite E. rewrite <- E in *.
    fold (add_writes (c_last c + 1) (t_rows t) (c_rows c)).
    apply live_rows_lookup; [simpl; apply add_writes_nodup; apply (w_nodup c W)|]. simpl.
    rewrite add_writes_lookup by (apply (proj1 B)).
    destruct (alookup k (t_rows t)) as [dr|] eqn:Ea.
    - exfalso. apply alookup_in in Ea. apply (Jt k) with (r := r); auto.
      change k with (fst (k, dr)). apply in_map; auto.
    - apply live_rows_lookup; auto. apply (w_nodup c W).
  Qed.
End Ins.

Theorem insert_preserves g fx evs ss c' :
  forallb plain_insert ss = true -> run_auto g fx (s_c (run g fx evs)) ss = Ok c' ->
  forall k r, In (k, r) (live_rows (s_c (run g fx evs))) -> In (k, r) (live_rows c').
Proof. intros Hs H. eapply insert_batch_preserves; eauto. apply run_cwf. Qed.

(* the premises are satisfiable: auto-generated keys next to explicit ones *)
Example insert_preserves_premise :
  let g := mkCfg true false 3 false false in
  let evs := [(0, AAuto [SIns MInsert [(None, VInt 1, VNull)]]); (0, AAuto [SIns MInsert [(Some (VInt 5), VInt 2, VNull)]])] in
  let ss := [SIns MInsert [(None, VInt 3, VNull); (None, VInt 4, VNull)]] in
  forallb plain_insert ss = true /\
  exists c', run_auto g old_code (s_c (run g old_code evs)) ss = Ok c' /\
             map fst (live_rows c') = [1; 5; 6; 7]%Z.
Proof. vm_compute. split; auto. eexists; split; reflexivity. Qed.
