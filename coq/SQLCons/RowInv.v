(* C12 — constraints that concern one row at a time: type and length, NOT NULL, CHECK.
   Every stored row version (live or not) and every row written by an open transaction satisfies
   them, for every history and every interleaving of sessions. *)
From V Require Import SQLCons.Model SQLCons.Spec SQLCons.Basics SQLCons.Steps SQLCons.Frame.
From Coq Require Import ZArith Lia.
From Coq Require Import ZifyN ZifyNat ZifyBool.
Open Scope N_scope.

Record rowok (g : cfg) (nn ck : bool) (r : row) : Prop := mkRowok {
  ro_tl : tl_ok g r;
  ro_nn : nn = true -> k_notnull g = true -> r_v r <> VNull;
  ro_ck : ck = true -> check_ok g (r_v r) = true
}.

Lemma conv_v_ok nv v' : conv_v nv = Ok v' -> v' = nv /\ (nv = VNull \/ exists z, nv = VInt z /\ in_i64 z = true).
Proof.
  destruct nv; simpl; try discriminate.
  - intros H; inversion H; auto.
  - destruct (in_i64 z) eqn:E; try discriminate. intros H; inversion H; subst. split; auto. right; eauto.
Qed.
Lemma conv_s_ok m ns s' : conv_s m ns = Ok s' -> s' = VNull \/ exists s, s' = VStr s /\ len s <= m.
Proof.
  destruct ns; simpl.
  - intros H; inversion H; auto.
  - destruct (N.leb_spec (len (dec_of_Z z)) m); try discriminate. intros E; inversion E; subst. right; eauto.
  - destruct (N.leb_spec (len s) m); try discriminate. intros E; inversion E; subst. right; eauto.
Qed.

Section RowInv.
  Variables (g : cfg) (fx : fixes) (nn ck : bool).

  Definition cA (c : cstate) : Prop :=
    forall k vs v, In (k, vs) (c_rows c) -> In v vs -> rowok g nn ck (v_row v).
  Definition tA (_ : cstate) (t : txs) : Prop :=
    forall k d r, In (k, (d, r)) (t_rows t) -> rowok g nn ck r.

  Lemma tA_exec c t s t' :
    cwf c -> cA c -> tbase t -> tA c t -> stmt_safe g fx nn ck s = true ->
    exec_stmt g fx c t s = Ok t' -> tA c t'.
  Proof.
    intros W C B T Hs H.
    assert (X : tbase t' /\ tA c t'); [|tauto].
    apply (exec_stmt_preserves g fx c nn ck (fun x => tbase x /\ tA c x) (rowok g nn ck)) with (t := t) (s := s); auto.
    - (* mono *) intros a b [Ba Ta] M. unfold tbase, tA. rewrite (m_rows _ _ _ M). auto.
    - (* visible rows *) intros a k etx d r [Ba Ta] Hr. split; [|eapply tx_row_key; eauto].
      unfold tx_row in Hr. destruct (alookup k (t_rows a)) as [[d0 r0]|] eqn:E.
      + inversion Hr; subst. apply alookup_in in E. eapply Ta; eauto.
      + destruct (vers_at (psnap_ts c a) (lookup_pk k (c_rows c))) as [|v vs] eqn:Ev; [discriminate|].
        inversion Hr; subst.
        assert (Hi : In v (vers_at (psnap_ts c a) (lookup_pk k (c_rows c)))) by (rewrite Ev; left; auto).
        apply vers_at_in in Hi as [Hi _]. apply lookup_pk_elem in Hi as (vs0 & Hi & Hv). eapply C; eauto.
    - (* doUpsert *) intros a k nv ns reuse b [Ba Ta] K Src Hd.
      split. { eapply exec_tbase_up; eauto. }
      apply do_upsert_rows in Hd as (v' & s' & Cv & Cs & Hr & _).
      unfold tA. rewrite Hr. intros k0 d r Hi. apply aset_in in Hi as [[-> E]|Hi]; [|eapply Ta; eauto].
      inversion E; subst; clear E. apply conv_v_ok in Cv as [-> Hv]. apply conv_s_ok in Cs.
      constructor; simpl.
      + split; auto.
      + intros Hn Hk. destruct Src as [[S1 _]|[(r0 & G0 & _ & S1 & _)|(r0 & G0 & ->)]].
        * rewrite Hk in S1. simpl in S1. destruct nv; simpl in S1; congruence.
        * specialize (S1 Hn). rewrite Hk in S1. simpl in S1. destruct nv; simpl in S1; congruence.
        * apply (ro_nn _ _ _ _ G0); auto.
      + intros Hc. destruct Src as [[_ S2]|[(r0 & G0 & _ & _ & S2)|(r0 & G0 & ->)]]; auto.
        apply (ro_ck _ _ _ _ G0); auto.
    - (* delete *) intros a k r [Ba Ta] G K. split; [apply tbase_aset; auto|].
      unfold tA; simpl. intros k0 d r0 Hi. apply aset_in in Hi as [[-> E]|Hi]; [|eapply Ta; eauto].
      inversion E; subst; auto.
  Qed.

  Lemma cA_commit c t :
    cwf c -> cA c -> tbase t -> tA c t -> validate g c t = true -> t_rows t <> [] -> cA (apply_writes c t).
  Proof.
    intros W C [B1 B2] T _ Hne. unfold apply_writes. destruct (t_rows t) as [|w wr] eqn:E; [congruence|].
    rewrite <- E in *. fold (add_writes (c_last c + 1) (t_rows t) (c_rows c)).
    intros k vs v Hi Hv. simpl in Hi.
    assert (Hl : lookup_pk k (add_writes (c_last c + 1) (t_rows t) (c_rows c)) = vs)
      by (apply in_lookup_pk; auto; apply add_writes_nodup; apply (w_nodup c W)).
    rewrite add_writes_lookup in Hl by auto.
    destruct (alookup k (t_rows t)) as [[d r]|] eqn:Ea; subst vs.
    - destruct Hv as [<-|Hv]; simpl.
      + apply alookup_in in Ea. eapply T; eauto.
      + apply lookup_pk_elem in Hv as (vs0 & H1 & H2). eapply C; eauto.
    - apply lookup_pk_elem in Hv as (vs0 & H1 & H2). eapply C; eauto.
  Qed.

  Theorem rows_ok evs :
    forallb (ev_safe g fx nn ck) evs = true ->
    forall k r, In (k, r) (live_rows (s_c (run g fx evs))) -> rowok g nn ck r.
  Proof.
    intros Hs k r Hi.
    assert (S : SI cA tA (run g fx evs)).
    { apply (run_SI g fx nn ck cA tA); auto.
      - intros k0 vs v []. 
      - intros c e _ _. unfold tA. rewrite new_tx_rows. intros k0 d r0 [].
      - intros; eapply tA_exec; eauto.
      - intros; eapply cA_commit; eauto.
      - intros c u c' W C Hd. destruct (cwf_ddl _ _ _ _ W Hd) as (_ & _ & Er). unfold cA. rewrite Er. exact C. }
    destruct S as (W & C & _). apply live_rows_in in Hi as (v & vs & H1 & H2 & <-). eapply C; eauto. left; auto.
  Qed.
End RowInv.
