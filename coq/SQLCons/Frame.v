(* C12 — one induction over histories (all events of all sessions, in any interleaving) shared by
   every invariant: a committed-state invariant CI and a per-transaction invariant TI are preserved
   by every step provided five local conditions hold. *)
From V Require Import SQLCons.Model SQLCons.Spec SQLCons.Basics SQLCons.Steps.
From Coq Require Import ZArith Lia.
From Coq Require Import ZifyN ZifyNat ZifyBool.
Open Scope N_scope.

(* written rows of a transaction: one entry per key, keys within int64 *)
Definition tbase (t : txs) : Prop :=
  NoDup (map fst (t_rows t)) /\ forall k, In k (map fst (t_rows t)) -> in_i64 k = true.

(* the committed state moved on (somebody's commit, or DDL) *)
Record cstep (c c' : cstate) : Prop := mkCstep {
  cs_ext : ext c c';
  cs_cat : (c_cat c' = c_cat c /\ c_uidx c' = c_uidx c /\ c_nidx c' = c_nidx c) \/ c_last c < c_cat c'
}.

Lemma stmt_safe_ff g fx s : stmt_safe g fx false false s = true.
Proof. destruct s as [[| | |[|] x] rows|w [|] x|w]; reflexivity. Qed.
Lemma ev_safe_ff g fx ev : ev_safe g fx false false ev = true.
Proof.
  unfold ev_safe. destruct (snd ev); auto. apply stmt_safe_ff.
  apply forallb_forall. intros; apply stmt_safe_ff.
Qed.
Lemma stmt_safe_fixed g nn ck s : stmt_safe g fixed_code nn ck s = true.
Proof.
  destruct s as [[| | |[|] x] rows|w [|] x|w]; simpl; auto; destruct nn, ck; simpl; auto.
Qed.
Lemma ev_safe_fixed g nn ck ev : ev_safe g fixed_code nn ck ev = true.
Proof.
  unfold ev_safe. destruct (snd ev); auto. apply stmt_safe_fixed.
  apply forallb_forall. intros; apply stmt_safe_fixed.
Qed.

Lemma new_tx_rows g c e : t_rows (new_tx g c e) = [].
Proof.
  unfold new_tx. cbv zeta. destruct (k_autoinc g); auto.
  destruct (last_key (c_rows c) (c_last c) None) as [[k tx]|]; reflexivity.
Qed.
Lemma tbase_new g c e : tbase (new_tx g c e).
Proof. unfold tbase. rewrite new_tx_rows. simpl. split; [constructor | tauto]. Qed.

Lemma lookup_pk_elem k rows v : In v (lookup_pk k rows) -> exists vs, In (k, vs) rows /\ In v vs.
Proof.
  intros H. destruct (lookup_pk k rows) as [|x xs] eqn:E; [destruct H|].
  apply lookup_pk_in in E. eauto.
Qed.

(* every key a transaction can see is within int64 *)
Lemma tx_row_key c t ts k x : cwf c -> tbase t -> tx_row c t ts k = Some x -> in_i64 k = true.
Proof.
  intros W [_ B] H. unfold tx_row in H. destruct (alookup k (t_rows t)) as [[d r]|] eqn:E.
  - apply B. apply alookup_in in E. change k with (fst (k, (d, r))). apply in_map; auto.
  - destruct (vers_at ts (lookup_pk k (c_rows c))) as [|v vs] eqn:Ev; [discriminate|].
    assert (Hi : In v (vers_at ts (lookup_pk k (c_rows c)))) by (rewrite Ev; left; auto).
    apply vers_at_in in Hi as [Hi _]. apply lookup_pk_elem in Hi as (vs0 & Hi & _).
    apply (w_rows c W) in Hi. tauto.
Qed.

Lemma aset_in {A} k (x : A) l k0 y : In (k0, y) (aset k x l) -> (k0 = k /\ y = x) \/ In (k0, y) l.
Proof.
  induction l as [|[k1 z] l IH]; simpl.
  - intros [H|[]]; inversion H; auto.
  - destruct (Z.eqb_spec k k1); simpl.
    + intros [H|H]; [inversion H; auto | auto].
    + intros [H|H]; auto. destruct (IH H); auto.
Qed.

Lemma tbase_aset t k x : in_i64 k = true -> tbase t -> tbase (set_rows (aset k x (t_rows t)) t).
Proof.
  intros K [B1 B2]. split; simpl.
  - apply aset_nodup; auto.
  - intros z Hz. apply aset_keys in Hz as [->|Hz]; auto.
Qed.

Lemma exec_tbase_up g fx c t k nv ns reuse t' :
  tbase t -> in_i64 k = true -> do_upsert g fx c t k nv ns reuse = Ok t' -> tbase t'.
Proof.
  intros [B1 B2] K Hd. apply do_upsert_rows in Hd as (v' & s' & _ & _ & Hr & _).
  unfold tbase. rewrite Hr. split.
  - apply aset_nodup; auto.
  - intros z Hz. apply aset_keys in Hz as [->|Hz]; auto.
Qed.

Lemma exec_tbase g fx c t s t' : cwf c -> tbase t -> exec_stmt g fx c t s = Ok t' -> tbase t'.
Proof.
  intros W B H.
  refine (exec_stmt_preserves g fx c false false tbase (fun _ => True) _ _ _ _ _ t s t' B (stmt_safe_ff _ _ _) H).
  - intros a b [B1 B2] M. unfold tbase. rewrite (m_rows _ _ _ M). auto.
  - intros a k etx d r Ba Hr. split; auto. eapply tx_row_key; eauto.
  - intros a k nv ns reuse b Ba K _ Hd. apply do_upsert_rows in Hd as (v' & s' & _ & _ & Hr & _).
    destruct Ba as [B1 B2]. unfold tbase. rewrite Hr. split.
    + apply aset_nodup; auto.
    + intros z Hz. apply aset_keys in Hz as [->|Hz]; auto.
  - intros a k r Ba _ K. apply tbase_aset; auto.
  - intros a n Ba. exact Ba.
Qed.

Lemma cwf_ddl fx c u c' : cwf c -> ddl fx c u = Ok c' -> cwf c' /\ cstep c c' /\ c_rows c' = c_rows c.
Proof.
  intros [W1 W2 W3] H. unfold ddl in H.
  assert (G : forall a b, cwf (mkC (c_last c + 1) (c_last c + 1) a b (c_rows c)) /\
                          ((c_uidx c = true -> a = true) -> cstep c (mkC (c_last c + 1) (c_last c + 1) a b (c_rows c)))).
  { intros a b. split.
    - constructor; simpl; auto; try lia. intros k vs Hi. destruct (W2 _ _ Hi). split; auto.
      eapply dec_tx_mono; [|eauto]. lia.
    - intros Hu. constructor; [constructor|]; simpl; auto; try lia.
      intros k; exists []; split; auto. }
  destruct u.
  - destruct (negb (if fx_unique fx then table_empty_fix c else table_empty_cur c)); try discriminate.
    destruct (c_uidx c) eqn:Eu; try discriminate. inversion H; subst. destruct (G true (c_nidx c)); auto.
  - destruct (c_nidx c); try discriminate. inversion H; subst. destruct (G (c_uidx c) true); auto.
Qed.

Lemma sremove_in sid l i t : In (i, t) (sremove sid l) -> In (i, t) l.
Proof.
  induction l as [|[j u] l IH]; simpl; auto. destruct (sid =? j); simpl; intros H; auto.
  destruct H; auto.
Qed.
Lemma slookup_in sid l t : slookup sid l = Some t -> In (sid, t) l.
Proof.
  induction l as [|[j u] l IH]; simpl; try discriminate. destruct (N.eqb_spec sid j); intros H.
  - inversion H; subst; auto.
  - auto.
Qed.

Section Frame.
  Variables (g : cfg) (fx : fixes) (nn ck : bool).
  Variable CI : cstate -> Prop.
  Variable TI : cstate -> txs -> Prop.
  Hypothesis Hinit : CI c_init.
  Hypothesis Hnew : forall c e, cwf c -> CI c -> TI c (new_tx g c e).
  Hypothesis Hexec : forall c t s t',
      cwf c -> CI c -> tbase t -> TI c t -> stmt_safe g fx nn ck s = true ->
      exec_stmt g fx c t s = Ok t' -> TI c t'.
  Hypothesis Hcommit : forall c t,
      cwf c -> CI c -> tbase t -> TI c t -> validate g c t = true -> t_rows t <> [] -> CI (apply_writes c t).
  Hypothesis Hstable : forall c c' t, cwf c -> cwf c' -> tbase t -> TI c t -> cstep c c' -> TI c' t.
  Hypothesis Hddl : forall c u c', cwf c -> CI c -> ddl fx c u = Ok c' -> CI c'.

  Definition SI (st : state) : Prop :=
    cwf (s_c st) /\ CI (s_c st) /\ forall sid t, In (sid, t) (s_tx st) -> tbase t /\ TI (s_c st) t.

  Lemma commit_SI c t c' :
    cwf c -> CI c -> tbase t -> TI c t -> commit g c t = Ok c' -> cwf c' /\ CI c' /\ (c' = c \/ cstep c c').
  Proof.
    intros W C B T H. unfold commit in H. destruct (t_rows t) as [|w wr] eqn:E.
    - inversion H; subst; auto.
    - destruct (validate g c t) eqn:Ev; try discriminate. inversion H; subst; clear H.
      destruct B as [B1 B2]. split; [|split].
      + apply cwf_apply_writes; auto.
      + apply Hcommit; auto. split; auto. congruence.
      + right. constructor. apply ext_apply_writes; auto.
        left. unfold apply_writes. rewrite E. simpl; auto.
  Qed.

  Lemma stmts_SI c ss t t' :
    cwf c -> CI c -> tbase t -> TI c t -> forallb (stmt_safe g fx nn ck) ss = true ->
    rfold (exec_stmt g fx c) ss t = Ok t' -> tbase t' /\ TI c t'.
  Proof.
    intros W C B T Hs H.
    refine (rfold_ind _ (fun x => tbase x /\ TI c x) ss t t' _ (conj B T) H).
    intros x s x' Hin [Bx Tx] Hx. split.
    - eapply exec_tbase; eauto.
    - eapply Hexec; eauto. rewrite forallb_forall in Hs; auto.
  Qed.

  Lemma auto_SI c ss c' :
    cwf c -> CI c -> forallb (stmt_safe g fx nn ck) ss = true -> run_auto g fx c ss = Ok c' ->
    cwf c' /\ CI c' /\ (c' = c \/ cstep c c').
  Proof.
    intros W C Hs H. unfold run_auto in H. bind_inv H.
    destruct (stmts_SI c ss _ _ W C (tbase_new g c false) (Hnew c false W C) Hs Hb) as [B T].
    eapply commit_SI; eauto.
  Qed.

  Lemma others_stable c c' (l : list (N * txs)) :
    cwf c -> cwf c' -> (c' = c \/ cstep c c') ->
    (forall sid t, In (sid, t) l -> tbase t /\ TI c t) ->
    forall sid t, In (sid, t) l -> tbase t /\ TI c' t.
  Proof.
    intros W W' [->|S] H sid t Hi.
    - exact (H _ _ Hi).
    - destruct (H _ _ Hi). split; auto. apply (Hstable c c' t); auto.
  Qed.

  Lemma step_SI st ev : SI st -> ev_safe g fx nn ck ev = true -> SI (fst (step g fx st ev)).
  Proof.
    intros (W & C & T) Hs. unfold step. cbv zeta. unfold ev_safe in Hs.
    assert (Trm : forall sid, forall i t, In (i, t) (sremove sid (s_tx st)) -> tbase t /\ TI (s_c st) t)
      by (intros sid i t Hi; apply sremove_in in Hi; eauto).
    destruct (snd ev) as [|s| | |ss|u]; destruct (slookup (fst ev) (s_tx st)) as [t|] eqn:El; simpl fst;
      try solve [split; [exact W | split; [exact C | simpl; eauto]]].
    - (* begin *) split; [exact W | split; [exact C|]]. simpl. intros i t [H|H]; eauto.
      inversion H; subst. split; [apply tbase_new | apply Hnew; auto].
    - (* stmt in tx *)
      apply slookup_in in El. destruct (T _ _ El) as [B Tt].
      destruct (exec_stmt g fx (s_c st) t s) as [t'| |] eqn:Ee; simpl;
        try solve [split; [exact W | split; [exact C | simpl; eauto]]].
      split; [exact W | split; [exact C|]]. simpl. intros i x [H|H]; eauto.
      inversion H; subst. split; [eapply exec_tbase; eauto | eapply Hexec; eauto].
    - (* autocommit statement *)
      destruct (run_auto g fx (s_c st) [s]) as [c'| |] eqn:Ea; simpl;
        try solve [split; [exact W | split; [exact C | simpl; eauto]]].
      assert (Hs' : forallb (stmt_safe g fx nn ck) [s] = true) by (simpl; rewrite Hs; auto).
      destruct (auto_SI _ _ _ W C Hs' Ea) as (W' & C' & S).
      split; [exact W' | split; [exact C'|]]. simpl. apply (others_stable (s_c st) c'); auto.
    - (* commit *)
      apply slookup_in in El. destruct (T _ _ El) as [B Tt].
      destruct (commit g (s_c st) t) as [c'| |] eqn:Ec; simpl;
        try solve [split; [exact W | split; [exact C | simpl; eauto]]].
      destruct (commit_SI _ _ _ W C B Tt Ec) as (W' & C' & S).
      split; [exact W' | split; [exact C'|]]. simpl. exact (others_stable (s_c st) c' _ W W' S (Trm (fst ev))).
    - (* autocommit batch *)
      destruct (run_auto g fx (s_c st) ss) as [c'| |] eqn:Ea; simpl;
        try solve [split; [exact W | split; [exact C | simpl; eauto]]].
      destruct (auto_SI _ _ _ W C Hs Ea) as (W' & C' & S).
      split; [exact W' | split; [exact C'|]]. simpl. apply (others_stable (s_c st) c'); auto.
    - (* ddl *)
      destruct (ddl fx (s_c st) u) as [c'| |] eqn:Ed; simpl;
        try solve [split; [exact W | split; [exact C | simpl; eauto]]].
      destruct (cwf_ddl _ _ _ _ W Ed) as (W' & S & _).
      split; [exact W' | split; [exact (Hddl _ _ _ W C Ed)|]]. simpl. apply (others_stable (s_c st) c'); auto.
  Qed.

  Theorem run_SI evs : forallb (ev_safe g fx nn ck) evs = true -> SI (run g fx evs).
  Proof.
    unfold run. assert (H0 : SI s_init) by (split; [apply cwf_init | split; [exact Hinit | simpl; tauto]]).
    revert H0. generalize s_init. induction evs as [|ev evs IH]; simpl; intros st H0 Hs; auto.
    apply andb_prop in Hs as [H1 H2]. apply IH; auto. apply step_SI; auto.
  Qed.
End Frame.
