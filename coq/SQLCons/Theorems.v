(* C12 — the statements exported to Properties/C12.v *)
From V Require Import SQLCons.Model SQLCons.Spec SQLCons.Basics SQLCons.Steps SQLCons.Frame SQLCons.RowInv
     SQLCons.Unique SQLCons.Refuted SQLCons.Insert.
From Coq Require Import ZArith Lia.
Open Scope N_scope.

Lemma type_and_length_all g fx evs k r :
  In (k, r) (live_rows (s_c (run g fx evs))) -> tl_ok g r.
Proof.
  intros H. apply (ro_tl g false false). eapply (rows_ok g fx false false); eauto.
  apply forallb_forall. intros; apply ev_safe_ff.
Qed.

Lemma not_null_safe g fx evs k r :
  forallb (ev_safe g fx true false) evs = true -> k_notnull g = true ->
  In (k, r) (live_rows (s_c (run g fx evs))) -> r_v r <> VNull.
Proof. intros Hs Hn H. eapply (ro_nn g true false); eauto. eapply (rows_ok g fx true false); eauto. Qed.
Lemma not_null_fixed g evs k r :
  k_notnull g = true -> In (k, r) (live_rows (s_c (run g fixed_code evs))) -> r_v r <> VNull.
Proof. apply not_null_safe. apply forallb_forall. intros; apply ev_safe_fixed. Qed.

Lemma check_safe g fx evs k r :
  forallb (ev_safe g fx false true) evs = true ->
  In (k, r) (live_rows (s_c (run g fx evs))) -> check_ok g (r_v r) = true.
Proof. intros Hs H. eapply (ro_ck g false true); eauto. eapply (rows_ok g fx false true); eauto. Qed.
Lemma check_fixed g evs k r :
  In (k, r) (live_rows (s_c (run g fixed_code evs))) -> check_ok g (r_v r) = true.
Proof. apply check_safe. apply forallb_forall. intros; apply ev_safe_fixed. Qed.

Lemma unique_fixed_code g evs : unique_ok g (s_c (run g fixed_code evs)).
Proof. apply unique_fixed. reflexivity. Qed.

(* premises of the partial statements are satisfiable on histories that do change v and s *)
Example not_null_safe_premise :
  let g := mkCfg false true 3 false false in
  let evs := [(0, ins1 1 10); (0, AAuto [SUpd (WId 1) true (VInt 20)]); (0, AAuto [SUpd WAll false VNull]);
              (0, AAuto [SIns (MDoUpdate true (VInt 7)) [(Some (VInt 1), VInt 3, VNull)]])] in
  forallb (ev_safe g old_code true false) evs = true /\
  live_rows (s_c (run g old_code evs)) = [(1%Z, mkRow (VInt 7) VNull)].
Proof. vm_compute. split; reflexivity. Qed.
Example check_safe_premise :
  let g := mkCfg false false 3 true false in
  let evs := [(0, ins1 1 10); (0, AAuto [SUpd (WId 1) true (VInt 20)]);
              (0, AAuto [SIns (MDoUpdate true (VInt 7)) [(Some (VInt 1), VInt 3, VNull)]]);
              (0, AAuto [SUpd (WId 1) true (VInt (-1))])] in
  forallb (ev_safe g old_code false true) evs = true /\
  live_rows (s_c (run g old_code evs)) = [(1%Z, mkRow (VInt 7) VNull)].
Proof. vm_compute. split; reflexivity. Qed.

(* the statements about the code as it is (fixed_code), as exported to Properties/C12.v *)
Lemma pk_unique_code g evs : NoDup (map fst (live_rows (s_c (run g fixed_code evs)))).
Proof. apply pk_unique_all. Qed.
Lemma type_and_length_code g evs k r :
  In (k, r) (live_rows (s_c (run g fixed_code evs))) -> tl_ok g r.
Proof. apply type_and_length_all. Qed.
Lemma insert_preserves_code g evs ss c' :
  forallb plain_insert ss = true -> run_auto g fixed_code (s_c (run g fixed_code evs)) ss = Ok c' ->
  forall k r, In (k, r) (live_rows (s_c (run g fixed_code evs))) -> In (k, r) (live_rows c').
Proof. apply insert_preserves. Qed.
Lemma failed_event_code g st ev :
  snd (step g fixed_code st ev) = false ->
  s_c (fst (step g fixed_code st ev)) = s_c st /\
  slookup (fst ev) (s_tx (fst (step g fixed_code st ev))) = None /\
  forall sid', sid' <> fst ev ->
    slookup sid' (s_tx (fst (step g fixed_code st ev))) = slookup sid' (s_tx st).
Proof. apply failed_event. Qed.
