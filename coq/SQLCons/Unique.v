(* C12 — the UNIQUE index holds no duplicates among live rows, for the repaired uniqueness check
   (fx_unique = true), for every history and every interleaving of sessions.  The argument rests on
   what a successful commit-time validation of the recorded reads says about the committed state the
   transaction commits on. *)
From V Require Import SQLCons.Model SQLCons.Spec SQLCons.Basics SQLCons.Steps SQLCons.Frame.
From Coq Require Import ZArith Lia.
From Coq Require Import ZifyN ZifyNat ZifyBool.
Open Scope N_scope.

(* ---------- index entries ---------- *)
Lemma dedup_subset seen es e : In e (dedup seen es) -> In e es.
Proof.
  revert seen; induction es as [|x es IH]; simpl; intros seen H; auto.
  destruct (existsb (bytes_eqb (fst x)) seen); [right; eauto|].
  destruct H; [left; auto | right; eauto].
Qed.
Lemma u_entries_tx g k vs K tau f : In (K, (tau, f)) (u_entries g k vs) -> exists v, In v vs /\ v_tx v = tau.
Proof.
  induction vs as [|x older IH]; simpl; [tauto|]. intros [H|H].
  - inversion H; subst. eauto.
  - apply in_app_or in H as [H|H].
    + destruct older as [|y o]; [destruct H|].
      destruct (v_del y || bytes_eqb (ukey g (uvals g (v_row y)) k) (ukey g (uvals g (v_row x)) k)); [destruct H|].
      destruct H as [H|[]]. inversion H; subst. eauto.
    + destruct (IH H) as (v & Hv & E). eauto.
Qed.
Lemma u_entries_key g k vs K e : In (K, e) (u_entries g k vs) -> exists y, K = ukey g y k.
Proof.
  induction vs as [|x older IH]; simpl; [tauto|]. intros [H|H].
  - inversion H; subst. eauto.
  - apply in_app_or in H as [H|H]; auto.
    destruct older as [|y o]; [destruct H|].
    destruct (v_del y || bytes_eqb (ukey g (uvals g (v_row y)) k) (ukey g (uvals g (v_row x)) k)); [destruct H|].
    destruct H as [H|[]]. inversion H; subst. eauto.
Qed.
(* the entry a version leaves on its own key carries the version's tombstone flag *)
Lemma u_entries_flag g k vs b K tau f v2 :
  dec_tx b vs -> In (K, (tau, f)) (u_entries g k vs) -> In v2 vs -> v_tx v2 = tau ->
  K = ukey g (uvals g (v_row v2)) k -> f = v_del v2.
Proof.
  revert b; induction vs as [|x older IH]; simpl; [tauto|]. intros b (D1 & D2 & D3) He Hv Et EK.
  assert (Hold : forall w, In w older -> v_tx w < v_tx x).
  { intros w Hw. destruct (dec_tx_bound _ _ _ D3 Hw). lia. }
  destruct He as [He|He].
  - inversion He; subst. destruct Hv as [->|Hv]; auto. specialize (Hold _ Hv). lia.
  - apply in_app_or in He as [He|He].
    + destruct older as [|y o]; [destruct He|].
      destruct (v_del y || bytes_eqb (ukey g (uvals g (v_row y)) k) (ukey g (uvals g (v_row x)) k)) eqn:Eb; [destruct He|].
      destruct He as [He|[]]. inversion He; subst.
      destruct Hv as [->|Hv]; [|specialize (Hold _ Hv); lia].
      apply Bool.orb_false_iff in Eb as [_ Eb]. rewrite H0, bytes_eqb_refl in Eb. discriminate.
    + destruct (u_entries_tx _ _ _ _ _ _ He) as (w & Hw & Ew). specialize (Hold _ Hw).
      destruct Hv as [->|Hv]; [lia|]. eapply IH; eauto.
Qed.

Lemma uview_in g ts rows K e :
  In (K, e) (uview g ts rows) -> exists k vs, In (k, vs) rows /\ In (K, e) (u_entries g k (vers_at ts vs)).
Proof.
  unfold uview. rewrite in_flat_map. intros ([k vs] & H1 & H2). simpl in H2.
  apply dedup_subset in H2. eauto.
Qed.
(* the newest version of a key is in the view, with its flag *)
Lemma uview_newest g c k v vs :
  cwf c -> In (k, v :: vs) (c_rows c) ->
  In (ukey g (uvals g (v_row v)) k, (v_tx v, v_del v)) (uview g (c_last c) (c_rows c)).
Proof.
  intros W Hi. unfold uview. apply in_flat_map. exists (k, v :: vs). split; auto. simpl fst; simpl snd.
  destruct (w_rows c W _ _ Hi) as [_ D]. rewrite (vers_at_all _ _ _ D) by lia.
  simpl. left; auto.
Qed.

(* ---------- scans under a prefix ---------- *)
Lemma scan_pfx_false es rs :
  scan_pfx es = (rs, false) ->
  rs = map (fun ke => ERead (fst ke) (fst (snd ke))) es ++ [ENoMore] /\
  Forall (fun ke => snd (snd ke) = true) es.
Proof.
  revert rs; induction es as [|[K [tau d]] es IH]; simpl; intros rs H.
  - inversion H; auto.
  - destruct d; [|inversion H]. destruct (scan_pfx es) as [rs0 f] eqn:E. inversion H; subst.
    destruct (IH _ eq_refl) as [-> F]. split; auto.
Qed.
Lemma scan_pfx_live es K tau : In (K, (tau, false)) es -> snd (scan_pfx es) = true.
Proof.
  induction es as [|[K0 [t0 d]] es IH]; simpl; [tauto|]. intros [H|H].
  - inversion H; subst. reflexivity.
  - destruct d; auto. destruct (scan_pfx es) as [rs f]. simpl in *. auto.
Qed.

(* replaying "these keys with these transaction ids, then no more" succeeds only on exactly that list *)
Lemma val_reads_exact {K} (keqb : K -> K -> bool) (l : list (K * N)) C :
  Forall (fun kt => 0 < snd kt) l ->
  val_reads keqb (map (fun kt => ERead (fst kt) (snd kt)) l ++ [ENoMore]) None C = true ->
  Forall2 (fun kt ct => keqb (fst kt) (fst ct) = true /\ snd kt = snd ct) l C.
Proof.
  revert C; induction l as [|[k tau] l IH]; simpl; intros C F H.
  - destruct C; [constructor | discriminate].
  - inversion F; subst. simpl in H2. destruct (N.eqb_spec tau 0); [lia|].
    destruct C as [|[k' tau'] C]; simpl in H; [discriminate|].
    destruct (keqb k k') eqn:Ek; simpl in H; [|discriminate].
    destruct (N.eqb_spec tau tau'); [|discriminate]. constructor; auto.
Qed.
Lemma Forall2_in_r {A B} (R : A -> B -> Prop) l C c0 :
  Forall2 R l C -> In c0 C -> exists a, In a l /\ R a c0.
Proof.
  induction 1; simpl; [tauto|]. intros [->|Hi]; eauto. destruct (IHForall2 Hi) as (a & Ha & Hr); eauto.
Qed.

(* ---------- facts recorded by reads, stable along the timeline ---------- *)
Definition no_live_ver (g : cfg) (c : cstate) (K : bytes) (tau : N) : Prop :=
  forall k v, In v (lookup_pk k (c_rows c)) -> v_tx v = tau -> K = ukey g (uvals g (v_row v)) k -> v_del v = true.
Definition tomb_reads (g : cfg) (c : cstate) (reads : list (eread bytes)) : Prop :=
  exists l : list (bytes * N),
    reads = map (fun kt => ERead (fst kt) (snd kt)) l ++ [ENoMore] /\
    Forall (fun kt => 0 < snd kt /\ snd kt <= c_last c /\ no_live_ver g c (fst kt) (snd kt)) l.
Definition claimed (g : cfg) (c : cstate) (t : txs) (x : uval) : Prop :=
  klookup (smkey_u g x) (t_keys t) = Some true /\
  exists reads, In (RScan (smkey_u g x) reads) (t_reads t) /\ tomb_reads g c reads.
Definition has_ver (g : cfg) (c : cstate) (k : Z) (etx : N) (x : uval) : Prop :=
  exists v, In v (lookup_pk k (c_rows c)) /\ v_tx v = etx /\ v_del v = false /\ uvals g (v_row v) = x.
Definition inherited (g : cfg) (c : cstate) (t : txs) (k : Z) (x : uval) : Prop :=
  exists etx, 0 < etx /\ In (RRange (Some k) (Some k) false [ERead k etx]) (t_reads t) /\ has_ver g c k etx x.

Lemma ext_in c c' k v : ext c c' -> In v (lookup_pk k (c_rows c)) -> In v (lookup_pk k (c_rows c')).
Proof. intros E H. destruct (e_rows _ _ E k) as (n & -> & _). apply in_or_app; auto. Qed.
Lemma ext_old c c' k v :
  ext c c' -> In v (lookup_pk k (c_rows c')) -> v_tx v <= c_last c -> In v (lookup_pk k (c_rows c)).
Proof.
  intros E H L. destruct (e_rows _ _ E k) as (n & Hn & F). rewrite Hn in H.
  apply in_app_or in H as [H|H]; auto. rewrite Forall_forall in F. specialize (F _ H). lia.
Qed.

Lemma no_live_ver_ext g c c' K tau : ext c c' -> tau <= c_last c -> no_live_ver g c K tau -> no_live_ver g c' K tau.
Proof. intros E L H k v Hv Et EK. eapply H; eauto. eapply ext_old; eauto. lia. Qed.
Lemma tomb_reads_ext g c c' rs : ext c c' -> tomb_reads g c rs -> tomb_reads g c' rs.
Proof.
  intros E (l & -> & F). exists l. split; auto. eapply Forall_impl; [|exact F].
  intros [K tau] (H1 & H2 & H3). simpl in *. pose proof (e_last _ _ E).
  repeat split; auto; try lia. eapply no_live_ver_ext; eauto.
Qed.
Lemma has_ver_ext g c c' k etx x : ext c c' -> has_ver g c k etx x -> has_ver g c' k etx x.
Proof. intros E (v & H1 & H2). exists v. split; auto. eapply ext_in; eauto. Qed.

(* reads and key registrations only accumulate *)
Definition grows (t t' : txs) : Prop :=
  incl (t_reads t) (t_reads t') /\ forall K b, klookup K (t_keys t) = Some b -> klookup K (t_keys t') = Some b.
Lemma grows_refl t : grows t t. Proof. split; auto. apply incl_refl. Qed.
Lemma grows_trans a b c : grows a b -> grows b c -> grows a c.
Proof. intros [A1 A2] [B1 B2]. split; auto. eapply incl_tran; eauto. Qed.
Lemma mono_grows c t t' : mono c t t' -> grows t t'.
Proof. intros M. split. apply (m_reads _ _ _ M). apply (m_keys _ _ _ M). Qed.
Lemma claimed_grows g c t t' x : grows t t' -> claimed g c t x -> claimed g c t' x.
Proof. intros [G1 G2] [H1 (rs & H2 & H3)]. split; auto. exists rs; split; auto. Qed.
Lemma inherited_grows g c t t' k x : grows t t' -> inherited g c t k x -> inherited g c t' k x.
Proof. intros [G1 G2] (etx & H1 & H2 & H3). exists etx. repeat split; auto. Qed.

(* ---------- the per-transaction invariant ---------- *)
Record tU (g : cfg) (c : cstate) (t : txs) : Prop := mkTU {
  u_catb : t_catts t <= c_last c;
  u_usb : forall a, t_usnap t = Some a -> a <= c_last c;
  u_cat : c_cat c <= t_catts t -> c_uidx c = t_uidx t;
  (* a live row written under the unique index either claimed its value (uniqueness check passed,
     transient key registered) or inherited it from the version of the same key it overwrites *)
  u_rows : t_uidx t = true -> forall k r, alookup k (t_rows t) = Some (false, r) ->
           claimed g c t (uvals g r) \/ inherited g c t k (uvals g r);
  u_pair : t_uidx t = true -> forall k1 r1 k2 r2, k1 <> k2 ->
           alookup k1 (t_rows t) = Some (false, r1) -> alookup k2 (t_rows t) = Some (false, r2) ->
           uvals g r1 = uvals g r2 -> inherited g c t k1 (uvals g r1) \/ inherited g c t k2 (uvals g r2)
}.

Lemma tU_new g c e : cwf c -> tU g c (new_tx g c e).
Proof.
  intros W.
  assert (F : t_catts (new_tx g c e) = c_last c /\ t_uidx (new_tx g c e) = c_uidx c /\
              t_usnap (new_tx g c e) = None).
  { unfold new_tx. cbv zeta. destruct (k_autoinc g); auto.
    destruct (last_key (c_rows c) (c_last c) None) as [[k tx]|]; simpl; auto. }
  destruct F as (F1 & F2 & F3). constructor.
  - lia.
  - rewrite F3; discriminate.
  - auto.
  - rewrite new_tx_rows. simpl. discriminate.
  - rewrite new_tx_rows. simpl. discriminate.
Qed.

Lemma tU_stable g c c' t : cwf c -> tU g c t -> cstep c c' -> tU g c' t.
Proof.
  intros W [U1 U2 U3 U4 U5] [E Cat]. pose proof (e_last _ _ E) as L. constructor.
  - lia.
  - intros a Ha. specialize (U2 _ Ha). lia.
  - intros Hc. destruct Cat as [(C1 & C2 & C3)|C1]; [|lia]. rewrite C2. apply U3. lia.
  - intros Hu k r Hr. destruct (U4 Hu k r Hr) as [[H1 (rs & H2 & H3)]|(etx & H1 & H2 & H3)].
    + left. split; auto. exists rs. split; auto. eapply tomb_reads_ext; eauto.
    + right. exists etx. repeat split; auto. eapply has_ver_ext; eauto.
  - intros Hu k1 r1 k2 r2 Hn H1 H2 Hv.
    destruct (U5 Hu k1 r1 k2 r2 Hn H1 H2 Hv) as [(etx & A1 & A2 & A3)|(etx & A1 & A2 & A3)]; [left|right];
      exists etx; repeat split; auto; eapply has_ver_ext; eauto.
Qed.

Lemma tU_mono g c t t' : tU g c t -> mono c t t' -> tU g c t'.
Proof.
  intros [U1 U2 U3 U4 U5] M. pose proof (mono_grows _ _ _ M) as G. constructor.
  - rewrite (m_cat _ _ _ M); auto.
  - intros a Ha. destruct (m_us _ _ _ M a Ha) as [H|[_ ->]]; auto. lia.
  - rewrite (m_cat _ _ _ M), (m_uidx _ _ _ M); auto.
  - rewrite (m_uidx _ _ _ M), (m_rows _ _ _ M). intros Hu k r Hr.
    destruct (U4 Hu k r Hr); [left; eapply claimed_grows | right; eapply inherited_grows]; eauto.
  - rewrite (m_uidx _ _ _ M), (m_rows _ _ _ M). intros Hu k1 r1 k2 r2 Hn H1 H2 Hv.
    destruct (U5 Hu k1 r1 k2 r2 Hn H1 H2 Hv); [left | right]; eapply inherited_grows; eauto.
Qed.

(* ---------- what a passed uniqueness check records ---------- *)
Lemma check_unique_fix_inv g c t x tc :
  check_unique_fix g c t x = Ok tc ->
  klookup (smkey_u g x) (t_keys t) <> Some true /\
  exists rs, scan_pfx (under (smkey_u g x) (uview g (usnap_ts c t) (c_rows c))) = (rs, false) /\
             tc = add_read (RScan (smkey_u g x) rs) (touch_u c t).
Proof.
  unfold check_unique_fix. cbv zeta. simpl t_keys.
  destruct (klookup (smkey_u g x) (t_keys t)) as [[|]|] eqn:Ek; try discriminate;
    destruct (scan_pfx (under (smkey_u g x) (uview g (usnap_ts c t) (c_rows c)))) as [rs f] eqn:Es;
    destruct f; try discriminate; intros H; inversion H; subst; split; try discriminate; eauto.
Qed.

Lemma scan_tomb_reads g c ts p rs :
  cwf c -> ts <= c_last c ->
  scan_pfx (under p (uview g ts (c_rows c))) = (rs, false) -> tomb_reads g c rs.
Proof.
  intros W L H. apply scan_pfx_false in H as [-> F].
  exists (map (fun ke => (fst ke, fst (snd ke))) (under p (uview g ts (c_rows c)))). split.
  - rewrite map_map. reflexivity.
  - rewrite Forall_map. rewrite Forall_forall in *. intros [K [tau f]] Hi. specialize (F _ Hi). simpl in *. subst f.
    unfold under in Hi. apply filter_In in Hi as [Hi _].
    apply uview_in in Hi as (k & vs & Hr & He).
    destruct (w_rows c W _ _ Hr) as [Kk D].
    destruct (u_entries_tx _ _ _ _ _ _ He) as (v & Hv & Ev).
    pose proof (vers_at_in _ _ _ Hv) as [Hv1 Hv2]. destruct (dec_tx_bound _ _ _ D Hv1).
    repeat split; try lia.
    intros k2 v2 H2 Et EK.
    destruct (u_entries_key _ _ _ _ _ He) as (y & Ey).
    apply lookup_pk_elem in H2 as (vs2 & Hr2 & Hv2').
    destruct (w_rows c W _ _ Hr2) as [Kk2 D2].
    assert (k = k2) by (subst K; eapply ukey_inj; eauto). subst k2.
    assert (vs2 = vs).
    { rewrite <- (in_lookup_pk _ _ _ (w_nodup c W) Hr2). apply in_lookup_pk; auto. apply (w_nodup c W). }
    subst vs2.
    assert (Hin2 : In v2 (vers_at ts vs)).
    { unfold vers_at. apply filter_In. split; auto. apply N.leb_le. lia. }
    symmetry. eapply (u_entries_flag g k (vers_at ts vs) (c_last c) K tau true v2); eauto.
    apply vers_at_dec; auto.
Qed.

Lemma fetch_detail c t k cur t0 :
  fetch c t k = (Some cur, t0) ->
  alookup k (t_rows t) = Some (false, cur) \/
  (alookup k (t_rows t) = None /\
   exists v vs, vers_at (psnap_ts c t) (lookup_pk k (c_rows c)) = v :: vs /\ v_del v = false /\ v_row v = cur /\
                In (RRange (Some k) (Some k) false [ERead k (v_tx v)]) (t_reads t0)).
Proof.
  unfold fetch, tx_row. cbv zeta. destruct (alookup k (t_rows t)) as [[d r]|] eqn:Ea.
  - destruct d; intros H; inversion H; subst. auto.
  - destruct (vers_at (psnap_ts c t) (lookup_pk k (c_rows c))) as [|v vs] eqn:Ev.
    + intros H; inversion H.
    + destruct (v_del v) eqn:Ed; intros H; inversion H; subst. right. split; auto.
      exists v, vs. repeat split; auto. simpl. left; auto.
Qed.

Lemma alookup_aset_live {A} k (x : A) l k0 y :
  alookup k0 (aset k x l) = Some y -> (k0 = k /\ y = x) \/ (k0 <> k /\ alookup k0 l = Some y).
Proof.
  rewrite alookup_aset. destruct (Z.eqb_spec k0 k); intros H.
  - inversion H; auto.
  - auto.
Qed.

(* ---------- doUpsert preserves the invariant ---------- *)
Lemma tU_upsert g fx c t k nv ns reuse t' :
  fx_unique fx = true -> cwf c -> tU g c t -> in_i64 k = true ->
  do_upsert g fx c t k nv ns reuse = Ok t' -> tU g c t'.
Proof.
  intros Fx W U K Hd.
  pose proof (do_upsert_rows _ _ _ _ _ _ _ _ _ Hd) as (v'0 & s'0 & _ & _ & Hrows & Hcat & Huidx & _).
  apply do_upsert_inv in Hd as (t1 & ru & rn & v' & s' & M1 & Cv & Cs & Hru & t3 & H3 & H4).
  cbv zeta in H3. set (t2 := set_rows (aset k (false, mkRow v' s') (t_rows t1)) (touch_p c t1)) in *.
  set (xn := uvals g (mkRow v' s')) in *.
  assert (G12 : grows t1 t2) by (unfold t2; split; simpl; auto; apply incl_refl).
  assert (M3 : mono c t2 t3).
  { destruct (t_uidx t2 && negb ru).
    - destruct H3 as (tc & Hc & Hk). eapply mono_trans; [eapply check_unique_mono; eauto | eapply key_set_mono; eauto].
    - subst; apply mono_refl. }
  assert (M4 : mono c t3 t').
  { destruct (t_nidx t3 && negb rn); [eapply key_set_mono; eauto | subst; apply mono_refl]. }
  assert (Gt1 : grows t1 t').
  { eapply grows_trans; [exact G12|]. eapply grows_trans; eapply mono_grows; eauto. }
  assert (G : grows t t').
  { eapply grows_trans; [eapply mono_grows; eauto | exact Gt1]. }
  assert (Rows : t_rows t' = aset k (false, mkRow v' s') (t_rows t)).
  { rewrite (m_rows _ _ _ M4), (m_rows _ _ _ M3). unfold t2; simpl. rewrite (m_rows _ _ _ M1). reflexivity. }
  assert (Eu2 : t_uidx t2 = t_uidx t) by (unfold t2; simpl; apply (m_uidx _ _ _ M1)).
  destruct U as [U1 U2 U3 U4 U5].
  (* a version read from the committed state by fetchPKRow is inherited *)
  assert (Inh : forall cur t0, fetch c t k = (Some cur, t0) -> mono c t0 t1 -> alookup k (t_rows t) = None ->
                               inherited g c t' k (uvals g cur)).
  { intros cur t0 Hf M01 Hl.
    destruct (fetch_detail _ _ _ _ _ Hf) as [Hl'|(_ & v & vs & Hv & Hd & Hrw & Hrd)]; [congruence|].
    assert (Hi : In v (vers_at (psnap_ts c t) (lookup_pk k (c_rows c)))) by (rewrite Hv; left; auto).
    apply vers_at_in in Hi as [Hi _].
    destruct (dec_tx_bound _ _ _ (cwf_lookup c k W) Hi).
    exists (v_tx v). split; auto. split.
    - apply (proj1 Gt1). apply (m_reads _ _ _ M01). exact Hrd.
    - exists v. repeat split; auto. congruence. }
  (* the status of the row written under k *)
  assert (Knew : t_uidx t = true -> claimed g c t' xn \/ inherited g c t' k xn).
  { intros Hu. destruct ru.
    - destruct (Hru eq_refl) as (cur & t0 & _ & Hf & M01 & _ & Ev). fold xn in Ev.
      destruct (fetch_detail _ _ _ _ _ Hf) as [Hl|(Hl & _)].
      + rewrite <- Ev. destruct (U4 Hu k cur Hl); [left; eapply claimed_grows | right; eapply inherited_grows]; eauto.
      + right. rewrite <- Ev. eapply Inh; eauto.
    - rewrite Eu2, Hu in H3. simpl in H3. destruct H3 as (tc & Hc & Hk).
      unfold check_unique in Hc. rewrite Fx in Hc.
      apply check_unique_fix_inv in Hc as (Hnk & rs & Hs & ->).
      left. split.
      + apply (m_keys _ _ _ M4). eapply key_set_bound; eauto.
      + exists rs. split.
        * apply (m_reads _ _ _ M4). apply (m_reads _ _ _ (key_set_mono c _ _ _ _ Hk)). simpl. left; auto.
        * apply (scan_tomb_reads g c (usnap_ts c t2) (smkey_u g xn) rs W); [|exact Hs].
          unfold usnap_ts. destruct (t_usnap t2) as [a|] eqn:Ea; [|lia].
          unfold t2 in Ea; simpl in Ea. destruct (m_us _ _ _ M1 a Ea) as [H|[_ ->]]; [auto | lia]. }
  constructor.
  - rewrite Hcat; auto.
  - intros a Ha. destruct (m_us _ _ _ M4 a Ha) as [H|[_ ->]]; [|lia].
    destruct (m_us _ _ _ M3 a H) as [H'|[_ ->]]; [|lia].
    unfold t2 in H'; simpl in H'. destruct (m_us _ _ _ M1 a H') as [H''|[_ ->]]; [auto | lia].
  - rewrite Hcat, Huidx; auto.
  - rewrite Huidx, Rows. intros Hu k0 r Hr.
    apply alookup_aset_live in Hr as [[-> E]|[Hn Hr]].
    + inversion E; subst. fold xn. auto.
    + destruct (U4 Hu k0 r Hr); [left; eapply claimed_grows | right; eapply inherited_grows]; eauto.
  - rewrite Huidx, Rows. intros Hu k1 r1 k2 r2 Hn H1 H2 Hv.
    (* a pair involving the freshly written key *)
    assert (Pair : forall k0 r0, k0 <> k -> alookup k0 (t_rows t) = Some (false, r0) -> uvals g r0 = xn ->
                                 inherited g c t' k xn \/ inherited g c t' k0 xn).
    { intros k0 r0 Hk0 Hl0 Hv0. destruct ru.
      - destruct (Hru eq_refl) as (cur & t0 & _ & Hf & M01 & _ & Ev). fold xn in Ev.
        destruct (fetch_detail _ _ _ _ _ Hf) as [Hl|(Hl & _)].
        + assert (Hk0' : k <> k0) by congruence.
          assert (Evv : uvals g cur = uvals g r0) by congruence.
          destruct (U5 Hu k cur k0 r0 Hk0' Hl Hl0 Evv) as [A|A].
          * left. rewrite <- Ev. eapply inherited_grows; eauto.
          * right. rewrite <- Hv0. eapply inherited_grows; eauto.
        + left. rewrite <- Ev. eapply Inh; eauto.
      - rewrite Eu2, Hu in H3. simpl in H3. destruct H3 as (tc & Hc & Hk).
        unfold check_unique in Hc. rewrite Fx in Hc.
        apply check_unique_fix_inv in Hc as (Hnk & _).
        destruct (U4 Hu k0 r0 Hl0) as [[Hc0 _]|Hi0].
        + exfalso. apply Hnk. unfold t2; simpl. apply (m_keys _ _ _ M1). rewrite <- Hv0. exact Hc0.
        + right. rewrite <- Hv0. eapply inherited_grows; eauto. }
    apply alookup_aset_live in H1 as [[-> E1]|[Hn1 H1]]; apply alookup_aset_live in H2 as [[-> E2]|[Hn2 H2]].
    + congruence.
    + inversion E1; subst. fold xn in Hv. fold xn. rewrite <- Hv. apply (Pair k2 r2 Hn2 H2). auto.
    + inversion E2; subst. fold xn in Hv. fold xn. rewrite Hv. destruct (Pair k1 r1 Hn1 H1 Hv); auto.
    + destruct (U5 Hu k1 r1 k2 r2 Hn H1 H2 Hv); [left | right]; eapply inherited_grows; eauto.
Qed.

Lemma tU_exec g fx c t s t' :
  fx_unique fx = true -> cwf c -> tbase t -> tU g c t -> exec_stmt g fx c t s = Ok t' -> tU g c t'.
Proof.
  intros Fx W B U H.
  assert (X : tbase t' /\ tU g c t'); [|tauto].
  apply (exec_stmt_preserves g fx c false false (fun x => tbase x /\ tU g c x) (fun _ => True)) with (t := t) (s := s);
    auto using stmt_safe_ff.
  - intros a b [Ba Ua] M. split; [|eapply tU_mono; eauto]. unfold tbase. rewrite (m_rows _ _ _ M). exact Ba.
  - intros a k etx d r [Ba Ua] Hr. split; auto. eapply tx_row_key; eauto.
  - intros a k nv ns reuse b [Ba Ua] K _ Hd. split; [eapply exec_tbase_up; eauto | eapply tU_upsert; eauto].
  - intros a k r [Ba Ua] _ K. split; [apply tbase_aset; auto|].
    destruct Ua as [U1 U2 U3 U4 U5]. constructor; simpl; auto.
    + intros Hu k0 r0 Hr. apply alookup_aset_live in Hr as [[_ E]|[Hn Hr]]; [discriminate|].
      destruct (U4 Hu k0 r0 Hr) as [[H1 H2]|(etx & H1 & H2 & H3)]; [left; split; auto | right; exists etx; auto].
    + intros Hu k1 r1 k2 r2 Hn H1 H2 Hv.
      apply alookup_aset_live in H1 as [[_ E]|[_ H1]]; [discriminate|].
      apply alookup_aset_live in H2 as [[_ E]|[_ H2]]; [discriminate|].
      destruct (U5 Hu k1 r1 k2 r2 Hn H1 H2 Hv) as [(etx & A)|(etx & A)]; [left | right]; exists etx; auto.
  - intros a n [Ba Ua]. split; [exact Ba|]. eapply tU_mono; [exact Ua | apply mono_set_maxpk].
Qed.

(* ---------- what a successful validation says about the state committed on ---------- *)
Lemma claimed_valid g c t x k r :
  cwf c -> claimed g c t x -> forallb (val_entry g c) (t_reads t) = true ->
  In (k, r) (live_rows c) -> uvals g r = x -> False.
Proof.
  intros W [_ (rs & Hin & (l & -> & F))] Hval Hl Hx.
  rewrite forallb_forall in Hval. specialize (Hval _ Hin). simpl in Hval.
  apply val_reads_exact in Hval; [|eapply Forall_impl; [|exact F]; simpl; tauto].
  apply live_rows_in in Hl as (v & vs & Hr & Hd & Hrow).
  pose proof (uview_newest g c k v vs W Hr) as He. rewrite Hrow, Hx, Hd in He.
  assert (Hu : In (ukey g x k, (v_tx v, false)) (under (smkey_u g x) (uview g (c_last c) (c_rows c)))).
  { unfold under. apply filter_In. split; auto. simpl. apply ukey_prefix. }
  apply (in_map (fun ke : bytes * entry => (fst ke, fst (snd ke)))) in Hu. simpl in Hu.
  destruct (Forall2_in_r _ _ _ _ Hval Hu) as ([K tau] & Hkt & HK & Ht). simpl in *.
  apply bytes_eqb_eq in HK.
  rewrite Forall_forall in F. destruct (F _ Hkt) as (_ & _ & Hn). simpl in Hn.
  assert (Hv : In v (lookup_pk k (c_rows c))).
  { rewrite (in_lookup_pk _ _ _ (w_nodup c W) Hr). left; auto. }
  assert (EK : K = ukey g (uvals g (v_row v)) k) by (rewrite Hrow, Hx; exact HK).
  specialize (Hn k v Hv (eq_sym Ht) EK). congruence.
Qed.

Lemma cur_keys_in lo hi rows k tau :
  In (k, tau) (cur_keys lo hi false rows) -> exists v vs, In (k, v :: vs) rows /\ v_tx v = tau.
Proof.
  unfold cur_keys. rewrite in_flat_map. intros ([k0 vs0] & Hi & Hl). simpl in Hl.
  destruct vs0 as [|v vs]; [destruct Hl|]. destruct (in_range lo hi k0); [|destruct Hl].
  destruct Hl as [Hl|[]]. inversion Hl; subst. eauto.
Qed.

Lemma inherited_valid g c t k x :
  cwf c -> inherited g c t k x -> forallb (val_entry g c) (t_reads t) = true ->
  exists r, In (k, r) (live_rows c) /\ uvals g r = x.
Proof.
  intros W (etx & Hpos & Hin & (v & Hv & Et & Hd & Hx)) Hval.
  rewrite forallb_forall in Hval. specialize (Hval _ Hin). unfold val_entry in Hval.
  destruct (N.eqb_spec etx 0); [lia|].
  destruct (cur_keys (Some k) (Some k) false (c_rows c)) as [|[k' tau'] C] eqn:EC;
    cbn [val_reads fst snd] in Hval; destruct (N.eqb_spec etx 0); try lia; try discriminate.
  destruct (Z.eqb_spec k k'); cbn [andb] in Hval; [|discriminate]. subst k'.
  destruct (N.eqb_spec etx tau'); [|discriminate]. subst tau'.
  assert (Hc : In (k, etx) (cur_keys (Some k) (Some k) false (c_rows c))) by (rewrite EC; left; auto).
  apply cur_keys_in in Hc as (v0 & vs0 & Hr & E0).
  rewrite (in_lookup_pk _ _ _ (w_nodup c W) Hr) in Hv.
  destruct (w_rows c W _ _ Hr) as [_ D].
  assert (v = v0) by (eapply dec_tx_inj; eauto; [left; auto | congruence]). subst v0.
  exists (v_row v). split; auto. apply live_rows_in. exists v, vs0. auto.
Qed.

(* live rows after applying the writes of a transaction *)
Lemma live_after c t k r :
  cwf c -> tbase t -> t_rows t <> [] ->
  In (k, r) (live_rows (apply_writes c t)) ->
  alookup k (t_rows t) = Some (false, r) \/ (alookup k (t_rows t) = None /\ In (k, r) (live_rows c)).
Proof.
  intros W [B1 B2] Hne. unfold apply_writes. destruct (t_rows t) as [|w wr] eqn:E; [congruence|].
  rewrite <- E in *. fold (add_writes (c_last c + 1) (t_rows t) (c_rows c)).
  intros H. apply live_rows_lookup in H; [|simpl; apply add_writes_nodup; apply (w_nodup c W)].
  destruct H as (v & vs & Hl & Hd & Hr). simpl in Hl. rewrite add_writes_lookup in Hl by auto.
  destruct (alookup k (t_rows t)) as [[d r0]|] eqn:Ea.
  - inversion Hl; subst. simpl in *. subst. auto.
  - right. split; auto. apply live_rows_lookup; [apply (w_nodup c W)|]. eauto.
Qed.

Lemma unique_commit g c t :
  cwf c -> unique_ok g c -> tbase t -> tU g c t -> validate g c t = true -> t_rows t <> [] ->
  unique_ok g (apply_writes c t).
Proof.
  intros W Uc B U Hval Hne Hidx k1 r1 k2 r2 H1 H2 Hv.
  assert (Eidx : c_uidx (apply_writes c t) = c_uidx c).
  { unfold apply_writes. destruct (t_rows t); reflexivity. }
  rewrite Eidx in Hidx.
  unfold validate in Hval. apply andb_prop in Hval as [Hcat Hreads].
  assert (Hu : t_uidx t = true).
  { rewrite <- (u_cat _ _ _ U); auto. destruct (N.ltb_spec (t_catts t) (c_cat c)); [discriminate | lia]. }
  apply (live_after c t _ _ W B Hne) in H1. apply (live_after c t _ _ W B Hne) in H2.
  destruct (Z.eq_dec k1 k2) as [|Hn]; auto. exfalso.
  destruct H1 as [L1|[N1 L1]], H2 as [L2|[N2 L2]].
  - (* both written by the transaction *)
    destruct (u_pair _ _ _ U Hu k1 r1 k2 r2 Hn L1 L2 Hv) as [I|I].
    + destruct (inherited_valid _ _ _ _ _ W I Hreads) as (r & Hl & Hx).
      destruct (u_rows _ _ _ U Hu k2 r2 L2) as [Cl|I2].
      * eapply (claimed_valid g c t (uvals g r2) k1 r); eauto. congruence.
      * destruct (inherited_valid _ _ _ _ _ W I2 Hreads) as (r' & Hl' & Hx').
        apply Hn. eapply (Uc Hidx k1 r k2 r'); eauto. congruence.
    + destruct (inherited_valid _ _ _ _ _ W I Hreads) as (r & Hl & Hx).
      destruct (u_rows _ _ _ U Hu k1 r1 L1) as [Cl|I1].
      * eapply (claimed_valid g c t (uvals g r1) k2 r); eauto. congruence.
      * destruct (inherited_valid _ _ _ _ _ W I1 Hreads) as (r' & Hl' & Hx').
        apply Hn. eapply (Uc Hidx k1 r' k2 r); eauto. congruence.
  - (* k1 written, k2 untouched and live *)
    destruct (u_rows _ _ _ U Hu k1 r1 L1) as [Cl|I1].
    + eapply (claimed_valid g c t (uvals g r1) k2 r2); eauto.
    + destruct (inherited_valid _ _ _ _ _ W I1 Hreads) as (r' & Hl' & Hx').
      apply Hn. eapply (Uc Hidx k1 r' k2 r2); eauto. congruence.
  - destruct (u_rows _ _ _ U Hu k2 r2 L2) as [Cl|I2].
    + eapply (claimed_valid g c t (uvals g r2) k1 r1); eauto.
    + destruct (inherited_valid _ _ _ _ _ W I2 Hreads) as (r' & Hl' & Hx').
      apply Hn. eapply (Uc Hidx k1 r1 k2 r'); eauto. congruence.
  - apply Hn. eapply (Uc Hidx); eauto.
Qed.

(* CREATE UNIQUE INDEX with the repaired emptiness test: accepted only when no row is live *)
Lemma table_empty_fix_live c : cwf c -> table_empty_fix c = true -> live_rows c = [].
Proof.
  intros W H. unfold table_empty_fix in H.
  destruct (live_rows c) as [|[k r] l] eqn:E; auto. exfalso.
  assert (Hl : In (k, r) (live_rows c)) by (rewrite E; left; auto).
  apply live_rows_in in Hl as (v & vs & Hr & Hd & _).
  assert (Hp : In (pkey k, (v_tx v, false)) (under pfx_p (pview (c_last c) (c_rows c)))).
  { unfold under. apply filter_In. split.
    - unfold pview. apply in_flat_map. exists (k, v :: vs). split; auto. simpl fst; simpl snd.
      destruct (w_rows c W _ _ Hr) as [_ D]. rewrite (vers_at_all _ _ _ D) by lia. rewrite <- Hd. left; auto.
    - simpl. unfold pkey. apply has_prefix_app. }
  apply scan_pfx_live in Hp. rewrite Hp in H. discriminate.
Qed.

Lemma unique_ddl g fx c u c' : fx_unique fx = true -> cwf c -> unique_ok g c -> ddl fx c u = Ok c' -> unique_ok g c'.
Proof.
  intros Fx W Uc H. unfold ddl in H. rewrite Fx in H. destruct u.
  - destruct (table_empty_fix c) eqn:Ee; simpl in H; [|discriminate].
    destruct (c_uidx c); [discriminate|]. inversion H; subst.
    intros _ k1 r1 k2 r2 H1. unfold live_rows in H1; simpl in H1. fold (live_rows c) in H1.
    rewrite (table_empty_fix_live c W Ee) in H1. destruct H1.
  - destruct (c_nidx c); [discriminate|]. inversion H; subst. exact Uc.
Qed.

Theorem unique_fixed g fx evs : fx_unique fx = true -> unique_ok g (s_c (run g fx evs)).
Proof.
  intros Fx.
  assert (S : SI (unique_ok g) (tU g) (run g fx evs)).
  { apply (run_SI g fx false false (unique_ok g) (tU g)).
    - intros Hu; discriminate.
    - intros c e W _. apply tU_new; auto.
    - intros c t s t' W _ B U _ H. eapply tU_exec; eauto.
    - intros; eapply unique_commit; eauto.
    - intros c c' t W _ _ U S. eapply tU_stable; eauto.
    - intros; eapply unique_ddl; eauto.
    - apply forallb_forall. intros; apply ev_safe_ff. }
  destruct S as (_ & U & _). exact U.
Qed.
