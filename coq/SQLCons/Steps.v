(* C12 — how the statement paths change an ongoing transaction: frame lemmas for the read-only
   primitives, and one induction principle for exec_stmt used by every invariant proof. *)
From V Require Import SQLCons.Model SQLCons.Spec SQLCons.Basics.
From Coq Require Import ZArith Lia.
From Coq Require Import ZifyN ZifyNat ZifyBool.
Open Scope N_scope.

Ltac bind_inv H :=
  let a := fresh "a" in let Hb := fresh "Hb" in
  apply bind_ok in H; destruct H as (a & Hb & H); cbv beta zeta in H.

(* ---------- steps that leave the written rows untouched ---------- *)
Record mono (c : cstate) (t t' : txs) : Prop := mkMono {
  m_rows : t_rows t' = t_rows t;
  m_cat : t_catts t' = t_catts t;
  m_uidx : t_uidx t' = t_uidx t;
  m_nidx : t_nidx t' = t_nidx t;
  m_reads : incl (t_reads t) (t_reads t');
  m_keys : forall K b, klookup K (t_keys t) = Some b -> klookup K (t_keys t') = Some b;
  m_ps : forall a, t_psnap t' = Some a -> t_psnap t = Some a \/ (t_psnap t = None /\ a = c_last c);
  m_us : forall a, t_usnap t' = Some a -> t_usnap t = Some a \/ (t_usnap t = None /\ a = c_last c);
  m_ps' : forall a, t_psnap t = Some a -> t_psnap t' = Some a;
  m_us' : forall a, t_usnap t = Some a -> t_usnap t' = Some a
}.

Lemma mono_refl c t : mono c t t.
Proof. constructor; auto. apply incl_refl. Qed.
Lemma mono_trans c a b d : mono c a b -> mono c b d -> mono c a d.
Proof.
  intros [A1 A2 A3 A4 A5 A6 A7 A8 A9 A10] [B1 B2 B3 B4 B5 B6 B7 B8 B9 B10].
  constructor; try congruence; auto.
  - eapply incl_tran; eauto.
  - intros x Hx. destruct (B7 _ Hx) as [H|[H1 H2]]; auto.
    destruct (t_psnap a) as [y|] eqn:E; auto. specialize (A9 y eq_refl). congruence.
  - intros x Hx. destruct (B8 _ Hx) as [H|[H1 H2]]; auto.
    destruct (t_usnap a) as [y|] eqn:E; auto. specialize (A10 y eq_refl). congruence.
Qed.

Lemma mono_touch_p c t : mono c t (touch_p c t).
Proof.
  constructor; simpl; auto; try apply incl_refl.
  - unfold psnap_ts. intros a H. destruct (t_psnap t); inversion H; auto.
  - unfold psnap_ts. intros a H. rewrite H; auto.
Qed.
Lemma mono_touch_u c t : mono c t (touch_u c t).
Proof.
  constructor; simpl; auto; try apply incl_refl.
  - unfold usnap_ts. intros a H. destruct (t_usnap t); inversion H; auto.
  - unfold usnap_ts. intros a H. rewrite H; auto.
Qed.
Lemma mono_add_read c t r : mono c t (add_read r t).
Proof. constructor; simpl; auto. apply incl_tl, incl_refl. Qed.
Lemma mono_set_maxpk c t n : mono c t (set_maxpk n t).
Proof. constructor; simpl; auto. apply incl_refl. Qed.

Lemma tx_get_mono c t k : mono c t (snd (tx_get c t k)).
Proof.
  unfold tx_get. cbv zeta. destruct (alookup k (t_rows (touch_p c t))); simpl.
  - apply mono_touch_p.
  - destruct (vers_at (psnap_ts c t) (lookup_pk k (c_rows c))) as [|v vs]; simpl.
    + eapply mono_trans; [apply mono_touch_p | apply mono_add_read].
    + destruct (v_del v); simpl; (eapply mono_trans; [apply mono_touch_p | apply mono_add_read]).
Qed.
Lemma scan_mono c t lo hi : mono c t (snd (scan c t lo hi)).
Proof. unfold scan. simpl. eapply mono_trans; [apply mono_touch_p | apply mono_add_read]. Qed.
Lemma fetch_mono c t k : mono c t (snd (fetch c t k)).
Proof.
  unfold fetch. cbv zeta. destruct (tx_row c t (psnap_ts c t) k) as [[[etx d] r]|]; [destruct d|]; simpl;
    (eapply mono_trans; [apply mono_touch_p | apply mono_add_read]).
Qed.

Lemma klookup_cons K K' b l :
  klookup K ((K', b) :: l) = if bytes_eqb K K' then Some b else klookup K l.
Proof. reflexivity. Qed.

Lemma key_set_mono c K b t t' : key_set K b t = Ok t' -> mono c t t'.
Proof.
  unfold key_set. destruct (klookup K (t_keys t)) as [b0|] eqn:E.
  - destruct (Bool.eqb b0 b); intros H; inversion H; subst. apply mono_refl.
  - intros H; inversion H; subst. constructor; simpl; auto; try apply incl_refl.
    intros K1 b1 H1. destruct (bytes_eqb K1 K) eqn:E1; auto.
    apply bytes_eqb_eq in E1; subst. congruence.
Qed.
Lemma key_set_bound K b t t' : key_set K b t = Ok t' -> klookup K (t_keys t') = Some b.
Proof.
  unfold key_set. destruct (klookup K (t_keys t)) as [b0|] eqn:E.
  - destruct (Bool.eqb b0 b) eqn:Eb; intros H; inversion H; subst.
    apply Bool.eqb_prop in Eb; subst; auto.
  - intros H; inversion H; subst. simpl. rewrite bytes_eqb_refl. reflexivity.
Qed.

Lemma check_unique_mono fx g c t x t' : check_unique fx g c t x = Ok t' -> mono c t t'.
Proof.
  unfold check_unique. destruct (fx_unique fx).
  - unfold check_unique_fix. cbv zeta.
    destruct (klookup (smkey_u g x) (t_keys (touch_u c t))) as [[|]|]; try discriminate;
    destruct (scan_pfx (under (smkey_u g x) (uview g (usnap_ts c t) (c_rows c)))) as [rs f]; destruct f; try discriminate;
    intros H; inversion H; subst; (eapply mono_trans; [apply mono_touch_u | apply mono_add_read]).
  - unfold check_unique_cur. cbv zeta.
    destruct (klookup (smkey_u g x) (t_keys (touch_u c t))) as [[|]|]; try discriminate;
    destruct (get_live_with_prefix (smkey_u g x) (uview g (usnap_ts c t) (c_rows c))); try discriminate;
    intros H; inversion H; subst; (eapply mono_trans; [apply mono_touch_u | apply mono_add_read]).
Qed.

Lemma deprecate_mono g c t cur nv ns t' ru rn :
  deprecate g t cur nv ns = Ok (t', ru, rn) -> mono c t t'.
Proof.
  unfold deprecate. intros H. bind_inv H. bind_inv H. inversion H; subst; clear H.
  assert (M1 : mono c t (fst a)).
  { destruct (t_uidx t); [|inversion Hb; subst; apply mono_refl].
    apply bind_ok in Hb as (same & Hs & Hb). destruct same; [inversion Hb; subst; apply mono_refl|].
    bind_inv Hb. inversion Hb; subst. simpl. eapply key_set_mono; eauto. }
  eapply mono_trans; [exact M1|].
  destruct (t_nidx t); [|inversion Hb0; subst; apply mono_refl].
  destruct ns; try discriminate.
  - destruct (val_eqb (r_s cur) VNull); [inversion Hb0; subst; apply mono_refl|].
    bind_inv Hb0. inversion Hb0; subst. simpl. eapply key_set_mono; eauto.
  - destruct (val_eqb (r_s cur) (VStr s)); [inversion Hb0; subst; apply mono_refl|].
    bind_inv Hb0. inversion Hb0; subst. simpl. eapply key_set_mono; eauto.
Qed.

Lemma deprecate_ru g t cur nv ns t' rn :
  deprecate g t cur nv ns = Ok (t', true, rn) -> t_uidx t = true /\ ucols_same g cur nv ns = Ok true.
Proof.
  unfold deprecate. intros H. bind_inv H. bind_inv H. inversion H; subst; clear H.
  destruct (t_uidx t); [|inversion Hb; subst; simpl in *; discriminate].
  split; auto. apply bind_ok in Hb as (same & Hs & Hb). rewrite H2. destruct same; auto.
  bind_inv Hb. inversion Hb; subst. simpl in *; discriminate.
Qed.

(* "same index key" means: the value under the UNIQUE index does not change *)
Lemma ucols_same_uvals g cur nv ns v' s' :
  ucols_same g cur nv ns = Ok true -> conv_v nv = Ok v' -> conv_s (k_maxlen g) ns = Ok s' ->
  uvals g cur = uvals g (mkRow v' s').
Proof.
  unfold ucols_same, uvals. simpl r_v; simpl r_s. intros H Cv Cs. apply conv_v_same in Cv. subst v'.
  destruct nv; try discriminate; destruct (k_ucomp g).
  all: try (inversion H as [E]; apply val_eqb_eq in E; rewrite E; reflexivity).
  all: destruct ns; try discriminate; inversion H as [E]; apply andb_prop in E as [E1 E2];
    apply val_eqb_eq in E1; apply val_eqb_eq in E2; rewrite E1, E2; simpl in Cs.
  all: try (inversion Cs; reflexivity).
  all: destruct (len s <=? k_maxlen g); inversion Cs; reflexivity.
Qed.

(* ---------- rfold ---------- *)
Lemma rfold_err {A B} (f : B -> A -> res B) l e :
  fold_left (fun acc a => do x <- acc; f x a) l (Err e) = Err e.
Proof. induction l; simpl; auto. Qed.
Lemma rfold_panic {A B} (f : B -> A -> res B) l :
  fold_left (fun acc a => do x <- acc; f x a) l Panic = Panic.
Proof. induction l; simpl; auto. Qed.
Lemma rfold_ind {A B} (f : B -> A -> res B) (P : B -> Prop) l b b' :
  (forall x a x', In a l -> P x -> f x a = Ok x' -> P x') ->
  P b -> rfold f l b = Ok b' -> P b'.
Proof.
  unfold rfold. revert b; induction l as [|a l IH]; simpl; intros b Hs Hb H.
  - inversion H; subst; auto.
  - destruct (f b a) as [x| |] eqn:E.
    + apply (IH x); auto. intros; eapply Hs; eauto. eapply Hs; eauto.
    + rewrite rfold_err in H; discriminate.
    + rewrite rfold_panic in H; discriminate.
Qed.

(* ---------- doUpsert, decomposed ---------- *)
Lemma do_upsert_inv g fx c t k nv ns reuse t' :
  do_upsert g fx c t k nv ns reuse = Ok t' ->
  exists t1 ru rn v' s',
    mono c t t1 /\
    conv_v nv = Ok v' /\ conv_s (k_maxlen g) ns = Ok s' /\
    (ru = true -> exists cur t0, reuse = true /\ fetch c t k = (Some cur, t0) /\ mono c t0 t1 /\
                                 t_uidx t = true /\ uvals g cur = uvals g (mkRow v' s')) /\
    exists t3,
      (let t2 := set_rows (aset k (false, mkRow v' s') (t_rows t1)) (touch_p c t1) in
       if t_uidx t2 && negb ru
       then exists tc, check_unique fx g c t2 (uvals g (mkRow v' s')) = Ok tc /\
                       key_set (smkey_u g (uvals g (mkRow v' s'))) true tc = Ok t3
       else t3 = t2) /\
      (if t_nidx t3 && negb rn then key_set (smkey_n (k_maxlen g) s') true t3 = Ok t' else t' = t3).
Proof.
  unfold do_upsert. intros H. bind_inv H. destruct a as [[t1 ru] rn]. simpl fst in H; simpl snd in H.
  bind_inv H. rename a into v'. bind_inv H. rename a into s'. bind_inv H. rename a into t3.
  bind_inv H. inversion H; subst; clear H.
  exists t1, ru, rn, v', s'.
  assert (D : mono c t t1 /\ (ru = true -> exists cur t0, reuse = true /\ fetch c t k = (Some cur, t0) /\ mono c t0 t1 /\
                                            t_uidx t = true /\ uvals g cur = uvals g (mkRow v' s'))).
  { destruct (reuse && (t_uidx t || t_nidx t)) eqn:Er.
    - destruct (fetch c t k) as [[cur|] t0] eqn:Ef.
      + pose proof (fetch_mono c t k) as M0. rewrite Ef in M0; simpl in M0.
        pose proof (deprecate_mono _ c _ _ _ _ _ _ _ Hb) as M1.
        split; [eapply mono_trans; eauto|].
        intros ->. exists cur, t0. apply andb_prop in Er as [Er1 _].
        destruct (deprecate_ru _ _ _ _ _ _ _ Hb) as [Du Ds].
        refine (conj Er1 (conj eq_refl (conj M1 (conj _ _)))).
        * rewrite <- (m_uidx _ _ _ M0). exact Du.
        * eapply ucols_same_uvals; eauto.
      + inversion Hb; subst. pose proof (fetch_mono c t k) as M0. rewrite Ef in M0; simpl in M0.
        split; auto. discriminate.
    - inversion Hb; subst. split; [apply mono_refl | discriminate]. }
  destruct D as [D1 D2]. refine (conj D1 (conj Hb0 (conj Hb1 (conj D2 _)))).
  exists t3. split.
  - cbv zeta. destruct (t_uidx (set_rows (aset k (false, mkRow v' s') (t_rows t1)) (touch_p c t1)) && negb ru).
    + bind_inv Hb2. eauto.
    + inversion Hb2; auto.
  - destruct (t_nidx t3 && negb rn); auto. inversion Hb3; auto.
Qed.

Lemma mono_set_rows_after c t rs t' : mono c (set_rows rs t) t' -> t_rows t' = rs.
Proof. intros M. rewrite (m_rows _ _ _ M). reflexivity. Qed.

(* what doUpsert leaves in the transaction: the converted row under k, everything else as before *)
Lemma do_upsert_rows g fx c t k nv ns reuse t' :
  do_upsert g fx c t k nv ns reuse = Ok t' ->
  exists v' s', conv_v nv = Ok v' /\ conv_s (k_maxlen g) ns = Ok s' /\
                t_rows t' = aset k (false, mkRow v' s') (t_rows t) /\
                t_catts t' = t_catts t /\ t_uidx t' = t_uidx t /\ t_nidx t' = t_nidx t.
Proof.
  intros H. apply do_upsert_inv in H as (t1 & ru & rn & v' & s' & M1 & Cv & Cs & _ & t3 & H3 & H4).
  exists v', s'. repeat split; auto.
  all: cbv zeta in H3.
  all: set (t2 := set_rows (aset k (false, mkRow v' s') (t_rows t1)) (touch_p c t1)) in *.
  all: assert (M3 : mono c t2 t3) by
      (destruct (t_uidx t2 && negb ru);
       [destruct H3 as (tc & Hc & Hk); eapply mono_trans; [eapply check_unique_mono; eauto | eapply key_set_mono; eauto]
       | subst; apply mono_refl]).
  all: assert (M4 : mono c t3 t') by
      (destruct (t_nidx t3 && negb rn); [eapply key_set_mono; eauto | subst; apply mono_refl]).
  - rewrite (m_rows _ _ _ M4), (m_rows _ _ _ M3). unfold t2; simpl. rewrite (m_rows _ _ _ M1). reflexivity.
  - rewrite (m_cat _ _ _ M4), (m_cat _ _ _ M3). unfold t2; simpl. apply (m_cat _ _ _ M1).
  - rewrite (m_uidx _ _ _ M4), (m_uidx _ _ _ M3). unfold t2; simpl. apply (m_uidx _ _ _ M1).
  - rewrite (m_nidx _ _ _ M4), (m_nidx _ _ _ M3). unfold t2; simpl. apply (m_nidx _ _ _ M1).
Qed.

(* ---------- reads of rows ---------- *)
Lemma fetch_some c t k r t' :
  fetch c t k = (Some r, t') -> exists etx, tx_row c t (psnap_ts c t) k = Some (etx, false, r).
Proof.
  unfold fetch. cbv zeta. destruct (tx_row c t (psnap_ts c t) k) as [[[etx d] r0]|]; [destruct d|];
    intros H; inversion H; subst. eauto.
Qed.
Lemma scan_rows_vis c t lo hi k r :
  In (k, r) (fst (scan c t lo hi)) -> exists etx, tx_row c t (psnap_ts c t) k = Some (etx, false, r).
Proof.
  unfold scan. simpl. rewrite in_flat_map. intros ([k0 [[etx d] r0]] & Hi & Hl). simpl in Hl.
  destruct d; [destruct Hl|]. destruct Hl as [Hl|[]]. inversion Hl; subst.
  unfold scan_items in Hi. cbv zeta in Hi. apply in_flat_map in Hi as (k1 & _ & Hi).
  destruct (tx_row c t (psnap_ts c t) k1) as [x|] eqn:E; [|destruct Hi].
  destruct Hi as [Hi|[]]. inversion Hi; subst. eauto.
Qed.

Lemma wrap64_in z : in_i64 (wrap64 z) = true.
Proof.
  unfold in_i64, wrap64, two63.
  pose proof (Z.mod_pos_bound (z + 9223372036854775808) (2 * 9223372036854775808) ltac:(lia)).
  apply andb_true_intro; split; [apply Z.leb_le | apply Z.ltb_lt]; lia.
Qed.

Section Preserve.
  Variables (g : cfg) (fx : fixes) (c : cstate) (nn ck : bool).
  Variable Inv : txs -> Prop.
  Variable Good : row -> Prop.
  Hypothesis Hmono : forall t t', Inv t -> mono c t t' -> Inv t'.
  Hypothesis Hvis : forall t k etx d r, Inv t -> tx_row c t (psnap_ts c t) k = Some (etx, d, r) ->
                                        Good r /\ in_i64 k = true.
  (* where the two cells handed to doUpsert come from *)
  Definition srcG (nv ns : val) : Prop :=
    ((k_notnull g && is_null nv) = false /\ check_ok g nv = true) \/
    (exists r, Good r /\ ns = r_s r /\ (nn = true -> (k_notnull g && is_null nv) = false) /\
               (ck = true -> check_ok g nv = true)) \/
    (exists r, Good r /\ nv = r_v r).
  Hypothesis Hup : forall t k nv ns reuse t',
      Inv t -> in_i64 k = true -> srcG nv ns -> do_upsert g fx c t k nv ns reuse = Ok t' -> Inv t'.
  Hypothesis Hdel : forall t k r,
      Inv t -> Good r -> in_i64 k = true -> Inv (set_rows (aset k (true, r) (t_rows t)) t).
  Hypothesis Hmax : forall t n, Inv t -> Inv (set_maxpk n t).

  Lemma ins_row_preserves m safe_nn safe_ck t r t' :
    (forall colv x, m = MDoUpdate colv x ->
       (colv = true -> nn = true -> fx_notnull fx = false -> (k_notnull g && is_null x) = false) /\
       (colv = true -> ck = true -> fx_check fx = false -> check_ok g x = true)) ->
    safe_nn = true -> safe_ck = true ->
    Inv t -> ins_row g fx c m t r = Ok t' -> Inv t'.
  Proof.
    intros Hsafe _ _ HI H. unfold ins_row in H. cbv zeta in H. bind_inv H. destruct a as [[k me] t0].
    simpl fst in H; simpl snd in H.
    assert (K : in_i64 k = true /\ Inv t0).
    { destruct (fst (fst r)) as [[|z|s]|]; try discriminate.
      - destruct (in_i64 z) eqn:Ez; inversion Hb; subst; auto.
      - destruct (k_autoinc g && match m with MUpsert => false | _ => true end); inversion Hb; subst.
        split; [apply wrap64_in | apply Hmax; auto]. }
    destruct K as [Kk K0]. clear Hb.
    destruct (k_notnull g && is_null (snd (fst r))) eqn:Enn; try discriminate.
    destruct (check_ok g (snd (fst r))) eqn:Eck; try discriminate. simpl negb in H. cbv iota in H.
    destruct (tx_get c t0 k) as [found0 t1] eqn:Eg.
    assert (I1 : Inv t1).
    { apply (Hmono t0); auto. pose proof (tx_get_mono c t0 k) as M. rewrite Eg in M; exact M. }
    remember (found0 && negb match alookup k (t_rows t1) with Some (true, _) => true | _ => false end) as found eqn:Efound.
    destruct (negb found && me); try discriminate.
    assert (Hplain : forall reuse, do_upsert g fx c t1 k (snd (fst r)) (snd r) reuse = Ok t' -> Inv t').
    { intros reuse Hd. eapply Hup; eauto. left; auto. }
    clear Efound.
    destruct m as [| | |colv x]; destruct found; try discriminate; eauto.
    - inversion H; subst; auto.
    - destruct (fetch c t1 k) as [[cur|] t2] eqn:Ef; try discriminate.
      pose proof (fetch_mono c t1 k) as M2. rewrite Ef in M2; simpl in M2.
      apply fetch_some in Ef as (etx & Ev). destruct (Hvis _ _ _ _ _ I1 Ev) as [Gc _].
      destruct (Hsafe colv x eq_refl) as [S1 S2].
      destruct (fx_notnull fx && k_notnull g && is_null (if colv then x else r_v cur)) eqn:E1; try discriminate.
      destruct (fx_check fx && negb (check_ok g (if colv then x else r_v cur))) eqn:E2; try discriminate.
      eapply Hup; [apply (Hmono t1); eauto | exact Kk | | exact H].
      destruct colv.
      + right; left. exists cur. refine (conj Gc (conj eq_refl (conj _ _))).
        * intros Hn. destruct (fx_notnull fx) eqn:Ef1; auto.
        * intros Hc. destruct (fx_check fx) eqn:Ef2; auto.
          simpl in E2. destruct (check_ok g x); auto; discriminate.
      + right; right. exists cur; auto.
  Qed.

  Lemma upd_row_preserves colv x t kr t' :
    (colv = true -> nn = true -> fx_notnull fx = false -> (k_notnull g && is_null x) = false) ->
    Good (snd kr) -> in_i64 (fst kr) = true ->
    Inv t -> upd_row g fx c colv x t kr = Ok t' -> Inv t'.
  Proof.
    intros Hsafe Gr Kk HI H. unfold upd_row in H.
    destruct (if colv then match x with VStr _ => true | _ => false end
              else match x with VInt _ => true | _ => false end); try discriminate.
    destruct (fx_notnull fx && colv && k_notnull g && is_null x) eqn:E1; try discriminate.
    cbv zeta in H.
    destruct (check_ok g (if colv then x else r_v (snd kr))) eqn:Eck; try discriminate. simpl negb in H; cbv iota in H.
    destruct (tx_get c t (fst kr)) as [found t1] eqn:Eg.
    assert (I1 : Inv t1).
    { apply (Hmono t); auto. pose proof (tx_get_mono c t (fst kr)) as M. rewrite Eg in M; exact M. }
    destruct found; try discriminate. simpl negb in H; cbv iota in H.
    eapply Hup; eauto. destruct colv.
    - right; left. exists (snd kr). refine (conj Gr (conj eq_refl (conj _ (fun _ => Eck)))).
      intros Hn. destruct (fx_notnull fx) eqn:Ef1; auto.
    - right; right. exists (snd kr); auto.
  Qed.

  Lemma exec_stmt_preserves t s t' :
    Inv t -> stmt_safe g fx nn ck s = true -> exec_stmt g fx c t s = Ok t' -> Inv t'.
  Proof.
    intros HI Hs H. destruct s as [m rows|w colv x|w]; unfold exec_stmt in H.
    - eapply (rfold_ind _ Inv); [|exact HI|exact H].
      intros t0 r t1 _ I0 Hr. eapply (ins_row_preserves m true true); eauto.
      intros colv x ->. simpl in Hs. destruct colv; [|split; discriminate].
      apply andb_prop in Hs as [S1 S2]. split; intros _ Hn Hf; rewrite Hn, Hf in *; simpl in *.
      + destruct (k_notnull g && is_null x); auto; discriminate.
      + exact S2.
    - unfold scan_where in H.
      destruct (scan c t (fst (where_range w)) (snd (where_range w))) as [rs t1] eqn:Es.
      assert (I1 : Inv t1).
      { apply (Hmono t); auto. pose proof (scan_mono c t (fst (where_range w)) (snd (where_range w))) as M.
        rewrite Es in M; exact M. }
      eapply (rfold_ind _ Inv); [|exact I1|exact H].
      intros t0 kr t2 Hin I0 Hr. apply filter_In in Hin as [Hin _].
      assert (Hv : In (fst kr, snd kr) (fst (scan c t (fst (where_range w)) (snd (where_range w)))))
        by (rewrite Es; destruct kr; exact Hin).
      apply scan_rows_vis in Hv as (etx & Hv). destruct (Hvis _ _ _ _ _ HI Hv) as [G K].
      eapply upd_row_preserves; eauto.
      intros -> Hn Hf. simpl in Hs. rewrite Hn, Hf in Hs. simpl in Hs.
      destruct (k_notnull g && is_null x); auto; discriminate.
    - unfold scan_where in H.
      destruct (scan c t (fst (where_range w)) (snd (where_range w))) as [rs t1] eqn:Es.
      assert (I1 : Inv t1).
      { apply (Hmono t); auto. pose proof (scan_mono c t (fst (where_range w)) (snd (where_range w))) as M.
        rewrite Es in M; exact M. }
      inversion H; subst; clear H.
      assert (Hall : forall kr, In kr (filter (where_ok w) rs) -> Good (snd kr) /\ in_i64 (fst kr) = true).
      { intros kr Hin. apply filter_In in Hin as [Hin _].
        assert (Hv : In (fst kr, snd kr) (fst (scan c t (fst (where_range w)) (snd (where_range w)))))
          by (rewrite Es; destruct kr; exact Hin).
        apply scan_rows_vis in Hv as (etx & Hv). exact (Hvis _ _ _ _ _ HI Hv). }
      clear Es. revert Hall I1. generalize (filter (where_ok w) rs) as l. intros l; revert t1.
      induction l as [|kr l IH]; simpl; intros t1 Hall I1; auto.
      apply IH; [intros; apply Hall; auto|].
      destruct (Hall kr (or_introl eq_refl)). apply Hdel; auto.
  Qed.
End Preserve.
