(* C12 — history: what the code BEFORE the repairs c876bb2 / 12bf3b7 / a77403f (old_code) violated:
   witnesses evaluated by vm_compute (each one is still executed on the real engine by the scripted
   cases of harness/c12/gen.go, where a recurrence is now a VIOLATION), and the partial statement that
   was true of it; plus lemmas valid for any code (primary keys, failed events). *)
From V Require Import SQLCons.Model SQLCons.Spec SQLCons.Basics SQLCons.Steps SQLCons.Frame SQLCons.RowInv SQLCons.Unique.
From Coq Require Import ZArith Lia.
From Coq Require Import ZifyN ZifyNat ZifyBool.
Open Scope N_scope.

Lemma dup_not_unique g c : dup_rows g c -> ~ unique_ok g c.
Proof. intros (Hu & k1 & r1 & k2 & r2 & H1 & H2 & Hv & Hn) U. apply Hn. eapply U; eauto. Qed.

Lemma wit_unique_dup : dup_rows g_plain (s_c (run g_plain old_code wit_unique)).
Proof.
  split; [vm_compute; reflexivity|].
  exists 2%Z, (mkRow (VInt 10) VNull), 3%Z, (mkRow (VInt 10) VNull). vm_compute.
  repeat split; auto; try discriminate.
Qed.
Lemma wit_unique_conc_dup : dup_rows g_plain (s_c (run g_plain old_code wit_unique_conc)).
Proof.
  split; [vm_compute; reflexivity|].
  exists 2%Z, (mkRow (VInt 10) VNull), 3%Z, (mkRow (VInt 10) VNull). vm_compute.
  repeat split; auto; try discriminate.
Qed.
Lemma wit_create_dup : dup_rows g_plain (s_c (run g_plain old_code wit_create)).
Proof.
  split; [vm_compute; reflexivity|].
  exists 2%Z, (mkRow (VInt 10) VNull), 3%Z, (mkRow (VInt 10) VNull). vm_compute.
  repeat split; auto; try discriminate.
Qed.

Lemma unique_refuted :
  exists g evs, ~ unique_ok g (s_c (run g old_code evs)).
Proof. exists g_plain, wit_unique. apply dup_not_unique, wit_unique_dup. Qed.
Lemma unique_conc_refuted :
  exists g evs, ~ unique_ok g (s_c (run g old_code evs)).
Proof. exists g_plain, wit_unique_conc. apply dup_not_unique, wit_unique_conc_dup. Qed.
Lemma unique_create_refuted :
  exists g evs, ~ unique_ok g (s_c (run g old_code evs)).
Proof. exists g_plain, wit_create. apply dup_not_unique, wit_create_dup. Qed.
(* the repaired check rejects the last INSERT of the witness (the model of the repaired code) *)
Example wit_unique_fixed :
  map o_ok (trace g_plain fixed_code s_init wit_unique) = [true; true; true; true; false].
Proof. vm_compute. reflexivity. Qed.

Lemma not_null_refuted :
  exists g evs k r, k_notnull g = true /\ In (k, r) (live_rows (s_c (run g old_code evs))) /\ r_v r = VNull.
Proof. exists g_nn, wit_nn_update, 1%Z, (mkRow VNull VNull). vm_compute. auto. Qed.
Lemma not_null_conflict_refuted :
  exists g evs k r, k_notnull g = true /\ In (k, r) (live_rows (s_c (run g old_code evs))) /\ r_v r = VNull.
Proof. exists g_nn, wit_nn_conflict, 1%Z, (mkRow VNull VNull). vm_compute. auto. Qed.
Lemma check_refuted :
  exists g evs k r, In (k, r) (live_rows (s_c (run g old_code evs))) /\ check_ok g (r_v r) = false.
Proof. exists g_ck, wit_ck_conflict, 1%Z, (mkRow (VInt (-5)) VNull). vm_compute. auto. Qed.

(* ---------- well-formed committed states, primary keys ---------- *)
Lemma run_cwf g fx evs : cwf (s_c (run g fx evs)).
Proof.
  assert (S : SI (fun _ => True) (fun _ _ => True) (run g fx evs)).
  { apply (run_SI g fx false false); auto. apply forallb_forall. intros; apply ev_safe_ff. }
  destruct S; auto.
Qed.

Lemma pk_unique_all g fx evs : NoDup (map fst (live_rows (s_c (run g fx evs)))).
Proof. apply live_rows_keys. apply (w_nodup _ (run_cwf g fx evs)). Qed.

(* ---------- a failing event has no effect ---------- *)
Lemma slookup_sremove sid l : slookup sid (sremove sid l) = None.
Proof.
  induction l as [|[i t] l IH]; simpl; auto. destruct (N.eqb_spec sid i); auto.
  simpl. destruct (N.eqb_spec sid i); [congruence|auto].
Qed.
Lemma slookup_sremove_other sid sid' l : sid' <> sid -> slookup sid' (sremove sid l) = slookup sid' l.
Proof.
  intros Hn. induction l as [|[i t] l IH]; simpl; auto. destruct (N.eqb_spec sid i).
  - subst. destruct (N.eqb_spec sid' i); [congruence|auto].
  - simpl. destruct (N.eqb_spec sid' i); auto.
Qed.

Lemma failed_event g fx st ev :
  snd (step g fx st ev) = false ->
  s_c (fst (step g fx st ev)) = s_c st /\
  slookup (fst ev) (s_tx (fst (step g fx st ev))) = None /\
  forall sid', sid' <> fst ev -> slookup sid' (s_tx (fst (step g fx st ev))) = slookup sid' (s_tx st).
Proof.
  unfold step. cbv zeta.
  destruct (snd ev) as [|s| | |ss|u]; destruct (slookup (fst ev) (s_tx st)) as [t|] eqn:El; simpl;
    try discriminate;
    try (intros _; split; [reflexivity | split; [apply slookup_sremove | intros; apply slookup_sremove_other; auto]]);
    try (intros _; split; [reflexivity | split; [exact El | reflexivity]]).
  - destruct (exec_stmt g fx (s_c st) t s); simpl; try discriminate;
      intros _; (split; [reflexivity | split; [apply slookup_sremove | intros; apply slookup_sremove_other; auto]]).
  - destruct (run_auto g fx (s_c st) [s]); simpl; try discriminate; intros _; auto.
  - destruct (commit g (s_c st) t); simpl; try discriminate;
      intros _; (split; [reflexivity | split; [apply slookup_sremove | intros; apply slookup_sremove_other; auto]]).
  - destruct (run_auto g fx (s_c st) ss); simpl; try discriminate; intros _; auto.
  - destruct (ddl fx (s_c st) u); simpl; try discriminate; intros _; auto.
Qed.

(* ---------- uniqueness for the code as it is: where the first-key lookup is not fooled ---------- *)
Lemma unique_partial g evs :
  s_c (run g old_code evs) = s_c (run g fix_unique_only evs) -> unique_ok g (s_c (run g old_code evs)).
Proof. intros ->. apply unique_fixed. reflexivity. Qed.
(* the premise is satisfiable (and says something): a history with updates and deletes *)
Example unique_partial_premise :
  let evs := [(0, ADdl true); (0, ins1 1 10); (0, ins1 2 20); (0, AAuto [SUpd (WId 2) true (VInt 30)]);
              (0, ins1 3 20); (0, ins1 4 30); (0, AAuto [SDel (WId 1)]); (0, ins1 5 10)] in
  s_c (run g_plain old_code evs) = s_c (run g_plain fix_unique_only evs) /\
  length (live_rows (s_c (run g_plain old_code evs))) = 3%nat.
Proof. vm_compute. split; reflexivity. Qed.
