(* C12 — model of the SQL DML/DDL paths that maintain integrity constraints
   (embedded/sql/stmt.go: UpsertIntoStmt.execAt, doUpsert, deprecateIndexEntries, UpdateStmt.execAt,
   DeleteFromStmt.execAt, CreateIndexStmt.execAt; engine.go: NewTx/loadMaxPK, indexEntryMapperFor;
   embedded/store: OngoingTx.set/Get/GetWithPrefix/key readers, checkPreconditions, indexer.indexSince).

   One table  t(id INTEGER [AUTO_INCREMENT] PRIMARY KEY, v INTEGER [NOT NULL], s VARCHAR[maxlen])
   with optional CHECK (v >= 0), optional UNIQUE index on (v) or composite on (v, s), optional
   non-unique index on s.

   This file contains definitions only (no proofs).  The record [fixes] selects, per defect found by
   this check, between the code before its repair and the code with it: [fixed_code] is the code as
   it is now (repairs committed in /repo as c876bb2, 12bf3b7, a77403f); [old_code] is the code before
   them, kept so that the refutation witnesses of SQLCons/Refuted.v stay checkable. *)
From V Require Export Base.Hex.
From Coq Require Import ZArith.
Open Scope N_scope.

(* ---------- values, rows, table definition ---------- *)
Inductive val := VNull | VInt (z : Z) | VStr (s : bytes).
Record row := mkRow { r_v : val; r_s : val }.
(* k_ucomp: the UNIQUE index, when created, is the composite one on (v, s) instead of the one on (v) *)
Record cfg := mkCfg { k_autoinc : bool; k_notnull : bool; k_maxlen : N; k_check : bool; k_ucomp : bool }.
Record fixes := mkFix { fx_unique : bool; fx_notnull : bool; fx_check : bool }.
Definition old_code : fixes := mkFix false false false.
Definition fixed_code : fixes := mkFix true true true.

(* error classes (only ok / error is compared with the implementation) *)
Definition EExists : N := 10.   (* primary key / unique index entry already exists *)
Definition ENotNull : N := 11.
Definition ECheck : N := 12.
Definition EType : N := 13.     (* type or max-length violation *)
Definition EAutoInc : N := 14.  (* explicit auto-increment value not greater than the current one *)
Definition EConflict : N := 20. (* MVCC read conflict at commit *)
Definition ESqlOther : N := 30. (* transiency clash, limited index creation, index exists, no tx *)

Definition val_eqb (a b : val) : bool :=
  match a, b with
  | VNull, VNull => true
  | VInt x, VInt y => Z.eqb x y
  | VStr x, VStr y => bytes_eqb x y
  | _, _ => false
  end.

Definition two63 : Z := 9223372036854775808%Z.
Definition in_i64 (z : Z) : bool := ((- two63 <=? z) && (z <? two63))%Z.
(* int64 arithmetic wraps (table.maxPK++) *)
Definition wrap64 (z : Z) : Z := ((z + two63) mod (2 * two63) - two63)%Z.

(* strconv.FormatInt(z, 10): the implicit INTEGER -> VARCHAR conversion of EncodeRawValue *)
Fixpoint dec_digits (fuel : nat) (n : N) (acc : bytes) : bytes :=
  match fuel with
  | O => acc
  | S f => let acc' := (48 + n mod 10) :: acc in
           if n / 10 =? 0 then acc' else dec_digits f (n / 10) acc'
  end.
Definition dec_of_Z (z : Z) : bytes :=
  match z with
  | Z0 => [48]
  | Zpos p => dec_digits 20 (Npos p) []
  | Zneg p => 45 :: dec_digits 20 (Npos p) []
  end.

(* EncodeValue of a row cell (type and max-length validation, implicit conversion) *)
Definition conv_v (x : val) : res val :=
  match x with
  | VNull => Ok VNull
  | VInt z => if in_i64 z then Ok (VInt z) else Err EType
  | VStr _ => Err EType
  end.
Definition conv_s (maxlen : N) (x : val) : res val :=
  match x with
  | VNull => Ok VNull
  | VStr s => if len s <=? maxlen then Ok (VStr s) else Err EType
  | VInt z => let s := dec_of_Z z in if len s <=? maxlen then Ok (VStr s) else Err EType
  end.

(* CHECK (v >= 0): NULL does not satisfy it (checkConstraints requires the boolean true) *)
Definition check_ok (c : cfg) (v : val) : bool :=
  if k_check c then match v with VInt z => (0 <=? z)%Z | _ => false end else true.

(* ---------- keys, as the key builders construct them ---------- *)
(* EncodeValueAsKey INTEGER: 0x80, then the 8 big-endian bytes of the value with the sign bit flipped *)
Definition enc_int (z : Z) : bytes :=
  128 :: be_enc 8 (Z.to_N ((z + two63) mod (2 * two63))%Z).
Definition enc_vkey (x : val) : bytes :=
  match x with VNull => [32] | VInt z => enc_int z | VStr s => 128 :: s end.
(* VARCHAR[maxlen]: 0x80, value, zero padding to maxlen, 4-byte length *)
Definition enc_skey (maxlen : N) (x : val) : bytes :=
  match x with
  | VNull => [32]
  | VStr s => 128 :: s ++ repeat 0 (N.to_nat (maxlen - len s)) ++ be_enc 4 (len s)
  | VInt z => enc_int z
  end.
(* "M." tableID indexID *)
Definition pfx_p : bytes := [77; 46; 0; 0; 0; 1; 0; 0; 0; 0].
Definition pfx_u : bytes := [77; 46; 0; 0; 0; 1; 0; 0; 0; 1].
Definition pfx_n : bytes := [77; 46; 0; 0; 0; 1; 0; 0; 0; 2].
(* primary index entry: indexEntryMapperFor(primary, primary) *)
Definition pkey (k : Z) : bytes := pfx_p ++ enc_int k ++ enc_int k.
(* secondary index entry written by the indexer: prefix ++ encoded value ++ encoded pk *)
(* the value of a row under the UNIQUE index: (v) or (v, s) — the concatenation of the encoded columns *)
Definition uval := (val * val)%type.
Definition smkey_u (g : cfg) (x : uval) : bytes :=
  pfx_u ++ enc_vkey (fst x) ++ (if k_ucomp g then enc_skey (k_maxlen g) (snd x) else []).
Definition ukey (g : cfg) (x : uval) (k : Z) : bytes := smkey_u g x ++ enc_int k.
Definition smkey_n (maxlen : N) (x : val) : bytes := pfx_n ++ enc_skey maxlen x.

Definition has_prefix (p k : bytes) : bool :=
  if (length k <? length p)%nat then false else bytes_eqb p (firstn (length p) k).

(* ---------- committed state ---------- *)
Record ver := mkVer { v_tx : N; v_del : bool; v_row : row }.
Record cstate := mkC {
  c_last : N;                       (* id of the last committed transaction *)
  c_cat : N;                        (* id of the last transaction that changed the catalog *)
  c_uidx : bool;                    (* UNIQUE index on v exists *)
  c_nidx : bool;                    (* non-unique index on s exists *)
  c_rows : list (Z * list ver)      (* row entries by primary key (ascending), versions newest first *)
}.
Definition c_init : cstate := mkC 1 1 false false [].

Fixpoint lookup_pk (k : Z) (rows : list (Z * list ver)) : list ver :=
  match rows with
  | [] => []
  | (k', vs) :: r => if (k =? k')%Z then vs else lookup_pk k r
  end.
(* add a version to primary key k: on top of the existing versions, or as a new key in key order *)
Fixpoint c_upd (k : Z) (v : ver) (rows : list (Z * list ver)) : option (list (Z * list ver)) :=
  match rows with
  | [] => None
  | (k', vs) :: r =>
      if (k =? k')%Z then Some ((k', v :: vs) :: r)
      else match c_upd k v r with Some r' => Some ((k', vs) :: r') | None => None end
  end.
Fixpoint c_ins (k : Z) (v : ver) (rows : list (Z * list ver)) : list (Z * list ver) :=
  match rows with
  | [] => [(k, [v])]
  | (k', vs) :: r => if (k <? k')%Z then (k, [v]) :: rows else (k', vs) :: c_ins k v r
  end.
Definition c_add (k : Z) (v : ver) (rows : list (Z * list ver)) : list (Z * list ver) :=
  match c_upd k v rows with Some r => r | None => c_ins k v rows end.
Definition vers_at (ts : N) (vs : list ver) : list ver := filter (fun v => v_tx v <=? ts) vs.

(* table contents read through the primary index: live newest versions *)
Definition live_of (kvs : Z * list ver) : list (Z * row) :=
  match snd kvs with
  | v :: _ => if v_del v then [] else [(fst kvs, v_row v)]
  | [] => []
  end.
Definition live_rows (c : cstate) : list (Z * row) := flat_map live_of (c_rows c).

(* ---------- the store index views ---------- *)
(* The primary index view is [c_rows] itself: primary key -> versions (tx, tombstone flag, row),
   newest first, keys ascending.  A secondary index view lists, for every index key, its newest
   entry (tx, tombstone flag).  Keys under one value prefix appear in primary-key order, which is
   their order in the sorted index (same prefix, then the order-preserving encoding of the key);
   no modelled operation observes the relative order of keys under different value prefixes. *)
Definition entry := (N * bool)%type.

(* indexer.indexSince with InjectiveMapping, for the unique index on v: entries produced by the
   versions of one primary key (newest first): the mapped key of every version, plus a tombstone
   on the previous version's mapped key when it differs *)
Definition uvals (g : cfg) (r : row) : uval := (r_v r, if k_ucomp g then r_s r else VNull).
Fixpoint u_entries (g : cfg) (k : Z) (vs : list ver) : list (bytes * entry) :=
  match vs with
  | [] => []
  | x :: older =>
      (ukey g (uvals g (v_row x)) k, (v_tx x, v_del x)) ::
      (match older with
       | y :: _ => (* a tombstoned previous version had its mapped key tombstoned when it was indexed *)
                   if v_del y || bytes_eqb (ukey g (uvals g (v_row y)) k) (ukey g (uvals g (v_row x)) k) then []
                   else [(ukey g (uvals g (v_row y)) k, (v_tx x, true))]
       | [] => []
       end) ++ u_entries g k older
  end.
(* newest entry of every key: first occurrences *)
Fixpoint dedup (seen : list bytes) (es : list (bytes * entry)) : list (bytes * entry) :=
  match es with
  | [] => []
  | e :: r => if existsb (bytes_eqb (fst e)) seen then dedup seen r else e :: dedup (fst e :: seen) r
  end.
Definition uview (g : cfg) (ts : N) (rows : list (Z * list ver)) : list (bytes * entry) :=
  flat_map (fun kvs => dedup [] (u_entries g (fst kvs) (vers_at ts (snd kvs)))) rows.
Definition pview (ts : N) (rows : list (Z * list ver)) : list (bytes * entry) :=
  flat_map (fun kvs => match vers_at ts (snd kvs) with
                       | v :: _ => [(pkey (fst kvs), (v_tx v, v_del v))]
                       | [] => [] end) rows.

(* the entries under a prefix, in index order *)
Definition under (p : bytes) (m : list (bytes * entry)) : list (bytes * entry) :=
  filter (fun ke => has_prefix p (fst ke)) m.
(* tbtree Snapshot.GetWithPrefix: the FIRST key under the prefix, and nothing else *)
Definition get_with_prefix (p : bytes) (m : list (bytes * entry)) : option (bytes * entry) :=
  hd_error (under p m).
(* ... followed by the IgnoreDeleted filter: a tombstone is reported as "key not found" *)
Definition get_live_with_prefix (p : bytes) (m : list (bytes * entry)) : option (bytes * N) :=
  match get_with_prefix p m with
  | Some (k, (tx, false)) => Some (k, tx)
  | _ => None
  end.

(* ---------- MVCC read-set ---------- *)
Inductive eread (K : Type) := ERead (k : K) (etx : N) | ENoMore.
Arguments ERead {K} k etx.
Arguments ENoMore {K}.
Inductive rentry :=
| RGet (k : Z) (etx : N)                              (* tx.get(mappedPKey); etx = 0: not found *)
| RPfx (p : bytes) (ek : option bytes) (etx : N)      (* getWithPrefix on the unique index *)
| RScan (p : bytes) (reads : list (eread bytes))      (* repaired uniqueness check: reader under prefix *)
| RRange (lo hi : option Z) (desc : bool) (reads : list (eread Z)). (* key reader on the primary index *)

(* checkPreconditions, expectedReaders loop: replay of the recorded reads on the current state *)
Section ValReads.
  Context {K : Type} (keqb : K -> K -> bool).
  Fixpoint val_reads (E : list (eread K)) (pend : option (K * N)) (C : list (K * N)) : bool :=
    match E with
    | [] => true
    | e :: E' =>
        let pc := match pend with
                  | Some _ => (pend, C)
                  | None => match C with x :: C' => (Some x, C') | [] => (None, []) end
                  end in
        match e with
        | ENoMore => match fst pc with None => true | Some _ => false end
        | ERead k etx =>
            if etx =? 0 then
              match fst pc with
              | Some (k', _) => if keqb k k' then val_reads E' None (snd pc) else val_reads E' (fst pc) (snd pc)
              | None => val_reads E' None (snd pc)
              end
            else
              match fst pc with
              | Some (k', tx') => if keqb k k' && (etx =? tx') then val_reads E' None (snd pc) else false
              | None => false
              end
        end
    end.
End ValReads.

(* ---------- ongoing transaction ---------- *)
Record txs := mkT {
  t_explicit : bool;
  t_catts : N;                          (* catalog snapshot: last committed tx at NewTx *)
  t_uidx : bool; t_nidx : bool;         (* catalog as loaded at NewTx *)
  t_maxpk : Z;                          (* table.maxPK *)
  t_psnap : option N;                   (* primary-index snapshot (taken at first use) *)
  t_usnap : option N;                   (* unique-index snapshot (taken at first use) *)
  t_rows : list (Z * (bool * row));     (* row entries written: pk -> (deleted, row) *)
  t_keys : list (bytes * bool);         (* entriesByKey for secondary "smkey"s: key -> transient? *)
  t_reads : list rentry
}.
Definition set_psnap ts t := mkT (t_explicit t) (t_catts t) (t_uidx t) (t_nidx t) (t_maxpk t) (Some ts) (t_usnap t) (t_rows t) (t_keys t) (t_reads t).
Definition set_usnap ts t := mkT (t_explicit t) (t_catts t) (t_uidx t) (t_nidx t) (t_maxpk t) (t_psnap t) (Some ts) (t_rows t) (t_keys t) (t_reads t).
Definition set_maxpk n t := mkT (t_explicit t) (t_catts t) (t_uidx t) (t_nidx t) n (t_psnap t) (t_usnap t) (t_rows t) (t_keys t) (t_reads t).
Definition set_rows rs t := mkT (t_explicit t) (t_catts t) (t_uidx t) (t_nidx t) (t_maxpk t) (t_psnap t) (t_usnap t) rs (t_keys t) (t_reads t).
Definition set_keys ks t := mkT (t_explicit t) (t_catts t) (t_uidx t) (t_nidx t) (t_maxpk t) (t_psnap t) (t_usnap t) (t_rows t) ks (t_reads t).
Definition add_read r t := mkT (t_explicit t) (t_catts t) (t_uidx t) (t_nidx t) (t_maxpk t) (t_psnap t) (t_usnap t) (t_rows t) (t_keys t) (r :: t_reads t).

Definition psnap_ts (c : cstate) (t : txs) : N := match t_psnap t with Some ts => ts | None => c_last c end.
Definition usnap_ts (c : cstate) (t : txs) : N := match t_usnap t with Some ts => ts | None => c_last c end.
Definition touch_p c t := set_psnap (psnap_ts c t) t.
Definition touch_u c t := set_usnap (usnap_ts c t) t.

Fixpoint alookup {A} (k : Z) (l : list (Z * A)) : option A :=
  match l with [] => None | (k', x) :: r => if (k =? k')%Z then Some x else alookup k r end.
Fixpoint aset {A} (k : Z) (x : A) (l : list (Z * A)) : list (Z * A) :=
  match l with
  | [] => [(k, x)]
  | (k', y) :: r => if (k =? k')%Z then (k, x) :: r else (k', y) :: aset k x r
  end.
Fixpoint klookup (k : bytes) (l : list (bytes * bool)) : option bool :=
  match l with [] => None | (k', x) :: r => if bytes_eqb k k' then Some x else klookup k r end.

(* what the transaction sees for primary key k: (tx of the version, 0 = own write; deleted; row) *)
Definition tx_row (c : cstate) (t : txs) (ts : N) (k : Z) : option (N * bool * row) :=
  match alookup k (t_rows t) with
  | Some (d, r) => Some (0, d, r)
  | None => match vers_at ts (lookup_pk k (c_rows c)) with
            | v :: _ => Some (v_tx v, v_del v, v_row v)
            | [] => None
            end
  end.

(* tx.get(mappedPKey) with IgnoreDeleted.  An entry written by this transaction is found whatever its
   metadata (the filter runs on the snapshot's placeholder before the interceptor substitutes it). *)
Definition tx_get (c : cstate) (t : txs) (k : Z) : bool * txs :=
  let ts := psnap_ts c t in
  let t := touch_p c t in
  match alookup k (t_rows t) with
  | Some _ => (true, t)
  | None => match vers_at ts (lookup_pk k (c_rows c)) with
            | v :: _ => if v_del v then (false, add_read (RGet k 0) t)
                        else (true, add_read (RGet k (v_tx v)) t)
            | [] => (false, add_read (RGet k 0) t)
            end
  end.

(* keys present in the primary snapshot of the transaction (committed as of ts, plus own writes) *)
Fixpoint zins (k : Z) (l : list Z) : list Z :=
  match l with
  | [] => [k]
  | x :: r => match (k ?= x)%Z with Eq => l | Lt => k :: l | Gt => x :: zins k r end
  end.
Definition ckeys (ts : N) (rows : list (Z * list ver)) : list Z :=
  flat_map (fun kvs => match vers_at ts (snd kvs) with [] => [] | _ => [fst kvs] end) rows.
Definition all_keys (c : cstate) (t : txs) (ts : N) : list Z :=
  fold_left (fun acc k => zins k acc) (map fst (t_rows t)) (ckeys ts (c_rows c)).
Definition in_range (lo hi : option Z) (k : Z) : bool :=
  (match lo with Some l => (l <=? k)%Z | None => true end) &&
  (match hi with Some h => (k <=? h)%Z | None => true end).

(* a complete scan of the primary index over [lo, hi] by an ongoingTxKeyReader with IgnoreDeleted:
   every key is recorded (own writes with tx 0), deleted ones are skipped, then "no more entries" *)
Definition scan_items (c : cstate) (t : txs) (lo hi : option Z) : list (Z * (N * bool * row)) :=
  let ts := psnap_ts c t in
  flat_map (fun k => match tx_row c t ts k with Some x => [(k, x)] | None => [] end)
           (filter (in_range lo hi) (all_keys c t ts)).
Definition scan (c : cstate) (t : txs) (lo hi : option Z) : list (Z * row) * txs :=
  let items := scan_items c t lo hi in
  let reads := map (fun it : Z * (N * bool * row) => ERead (fst it) (fst (fst (snd it)))) items ++ [ENoMore] in
  (flat_map (fun it : Z * (N * bool * row) => if snd (fst (snd it)) then [] else [(fst it, snd (snd it))]) items,
   add_read (RRange lo hi false reads) (touch_p c t)).

(* fetchPKRow: one Read on the range [k, k] *)
Definition fetch (c : cstate) (t : txs) (k : Z) : option row * txs :=
  let ts := psnap_ts c t in
  let t' := touch_p c t in
  match tx_row c t ts k with
  | None => (None, add_read (RRange (Some k) (Some k) false [ENoMore]) t')
  | Some (etx, true, _) => (None, add_read (RRange (Some k) (Some k) false [ERead k etx; ENoMore]) t')
  | Some (etx, false, r) => (Some r, add_read (RRange (Some k) (Some k) false [ERead k etx]) t')
  end.

(* OngoingTx.set for an "smkey": ErrCannotUpdateKeyTransiency when the key was already written
   with the other transiency in this transaction *)
Definition key_set (k : bytes) (transient : bool) (t : txs) : res txs :=
  match klookup k (t_keys t) with
  | Some b => if Bool.eqb b transient then Ok t else Err ESqlOther
  | None => Ok (set_keys ((k, transient) :: t_keys t) t)
  end.

(* ---------- uniqueness check of doUpsert ---------- *)
(* as written: getWithPrefix(smkey) — first key under the value prefix only *)
Definition check_unique_cur (g : cfg) (c : cstate) (t : txs) (x : uval) : res txs :=
  let p := smkey_u g x in
  let ts := usnap_ts c t in
  let t := touch_u c t in
  match klookup p (t_keys t) with
  | Some true => Err EExists                       (* the transient smkey itself is in the local snapshot *)
  | _ => match get_live_with_prefix p (uview g ts (c_rows c)) with
         | Some _ => Err EExists
         | None => Ok (add_read (RPfx p None 0) t)
         end
  end.
(* proposed repair: a key reader under the prefix with IgnoreDeleted; exists iff some live key *)
Fixpoint scan_pfx (es : list (bytes * entry)) : list (eread bytes) * bool :=
  match es with
  | [] => ([ENoMore], false)
  | (k, (tx, del)) :: r =>
      if del then let (rs, f) := scan_pfx r in (ERead k tx :: rs, f)
      else ([ERead k tx], true)
  end.
Definition check_unique_fix (g : cfg) (c : cstate) (t : txs) (x : uval) : res txs :=
  let p := smkey_u g x in
  let ts := usnap_ts c t in
  let t := touch_u c t in
  match klookup p (t_keys t) with
  | Some true => Err EExists
  | _ => let (rs, found) := scan_pfx (under p (uview g ts (c_rows c))) in
         if found then Err EExists else Ok (add_read (RScan p rs) t)
  end.
Definition check_unique (fx : fixes) := if fx_unique fx then check_unique_fix else check_unique_cur.

(* ---------- deprecateIndexEntries ---------- *)
(* currVal.Compare(newVal) fails with ErrNotComparableValues when the new value has another type *)
(* the columns of the UNIQUE index are compared one by one: an error as soon as a new value has
   another type; the entry is kept ("sameIndexKey") only when ALL its columns are unchanged *)
Definition ucols_same (g : cfg) (cur : row) (nv ns : val) : res bool :=
  match nv with
  | VStr _ => Err EType
  | _ => if k_ucomp g then
           match ns with
           | VInt _ => Err EType
           | _ => Ok (val_eqb (r_v cur) nv && val_eqb (r_s cur) ns)
           end
         else Ok (val_eqb (r_v cur) nv)
  end.
Definition deprecate (g : cfg) (t : txs) (cur : row) (nv ns : val) : res (txs * bool * bool) :=
  do tu <- (if t_uidx t then
              do same <- ucols_same g cur nv ns;
              if same then Ok (t, true)
              else do t' <- key_set (smkey_u g (uvals g cur)) false t; Ok (t', false)
            else Ok (t, false));
  do tn <- (if t_nidx t then
              match ns with
              | VInt _ => Err EType
              | _ => if val_eqb (r_s cur) ns then Ok (fst tu, true)
                     else do t' <- key_set (smkey_n (k_maxlen g) (r_s cur)) false (fst tu); Ok (t', false)
              end
            else Ok (fst tu, false));
  Ok (fst tn, snd tu, snd tn).

(* ---------- doUpsert ---------- *)
Definition do_upsert (g : cfg) (fx : fixes) (c : cstate) (t : txs) (k : Z) (nv ns : val) (reuse : bool) : res txs :=
  do dep <- (if reuse && (t_uidx t || t_nidx t) then
               match fetch c t k with
               | (Some cur, t1) => deprecate g t1 cur nv ns
               | (None, t1) => Ok (t1, false, false)
               end
             else Ok (t, false, false));
  let t := fst (fst dep) in
  let ru := snd (fst dep) in
  let rn := snd dep in
  do v' <- conv_v nv;
  do s' <- conv_s (k_maxlen g) ns;
  let t := set_rows (aset k (false, mkRow v' s') (t_rows t)) (touch_p c t) in
  do t <- (if t_uidx t && negb ru then
             do t1 <- check_unique fx g c t (uvals g (mkRow v' s'));
             key_set (smkey_u g (uvals g (mkRow v' s'))) true t1
           else Ok t);
  do t <- (if t_nidx t && negb rn then key_set (smkey_n (k_maxlen g) s') true t else Ok t);
  Ok t.

(* ---------- statements ---------- *)
Inductive imode := MInsert | MUpsert | MDoNothing | MDoUpdate (colv : bool) (x : val).
Inductive wher := WAll | WId (k : Z).
Inductive stmt :=
| SIns (m : imode) (rows : list (option val * val * val))   (* id (None: not specified), v, s *)
| SUpd (w : wher) (colv : bool) (x : val)                    (* UPDATE t SET v|s = x WHERE w *)
| SDel (w : wher).

Definition is_null (x : val) : bool := match x with VNull => true | _ => false end.

(* UpsertIntoStmt.execAt, one VALUES row *)
Definition ins_row (g : cfg) (fx : fixes) (c : cstate) (m : imode) (t : txs) (r : option val * val * val) : res txs :=
  let idv := fst (fst r) in let v := snd (fst r) in let s := snd r in
  let isInsert := match m with MUpsert => false | _ => true end in
  do kmt <- (match idv with
             | None => if k_autoinc g && isInsert
                       then let n := wrap64 (t_maxpk t + 1) in Ok (n, false, set_maxpk n t)
                       else Err ENotNull
             | Some VNull => Err ENotNull
             | Some (VStr _) => Err EType
             | Some (VInt z) => if in_i64 z then Ok (z, k_autoinc g && (z <=? t_maxpk t)%Z, t) else Err EType
             end);
  let k := fst (fst kmt) in let mustExist := snd (fst kmt) in let t := snd kmt in
  if k_notnull g && is_null v then Err ENotNull else
  if negb (check_ok g v) then Err ECheck else
  let (found0, t) := tx_get c t k in
  (* a key whose last write by this very transaction was a delete does not exist (the deleted flag
     of the ongoing entry is looked at on the returned reference) *)
  let found := found0 && negb (match alookup k (t_rows t) with Some (true, _) => true | _ => false end) in
  if negb found && mustExist then Err EAutoInc else
  match m, found with
  | MInsert, true => Err EExists
  | MDoNothing, true => Ok t
  | MDoUpdate colv x, true =>
      match fetch c t k with
      | (None, _) => Err ESqlOther
      | (Some cur, t1) =>
          let nv := if colv then x else r_v cur in
          let ns := if colv then r_s cur else x in
          if fx_notnull fx && k_notnull g && is_null nv then Err ENotNull else
          if fx_check fx && negb (check_ok g nv) then Err ECheck else
          do_upsert g fx c t1 k nv ns false
      end
  | _, _ => do_upsert g fx c t k v s (negb isInsert)
  end.

Definition where_range (w : wher) : option Z * option Z :=
  match w with WId k => (Some k, Some k) | WAll => (None, None) end.
Definition where_ok (w : wher) (kr : Z * row) : bool :=
  match w with
  | WAll => true
  | WId k => (fst kr =? k)%Z
  end.
Definition scan_where (c : cstate) (t : txs) (w : wher) : list (Z * row) * txs :=
  let (rs, t') := scan c t (fst (where_range w)) (snd (where_range w)) in
  (filter (where_ok w) rs, t').

(* UpdateStmt.execAt, one selected row *)
Definition upd_row (g : cfg) (fx : fixes) (c : cstate) (colv : bool) (x : val) (t : txs) (kr : Z * row) : res txs :=
  (* rval.requiresType(col.colType) *)
  if (if colv then match x with VStr _ => true | _ => false end
      else match x with VInt _ => true | _ => false end) then Err EType else
  if fx_notnull fx && colv && k_notnull g && is_null x then Err ENotNull else
  let nv := if colv then x else r_v (snd kr) in
  let ns := if colv then r_s (snd kr) else x in
  if negb (check_ok g nv) then Err ECheck else
  let (found, t) := tx_get c t (fst kr) in
  if negb found then Err ESqlOther else
  do_upsert g fx c t (fst kr) nv ns true.

Definition rfold {A B} (f : B -> A -> res B) (l : list A) (b : B) : res B :=
  fold_left (fun acc a => do x <- acc; f x a) l (Ok b).

Definition exec_stmt (g : cfg) (fx : fixes) (c : cstate) (t : txs) (st : stmt) : res txs :=
  match st with
  | SIns m rows => rfold (ins_row g fx c m) rows t
  | SUpd w colv x => let (rs, t1) := scan_where c t w in rfold (upd_row g fx c colv x) rs t1
  | SDel w => let (rs, t1) := scan_where c t w in
              Ok (fold_left (fun t kr => set_rows (aset (fst kr) (true, snd kr) (t_rows t)) t) rs t1)
  end.

(* ---------- NewTx, commit ---------- *)
Fixpoint last_key (rows : list (Z * list ver)) (ts : N) (acc : option (Z * N)) : option (Z * N) :=
  match rows with
  | [] => acc
  | (k, vs) :: r => last_key r ts (match vers_at ts vs with v :: _ => Some (k, v_tx v) | [] => acc end)
  end.
(* Engine.NewTx: catalog snapshot; for an AUTO_INCREMENT table loadMaxPK reads the last key of the
   primary index (deleted entries included) through a key reader *)
Definition new_tx (g : cfg) (c : cstate) (explicit : bool) : txs :=
  let t0 := mkT explicit (c_last c) (c_uidx c) (c_nidx c) 0%Z None None [] [] [] in
  if k_autoinc g then
    match last_key (c_rows c) (c_last c) None with
    | Some (k, tx) => add_read (RRange None None true [ERead k tx]) (set_maxpk k (set_psnap (c_last c) t0))
    | None => add_read (RRange None None true [ENoMore]) (set_psnap (c_last c) t0)
    end
  else t0.

Definition cur_keys (lo hi : option Z) (desc : bool) (rows : list (Z * list ver)) : list (Z * N) :=
  let l := flat_map (fun kvs => match snd kvs with
                                | v :: _ => if in_range lo hi (fst kvs) then [(fst kvs, v_tx v)] else []
                                | [] => [] end) rows in
  if desc then rev l else l.

(* checkPreconditions on the current committed state *)
Definition val_entry (g : cfg) (c : cstate) (r : rentry) : bool :=
  match r with
  | RGet k etx =>
      match lookup_pk k (c_rows c) with
      | v :: _ => if v_del v then etx =? 0 else etx =? v_tx v
      | [] => etx =? 0
      end
  | RPfx p ek etx =>
      match get_live_with_prefix p (uview g (c_last c) (c_rows c)) with
      | None => etx =? 0
      | Some (k, tx) => match ek with Some k' => bytes_eqb k k' && (etx =? tx) | None => false end
      end
  | RScan p reads =>
      val_reads bytes_eqb reads None (map (fun ke => (fst ke, fst (snd ke))) (under p (uview g (c_last c) (c_rows c))))
  | RRange lo hi desc reads =>
      val_reads Z.eqb reads None (cur_keys lo hi desc (c_rows c))
  end.
Definition validate (g : cfg) (c : cstate) (t : txs) : bool :=
  negb (t_catts t <? c_cat c) && forallb (val_entry g c) (t_reads t).

Definition apply_writes (c : cstate) (t : txs) : cstate :=
  match t_rows t with
  | [] => c
  | _ => let tx := c_last c + 1 in
         mkC tx (c_cat c) (c_uidx c) (c_nidx c)
             (fold_left (fun rows w => c_add (fst w) (mkVer tx (fst (snd w)) (snd (snd w))) rows) (t_rows t) (c_rows c))
  end.
(* a transaction without entries returns ErrNoEntriesProvided from precommit before any
   precondition is checked; SQLTx.Commit treats that as success *)
Definition commit (g : cfg) (c : cstate) (t : txs) : res cstate :=
  match t_rows t with
  | [] => Ok c
  | _ => if validate g c t then Ok (apply_writes c t) else Err EConflict
  end.

(* CreateIndexStmt.execAt (autocommit).  UNIQUE: "check table is empty" *)
Definition table_empty_cur (c : cstate) : bool :=
  match get_live_with_prefix pfx_p (pview (c_last c) (c_rows c)) with Some _ => false | None => true end.
Definition table_empty_fix (c : cstate) : bool :=
  negb (snd (scan_pfx (under pfx_p (pview (c_last c) (c_rows c))))).
Definition ddl (fx : fixes) (c : cstate) (unique : bool) : res cstate :=
  if unique then
    if negb (if fx_unique fx then table_empty_fix c else table_empty_cur c) then Err ESqlOther
    else if c_uidx c then Err ESqlOther
    else Ok (mkC (c_last c + 1) (c_last c + 1) true (c_nidx c) (c_rows c))
  else
    if c_nidx c then Err ESqlOther
    else Ok (mkC (c_last c + 1) (c_last c + 1) (c_uidx c) true (c_rows c)).

(* ---------- sessions, events ---------- *)
Inductive action :=
| ABegin                     (* BEGIN TRANSACTION *)
| AStmt (s : stmt)           (* a statement inside the open transaction (autocommit when none is open) *)
| ACommit | ARollback
| AAuto (ss : list stmt)     (* Exec(nil, "s1; s2; ..."): one implicit transaction *)
| ADdl (unique : bool).      (* CREATE UNIQUE INDEX ON t(v) / t(v, s) (by k_ucomp), CREATE INDEX ON t(s): autocommit *)
Definition event := (N * action)%type.
Record state := mkS { s_c : cstate; s_tx : list (N * txs) }.
Record out := mkOut { o_ok : bool; o_rows : list (Z * row) }.

Fixpoint slookup (sid : N) (l : list (N * txs)) : option txs :=
  match l with [] => None | (i, t) :: r => if sid =? i then Some t else slookup sid r end.
Fixpoint sremove (sid : N) (l : list (N * txs)) : list (N * txs) :=
  match l with [] => [] | (i, t) :: r => if sid =? i then sremove sid r else (i, t) :: sremove sid r end.

Definition run_auto (g : cfg) (fx : fixes) (c : cstate) (ss : list stmt) : res cstate :=
  do t <- rfold (exec_stmt g fx c) ss (new_tx g c false);
  commit g c t.

Definition step (g : cfg) (fx : fixes) (st : state) (ev : event) : state * bool :=
  let sid := fst ev in
  let c := s_c st in
  match snd ev, slookup sid (s_tx st) with
  | ABegin, None => (mkS c ((sid, new_tx g c true) :: s_tx st), true)
  | ABegin, Some _ => (mkS c (sremove sid (s_tx st)), false)
  | AStmt s, Some t =>
      match exec_stmt g fx c t s with
      | Ok t' => (mkS c ((sid, t') :: sremove sid (s_tx st)), true)
      | _ => (mkS c (sremove sid (s_tx st)), false)          (* the failing statement cancels the tx *)
      end
  | AStmt s, None =>
      match run_auto g fx c [s] with Ok c' => (mkS c' (s_tx st), true) | _ => (st, false) end
  | AAuto ss, None =>
      match run_auto g fx c ss with Ok c' => (mkS c' (s_tx st), true) | _ => (st, false) end
  | AAuto _, Some _ => (mkS c (sremove sid (s_tx st)), false)
  | ACommit, Some t =>
      match commit g c t with
      | Ok c' => (mkS c' (sremove sid (s_tx st)), true)
      | _ => (mkS c (sremove sid (s_tx st)), false)
      end
  | ACommit, None => (st, false)
  | ARollback, Some _ => (mkS c (sremove sid (s_tx st)), true)
  | ARollback, None => (st, false)
  | ADdl u, None => match ddl fx c u with Ok c' => (mkS c' (s_tx st), true) | _ => (st, false) end
  | ADdl _, Some _ => (mkS c (sremove sid (s_tx st)), false)
  end.

Definition s_init : state := mkS c_init [].
Definition run (g : cfg) (fx : fixes) (evs : list event) : state :=
  fold_left (fun st ev => fst (step g fx st ev)) evs s_init.
(* the observable trace: after every event, did it succeed and what does the table hold *)
Fixpoint trace (g : cfg) (fx : fixes) (st : state) (evs : list event) : list out :=
  match evs with
  | [] => []
  | ev :: r => let (st', ok) := step g fx st ev in mkOut ok (live_rows (s_c st')) :: trace g fx st' r
  end.
