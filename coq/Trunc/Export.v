(* C14 — ExportTx and the value mutex; the two refutation witnesses. *)
From V Require Import Base.Bytes Base.Hex Trunc.Model Trunc.Lemmas Trunc.Safety Trunc.Theorems.
From Coq Require Import ZifyN ZifyNat ZifyBool.

(* an export that finds the mutex free never blocks; it can return with the mutex held only
   through a "partially truncated transaction" return of the unfixed code *)
Lemma export_loop_mux fixed c st : forall es i tr acc m x,
  export_loop fixed c st es i tr acc false = (m, x) ->
  x <> XBlocked /\ (m = true -> x = XErrPartial /\ fixed = false).
Proof.
  induction es as [|e r IH]; intros i tr acc m x H; cbn [export_loop] in H.
  - assert (m = false) by congruence. subst m.
    split; [destruct tr; intros E; rewrite E in H; discriminate|discriminate].
  - destruct (read_value_at c st e).
    + destruct tr.
      * assert (x = XErrPartial) by congruence. assert (m = negb fixed) by congruence. subst.
        split; [discriminate|]. intros Hm. split; [reflexivity|]. destruct fixed; [discriminate|reflexivity].
      * eapply IH; eauto.
    + destruct (negb tr && (0 <? i)).
      * assert (x = XErrPartial) by congruence. assert (m = negb fixed) by congruence. subst.
        split; [discriminate|]. intros Hm. split; [reflexivity|]. destruct fixed; [discriminate|reflexivity].
      * eapply IH; eauto.
    + assert (x = XErrOther) by congruence. assert (m = false) by congruence. subst.
      split; discriminate.
Qed.

Lemma do_export_mux fixed c st id st' x :
  s_valmux st = false -> do_export fixed c st id = (st', x) ->
  x <> XBlocked /\ (s_valmux st' = true -> x = XErrPartial /\ fixed = false).
Proof.
  intros Hm H. unfold do_export in H. destruct (get_tx (s_txs st) id) as [es|].
  - rewrite Hm in H. destruct (export_loop fixed c st es 0 false [] false) as [m y] eqn:E.
    assert (x = y) by congruence. subst y.
    assert (s_valmux st' = m) by (inversion H; reflexivity).
    destruct (export_loop_mux _ _ _ _ _ _ _ _ _ E) as [A B]. split; [exact A|]. intros Q. apply B. congruence.
  - assert (x = XErrOther) by congruence. assert (st' = st) by congruence. subst.
    split; [discriminate|]. intros Q; congruence.
Qed.

Definition export_fine (u : out) : Prop :=
  match u with UExport x l => x <> XBlocked /\ l = false | _ => True end.
Definition is_partial (u : out) : bool :=
  match u with UExport XErrPartial _ => true | _ => false end.

Lemma step_valmux fixed c st o :
  match o with OExport _ => True | _ => s_valmux st = false -> s_valmux (fst (step fixed c st o)) = false end.
Proof.
  destruct o as [w v kvs|w|w|n|id| | |]; cbn [step fst]; auto.
  - unfold do_append. destruct (find_pending w (s_pending st)); auto.
    destruct (c_embedded c); auto.
    destruct (get_vl (s_vlogs st) v) as [vl0|]; auto. destruct (c_maxio c <? v); auto.
    destruct (append_values (c_fsz c) vl0 kvs); auto.
  - unfold do_commit. destruct (find_pending w (s_pending st)); auto.
  - destruct (do_truncate c st n) as [st' d] eqn:T. cbn [fst].
    pose proof (do_truncate_frame c st n) as Fr. rewrite T in Fr. cbn [fst] in Fr.
    destruct Fr as [_ [_ E]]. congruence.
Qed.

(* as long as no export has returned "partially truncated transaction" (never needed for the
   fixed code), every export returns and the mutex is free afterwards *)
Lemma run_export_fine fixed c : forall ops st,
  s_valmux st = false ->
  (fixed = true \/ forallb (fun u => negb (is_partial u)) (snd (run fixed c st ops)) = true) ->
  Forall export_fine (snd (run fixed c st ops)) /\ s_valmux (fst (run fixed c st ops)) = false.
Proof.
  induction ops as [|o r IH]; intros st Hm Hp.
  - split; [constructor|exact Hm].
  - rewrite run_cons_state, run_cons_outs. rewrite run_cons_outs in Hp.
    assert (Hp' : fixed = true \/ (negb (is_partial (snd (step fixed c st o))) = true /\
              forallb (fun u => negb (is_partial u)) (snd (run fixed c (fst (step fixed c st o)) r)) = true)).
    { destruct Hp as [F|Hp]; [left; exact F|right]. cbn [forallb] in Hp. apply andb_prop in Hp. exact Hp. }
    assert (St : export_fine (snd (step fixed c st o)) /\ s_valmux (fst (step fixed c st o)) = false).
    { pose proof (step_valmux fixed c st o) as V.
      destruct o as [w v kvs|w|w|n|id| | |];
        try (split; [cbn [step]; try destruct (do_truncate c st n); exact I|auto]).
      cbn [step]. destruct (do_export fixed c st id) as [st' x] eqn:X. cbn [fst snd].
      destruct (do_export_mux _ _ _ _ _ _ Hm X) as [A B].
      assert (s_valmux st' = false).
      { destruct (s_valmux st') eqn:Q; [|reflexivity]. destruct (B eq_refl) as [-> Ff].
        destruct Hp' as [F|[P _]]; [congruence|]. cbn [step] in P. rewrite X in P. cbn in P. discriminate. }
      split; [cbn [export_fine]; auto|exact H]. }
    destruct St as [S1 S2].
    destruct (IH (fst (step fixed c st o)) S2) as [I1 I2].
    { destruct Hp' as [F|[_ P]]; [left; exact F|right; exact P]. }
    split; [constructor; auto|exact I2].
Qed.

(* export_terminates_and_releases for the code as it is (since 7ccd103: unlock on both early returns) *)
Theorem export_fixed_ok c ops : Forall export_fine (run_outs true c ops).
Proof. apply run_export_fine; [reflexivity|left; reflexivity]. Qed.

(* ... and what was true of the code before that fix *)
Theorem export_partial_ok c ops :
  forallb (fun u => negb (is_partial u)) (run_outs false c ops) = true ->
  Forall export_fine (run_outs false c ops).
Proof. intros H. apply run_export_fine; [reflexivity|right; exact H]. Qed.

(* ---------- exports at or above the cut are complete ---------- *)
Lemma export_loop_full fixed c st : forall es i acc,
  (forall e, In e es -> read_value_at c st e = RdOk (e_val e)) ->
  export_loop fixed c st es i false acc false = (false, XFull (acc ++ map e_val es)).
Proof.
  induction es as [|e r IH]; intros i acc H; cbn [export_loop map].
  - rewrite app_nil_r. reflexivity.
  - rewrite (H e (or_introl eq_refl)). rewrite IH by (intros; apply H; right; assumption).
    rewrite <- app_assoc. reflexivity.
Qed.

Theorem export_full fixed c ops :
  cfg_ok c = true -> ops_bytes ops < two55 -> quiescent fixed c ops = true ->
  s_valmux (run_state fixed c ops) = false ->
  forall id tx, s_cut (run_state fixed c ops) <= id ->
    get_tx (s_txs (run_state fixed c ops)) id = Some tx ->
    snd (do_export fixed c (run_state fixed c ops) id) = XFull (map e_val tx) /\
    s_valmux (fst (do_export fixed c (run_state fixed c ops) id)) = false.
Proof.
  intros Hc Hb Hq Hm id tx Hid Hg.
  assert (R : forall e, In e tx -> read_value_at c (run_state fixed c ops) e = RdOk (e_val e)).
  { intros e Hin. pose proof (suffix_readable fixed c ops Hc Hb Hq id tx e Hid Hg Hin) as Re.
    assert (V : vlen_all (run_state fixed c ops)) by (apply run_vlen; split; constructor).
    destruct V as [V _]. rewrite Forall_forall in V.
    pose proof (V _ (get_tx_in _ _ _ Hg)) as Vt. unfold vlen_tx in Vt. rewrite Forall_forall in Vt.
    pose proof (Vt e Hin) as L.
    unfold read_entry in Re. destruct (N.eqb_spec (e_vlen e) 0) as [Z|NZ]; [|exact Re].
    unfold read_value_at. rewrite Z. cbn. rewrite <- L, Z. cbn.
    rewrite L in Z. rewrite (len_zero_nil _ Z). reflexivity. }
  unfold do_export. rewrite Hg, Hm. rewrite (export_loop_full fixed c _ tx 0 [] R). cbn. auto.
Qed.

(* ---------- witnesses ---------- *)
Definition wk : bytes := [107].
Definition wc : cfg := {| c_maxio := 1; c_fsz := 64; c_embedded := false |}.

(* the defect fixed by 7ccd103, on the model of the code before it (fixed = false): tx 1 = (70
   bytes, empty value), tx 2 = 100 bytes, TruncateUptoTx(2) deletes chunk 0 and with it the first
   value of tx 1; ExportTx(1) returns "partially truncated transaction" holding the mutex, the
   next ExportTx waits forever *)
Definition w_export : list op :=
  [OAppend 1 1 [(wk, vpat 1 70); (wk, [])]; OCommit 1;
   OAppend 2 1 [(wk, vpat 3 100)]; OCommit 2;
   OTruncate 2; OExport 1; OExport 2].

Theorem export_refuted :
  exists c ops, cfg_ok c = true /\ ops_bytes ops < two55 /\ quiescent false c ops = true /\
    In (UExport XErrPartial true) (run_outs false c ops) /\
    In (UExport XBlocked true) (run_outs false c ops).
Proof.
  exists wc, w_export. vm_compute. repeat split; auto 12; try discriminate.
Qed.

(* committer 3 appends 70 bytes (chunks 0..1 of value log 1) and stalls before the commit lock;
   committer 1 appends after it (offset 70, chunk 1) and commits as tx 1; TruncateUptoTx(1) sees
   only tx 1 and deletes chunk 0; tx 2 commits; the stalled committer commits as tx 3, whose value
   is gone although 3 > 1 *)
Definition w_race : list op :=
  [OAppend 3 1 [(wk, vpat 3 70)];
   OAppend 1 1 [(wk, vpat 1 40)]; OCommit 1;
   OTruncate 1;
   OAppend 2 1 [(wk, vpat 2 40)]; OCommit 2; OCommit 3].

Theorem race_refuted :
  exists c ops id tx e, cfg_ok c = true /\ ops_bytes ops < two55 /\
    s_cut (run_state true c ops) < id /\
    get_tx (s_txs (run_state true c ops)) id = Some tx /\ In e tx /\
    read_entry c (run_state true c ops) e = RdEOF.
Proof.
  exists wc, w_race, 3.
  eexists. eexists. vm_compute. repeat split; auto; try discriminate.
Qed.

(* the premises of the positive theorems are satisfiable by a run with out-of-order placement,
   an empty value, truncation and export *)
Example premises_sat :
  cfg_ok wc = true /\ ops_bytes w_export < two55 /\ quiescent true wc w_export = true /\
  s_cut (run_state true wc w_export) = 2 /\
  exists tx, get_tx (s_txs (run_state true wc w_export)) 2 = Some tx /\ tx <> [].
Proof. vm_compute. repeat split; auto. eexists; split; [reflexivity|discriminate]. Qed.
