(* C14 — basic facts about the pieces of Trunc/Model.v: offsets, chunk lists, value logs,
   tombstone maps, the two walks of TruncateUptoTx and the deletion loop. *)
From V Require Import Base.Bytes Base.Hex Trunc.Model.
From Coq Require Import ZifyN ZifyNat ZifyBool.

(* ---------- byte-string equality ---------- *)
Lemma bytes_eqb_refl a : list_eqb N.eqb a a = true.
Proof. induction a as [|x a IH]; simpl; auto. rewrite N.eqb_refl; exact IH. Qed.

Lemma bytes_eqb_eq a b : list_eqb N.eqb a b = true -> a = b.
Proof.
  revert b; induction a as [|x a IH]; intros [|y b]; simpl; try discriminate; auto.
  intros H. apply andb_prop in H as [H1 H2]. apply N.eqb_eq in H1. f_equal; auto.
Qed.

(* ---------- offsets ---------- *)
Lemma lor_shift_add v off : off < two56 -> N.lor (v * two56) off = v * two56 + off.
Proof.
  intros H.
  assert (L : N.land (v * two56) off = 0).
  { apply N.bits_inj. intros m. rewrite N.land_spec, N.bits_0.
    destruct (N.ltb_spec m 56) as [Hm|Hm].
    - change two56 with (2 ^ 56). rewrite N.mul_pow2_bits_low by exact Hm. reflexivity.
    - destruct (N.eq_dec off 0) as [->|Hz]; [rewrite N.bits_0; apply andb_false_r|].
      rewrite (N.bits_above_log2 off m); [apply andb_false_r|].
      assert (N.log2 off < 56); [|lia].
      apply N.log2_lt_pow2; [lia|exact H]. }
  rewrite N.add_nocarry_lxor by exact L. symmetry. apply N.lxor_lor. exact L.
Qed.

Lemma decode_encode off v :
  off < two55 -> v < 128 -> decode_offset (encode_offset off v) = (v, off).
Proof.
  intros Ho Hv. unfold encode_offset.
  rewrite lor_shift_add by (unfold two55, two56 in *; lia).
  unfold decode_offset. f_equal; unfold two55, two56 in *; lia.
Qed.

(* ---------- seqN ---------- *)
Lemma in_seqN_nat x k : forall s, In x (seqN_nat s k) <-> s <= x < s + N.of_nat k.
Proof.
  induction k as [|k IH]; intros s; simpl.
  - split; [tauto|lia].
  - rewrite IH. lia.
Qed.

Lemma in_seqN x s n : In x (seqN s n) <-> s <= x < s + n.
Proof. unfold seqN. rewrite in_seqN_nat. lia. Qed.

Lemma div_le_mono_gen a b c : a <= b -> a / c <= b / c.
Proof.
  intros H. destruct (N.eq_dec c 0) as [->|Hc].
  - destruct a, b; simpl; lia.
  - apply N.div_le_mono; auto.
Qed.

Lemma in_span fsz off n x : 0 < n -> In x (span fsz off n) <-> off / fsz <= x <= (off + n - 1) / fsz.
Proof.
  intros Hn. unfold span. rewrite in_seqN.
  assert (off / fsz <= (off + n - 1) / fsz) by (apply div_le_mono_gen; lia).
  lia.
Qed.

Lemma chunk_live_in vl ch : chunk_live vl ch = true <-> In ch (vl_live vl).
Proof.
  unfold chunk_live. rewrite existsb_exists. split.
  - intros [x [Hx He]]. apply N.eqb_eq in He. subst; exact Hx.
  - intros H. exists ch. split; [exact H|apply N.eqb_refl].
Qed.

(* ---------- take/drop on a growing log ---------- *)
Lemma take_drop_app d s off n :
  off + n <= len d -> take n (drop off (d ++ s)) = take n (drop off d).
Proof.
  unfold take, drop, len. intros H.
  rewrite skipn_app.
  replace (N.to_nat off - length d)%nat with O by lia. simpl skipn at 2.
  rewrite firstn_app.
  replace (N.to_nat n - length (skipn (N.to_nat off) d))%nat with O by (rewrite skipn_length; lia).
  simpl. apply app_nil_r.
Qed.

Lemma take_drop_exact d v : take (len v) (drop (len d) (d ++ v)) = v.
Proof. rewrite drop_app_exact. apply take_all. Qed.

(* ---------- cur_chunk ---------- *)
Lemma cur_chunk_mono fsz a b : a <= b -> cur_chunk fsz a <= cur_chunk fsz b.
Proof.
  intros H. unfold cur_chunk.
  destruct (N.eqb_spec a 0); destruct (N.eqb_spec b 0); try lia.
  - apply N.le_0_l.
  - apply div_le_mono_gen. lia.
Qed.

(* ---------- lists indexed by value-log id ---------- *)
Lemma set_nth_length {A} (l : list A) i x : length (set_nth l i x) = length l.
Proof. revert i; induction l as [|y l IH]; intros [|i]; simpl; auto. Qed.

Lemma nth_error_set_nth_same {A} (l : list A) i x y :
  nth_error l i = Some y -> nth_error (set_nth l i x) i = Some x.
Proof. revert i; induction l as [|z l IH]; intros [|i]; simpl; try discriminate; auto. Qed.

Lemma nth_error_set_nth_other {A} (l : list A) i j x :
  i <> j -> nth_error (set_nth l i x) j = nth_error l j.
Proof.
  revert i j; induction l as [|z l IH]; intros [|i] [|j] H; simpl; auto; try congruence.
Qed.

Lemma set_nth_same {A} (l : list A) i x : nth_error l i = Some x -> set_nth l i x = l.
Proof.
  revert i; induction l as [|z l IH]; intros [|i]; simpl; try discriminate; auto.
  - intros H; congruence.
  - intros H; f_equal; auto.
Qed.

Lemma get_vl_some_pos vls v vl : get_vl vls v = Some vl -> 1 <= v /\ v <= N.of_nat (length vls).
Proof.
  unfold get_vl. destruct (N.eqb_spec v 0); [discriminate|].
  intros H. assert (N.to_nat (v - 1) < length vls)%nat by (apply nth_error_Some; congruence). lia.
Qed.

Lemma get_set_same vls v vl x : get_vl vls v = Some vl -> get_vl (set_vl vls v x) v = Some x.
Proof.
  unfold get_vl, set_vl. destruct (N.eqb_spec v 0); [discriminate|].
  apply nth_error_set_nth_same.
Qed.

Lemma get_set_other vls v w x : 1 <= v -> v <> w -> get_vl (set_vl vls v x) w = get_vl vls w.
Proof.
  intros Hv Hn. unfold get_vl, set_vl. destruct (N.eqb_spec w 0); [reflexivity|].
  apply nth_error_set_nth_other. lia.
Qed.

Lemma set_vl_length vls v x : length (set_vl vls v x) = length vls.
Proof. apply set_nth_length. Qed.

Lemma set_vl_same vls v vl : get_vl vls v = Some vl -> set_vl vls v vl = vls.
Proof.
  unfold get_vl, set_vl. destruct (N.eqb_spec v 0); [discriminate|]. apply set_nth_same.
Qed.

(* ---------- tombstone maps ---------- *)
Definition keys_nodup (t : tombs) : Prop := NoDup (map fst t).

Lemma tomb_get_none v t : tomb_get v t = None <-> ~ In v (map fst t).
Proof.
  induction t as [|[k x] t IH]; simpl; [tauto|].
  destruct (N.eqb_spec k v).
  - split; [discriminate|]. intros H; exfalso; apply H; auto.
  - rewrite IH. split; [intros H [H1|H1]; auto|tauto].
Qed.

Lemma tomb_get_set_same v off t : tomb_get v (tomb_set v off t) = Some off.
Proof.
  induction t as [|[k x] t IH]; simpl.
  - rewrite N.eqb_refl; reflexivity.
  - destruct (N.eqb_spec k v) as [E|E]; simpl.
    + destruct (N.eqb_spec k v); congruence.
    + destruct (N.eqb_spec k v); [congruence|exact IH].
Qed.

Lemma tomb_get_set_other v w off t : v <> w -> tomb_get w (tomb_set v off t) = tomb_get w t.
Proof.
  intros H. induction t as [|[k x] t IH]; simpl.
  - destruct (N.eqb_spec v w); congruence.
  - destruct (N.eqb_spec k v) as [E|E]; simpl.
    + destruct (N.eqb_spec k w); [congruence|reflexivity].
    + destruct (N.eqb_spec k w); [reflexivity|exact IH].
Qed.

Lemma tomb_set_keys_present v off t x :
  tomb_get v t = Some x -> map fst (tomb_set v off t) = map fst t.
Proof.
  induction t as [|[k y] t IH]; simpl; [discriminate|].
  destruct (N.eqb_spec k v); simpl; [reflexivity|]. intros H; f_equal; auto.
Qed.

Lemma tomb_set_keys_absent v off t :
  tomb_get v t = None -> map fst (tomb_set v off t) = map fst t ++ [v].
Proof.
  induction t as [|[k y] t IH]; simpl; [reflexivity|].
  destruct (N.eqb_spec k v); simpl; [discriminate|]. intros H; f_equal; auto.
Qed.

Lemma keys_nodup_set v off t : keys_nodup t -> keys_nodup (tomb_set v off t).
Proof.
  unfold keys_nodup. intros H. destruct (tomb_get v t) eqn:E.
  - rewrite (tomb_set_keys_present _ _ _ _ E). exact H.
  - rewrite (tomb_set_keys_absent _ _ _ E).
    apply tomb_get_none in E.
    apply NoDup_rev in H. rewrite <- (rev_involutive (map fst t ++ [v])).
    apply NoDup_rev. rewrite rev_app_distr. simpl. constructor; [|exact H].
    rewrite <- in_rev. exact E.
Qed.

(* ---------- back walk: the map it returns has distinct keys ---------- *)
Lemma back_walk_nodup maxio txs i : forall t t',
  back_walk maxio txs i t = Ok t' -> keys_nodup t -> keys_nodup t'.
Proof.
  induction i as [|i IH]; intros t t' H Hn; cbn [back_walk] in H.
  - congruence.
  - destruct (N.of_nat (length t) =? maxio); [congruence|].
    destruct (first_entry txs (N.of_nat (S i))) as [[e|]|err|]; try discriminate.
    + destruct (decode_offset (e_voff e)) as [v off].
      apply IH in H; auto.
      destruct (tomb_get v t); auto. apply keys_nodup_set; exact Hn.
    + eapply IH; eauto.
Qed.

(* ---------- front walk ---------- *)
Definition tomb_mono (t t' : tombs) : Prop :=
  forall v x', tomb_get v t' = Some x' -> exists x, tomb_get v t = Some x /\ x' <= x.

Lemma tomb_mono_refl t : tomb_mono t t.
Proof. intros v x H; exists x; split; [exact H|lia]. Qed.

Lemma tomb_mono_trans a b c : tomb_mono a b -> tomb_mono b c -> tomb_mono a c.
Proof.
  intros H1 H2 v x H. apply H2 in H as [y [Hy Hle]]. apply H1 in Hy as [z [Hz Hle2]].
  exists z; split; [exact Hz|lia].
Qed.

Definition front_upd (t : tombs) (v off : N) : tombs :=
  match tomb_get v t with
  | Some val => if off <? val then tomb_set v off t else t
  | None => t
  end.

Lemma front_upd_nodup t v off : keys_nodup t -> keys_nodup (front_upd t v off).
Proof.
  unfold front_upd. intros H. destruct (tomb_get v t); auto.
  destruct (off <? n); auto. apply keys_nodup_set; exact H.
Qed.

Lemma front_upd_mono t v off : tomb_mono t (front_upd t v off).
Proof.
  unfold front_upd. destruct (tomb_get v t) as [val|] eqn:E; [|apply tomb_mono_refl].
  destruct (N.ltb_spec off val) as [L|L]; [|apply tomb_mono_refl].
  intros w x' H. destruct (N.eq_dec v w) as [->|Hne].
  - rewrite tomb_get_set_same in H. exists val. split; [exact E|]. assert (x' = off) by congruence. lia.
  - rewrite tomb_get_set_other in H by exact Hne. exists x'; split; [exact H|lia].
Qed.

Lemma front_upd_le t v off x : tomb_get v (front_upd t v off) = Some x -> x <= off.
Proof.
  unfold front_upd. destruct (tomb_get v t) as [val|] eqn:E; [|congruence].
  destruct (N.ltb_spec off val) as [L|L].
  - rewrite tomb_get_set_same. intros H. assert (x = off) by congruence. lia.
  - rewrite E. intros H. assert (x = val) by congruence. lia.
Qed.

Lemma front_walk_spec txs k : forall j t t',
  front_walk txs j k t = Ok t' -> keys_nodup t ->
  keys_nodup t' /\ tomb_mono t t' /\
  (forall id e v f, j <= id < j + N.of_nat k -> first_entry txs id = Ok (Some e) ->
     decode_offset (e_voff e) = (v, f) -> forall x, tomb_get v t' = Some x -> x <= f).
Proof.
  induction k as [|k IH]; intros j t t' H Hn; cbn [front_walk] in H.
  - assert (t' = t) by congruence. subst. repeat split; auto using tomb_mono_refl. intros; lia.
  - destruct (first_entry txs j) as [[e|]|err|] eqn:F; try discriminate.
    + destruct (decode_offset (e_voff e)) as [v off] eqn:D.
      change (front_walk txs (j + 1) k (front_upd t v off) = Ok t') in H.
      apply IH in H as [H1 [H2 H3]]; [|apply front_upd_nodup; exact Hn].
      split; [exact H1|]. split; [eapply tomb_mono_trans; [apply front_upd_mono|exact H2]|].
      intros id e' v' f' Hr Hf Hd x Hx.
      destruct (N.eq_dec id j) as [->|Hne].
      * assert (e' = e) by congruence. subst e'.
        assert (v' = v /\ f' = off) as [-> ->] by (split; congruence).
        apply H2 in Hx as [y [Hy Hle]]. apply front_upd_le in Hy. lia.
      * eapply H3; eauto. lia.
    + apply IH in H as [H1 [H2 H3]]; [|exact Hn].
      repeat split; auto.
      intros id e' v' f' Hr Hf Hd x Hx.
      destruct (N.eq_dec id j) as [->|Hne]; [congruence|].
      eapply H3; eauto. lia.
Qed.

(* ---------- DiscardUpto on one value log ---------- *)
Definition cur_live (fsz : N) (vl : vlog) : Prop := In (cur_chunk fsz (vl_size vl)) (vl_live vl).

Lemma vl_discard_spec fsz vl off vl' :
  vl_discard fsz vl off = Ok vl' ->
  vl_data vl' = vl_data vl /\ incl (vl_live vl') (vl_live vl) /\
  (cur_live fsz vl -> cur_live fsz vl') /\
  (forall ch, off / fsz <= ch -> In ch (vl_live vl) -> In ch (vl_live vl')).
Proof.
  unfold vl_discard. destruct (vl_size vl <? off); [discriminate|].
  intros H. assert (E : vl' = {| vl_data := vl_data vl;
     vl_live := filter (fun c => (off / fsz <=? c) || (cur_chunk fsz (vl_size vl) <=? c)) (vl_live vl) |}) by congruence.
  subst vl'. simpl. split; [reflexivity|]. split; [intros x Hx; apply filter_In in Hx; tauto|].
  split.
  - unfold cur_live, vl_size; simpl. intros Hc. apply filter_In. split; [exact Hc|].
    rewrite N.leb_refl. apply orb_true_r.
  - intros ch Hle Hin. apply filter_In. split; [exact Hin|].
    destruct (N.leb_spec (off / fsz) ch); [reflexivity|lia].
Qed.

Lemma filter_idem {A} (f : A -> bool) l : filter f (filter f l) = filter f l.
Proof.
  induction l as [|x l IH]; simpl; auto.
  destruct (f x) eqn:Fx; simpl; [rewrite Fx; f_equal; exact IH|exact IH].
Qed.

Lemma vl_discard_idem fsz vl off vl' : vl_discard fsz vl off = Ok vl' -> vl_discard fsz vl' off = Ok vl'.
Proof.
  unfold vl_discard, vl_size. destruct (len (vl_data vl) <? off) eqn:E; [discriminate|].
  intros H. assert (E' : vl' = {| vl_data := vl_data vl;
     vl_live := filter (fun c => (off / fsz <=? c) || (cur_chunk fsz (len (vl_data vl)) <=? c)) (vl_live vl) |}) by congruence.
  subst vl'. cbn [vl_data vl_live]. rewrite E. rewrite filter_idem. reflexivity.
Qed.

(* ---------- the deletion loop ---------- *)
Lemma discard_all_length c t : forall vls vls' d,
  discard_all c vls t = (vls', d) -> length vls' = length vls.
Proof.
  induction t as [|[v off] t IH]; intros vls vls' d H; simpl in H.
  - congruence.
  - destruct (if c_maxio c <? v then None else get_vl vls v) as [vl|].
    + destruct (vl_discard (c_fsz c) vl off) as [vl1|e|].
      * destruct (discard_all c (set_vl vls v vl1) t) as [a b] eqn:E.
        apply IH in E. rewrite set_vl_length in E. congruence.
      * destruct (discard_all c vls t) as [a b] eqn:E. apply IH in E. congruence.
      * destruct (discard_all c vls t) as [a b] eqn:E. apply IH in E. congruence.
    + destruct (discard_all c vls t) as [a b] eqn:E. apply IH in E. congruence.
Qed.

(* what the loop does to one value log `w`: the data stay, chunks are only removed, the chunk
   being written stays, and every chunk at or above the one holding any offset f that is not
   below w's tombstone stays *)
Lemma discard_all_spec c t : forall vls vls' d w vl,
  discard_all c vls t = (vls', d) -> keys_nodup t -> get_vl vls w = Some vl ->
  exists vl', get_vl vls' w = Some vl' /\ vl_data vl' = vl_data vl /\
    incl (vl_live vl') (vl_live vl) /\
    (cur_live (c_fsz c) vl -> cur_live (c_fsz c) vl') /\
    (forall f, (forall x, tomb_get w t = Some x -> x <= f) ->
       forall ch, f / c_fsz c <= ch -> In ch (vl_live vl) -> In ch (vl_live vl')).
Proof.
  induction t as [|[v off] t IH]; intros vls vls' d w vl H Hn Hg; simpl in H.
  - assert (vls' = vls) by congruence. subst. exists vl. repeat split; auto using incl_refl.
  - assert (Hn' : keys_nodup t) by (unfold keys_nodup in *; simpl in Hn; inversion Hn; auto).
    assert (Hv : ~ In v (map fst t)) by (unfold keys_nodup in Hn; simpl in Hn; inversion Hn; auto).
    (* the three ways an element leaves `vls` untouched are handled by one helper *)
    assert (Skip : forall vlsx dx, discard_all c vls t = (vlsx, dx) ->
      exists vl', get_vl vlsx w = Some vl' /\ vl_data vl' = vl_data vl /\
        incl (vl_live vl') (vl_live vl) /\ (cur_live (c_fsz c) vl -> cur_live (c_fsz c) vl') /\
        (forall f, (forall x, tomb_get w ((v, off) :: t) = Some x -> x <= f) ->
           forall ch, f / c_fsz c <= ch -> In ch (vl_live vl) -> In ch (vl_live vl'))).
    { intros vlsx dx E. destruct (IH _ _ _ _ _ E Hn' Hg) as [vl' [A [B [C [D F]]]]].
      exists vl'. repeat split; auto. intros f Hf ch Hle Hin.
      destruct (N.eq_dec v w) as [->|Hne].
      - (* w's own tombstone could not be applied (error): nothing of w was removed *)
        apply tomb_get_none in Hv.
        eapply (F (f)); eauto. intros x Hx; congruence.
      - eapply F; eauto. intros x Hx. apply Hf. simpl. destruct (N.eqb_spec v w); [congruence|exact Hx]. }
    destruct (if c_maxio c <? v then None else get_vl vls v) as [vlv|] eqn:G.
    + assert (Gv : get_vl vls v = Some vlv) by (destruct (c_maxio c <? v); [discriminate|exact G]).
      destruct (vl_discard (c_fsz c) vlv off) as [vl1|e|] eqn:Dv.
      * destruct (discard_all c (set_vl vls v vl1) t) as [a b] eqn:E.
        assert (a = vls') by congruence. subst a.
        destruct (vl_discard_spec _ _ _ _ Dv) as [S1 [S2 [S3 S4]]].
        destruct (N.eq_dec v w) as [->|Hne].
        -- assert (vlv = vl) by congruence. subst vlv.
           destruct (IH _ _ _ w vl1 E Hn' (get_set_same _ _ _ _ Hg)) as [vl' [A [B [C [D F]]]]].
           exists vl'. split; [exact A|]. split; [congruence|]. split; [eapply incl_tran; eauto|].
           split; [auto|].
           intros f Hf ch Hle Hin. eapply (F f); eauto.
           ++ apply tomb_get_none in Hv. intros x Hx; congruence.
           ++ apply S4; [|exact Hin].
              assert (off <= f) by (apply Hf; simpl; rewrite N.eqb_refl; reflexivity).
              assert (off / c_fsz c <= f / c_fsz c) by (apply div_le_mono_gen; lia). lia.
        -- assert (Gw : get_vl (set_vl vls v vl1) w = Some vl).
           { rewrite get_set_other; auto. apply get_vl_some_pos in Gv. lia. }
           destruct (IH _ _ _ w vl E Hn' Gw) as [vl' [A [B [C [D F]]]]].
           exists vl'. repeat split; auto. intros f Hf ch Hle Hin. eapply F; eauto.
           intros x Hx. apply Hf. simpl. destruct (N.eqb_spec v w); [congruence|exact Hx].
      * destruct (discard_all c vls t) as [a b] eqn:E. assert (a = vls') by congruence. subst a.
        eapply Skip; eauto.
      * destruct (discard_all c vls t) as [a b] eqn:E. assert (a = vls') by congruence. subst a.
        eapply Skip; eauto.
    + destruct (discard_all c vls t) as [a b] eqn:E. assert (a = vls') by congruence. subst a.
      eapply Skip; eauto.
Qed.
