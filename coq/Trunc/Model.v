(* C14 — model of value-log truncation (embedded/store/immustore.go: TruncateUptoTx, readTxOffsetAt,
   encodeOffset/decodeOffset, appendValuesInto/appendValuesIntoAnyVLog, readValueAt, ReadValue,
   ExportTx; embedded/appendable/multiapp/multi_app.go: Append, ReadAt, DiscardUpto).

   No proofs in this file.  The store is a state machine whose steps are the critical sections of
   the Go code: a committer first appends its values to ONE value log chosen by fetchAnyVLog
   (any of the maxIOConcurrency logs: the choice is an argument of the step, i.e. arbitrary),
   and only later takes the commit lock and gets its id (OCommit) — so the order of values in
   a value log differs from the id order, exactly as with concurrent committers.            *)
From V Require Import Base.Bytes Base.Hex.

Definition two55 : N := 36028797018963968.
Definition two56 : N := 72057594037927936.
Definition two63 : N := 9223372036854775808.

(* func encodeOffset(offset int64, vLogID byte) int64 { return int64(vLogID)<<56 | offset } *)
Definition encode_offset (off vlog : N) : N := N.lor (vlog * two56) off.

(* func decodeOffset(offset int64) (byte, int64) { return byte(offset >> 56), offset & ^(0xff << 55) }
   on the 64-bit pattern: the id is bits 56..63; the mask clears bits 55..62 (sic: 55, not 56),
   bit 63 survives.  Value-log ids are <= MaxParallelIO = 127, so bit 63 is never set and the
   int64 comparisons of the callers coincide with comparisons in N. *)
Definition decode_offset (raw : N) : N * N :=
  ((raw / two56) mod 256, raw - ((raw / two55) mod 256) * two55).

(* one entry of a transaction as it sits in the tx log: key, vLen, vOff (raw, with the vlog id in
   the top byte).  e_val is the value the committer supplied: it stands for hVal (the SHA-256 of
   the value, modelled as collision free) and is what a reader must get back. *)
Record entry := { e_key : bytes; e_val : bytes; e_vlen : N; e_voff : N }.

(* ---------- one value log: a multi-file appendable ---------- *)
(* vl_data: the logical byte log (offsets are positions in it: chunk = offset / fileSize, no
   padding, a value may span chunks); vl_live: ids of the chunk files that exist. *)
Record vlog := { vl_data : bytes; vl_live : list N }.
Definition vl_size (vl : vlog) : N := len (vl_data vl).
Definition vl_empty : vlog := {| vl_data := []; vl_live := [0] |}.

Fixpoint seqN_nat (start : N) (k : nat) : list N :=
  match k with O => [] | S k' => start :: seqN_nat (start + 1) k' end.
Definition seqN (start cnt : N) : list N := seqN_nat start (N.to_nat cnt).

(* currAppID: rotation is lazy (a full chunk is left only by the next Append) *)
Definition cur_chunk (fsz size : N) : N := if size =? 0 then 0 else (size - 1) / fsz.

(* MultiFileAppendable.Append of a non-empty byte string: returns the offset of its first byte *)
Definition vl_append (fsz : N) (vl : vlog) (v : bytes) : vlog * N :=
  let off := vl_size vl in
  let c0 := cur_chunk fsz off in
  let c1 := cur_chunk fsz (off + len v) in
  ({| vl_data := vl_data vl ++ v; vl_live := vl_live vl ++ seqN (c0 + 1) (c1 - c0) |}, off).

Definition chunk_live (vl : vlog) (c : N) : bool := existsb (N.eqb c) (vl_live vl).
(* chunks touched by the n > 0 bytes at off *)
Definition span (fsz off n : N) : list N := seqN (off / fsz) ((off + n - 1) / fsz - off / fsz + 1).

(* MultiFileAppendable.ReadAt of n > 0 bytes: None = io.EOF (a needed chunk file does not exist
   (os.IsNotExist) or the range ends beyond the data) *)
Definition vl_read (fsz : N) (vl : vlog) (off n : N) : option bytes :=
  if forallb (chunk_live vl) (span fsz off n) && (off + n <=? vl_size vl)
  then Some (take n (drop off (vl_data vl))) else None.

(* MultiFileAppendable.DiscardUpto(off): error when off is beyond the data; otherwise
   for i := 0; i < off/fileSize; i++ { if i == currAppID {break}; remove file i } *)
Definition vl_discard (fsz : N) (vl : vlog) (off : N) : res vlog :=
  if vl_size vl <? off then Err EIllegalArguments
  else
    let app := off / fsz in
    let cur := cur_chunk fsz (vl_size vl) in
    Ok {| vl_data := vl_data vl;
          vl_live := filter (fun c => (app <=? c) || (cur <=? c)) (vl_live vl) |}.

(* ---------- the store ---------- *)
Record cfg := { c_maxio : N; c_fsz : N; c_embedded : bool }.

Record state := {
  s_vlogs : list vlog;                  (* value log id v is element v-1 *)
  s_txs : list (list entry);            (* committed transactions, id = position + 1 *)
  s_pending : list (N * list entry);    (* committers that appended their values and have not
                                           reached the commit lock yet: writer |-> entries *)
  s_valmux : bool;                      (* _valBsMux is held *)
  s_cut : N                             (* ghost: largest n of a TruncateUptoTx whose walks succeeded *)
}.

Definition init (c : cfg) : state :=
  {| s_vlogs := repeat vl_empty (N.to_nat (c_maxio c)); s_txs := []; s_pending := [];
     s_valmux := false; s_cut := 0 |}.

Definition get_vl (vls : list vlog) (v : N) : option vlog :=
  if v =? 0 then None else nth_error vls (N.to_nat (v - 1)).

Fixpoint set_nth {A} (l : list A) (i : nat) (x : A) : list A :=
  match l, i with
  | [], _ => []
  | _ :: r, O => x :: r
  | y :: r, S i' => y :: set_nth r i' x
  end.
Definition set_vl (vls : list vlog) (v : N) (vl : vlog) : list vlog := set_nth vls (N.to_nat (v - 1)) vl.

(* appendValuesInto: empty values are skipped and keep offset 0 *)
Fixpoint append_values (fsz : N) (vl : vlog) (kvs : list (bytes * bytes)) : vlog * list N :=
  match kvs with
  | [] => (vl, [])
  | (_, v) :: r =>
      if len v =? 0 then
        let '(vl', offs) := append_values fsz vl r in (vl', 0 :: offs)
      else
        let '(vl1, off) := vl_append fsz vl v in
        let '(vl', offs) := append_values fsz vl1 r in (vl', off :: offs)
  end.

Fixpoint mk_entries (kvs : list (bytes * bytes)) (offs : list N) (vid : N) : list entry :=
  match kvs, offs with
  | (k, v) :: r, off :: ro =>
      {| e_key := k; e_val := v; e_vlen := len v; e_voff := encode_offset off vid |} :: mk_entries r ro vid
  | _, _ => []
  end.

Definition find_pending (w : N) (p : list (N * list entry)) : option (list entry) :=
  match find (fun x => fst x =? w) p with Some x => Some (snd x) | None => None end.
Definition remove_pending (w : N) (p : list (N * list entry)) : list (N * list entry) :=
  filter (fun x => negb (fst x =? w)) p.

(* precommit up to the point where it waits for the commit lock: appendValuesIntoAnyVLog with the
   value log `v` handed out by fetchAnyVLog.  With embedded values nothing is written here (the
   values go into the tx log inside performPrecommit). *)
Definition do_append (c : cfg) (st : state) (w v : N) (kvs : list (bytes * bytes)) : state :=
  match find_pending w (s_pending st) with
  | Some _ => st
  | None =>
      if c_embedded c then
        {| s_vlogs := s_vlogs st; s_txs := s_txs st;
           s_pending := s_pending st ++ [(w, mk_entries kvs (map (fun _ => 0) kvs) 0)];
           s_valmux := s_valmux st; s_cut := s_cut st |}
      else
        match get_vl (s_vlogs st) v with
        | None => st
        | Some vl =>
            if c_maxio c <? v then st else
            let '(vl', offs) := append_values (c_fsz c) vl kvs in
            {| s_vlogs := set_vl (s_vlogs st) v vl'; s_txs := s_txs st;
               s_pending := s_pending st ++ [(w, mk_entries kvs offs v)];
               s_valmux := s_valmux st; s_cut := s_cut st |}
        end
  end.

(* the rest of precommit + commit: under the lock the tx gets the next id *)
Definition do_commit (st : state) (w : N) : state :=
  match find_pending w (s_pending st) with
  | None => st
  | Some es =>
      {| s_vlogs := s_vlogs st; s_txs := s_txs st ++ [es];
         s_pending := remove_pending w (s_pending st);
         s_valmux := s_valmux st; s_cut := s_cut st |}
  end.

(* precommit fails after the values were written (precondition, wrong header, ...): the bytes
   stay in the value log, no transaction refers to them *)
Definition do_abort (st : state) (w : N) : state :=
  {| s_vlogs := s_vlogs st; s_txs := s_txs st; s_pending := remove_pending w (s_pending st);
     s_valmux := s_valmux st; s_cut := s_cut st |}.

(* ---------- TruncateUptoTx ---------- *)
Definition committed (st : state) : N := N.of_nat (length (s_txs st)).
Definition get_tx (txs : list (list entry)) (id : N) : option (list entry) :=
  if id =? 0 then None else nth_error txs (N.to_nat (id - 1)).

(* readTxOffsetAt(id, false, 1): Err for id = 0 (ErrIllegalArguments) and id > committed
   (ErrTxNotFound); Ok None stands for ErrTxEntryIndexOutOfRange (no entries), which both walks
   tolerate *)
Definition first_entry (txs : list (list entry)) (id : N) : res (option entry) :=
  match get_tx txs id with
  | None => Err EOther
  | Some [] => Ok None
  | Some (e :: _) => Ok (Some e)
  end.

Definition tombs := list (N * N).
Fixpoint tomb_get (v : N) (t : tombs) : option N :=
  match t with [] => None | (k, x) :: r => if k =? v then Some x else tomb_get v r end.
Fixpoint tomb_set (v off : N) (t : tombs) : tombs :=
  match t with
  | [] => [(v, off)]
  | (k, x) :: r => if k =? v then (k, off) :: r else (k, x) :: tomb_set v off r
  end.

(* for i := minTxID; i > 0 && len(tombstones) != MaxIOConcurrency; i-- { back(i) } *)
Fixpoint back_walk (maxio : N) (txs : list (list entry)) (i : nat) (t : tombs) : res tombs :=
  match i with
  | O => Ok t
  | S i' =>
      if N.of_nat (length t) =? maxio then Ok t
      else
        match first_entry txs (N.of_nat i) with
        | Err e => Err e
        | Panic => Panic
        | Ok None => back_walk maxio txs i' t
        | Ok (Some e) =>
            let '(v, off) := decode_offset (e_voff e) in
            back_walk maxio txs i' (match tomb_get v t with Some _ => t | None => tomb_set v off t end)
        end
  end.

(* for j := minTxID; j <= LastCommittedTxID(); j++ { front(j) }   (k = ids still to visit) *)
Fixpoint front_walk (txs : list (list entry)) (j : N) (k : nat) (t : tombs) : res tombs :=
  match k with
  | O => Ok t
  | S k' =>
      match first_entry txs j with
      | Err e => Err e
      | Panic => Panic
      | Ok None => front_walk txs (j + 1) k' t
      | Ok (Some e) =>
          let '(v, off) := decode_offset (e_voff e) in
          front_walk txs (j + 1) k'
            (match tomb_get v t with
             | Some val => if off <? val then tomb_set v off t else t
             | None => t
             end)
      end
  end.

(* the deletion loop: fetchVLog(id) of an id that is not a value log is an error (since c6a3ff8
   also with several value logs); errors are collected (multierr) and the loop goes on.  DPanic
   is kept as an outcome class of the correspondence only: nothing in the model produces it. *)
Inductive dres := DOk | DErr | DPanic.
Definition dres_join (a b : dres) : dres :=
  match a, b with DPanic, _ => DPanic | _, DPanic => DPanic | DErr, _ => DErr | _, DErr => DErr | _, _ => DOk end.

Fixpoint discard_all (c : cfg) (vls : list vlog) (t : tombs) : list vlog * dres :=
  match t with
  | [] => (vls, DOk)
  | (v, off) :: r =>
      match (if c_maxio c <? v then None else get_vl vls v) with
      | None => let '(vls', d) := discard_all c vls r in (vls', dres_join DErr d)
      | Some vl =>
          match vl_discard (c_fsz c) vl off with
          | Ok vl' => let '(vls', d) := discard_all c (set_vl vls v vl') r in (vls', d)
          | _ => let '(vls', d) := discard_all c vls r in (vls', dres_join DErr d)
          end
      end
  end.

Definition do_truncate (c : cfg) (st : state) (n : N) : state * dres :=
  if c_embedded c then (st, DOk)
  else
    match back_walk (c_maxio c) (s_txs st) (N.to_nat n) [] with
    | Err _ => (st, DErr)
    | Panic => (st, DPanic)
    | Ok t1 =>
        match front_walk (s_txs st) n (N.to_nat (committed st + 1 - n)) t1 with
        | Err _ => (st, DErr)
        | Panic => (st, DPanic)
        | Ok t2 =>
            let '(vls, d) := discard_all c (s_vlogs st) t2 in
            ({| s_vlogs := vls; s_txs := s_txs st; s_pending := s_pending st;
                s_valmux := s_valmux st; s_cut := N.max (s_cut st) n |}, d)
        end
    end.

(* ---------- reading values ---------- *)
Inductive rd := RdOk (b : bytes) | RdEOF | RdErr.

(* readValueAt(b[:vLen], vOff, hVal, false).  Embedded values live in the tx log, which no
   truncation touches (modelling assumption: reading them always succeeds). *)
Definition read_value_at (c : cfg) (st : state) (e : entry) : rd :=
  if e_vlen e =? 0 then (if len (e_val e) =? 0 then RdOk [] else RdErr)
  else if c_embedded c then RdOk (e_val e)
  else
    let '(v, off) := decode_offset (e_voff e) in
    if v =? 0 then RdEOF
    else
      match (if c_maxio c <? v then None else get_vl (s_vlogs st) v) with
      | None => RdErr
      | Some vl =>
          match vl_read (c_fsz c) vl off (e_vlen e) with
          | None => RdEOF
          | Some b => if list_eqb N.eqb b (e_val e) then RdOk b else RdErr  (* digest check *)
          end
      end.

(* ReadValue(entry): vLen = 0 gives nil without looking at the value log *)
Definition read_entry (c : cfg) (st : state) (e : entry) : rd :=
  if e_vlen e =? 0 then RdOk [] else read_value_at c st e.

(* ---------- ExportTx ---------- *)
Inductive xout :=
| XFull (vals : list bytes)   (* every value written out *)
| XDigest                     (* every value replaced by its digest (truncated flag set) *)
| XErrPartial                 (* "partially truncated transaction" *)
| XErrOther
| XBlocked.                   (* waits for _valBsMux, which nobody will release *)

(* the loop over tx.Entries().  `fixed` = true is the code as it is since commit 7ccd103 (the two
   "partially truncated transaction" returns unlock first); `fixed` = false is the code before
   it, kept for the record of the defect (Trunc/Export.v export_refuted).  The vLen > MaxValueLen
   guard added by 85f50b0 is never taken: validateEntries refuses such values before anything is
   written (modelling assumption: every value is within MaxValueLen). *)
Fixpoint export_loop (fixed : bool) (c : cfg) (st : state) (es : list entry) (i : N)
                     (truncated : bool) (acc : list bytes) (mux : bool) : bool * xout :=
  match es with
  | [] => (mux, if truncated then XDigest else XFull acc)
  | e :: r =>
      if mux then (mux, XBlocked)                         (* s._valBsMux.Lock() *)
      else
        match read_value_at c st e with
        | RdErr => (false, XErrOther)                     (* unlocks before returning *)
        | RdOk b =>
            if truncated then (negb fixed, XErrPartial)   (* returns with the mutex held *)
            else export_loop fixed c st r (i + 1) truncated (acc ++ [b]) false
        | RdEOF =>
            if negb truncated && (0 <? i) then (negb fixed, XErrPartial)  (* mutex held *)
            else export_loop fixed c st r (i + 1) true acc false
        end
  end.

Definition do_export (fixed : bool) (c : cfg) (st : state) (id : N) : state * xout :=
  match get_tx (s_txs st) id with
  | None => (st, XErrOther)                                (* readTx: tx not found *)
  | Some es =>
      let '(mux, x) := export_loop fixed c st es 0 false [] (s_valmux st) in
      ({| s_vlogs := s_vlogs st; s_txs := s_txs st; s_pending := s_pending st;
          s_valmux := mux; s_cut := s_cut st |}, x)
  end.

(* closing and opening the store again: committers that did not reach the lock are gone, the
   mutex is fresh; files are what they were *)
Definition do_reopen (st : state) : state :=
  {| s_vlogs := s_vlogs st; s_txs := s_txs st; s_pending := []; s_valmux := false; s_cut := s_cut st |}.

(* ---------- the machine ---------- *)
Inductive op :=
| OAppend (w v : N) (kvs : list (bytes * bytes))
| OCommit (w : N)
| OAbort (w : N)
| OTruncate (n : N)
| OExport (id : N)
| OReopen
| OReadAll        (* ReadTx + ReadValue of every entry of every committed tx *)
| OLayout.        (* (vLen, vOff) of every entry of every committed tx *)

Inductive out :=
| UNone
| UTrunc (d : dres)
| UExport (x : xout) (locked : bool)
| URead (m : list (list rd))
| ULayout (l : list (list (N * N))).

Definition step (fixed : bool) (c : cfg) (st : state) (o : op) : state * out :=
  match o with
  | OAppend w v kvs => (do_append c st w v kvs, UNone)
  | OCommit w => (do_commit st w, UNone)
  | OAbort w => (do_abort st w, UNone)
  | OTruncate n => let '(st', d) := do_truncate c st n in (st', UTrunc d)
  | OExport id => let '(st', x) := do_export fixed c st id in (st', UExport x (s_valmux st'))
  | OReopen => (do_reopen st, UNone)
  | OReadAll => (st, URead (map (map (read_entry c st)) (s_txs st)))
  | OLayout => (st, ULayout (map (map (fun e => (e_vlen e, e_voff e))) (s_txs st)))
  end.

Fixpoint run (fixed : bool) (c : cfg) (st : state) (ops : list op) : state * list out :=
  match ops with
  | [] => (st, [])
  | o :: r => let '(st1, u) := step fixed c st o in
              let '(st2, us) := run fixed c st1 r in (st2, u :: us)
  end.

Definition run_state (fixed : bool) (c : cfg) (ops : list op) : state := fst (run fixed c (init c) ops).
Definition run_outs (fixed : bool) (c : cfg) (ops : list op) : list out := snd (run fixed c (init c) ops).

(* ---------- premises of the theorems, as computable predicates ---------- *)
(* Options.Validate: FileSize > 0, 0 < MaxIOConcurrency <= MaxParallelIO = 127 *)
Definition cfg_ok (c : cfg) : bool := (0 <? c_fsz c) && (1 <=? c_maxio c) && (c_maxio c <=? 127).

Fixpoint kvs_bytes (kvs : list (bytes * bytes)) : N :=
  match kvs with [] => 0 | (_, v) :: r => len v + kvs_bytes r end.
(* value bytes written by a run: every offset stays below 2^55 when this is below 2^55 *)
Fixpoint ops_bytes (ops : list op) : N :=
  match ops with
  | [] => 0
  | OAppend _ _ kvs :: r => kvs_bytes kvs + ops_bytes r
  | _ :: r => ops_bytes r
  end.

(* no TruncateUptoTx runs while a committer sits between its value append and the commit lock *)
Fixpoint quiescent_from (fixed : bool) (c : cfg) (st : state) (ops : list op) : bool :=
  match ops with
  | [] => true
  | o :: r =>
      (match o with OTruncate _ => match s_pending st with [] => true | _ => false end | _ => true end)
      && quiescent_from fixed c (fst (step fixed c st o)) r
  end.
Definition quiescent (fixed : bool) (c : cfg) (ops : list op) : bool := quiescent_from fixed c (init c) ops.

(* pattern values used by the correspondence cases: n bytes s, s+1, ... (mod 256) *)
Fixpoint vpat_nat (s : N) (n : nat) : bytes :=
  match n with O => [] | S n' => (s mod 256) :: vpat_nat (s + 1) n' end.
Definition vpat (s n : N) : bytes := vpat_nat s (N.to_nat n).
