(* C14 — the theorems about runs of the machine of Trunc/Model.v. *)
From V Require Import Base.Bytes Base.Hex Trunc.Model Trunc.Lemmas Trunc.Safety.
From Coq Require Import ZifyN ZifyNat ZifyBool.

Lemma run_cons_state fixed c st o r :
  fst (run fixed c st (o :: r)) = fst (run fixed c (fst (step fixed c st o)) r).
Proof.
  cbn [run]. destruct (step fixed c st o) as [st1 u]. cbn [fst].
  destruct (run fixed c st1 r) as [st2 us]. reflexivity.
Qed.

Lemma run_cons_outs fixed c st o r :
  snd (run fixed c st (o :: r)) = snd (step fixed c st o) :: snd (run fixed c (fst (step fixed c st o)) r).
Proof.
  cbn [run]. destruct (step fixed c st o) as [st1 u]. cbn [fst snd].
  destruct (run fixed c st1 r) as [st2 us]. reflexivity.
Qed.

Lemma cfg_ok_parts c : cfg_ok c = true -> 0 < c_fsz c /\ 1 <= c_maxio c /\ c_maxio c <= 127.
Proof. unfold cfg_ok. intros H. lia. Qed.

(* ---------- every reachable state is well formed ---------- *)
Lemma run_wf fixed c : forall ops st b,
  c_embedded c = false -> 1 <= c_maxio c -> c_maxio c <= 127 ->
  WF c st -> sizes_le (s_vlogs st) b -> b + ops_bytes ops < two55 ->
  WF c (fst (run fixed c st ops)).
Proof.
  induction ops as [|o r IH]; intros st b He Hm1 Hm Hwf Hs Hb.
  - exact Hwf.
  - rewrite run_cons_state. rewrite ops_bytes_cons in Hb.
    destruct (step_wf fixed c st o b He Hm1 Hm Hwf Hs ltac:(lia)) as [W S].
    eapply (IH _ (b + op_bytes o)); eauto. lia.
Qed.

Lemma run_inv fixed c : forall ops st b,
  c_embedded c = false -> 1 <= c_maxio c -> c_maxio c <= 127 ->
  Inv c st -> sizes_le (s_vlogs st) b -> b + ops_bytes ops < two55 ->
  quiescent_from fixed c st ops = true ->
  Inv c (fst (run fixed c st ops)).
Proof.
  induction ops as [|o r IH]; intros st b He Hm1 Hm Hinv Hs Hb Hq.
  - exact Hinv.
  - rewrite run_cons_state. rewrite ops_bytes_cons in Hb.
    cbn [quiescent_from] in Hq. apply andb_prop in Hq as [Hq1 Hq2].
    destruct (step_wf fixed c st o b He Hm1 Hm (inv_wf _ _ Hinv) Hs ltac:(lia)) as [_ S].
    eapply (IH _ (b + op_bytes o)); eauto; [|lia].
    eapply step_inv; eauto; [lia|].
    destruct o; auto. destruct (s_pending st); [reflexivity|discriminate].
Qed.

(* ---------- embedded values: lengths are all that matters ---------- *)
Definition vlen_tx (tx : list entry) : Prop := Forall (fun e => e_vlen e = len (e_val e)) tx.
Definition vlen_all (st : state) : Prop :=
  Forall vlen_tx (s_txs st) /\ Forall (fun p => vlen_tx (snd p)) (s_pending st).

Lemma mk_entries_vlen kvs : forall offs v, vlen_tx (mk_entries kvs offs v).
Proof.
  induction kvs as [|[k val] r IH]; intros [|off ro] v; cbn [mk_entries]; try constructor; auto.
  apply IH.
Qed.

(* TruncateUptoTx touches nothing but chunk files of value logs *)
Lemma do_truncate_frame c st n :
  s_txs (fst (do_truncate c st n)) = s_txs st /\
  s_pending (fst (do_truncate c st n)) = s_pending st /\
  s_valmux (fst (do_truncate c st n)) = s_valmux st.
Proof.
  unfold do_truncate. destruct (c_embedded c); [simpl; auto|].
  destruct (back_walk (c_maxio c) (s_txs st) (N.to_nat n) []) as [t1|e|]; simpl; auto.
  destruct (front_walk (s_txs st) n (N.to_nat (committed st + 1 - n)) t1) as [t2|e|]; simpl; auto.
  destruct (discard_all c (s_vlogs st) t2). simpl. auto.
Qed.

Lemma step_vlen fixed c st o : vlen_all st -> vlen_all (fst (step fixed c st o)).
Proof.
  intros [H1 H2]. destruct o as [w v kvs|w|w|n|id| | |]; cbn [step fst].
  - unfold do_append. destruct (find_pending w (s_pending st)); [split; auto|].
    destruct (c_embedded c).
    + split; cbn [s_txs s_pending]; auto. apply Forall_app; split; auto.
      constructor; [apply mk_entries_vlen|constructor].
    + destruct (get_vl (s_vlogs st) v) as [vl0|]; [|split; auto].
      destruct (c_maxio c <? v); [split; auto|].
      destruct (append_values (c_fsz c) vl0 kvs) as [vl' offs].
      split; cbn [s_txs s_pending]; auto. apply Forall_app; split; auto.
      constructor; [apply mk_entries_vlen|constructor].
  - unfold do_commit. destruct (find_pending w (s_pending st)) as [es|] eqn:F; [|split; auto].
    split; cbn [s_txs s_pending].
    + apply Forall_app; split; auto. constructor; [|constructor].
      rewrite Forall_forall in H2. apply (H2 _ (find_pending_in _ _ _ F)).
    + rewrite Forall_forall in *. intros p Hp. apply H2. eapply remove_pending_incl; eauto.
  - split; cbn [do_abort s_txs s_pending]; auto.
    rewrite Forall_forall in *. intros p Hp. apply H2. eapply remove_pending_incl; eauto.
  - destruct (do_truncate c st n) as [st' d] eqn:T. cbn [fst].
    pose proof (do_truncate_frame c st n) as Fr. rewrite T in Fr. cbn [fst] in Fr.
    destruct Fr as [E1 [E2 _]]. split; [rewrite E1|rewrite E2]; auto.
  - destruct (do_export fixed c st id) as [st' x] eqn:X. cbn [fst].
    pose proof (do_export_frame fixed c st id) as Fr. rewrite X in Fr. cbn [fst] in Fr.
    destruct Fr as [_ [E2 [E3 _]]]. split; [rewrite E2|rewrite E3]; auto.
  - split; cbn [do_reopen s_txs s_pending]; auto.
  - split; auto.
  - split; auto.
Qed.

Lemma run_vlen fixed c : forall ops st, vlen_all st -> vlen_all (fst (run fixed c st ops)).
Proof.
  induction ops as [|o r IH]; intros st H; [exact H|].
  rewrite run_cons_state. apply IH. apply step_vlen. exact H.
Qed.

Lemma read_entry_embedded c st e :
  c_embedded c = true -> e_vlen e = len (e_val e) -> read_entry c st e = RdOk (e_val e).
Proof.
  intros He Hl. unfold read_entry, read_value_at. rewrite Hl, He.
  destruct (N.eqb_spec (len (e_val e)) 0) as [Z|NZ]; [rewrite (len_zero_nil _ Z)|]; reflexivity.
Qed.

(* ---------- truncate_preserves_suffix ---------- *)
(* end-to-end form: any number of committers whose value appends and commits interleave in any
   order, any value log choice, any number of truncations with any arguments (none of them while
   a committer sits between its append and the commit lock), exports, restarts.  Afterwards every
   entry of every committed transaction whose id is at or above the largest successful cut reads
   back exactly the value that was written. *)
Theorem suffix_readable fixed c ops :
  cfg_ok c = true -> ops_bytes ops < two55 -> quiescent fixed c ops = true ->
  forall id tx e, s_cut (run_state fixed c ops) <= id ->
    get_tx (s_txs (run_state fixed c ops)) id = Some tx -> In e tx ->
    read_entry c (run_state fixed c ops) e = RdOk (e_val e).
Proof.
  intros Hc Hb Hq id tx e Hid Hg Hin. apply cfg_ok_parts in Hc as [_ [Hm1 Hm]].
  destruct (c_embedded c) eqn:He.
  - apply read_entry_embedded; [exact He|].
    assert (V : vlen_all (run_state fixed c ops)).
    { apply run_vlen. split; constructor. }
    destruct V as [V _]. rewrite Forall_forall in V.
    pose proof (V _ (get_tx_in _ _ _ Hg)) as Vt. unfold vlen_tx in Vt. rewrite Forall_forall in Vt. auto.
  - assert (I : Inv c (run_state fixed c ops)).
    { eapply (run_inv fixed c ops (init c) 0); eauto using init_inv, init_sizes. }
    pose proof (inv_txs _ _ I id tx Hid Hg) as R. unfold readable in R. rewrite Forall_forall in R. auto.
Qed.

(* one-step form, valid in EVERY reachable state (also after truncations that raced with
   committers): TruncateUptoTx(n) never turns a readable entry of a committed transaction with
   id >= n into an unreadable or different one *)
Lemma read_entry_transfer c st st' e0 rest v vl f vl' e :
  c_embedded c = false -> 1 <= v -> v <= c_maxio c ->
  get_vl (s_vlogs st) v = Some vl -> decode_offset (e_voff e0) = (v, f) ->
  Forall (entry_ok vl v f) (e0 :: rest) ->
  get_vl (s_vlogs st') v = Some vl' -> vl_dext vl vl' ->
  (forall ch, f / c_fsz c <= ch -> In ch (vl_live vl) -> In ch (vl_live vl')) ->
  In e (e0 :: rest) -> read_entry c st e = RdOk (e_val e) -> read_entry c st' e = RdOk (e_val e).
Proof.
  intros He Hv1 Hv2 Hg Hd Hok Hg' Hx Hlive Hin Hre.
  rewrite Forall_forall in Hok. pose proof (Hok e Hin) as Hoe.
  apply (read_ok c st vl v f e He Hoe Hv1 Hv2 Hg) in Hre.
  apply (read_ok c st' vl' v f e He (entry_ok_ext _ _ _ _ _ Hx Hoe) Hv1 Hv2 Hg').
  destruct Hre as [Z|Hall]; [left; exact Z|].
  destruct (N.eq_dec (len (e_val e)) 0) as [Z|NZ]; [left; exact Z|right].
  intros off Hdo ch Hch. apply Hlive; [|eapply Hall; eauto].
  destruct Hoe as [_ [off' [Hd' H3]]]. assert (off' = off) by congruence. subst off'.
  destruct (H3 NZ) as [A _].
  apply in_span in Hch; [|lia].
  assert (f / c_fsz c <= off / c_fsz c) by (apply div_le_mono_gen; exact A). lia.
Qed.

Theorem truncate_step fixed c ops n :
  cfg_ok c = true -> ops_bytes ops < two55 ->
  forall id tx e v, n <= id ->
    get_tx (s_txs (run_state fixed c ops)) id = Some tx -> In e tx ->
    read_entry c (run_state fixed c ops) e = RdOk v ->
    read_entry c (fst (do_truncate c (run_state fixed c ops) n)) e = RdOk v.
Proof.
  intros Hc Hb id tx e v Hid Hg Hin Hr. apply cfg_ok_parts in Hc as [_ [Hm1 Hm]].
  destruct (c_embedded c) eqn:He.
  - unfold do_truncate. rewrite He. exact Hr.
  - set (st := run_state fixed c ops) in *.
    assert (Hwf : WF c st).
    { eapply (run_wf fixed c ops (init c) 0); eauto using init_wf, init_sizes. }
    destruct (do_truncate c st n) as [st' d] eqn:T. cbn [fst].
    destruct tx as [|e0 rest]; [destruct Hin|].
    pose proof (wf_txs _ _ Hwf) as Ht. rewrite Forall_forall in Ht.
    destruct (Ht _ (get_tx_in _ _ _ Hg)) as [w [vl [f [A [B [C [D E]]]]]]].
    (* a successful read returns the written value *)
    assert (Hv : v = e_val e).
    { pose proof E as E'. rewrite Forall_forall in E'. pose proof (E' e Hin) as Hoe.
      destruct (read_entry c st e) eqn:R; try discriminate.
      assert (b = v) by congruence. subst b.
      unfold read_entry in R. destruct Hoe as [L _]. rewrite L in R.
      destruct (N.eqb_spec (len (e_val e)) 0) as [Z|NZ].
      - rewrite (len_zero_nil _ Z). congruence.
      - unfold read_value_at in R. rewrite L in R.
        destruct (N.eqb_spec (len (e_val e)) 0); [contradiction|]. rewrite He in R.
        destruct (decode_offset (e_voff e)) as [w' off'].
        destruct (w' =? 0); [discriminate|].
        destruct (if c_maxio c <? w' then None else get_vl (s_vlogs st) w') as [vlr|]; [|discriminate].
        destruct (vl_read (c_fsz c) vlr off' (len (e_val e))) as [bs|]; [|discriminate].
        destruct (list_eqb N.eqb bs (e_val e)) eqn:Q; [|discriminate].
        apply bytes_eqb_eq in Q. congruence. }
    subst v.
    destruct (do_truncate_spec _ _ _ _ _ He Hm1 T) as [_ [_ [_ [_ [_ T5]]]]].
    destruct (T5 _ _ C) as [vl' [G' [Dd [_ [_ K]]]]].
    eapply (read_entry_transfer c st st' e0 rest w vl f vl' e); eauto.
    exists []. rewrite Dd. symmetry; apply app_nil_r.
Qed.

(* ---------- truncate_idempotent ---------- *)
Lemma discard_all_other c t : forall vls vls' d v,
  ~ In v (map fst t) -> discard_all c vls t = (vls', d) -> get_vl vls' v = get_vl vls v.
Proof.
  induction t as [|[k off] t IH]; intros vls vls' d v Hn H; cbn [discard_all] in H.
  - congruence.
  - simpl in Hn.
    assert (Hk : k <> v) by tauto. assert (Hn' : ~ In v (map fst t)) by tauto.
    destruct (if c_maxio c <? k then None else get_vl vls k) as [vl|] eqn:G.
    + assert (Gk : get_vl vls k = Some vl) by (destruct (c_maxio c <? k); [discriminate|exact G]).
      destruct (vl_discard (c_fsz c) vl off) as [vl1|e|].
      * destruct (discard_all c (set_vl vls k vl1) t) as [a b] eqn:E.
        assert (a = vls') by congruence. subst a.
        rewrite (IH _ _ _ _ Hn' E). apply get_set_other; auto.
        apply get_vl_some_pos in Gk. lia.
      * destruct (discard_all c vls t) as [a b] eqn:E. assert (a = vls') by congruence. subst a. eauto.
      * destruct (discard_all c vls t) as [a b] eqn:E. assert (a = vls') by congruence. subst a. eauto.
    + destruct (discard_all c vls t) as [a b] eqn:E. assert (a = vls') by congruence. subst a. eauto.
Qed.

Lemma discard_all_idem c t : forall vls vls' d,
  keys_nodup t -> discard_all c vls t = (vls', d) -> discard_all c vls' t = (vls', d).
Proof.
  induction t as [|[k off] t IH]; intros vls vls' d Hn H; cbn [discard_all] in H |- *.
  - congruence.
  - assert (Hn' : keys_nodup t) by (unfold keys_nodup in *; simpl in Hn; inversion Hn; auto).
    assert (Hk : ~ In k (map fst t)) by (unfold keys_nodup in Hn; simpl in Hn; inversion Hn; auto).
    destruct (if c_maxio c <? k then None else get_vl vls k) as [vl|] eqn:G.
    + assert (Gk : get_vl vls k = Some vl) by (destruct (c_maxio c <? k); [discriminate|exact G]).
      assert (Lk : (c_maxio c <? k) = false) by (destruct (c_maxio c <? k); [discriminate|reflexivity]).
      destruct (vl_discard (c_fsz c) vl off) as [vl1|e|] eqn:Dv.
      * destruct (discard_all c (set_vl vls k vl1) t) as [a b] eqn:E.
        assert (a = vls') by congruence. assert (b = d) by congruence. subst a b.
        assert (G' : get_vl vls' k = Some vl1).
        { rewrite (discard_all_other _ _ _ _ _ _ Hk E). eapply get_set_same; eauto. }
        rewrite Lk, G'. rewrite (vl_discard_idem _ _ _ _ Dv).
        rewrite (set_vl_same _ _ _ G'). rewrite (IH _ _ _ Hn' E). reflexivity.
      * destruct (discard_all c vls t) as [a b] eqn:E.
        assert (a = vls') by congruence. subst a.
        rewrite Lk. rewrite (discard_all_other _ _ _ _ _ _ Hk E), Gk, Dv.
        rewrite (IH _ _ _ Hn' E). exact H.
      * destruct (discard_all c vls t) as [a b] eqn:E.
        assert (a = vls') by congruence. subst a.
        rewrite Lk. rewrite (discard_all_other _ _ _ _ _ _ Hk E), Gk, Dv.
        rewrite (IH _ _ _ Hn' E). exact H.
    + destruct (discard_all c vls t) as [a b] eqn:E.
      assert (a = vls') by congruence. subst a.
      assert (G' : (if c_maxio c <? k then None else get_vl vls' k) = None).
      { destruct (c_maxio c <? k); [reflexivity|].
        rewrite (discard_all_other _ _ _ _ _ _ Hk E). exact G. }
      rewrite G'. rewrite (IH _ _ _ Hn' E). exact H.
Qed.

(* running the same truncation again changes nothing and returns the same result *)
Theorem truncate_idem c st n :
  do_truncate c (fst (do_truncate c st n)) n = do_truncate c st n.
Proof.
  unfold do_truncate at 2 3. destruct (c_embedded c) eqn:He.
  - cbn [fst]. unfold do_truncate. rewrite He. reflexivity.
  - destruct (back_walk (c_maxio c) (s_txs st) (N.to_nat n) []) as [t1|e|] eqn:B.
    + destruct (front_walk (s_txs st) n (N.to_nat (committed st + 1 - n)) t1) as [t2|e|] eqn:F.
      * destruct (discard_all c (s_vlogs st) t2) as [vls d] eqn:D. cbn [fst].
        unfold do_truncate. rewrite He. cbn [s_txs s_vlogs s_pending s_valmux s_cut].
        unfold committed. cbn [s_txs]. fold (committed st). rewrite B, F.
        assert (N2 : keys_nodup t2).
        { assert (N1 : keys_nodup t1) by (eapply back_walk_nodup; [exact B|constructor]).
          destruct (front_walk_spec _ _ _ _ _ F N1) as [N2 _]. exact N2. }
        rewrite (discard_all_idem _ _ _ _ _ N2 D).
        replace (N.max (N.max (s_cut st) n) n) with (N.max (s_cut st) n) by lia. reflexivity.
      * cbn [fst]. unfold do_truncate. rewrite He, B, F. reflexivity.
      * cbn [fst]. unfold do_truncate. rewrite He, B, F. reflexivity.
    + cbn [fst]. unfold do_truncate. rewrite He, B. reflexivity.
    + cbn [fst]. unfold do_truncate. rewrite He, B. reflexivity.
Qed.
