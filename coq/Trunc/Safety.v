(* C14 — the placement invariant of every reachable state, and what TruncateUptoTx keeps. *)
From V Require Import Base.Bytes Base.Hex Trunc.Model Trunc.Lemmas.
From Coq Require Import ZifyN ZifyNat ZifyBool.

Arguments decode_offset : simpl never.
Arguments encode_offset : simpl never.

(* ---------- what is known about a placed transaction ---------- *)
(* all entries of a transaction carry the id `v` of one value log; a non-empty value lies inside
   the log's data at its offset, at or after the offset `f` recorded in the FIRST entry *)
Definition entry_ok (vl : vlog) (v f : N) (e : entry) : Prop :=
  e_vlen e = len (e_val e) /\
  exists off, decode_offset (e_voff e) = (v, off) /\
    (len (e_val e) <> 0 ->
       f <= off /\ off + len (e_val e) <= vl_size vl /\
       take (len (e_val e)) (drop off (vl_data vl)) = e_val e).

Definition tx_ok (c : cfg) (vls : list vlog) (tx : list entry) : Prop :=
  match tx with
  | [] => True
  | e0 :: _ =>
      exists v vl f, 1 <= v /\ v <= c_maxio c /\ get_vl vls v = Some vl /\
                     decode_offset (e_voff e0) = (v, f) /\ Forall (entry_ok vl v f) tx
  end.

Record WF (c : cfg) (st : state) : Prop := {
  wf_len : length (s_vlogs st) = N.to_nat (c_maxio c);
  wf_cur : forall v vl, get_vl (s_vlogs st) v = Some vl -> cur_live (c_fsz c) vl;
  wf_txs : Forall (tx_ok c (s_vlogs st)) (s_txs st);
  wf_pend : Forall (fun p => tx_ok c (s_vlogs st) (snd p)) (s_pending st) }.

Definition vl_dext (vl vl' : vlog) : Prop := exists s, vl_data vl' = vl_data vl ++ s.

Lemma vl_dext_refl vl : vl_dext vl vl.
Proof. exists []. symmetry; apply app_nil_r. Qed.

Lemma vl_dext_size vl vl' : vl_dext vl vl' -> vl_size vl <= vl_size vl'.
Proof. intros [s H]. unfold vl_size. rewrite H, len_app. lia. Qed.

Lemma entry_ok_ext vl vl' v f e : vl_dext vl vl' -> entry_ok vl v f e -> entry_ok vl' v f e.
Proof.
  intros Hx [H1 [off [H2 H3]]]. split; [exact H1|]. exists off. split; [exact H2|].
  intros Hn. destruct (H3 Hn) as [A [B C]]. split; [exact A|].
  pose proof (vl_dext_size _ _ Hx). split; [lia|].
  destruct Hx as [s Hs]. rewrite Hs. rewrite take_drop_app; [exact C|]. unfold vl_size in B. exact B.
Qed.

Definition vls_dext (vls vls' : list vlog) : Prop :=
  forall v vl, get_vl vls v = Some vl -> exists vl', get_vl vls' v = Some vl' /\ vl_dext vl vl'.

Lemma tx_ok_ext c vls vls' tx : vls_dext vls vls' -> tx_ok c vls tx -> tx_ok c vls' tx.
Proof.
  intros Hx. destruct tx as [|e0 r]; simpl; auto.
  intros [v [vl [f [A [B [C [D E]]]]]]].
  destruct (Hx _ _ C) as [vl' [G X]].
  exists v, vl', f. repeat split; auto.
  eapply Forall_impl; [|exact E]. intros e. apply entry_ok_ext; exact X.
Qed.

(* ---------- reading one entry, in terms of chunk files ---------- *)
Lemma len_zero_nil (b : bytes) : len b = 0 -> b = [].
Proof. unfold len. destruct b; simpl; [auto|lia]. Qed.

Lemma read_ok c st vl v f e :
  c_embedded c = false -> entry_ok vl v f e -> 1 <= v -> v <= c_maxio c ->
  get_vl (s_vlogs st) v = Some vl ->
  (read_entry c st e = RdOk (e_val e) <->
   (len (e_val e) = 0 \/
    forall off, decode_offset (e_voff e) = (v, off) ->
      forall ch, In ch (span (c_fsz c) off (len (e_val e))) -> In ch (vl_live vl))).
Proof.
  intros He [H1 [off [H2 H3]]] Hv1 Hv2 Hg.
  unfold read_entry. rewrite H1.
  destruct (N.eqb_spec (len (e_val e)) 0) as [Z|NZ].
  - rewrite (len_zero_nil _ Z). split; auto.
  - destruct (H3 NZ) as [A [B C]].
    unfold read_value_at. rewrite H1.
    destruct (N.eqb_spec (len (e_val e)) 0) as [Z'|_]; [contradiction|].
    rewrite He, H2.
    destruct (N.eqb_spec v 0); [lia|].
    destruct (N.ltb_spec (c_maxio c) v); [lia|].
    rewrite Hg. unfold vl_read.
    destruct (N.leb_spec (off + len (e_val e)) (vl_size vl)); [|lia].
    rewrite andb_true_r.
    destruct (forallb (chunk_live vl) (span (c_fsz c) off (len (e_val e)))) eqn:F.
    + rewrite C, bytes_eqb_refl. split; [|reflexivity]. intros _. right.
      intros off' Hd ch Hin. assert (off' = off) by congruence. subst off'.
      rewrite forallb_forall in F. apply chunk_live_in. apply F. exact Hin.
    + split; [discriminate|]. intros [Z|Hall]; [contradiction|]. exfalso.
      assert (forallb (chunk_live vl) (span (c_fsz c) off (len (e_val e))) = true); [|congruence].
      apply forallb_forall. intros ch Hin. apply chunk_live_in. eapply Hall; eauto.
Qed.

Definition readable (c : cfg) (st : state) (tx : list entry) : Prop :=
  Forall (fun e => read_entry c st e = RdOk (e_val e)) tx.

(* a transaction stays readable when its value log keeps its data and every chunk from the one
   holding the first entry's offset upwards *)
Lemma readable_transfer c st st' e0 rest v vl f vl' :
  c_embedded c = false -> 1 <= v -> v <= c_maxio c ->
  get_vl (s_vlogs st) v = Some vl -> decode_offset (e_voff e0) = (v, f) ->
  Forall (entry_ok vl v f) (e0 :: rest) ->
  get_vl (s_vlogs st') v = Some vl' -> vl_dext vl vl' ->
  (forall ch, f / c_fsz c <= ch -> In ch (vl_live vl) -> In ch (vl_live vl')) ->
  readable c st (e0 :: rest) -> readable c st' (e0 :: rest).
Proof.
  intros He Hv1 Hv2 Hg Hd Hok Hg' Hx Hlive Hr.
  unfold readable in *. rewrite Forall_forall in *. intros e Hin.
  pose proof (Hok e Hin) as Hoe. pose proof (Hr e Hin) as Hre.
  apply (read_ok c st vl v f e He Hoe Hv1 Hv2 Hg) in Hre.
  apply (read_ok c st' vl' v f e He (entry_ok_ext _ _ _ _ _ Hx Hoe) Hv1 Hv2 Hg').
  destruct Hre as [Z|Hall]; [left; exact Z|].
  destruct (N.eq_dec (len (e_val e)) 0) as [Z|NZ]; [left; exact Z|right].
  intros off Hdo ch Hch. apply Hlive; [|eapply Hall; eauto].
  destruct Hoe as [_ [off' [Hd' H3]]]. assert (off' = off) by congruence. subst off'.
  destruct (H3 NZ) as [A _].
  apply in_span in Hch; [|lia].
  assert (f / c_fsz c <= off / c_fsz c) by (apply div_le_mono_gen; exact A). lia.
Qed.

(* ---------- appendValuesInto ---------- *)
Definition placed (fsz : N) (size0 : N) (vl' : vlog) (kv : bytes * bytes) (off : N) : Prop :=
  (len (snd kv) = 0 -> off = 0) /\
  (len (snd kv) <> 0 ->
     size0 <= off /\ off + len (snd kv) <= vl_size vl' /\
     take (len (snd kv)) (drop off (vl_data vl')) = snd kv /\
     forall ch, In ch (span fsz off (len (snd kv))) -> In ch (vl_live vl')).

Lemma vl_append_spec fsz vl v vl1 off :
  len v <> 0 -> vl_append fsz vl v = (vl1, off) -> cur_live fsz vl ->
  off = vl_size vl /\ vl_data vl1 = vl_data vl ++ v /\ incl (vl_live vl) (vl_live vl1) /\
  cur_live fsz vl1 /\ (forall ch, In ch (span fsz off (len v)) -> In ch (vl_live vl1)).
Proof.
  intros Hn H Hc. unfold vl_append in H.
  assert (E1 : off = vl_size vl) by congruence.
  assert (E2 : vl1 = {| vl_data := vl_data vl ++ v;
            vl_live := vl_live vl ++ seqN (cur_chunk fsz (vl_size vl) + 1)
                         (cur_chunk fsz (vl_size vl + len v) - cur_chunk fsz (vl_size vl)) |}) by congruence.
  clear H. subst vl1 off. cbn [vl_data vl_live].
  assert (Hm : cur_chunk fsz (vl_size vl) <= cur_chunk fsz (vl_size vl + len v))
    by (apply cur_chunk_mono; lia).
  split; [reflexivity|]. split; [reflexivity|]. split; [apply incl_appl, incl_refl|].
  assert (Hin : forall ch, cur_chunk fsz (vl_size vl) <= ch <= cur_chunk fsz (vl_size vl + len v) ->
            In ch (vl_live vl ++ seqN (cur_chunk fsz (vl_size vl) + 1)
                     (cur_chunk fsz (vl_size vl + len v) - cur_chunk fsz (vl_size vl)))).
  { intros ch Hr. apply in_or_app.
    destruct (N.eq_dec ch (cur_chunk fsz (vl_size vl))) as [->|Hne]; [left; exact Hc|].
    right. apply in_seqN. Show. lia. }
  split.
  - unfold cur_live, vl_size. cbn [vl_data vl_live]. rewrite len_app. apply Hin.
    unfold vl_size in Hm. lia.
  - intros ch Hch. apply in_span in Hch; [|lia]. apply Hin.
    unfold cur_chunk at 2. destruct (N.eqb_spec (vl_size vl + len v) 0); [lia|].
    split; [|lia].
    unfold cur_chunk. destruct (N.eqb_spec (vl_size vl) 0) as [Z|NZ]; [lia|].
    assert ((vl_size vl - 1) / fsz <= vl_size vl / fsz) by (apply div_le_mono_gen; lia). lia.
Qed.

Lemma append_values_spec fsz : forall kvs vl vl' offs,
  append_values fsz vl kvs = (vl', offs) -> cur_live fsz vl ->
  vl_dext vl vl' /\ incl (vl_live vl) (vl_live vl') /\ cur_live fsz vl' /\
  vl_size vl' = vl_size vl + kvs_bytes kvs /\
  Forall2 (placed fsz (vl_size vl) vl') kvs offs /\
  (match kvs, offs with
   | kv :: _, off :: _ => len (snd kv) <> 0 -> off = vl_size vl
   | _, _ => True
   end).
Proof.
  induction kvs as [|[k v] r IH]; intros vl vl' offs H Hc; cbn [append_values] in H.
  - assert (vl' = vl) by congruence. assert (offs = []) by congruence. subst.
    repeat split; auto using vl_dext_refl, incl_refl. simpl; lia.
  - destruct (N.eqb_spec (len v) 0) as [Z|NZ].
    + destruct (append_values fsz vl r) as [vla offsa] eqn:E.
      assert (vl' = vla) by congruence. assert (offs = 0 :: offsa) by congruence. subst.
      destruct (IH _ _ _ E Hc) as [A [B [C [D [F _]]]]].
      repeat split; auto.
      * cbn [kvs_bytes]. lia.
      * constructor; [|exact F]. split; simpl; [auto|contradiction].
      * simpl. contradiction.
    + destruct (vl_append fsz vl v) as [vl1 off] eqn:Ea.
      destruct (append_values fsz vl1 r) as [vla offsa] eqn:E.
      assert (vl' = vla) by congruence. assert (offs = off :: offsa) by congruence. subst.
      destruct (vl_append_spec _ _ _ _ _ NZ Ea Hc) as [P1 [P2 [P3 [P4 P5]]]].
      destruct (IH _ _ _ E P4) as [A [B [C [D [F _]]]]].
      assert (S1 : vl_size vl1 = vl_size vl + len v) by (unfold vl_size; rewrite P2, len_app; reflexivity).
      split; [destruct A as [s Hs]; exists (v ++ s); rewrite Hs, P2, app_assoc; reflexivity|].
      split; [eapply incl_tran; eauto|]. split; [exact C|].
      split; [cbn [kvs_bytes]; lia|].
      split.
      * constructor.
        -- split; cbn [snd]; [contradiction|]. intros _.
           pose proof (vl_dext_size _ _ A).
           split; [lia|]. split; [lia|]. split.
           ++ destruct A as [s Hs]. rewrite Hs, take_drop_app.
              ** rewrite P2, P1. apply take_drop_exact.
              ** unfold vl_size in S1. rewrite P1. unfold vl_size. lia.
           ++ intros ch Hch. apply B. apply P5. exact Hch.
        -- eapply Forall2_impl; [|exact F]. intros kv o [Q1 Q2]. split; [exact Q1|].
           intros Hn. destruct (Q2 Hn) as [R1 R2]. split; [lia|exact R2].
      * cbn [snd]. intros _. exact P1.
Qed.
