(* C14 — the placement invariant of every reachable state, and what TruncateUptoTx keeps. *)
From V Require Import Base.Bytes Base.Hex Trunc.Model Trunc.Lemmas.
From Coq Require Import ZifyN ZifyNat ZifyBool.

Arguments decode_offset : simpl never.
Arguments encode_offset : simpl never.

(* ---------- what is known about a placed transaction ---------- *)
(* all entries of a transaction carry the id `v` of one value log; a non-empty value lies inside
   the log's data at its offset, at or after the offset `f` recorded in the FIRST entry *)
Definition entry_ok (vl : vlog) (v f : N) (e : entry) : Prop :=
  e_vlen e = len (e_val e) /\
  exists off, decode_offset (e_voff e) = (v, off) /\
    (len (e_val e) <> 0 ->
       f <= off /\ off + len (e_val e) <= vl_size vl /\
       take (len (e_val e)) (drop off (vl_data vl)) = e_val e).

Definition tx_ok (c : cfg) (vls : list vlog) (tx : list entry) : Prop :=
  match tx with
  | [] => True
  | e0 :: _ =>
      exists v vl f, 1 <= v /\ v <= c_maxio c /\ get_vl vls v = Some vl /\
                     decode_offset (e_voff e0) = (v, f) /\ Forall (entry_ok vl v f) tx
  end.

Record WF (c : cfg) (st : state) : Prop := {
  wf_len : length (s_vlogs st) = N.to_nat (c_maxio c);
  wf_cur : forall v vl, get_vl (s_vlogs st) v = Some vl -> cur_live (c_fsz c) vl;
  wf_txs : Forall (tx_ok c (s_vlogs st)) (s_txs st);
  wf_pend : Forall (fun p => tx_ok c (s_vlogs st) (snd p)) (s_pending st) }.

Definition vl_dext (vl vl' : vlog) : Prop := exists s, vl_data vl' = vl_data vl ++ s.

Lemma vl_dext_refl vl : vl_dext vl vl.
Proof. exists []. symmetry; apply app_nil_r. Qed.

Lemma vl_dext_size vl vl' : vl_dext vl vl' -> vl_size vl <= vl_size vl'.
Proof. intros [s H]. unfold vl_size. rewrite H, len_app. lia. Qed.

Lemma entry_ok_ext vl vl' v f e : vl_dext vl vl' -> entry_ok vl v f e -> entry_ok vl' v f e.
Proof.
  intros Hx [H1 [off [H2 H3]]]. split; [exact H1|]. exists off. split; [exact H2|].
  intros Hn. destruct (H3 Hn) as [A [B C]]. split; [exact A|].
  pose proof (vl_dext_size _ _ Hx). split; [lia|].
  destruct Hx as [s Hs]. rewrite Hs. rewrite take_drop_app; [exact C|]. unfold vl_size in B. exact B.
Qed.

Definition vls_dext (vls vls' : list vlog) : Prop :=
  forall v vl, get_vl vls v = Some vl -> exists vl', get_vl vls' v = Some vl' /\ vl_dext vl vl'.

Lemma tx_ok_ext c vls vls' tx : vls_dext vls vls' -> tx_ok c vls tx -> tx_ok c vls' tx.
Proof.
  intros Hx. destruct tx as [|e0 r]; simpl; auto.
  intros [v [vl [f [A [B [C [D E]]]]]]].
  destruct (Hx _ _ C) as [vl' [G X]].
  exists v, vl', f. repeat split; auto.
  eapply Forall_impl; [|exact E]. intros e. apply entry_ok_ext; exact X.
Qed.

(* ---------- reading one entry, in terms of chunk files ---------- *)
Lemma len_zero_nil (b : bytes) : len b = 0 -> b = [].
Proof. unfold len. destruct b; simpl; [auto|lia]. Qed.

Lemma read_ok c st vl v f e :
  c_embedded c = false -> entry_ok vl v f e -> 1 <= v -> v <= c_maxio c ->
  get_vl (s_vlogs st) v = Some vl ->
  (read_entry c st e = RdOk (e_val e) <->
   (len (e_val e) = 0 \/
    forall off, decode_offset (e_voff e) = (v, off) ->
      forall ch, In ch (span (c_fsz c) off (len (e_val e))) -> In ch (vl_live vl))).
Proof.
  intros He [H1 [off [H2 H3]]] Hv1 Hv2 Hg.
  unfold read_entry. rewrite H1.
  destruct (N.eqb_spec (len (e_val e)) 0) as [Z|NZ].
  - rewrite (len_zero_nil _ Z). split; auto.
  - destruct (H3 NZ) as [A [B C]].
    unfold read_value_at. rewrite H1.
    destruct (N.eqb_spec (len (e_val e)) 0) as [Z'|_]; [contradiction|].
    rewrite He, H2.
    destruct (N.eqb_spec v 0); [lia|].
    destruct (N.ltb_spec (c_maxio c) v); [lia|].
    rewrite Hg. unfold vl_read.
    destruct (N.leb_spec (off + len (e_val e)) (vl_size vl)); [|lia].
    rewrite andb_true_r.
    destruct (forallb (chunk_live vl) (span (c_fsz c) off (len (e_val e)))) eqn:F.
    + rewrite C, bytes_eqb_refl. split; [|reflexivity]. intros _. right.
      intros off' Hd ch Hin. assert (off' = off) by congruence. subst off'.
      rewrite forallb_forall in F. apply chunk_live_in. apply F. exact Hin.
    + split; [discriminate|]. intros [Z|Hall]; [contradiction|]. exfalso.
      assert (forallb (chunk_live vl) (span (c_fsz c) off (len (e_val e))) = true); [|congruence].
      apply forallb_forall. intros ch Hin. apply chunk_live_in. eapply Hall; eauto.
Qed.

Definition readable (c : cfg) (st : state) (tx : list entry) : Prop :=
  Forall (fun e => read_entry c st e = RdOk (e_val e)) tx.

(* a transaction stays readable when its value log keeps its data and every chunk from the one
   holding the first entry's offset upwards *)
Lemma readable_transfer c st st' e0 rest v vl f vl' :
  c_embedded c = false -> 1 <= v -> v <= c_maxio c ->
  get_vl (s_vlogs st) v = Some vl -> decode_offset (e_voff e0) = (v, f) ->
  Forall (entry_ok vl v f) (e0 :: rest) ->
  get_vl (s_vlogs st') v = Some vl' -> vl_dext vl vl' ->
  (forall ch, f / c_fsz c <= ch -> In ch (vl_live vl) -> In ch (vl_live vl')) ->
  readable c st (e0 :: rest) -> readable c st' (e0 :: rest).
Proof.
  intros He Hv1 Hv2 Hg Hd Hok Hg' Hx Hlive Hr.
  unfold readable in *. rewrite Forall_forall in *. intros e Hin.
  pose proof (Hok e Hin) as Hoe. pose proof (Hr e Hin) as Hre.
  apply (read_ok c st vl v f e He Hoe Hv1 Hv2 Hg) in Hre.
  apply (read_ok c st' vl' v f e He (entry_ok_ext _ _ _ _ _ Hx Hoe) Hv1 Hv2 Hg').
  destruct Hre as [Z|Hall]; [left; exact Z|].
  destruct (N.eq_dec (len (e_val e)) 0) as [Z|NZ]; [left; exact Z|right].
  intros off Hdo ch Hch. apply Hlive; [|eapply Hall; eauto].
  destruct Hoe as [_ [off' [Hd' H3]]]. assert (off' = off) by congruence. subst off'.
  destruct (H3 NZ) as [A _].
  apply in_span in Hch; [|lia].
  assert (f / c_fsz c <= off / c_fsz c) by (apply div_le_mono_gen; exact A). lia.
Qed.

Lemma Forall2_weaken {A B} (P Q : A -> B -> Prop) la lb :
  (forall a b, P a b -> Q a b) -> Forall2 P la lb -> Forall2 Q la lb.
Proof. intros H F; induction F; constructor; auto. Qed.

Lemma Forall2_len {A B} (P : A -> B -> Prop) la lb : Forall2 P la lb -> length la = length lb.
Proof. intros F; induction F; simpl; auto. Qed.

(* ---------- appendValuesInto ---------- *)
Definition placed (fsz : N) (size0 : N) (vl' : vlog) (kv : bytes * bytes) (off : N) : Prop :=
  (len (snd kv) = 0 -> off = 0) /\
  (len (snd kv) <> 0 ->
     size0 <= off /\ off + len (snd kv) <= vl_size vl' /\
     take (len (snd kv)) (drop off (vl_data vl')) = snd kv /\
     forall ch, In ch (span fsz off (len (snd kv))) -> In ch (vl_live vl')).

Lemma vl_append_spec fsz vl v vl1 off :
  len v <> 0 -> vl_append fsz vl v = (vl1, off) -> cur_live fsz vl ->
  off = vl_size vl /\ vl_data vl1 = vl_data vl ++ v /\ incl (vl_live vl) (vl_live vl1) /\
  cur_live fsz vl1 /\ (forall ch, In ch (span fsz off (len v)) -> In ch (vl_live vl1)).
Proof.
  intros Hn H Hc. unfold vl_append in H.
  assert (E1 : off = vl_size vl) by congruence.
  assert (E2 : vl1 = {| vl_data := vl_data vl ++ v;
            vl_live := vl_live vl ++ seqN (cur_chunk fsz (vl_size vl) + 1)
                         (cur_chunk fsz (vl_size vl + len v) - cur_chunk fsz (vl_size vl)) |}) by congruence.
  clear H. subst vl1 off. cbn [vl_data vl_live].
  assert (Hm : cur_chunk fsz (vl_size vl) <= cur_chunk fsz (vl_size vl + len v))
    by (apply cur_chunk_mono; lia).
  split; [reflexivity|]. split; [reflexivity|]. split; [apply incl_appl, incl_refl|].
  assert (Hin : forall ch, cur_chunk fsz (vl_size vl) <= ch <= cur_chunk fsz (vl_size vl + len v) ->
            In ch (vl_live vl ++ seqN (cur_chunk fsz (vl_size vl) + 1)
                     (cur_chunk fsz (vl_size vl + len v) - cur_chunk fsz (vl_size vl)))).
  { intros ch Hr. apply in_or_app.
    destruct (N.eq_dec ch (cur_chunk fsz (vl_size vl))) as [->|Hne]; [left; exact Hc|].
    right. apply in_seqN. lia. }
  split.
  - unfold cur_live. cbn [vl_live].
    match goal with |- In (cur_chunk fsz ?s) _ => replace s with (vl_size vl + len v)
      by (unfold vl_size; cbn [vl_data]; rewrite len_app; reflexivity) end.
    apply Hin. lia.
  - intros ch Hch. apply in_span in Hch; [|lia]. apply Hin.
    unfold cur_chunk at 2. destruct (N.eqb_spec (vl_size vl + len v) 0); [lia|].
    split; [|lia].
    unfold cur_chunk. destruct (N.eqb_spec (vl_size vl) 0) as [Z|NZ]; [lia|].
    assert ((vl_size vl - 1) / fsz <= vl_size vl / fsz) by (apply div_le_mono_gen; lia). lia.
Qed.

Lemma append_values_spec fsz : forall kvs vl vl' offs,
  append_values fsz vl kvs = (vl', offs) -> cur_live fsz vl ->
  vl_dext vl vl' /\ incl (vl_live vl) (vl_live vl') /\ cur_live fsz vl' /\
  vl_size vl' = vl_size vl + kvs_bytes kvs /\
  Forall2 (placed fsz (vl_size vl) vl') kvs offs /\
  (match kvs, offs with
   | kv :: _, off :: _ => len (snd kv) <> 0 -> off = vl_size vl
   | _, _ => True
   end).
Proof.
  induction kvs as [|[k v] r IH]; intros vl vl' offs H Hc; cbn [append_values] in H.
  - assert (vl' = vl) by congruence. assert (offs = []) by congruence. subst.
    repeat split; auto using vl_dext_refl, incl_refl. simpl; lia.
  - destruct (N.eqb_spec (len v) 0) as [Z|NZ].
    + destruct (append_values fsz vl r) as [vla offsa] eqn:E.
      assert (vl' = vla) by congruence. assert (offs = 0 :: offsa) by congruence. subst.
      destruct (IH _ _ _ E Hc) as [A [B [C [D [F _]]]]].
      repeat split; auto.
      * cbn [kvs_bytes]. lia.
      * constructor; [|exact F]. split; simpl; [auto|contradiction].
      * simpl. contradiction.
    + destruct (vl_append fsz vl v) as [vl1 off] eqn:Ea.
      destruct (append_values fsz vl1 r) as [vla offsa] eqn:E.
      assert (vl' = vla) by congruence. assert (offs = off :: offsa) by congruence. subst.
      destruct (vl_append_spec _ _ _ _ _ NZ Ea Hc) as [P1 [P2 [P3 [P4 P5]]]].
      destruct (IH _ _ _ E P4) as [A [B [C [D [F _]]]]].
      assert (S1 : vl_size vl1 = vl_size vl + len v) by (unfold vl_size; rewrite P2, len_app; reflexivity).
      split; [destruct A as [s Hs]; exists (v ++ s); rewrite Hs, P2, app_assoc; reflexivity|].
      split; [eapply incl_tran; eauto|]. split; [exact C|].
      split; [cbn [kvs_bytes]; lia|].
      split.
      * constructor.
        -- split; cbn [snd]; [contradiction|]. intros _.
           pose proof (vl_dext_size _ _ A).
           split; [lia|]. split; [lia|]. split.
           ++ destruct A as [s Hs]. rewrite Hs, take_drop_app.
              ** rewrite P2, P1. apply take_drop_exact.
              ** unfold vl_size in S1. rewrite P1. unfold vl_size. lia.
           ++ intros ch Hch. apply B. apply P5. exact Hch.
        -- eapply Forall2_weaken; [|exact F]. intros kv o [Q1 Q2]. split; [exact Q1|].
           intros Hn. destruct (Q2 Hn) as [R1 R2]. split; [lia|exact R2].
      * cbn [snd]. intros _. exact P1.
Qed.

(* ---------- the entries appendValuesIntoAnyVLog hands to precommit ---------- *)
Lemma mk_entries_ok fsz size0 vl' v f : forall kvs offs,
  v < 128 -> vl_size vl' < two55 -> f <= size0 ->
  Forall2 (placed fsz size0 vl') kvs offs ->
  Forall (entry_ok vl' v f) (mk_entries kvs offs v) /\
  Forall (fun e => len (e_val e) = 0 \/
            forall off, decode_offset (e_voff e) = (v, off) ->
              forall ch, In ch (span fsz off (len (e_val e))) -> In ch (vl_live vl'))
         (mk_entries kvs offs v).
Proof.
  intros kvs offs Hv Hs Hf F. induction F as [|[k val] off kvs offs [P1 P2] F IH]; cbn [mk_entries].
  - split; constructor.
  - destruct IH as [IH1 IH2]. cbn [snd] in *.
    assert (Hoff : off < two55).
    { destruct (N.eq_dec (len val) 0) as [Z|NZ]; [rewrite (P1 Z); reflexivity|].
      destruct (P2 NZ) as [_ [B _]]. lia. }
    split; constructor; auto.
    + split; [reflexivity|]. exists off. cbn [e_voff e_val].
      split; [apply decode_encode; auto|].
      intros NZ. destruct (P2 NZ) as [A [B [C D]]]. split; [lia|]. split; [exact B|exact C].
    + cbn [e_voff e_val]. destruct (N.eq_dec (len val) 0) as [Z|NZ]; [left; exact Z|right].
      intros off' Hd. rewrite decode_encode in Hd by auto.
      assert (off' = off) by congruence. subst off'. destruct (P2 NZ) as [_ [_ [_ D]]]. exact D.
Qed.

Lemma mk_entries_head kvs offs v k val r :
  kvs = (k, val) :: r -> length offs = length kvs ->
  exists off ro, offs = off :: ro /\
    mk_entries kvs offs v = {| e_key := k; e_val := val; e_vlen := len val; e_voff := encode_offset off v |}
                            :: mk_entries r ro v.
Proof.
  intros -> Hl. destruct offs as [|off ro]; [simpl in Hl; lia|]. exists off, ro. split; reflexivity.
Qed.

Definition sizes_le (vls : list vlog) (b : N) : Prop :=
  forall v vl, get_vl vls v = Some vl -> vl_size vl <= b.

Definition vls_grow (vls vls' : list vlog) : Prop :=
  forall v vl, get_vl vls v = Some vl ->
    exists vl', get_vl vls' v = Some vl' /\ vl_dext vl vl' /\ incl (vl_live vl) (vl_live vl').

Lemma vls_grow_refl vls : vls_grow vls vls.
Proof. intros v vl H; exists vl; repeat split; auto using vl_dext_refl, incl_refl. Qed.

Lemma vls_grow_dext vls vls' : vls_grow vls vls' -> vls_dext vls vls'.
Proof. intros H v vl G. destruct (H v vl G) as [vl' [A [B _]]]. exists vl'; auto. Qed.

Lemma readable_same c st st' tx : s_vlogs st' = s_vlogs st -> readable c st tx -> readable c st' tx.
Proof.
  intros E H. unfold readable in *. eapply Forall_impl; [|exact H]. intros e He.
  unfold read_entry, read_value_at in *. rewrite E. exact He.
Qed.

Lemma readable_grow c st st' tx :
  c_embedded c = false -> tx_ok c (s_vlogs st) tx -> vls_grow (s_vlogs st) (s_vlogs st') ->
  readable c st tx -> readable c st' tx.
Proof.
  intros He Hok Hg Hr. destruct tx as [|e0 rest]; [constructor|].
  destruct Hok as [v [vl [f [A [B [C [D E]]]]]]].
  destruct (Hg _ _ C) as [vl' [G [X I]]].
  eapply (readable_transfer c st st' e0 rest v vl f vl'); eauto.
Qed.

Lemma find_pending_in w p es : find_pending w p = Some es -> In (w, es) p.
Proof.
  unfold find_pending. destruct (find (fun x => fst x =? w) p) as [[w' es']|] eqn:F; [|discriminate].
  intros H. apply find_some in F as [F1 F2]. simpl in F2. apply N.eqb_eq in F2.
  simpl in H. assert (es' = es) by congruence. subst. exact F1.
Qed.

Lemma remove_pending_incl w p : incl (remove_pending w p) p.
Proof. intros x H. unfold remove_pending in H. apply filter_In in H. tauto. Qed.

(* ---------- do_append ---------- *)
Definition append_post (c : cfg) (st : state) (b : N) (kvs : list (bytes * bytes)) (st' : state) : Prop :=
  WF c st' /\ sizes_le (s_vlogs st') (b + kvs_bytes kvs) /\ vls_grow (s_vlogs st) (s_vlogs st') /\
  s_txs st' = s_txs st /\ s_valmux st' = s_valmux st /\ s_cut st' = s_cut st /\
  (forall p, In p (s_pending st') -> In p (s_pending st) \/ readable c st' (snd p)).

Lemma do_append_spec c st w v kvs b :
  c_embedded c = false -> c_maxio c <= 127 -> WF c st ->
  sizes_le (s_vlogs st) b -> b + kvs_bytes kvs < two55 ->
  append_post c st b kvs (do_append c st w v kvs).
Proof.
  intros He Hm Hwf Hs Hb.
  assert (Same : append_post c st b kvs st).
  { unfold append_post. split; [exact Hwf|]. split; [intros x vl G; apply Hs in G; lia|].
    split; [apply vls_grow_refl|]. repeat split; auto. }
  unfold do_append. destruct (find_pending w (s_pending st)); [exact Same|].
  rewrite He. destruct (get_vl (s_vlogs st) v) as [vl|] eqn:G; [|exact Same].
  destruct (N.ltb_spec (c_maxio c) v) as [L|L]; [exact Same|].
  clear Same.
  destruct (append_values (c_fsz c) vl kvs) as [vl' offs] eqn:E.
  pose proof (wf_cur _ _ Hwf _ _ G) as Hc.
  destruct (append_values_spec _ _ _ _ _ E Hc) as [A [B [C [D [F Hd]]]]].
  pose proof (get_vl_some_pos _ _ _ G) as [Hv1 _].
  assert (Grow : vls_grow (s_vlogs st) (set_vl (s_vlogs st) v vl')).
  { intros x vlx Gx. destruct (N.eq_dec v x) as [->|Hne].
    - exists vl'. rewrite (get_set_same _ _ _ _ Gx). assert (vlx = vl) by congruence. subst. auto.
    - exists vlx. rewrite get_set_other by auto. repeat split; auto using vl_dext_refl, incl_refl. }
  assert (Sz : vl_size vl' < two55) by (pose proof (Hs _ _ G); lia).
  (* the new transaction *)
  assert (New : tx_ok c (set_vl (s_vlogs st) v vl') (mk_entries kvs offs v) /\
                forall stx, s_vlogs stx = set_vl (s_vlogs st) v vl' -> readable c stx (mk_entries kvs offs v)).
  { destruct kvs as [|[k val] r].
    - simpl. split; [exact I|]. intros; constructor.
    - set (kvs := (k, val) :: r) in *.
      assert (Ek : kvs = (k, val) :: r) by reflexivity. clearbody kvs.
      assert (Hl : length offs = length kvs) by (symmetry; eapply Forall2_len; eauto).
      destruct (mk_entries_head kvs offs v k val r Ek Hl) as [off [ro [Eo Em]]].
      set (f := off).
      assert (Hf : f <= vl_size vl).
      { subst f. rewrite Eo in Hd. rewrite Ek, Eo in F. inversion F; subst. destruct H2 as [P1 P2]. cbn [snd] in *.
        destruct (N.eq_dec (len val) 0) as [Z|NZ]; [rewrite (P1 Z); lia|]. rewrite (Hd NZ). lia. }
      assert (Hoff : off < two55).
      { rewrite Ek, Eo in F. inversion F; subst. destruct H2 as [P1 P2]. cbn [snd] in *.
        destruct (N.eq_dec (len val) 0) as [Z|NZ]; [rewrite (P1 Z); reflexivity|].
        destruct (P2 NZ) as [_ [Q _]]. lia. }
      destruct (mk_entries_ok (c_fsz c) (vl_size vl) vl' v f kvs offs ltac:(lia) Sz Hf F) as [M1 M2].
      assert (Dec : decode_offset (e_voff {| e_key := k; e_val := val; e_vlen := len val; e_voff := encode_offset off v |}) = (v, f)).
      { cbn [e_voff]. apply decode_encode; auto. lia. }
      split.
      + rewrite Em in *. exists v, vl', f. repeat split; auto. apply get_set_same with (vl := vl). exact G.
      + intros stx Hx. unfold readable. rewrite Forall_forall in *. intros e Hin.
        assert (Gx : get_vl (s_vlogs stx) v = Some vl') by (rewrite Hx; eapply get_set_same; eauto).
        apply (read_ok c stx vl' v f e He (M1 e Hin) Hv1 L Gx). exact (M2 e Hin). }
  destruct New as [New1 New2].
  unfold append_post. cbn [s_vlogs s_txs s_pending s_valmux s_cut].
  split.
  { constructor; cbn [s_vlogs s_txs s_pending].
    - rewrite set_vl_length. apply (wf_len _ _ Hwf).
    - intros x vlx Gx. destruct (N.eq_dec v x) as [->|Hne].
      + rewrite (get_set_same _ _ _ _ G) in Gx. assert (vlx = vl') by congruence. subst. exact C.
      + rewrite get_set_other in Gx by auto. eapply wf_cur; eauto.
    - eapply Forall_impl; [|apply (wf_txs _ _ Hwf)]. intros tx. apply tx_ok_ext. apply vls_grow_dext; exact Grow.
    - apply Forall_app. split.
      + eapply Forall_impl; [|apply (wf_pend _ _ Hwf)]. intros p. apply tx_ok_ext. apply vls_grow_dext; exact Grow.
      + constructor; [exact New1|constructor]. }
  split.
  { intros x vlx Gx. destruct (N.eq_dec v x) as [->|Hne].
    - rewrite (get_set_same _ _ _ _ G) in Gx. assert (vlx = vl') by congruence. subst.
      pose proof (Hs _ _ G). lia.
    - rewrite get_set_other in Gx by auto. apply Hs in Gx. lia. }
  split; [exact Grow|]. repeat split; auto.
  intros p Hp. apply in_app_or in Hp as [Hp|[<-|[]]]; [left; exact Hp|right].
  cbn [snd]. apply New2. reflexivity.
Qed.

(* ---------- transactions by id ---------- *)
Lemma get_tx_range txs id tx : get_tx txs id = Some tx -> 1 <= id /\ id <= N.of_nat (length txs).
Proof.
  unfold get_tx. destruct (N.eqb_spec id 0); [discriminate|]. intros H.
  assert (N.to_nat (id - 1) < length txs)%nat by (apply nth_error_Some; congruence). lia.
Qed.

Lemma get_tx_in txs id tx : get_tx txs id = Some tx -> In tx txs.
Proof.
  unfold get_tx. destruct (id =? 0); [discriminate|]. apply nth_error_In.
Qed.

Lemma get_tx_app txs es id tx :
  get_tx (txs ++ [es]) id = Some tx ->
  get_tx txs id = Some tx \/ (id = N.of_nat (length txs) + 1 /\ tx = es).
Proof.
  unfold get_tx. destruct (N.eqb_spec id 0); [discriminate|]. intros H.
  destruct (Nat.lt_ge_cases (N.to_nat (id - 1)) (length txs)) as [L|L].
  - rewrite nth_error_app1 in H by exact L. left; exact H.
  - rewrite nth_error_app2 in H by exact L.
    destruct (N.to_nat (id - 1) - length txs)%nat as [|k] eqn:E; simpl in H.
    + right. split; [lia|congruence].
    + destruct k; discriminate.
Qed.

Lemma first_entry_of txs id e0 rest : get_tx txs id = Some (e0 :: rest) -> first_entry txs id = Ok (Some e0).
Proof. unfold first_entry. intros ->. reflexivity. Qed.

(* ---------- TruncateUptoTx ---------- *)
(* Whatever the back walk collected, after the front walk the value log `w` keeps its data,
   loses only chunk files, keeps the chunk being written, and keeps every chunk at or above the
   one that holds the first entry's offset of ANY committed transaction with id >= n placed in w. *)
Lemma do_truncate_spec c st n st' d :
  c_embedded c = false -> 1 <= c_maxio c -> do_truncate c st n = (st', d) ->
  s_txs st' = s_txs st /\ s_pending st' = s_pending st /\ s_valmux st' = s_valmux st /\
  length (s_vlogs st') = length (s_vlogs st) /\
  (s_cut st' = s_cut st \/ (s_cut st' = N.max (s_cut st) n /\ 1 <= n <= committed st)) /\
  forall w vl, get_vl (s_vlogs st) w = Some vl ->
    exists vl', get_vl (s_vlogs st') w = Some vl' /\ vl_data vl' = vl_data vl /\
      incl (vl_live vl') (vl_live vl) /\ (cur_live (c_fsz c) vl -> cur_live (c_fsz c) vl') /\
      (forall id e0 rest f, n <= id -> get_tx (s_txs st) id = Some (e0 :: rest) ->
         decode_offset (e_voff e0) = (w, f) ->
         forall ch, f / c_fsz c <= ch -> In ch (vl_live vl) -> In ch (vl_live vl')).
Proof.
  intros He Hm1 H. unfold do_truncate in H. rewrite He in H.
  assert (Same : st' = st ->
    s_txs st' = s_txs st /\ s_pending st' = s_pending st /\ s_valmux st' = s_valmux st /\
    length (s_vlogs st') = length (s_vlogs st) /\
    (s_cut st' = s_cut st \/ (s_cut st' = N.max (s_cut st) n /\ 1 <= n <= committed st)) /\
    forall w vl, get_vl (s_vlogs st) w = Some vl ->
      exists vl', get_vl (s_vlogs st') w = Some vl' /\ vl_data vl' = vl_data vl /\
        incl (vl_live vl') (vl_live vl) /\ (cur_live (c_fsz c) vl -> cur_live (c_fsz c) vl') /\
        (forall id e0 rest f, n <= id -> get_tx (s_txs st) id = Some (e0 :: rest) ->
           decode_offset (e_voff e0) = (w, f) ->
           forall ch, f / c_fsz c <= ch -> In ch (vl_live vl) -> In ch (vl_live vl'))).
  { intros ->. repeat split; auto. intros w vl G. exists vl. repeat split; auto using incl_refl. }
  destruct (back_walk (c_maxio c) (s_txs st) (N.to_nat n) []) as [t1|e|] eqn:B;
    [|apply Same; congruence|apply Same; congruence].
  destruct (front_walk (s_txs st) n (N.to_nat (committed st + 1 - n)) t1) as [t2|e|] eqn:F;
    [|apply Same; congruence|apply Same; congruence].
  clear Same.
  destruct (discard_all c (s_vlogs st) t2) as [vls dd] eqn:D.
  assert (st' = {| s_vlogs := vls; s_txs := s_txs st; s_pending := s_pending st;
                   s_valmux := s_valmux st; s_cut := N.max (s_cut st) n |}) by congruence.
  subst st'. cbn [s_vlogs s_txs s_pending s_valmux s_cut].
  assert (N1 : keys_nodup t1) by (eapply back_walk_nodup; [exact B|constructor]).
  destruct (front_walk_spec _ _ _ _ _ F N1) as [N2 [_ P]].
  (* n is a committed id: the first back step reads it *)
  assert (Hn : 1 <= n <= committed st).
  { destruct (N.to_nat n) as [|i] eqn:En.
    - (* n = 0: the front walk starts at id 0, which readTxOffsetAt refuses *)
      exfalso. assert (n = 0) by lia. subst n.
      replace (N.to_nat (committed st + 1 - 0)) with (S (N.to_nat (committed st))) in F by lia.
      cbn [front_walk] in F. unfold first_entry, get_tx in F. simpl in F. discriminate.
    - cbn [back_walk] in B. simpl length in B.
      destruct (N.of_nat 0 =? c_maxio c) eqn:Em.
      + apply N.eqb_eq in Em. simpl in Em. lia.
      + destruct (first_entry (s_txs st) (N.of_nat (S i))) as [o|e|] eqn:Fe; try discriminate.
        unfold first_entry in Fe. destruct (get_tx (s_txs st) (N.of_nat (S i))) as [tx|] eqn:G; [|discriminate].
        apply get_tx_range in G. unfold committed. lia. }
  split; [reflexivity|]. split; [reflexivity|]. split; [reflexivity|].
  split; [exact (discard_all_length _ _ _ _ _ D)|].
  split; [right; split; [reflexivity|exact Hn]|].
  { intros w vl G.
    destruct (discard_all_spec c t2 _ _ _ w vl D N2 G) as [vl' [A1 [A2 [A3 [A4 A5]]]]].
    exists vl'. repeat split; auto.
    intros id e0 rest f Hid Hg Hd ch Hle Hin.
    apply (A5 f); auto.
    intros x Hx. eapply (P id e0 w f); eauto using first_entry_of.
    apply get_tx_range in Hg. unfold committed. lia. }
Qed.

Lemma do_truncate_wf c st n st' d :
  c_embedded c = false -> 1 <= c_maxio c -> WF c st -> do_truncate c st n = (st', d) -> WF c st'.
Proof.
  intros He Hm Hwf H.
  destruct (do_truncate_spec _ _ _ _ _ He Hm H) as [T1 [T2 [T3 [T4 [_ T5]]]]].
  assert (Dx : vls_dext (s_vlogs st) (s_vlogs st')).
  { intros w vl G. destruct (T5 _ _ G) as [vl' [A [B _]]]. exists vl'. split; [exact A|].
    exists []. rewrite B. symmetry; apply app_nil_r. }
  constructor.
  - rewrite T4. apply (wf_len _ _ Hwf).
  - intros w vl' G'.
    assert (exists vl, get_vl (s_vlogs st) w = Some vl) as [vl G].
    { unfold get_vl in *. destruct (w =? 0); [discriminate|].
      destruct (nth_error (s_vlogs st) (N.to_nat (w - 1))) eqn:E; [eauto|].
      apply nth_error_None in E. rewrite <- T4 in E. apply nth_error_None in E. congruence. }
    destruct (T5 _ _ G) as [vl2 [A [_ [_ [C _]]]]].
    assert (vl2 = vl') by congruence. subst. apply C. eapply wf_cur; eauto.
  - rewrite T1. eapply Forall_impl; [|apply (wf_txs _ _ Hwf)]. intros tx. apply tx_ok_ext; exact Dx.
  - rewrite T2. eapply Forall_impl; [|apply (wf_pend _ _ Hwf)]. intros p. apply tx_ok_ext; exact Dx.
Qed.

(* THE safety step: a committed transaction with id >= n that could be read before
   TruncateUptoTx(n) can be read after it, with the same bytes *)
Lemma truncate_keeps_readable c st n st' d id tx :
  c_embedded c = false -> 1 <= c_maxio c -> WF c st -> do_truncate c st n = (st', d) ->
  n <= id -> get_tx (s_txs st) id = Some tx -> readable c st tx -> readable c st' tx.
Proof.
  intros He Hm Hwf H Hid Hg Hr.
  destruct tx as [|e0 rest]; [constructor|].
  pose proof (wf_txs _ _ Hwf) as Ht. rewrite Forall_forall in Ht.
  destruct (Ht _ (get_tx_in _ _ _ Hg)) as [v [vl [f [A [B [C [D E]]]]]]].
  destruct (do_truncate_spec _ _ _ _ _ He Hm H) as [_ [_ [_ [_ [_ T5]]]]].
  destruct (T5 _ _ C) as [vl' [G' [Dd [_ [_ K]]]]].
  eapply (readable_transfer c st st' e0 rest v vl f vl'); eauto.
  exists []. rewrite Dd. symmetry; apply app_nil_r.
Qed.

(* ---------- the invariant of runs in which no truncation meets a stalled committer ---------- *)
Record Inv (c : cfg) (st : state) : Prop := {
  inv_wf : WF c st;
  inv_cut : s_cut st <= committed st;
  inv_txs : forall id tx, s_cut st <= id -> get_tx (s_txs st) id = Some tx -> readable c st tx;
  inv_pend : forall p, In p (s_pending st) -> readable c st (snd p) }.

Lemma init_wf c : WF c (init c).
Proof.
  constructor; simpl.
  - apply repeat_length.
  - intros v vl G. unfold get_vl in G. destruct (v =? 0); [discriminate|].
    apply nth_error_In in G. apply repeat_spec in G. subst. unfold cur_live; simpl. auto.
  - constructor.
  - constructor.
Qed.

Lemma init_inv c : Inv c (init c).
Proof.
  constructor; auto using init_wf; simpl.
  - unfold committed; simpl; lia.
  - intros id tx _ H. unfold get_tx in H. destruct (id =? 0); [discriminate|].
    destruct (N.to_nat (id - 1)); discriminate.
  - tauto.
Qed.

Lemma init_sizes c : sizes_le (s_vlogs (init c)) 0.
Proof.
  intros v vl G. simpl in G. unfold get_vl in G. destruct (v =? 0); [discriminate|].
  apply nth_error_In in G. apply repeat_spec in G. subst. unfold vl_size, vl_empty, len; simpl. lia.
Qed.

Definition op_bytes (o : op) : N := match o with OAppend _ _ kvs => kvs_bytes kvs | _ => 0 end.

Lemma ops_bytes_cons o r : ops_bytes (o :: r) = op_bytes o + ops_bytes r.
Proof. destruct o; reflexivity. Qed.

Lemma do_export_frame fixed c st id :
  let st' := fst (do_export fixed c st id) in
  s_vlogs st' = s_vlogs st /\ s_txs st' = s_txs st /\ s_pending st' = s_pending st /\ s_cut st' = s_cut st.
Proof.
  unfold do_export. destruct (get_tx (s_txs st) id); [|simpl; auto].
  destruct (export_loop fixed c st l 0 false [] (s_valmux st)). simpl. auto.
Qed.

Lemma wf_frame c st st' :
  s_vlogs st' = s_vlogs st -> s_txs st' = s_txs st -> incl (s_pending st') (s_pending st) ->
  WF c st -> WF c st'.
Proof.
  intros E1 E2 E3 H. constructor.
  - rewrite E1; apply (wf_len _ _ H).
  - rewrite E1; apply (wf_cur _ _ H).
  - rewrite E1, E2; apply (wf_txs _ _ H).
  - rewrite E1. pose proof (wf_pend _ _ H) as P. rewrite Forall_forall in *. auto.
Qed.

Lemma inv_frame c st st' :
  s_vlogs st' = s_vlogs st -> s_txs st' = s_txs st -> incl (s_pending st') (s_pending st) ->
  s_cut st' = s_cut st -> Inv c st -> Inv c st'.
Proof.
  intros E1 E2 E3 E4 H. constructor.
  - eapply wf_frame; eauto. apply (inv_wf _ _ H).
  - rewrite E4. unfold committed. rewrite E2. apply (inv_cut _ _ H).
  - intros id tx Hc Hg. rewrite E4 in Hc. rewrite E2 in Hg.
    eapply readable_same; [exact E1|]. eapply inv_txs; eauto.
  - intros p Hp. eapply readable_same; [exact E1|]. eapply inv_pend; eauto.
Qed.

(* one step keeps WF (no condition on truncations) *)
Lemma step_wf fixed c st o b :
  c_embedded c = false -> 1 <= c_maxio c -> c_maxio c <= 127 ->
  WF c st -> sizes_le (s_vlogs st) b -> b + op_bytes o < two55 ->
  WF c (fst (step fixed c st o)) /\ sizes_le (s_vlogs (fst (step fixed c st o))) (b + op_bytes o).
Proof.
  intros He Hm1 Hm Hwf Hs Hb.
  assert (Hs0 : sizes_le (s_vlogs st) (b + 0)) by (intros v vl G; apply Hs in G; lia).
  destruct o as [w v kvs|w|w|n|id| | |]; cbn [step op_bytes fst] in *.
  - destruct (do_append_spec c st w v kvs b He Hm Hwf Hs Hb) as [A [B _]]. split; auto.
  - unfold do_commit. destruct (find_pending w (s_pending st)) as [es|] eqn:F; [|split; [exact Hwf|exact Hs0]].
    split; [|exact Hs0].
    constructor; cbn [s_vlogs s_txs s_pending]; try apply Hwf.
    + apply Forall_app. split; [apply Hwf|]. constructor; [|constructor].
      pose proof (wf_pend _ _ Hwf) as P. rewrite Forall_forall in P.
      apply (P _ (find_pending_in _ _ _ F)).
    + pose proof (wf_pend _ _ Hwf) as P. rewrite Forall_forall in *.
      intros p Hp. apply P. eapply remove_pending_incl; eauto.
  - split; [|exact Hs0].
    apply (wf_frame c st (do_abort st w)); [reflexivity|reflexivity|apply remove_pending_incl|exact Hwf].
  - destruct (do_truncate c st n) as [st' d] eqn:T. cbn [fst]. split.
    + eapply do_truncate_wf; eauto.
    + destruct (do_truncate_spec _ _ _ _ _ He Hm1 T) as [_ [_ [_ [T4 [_ T5]]]]].
      intros w vl' G'.
      assert (exists vl, get_vl (s_vlogs st) w = Some vl) as [vl G].
      { unfold get_vl in *. destruct (w =? 0); [discriminate|].
        destruct (nth_error (s_vlogs st) (N.to_nat (w - 1))) eqn:E; [eauto|].
        apply nth_error_None in E. rewrite <- T4 in E. apply nth_error_None in E. congruence. }
      destruct (T5 _ _ G) as [vl2 [A [B _]]]. assert (vl2 = vl') by congruence. subst.
      apply Hs in G. unfold vl_size in *. rewrite B. lia.
  - destruct (do_export fixed c st id) as [st' x] eqn:X. cbn [fst].
    pose proof (do_export_frame fixed c st id) as Fr. rewrite X in Fr. cbn [fst] in Fr.
    destruct Fr as [E1 [E2 [E3 E4]]]. split.
    + eapply wf_frame; eauto. rewrite E3; apply incl_refl.
    + rewrite E1. exact Hs0.
  - split; [|exact Hs0].
    apply (wf_frame c st (do_reopen st)); [reflexivity|reflexivity|intros x []|exact Hwf].
  - split; [exact Hwf|exact Hs0].
  - split; [exact Hwf|exact Hs0].
Qed.

(* one step keeps the invariant, provided a truncation finds no stalled committer *)
Lemma step_inv fixed c st o b :
  c_embedded c = false -> 1 <= c_maxio c -> c_maxio c <= 127 ->
  Inv c st -> sizes_le (s_vlogs st) b -> b + op_bytes o < two55 ->
  (match o with OTruncate _ => s_pending st = [] | _ => True end) ->
  Inv c (fst (step fixed c st o)).
Proof.
  intros He Hm1 Hm Hinv Hs Hb Hq.
  pose proof (inv_wf _ _ Hinv) as Hwf.
  destruct o as [w v kvs|w|w|n|id| | |]; cbn [step op_bytes fst] in *.
  - destruct (do_append_spec c st w v kvs b He Hm Hwf Hs Hb) as [A [B [G [E1 [E2 [E3 P]]]]]].
    constructor; auto.
    + rewrite E3. unfold committed. rewrite E1. apply (inv_cut _ _ Hinv).
    + intros id tx Hc Hg. rewrite E3 in Hc. rewrite E1 in Hg.
      eapply readable_grow; eauto.
      * pose proof (wf_txs _ _ Hwf) as Ht. rewrite Forall_forall in Ht. apply Ht. eapply get_tx_in; eauto.
      * eapply inv_txs; eauto.
    + intros p Hp. destruct (P p Hp) as [Old|New]; [|exact New].
      eapply readable_grow; eauto.
      * pose proof (wf_pend _ _ Hwf) as Ht. rewrite Forall_forall in Ht. apply Ht. exact Old.
      * eapply inv_pend; eauto.
  - unfold do_commit. destruct (find_pending w (s_pending st)) as [es|] eqn:F; [|exact Hinv].
    pose proof (step_wf fixed c st (OCommit w) b He Hm1 Hm Hwf Hs Hb) as [W _].
    cbn [step fst] in W. unfold do_commit in W. rewrite F in W.
    constructor; auto; cbn [s_vlogs s_txs s_pending s_cut].
    + pose proof (inv_cut _ _ Hinv). unfold committed in *. cbn [s_txs]. rewrite app_length. simpl. lia.
    + intros id tx Hc Hg. apply get_tx_app in Hg as [Hg|[_ ->]].
      * eapply readable_same; [|eapply inv_txs; eauto]. reflexivity.
      * eapply readable_same; [|eapply (inv_pend _ _ Hinv (w, es)); eauto using find_pending_in]. reflexivity.
    + intros p Hp. eapply readable_same; [|eapply inv_pend; eauto using remove_pending_incl]. reflexivity.
      eapply remove_pending_incl; eauto.
  - apply (inv_frame c st (do_abort st w)); [reflexivity|reflexivity|apply remove_pending_incl|reflexivity|exact Hinv].
  - destruct (do_truncate c st n) as [st' d] eqn:T. cbn [fst].
    destruct (do_truncate_spec _ _ _ _ _ He Hm1 T) as [T1 [T2 [T3 [T4 [T6 T5]]]]].
    constructor.
    + eapply do_truncate_wf; eauto.
    + unfold committed. rewrite T1. pose proof (inv_cut _ _ Hinv). unfold committed in *.
      destruct T6 as [->|[-> Hn]]; lia.
    + intros id tx Hc Hg. rewrite T1 in Hg.
      destruct T6 as [E|[E Hn]].
      * (* the walks failed: nothing was deleted *)
        rewrite E in Hc.
        destruct (N.le_gt_cases n id) as [L|L].
        -- eapply truncate_keeps_readable; eauto. eapply inv_txs; eauto.
        -- (* also covered: state unchanged or only lower ids affected *)
           unfold do_truncate in T. rewrite He in T.
           destruct (back_walk (c_maxio c) (s_txs st) (N.to_nat n) []) as [t1|e|].
           ++ destruct (front_walk (s_txs st) n (N.to_nat (committed st + 1 - n)) t1) as [t2|e|].
              ** destruct (discard_all c (s_vlogs st) t2) as [vls dd].
                 assert (S : s_cut st' = N.max (s_cut st) n) by (inversion T; reflexivity).
                 (* then max cut n = cut, so n <= cut <= id, contradiction with id < n *)
                 lia.
              ** assert (st' = st) by congruence. subst. eapply inv_txs; eauto.
              ** assert (st' = st) by congruence. subst. eapply inv_txs; eauto.
           ++ assert (st' = st) by congruence. subst. eapply inv_txs; eauto.
           ++ assert (st' = st) by congruence. subst. eapply inv_txs; eauto.
      * rewrite E in Hc. eapply truncate_keeps_readable; eauto; [lia|]. eapply inv_txs; eauto. lia.
    + rewrite T2, Hq. intros p [].
  - destruct (do_export fixed c st id) as [st' x] eqn:X. cbn [fst].
    pose proof (do_export_frame fixed c st id) as Fr. rewrite X in Fr. cbn [fst] in Fr.
    destruct Fr as [E1 [E2 [E3 E4]]]. eapply inv_frame; eauto. rewrite E3; apply incl_refl.
  - apply (inv_frame c st (do_reopen st)); [reflexivity|reflexivity|intros x []|reflexivity|exact Hinv].
  - exact Hinv.
  - exact Hinv.
Qed.
